//! Correspondence-check harness for nlordell/hdwallet.
//!
//! Line protocol: each request line is `op<TAB>hexarg<TAB>hexarg...`; each response line is
//! `ok<TAB>hexfield...`, `err<TAB>hex(message)` or `panic<TAB>hex(message)`. Every call into
//! hdwallet runs under `catch_unwind`. Arguments are raw bytes (hex); text is UTF-8.

use anyhow::{anyhow, bail, Context as _, Result};
use ethdigest::Digest;
use ethnum::U256;
use hdwallet::{
    account::{PrivateKey, Signature},
    hdk,
    message::EthereumMessage,
    mnemonic::Mnemonic,
    transaction::Transaction,
    typeddata::TypedData,
};
use std::{
    io::{self, BufRead as _, Write as _},
    panic::{self, AssertUnwindSafe},
};

type Fields = Vec<Vec<u8>>;

fn text(arg: &[u8]) -> Result<&str> {
    std::str::from_utf8(arg).context("harness: argument is not UTF-8")
}

fn arg<'a>(args: &'a [Vec<u8>], i: usize) -> Result<&'a [u8]> {
    args.get(i)
        .map(|a| a.as_slice())
        .ok_or_else(|| anyhow!("harness: missing argument {i}"))
}

fn u256_arg(bytes: &[u8]) -> Result<U256> {
    if bytes.len() > 32 {
        bail!("harness: integer wider than 256 bits");
    }
    let mut buf = [0u8; 32];
    buf[32 - bytes.len()..].copy_from_slice(bytes);
    Ok(U256::from_be_bytes(buf))
}

fn digest_arg(bytes: &[u8]) -> Result<Digest> {
    let raw: [u8; 32] = bytes
        .try_into()
        .map_err(|_| anyhow!("harness: digest must be 32 bytes"))?;
    Ok(Digest(raw))
}

fn sig_fields(sig: &Signature) -> Fields {
    vec![
        sig.r().to_be_bytes().to_vec(),
        sig.s().to_be_bytes().to_vec(),
        vec![sig.y_parity().as_u8()],
    ]
}

fn sig_arg(args: &[Vec<u8>], i: usize) -> Result<Signature> {
    let r = u256_arg(arg(args, i)?)?;
    let s = u256_arg(arg(args, i + 1)?)?;
    let p = arg(args, i + 2)?;
    Ok(Signature::from_parts(r, s, *p.first().unwrap_or(&0)))
}

/// serde_json's own parse of a document, in a form the model generator can read back:
/// n | t | f | u<dec> | i<dec> | d<16 hex digits of the f64 bits> | s<hex utf8> |
/// a(<v>,<v>...) | o(<hexkey>:<v>,...)
fn dump_json(v: &serde_json::Value, out: &mut String) {
    use serde_json::Value::*;
    match v {
        Null => out.push('n'),
        Bool(true) => out.push('t'),
        Bool(false) => out.push('f'),
        Number(n) => {
            if let Some(u) = n.as_u64() {
                out.push_str(&format!("u{u}"));
            } else if let Some(i) = n.as_i64() {
                out.push_str(&format!("i{i}"));
            } else {
                let f = n.as_f64().unwrap_or(f64::NAN);
                out.push_str(&format!("d{:016x}", f.to_bits()));
            }
        }
        String(s) => {
            out.push('s');
            out.push_str(&hex::encode(s.as_bytes()));
        }
        Array(items) => {
            out.push_str("a(");
            for (i, item) in items.iter().enumerate() {
                if i > 0 {
                    out.push(',');
                }
                dump_json(item, out);
            }
            out.push(')');
        }
        Object(map) => {
            out.push_str("o(");
            for (i, (k, item)) in map.iter().enumerate() {
                if i > 0 {
                    out.push(',');
                }
                out.push_str(&hex::encode(k.as_bytes()));
                out.push(':');
                dump_json(item, out);
            }
            out.push(')');
        }
    }
}

fn dispatch(op: &str, args: &[Vec<u8>]) -> Result<Fields> {
    Ok(match op {
        "ping" => vec![b"pong".to_vec()],

        // ---- mnemonic ----
        "mnemonic.parse" => {
            let m = Mnemonic::from_phrase(text(arg(args, 0)?)?)?;
            vec![
                m.to_phrase().into_bytes(),
                m.mnemonic_length().to_string().into_bytes(),
                m.to_string().into_bytes(),
            ]
        }
        "mnemonic.hunt" => {
            // massive sampling of the word lookup: `count` pseudo-random lower-case tokens (3..=9 letters, xorshift64* from
            // `seed`) are put in front of eleven list words; a token passes the lookup iff the phrase is accepted or is
            // refused for a reason other than "invalid ... word". Returns the tokens that passed, newline separated.
            let mut x: u64 = text(arg(args, 0)?)?.parse().context("harness: seed")?;
            let count: u64 = text(arg(args, 1)?)?.parse().context("harness: count")?;
            let tail = " abandon abandon abandon abandon abandon abandon abandon abandon abandon abandon about";
            let mut passed = String::new();
            let mut phrase = String::with_capacity(128);
            for _ in 0..count {
                x ^= x >> 12;
                x ^= x << 25;
                x ^= x >> 27;
                let mut r = x.wrapping_mul(0x2545F4914F6CDD1D);
                let len = 3 + (r % 7) as usize;
                r /= 7;
                phrase.clear();
                for _ in 0..len {
                    phrase.push((b'a' + (r % 26) as u8) as char);
                    r /= 26;
                }
                let tlen = phrase.len();
                phrase.push_str(tail);
                let ok = match Mnemonic::from_phrase(&phrase) {
                    Ok(_) => true,
                    Err(e) => !format!("{e:#}").contains("invalid BIP-0039"),
                };
                if ok {
                    passed.push_str(&phrase[..tlen]);
                    passed.push('\n');
                }
            }
            vec![passed.into_bytes()]
        }
        "mnemonic.seed" => {
            let m = Mnemonic::from_phrase(text(arg(args, 0)?)?)?;
            let seed = m.seed(text(arg(args, 1)?)?);
            vec![seed.to_vec()]
        }

        // ---- paths and derivation ----
        "path.parse" => {
            let p: hdk::Path = text(arg(args, 0)?)?.parse()?;
            let mut comps = Vec::new();
            for c in p.components() {
                match c {
                    hdk::Component::Hardened(v) => {
                        comps.push(1u8);
                        comps.extend_from_slice(&v.to_be_bytes());
                    }
                    hdk::Component::Normal(v) => {
                        comps.push(0u8);
                        comps.extend_from_slice(&v.to_be_bytes());
                    }
                }
            }
            vec![p.to_string().into_bytes(), comps]
        }
        "path.for_index" => {
            let index: usize = text(arg(args, 0)?)?
                .parse()
                .context("harness: index is not a usize")?;
            let p = hdk::Path::for_index(index)?;
            vec![p.to_string().into_bytes()]
        }
        "derive" => {
            let p: hdk::Path = text(arg(args, 1)?)?.parse()?;
            let key = hdk::derive(arg(args, 0)?, &p)?;
            vec![key.secret().to_vec()]
        }

        // ---- keys ----
        "key.new" => {
            let key = PrivateKey::new(arg(args, 0)?)?;
            let address = key.address();
            vec![
                key.secret().to_vec(),
                key.public().encode_uncompressed().to_vec(),
                address.to_vec(),
                address.to_string().into_bytes(),
            ]
        }
        "sign" => {
            let key = PrivateKey::new(arg(args, 0)?)?;
            let digest = digest_arg(arg(args, 1)?)?;
            let sig = key.try_sign(digest)?;
            let mut fields = sig_fields(&sig);
            // third opinion: k256's own verification and recovery on hdwallet's output
            let verifying = k256::ecdsa::VerifyingKey::from(
                &k256::ecdsa::SigningKey::from_slice(&key.secret())?,
            );
            let recovered =
                k256::ecdsa::VerifyingKey::recover_from_prehash(&digest.0, &sig.0, sig.1);
            let rec_ok = matches!(&recovered, Ok(k) if *k == verifying);
            use k256::ecdsa::signature::hazmat::PrehashVerifier as _;
            let ver_ok = verifying.verify_prehash(&digest.0, &sig.0).is_ok();
            fields.push(vec![rec_ok as u8, ver_ok as u8]);
            fields.push(sig.to_string().into_bytes());
            fields
        }

        // ---- signature text ----
        "sig.parse" => {
            let sig: Signature = text(arg(args, 0)?)?.parse()?;
            let mut fields = sig_fields(&sig);
            fields.push(sig.to_string().into_bytes());
            fields
        }
        "sig.display" => {
            let sig = sig_arg(args, 0)?;
            vec![sig.to_string().into_bytes()]
        }
        "sig.v" => {
            let sig = sig_arg(args, 0)?;
            let chain = arg(args, 3)?;
            let chain_id = if chain.is_empty() {
                None
            } else {
                Some(u256_arg(&chain[1..])?)
            };
            vec![sig.v(chain_id).to_be_bytes().to_vec()]
        }

        // ---- transactions ----
        "tx.parse" => {
            let tx: Transaction = serde_json::from_slice(arg(args, 0)?)?;
            let kind = match &tx {
                Transaction::Legacy(_) => 0u8,
                Transaction::Eip2930(_) => 1,
                Transaction::Eip1559(_) => 2,
            };
            vec![vec![kind], tx.signing_message().0.to_vec()]
        }
        "tx.encode" => {
            let tx: Transaction = serde_json::from_slice(arg(args, 0)?)?;
            let sig = sig_arg(args, 1)?;
            vec![tx.encode(sig)]
        }
        "tx.sign" => {
            let tx: Transaction = serde_json::from_slice(arg(args, 0)?)?;
            let key = PrivateKey::new(arg(args, 1)?)?;
            let sig = key.try_sign(tx.signing_message())?;
            let mut fields = vec![tx.signing_message().0.to_vec(), tx.encode(sig)];
            fields.extend(sig_fields(&sig));
            fields
        }

        // ---- typed data ----
        "typeddata" => {
            let td: TypedData = serde_json::from_slice(arg(args, 0)?)?;
            vec![
                td.signing_message().0.to_vec(),
                td.domain_separator().0.to_vec(),
                td.message_hash().0.to_vec(),
            ]
        }
        "typeddata.encode_type" => {
            let s = hdwallet::typeddata::verif_hooks::encode_type(
                text(arg(args, 0)?)?,
                text(arg(args, 1)?)?,
            )?;
            vec![s.into_bytes()]
        }
        "typeddata.member_kind" => {
            let (debug, display) =
                hdwallet::typeddata::verif_hooks::member_kind_image(text(arg(args, 0)?)?);
            vec![debug.into_bytes(), display.into_bytes()]
        }

        // ---- messages ----
        "message.digest" => {
            let d = EthereumMessage(arg(args, 0)?).signing_message();
            vec![d.0.to_vec()]
        }

        // ---- RLP (hooks) ----
        "rlp.len" => {
            let n: usize = text(arg(args, 0)?)?.parse().context("harness: usize")?;
            let off = *arg(args, 1)?.first().unwrap_or(&0);
            vec![hdwallet::transaction::verif_hooks::len(n, off)]
        }
        "rlp.len_range" => {
            // concatenation of len(n, off) for n in [lo, hi), each prefixed by its own length byte
            let lo: usize = text(arg(args, 0)?)?.parse().context("harness: usize")?;
            let hi: usize = text(arg(args, 1)?)?.parse().context("harness: usize")?;
            let off = *arg(args, 2)?.first().unwrap_or(&0);
            let mut out = Vec::new();
            for n in lo..hi {
                let h = hdwallet::transaction::verif_hooks::len(n, off);
                out.push(h.len() as u8);
                out.extend_from_slice(&h);
            }
            vec![out]
        }
        "rlp.bytes" => vec![hdwallet::transaction::verif_hooks::bytes(arg(args, 0)?)],
        "rlp.uint" => vec![hdwallet::transaction::verif_hooks::uint(u256_arg(arg(args, 0)?)?)],
        "rlp.list" => {
            let items: Vec<&[u8]> = args.iter().map(|a| a.as_slice()).collect();
            vec![hdwallet::transaction::verif_hooks::list(&items)]
        }

        // ---- serde_json's view of a document ----
        "json.dump" => {
            let v: serde_json::Value = serde_json::from_slice(arg(args, 0)?)?;
            let mut out = String::new();
            dump_json(&v, &mut out);
            vec![out.into_bytes()]
        }

        // ---- dependency primitives (differential tests of coq/Prim) ----
        "prim.sha256" => {
            use sha2::Digest as _;
            vec![sha2::Sha256::digest(arg(args, 0)?).to_vec()]
        }
        "prim.sha512" => {
            use sha2::Digest as _;
            vec![sha2::Sha512::digest(arg(args, 0)?).to_vec()]
        }
        "prim.keccak" => {
            use sha3::Digest as _;
            vec![sha3::Keccak256::digest(arg(args, 0)?).to_vec()]
        }
        // Keccak-256 (sha3 crate, not hdwallet's) of head || pattern repeated until `total` bytes of it are written:
        // the expected digest of very large inputs without transferring them
        "prim.keccak_fill" => {
            use sha3::Digest as _;
            let head = arg(args, 0)?;
            let pattern = arg(args, 1)?;
            let total: usize = text(arg(args, 2)?)?.parse()?;
            anyhow::ensure!(!pattern.is_empty() || total == 0, "empty pattern");
            let mut h = sha3::Keccak256::new();
            h.update(head);
            let mut left = total;
            while left > 0 {
                let n = left.min(pattern.len());
                h.update(&pattern[..n]);
                left -= n;
            }
            vec![h.finalize().to_vec()]
        }
        "prim.hmac512" => {
            use hmac::Mac as _;
            let mut mac = hmac::Hmac::<sha2::Sha512>::new_from_slice(arg(args, 0)?)?;
            mac.update(arg(args, 1)?);
            vec![mac.finalize().into_bytes().to_vec()]
        }
        "prim.hmac256" => {
            use hmac::Mac as _;
            let mut mac = hmac::Hmac::<sha2::Sha256>::new_from_slice(arg(args, 0)?)?;
            mac.update(arg(args, 1)?);
            vec![mac.finalize().into_bytes().to_vec()]
        }
        "prim.pbkdf2" => {
            let rounds: u32 = text(arg(args, 2)?)?.parse().context("harness: rounds")?;
            let mut buf = [0u8; 64];
            pbkdf2::pbkdf2::<hmac::Hmac<sha2::Sha512>>(arg(args, 0)?, arg(args, 1)?, rounds, &mut buf)
                .map_err(|e| anyhow!("{e}"))?;
            vec![buf.to_vec()]
        }
        "prim.nfkd" => {
            use unicode_normalization::UnicodeNormalization as _;
            vec![text(arg(args, 0)?)?.nfkd().to_string().into_bytes()]
        }
        "prim.pubkey" => {
            use k256::elliptic_curve::sec1::ToEncodedPoint as _;
            let sk = k256::SecretKey::from_slice(arg(args, 0)?)?;
            vec![
                sk.public_key().to_encoded_point(false).as_bytes().to_vec(),
                sk.public_key().to_encoded_point(true).as_bytes().to_vec(),
            ]
        }
        "prim.recover" => {
            // digest, r, s, parity -> uncompressed public key
            let digest = digest_arg(arg(args, 0)?)?;
            let r = u256_arg(arg(args, 1)?)?;
            let s = u256_arg(arg(args, 2)?)?;
            let parity = *arg(args, 3)?.first().unwrap_or(&0);
            let sig = k256::ecdsa::Signature::from_scalars(r.to_be_bytes(), s.to_be_bytes())?;
            let rid = k256::ecdsa::RecoveryId::try_from(parity)?;
            let key = k256::ecdsa::VerifyingKey::recover_from_prehash(&digest.0, &sig, rid)?;
            vec![key.to_encoded_point(false).as_bytes().to_vec()]
        }

        _ => bail!("harness: unknown op {op}"),
    })
}

fn main() {
    // keep panic messages off stderr; they are reported on the response line
    panic::set_hook(Box::new(|_| {}));

    let stdin = io::stdin();
    let stdout = io::stdout();
    let mut out = io::BufWriter::new(stdout.lock());
    for line in stdin.lock().lines() {
        let line = match line {
            Ok(line) => line,
            Err(_) => break,
        };
        let mut parts = line.split('\t');
        let op = parts.next().unwrap_or("").to_string();
        let args: Result<Vec<Vec<u8>>, _> = parts.map(hex::decode).collect();
        let response = match args {
            Err(e) => format!("err\t{}", hex::encode(format!("harness: bad hex: {e}"))),
            Ok(args) => match panic::catch_unwind(AssertUnwindSafe(|| dispatch(&op, &args))) {
                Ok(Ok(fields)) => {
                    let mut s = String::from("ok");
                    for f in fields {
                        s.push('\t');
                        s.push_str(&hex::encode(f));
                    }
                    s
                }
                Ok(Err(e)) => format!("err\t{}", hex::encode(format!("{e:#}"))),
                Err(p) => {
                    let msg = p
                        .downcast_ref::<String>()
                        .cloned()
                        .or_else(|| p.downcast_ref::<&str>().map(|s| s.to_string()))
                        .unwrap_or_else(|| "panic".to_string());
                    format!("panic\t{}", hex::encode(msg))
                }
            },
        };
        let _ = writeln!(out, "{response}");
        let _ = out.flush();
    }
}
