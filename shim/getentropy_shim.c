/* LD_PRELOAD shim for getentropy(3): scripted bytes / failures at the k-th request, with a request log.
 *
 *   HDW_SHIM_SCRIPT  file; line k (0-based) decides request k: "fail" -> return -1 (errno EIO), "fail:EINTR" /
 *                    "fail:<ERRNO NAME or number>" -> return -1 with that errno,
 *                    otherwise hex bytes, repeated cyclically to the requested length.
 *                    Requests beyond the last line follow HDW_SHIM_DEFAULT.
 *   HDW_SHIM_DEFAULT "counter" (default): byte i of request k comes from a 64-bit LCG seeded by k (see below);
 *                    "fail" / "fail:<errno>": return -1;  "real": call the real getentropy.
 *   HDW_SHIM_LOG     file; one line "k len" appended per request (O_APPEND, one write each).
 *
 * Used only by the correspondence checks of C12/C18 (no source hook is needed in hdwallet). */
#define _GNU_SOURCE
#include <dlfcn.h>
#include <errno.h>
#include <fcntl.h>
#include <pthread.h>
#include <stdio.h>
#include <stdlib.h>
#include <string.h>
#include <unistd.h>

static pthread_mutex_t lock = PTHREAD_MUTEX_INITIALIZER;
static long counter = 0;
static char **lines = NULL;
static long nlines = -1;

static void load_script(void) {
    nlines = 0;
    const char *path = getenv("HDW_SHIM_SCRIPT");
    if (!path) return;
    FILE *f = fopen(path, "r");
    if (!f) return;
    char *line = NULL;
    size_t cap = 0;
    ssize_t n;
    while ((n = getline(&line, &cap, f)) >= 0) {
        while (n > 0 && (line[n - 1] == '\n' || line[n - 1] == '\r')) line[--n] = 0;
        lines = realloc(lines, sizeof(char *) * (nlines + 1));
        lines[nlines++] = strdup(line);
    }
    free(line);
    fclose(f);
}

/* "fail" -> EIO; "fail:EINTR", "fail:EAGAIN", ... or "fail:<number>" -> that errno */
static int fail_errno(const char *l) {
    static const struct { const char *name; int value; } names[] = {
        {"EINTR", EINTR}, {"EAGAIN", EAGAIN}, {"EIO", EIO}, {"ENOSYS", ENOSYS}, {"EFAULT", EFAULT},
        {"EINVAL", EINVAL}, {"EPERM", EPERM}, {"ENOMEM", ENOMEM}, {"EBADF", EBADF}, {"ENOENT", ENOENT},
        {"NONE", -1},   /* failure reported by the return value alone: errno left at 0 */
    };
    if (strncmp(l, "fail", 4) != 0) return 0;
    if (l[4] == 0) return EIO;
    if (l[4] != ':') return 0;
    for (size_t i = 0; i < sizeof names / sizeof names[0]; i++)
        if (strcmp(l + 5, names[i].name) == 0) return names[i].value;
    int v = atoi(l + 5);
    return v > 0 ? v : EIO;
}

static int hexval(char c) {
    if (c >= '0' && c <= '9') return c - '0';
    if (c >= 'a' && c <= 'f') return c - 'a' + 10;
    if (c >= 'A' && c <= 'F') return c - 'A' + 10;
    return 0;
}

int getentropy(void *buffer, size_t len) {
    pthread_mutex_lock(&lock);
    if (nlines < 0) load_script();
    long k = counter++;
    pthread_mutex_unlock(&lock);

    const char *logp = getenv("HDW_SHIM_LOG");
    if (logp) {
        int fd = open(logp, O_WRONLY | O_CREAT | O_APPEND, 0644);
        if (fd >= 0) {
            char msg[64];
            int m = snprintf(msg, sizeof msg, "%ld %zu\n", k, len);
            if (write(fd, msg, m) < 0) { /* ignore */ }
            close(fd);
        }
    }
    unsigned char *out = buffer;
    if (k < nlines) {
        const char *l = lines[k];
        { int e = fail_errno(l); if (e) { errno = e < 0 ? 0 : e; return -1; } }
        size_t hl = strlen(l) / 2;
        if (hl == 0) { memset(out, 0, len); return 0; }
        for (size_t i = 0; i < len; i++) {
            size_t j = i % hl;
            out[i] = (unsigned char)((hexval(l[2 * j]) << 4) | hexval(l[2 * j + 1]));
        }
        return 0;
    }
    const char *def = getenv("HDW_SHIM_DEFAULT");
    if (def) { int e = fail_errno(def); if (e) { errno = e < 0 ? 0 : e; return -1; } }
    if (def && strcmp(def, "real") == 0) {
        int (*real)(void *, size_t) = dlsym(RTLD_NEXT, "getentropy");
        if (real) return real(buffer, len);
        errno = ENOSYS;
        return -1;
    }
    /* "counter": a long-period pattern that the checks can recompute: a 64-bit LCG step per byte, seeded by the request number */
    {
        unsigned long long x = 0x9E3779B97F4A7C15ULL * (unsigned long long)(k + 1) + 0x1234567ULL;
        for (size_t i = 0; i < len; i++) {
            x = x * 6364136223846793005ULL + 1442695040888963407ULL;
            out[i] = (unsigned char)(x >> 56);
        }
    }
    return 0;
}
