(** HMAC-SHA256 and HMAC-SHA512 (RFC 2104) as executable primitives: "modelled, not verified".

    The key is turned into the two chaining states reached after the ipad / opad block
    ([hmac256_states], [hmac512_states]); a MAC then costs the compressions of the message plus one
    for the outer hash.  PBKDF2 (Prim/Pbkdf2.v) computes these states once per call.
    Length and byte range of the result come from the [norm_bytes] wrapper (see Prim/Sha256.v). *)
From Coq Require Import String.
From Coq Require Import List NArith ZArith Lia Uint63.
From HDW Require Import Lib.Bytes Lib.Hex Prim.Sha256 Prim.Sha512.
Import ListNotations.
Local Open Scope uint63_scope.

(** [longer_than n l] = (n < length l), without computing the length *)
Definition longer_than {A} (n : nat) (l : list A) : bool :=
  match skipn n l with [] => false | _ => true end.

(** the key, zero padded, as [n] big-endian 32-bit words *)
Fixpoint key_words (n : nat) (l : list N) : list int :=
  match n with
  | O => []
  | S n' =>
      match l with
      | b0 :: b1 :: b2 :: b3 :: r =>
          w32_of_bytes (int_of_byte b0) (int_of_byte b1) (int_of_byte b2) (int_of_byte b3) :: key_words n' r
      | [b0; b1; b2] => w32_of_bytes (int_of_byte b0) (int_of_byte b1) (int_of_byte b2) 0 :: key_words n' []
      | [b0; b1] => w32_of_bytes (int_of_byte b0) (int_of_byte b1) 0 0 :: key_words n' []
      | [b0] => w32_of_bytes (int_of_byte b0) 0 0 0 :: key_words n' []
      | [] => 0 :: key_words n' []
      end
  end.

Definition ipad32 : int := 0x36363636.
Definition opad32 : int := 0x5c5c5c5c.

(* ------------------------------------------------------------------------- *)
(** * HMAC-SHA256 (block 64 bytes = 16 words, digest 8 words) *)

(** padding that follows a 32-byte digest hashed after one 64-byte block: 0x80, zeros, bit length 768 *)
Definition tail256 : list int := [0x80000000; 0; 0; 0; 0; 0; 0; 768].

(** (inner state, outer state) of a key *)
Definition hmac256_states (key : list N) : list int * list int :=
  let k0 := if longer_than 64 key then sha256_raw key else key in
  let kw := key_words 16 k0 in
  (absorb256 (map (fun w => w lxor ipad32) kw) [] 0%nat iv256,
   absorb256 (map (fun w => w lxor opad32) kw) [] 0%nat iv256).

(** outer hash of an inner digest given as words *)
Definition hmac256_outer (so : list int) (inner : list int) : list int :=
  absorb256 (inner ++ tail256) [] 0%nat so.

Definition hmac256_core (si so : list int) (msg : list N) : list int :=
  hmac256_outer so (sha256_cont si 64 msg).

Definition hmac_sha256_raw (key msg : list N) : list N :=
  let '(si, so) := hmac256_states key in digest_bytes32 (hmac256_core si so msg).

Definition hmac_sha256 (key msg : list N) : list N := norm_bytes 32 (hmac_sha256_raw key msg).

Lemma hmac_sha256_length key msg : length (hmac_sha256 key msg) = 32%nat.
Proof. apply norm_bytes_length. Qed.

Lemma hmac_sha256_ok key msg : bytes_ok (hmac_sha256 key msg).
Proof. apply norm_bytes_ok. Qed.

(* ------------------------------------------------------------------------- *)
(** * HMAC-SHA512 (block 128 bytes = 32 half words, digest 16 half words) *)

(** padding that follows a 64-byte digest hashed after one 128-byte block: 0x80, zeros, bit length 1536 *)
Definition tail512 : list int := [0x80000000; 0; 0; 0; 0; 0; 0; 0; 0; 0; 0; 0; 0; 0; 0; 1536].

Definition hmac512_states (key : list N) : list int * list int :=
  let k0 := if longer_than 128 key then sha512_raw key else key in
  let kw := key_words 32 k0 in
  (absorb512 (map (fun w => w lxor ipad32) kw) [] 0%nat iv512,
   absorb512 (map (fun w => w lxor opad32) kw) [] 0%nat iv512).

(** hash of a 64-byte value given as a flat state, continuing from the one-block state [s]:
    exactly one compression.  Used for the outer hash and for both hashes of a PBKDF2 round. *)
Definition hmac512_outer (s : list int) (d : list int) : list int :=
  absorb512 (d ++ tail512) [] 0%nat s.

Definition hmac512_core (si so : list int) (msg : list N) : list int :=
  hmac512_outer so (sha512_cont si 128 msg).

Definition hmac_sha512_raw (key msg : list N) : list N :=
  let '(si, so) := hmac512_states key in digest_bytes32 (hmac512_core si so msg).

Definition hmac_sha512 (key msg : list N) : list N := norm_bytes 64 (hmac_sha512_raw key msg).

Lemma hmac_sha512_length key msg : length (hmac_sha512 key msg) = 64%nat.
Proof. apply norm_bytes_length. Qed.

Lemma hmac_sha512_ok key msg : bytes_ok (hmac_sha512 key msg).
Proof. apply norm_bytes_ok. Qed.

(* ------------------------------------------------------------------------- *)
(** * Test vectors (RFC 4231) *)

(** test case 2 *)
Example hmac256_rfc4231_2 :
  hmac_sha256 (s2l "Jefe") (s2l "what do ya want for nothing?")
  = hexb "5bdcc146bf60754e6a042426089575c75a003f089d2739839dec58b964ec3843".
Proof. vm_compute. reflexivity. Qed.

Example hmac512_rfc4231_2 :
  hmac_sha512 (s2l "Jefe") (s2l "what do ya want for nothing?")
  = hexb "164b7a7bfcf819e2e395fbe73b56e0a387bd64222e831fd610270cd7ea2505549758bf75c05a994a6d034f65f8f0e6fdcaeab1a34d4a6b4b636e070a38bce737".
Proof. vm_compute. reflexivity. Qed.

(** test case 1: key = 20 bytes 0x0b, data "Hi There" *)
Example hmac512_rfc4231_1 :
  hmac_sha512 (repeat 11%N 20) (s2l "Hi There")
  = hexb "87aa7cdea5ef619d4ff0b4241a1d6cb02379f4e2ce4ec2787ad0b30545e17cdedaa833b7d6b8a702038b274eaea3f4e4be9d914eeb61f1702e696c203a126854".
Proof. vm_compute. reflexivity. Qed.

(** test case 6: 131-byte key (longer than either block size), hashed first *)
Example hmac256_rfc4231_6 :
  hmac_sha256 (repeat 170%N 131) (s2l "Test Using Larger Than Block-Size Key - Hash Key First")
  = hexb "60e431591ee0b67f0d8a26aacbf5b77f8e0bc6213728c5140546040f0ee37f54".
Proof. vm_compute. reflexivity. Qed.

Example hmac512_rfc4231_6 :
  hmac_sha512 (repeat 170%N 131) (s2l "Test Using Larger Than Block-Size Key - Hash Key First")
  = hexb "80b24263c7c1a3ebb71493c1dd7be8b49b46d1f41b4aeec1121b013783f8f3526b56d037e05f2598bd0fd2215d6a1e5295e64f73f63f0aec8b915a985d786598".
Proof. vm_compute. reflexivity. Qed.

Example hmac_raw_shape :
  hmac_sha256_raw (s2l "Jefe") (s2l "abc") = hmac_sha256 (s2l "Jefe") (s2l "abc") /\
  hmac_sha512_raw (s2l "Jefe") (s2l "abc") = hmac_sha512 (s2l "Jefe") (s2l "abc").
Proof. vm_compute. split; reflexivity. Qed.
