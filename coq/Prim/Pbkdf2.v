(** PBKDF2-HMAC-SHA512 (RFC 8018, section 5.2) as an executable primitive: "modelled, not verified".

    DK = T_1 || T_2 || ... truncated to [dklen] bytes, T_i = U_1 xor ... xor U_c,
    U_1 = HMAC(P, S || INT_32_BE(i)), U_{j+1} = HMAC(P, U_j).
    The two HMAC key states are computed once; a round is then two compressions on primitive
    integers, with no conversion to bytes inside the loop.
    A round count of 0 behaves like 1 (U_1 is always computed, as in the Rust `pbkdf2` crate, whose
    loop is `for _ in 1..rounds`).
    Length and byte range of the result come from the [norm_bytes] wrapper (see Prim/Sha256.v). *)
From Coq Require Import String.
From Coq Require Import List NArith ZArith Lia Uint63.
From HDW Require Import Lib.Bytes Lib.Hex Prim.Sha256 Prim.Sha512 Prim.Hmac.
Import ListNotations.

Fixpoint xor_state (s t : list int) : list int :=
  match s, t with
  | x :: s', y :: t' => (x lxor y)%uint63 :: xor_state s' t'
  | _, _ => []
  end.

(** one round on the pair (U_j, U_1 xor ... xor U_j) *)
Definition pbkdf2_step (si so : list int) (ut : list int * list int) : list int * list int :=
  let u' := hmac512_outer so (hmac512_outer si (fst ut)) in
  (u', xor_state (snd ut) u').

Definition be32 (i : N) : list N :=
  [((i / 16777216) mod 256)%N; ((i / 65536) mod 256)%N; ((i / 256) mod 256)%N; (i mod 256)%N].

(** the block T_i, as bytes *)
Definition pbkdf2_block (si so : list int) (salt : list N) (rounds : N) (i : N) : list N :=
  let u1 := hmac512_core si so (salt ++ be32 i) in
  digest_bytes32 (snd (N.iter (rounds - 1) (pbkdf2_step si so) (u1, u1))).

Fixpoint pbkdf2_blocks (si so : list int) (salt : list N) (rounds : N) (n : nat) (i : N) : list N :=
  match n with
  | O => []
  | S n' => pbkdf2_block si so salt rounds i ++ pbkdf2_blocks si so salt rounds n' (i + 1)
  end.

Definition pbkdf2_hmac_sha512_raw (password salt : list N) (rounds : N) (dklen : nat) : list N :=
  let '(si, so) := hmac512_states password in
  firstn dklen (pbkdf2_blocks si so salt rounds ((dklen + 63) / 64) 1).

Definition pbkdf2_hmac_sha512 (password salt : list N) (rounds : N) (dklen : nat) : list N :=
  norm_bytes dklen (pbkdf2_hmac_sha512_raw password salt rounds dklen).

Lemma pbkdf2_length password salt rounds dklen :
  length (pbkdf2_hmac_sha512 password salt rounds dklen) = dklen.
Proof. apply norm_bytes_length. Qed.

Lemma pbkdf2_ok password salt rounds dklen :
  bytes_ok (pbkdf2_hmac_sha512 password salt rounds dklen).
Proof. apply norm_bytes_ok. Qed.

(* ------------------------------------------------------------------------- *)
(** * Test vectors (reference values computed with Python's hashlib.pbkdf2_hmac) *)

Example pbkdf2_c1 :
  pbkdf2_hmac_sha512 (s2l "password") (s2l "salt") 1 64
  = hexb "867f70cf1ade02cff3752599a3a53dc4af34c7a669815ae5d513554e1c8cf252c02d470a285a0501bad999bfe943c08f050235d7d68b1da55e63f73b60a57fce".
Proof. vm_compute. reflexivity. Qed.

Example pbkdf2_c2 :
  pbkdf2_hmac_sha512 (s2l "password") (s2l "salt") 2 64
  = hexb "e1d9c16aa681708a45f5c7c4e215ceb66e011a2e9f0040713f18aefdb866d53cf76cab2868a39b9f7840edce4fef5a82be67335c77a6068e04112754f27ccf4e".
Proof. vm_compute. reflexivity. Qed.

(** two blocks, truncated: dklen = 100 *)
Example pbkdf2_c3_len100 :
  pbkdf2_hmac_sha512 (s2l "password") (s2l "salt") 3 100
  = hexb "b6b07cb2cebf4ad84468391a543824fccffe0e0769dbe6bddf10a65673c4b648e612d44918f9ce9a19a1294cf5140628084ba994c3b21a4ef4741220b811c633cfc0641fccbcc4164f1bbfcb1f33f595ae9aa4a33ddcce570157775980362c0ee28aa340".
Proof. vm_compute. reflexivity. Qed.

Example pbkdf2_c2048 :
  pbkdf2_hmac_sha512 (s2l "password") (s2l "salt") 2048 64
  = hexb "91be23564f09fc855c82ce84a223ebe7d63d8b49d69372593a0d9ed39e143c83e1ab2f722a5ddb969feefc88403f7e2afe1afb8b2f0e6b20add0fb7b28368807".
Proof. vm_compute. reflexivity. Qed.

(** BIP-39 test vector (Trezor), entropy 00..00, passphrase "TREZOR" *)
Example pbkdf2_bip39 :
  pbkdf2_hmac_sha512
    (s2l "abandon abandon abandon abandon abandon abandon abandon abandon abandon abandon abandon about")
    (s2l "mnemonicTREZOR") 2048 64
  = hexb "c55257c360c07c72029aebc1b53c05ed0362ada38ead3e3e9efa3708e53495531f09a6987599d18264c1e1c92f2cf141630c7a3c4ab7c81b2f001698e7463b04".
Proof. vm_compute. reflexivity. Qed.

Example pbkdf2_raw_shape :
  pbkdf2_hmac_sha512_raw (s2l "password") (s2l "salt") 2 64 = pbkdf2_hmac_sha512 (s2l "password") (s2l "salt") 2 64.
Proof. vm_compute. reflexivity. Qed.
