(** RFC 6979 section 3.2 nonce generation, as the [rfc6979 0.4.0] crate runs it for
    hdwallet ([generate_k::<Sha256, U32>(x, n, h, b"")]): an executable primitive,
    "modelled, not verified", parameterised by the HMAC function (instantiated with
    [Prim.Hmac.hmac_sha256] in [Run/DC05.v] only).

    rfc6979-0.4.0/src/lib.rs:

      pub fn generate_k<D, N>(x, n, h, data) -> ByteArray<N> {
          let mut hmac_drbg = HmacDrbg::<D>::new(x, h, data);
          loop {
              let mut k = ByteArray::<N>::default();
              hmac_drbg.fill_bytes(&mut k);
              let k_is_zero = ct_cmp::ct_eq(&k, &ByteArray::default());
              if (!k_is_zero & ct_cmp::ct_lt(&k, n)).into() { return k; }
          }
      }
      HmacDrbg::new(entropy_input, nonce, additional_data):
          k = HMAC key 0x00 * 32;  v = 0x01 * 32;
          for i in 0..=1 {
              k.update(&v); k.update(&[i]); k.update(entropy_input); k.update(nonce);
              k.update(additional_data);
              k = SimpleHmac::new_from_slice(&k.finalize().into_bytes());
              k.update(&v); v = k.finalize_reset().into_bytes();
          }
      fill_bytes(out):            (out is 32 bytes = one chunk)
          k.update(&v); v = k.finalize_reset(); out = v;
          k.update(&v); k.update(&[0x00]); k = new_from_slice(k.finalize_reset());
          k.update(&v); v = k.finalize_reset();

    The caller (ecdsa-0.16.9 hazmat.rs, [try_sign_prehashed_rfc6979]) passes
    [x = self.to_repr()] (32 bytes, big endian), [n = ORDER] and [h = z] *as given*: the
    32 digest bytes are NOT reduced modulo n before they enter the DRBG (RFC 6979 would
    feed bits2octets(h1) = int2octets(bits2int(h1) mod q)).  The two coincide for digests
    whose value is below n.  Additional data is empty.

    [fill_bytes] performs its K/V update after every output, also after the accepted
    one; the state is dropped on return, so updating only on rejection (as below and as in
    the RFC) gives the same result.

    The retry loop is unbounded in Rust; here it has fuel 100 and fuel exhaustion returns
    0 (never reached in practice: a candidate is rejected with probability < 2^-127). *)
From Coq Require Import List Bool NArith.
From HDW Require Import Lib.Bytes.
Import ListNotations.
Local Open Scope N_scope.

Section Rfc6979.
  Variable hmac : bytes -> bytes -> bytes.   (* key, message *)

  (** state (K, V) after [HmacDrbg::new x h1 b""] *)
  Definition drbg_new (x h1 : bytes) : bytes * bytes :=
    let V0 := repeat 1 32 in
    let K0 := repeat 0 32 in
    let K1 := hmac K0 (V0 ++ [0] ++ x ++ h1) in
    let V1 := hmac K1 V0 in
    let K2 := hmac K1 (V1 ++ [1] ++ x ++ h1) in
    let V2 := hmac K2 V1 in
    (K2, V2).

  (** the [loop] of [generate_k]: candidate = next V; accepted iff 0 < k < n *)
  Fixpoint drbg_loop (fuel : nat) (K V : bytes) (n : N) : N :=
    match fuel with
    | O => 0
    | S fuel' =>
        let V1 := hmac K V in
        let k := be_val V1 in
        if (0 <? k) && (k <? n) then k
        else
          let K' := hmac K (V1 ++ [0]) in
          let V' := hmac K' V1 in
          drbg_loop fuel' K' V' n
    end.

  (** whatever the HMAC: the loop returns a value below n (0 on fuel exhaustion) *)
  Lemma drbg_loop_range : forall fuel K V n, 0 < n -> drbg_loop fuel K V n < n.
  Proof.
    induction fuel as [|fuel IH]; intros K V n Hn; cbn [drbg_loop].
    - exact Hn.
    - destruct ((0 <? be_val (hmac K V)) && (be_val (hmac K V) <? n)) eqn:Hc.
      + apply andb_prop in Hc. destruct Hc as [_ Hlt]. apply N.ltb_lt in Hlt. exact Hlt.
      + apply IH. exact Hn.
  Qed.

  Definition rfc6979_fuel : nat := 100.

  (** [x]: the 32 big-endian bytes of the key; [h1]: the 32 digest bytes as given *)
  Definition rfc6979_k (x h1 : bytes) (n : N) : N :=
    let '(K, V) := drbg_new x h1 in drbg_loop rfc6979_fuel K V n.
End Rfc6979.
