(** Executable secp256k1 point arithmetic (dependency primitive: the Rust crate uses [k256 0.13]).

    "Modelled, not verified": this file contains no group-law proofs.  It is an
    executable reference, evaluated by [vm_compute], tied to the real implementation by
    test vectors (the [Example]s at the end) and by the differential check
    ([Run/DSecp.v], harness commands [prim.pubkey], [prim.recover], ...).

    Representation: field arithmetic modulo p (and modulo n for [inv_n]) is done in
    [BigZ] (Uint63 limbs); interface values are plain [Z], converted at the boundary only.
    Scalar multiplication works in Jacobian coordinates (a = 0 formulas) with mixed
    additions, one field inversion (Fermat) at the end.  All recursion is structural on
    the [positive] binary representation of the scalar / exponent: no fuel anywhere. *)
From Coq Require Import List Bool NArith ZArith Lia.
From Bignums Require Import BigZ.
From HDW Require Import Lib.Bytes.
Import ListNotations.

Local Open Scope bool_scope.
Local Open Scope Z_scope.

(* ------------------------------------------------------------------------------------ *)
(** * Curve constants (interface level, [Z]) *)

Definition point := option (Z * Z).

Definition secp_p : Z := 2^256 - 2^32 - 977.
Definition secp_n : Z := 0xFFFFFFFFFFFFFFFFFFFFFFFFFFFFFFFEBAAEDCE6AF48A03BBFD25E8CD0364141.

Definition secp_Gx : Z := 0x79BE667EF9DCBBAC55A06295CE870B07029BFCDB2DCE28D959F2815B16F81798.
Definition secp_Gy : Z := 0x483ADA7726A3C4655DA4FBFC0E1108A8FD17B448A68554199C47D08FFB10D4B8.
Definition secp_G : point := Some (secp_Gx, secp_Gy).

(* ------------------------------------------------------------------------------------ *)
(** * Field arithmetic in BigZ *)

Module F.
  Local Open Scope bigZ_scope.

  Definition bp : bigZ := Eval vm_compute in BigZ.of_Z secp_p.
  Definition bn : bigZ := Eval vm_compute in BigZ.of_Z secp_n.
  Definition b7 : bigZ := Eval vm_compute in BigZ.of_Z 7.

  (** Only products are reduced; sums and differences are left unreduced (BigZ is signed
      and [BigZ.modulo] has the sign of the modulus, so the next reduction repairs them). *)
  Definition red (a : bigZ) : bigZ := a mod bp.
  Definition mul (a b : bigZ) : bigZ := (a * b) mod bp.
  Definition sqr (a : bigZ) : bigZ := BigZ.square a mod bp.
  Definition dbl (a : bigZ) : bigZ := a + a.

  (** [pow_mod m b e] = b^e mod m for b already reduced, left-to-right square and multiply
      (structural on [e]: the outermost constructor is the least significant bit). *)
  Fixpoint pow_mod (m b : bigZ) (e : positive) : bigZ :=
    match e with
    | xH => b
    | xO e' => let t := pow_mod m b e' in BigZ.square t mod m
    | xI e' => let t := pow_mod m b e' in ((BigZ.square t mod m) * b) mod m
    end.

  (** Fermat inversion modulo the prime [m] (0 maps to 0). *)
  Definition inv_mod (m : bigZ) (e : positive) (a : bigZ) : bigZ := pow_mod m (a mod m) e.

  Definition p_minus_2 : positive := Eval vm_compute in Z.to_pos (secp_p - 2).
  Definition n_minus_2 : positive := Eval vm_compute in Z.to_pos (secp_n - 2).
  Definition p_plus_1_div_4 : positive := Eval vm_compute in Z.to_pos ((secp_p + 1) / 4).

  Definition inv (a : bigZ) : bigZ := inv_mod bp p_minus_2 a.
  Definition sqrt_candidate (a : bigZ) : bigZ := pow_mod bp (a mod bp) p_plus_1_div_4.

  (** ** Jacobian points: (X, Y, Z) stands for (X/Z^2, Y/Z^3); Z = 0 is infinity. *)
  Record jac := Jac { jx : bigZ; jy : bigZ; jz : bigZ }.

  Definition jinf : jac := Jac 1 1 0.

  Definition is_zero (a : bigZ) : bool := (a mod bp) =? 0.

  (** dbl-2009-l (a = 0).  Correct for infinity as well (Z3 = 2*Y*Z = 0), and for
      points of order two (Y = 0 gives Z3 = 0). *)
  Definition jdbl (P : jac) : jac :=
    let (X1, Y1, Z1) := P in
    let A := sqr X1 in
    let B := sqr Y1 in
    let C := sqr B in
    let D := dbl (sqr (X1 + B) - A - C) in
    let E := A + A + A in
    let Fv := sqr E in
    let X3 := red (Fv - dbl D) in
    let Y3 := red (E * (D - X3) - dbl (dbl (dbl C))) in
    let Z3 := mul (dbl Y1) Z1 in
    Jac X3 Y3 Z3.

  (** mixed addition P + (x2, y2) with the second point affine (Z2 = 1); complete. *)
  Definition jmadd (P : jac) (x2 y2 : bigZ) : jac :=
    let (X1, Y1, Z1) := P in
    if is_zero Z1 then Jac x2 y2 1 else
    let Z1Z1 := sqr Z1 in
    let U2 := mul x2 Z1Z1 in
    let S2 := mul y2 (mul Z1 Z1Z1) in
    let H := red (U2 - X1) in
    let R := red (S2 - Y1) in
    if H =? 0 then
      (if R =? 0 then jdbl P else jinf)
    else
      let HH := sqr H in
      let HHH := mul H HH in
      let V := mul X1 HH in
      let X3 := red (sqr R - HHH - dbl V) in
      let Y3 := red (R * (V - X3) - Y1 * HHH) in
      let Z3 := mul Z1 H in
      Jac X3 Y3 Z3.

  (** k * (x, y) for k >= 1, double-and-add from the most significant bit. *)
  Fixpoint jmul_pos (k : positive) (x y : bigZ) : jac :=
    match k with
    | xH => Jac x y 1
    | xO k' => jdbl (jmul_pos k' x y)
    | xI k' => jmadd (jdbl (jmul_pos k' x y)) x y
    end.

  (** back to affine, reduced to [0,p): the single inversion. *)
  Definition to_affine (P : jac) : option (bigZ * bigZ) :=
    let (X1, Y1, Z1) := P in
    if is_zero Z1 then None else
    let zi := inv Z1 in
    let zi2 := sqr zi in
    Some (mul X1 zi2, mul Y1 (mul zi zi2)).

  (** complete affine addition (one inversion) *)
  Definition aadd (x1 y1 x2 y2 : bigZ) : option (bigZ * bigZ) :=
    let dx := red (x2 - x1) in
    let dy := red (y2 - y1) in
    if dx =? 0 then
      if dy =? 0 then
        (* doubling: lambda = 3 x^2 / 2 y *)
        if is_zero y1 then None else
        let l := mul (let a := sqr x1 in a + a + a) (inv (dbl y1)) in
        let x3 := red (sqr l - dbl x1) in
        Some (x3, red (l * (x1 - x3) - y1))
      else None
    else
      let l := mul dy (inv dx) in
      let x3 := red (sqr l - x1 - x2) in
      Some (x3, red (l * (x1 - x3) - y1)).

  Definition of_pair (xy : Z * Z) : bigZ * bigZ :=
    (BigZ.of_Z (fst xy) mod bp, BigZ.of_Z (snd xy) mod bp).
  Definition to_point (r : option (bigZ * bigZ)) : point :=
    match r with
    | Some (x, y) => Some (BigZ.to_Z x, BigZ.to_Z y)
    | None => None
    end.
End F.

(* ------------------------------------------------------------------------------------ *)
(** * Interface *)

(** complete affine-level addition: handles [None], P = Q (doubling), P = -Q.
    Coordinates of the arguments are reduced modulo p first. *)
Definition pt_add (P Q : point) : point :=
  match P, Q with
  | None, _ => match Q with
               | Some q => let (x, y) := F.of_pair q in F.to_point (Some (x, y))
               | None => None
               end
  | Some p, None => let (x, y) := F.of_pair p in F.to_point (Some (x, y))
  | Some p, Some q =>
      let (x1, y1) := F.of_pair p in
      let (x2, y2) := F.of_pair q in
      F.to_point (F.aadd x1 y1 x2 y2)
  end.

Definition pt_neg (P : point) : point :=
  match P with
  | None => None
  | Some (x, y) => Some (x mod secp_p, (- y) mod secp_p)
  end.

(** k is first reduced modulo n; k = 0 (mod n) gives [None]. *)
Definition pt_mul (k : Z) (P : point) : point :=
  match P with
  | None => None
  | Some xy =>
      match k mod secp_n with
      | Zpos kp => let (x, y) := F.of_pair xy in F.to_point (F.to_affine (F.jmul_pos kp x y))
      | _ => None
      end
  end.

Definition pt_mul_G (k : Z) : point := pt_mul k secp_G.

Definition pt_mul2 (a : Z) (P : point) (b : Z) (Q : point) : point :=
  pt_add (pt_mul a P) (pt_mul b Q).

(** the curve point with abscissa x (0 <= x < p) and the given parity of y; [None] if
    x^3 + 7 is not a square or x is out of range.  sqrt = (x^3+7)^((p+1)/4), then check. *)
Definition lift_x (x : Z) (odd : bool) : point :=
  if (x <? 0) || (secp_p <=? x) then None else
  let bx := BigZ.of_Z x in
  let c := BigZ.modulo (BigZ.add (F.mul bx (F.sqr bx)) F.b7) F.bp in
  let y := F.sqrt_candidate c in
  if BigZ.eqb (F.sqr y) c then
    let yz := BigZ.to_Z y in
    Some (x, if Bool.eqb (Z.odd yz) odd then yz else (secp_p - yz) mod secp_p)
  else None.

(** y^2 = x^3 + 7 (mod p) with both coordinates in [0,p); the point at infinity counts
    as on the curve. *)
Definition on_curve (P : point) : bool :=
  match P with
  | None => true
  | Some (x, y) =>
      (0 <=? x) && (x <? secp_p) && (0 <=? y) && (y <? secp_p) &&
      (let bx := BigZ.of_Z x in
       let by_ := BigZ.of_Z y in
       BigZ.eqb (F.sqr by_)
                (BigZ.modulo (BigZ.add (F.mul bx (F.sqr bx)) F.b7) F.bp))
  end.

(** modular inverse modulo n in [0,n) (Fermat, a^(n-2)); [inv_n 0 = 0]. *)
Definition inv_n (a : Z) : Z :=
  BigZ.to_Z (F.inv_mod F.bn F.n_minus_2 (BigZ.of_Z a)).

(* ------------------------------------------------------------------------------------ *)
(** * Serialisation (SEC1) *)

Definition be32 (x : Z) : list N := be_fixed 32 (Z.to_N (x mod 2^256)).

(** 0x04 ‖ X(32 BE) ‖ Y(32 BE); the point at infinity is the single byte 0 *)
Definition ser_uncompressed (P : point) : list N :=
  match P with
  | Some (x, y) => 4%N :: be32 x ++ be32 y
  | None => [0%N]
  end.

(** 0x02 (y even) / 0x03 (y odd) ‖ X(32 BE); the point at infinity is the single byte 0 *)
Definition ser_compressed (P : point) : list N :=
  match P with
  | Some (x, y) => (if Z.odd y then 3%N else 2%N) :: be32 x
  | None => [0%N]
  end.

Lemma be32_length x : length (be32 x) = 32%nat.
Proof. apply be_fixed_length. Qed.

Lemma be32_ok x : bytes_ok (be32 x).
Proof. apply be_fixed_ok. Qed.

Lemma ser_uncompressed_length x y : length (ser_uncompressed (Some (x, y))) = 65%nat.
Proof.
  cbn [ser_uncompressed length]. rewrite app_length, !be32_length. reflexivity.
Qed.

Lemma ser_compressed_length x y : length (ser_compressed (Some (x, y))) = 33%nat.
Proof.
  cbn [ser_compressed length]. rewrite be32_length. reflexivity.
Qed.

Lemma ser_uncompressed_ok P : bytes_ok (ser_uncompressed P).
Proof.
  destruct P as [[x y]|]; cbn [ser_uncompressed].
  - apply Forall_cons; [reflexivity|]. apply bytes_ok_app. split; apply be32_ok.
  - apply Forall_cons; [reflexivity|]. apply Forall_nil.
Qed.

Lemma ser_compressed_ok P : bytes_ok (ser_compressed P).
Proof.
  destruct P as [[x y]|]; cbn [ser_compressed].
  - apply Forall_cons; [destruct (Z.odd y); reflexivity|]. apply be32_ok.
  - apply Forall_cons; [reflexivity|]. apply Forall_nil.
Qed.

(** trivial structural facts *)
Lemma pt_mul_G_eq k : pt_mul_G k = pt_mul k secp_G.
Proof. reflexivity. Qed.

Lemma pt_mul2_eq a P b Q : pt_mul2 a P b Q = pt_add (pt_mul a P) (pt_mul b Q).
Proof. reflexivity. Qed.

Lemma pt_mul_inf k : pt_mul k None = None.
Proof. reflexivity. Qed.

Lemma pt_neg_inf : pt_neg None = None.
Proof. reflexivity. Qed.

Lemma pt_add_inf_inf : pt_add None None = None.
Proof. reflexivity. Qed.

Lemma ser_uncompressed_inf : ser_uncompressed None = [0%N].
Proof. reflexivity. Qed.

Lemma ser_compressed_inf : ser_compressed None = [0%N].
Proof. reflexivity. Qed.

(* ------------------------------------------------------------------------------------ *)
(** * Test vectors *)

Definition secp_2G : point :=
  Some (0xC6047F9441ED7D6D3045406E95C07CD85C778E4B8CEF3CA7ABAC09B95C709EE5,
        0x1AE168FEA63DC339A3C58419466CEAEEF7F632653266D0E1236431A950CFE52A).

Example ex_G_on_curve : on_curve secp_G = true.
Proof. vm_compute. reflexivity. Qed.

Example ex_G_off_curve : on_curve (Some (secp_Gx, secp_Gy + 1)) = false.
Proof. vm_compute. reflexivity. Qed.

Example ex_1G : pt_mul_G 1 = secp_G.
Proof. vm_compute. reflexivity. Qed.

Example ex_2G : pt_mul_G 2 = secp_2G.
Proof. vm_compute. reflexivity. Qed.

Example ex_3G_x :
  option_map fst (pt_mul_G 3)
  = Some 0xF9308A019258C31049344F85F89D5229B531C845836F99B08601F113BCE036F9.
Proof. vm_compute. reflexivity. Qed.

Example ex_3G_add : pt_add secp_2G secp_G = pt_mul_G 3.
Proof. vm_compute. reflexivity. Qed.

Example ex_nm1_G : pt_mul_G (secp_n - 1) = Some (secp_Gx, secp_p - secp_Gy).
Proof. vm_compute. reflexivity. Qed.

Example ex_n_G : pt_mul_G secp_n = None.
Proof. vm_compute. reflexivity. Qed.

Example ex_0_G : pt_mul_G 0 = None.
Proof. vm_compute. reflexivity. Qed.

Example ex_neg_G : pt_mul_G (-1) = pt_neg secp_G.
Proof. vm_compute. reflexivity. Qed.

Example ex_np1_G : pt_mul_G (secp_n + 1) = secp_G.
Proof. vm_compute. reflexivity. Qed.

Example ex_add_neg : pt_add secp_G (pt_neg secp_G) = None.
Proof. vm_compute. reflexivity. Qed.

Example ex_add_dbl : pt_add secp_G secp_G = secp_2G.
Proof. vm_compute. reflexivity. Qed.

Example ex_add_inf_l : pt_add None secp_G = secp_G.
Proof. vm_compute. reflexivity. Qed.

Example ex_add_inf_r : pt_add secp_G None = secp_G.
Proof. vm_compute. reflexivity. Qed.

Example ex_lift_G : lift_x secp_Gx (Z.odd secp_Gy) = secp_G.
Proof. vm_compute. reflexivity. Qed.

Example ex_lift_G_neg : lift_x secp_Gx (negb (Z.odd secp_Gy)) = pt_neg secp_G.
Proof. vm_compute. reflexivity. Qed.

(** x = 5 is not the abscissa of a curve point (5^3 + 7 = 132 is a non-residue) *)
Example ex_lift_none : lift_x 5 false = None.
Proof. vm_compute. reflexivity. Qed.

Example ex_lift_range : lift_x secp_p false = None /\ lift_x (-1) false = None.
Proof. vm_compute. split; reflexivity. Qed.

Example ex_inv_2 : (inv_n 2 * 2) mod secp_n = 1.
Proof. vm_compute. reflexivity. Qed.

Example ex_inv_0 : inv_n 0 = 0.
Proof. vm_compute. reflexivity. Qed.

Example ex_inv_big :
  let a := 0x4f3edf983ac636a65a842ce7c78d9aa706d3b113bce9c46f30d7d21715b23b1d in
  (inv_n a * a) mod secp_n = 1 /\ 0 <= inv_n a < secp_n.
Proof. vm_compute. repeat split; discriminate. Qed.

(** Shamir-style combination agrees with a single multiplication: 5·(2G) + 7·G = 17·G *)
Example ex_mul2 : pt_mul2 5 secp_2G 7 secp_G = pt_mul_G 17.
Proof. vm_compute. reflexivity. Qed.

(** a·P + b·G cancelling to infinity *)
Example ex_mul2_inf : pt_mul2 1 secp_G (secp_n - 1) secp_G = None.
Proof. vm_compute. reflexivity. Qed.

(** the first ganache development key; reference public key from k256 (harness
    [prim.pubkey]); its Keccak address is 0x90F8bf6A479f320ead074411a4B0e7944Ea8c9C1 *)
Example ex_ganache :
  pt_mul_G 0x4f3edf983ac636a65a842ce7c78d9aa706d3b113bce9c46f30d7d21715b23b1d
  = Some (0xe68acfc0253a10620dff706b0a1b1f1f5833ea3beb3bde2250d5f271f3563606,
          0x672ebc45e0b7ea2e816ecb70ca03137b1c9476eec63d4632e990020b7b6fba39).
Proof. vm_compute. reflexivity. Qed.

Example ex_ganache_ser :
  let P := pt_mul_G 0x4f3edf983ac636a65a842ce7c78d9aa706d3b113bce9c46f30d7d21715b23b1d in
  be_val (ser_compressed P)
  = 0x03e68acfc0253a10620dff706b0a1b1f1f5833ea3beb3bde2250d5f271f3563606%N
  /\ be_val (ser_uncompressed P)
  = 0x04e68acfc0253a10620dff706b0a1b1f1f5833ea3beb3bde2250d5f271f3563606672ebc45e0b7ea2e816ecb70ca03137b1c9476eec63d4632e990020b7b6fba39%N.
Proof. vm_compute. split; reflexivity. Qed.
