(** Executable model of Unicode NFKD normalisation (UAX #15), as performed by the Rust crate
    [unicode-normalization] ([str.nfkd()]):

      /repo/src/mnemonic.rs:155      salt.nfkd().to_string().as_bytes(),

    NFKD = full (recursive) compatibility decomposition of every character, followed by the
    canonical ordering of combining marks.  The data ([Prim/NfkdTable.v]) is generated from
    Python's [unicodedata] by /verif/vp/gen_nfkd.py; Hangul syllables are decomposed
    arithmetically (UAX #15 / Unicode chapter 3.12), exactly as the crate does.

    "Modelled, not verified": the only proved facts are that ASCII text is a fixed point and
    that an ASCII prefix passes through unchanged ([nfkd_ascii], [nfkd_ascii_prefix]). *)
From Coq Require Import List NArith Lia Bool FMapPositive.
From HDW Require Import Lib.Bytes Prim.NfkdTable.
Import ListNotations.
Open Scope N_scope.

(* ---------------- decomposition of one character ---------------- *)

(** Hangul constants (Unicode 3.12): SBase, LBase, VBase, TBase, LCount, VCount, TCount, NCount. *)
Definition hangul_SBase : N := 0xAC00.
Definition hangul_LBase : N := 0x1100.
Definition hangul_VBase : N := 0x1161.
Definition hangul_TBase : N := 0x11A7.
Definition hangul_TCount : N := 28.
Definition hangul_NCount : N := 588.   (* VCount * TCount = 21 * 28 *)
Definition hangul_SCount : N := 11172. (* LCount * NCount = 19 * 588 *)

Definition is_hangul_syllable (c : N) : bool :=
  (hangul_SBase <=? c) && (c <? hangul_SBase + hangul_SCount).

(** unicode-normalization, normalize.rs [decompose_hangul]:
      let s_index = s as u32 - S_BASE;
      let l_index = s_index / N_COUNT;            emit(L_BASE + l_index)
      let v_index = (s_index % N_COUNT) / T_COUNT; emit(V_BASE + v_index)
      let t_index = s_index % T_COUNT;
      if t_index > 0 { emit(T_BASE + t_index) } *)
Definition decomp_hangul (c : N) : list N :=
  let s := c - hangul_SBase in
  let l := hangul_LBase + s / hangul_NCount in
  let v := hangul_VBase + (s mod hangul_NCount) / hangul_TCount in
  let t := s mod hangul_TCount in
  if t =? 0 then [l; v] else [l; v; hangul_TBase + t].

(** Full compatibility decomposition of one code point: table, else Hangul, else itself.
    (normalize.rs [decompose]: ASCII fast path, then the compatibility / canonical tables
    - whose entries are already fully decomposed - then [decompose_hangul], else [emit(c)].) *)
Definition decomp (c : N) : list N :=
  match PositiveMap.find (N.succ_pos c) decomp_map with
  | Some d => d
  | None => if is_hangul_syllable c then decomp_hangul c else [c]
  end.

(** Canonical combining class, 0 (starter) by default. *)
Definition ccc (c : N) : N :=
  match PositiveMap.find (N.succ_pos c) ccc_map with
  | Some k => k
  | None => 0
  end.

(* ---------------- canonical ordering ---------------- *)

(** Stable insertion of the newly arrived non-starter [c] into the current run, which is
    sorted by combining class: [c] goes before the first mark of strictly larger class,
    i.e. after all marks of class <= ccc c that arrived earlier. *)
Fixpoint ins_mark (c : N) (run : list N) : list N :=
  match run with
  | [] => [c]
  | d :: r => if ccc c <? ccc d then c :: d :: r else d :: ins_mark c r
  end.

(** decompose.rs [Decompositions]: characters of class 0 flush the pending buffer
    ([sort_pending]: a *stable* [sort_by_key] on the class of the pending marks) and are
    emitted in place; non-starters are appended to the pending buffer.  Here the pending
    run is kept sorted incrementally. *)
Fixpoint reorder_go (run : list N) (l : list N) : list N :=
  match l with
  | [] => run
  | c :: r =>
      if ccc c =? 0 then run ++ c :: reorder_go [] r
      else reorder_go (ins_mark c run) r
  end.

Definition reorder (l : list N) : list N := reorder_go [] l.

Definition nfkd (t : list N) : list N := reorder (flat_map decomp t).

(* ---------------- ASCII lemmas ---------------- *)

Lemma lt128_in c : c < 128 -> In c (map N.of_nat (seq 0 128)).
Proof.
  intros H. apply in_map_iff. exists (N.to_nat c). split.
  - apply Nnat.N2Nat.id.
  - apply in_seq. lia.
Qed.

Lemma ascii_check :
  forallb (fun c => match decomp c with [d] => d =? c | _ => false end && (ccc c =? 0))
          (map N.of_nat (seq 0 128)) = true.
Proof. vm_compute. reflexivity. Qed.

Lemma decomp_ascii c : c < 128 -> decomp c = [c].
Proof.
  intros H. pose proof ascii_check as A. rewrite forallb_forall in A.
  specialize (A c (lt128_in c H)). apply andb_true_iff in A as [A _].
  destruct (decomp c) as [|d [|e r]]; try discriminate.
  apply N.eqb_eq in A. subst d. reflexivity.
Qed.

Lemma ccc_ascii c : c < 128 -> ccc c = 0.
Proof.
  intros H. pose proof ascii_check as A. rewrite forallb_forall in A.
  specialize (A c (lt128_in c H)). apply andb_true_iff in A as [_ A].
  apply N.eqb_eq in A. exact A.
Qed.

Lemma flat_map_decomp_ascii a : all_ascii a -> flat_map decomp a = a.
Proof.
  induction 1 as [|c r Hc _ IH]; [reflexivity|].
  cbn [flat_map]. rewrite IH, (decomp_ascii c Hc). reflexivity.
Qed.

Lemma reorder_ascii_prefix a p : all_ascii a -> reorder (a ++ p) = a ++ reorder p.
Proof.
  unfold reorder. induction 1 as [|c r Hc _ IH]; [reflexivity|].
  rewrite <- app_comm_cons. cbn [reorder_go]. rewrite (ccc_ascii c Hc), N.eqb_refl, IH.
  reflexivity.
Qed.

Lemma nfkd_ascii_prefix a p : all_ascii a -> nfkd (a ++ p) = a ++ nfkd p.
Proof.
  intros H. unfold nfkd. rewrite flat_map_app, (flat_map_decomp_ascii a H).
  apply reorder_ascii_prefix. exact H.
Qed.

Lemma nfkd_ascii a : all_ascii a -> nfkd a = a.
Proof.
  intros H. rewrite <- (app_nil_r a) at 1. rewrite (nfkd_ascii_prefix a [] H).
  change (nfkd []) with (@nil N). apply app_nil_r.
Qed.

(* ---------------- sanity checks (reference: Python unicodedata / the Rust crate) ---------------- *)

Example nfkd_e_acute : nfkd [0xE9] = [0x65; 0x301]. Proof. vm_compute. reflexivity. Qed.
Example nfkd_fi : nfkd [0xFB01] = [0x66; 0x69]. Proof. vm_compute. reflexivity. Qed.
Example nfkd_circled1 : nfkd [0x2460] = [0x31]. Proof. vm_compute. reflexivity. Qed.
Example nfkd_fullwidth_W : nfkd [0xFF37] = [0x57]. Proof. vm_compute. reflexivity. Qed.
Example nfkd_han : nfkd [0xD55C] = [0x1112; 0x1161; 0x11AB]. Proof. vm_compute. reflexivity. Qed.
Example nfkd_gag : nfkd [0xAC01] = [0x1100; 0x1161; 0x11A8]. Proof. vm_compute. reflexivity. Qed.
Example nfkd_ga : nfkd [0xAC00] = [0x1100; 0x1161]. Proof. vm_compute. reflexivity. Qed.
Example nfkd_hih : nfkd [0xD7A3] = [0x1112; 0x1175; 0x11C2]. Proof. vm_compute. reflexivity. Qed.
(* reordering across a decomposition; 1E9B -> 017F 0307 canonically, and 017F (long s) -> "s" by compatibility *)
Example nfkd_1e9b_0323 : nfkd [0x1E9B; 0x323] = [0x73; 0x323; 0x307]. Proof. vm_compute. reflexivity. Qed.
Example nfkd_a_0301_0323 : nfkd [0x61; 0x301; 0x323] = [0x61; 0x323; 0x301]. Proof. vm_compute. reflexivity. Qed.
Example nfkd_0344 : nfkd [0x344] = [0x308; 0x301]. Proof. vm_compute. reflexivity. Qed.
Example nfkd_math_bold_A : nfkd [0x1D400] = [0x41]. Proof. vm_compute. reflexivity. Qed.
Example nfkd_ohm : nfkd [0x2126] = [0x3A9]. Proof. vm_compute. reflexivity. Qed.
Example nfkd_fdfa :
  nfkd [0xFDFA] = [0x635; 0x644; 0x649; 0x20; 0x627; 0x644; 0x644; 0x647; 0x20;
                   0x639; 0x644; 0x64A; 0x647; 0x20; 0x648; 0x633; 0x644; 0x645].
Proof. vm_compute. reflexivity. Qed.
Example nfkd_emoji : nfkd [0x1F600] = [0x1F600]. Proof. vm_compute. reflexivity. Qed.
Example nfkd_01d6 : nfkd [0x1D6] = [0x75; 0x308; 0x304]. Proof. vm_compute. reflexivity. Qed.
(* stability: equal classes keep their order (0301 and 0300 both have class 230) *)
Example nfkd_stable : nfkd [0x61; 0x301; 0x300; 0x323; 0x301] = [0x61; 0x323; 0x301; 0x300; 0x301].
Proof. vm_compute. reflexivity. Qed.
