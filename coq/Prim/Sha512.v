(** SHA-512 (FIPS 180-4) as an executable primitive: "modelled, not verified".

    A 64-bit word is a pair of 32-bit halves (hi, lo), each one primitive [int] below 2^32.
    Chaining states and digests are flat lists [h0; l0; h1; l1; ...] of sixteen halves, the message
    schedule is a list of pairs.  64-bit addition adds the low halves exactly (a sum of up to five
    32-bit values fits easily in 63 bits), moves the carry [>> 32] to the high halves and masks.
    High halves are only masked when a word is stored, since arithmetic modulo 2^63 agrees with
    arithmetic modulo 2^32 on the low 32 bits.
    Length and byte range of the digest come from the [norm_bytes] wrapper (see Prim/Sha256.v). *)
From Coq Require Import String.
From Coq Require Import List NArith ZArith Lia Uint63.
From HDW Require Import Lib.Bytes Lib.Hex Prim.Sha256.
Import ListNotations.
Local Open Scope uint63_scope.

Definition k512 : list (int * int) :=
  [
   (0x428a2f98, 0xd728ae22); (0x71374491, 0x23ef65cd); (0xb5c0fbcf, 0xec4d3b2f); (0xe9b5dba5, 0x8189dbbc);
   (0x3956c25b, 0xf348b538); (0x59f111f1, 0xb605d019); (0x923f82a4, 0xaf194f9b); (0xab1c5ed5, 0xda6d8118);
   (0xd807aa98, 0xa3030242); (0x12835b01, 0x45706fbe); (0x243185be, 0x4ee4b28c); (0x550c7dc3, 0xd5ffb4e2);
   (0x72be5d74, 0xf27b896f); (0x80deb1fe, 0x3b1696b1); (0x9bdc06a7, 0x25c71235); (0xc19bf174, 0xcf692694);
   (0xe49b69c1, 0x9ef14ad2); (0xefbe4786, 0x384f25e3); (0x0fc19dc6, 0x8b8cd5b5); (0x240ca1cc, 0x77ac9c65);
   (0x2de92c6f, 0x592b0275); (0x4a7484aa, 0x6ea6e483); (0x5cb0a9dc, 0xbd41fbd4); (0x76f988da, 0x831153b5);
   (0x983e5152, 0xee66dfab); (0xa831c66d, 0x2db43210); (0xb00327c8, 0x98fb213f); (0xbf597fc7, 0xbeef0ee4);
   (0xc6e00bf3, 0x3da88fc2); (0xd5a79147, 0x930aa725); (0x06ca6351, 0xe003826f); (0x14292967, 0x0a0e6e70);
   (0x27b70a85, 0x46d22ffc); (0x2e1b2138, 0x5c26c926); (0x4d2c6dfc, 0x5ac42aed); (0x53380d13, 0x9d95b3df);
   (0x650a7354, 0x8baf63de); (0x766a0abb, 0x3c77b2a8); (0x81c2c92e, 0x47edaee6); (0x92722c85, 0x1482353b);
   (0xa2bfe8a1, 0x4cf10364); (0xa81a664b, 0xbc423001); (0xc24b8b70, 0xd0f89791); (0xc76c51a3, 0x0654be30);
   (0xd192e819, 0xd6ef5218); (0xd6990624, 0x5565a910); (0xf40e3585, 0x5771202a); (0x106aa070, 0x32bbd1b8);
   (0x19a4c116, 0xb8d2d0c8); (0x1e376c08, 0x5141ab53); (0x2748774c, 0xdf8eeb99); (0x34b0bcb5, 0xe19b48a8);
   (0x391c0cb3, 0xc5c95a63); (0x4ed8aa4a, 0xe3418acb); (0x5b9cca4f, 0x7763e373); (0x682e6ff3, 0xd6b2b8a3);
   (0x748f82ee, 0x5defb2fc); (0x78a5636f, 0x43172f60); (0x84c87814, 0xa1f0ab72); (0x8cc70208, 0x1a6439ec);
   (0x90befffa, 0x23631e28); (0xa4506ceb, 0xde82bde9); (0xbef9a3f7, 0xb2c67915); (0xc67178f2, 0xe372532b);
   (0xca273ece, 0xea26619c); (0xd186b8c7, 0x21c0c207); (0xeada7dd6, 0xcde0eb1e); (0xf57d4f7f, 0xee6ed178);
   (0x06f067aa, 0x72176fba); (0x0a637dc5, 0xa2c898a6); (0x113f9804, 0xbef90dae); (0x1b710b35, 0x131c471b);
   (0x28db77f5, 0x23047d84); (0x32caab7b, 0x40c72493); (0x3c9ebe0a, 0x15c9bebc); (0x431d67c4, 0x9c100d4c);
   (0x4cc5d4be, 0xcb3e42b6); (0x597f299c, 0xfc657e2a); (0x5fcb6fab, 0x3ad6faec); (0x6c44198c, 0x4a475817)
  ].

Definition iv512 : list int :=
  [0x6a09e667; 0xf3bcc908;
   0xbb67ae85; 0x84caa73b;
   0x3c6ef372; 0xfe94f82b;
   0xa54ff53a; 0x5f1d36f1;
   0x510e527f; 0xade682d1;
   0x9b05688c; 0x2b3e6c1f;
   0x1f83d9ab; 0xfb41bd6b;
   0x5be0cd19; 0x137e2179].

(** message schedule: [l] holds W[t-1], W[t-2], ... (most recent first); [n] more words are added.
    s0 = rotr 1 ^ rotr 8 ^ shr 7 of W[t-15];  s1 = rotr 19 ^ rotr 61 ^ shr 6 of W[t-2]. *)
Fixpoint sched512 (n : nat) (l : list (int * int)) : list (int * int) :=
  match n with
  | O => l
  | S n' =>
      match l with
      | _ :: (h2, l2) :: _ :: _ :: _ :: _ :: (h7, l7) :: _ :: _ :: _ :: _ :: _ :: _ :: _
          :: (h15, l15) :: (h16, l16) :: _ =>
          let s0h := ((h15 >> 1) lor (l15 << 31)) lxor ((h15 >> 8) lor (l15 << 24)) lxor (h15 >> 7) in
          let s0l := (((l15 >> 1) lor (h15 << 31)) lxor ((l15 >> 8) lor (h15 << 24))
                      lxor ((l15 >> 7) lor (h15 << 25))) land m32 in
          let s1h := ((h2 >> 19) lor (l2 << 13)) lxor ((l2 >> 29) lor (h2 << 3)) lxor (h2 >> 6) in
          let s1l := (((l2 >> 19) lor (h2 << 13)) lxor ((h2 >> 29) lor (l2 << 3))
                      lxor ((l2 >> 6) lor (h2 << 26))) land m32 in
          let sl := s0l + s1l + l7 + l16 in
          sched512 n' (((s0h + s1h + h7 + h16 + (sl >> 32)) land m32, sl land m32) :: l)
      | _ => l
      end
  end.

(** the 80 rounds.  Sigma0 = rotr 28 ^ rotr 34 ^ rotr 39,  Sigma1 = rotr 14 ^ rotr 18 ^ rotr 41. *)
Fixpoint rounds512 (ws ks : list (int * int))
         (ah al bh bl ch cl dh dl eh el fh fl gh gl hh hl : int) : list int :=
  match ws, ks with
  | (wh, wl) :: ws', (kh, kl) :: ks' =>
      let S1h := ((eh >> 14) lor (el << 18)) lxor ((eh >> 18) lor (el << 14)) lxor ((el >> 9) lor (eh << 23)) in
      let S1l := (((el >> 14) lor (eh << 18)) lxor ((el >> 18) lor (eh << 14))
                  lxor ((eh >> 9) lor (el << 23))) land m32 in
      let t1l := hl + S1l + (gl lxor (el land (fl lxor gl))) + kl + wl in
      let t1h := hh + S1h + (gh lxor (eh land (fh lxor gh))) + kh + wh in
      let S0h := ((ah >> 28) lor (al << 4)) lxor ((al >> 2) lor (ah << 30)) lxor ((al >> 7) lor (ah << 25)) in
      let S0l := (((al >> 28) lor (ah << 4)) lxor ((ah >> 2) lor (al << 30))
                  lxor ((ah >> 7) lor (al << 25))) land m32 in
      let nel := dl + t1l in
      let nal := t1l + S0l + ((al land bl) lor (cl land (al lor bl))) in
      rounds512 ws' ks'
        ((t1h + S0h + ((ah land bh) lor (ch land (ah lor bh))) + (nal >> 32)) land m32) (nal land m32)
        ah al bh bl ch cl
        ((dh + t1h + (nel >> 32)) land m32) (nel land m32)
        eh el fh fl gh gl
  | _, _ => [ah; al; bh; bl; ch; cl; dh; dl; eh; el; fh; fl; gh; gl; hh; hl]
  end.

(** word-wise 64-bit addition of two flat states *)
Fixpoint add_state64 (s t : list int) : list int :=
  match s, t with
  | xh :: xl :: s', yh :: yl :: t' =>
      let l := xl + yl in
      ((xh + yh + (l >> 32)) land m32) :: (l land m32) :: add_state64 s' t'
  | _, _ => []
  end.

(** one compression: [st] the chaining state (16 halves), [blk_rev] the 16 block words, last first *)
Definition compress512 (st : list int) (blk_rev : list (int * int)) : list int :=
  match st with
  | [ah; al; bh; bl; ch; cl; dh; dl; eh; el; fh; fl; gh; gl; hh; hl] =>
      add_state64 st
        (rounds512 (rev' (sched512 64 blk_rev)) k512 ah al bh bl ch cl dh dl eh el fh fl gh gl hh hl)
  | _ => st
  end.

(** absorb a stream of 32-bit words block by block ([cnt] counts the 64-bit words in [buf]) *)
Fixpoint absorb512 (ws : list int) (buf : list (int * int)) (cnt : nat) (st : list int) : list int :=
  match ws with
  | h :: l :: r =>
      match cnt with
      | 15%nat => absorb512 r [] 0%nat (compress512 st ((h, l) :: buf))
      | _ => absorb512 r ((h, l) :: buf) (S cnt) st
      end
  | _ => st
  end.

(** continue hashing from chaining state [st] after [pre] absorbed bytes; result as a flat state *)
Definition sha512_cont (st : list int) (pre : int) (m : list N) : list int :=
  absorb512 (padded_words true pre m) [] 0%nat st.

Definition sha512_raw (m : list N) : list N := digest_bytes32 (sha512_cont iv512 0 m).

Definition sha512 (m : list N) : list N := norm_bytes 64 (sha512_raw m).

Lemma sha512_length m : length (sha512 m) = 64%nat.
Proof. apply norm_bytes_length. Qed.

Lemma sha512_ok m : bytes_ok (sha512 m).
Proof. apply norm_bytes_ok. Qed.

(* ------------------------------------------------------------------------- *)
(** * Test vectors (FIPS 180-4 examples; block-boundary lengths computed with hashlib) *)

Example sha512_abc :
  sha512 (s2l "abc")
  = hexb "ddaf35a193617abacc417349ae20413112e6fa4e89a97ea20a9eeee64b55d39a2192992a274fc1a836ba3c23a3feebbd454d4423643ce80e2a9ac94fa54ca49f".
Proof. vm_compute. reflexivity. Qed.

Example sha512_empty :
  sha512 []
  = hexb "cf83e1357eefb8bdf1542850d66d8007d620e4050b5715dc83f4a921d36ce9ce47d0d13c5d85f2b0ff8318d2877eec2f63b931bd47417a81a538327af927da3e".
Proof. vm_compute. reflexivity. Qed.

(** FIPS 180-4 two-block message (112 bytes) *)
Example sha512_two_blocks :
  sha512 (s2l "abcdefghbcdefghicdefghijdefghijkefghijklfghijklmghijklmnhijklmnoijklmnopjklmnopqklmnopqrlmnopqrsmnopqrstnopqrstu")
  = hexb "8e959b75dae313da8cf4f72814fc143f8f7779c6eb9f7fa17299aeadb6889018501d289e4900f7e4331b99dec4b5433ac7d329eeb6dd26545e96e55b874be909".
Proof. vm_compute. reflexivity. Qed.

Example sha512_raw_abc : sha512_raw (s2l "abc") = sha512 (s2l "abc").
Proof. vm_compute. reflexivity. Qed.
