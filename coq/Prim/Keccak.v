(** Keccak-256 (original Keccak padding 0x01 .. 0x80, as used by Ethereum; NOT SHA3-256),
    executable under [vm_compute].  "Modelled, not verified": there is no correctness proof,
    only published / cross-checked test vectors (at the end of the file) and two structural
    lemmas about the normalising wrapper [keccak256].

    Representation: primitive 63-bit integers; a 64-bit lane is two 32-bit halves (lo, hi);
    the state is a flat constructor of 50 halves (lane i = x + 5y occupies fields 2i (lo) and
    2i+1 (hi)).  Rate 136 bytes = 17 lanes = 34 half-words, capacity 512, 24 rounds, 32 bytes
    of output, little-endian lane loading.  The round function below is machine-generated
    (all rotation amounts are literals). *)
From Coq Require Import String.
From Coq Require Import List NArith ZArith Uint63.
From HDW Require Import Lib.Bytes Lib.Hex.
Import ListNotations.

Local Open Scope uint63_scope.
Local Notation M := (4294967295%uint63) (only parsing).

Inductive st : Type :=
  St : int -> int -> int -> int -> int -> int -> int -> int -> int -> int -> int -> int -> int -> int -> int -> int -> int -> int -> int -> int -> int -> int -> int -> int -> int -> int -> int -> int -> int -> int -> int -> int -> int -> int -> int -> int -> int -> int -> int -> int -> int -> int -> int -> int -> int -> int -> int -> int -> int -> int -> st.

Definition st0 : st := St 0 0 0 0 0 0 0 0 0 0 0 0 0 0 0 0 0 0 0 0 0 0 0 0 0 0 0 0 0 0 0 0 0 0 0 0 0 0 0 0 0 0 0 0 0 0 0 0 0 0.

(** One round: theta, rho+pi, chi, iota.  [rh], [rl] = halves of the round constant. *)
Definition round (rh rl : int) (s : st) : st :=
  match s with St a0l a0h a1l a1h a2l a2h a3l a3h a4l a4h a5l a5h a6l a6h a7l a7h a8l a8h a9l a9h a10l a10h a11l a11h a12l a12h a13l a13h a14l a14h a15l a15h a16l a16h a17l a17h a18l a18h a19l a19h a20l a20h a21l a21h a22l a22h a23l a23h a24l a24h =>
let c0l := a0l lxor a5l lxor a10l lxor a15l lxor a20l in
let c0h := a0h lxor a5h lxor a10h lxor a15h lxor a20h in
let c1l := a1l lxor a6l lxor a11l lxor a16l lxor a21l in
let c1h := a1h lxor a6h lxor a11h lxor a16h lxor a21h in
let c2l := a2l lxor a7l lxor a12l lxor a17l lxor a22l in
let c2h := a2h lxor a7h lxor a12h lxor a17h lxor a22h in
let c3l := a3l lxor a8l lxor a13l lxor a18l lxor a23l in
let c3h := a3h lxor a8h lxor a13h lxor a18h lxor a23h in
let c4l := a4l lxor a9l lxor a14l lxor a19l lxor a24l in
let c4h := a4h lxor a9h lxor a14h lxor a19h lxor a24h in
let r0h := ((c1h << 1) lor (c1l >> 31)) land M in
let r0l := ((c1l << 1) lor (c1h >> 31)) land M in
let d0l := c4l lxor r0l in
let d0h := c4h lxor r0h in
let r1h := ((c2h << 1) lor (c2l >> 31)) land M in
let r1l := ((c2l << 1) lor (c2h >> 31)) land M in
let d1l := c0l lxor r1l in
let d1h := c0h lxor r1h in
let r2h := ((c3h << 1) lor (c3l >> 31)) land M in
let r2l := ((c3l << 1) lor (c3h >> 31)) land M in
let d2l := c1l lxor r2l in
let d2h := c1h lxor r2h in
let r3h := ((c4h << 1) lor (c4l >> 31)) land M in
let r3l := ((c4l << 1) lor (c4h >> 31)) land M in
let d3l := c2l lxor r3l in
let d3h := c2h lxor r3h in
let r4h := ((c0h << 1) lor (c0l >> 31)) land M in
let r4l := ((c0l << 1) lor (c0h >> 31)) land M in
let d4l := c3l lxor r4l in
let d4h := c3h lxor r4h in
let t0l := a0l lxor d0l in
let t0h := a0h lxor d0h in
let t5l := a5l lxor d0l in
let t5h := a5h lxor d0h in
let t10l := a10l lxor d0l in
let t10h := a10h lxor d0h in
let t15l := a15l lxor d0l in
let t15h := a15h lxor d0h in
let t20l := a20l lxor d0l in
let t20h := a20h lxor d0h in
let t1l := a1l lxor d1l in
let t1h := a1h lxor d1h in
let t6l := a6l lxor d1l in
let t6h := a6h lxor d1h in
let t11l := a11l lxor d1l in
let t11h := a11h lxor d1h in
let t16l := a16l lxor d1l in
let t16h := a16h lxor d1h in
let t21l := a21l lxor d1l in
let t21h := a21h lxor d1h in
let t2l := a2l lxor d2l in
let t2h := a2h lxor d2h in
let t7l := a7l lxor d2l in
let t7h := a7h lxor d2h in
let t12l := a12l lxor d2l in
let t12h := a12h lxor d2h in
let t17l := a17l lxor d2l in
let t17h := a17h lxor d2h in
let t22l := a22l lxor d2l in
let t22h := a22h lxor d2h in
let t3l := a3l lxor d3l in
let t3h := a3h lxor d3h in
let t8l := a8l lxor d3l in
let t8h := a8h lxor d3h in
let t13l := a13l lxor d3l in
let t13h := a13h lxor d3h in
let t18l := a18l lxor d3l in
let t18h := a18h lxor d3h in
let t23l := a23l lxor d3l in
let t23h := a23h lxor d3h in
let t4l := a4l lxor d4l in
let t4h := a4h lxor d4h in
let t9l := a9l lxor d4l in
let t9h := a9h lxor d4h in
let t14l := a14l lxor d4l in
let t14h := a14h lxor d4h in
let t19l := a19l lxor d4l in
let t19h := a19h lxor d4h in
let t24l := a24l lxor d4l in
let t24h := a24h lxor d4h in
let b0h := t0h in let b0l := t0l in
let b16h := ((t5l << 4) lor (t5h >> 28)) land M in
let b16l := ((t5h << 4) lor (t5l >> 28)) land M in
let b7h := ((t10h << 3) lor (t10l >> 29)) land M in
let b7l := ((t10l << 3) lor (t10h >> 29)) land M in
let b23h := ((t15l << 9) lor (t15h >> 23)) land M in
let b23l := ((t15h << 9) lor (t15l >> 23)) land M in
let b14h := ((t20h << 18) lor (t20l >> 14)) land M in
let b14l := ((t20l << 18) lor (t20h >> 14)) land M in
let b10h := ((t1h << 1) lor (t1l >> 31)) land M in
let b10l := ((t1l << 1) lor (t1h >> 31)) land M in
let b1h := ((t6l << 12) lor (t6h >> 20)) land M in
let b1l := ((t6h << 12) lor (t6l >> 20)) land M in
let b17h := ((t11h << 10) lor (t11l >> 22)) land M in
let b17l := ((t11l << 10) lor (t11h >> 22)) land M in
let b8h := ((t16l << 13) lor (t16h >> 19)) land M in
let b8l := ((t16h << 13) lor (t16l >> 19)) land M in
let b24h := ((t21h << 2) lor (t21l >> 30)) land M in
let b24l := ((t21l << 2) lor (t21h >> 30)) land M in
let b20h := ((t2l << 30) lor (t2h >> 2)) land M in
let b20l := ((t2h << 30) lor (t2l >> 2)) land M in
let b11h := ((t7h << 6) lor (t7l >> 26)) land M in
let b11l := ((t7l << 6) lor (t7h >> 26)) land M in
let b2h := ((t12l << 11) lor (t12h >> 21)) land M in
let b2l := ((t12h << 11) lor (t12l >> 21)) land M in
let b18h := ((t17h << 15) lor (t17l >> 17)) land M in
let b18l := ((t17l << 15) lor (t17h >> 17)) land M in
let b9h := ((t22l << 29) lor (t22h >> 3)) land M in
let b9l := ((t22h << 29) lor (t22l >> 3)) land M in
let b5h := ((t3h << 28) lor (t3l >> 4)) land M in
let b5l := ((t3l << 28) lor (t3h >> 4)) land M in
let b21h := ((t8l << 23) lor (t8h >> 9)) land M in
let b21l := ((t8h << 23) lor (t8l >> 9)) land M in
let b12h := ((t13h << 25) lor (t13l >> 7)) land M in
let b12l := ((t13l << 25) lor (t13h >> 7)) land M in
let b3h := ((t18h << 21) lor (t18l >> 11)) land M in
let b3l := ((t18l << 21) lor (t18h >> 11)) land M in
let b19h := ((t23l << 24) lor (t23h >> 8)) land M in
let b19l := ((t23h << 24) lor (t23l >> 8)) land M in
let b15h := ((t4h << 27) lor (t4l >> 5)) land M in
let b15l := ((t4l << 27) lor (t4h >> 5)) land M in
let b6h := ((t9h << 20) lor (t9l >> 12)) land M in
let b6l := ((t9l << 20) lor (t9h >> 12)) land M in
let b22h := ((t14l << 7) lor (t14h >> 25)) land M in
let b22l := ((t14h << 7) lor (t14l >> 25)) land M in
let b13h := ((t19h << 8) lor (t19l >> 24)) land M in
let b13l := ((t19l << 8) lor (t19h >> 24)) land M in
let b4h := ((t24h << 14) lor (t24l >> 18)) land M in
let b4l := ((t24l << 14) lor (t24h >> 18)) land M in
let e0l := b0l lxor ((b1l lxor M) land b2l) lxor rl in
let e0h := b0h lxor ((b1h lxor M) land b2h) lxor rh in
let e1l := b1l lxor ((b2l lxor M) land b3l) in
let e1h := b1h lxor ((b2h lxor M) land b3h) in
let e2l := b2l lxor ((b3l lxor M) land b4l) in
let e2h := b2h lxor ((b3h lxor M) land b4h) in
let e3l := b3l lxor ((b4l lxor M) land b0l) in
let e3h := b3h lxor ((b4h lxor M) land b0h) in
let e4l := b4l lxor ((b0l lxor M) land b1l) in
let e4h := b4h lxor ((b0h lxor M) land b1h) in
let e5l := b5l lxor ((b6l lxor M) land b7l) in
let e5h := b5h lxor ((b6h lxor M) land b7h) in
let e6l := b6l lxor ((b7l lxor M) land b8l) in
let e6h := b6h lxor ((b7h lxor M) land b8h) in
let e7l := b7l lxor ((b8l lxor M) land b9l) in
let e7h := b7h lxor ((b8h lxor M) land b9h) in
let e8l := b8l lxor ((b9l lxor M) land b5l) in
let e8h := b8h lxor ((b9h lxor M) land b5h) in
let e9l := b9l lxor ((b5l lxor M) land b6l) in
let e9h := b9h lxor ((b5h lxor M) land b6h) in
let e10l := b10l lxor ((b11l lxor M) land b12l) in
let e10h := b10h lxor ((b11h lxor M) land b12h) in
let e11l := b11l lxor ((b12l lxor M) land b13l) in
let e11h := b11h lxor ((b12h lxor M) land b13h) in
let e12l := b12l lxor ((b13l lxor M) land b14l) in
let e12h := b12h lxor ((b13h lxor M) land b14h) in
let e13l := b13l lxor ((b14l lxor M) land b10l) in
let e13h := b13h lxor ((b14h lxor M) land b10h) in
let e14l := b14l lxor ((b10l lxor M) land b11l) in
let e14h := b14h lxor ((b10h lxor M) land b11h) in
let e15l := b15l lxor ((b16l lxor M) land b17l) in
let e15h := b15h lxor ((b16h lxor M) land b17h) in
let e16l := b16l lxor ((b17l lxor M) land b18l) in
let e16h := b16h lxor ((b17h lxor M) land b18h) in
let e17l := b17l lxor ((b18l lxor M) land b19l) in
let e17h := b17h lxor ((b18h lxor M) land b19h) in
let e18l := b18l lxor ((b19l lxor M) land b15l) in
let e18h := b18h lxor ((b19h lxor M) land b15h) in
let e19l := b19l lxor ((b15l lxor M) land b16l) in
let e19h := b19h lxor ((b15h lxor M) land b16h) in
let e20l := b20l lxor ((b21l lxor M) land b22l) in
let e20h := b20h lxor ((b21h lxor M) land b22h) in
let e21l := b21l lxor ((b22l lxor M) land b23l) in
let e21h := b21h lxor ((b22h lxor M) land b23h) in
let e22l := b22l lxor ((b23l lxor M) land b24l) in
let e22h := b22h lxor ((b23h lxor M) land b24h) in
let e23l := b23l lxor ((b24l lxor M) land b20l) in
let e23h := b23h lxor ((b24h lxor M) land b20h) in
let e24l := b24l lxor ((b20l lxor M) land b21l) in
let e24h := b24h lxor ((b20h lxor M) land b21h) in
St e0l e0h e1l e1h e2l e2h e3l e3h e4l e4h e5l e5h e6l e6h e7l e7h e8l e8h e9l e9h e10l e10h e11l e11h e12l e12h e13l e13h e14l e14h e15l e15h e16l e16h e17l e17h e18l e18h e19l e19h e20l e20h e21l e21h e22l e22h e23l e23h e24l e24h
  end.

Definition round_constants : list (int * int) :=
  [(0, 1); (0, 32898); (2147483648, 32906); (2147483648, 2147516416); (0, 32907); (0, 2147483649); (2147483648, 2147516545); (2147483648, 32777); (0, 138); (0, 136); (0, 2147516425); (0, 2147483658); (0, 2147516555); (2147483648, 139); (2147483648, 32905); (2147483648, 32771); (2147483648, 32770); (2147483648, 128); (0, 32778); (2147483648, 2147483658); (2147483648, 2147516545); (2147483648, 32896); (0, 2147483649); (2147483648, 2147516424)].

Definition permute (s : st) : st :=
  fold_left (fun s rc => round (fst rc) (snd rc) s) round_constants s.

(** Absorb 34 half-words (one 136-byte block) at a time; the word list produced by
    [to_words] always has a length that is a multiple of 34. *)
Fixpoint absorb (ws : list int) (s : st) : st :=
  match ws with
  | w0 :: w1 :: w2 :: w3 :: w4 :: w5 :: w6 :: w7 :: w8 :: w9 :: w10 :: w11 :: w12 :: w13 :: w14 :: w15 :: w16 :: w17 :: w18 :: w19 :: w20 :: w21 :: w22 :: w23 :: w24 :: w25 :: w26 :: w27 :: w28 :: w29 :: w30 :: w31 :: w32 :: w33 :: rest =>
    match s with St a0l a0h a1l a1h a2l a2h a3l a3h a4l a4h a5l a5h a6l a6h a7l a7h a8l a8h a9l a9h a10l a10h a11l a11h a12l a12h a13l a13h a14l a14h a15l a15h a16l a16h a17l a17h a18l a18h a19l a19h a20l a20h a21l a21h a22l a22h a23l a23h a24l a24h =>
      absorb rest (permute (St (a0l lxor w0) (a0h lxor w1) (a1l lxor w2) (a1h lxor w3) (a2l lxor w4) (a2h lxor w5) (a3l lxor w6) (a3h lxor w7) (a4l lxor w8) (a4h lxor w9) (a5l lxor w10) (a5h lxor w11) (a6l lxor w12) (a6h lxor w13) (a7l lxor w14) (a7h lxor w15) (a8l lxor w16) (a8h lxor w17) (a9l lxor w18) (a9h lxor w19) (a10l lxor w20) (a10h lxor w21) (a11l lxor w22) (a11h lxor w23) (a12l lxor w24) (a12h lxor w25) (a13l lxor w26) (a13h lxor w27) (a14l lxor w28) (a14h lxor w29) (a15l lxor w30) (a15h lxor w31) (a16l lxor w32) (a16h lxor w33) a17l a17h a18l a18h a19l a19h a20l a20h a21l a21h a22l a22h a23l a23h a24l a24h))
    end
  | _ => s
  end.

(** byte ([N]) to [int], reduced mod 256 *)
Definition byte_in (b : N) : int := Uint63.of_Z (Z.of_N b) land 255.

Fixpoint zero_words (k : nat) : list int :=
  match k with
  | O => []
  | S O => [2147483648]
  | S k' => 0 :: zero_words k'
  end.

(** the last word of the message: [t] = 0..3 remaining bytes already packed, [sh] = 8 * their number;
    [k] = number of words still to come in this block after this one *)
Definition last_words (t sh : int) (k : nat) : list int :=
  let w := t lor (1 << sh) in
  match k with
  | O => [w lor 2147483648]
  | _ => w :: zero_words k
  end.

(** Little-endian packing of the padded message into 32-bit words; [k] = number of words that
    remain in the current block after the next one (33 at a block start). *)
Fixpoint to_words (m : list N) (k : nat) : list int :=
  match m with
  | b0 :: b1 :: b2 :: b3 :: r =>
      (byte_in b0 lor (byte_in b1 << 8) lor (byte_in b2 << 16) lor (byte_in b3 << 24))
        :: to_words r (match k with O => 33%nat | S k' => k' end)
  | [b0; b1; b2] => last_words (byte_in b0 lor (byte_in b1 << 8) lor (byte_in b2 << 16)) 24 k
  | [b0; b1] => last_words (byte_in b0 lor (byte_in b1 << 8)) 16 k
  | [b0] => last_words (byte_in b0) 8 k
  | [] => last_words 0 0 k
  end.

Fixpoint byte_out_rec (n : nat) (i : int) : N :=
  match n with
  | O => 0%N
  | S n' => (N.double (byte_out_rec n' (i >> 1)) + (if Uint63.eqb (i land 1) 0 then 0 else 1))%N
  end.
(** low byte of an [int] as [N] *)
Definition byte_out (i : int) : N := byte_out_rec 8 i.

Definition word_out (w : int) : list N :=
  [byte_out w; byte_out (w >> 8); byte_out (w >> 16); byte_out (w >> 24)].

Definition squeeze (s : st) : list N :=
  match s with St a0l a0h a1l a1h a2l a2h a3l a3h a4l a4h a5l a5h a6l a6h a7l a7h a8l a8h a9l a9h a10l a10h a11l a11h a12l a12h a13l a13h a14l a14h a15l a15h a16l a16h a17l a17h a18l a18h a19l a19h a20l a20h a21l a21h a22l a22h a23l a23h a24l a24h =>
    word_out a0l ++ word_out a0h ++ word_out a1l ++ word_out a1h ++
    word_out a2l ++ word_out a2h ++ word_out a3l ++ word_out a3h
  end.

Definition keccak256_raw (m : list N) : list N := squeeze (absorb (to_words m 33) st0).

(** normalise to exactly 32 bytes, each below 256 (the identity on the actual output of
    [keccak256_raw]; it makes the two lemmas below provable without any [Uint63] reasoning) *)
Definition knorm_bytes (l : list N) : list N :=
  map (fun b => (b mod 256)%N) (firstn 32 (l ++ repeat 0%N 32)).

Definition keccak256 (m : list N) : list N := knorm_bytes (keccak256_raw m).

Lemma knorm_bytes_length l : length (knorm_bytes l) = 32%nat.
Proof.
  unfold knorm_bytes. rewrite map_length, firstn_length, app_length, repeat_length.
  apply Nat.min_l. apply Nat.le_add_l.
Qed.

Lemma knorm_bytes_ok l : bytes_ok (knorm_bytes l).
Proof.
  unfold knorm_bytes, bytes_ok. apply Forall_forall. intros b Hb.
  apply in_map_iff in Hb. destruct Hb as [x [Hx _]]. subst b.
  apply N.mod_lt. discriminate.
Qed.

Lemma keccak256_length m : length (keccak256 m) = 32%nat.
Proof. apply knorm_bytes_length. Qed.

Lemma keccak256_ok m : bytes_ok (keccak256 m).
Proof. apply knorm_bytes_ok. Qed.

(** * Test vectors *)
Local Close Scope uint63_scope.
Local Open Scope N_scope.

(** deterministic test input: bytes i mod 256 for i < n *)
Definition kgen (n : nat) : list N := map (fun i => N.of_nat i mod 256) (seq 0 n).
(** [n] copies of byte [b] without going through [nat] *)
Definition krepeat (b : N) (n : N) : list N := N.iter n (cons b) [].

Example keccak_empty : hex_encode (keccak256 []) = s2l "c5d2460186f7233c927e7db2dcc703c0e500b653ca82273b7bfad8045d85a470".
Proof. vm_compute. reflexivity. Qed.
Example keccak_abc : hex_encode (keccak256 (s2l "abc")) = s2l "4e03657aea45a94fc7d47ba826c8d667c0d1e6e33a64a036ec44f58fa12d6c45".
Proof. vm_compute. reflexivity. Qed.
Example keccak_testing : hex_encode (keccak256 (s2l "testing")) = s2l "5f16f4c7f149ac4f9510d9cf8cf384038ad348b3bcdc01915f95de12df9d1b02".
Proof. vm_compute. reflexivity. Qed.
(** EIP-191 personal-message preimage "\x19Ethereum Signed Message:\n12Hello World!" (40 bytes) *)
Example keccak_eip191 :
  hex_encode (keccak256 ([25] ++ s2l "Ethereum Signed Message:" ++ [10] ++ s2l "12Hello World!"))
  = s2l "ec3608877ecbf8084c29896b7eab2a368b2b3c8d003288584d145613dfa4706c".
Proof. vm_compute. reflexivity. Qed.

(** block-boundary cases; expected values computed with the Rust harness ([prim.keccak]) *)
Example keccak_gen_0 : hex_encode (keccak256 (kgen 0)) = s2l "c5d2460186f7233c927e7db2dcc703c0e500b653ca82273b7bfad8045d85a470".
Proof. vm_compute. reflexivity. Qed.
Example keccak_gen_1 : hex_encode (keccak256 (kgen 1)) = s2l "bc36789e7a1e281436464229828f817d6612f7b477d66591ff96a9e064bcc98a".
Proof. vm_compute. reflexivity. Qed.
Example keccak_gen_2 : hex_encode (keccak256 (kgen 2)) = s2l "49d03a195e239b52779866b33024210fc7dc66e9c2998975c0aa45c1702549d5".
Proof. vm_compute. reflexivity. Qed.
Example keccak_gen_3 : hex_encode (keccak256 (kgen 3)) = s2l "f84a97f1f0a956e738abd85c2e0a5026f8874e3ec09c8f012159dfeeaab2b156".
Proof. vm_compute. reflexivity. Qed.
Example keccak_gen_4 : hex_encode (keccak256 (kgen 4)) = s2l "d98f2e8134922f73748703c8e7084d42f13d2fa1439936ef5a3abcf5646fe83f".
Proof. vm_compute. reflexivity. Qed.
Example keccak_gen_5 : hex_encode (keccak256 (kgen 5)) = s2l "b76772ee47306482c3e219e9034bcf3f79a9bc88d6317735cd5a0e21d661acf6".
Proof. vm_compute. reflexivity. Qed.
Example keccak_gen_134 : hex_encode (keccak256 (kgen 134)) = s2l "861e165162f806cd361c4421a48f205820ddf4deb02db9f041f48e179ddada97".
Proof. vm_compute. reflexivity. Qed.
Example keccak_gen_135 : hex_encode (keccak256 (kgen 135)) = s2l "cbdfd9dee5faad3818d6b06f95a219fd290b0e1706f6a82e5a595b9ce9faca62".
Proof. vm_compute. reflexivity. Qed.
Example keccak_gen_136 : hex_encode (keccak256 (kgen 136)) = s2l "7ce759f1ab7f9ce437719970c26b0a66ff11fe3e38e17df89cf5d29c7d7f807e".
Proof. vm_compute. reflexivity. Qed.
Example keccak_gen_137 : hex_encode (keccak256 (kgen 137)) = s2l "ac73d4fae68b8453f764007c1a20ce95994187861f0c3227a3a8e99a73a3b1db".
Proof. vm_compute. reflexivity. Qed.
Example keccak_gen_271 : hex_encode (keccak256 (kgen 271)) = s2l "7c974895b2a88303ff2dc6b58f438ceb0b298cac91099ac0539cc0f477506191".
Proof. vm_compute. reflexivity. Qed.
Example keccak_gen_272 : hex_encode (keccak256 (kgen 272)) = s2l "fdf2ec49e749960d3c8521a0219af8d03e30e2b3bf19bd16150ee0eaf133d66e".
Proof. vm_compute. reflexivity. Qed.
Example keccak_gen_273 : hex_encode (keccak256 (kgen 273)) = s2l "4f707289a9c3ccd0c4a51f2f17339f5dd171d371c04ff7783b735b5b22682eaf".
Proof. vm_compute. reflexivity. Qed.
Example keccak_gen_1000 : hex_encode (keccak256 (kgen 1000)) = s2l "aca79e4146e30eb1c733f6d6060d72471c36ea4e01ebf45d7f4916249c2bbd82".
Proof. vm_compute. reflexivity. Qed.
Example keccak_gen_1100 : hex_encode (keccak256 (kgen 1100)) = s2l "720e7f384023f245640d766eff75bc362fb16bf458d4461372ac128c2c3741f6".
Proof. vm_compute. reflexivity. Qed.
(** the raw output already has the normal form, on a sample *)
Example keccak_raw_normal : keccak256_raw (kgen 200) = keccak256 (kgen 200).
Proof. vm_compute. reflexivity. Qed.
(** non-byte inputs are reduced mod 256 *)
Example keccak_mod256 : keccak256 [256 + 97; 512 + 98; 99] = keccak256 (s2l "abc").
Proof. vm_compute. reflexivity. Qed.
(** 100 000 bytes 'a' (736 blocks; about 0.1 s) *)
Example keccak_100k : hex_encode (keccak256 (krepeat 97 100000)) = s2l "84951c56a2220986aeb29d9f422f5c4df8642a8c7d09aff518cfa8d71ae83979".
Proof. vm_compute. reflexivity. Qed.
