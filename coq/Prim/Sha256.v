(** SHA-256 (FIPS 180-4) as an executable primitive: "modelled, not verified".

    The computation runs on Coq's primitive 63-bit integers: a 32-bit word is one [int] kept
    below 2^32.  Bytes are [N] at the interface only.  No property of the digest is proved
    except its length and byte range, which come from the [norm_bytes] wrapper (the identity on
    a correct digest) by pure list reasoning; the published test vectors at the end of the file
    are checked by [vm_compute]. *)
From Coq Require Import String.
From Coq Require Import List NArith ZArith Lia Uint63.
From HDW Require Import Lib.Bytes Lib.Hex.
Import ListNotations.

(* ------------------------------------------------------------------------- *)
(** * The normalising wrapper and its two lemmas *)

Definition norm_bytes (k : nat) (l : list N) : list N :=
  map (fun b => N.modulo b 256) (firstn k (l ++ repeat 0%N k)).

Lemma norm_bytes_length k l : length (norm_bytes k l) = k.
Proof.
  unfold norm_bytes. rewrite map_length, firstn_length, app_length, repeat_length. lia.
Qed.

Lemma norm_bytes_ok k l : bytes_ok (norm_bytes k l).
Proof.
  unfold norm_bytes, bytes_ok. apply Forall_forall. intros x Hx.
  apply in_map_iff in Hx. destruct Hx as [y [Hy _]]. subst x.
  apply N.mod_lt. discriminate.
Qed.

(* ------------------------------------------------------------------------- *)
(** * Byte / word conversions shared by SHA-256 and SHA-512 *)

Local Open Scope uint63_scope.

Definition m32 : int := 0xFFFFFFFF.

(** a byte given as [N] to [int] (masked, so that ill-formed input cannot leave the word range) *)
Definition int_of_byte (b : N) : int := (Uint63.of_Z (Z.of_N b)) land 255.

(** the low [n] bits of [i] as an [N] *)
Fixpoint n_of_bits (n : nat) (i : int) : N :=
  match n with
  | O => 0%N
  | S n' => (if is_even i then N.double else N.succ_double) (n_of_bits n' (i >> 1))
  end.

Definition byte_of_int (i : int) : N := n_of_bits 8 i.

(** the four big-endian bytes of a 32-bit word, pushed in front of [acc] *)
Definition bytes_of_w32 (w : int) (acc : list N) : list N :=
  byte_of_int (w >> 24) :: byte_of_int (w >> 16) :: byte_of_int (w >> 8) :: byte_of_int w :: acc.

Definition w32_of_bytes (b0 b1 b2 b3 : int) : int :=
  (b0 << 24) lor (b1 << 16) lor (b2 << 8) lor b3.

(** [pack32 l acc len]: the message bytes [l] as big-endian 32-bit words, most recent first, in
    front of [acc]; the byte 0x80 that starts the padding is already appended (so the last word is
    always the one holding 0x80, zero filled).  Second component: [len] + number of bytes. *)
Fixpoint pack32 (l : list N) (acc : list int) (len : int) : list int * int :=
  match l with
  | b0 :: b1 :: b2 :: b3 :: r =>
      pack32 r (w32_of_bytes (int_of_byte b0) (int_of_byte b1) (int_of_byte b2) (int_of_byte b3) :: acc)
             (len + 4)
  | [b0; b1; b2] =>
      (w32_of_bytes (int_of_byte b0) (int_of_byte b1) (int_of_byte b2) 0x80 :: acc, len + 3)
  | [b0; b1] => (w32_of_bytes (int_of_byte b0) (int_of_byte b1) 0x80 0 :: acc, len + 2)
  | [b0] => (w32_of_bytes (int_of_byte b0) 0x80 0 0 :: acc, len + 1)
  | [] => (0x80000000 :: acc, len)
  end.

(** [z] zero words in front of [acc] ([z] < 32 is all that is ever needed) *)
Fixpoint zeros_fuel (fuel : nat) (z : int) (acc : list int) : list int :=
  match fuel with
  | O => acc
  | S f => if (z =? 0) then acc else zeros_fuel f (z - 1) (0 :: acc)
  end.
Definition push_zeros (z : int) (acc : list int) : list int := zeros_fuel 32 z acc.

(** [padded_words lw pre m]: the padded message as 32-bit words in message order.
    [lw] = log2 of the number of 32-bit words per block (4 for SHA-256, 5 for SHA-512);
    the length field occupies 2 words (SHA-256) or 4 words (SHA-512);
    [pre] = number of bytes already absorbed into the chaining state (a multiple of the block
    size), which only enters the length field. *)
Definition padded_words (wide : bool) (pre : int) (m : list N) : list int :=
  let '(ws, len) := pack32 m [] 0 in
  let n := (len >> 2) + 1 in
  let z := if wide then (28 - n) land 31 else (14 - n) land 15 in
  let total := pre + len in
  let hi := (total >> 29) land m32 in
  let lo := (total << 3) land m32 in
  let ws1 := push_zeros z ws in
  let ws2 := if wide then 0 :: 0 :: ws1 else ws1 in
  rev' (lo :: hi :: ws2).

(* ------------------------------------------------------------------------- *)
(** * SHA-256 *)

Definition k256 : list int :=
  [0x428a2f98; 0x71374491; 0xb5c0fbcf; 0xe9b5dba5; 0x3956c25b; 0x59f111f1; 0x923f82a4; 0xab1c5ed5;
   0xd807aa98; 0x12835b01; 0x243185be; 0x550c7dc3; 0x72be5d74; 0x80deb1fe; 0x9bdc06a7; 0xc19bf174;
   0xe49b69c1; 0xefbe4786; 0x0fc19dc6; 0x240ca1cc; 0x2de92c6f; 0x4a7484aa; 0x5cb0a9dc; 0x76f988da;
   0x983e5152; 0xa831c66d; 0xb00327c8; 0xbf597fc7; 0xc6e00bf3; 0xd5a79147; 0x06ca6351; 0x14292967;
   0x27b70a85; 0x2e1b2138; 0x4d2c6dfc; 0x53380d13; 0x650a7354; 0x766a0abb; 0x81c2c92e; 0x92722c85;
   0xa2bfe8a1; 0xa81a664b; 0xc24b8b70; 0xc76c51a3; 0xd192e819; 0xd6990624; 0xf40e3585; 0x106aa070;
   0x19a4c116; 0x1e376c08; 0x2748774c; 0x34b0bcb5; 0x391c0cb3; 0x4ed8aa4a; 0x5b9cca4f; 0x682e6ff3;
   0x748f82ee; 0x78a5636f; 0x84c87814; 0x8cc70208; 0x90befffa; 0xa4506ceb; 0xbef9a3f7; 0xc67178f2].

Definition iv256 : list int :=
  [0x6a09e667; 0xbb67ae85; 0x3c6ef372; 0xa54ff53a; 0x510e527f; 0x9b05688c; 0x1f83d9ab; 0x5be0cd19].

(** message schedule: [l] holds W[t-1], W[t-2], ... (most recent first); [n] more words are added *)
Fixpoint sched256 (n : nat) (l : list int) : list int :=
  match n with
  | O => l
  | S n' =>
      match l with
      | _ :: w2 :: _ :: _ :: _ :: _ :: w7 :: _ :: _ :: _ :: _ :: _ :: _ :: _ :: w15 :: w16 :: _ =>
          let s0 := ((w15 >> 7) lor (w15 << 25)) lxor ((w15 >> 18) lor (w15 << 14)) lxor (w15 >> 3) in
          let s1 := ((w2 >> 17) lor (w2 << 15)) lxor ((w2 >> 19) lor (w2 << 13)) lxor (w2 >> 10) in
          sched256 n' ((s0 + s1 + w7 + w16) land m32 :: l)
      | _ => l
      end
  end.

Fixpoint rounds256 (ws ks : list int) (a b c d e f g h : int) : list int :=
  match ws, ks with
  | w :: ws', k :: ks' =>
      let S1 := ((e >> 6) lor (e << 26)) lxor ((e >> 11) lor (e << 21)) lxor ((e >> 25) lor (e << 7)) in
      let ch := g lxor (e land (f lxor g)) in
      let t1 := h + S1 + ch + k + w in
      let S0 := ((a >> 2) lor (a << 30)) lxor ((a >> 13) lor (a << 19)) lxor ((a >> 22) lor (a << 10)) in
      let mj := (a land b) lor (c land (a lor b)) in
      rounds256 ws' ks' ((t1 + S0 + mj) land m32) a b c ((d + t1) land m32) e f g
  | _, _ => [a; b; c; d; e; f; g; h]
  end.

Fixpoint add_state32 (s t : list int) : list int :=
  match s, t with
  | x :: s', y :: t' => ((x + y) land m32) :: add_state32 s' t'
  | _, _ => []
  end.

(** one compression: [st] the chaining state (8 words), [blk_rev] the 16 block words, last first *)
Definition compress256 (st : list int) (blk_rev : list int) : list int :=
  match st with
  | [a; b; c; d; e; f; g; h] =>
      add_state32 st (rounds256 (rev' (sched256 48 blk_rev)) k256 a b c d e f g h)
  | _ => st
  end.

(** absorb a word stream block by block *)
Fixpoint absorb256 (ws : list int) (buf : list int) (cnt : nat) (st : list int) : list int :=
  match ws with
  | [] => st
  | w :: r =>
      match cnt with
      | 15%nat => absorb256 r [] 0%nat (compress256 st (w :: buf))
      | _ => absorb256 r (w :: buf) (S cnt) st
      end
  end.

(** continue hashing from chaining state [st] after [pre] absorbed bytes; result as words *)
Definition sha256_cont (st : list int) (pre : int) (m : list N) : list int :=
  absorb256 (padded_words false pre m) [] 0%nat st.

Definition digest_bytes32 (st : list int) : list N :=
  fold_right bytes_of_w32 [] st.

Definition sha256_raw (m : list N) : list N := digest_bytes32 (sha256_cont iv256 0 m).

Definition sha256 (m : list N) : list N := norm_bytes 32 (sha256_raw m).

Lemma sha256_length m : length (sha256 m) = 32%nat.
Proof. apply norm_bytes_length. Qed.

Lemma sha256_ok m : bytes_ok (sha256 m).
Proof. apply norm_bytes_ok. Qed.

(* ------------------------------------------------------------------------- *)
(** * Test vectors (FIPS 180-4 examples, plus block-boundary lengths checked against hashlib) *)

(** bytes written as a hex string (test vectors only) *)
Definition hexb (s : string) : list N :=
  match hex_decode (s2l s) with Some b => b | None => [] end.

Example sha256_empty :
  sha256 [] = hexb "e3b0c44298fc1c149afbf4c8996fb92427ae41e4649b934ca495991b7852b855".
Proof. vm_compute. reflexivity. Qed.

Example sha256_abc :
  sha256 (s2l "abc") = hexb "ba7816bf8f01cfea414140de5dae2223b00361a396177a9cb410ff61f20015ad".
Proof. vm_compute. reflexivity. Qed.

Example sha256_two_blocks :
  sha256 (s2l "abcdbcdecdefdefgefghfghighijhijkijkljklmklmnlmnomnopnopq")
  = hexb "248d6a61d20638b8e5c026930c3e6039a33ce45964ff2167f6ecedd419db06c1".
Proof. vm_compute. reflexivity. Qed.

(** the raw computation already has the right shape ([norm_bytes] is the identity on it) *)
Example sha256_raw_abc : sha256_raw (s2l "abc") = sha256 (s2l "abc").
Proof. vm_compute. reflexivity. Qed.
