(** Outcome of a modelled Rust computation.

    [Ok v]      the function returned [Ok(v)] / a value,
    [Err]       it returned an ordinary error ([?], [bail!], [ensure!]),
    [Panic]     an [unwrap]/[expect]/index/slice/overflow site in hdwallet's own code fired,
    [OutOfFuel] the fuel the model gave a non-structural loop ran out (proved unreachable). *)
From Coq Require Import List.
Import ListNotations.

Inductive outcome (A : Type) : Type :=
| Ok (a : A)
| Err
| Panic
| OutOfFuel.
Arguments Ok {A} a.
Arguments Err {A}.
Arguments Panic {A}.
Arguments OutOfFuel {A}.

Definition bind {A B} (x : outcome A) (f : A -> outcome B) : outcome B :=
  match x with
  | Ok a => f a
  | Err => Err
  | Panic => Panic
  | OutOfFuel => OutOfFuel
  end.

Definition omap {A B} (f : A -> B) (x : outcome A) : outcome B :=
  bind x (fun a => Ok (f a)).

Definition of_option {A} (x : option A) : outcome A :=
  match x with Some a => Ok a | None => Err end.

Definition is_ok {A} (x : outcome A) : bool :=
  match x with Ok _ => true | _ => false end.

(** An outcome is "graceful" when it is a result or an ordinary error. *)
Definition graceful {A} (x : outcome A) : Prop := x <> Panic /\ x <> OutOfFuel.

Declare Scope outcome_scope.
Delimit Scope outcome_scope with outcome.
Notation "'let*' x ':=' e1 'in' e2" := (bind e1 (fun x => e2))
  (at level 200, x pattern, e1 at level 100, e2 at level 200, right associativity) : outcome_scope.
Notation "'ensure' c ';;' e" := (if c then e else Err)
  (at level 200, c at level 100, e at level 200, right associativity) : outcome_scope.

(** Collect a list of outcomes, stopping at the first non-[Ok] (like Rust's
    [collect::<Result<_>>]). *)
Fixpoint omapM {A B} (f : A -> outcome B) (l : list A) : outcome (list B) :=
  match l with
  | [] => Ok []
  | x :: r =>
      match f x with
      | Ok y => match omapM f r with Ok ys => Ok (y :: ys) | Err => Err | Panic => Panic | OutOfFuel => OutOfFuel end
      | Err => Err
      | Panic => Panic
      | OutOfFuel => OutOfFuel
      end
  end.

Lemma bind_ok {A B} (x : outcome A) (f : A -> outcome B) b :
  bind x f = Ok b -> exists a, x = Ok a /\ f a = Ok b.
Proof. destruct x; simpl; intros H; try discriminate. eauto. Qed.

Lemma graceful_ok {A} (a : A) : graceful (Ok a).
Proof. split; discriminate. Qed.
Lemma graceful_err {A} : graceful (@Err A).
Proof. split; discriminate. Qed.

Lemma graceful_bind {A B} (x : outcome A) (f : A -> outcome B) :
  graceful x -> (forall a, x = Ok a -> graceful (f a)) -> graceful (bind x f).
Proof.
  intros [H1 H2] Hf. destruct x; simpl; try (split; discriminate); try congruence.
  apply Hf; reflexivity.
Qed.

Lemma omapM_ok {A B} (f : A -> outcome B) l ys :
  omapM f l = Ok ys -> Forall2 (fun x y => f x = Ok y) l ys.
Proof.
  revert ys; induction l as [|x r IH]; simpl; intros ys H.
  - inversion H; constructor.
  - destruct (f x) eqn:Hx; try discriminate.
    destruct (omapM f r) eqn:Hr; try discriminate.
    inversion H; subst. constructor; auto.
Qed.

Lemma omapM_all_ok {A B} (f : A -> outcome B) l ys :
  Forall2 (fun x y => f x = Ok y) l ys -> omapM f l = Ok ys.
Proof.
  induction 1 as [|x y l ys Hxy _ IH]; simpl; [reflexivity|].
  rewrite Hxy, IH; reflexivity.
Qed.

Lemma omapM_graceful {A B} (f : A -> outcome B) l :
  (forall x, In x l -> graceful (f x)) -> graceful (omapM f l).
Proof.
  induction l as [|x r IH]; simpl; intros H.
  - apply graceful_ok.
  - assert (Hx : graceful (f x)) by (apply H; auto).
    assert (Hr : graceful (omapM f r)) by (apply IH; intros; apply H; auto).
    destruct Hx as [Hx1 Hx2], Hr as [Hr1 Hr2].
    destruct (f x); try congruence; try (split; discriminate).
    destruct (omapM f r); try congruence; split; discriminate.
Qed.
