(** Positional notation in an arbitrary base: digits <-> value.
    Shared by decimal printing/parsing (C10, C14), hexadecimal (C13, C15, C19),
    and big-endian byte strings (C01, C03, C06, C07). Digits and values are [N]. *)
From Coq Require Import List NArith Lia Bool PeanoNat Arith.
Import ListNotations.
Open Scope N_scope.

Definition of_digits (b : N) (ds : list N) : N :=
  fold_left (fun a d => a * b + d) ds 0.

Fixpoint to_digits_fuel (b : N) (f : nat) (n : N) (acc : list N) : list N :=
  match f with
  | O => acc
  | S f' => if n =? 0 then acc else to_digits_fuel b f' (n / b) (n mod b :: acc)
  end.

(** Minimal digit string of [n] (empty for 0), most significant digit first. *)
Definition to_digits (b n : N) : list N :=
  to_digits_fuel b (N.to_nat (N.size n)) n [].

(** Exactly [k] digits, most significant first (value taken mod b^k). *)
Fixpoint to_digits_fixed (b : N) (k : nat) (v : N) : list N :=
  match k with
  | O => []
  | S k' => to_digits_fixed b k' (v / b) ++ [v mod b]
  end.

Definition digits_ok (b : N) (ds : list N) : Prop := Forall (fun d => d < b) ds.

(** canonical = no leading zero digit *)
Definition canonical (ds : list N) : Prop :=
  match ds with [] => True | d :: _ => d <> 0 end.

(* ------------------------------------------------------------------ *)

Lemma of_digits_acc b ds a :
  fold_left (fun a d => a * b + d) ds a = a * b ^ N.of_nat (length ds) + of_digits b ds.
Proof.
  unfold of_digits. revert a; induction ds as [|d r IH]; intros a.
  - cbn [fold_left length]. change (N.of_nat 0) with 0. rewrite N.pow_0_r. lia.
  - cbn [fold_left length]. rewrite IH. rewrite (IH (0 * b + d)).
    rewrite Nat2N.inj_succ, N.pow_succ_r'. lia.
Qed.

Lemma of_digits_nil b : of_digits b [] = 0.
Proof. reflexivity. Qed.

Lemma of_digits_cons b d r :
  of_digits b (d :: r) = d * b ^ N.of_nat (length r) + of_digits b r.
Proof.
  unfold of_digits at 1. cbn [fold_left]. rewrite of_digits_acc. lia.
Qed.

Lemma of_digits_app b l1 l2 :
  of_digits b (l1 ++ l2) = of_digits b l1 * b ^ N.of_nat (length l2) + of_digits b l2.
Proof.
  unfold of_digits at 1. rewrite fold_left_app.
  fold (of_digits b l1). apply of_digits_acc.
Qed.

Lemma of_digits_snoc b l d : of_digits b (l ++ [d]) = of_digits b l * b + d.
Proof.
  rewrite of_digits_app. cbn [length]. change (N.of_nat 1) with 1. rewrite N.pow_1_r.
  unfold of_digits at 2. cbn [fold_left]. lia.
Qed.

Lemma of_digits_bound b ds :
  digits_ok b ds -> of_digits b ds < b ^ N.of_nat (length ds).
Proof.
  induction ds as [|d r IH] using rev_ind; intros H.
  - simpl. unfold of_digits; simpl. lia.
  - apply Forall_app in H as [Hr Hd]. inversion Hd as [|? ? Hd' _]; subst.
    rewrite of_digits_snoc, app_length. cbn [length].
    rewrite Nat.add_1_r, Nat2N.inj_succ, N.pow_succ_r'.
    specialize (IH Hr). nia.
Qed.

Lemma of_digits_zeros b k ds : of_digits b (repeat 0 k ++ ds) = of_digits b ds.
Proof.
  induction k as [|k IH]; [reflexivity|].
  cbn [repeat app]. rewrite of_digits_cons, IH. lia.
Qed.

Lemma to_digits_fuel_spec b (Hb : 2 <= b) f : forall n acc,
  n < 2 ^ N.of_nat f ->
  exists pre, to_digits_fuel b f n acc = pre ++ acc
    /\ of_digits b pre = n
    /\ digits_ok b pre
    /\ canonical pre
    /\ (n = 0 -> pre = []).
Proof.
  induction f as [|f IH]; intros n acc Hn.
  - simpl in Hn. assert (n = 0) by lia. subst.
    exists []. simpl. repeat split; auto. constructor.
  - cbn [to_digits_fuel]. destruct (N.eqb_spec n 0) as [->|Hnz].
    + exists []. simpl. repeat split; auto. constructor.
    + rewrite Nat2N.inj_succ, N.pow_succ_r' in Hn.
      assert (Hq : n / b < 2 ^ N.of_nat f).
      { apply N.div_lt_upper_bound; [lia|]. nia. }
      destruct (IH (n / b) (n mod b :: acc) Hq) as (pre & Heq & Hval & Hok & Hcan & Hz).
      exists (pre ++ [n mod b]). rewrite Heq, <- app_assoc. cbn [app].
      split; [reflexivity|]. split.
      { rewrite of_digits_snoc, Hval. pose proof (N.div_mod n b). lia. }
      split.
      { apply Forall_app; split; [assumption|]. constructor; [|constructor].
        apply N.mod_lt; lia. }
      split.
      { destruct pre as [|d r].
        - cbn. assert (n / b = 0) by (rewrite <- Hval; reflexivity).
          pose proof (N.div_mod n b). intro. lia.
        - exact Hcan. }
      intros; contradiction.
Qed.

Lemma to_digits_spec b n (Hb : 2 <= b) :
  of_digits b (to_digits b n) = n /\ digits_ok b (to_digits b n) /\ canonical (to_digits b n)
  /\ (n = 0 -> to_digits b n = []).
Proof.
  unfold to_digits.
  destruct (to_digits_fuel_spec b Hb (N.to_nat (N.size n)) n []) as (pre & Heq & H1 & H2 & H3 & H4).
  { rewrite N2Nat.id. apply N.size_gt. }
  rewrite Heq, app_nil_r. auto.
Qed.

Lemma of_to_digits b n : 2 <= b -> of_digits b (to_digits b n) = n.
Proof. intros; apply to_digits_spec; assumption. Qed.

Lemma to_digits_ok b n : 2 <= b -> digits_ok b (to_digits b n).
Proof. intros; apply to_digits_spec; assumption. Qed.

Lemma to_digits_canonical b n : 2 <= b -> canonical (to_digits b n).
Proof. intros; apply to_digits_spec; assumption. Qed.

Lemma to_digits_0 b : to_digits b 0 = [].
Proof. reflexivity. Qed.

Lemma to_digits_nonempty b n : 2 <= b -> n <> 0 -> to_digits b n <> [].
Proof.
  intros Hb Hn Heq. pose proof (of_to_digits b n Hb) as H. rewrite Heq in H.
  unfold of_digits in H; simpl in H. congruence.
Qed.

(** A canonical digit string is determined by its value. *)
Lemma canonical_lower_bound b d r :
  2 <= b -> d <> 0 -> b ^ N.of_nat (length r) <= of_digits b (d :: r).
Proof. intros Hb Hd. rewrite of_digits_cons. nia. Qed.

Lemma digits_same_length_inj b (Hb : 2 <= b) : forall l1 l2,
  length l1 = length l2 -> digits_ok b l1 -> digits_ok b l2 ->
  of_digits b l1 = of_digits b l2 -> l1 = l2.
Proof.
  induction l1 as [|d1 r1 IH] using rev_ind; intros l2 Hlen H1 H2 Hv.
  - destruct l2; [reflexivity|discriminate].
  - destruct l2 as [|d2 r2 _] using rev_ind.
    { rewrite app_length in Hlen; simpl in Hlen; lia. }
    rewrite !app_length in Hlen; cbn [length] in Hlen.
    apply Forall_app in H1 as [H1r H1d]. apply Forall_app in H2 as [H2r H2d].
    inversion H1d as [|? ? H1d' _]; inversion H2d as [|? ? H2d' _]; subst.
    rewrite !of_digits_snoc in Hv.
    assert (Hd : d1 = d2).
    { apply (f_equal (fun x => x mod b)) in Hv.
      rewrite !(N.add_comm (_ * b)), !N.mod_add, !N.mod_small in Hv by lia. exact Hv. }
    subst d2.
    assert (Hr : of_digits b r1 = of_digits b r2) by nia.
    f_equal. apply IH; auto; lia.
Qed.

Lemma canonical_inj b (Hb : 2 <= b) l1 l2 :
  digits_ok b l1 -> digits_ok b l2 -> canonical l1 -> canonical l2 ->
  of_digits b l1 = of_digits b l2 -> l1 = l2.
Proof.
  intros H1 H2 C1 C2 Hv.
  apply (digits_same_length_inj b Hb); auto.
  pose proof (of_digits_bound b l1 H1) as B1.
  pose proof (of_digits_bound b l2 H2) as B2.
  destruct (Nat.lt_trichotomy (length l1) (length l2)) as [Hlt|[Heq|Hgt]]; [exfalso| assumption |exfalso].
  - destruct l2 as [|d2 r2]; [simpl in Hlt; lia|]. cbn in C2.
    pose proof (canonical_lower_bound b d2 r2 Hb C2) as L.
    cbn [length] in Hlt.
    assert (b ^ N.of_nat (length l1) <= b ^ N.of_nat (length r2)).
    { apply N.pow_le_mono_r; lia. }
    lia.
  - destruct l1 as [|d1 r1]; [simpl in Hgt; lia|]. cbn in C1.
    pose proof (canonical_lower_bound b d1 r1 Hb C1) as L.
    cbn [length] in Hgt.
    assert (b ^ N.of_nat (length l2) <= b ^ N.of_nat (length r1)).
    { apply N.pow_le_mono_r; lia. }
    lia.
Qed.

Lemma to_of_digits b ds :
  2 <= b -> digits_ok b ds -> canonical ds -> to_digits b (of_digits b ds) = ds.
Proof.
  intros Hb Hok Hcan.
  apply (canonical_inj b Hb); auto using to_digits_ok, to_digits_canonical.
  apply of_to_digits; assumption.
Qed.

(* -------- fixed width -------- *)

Lemma to_digits_fixed_length b k v : length (to_digits_fixed b k v) = k.
Proof.
  revert v; induction k as [|k IH]; intros v; [reflexivity|].
  cbn [to_digits_fixed]. rewrite app_length, IH. simpl. lia.
Qed.

Lemma to_digits_fixed_ok b k v : 2 <= b -> digits_ok b (to_digits_fixed b k v).
Proof.
  intros Hb. revert v; induction k as [|k IH]; intros v; [constructor|].
  cbn [to_digits_fixed]. apply Forall_app; split; [apply IH|].
  constructor; [|constructor]. apply N.mod_lt; lia.
Qed.

Lemma of_to_digits_fixed b k v :
  2 <= b -> of_digits b (to_digits_fixed b k v) = v mod b ^ N.of_nat k.
Proof.
  intros Hb. revert v; induction k as [|k IH]; intros v.
  - simpl. rewrite N.mod_1_r. reflexivity.
  - cbn [to_digits_fixed]. rewrite of_digits_snoc, IH.
    rewrite Nat2N.inj_succ, N.pow_succ_r'.
    rewrite (N.mod_mul_r v b (b ^ N.of_nat k)); [lia | lia |].
    apply N.pow_nonzero; lia.
Qed.

Lemma of_to_digits_fixed_small b k v :
  2 <= b -> v < b ^ N.of_nat k -> of_digits b (to_digits_fixed b k v) = v.
Proof. intros Hb Hv. rewrite of_to_digits_fixed by assumption. apply N.mod_small; assumption. Qed.

Lemma to_of_digits_fixed b ds :
  2 <= b -> digits_ok b ds -> to_digits_fixed b (length ds) (of_digits b ds) = ds.
Proof.
  intros Hb Hok.
  apply (digits_same_length_inj b Hb).
  - apply to_digits_fixed_length.
  - apply to_digits_fixed_ok; assumption.
  - assumption.
  - apply of_to_digits_fixed_small; [assumption|]. apply of_digits_bound; assumption.
Qed.

(** The fixed-width string is the minimal one padded with zeros on the left. *)
Lemma to_digits_length_le b k v :
  2 <= b -> v < b ^ N.of_nat k -> (length (to_digits b v) <= k)%nat.
Proof.
  intros Hb Hv.
  destruct (to_digits b v) as [|d r] eqn:E; [simpl; lia|].
  pose proof (to_digits_canonical b v Hb) as C. rewrite E in C. cbn in C.
  pose proof (canonical_lower_bound b d r Hb C) as L.
  rewrite <- E, of_to_digits in L by assumption.
  cbn [length].
  destruct (Nat.le_gt_cases (S (length r)) k) as [|Hgt]; [assumption|exfalso].
  assert (b ^ N.of_nat k <= b ^ N.of_nat (length r)) by (apply N.pow_le_mono_r; lia).
  lia.
Qed.

Lemma to_digits_fixed_pad b k v :
  2 <= b -> v < b ^ N.of_nat k ->
  to_digits_fixed b k v = repeat 0 (k - length (to_digits b v)) ++ to_digits b v.
Proof.
  intros Hb Hv.
  pose proof (to_digits_length_le b k v Hb Hv) as Hle.
  apply (digits_same_length_inj b Hb).
  - rewrite to_digits_fixed_length, app_length, repeat_length. lia.
  - apply to_digits_fixed_ok; assumption.
  - apply Forall_app; split; [|apply to_digits_ok; assumption].
    apply Forall_forall. intros x Hx. apply repeat_spec in Hx. subst. lia.
  - rewrite of_digits_zeros, of_to_digits, of_to_digits_fixed_small by assumption. reflexivity.
Qed.

(** Dropping leading zero digits. *)
Fixpoint strip0 (l : list N) : list N :=
  match l with
  | 0 :: r => strip0 r
  | _ => l
  end.

Lemma strip0_zeros k ds : canonical ds -> strip0 (repeat 0 k ++ ds) = ds.
Proof.
  intros C. induction k as [|k IH]; cbn [repeat app]; [|exact IH].
  destruct ds as [|d r]; [reflexivity|]. cbn in C. cbn [strip0].
  destruct d; [congruence|reflexivity].
Qed.

Lemma strip0_fixed b k v :
  2 <= b -> v < b ^ N.of_nat k -> strip0 (to_digits_fixed b k v) = to_digits b v.
Proof.
  intros Hb Hv. rewrite to_digits_fixed_pad by assumption.
  apply strip0_zeros. apply to_digits_canonical; assumption.
Qed.
