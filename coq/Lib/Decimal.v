(** Decimal text: Rust's [Display] for unsigned integers and [FromStr] for [u32]/[usize]. *)
From Coq Require Import List NArith ZArith Lia Bool PeanoNat Arith.
From HDW Require Import Lib.Radix Lib.Bytes.
Import ListNotations.
Open Scope N_scope.

(** [format!("{n}")] *)
Definition decimal (n : N) : list N :=
  if n =? 0 then [48] else map (fun d => 48 + d) (to_digits 10 n).

Definition digit_val (c : N) : option N :=
  if (48 <=? c) && (c <=? 57) then Some (c - 48) else None.

Fixpoint parse_digits (s : list N) (acc : N) : option N :=
  match s with
  | [] => Some acc
  | c :: r => match digit_val c with Some d => parse_digits r (acc * 10 + d) | None => None end
  end.

(** [<uN as FromStr>::from_str] with [max = 2^N - 1]: an optional single [+], at least one
    ASCII digit, nothing else; leading zeros allowed; overflow is an error. *)
Definition parse_uint (max : N) (s : list N) : option N :=
  let s' := match s with 43 :: r => r | _ => s end in
  match s' with
  | [] => None
  | _ => match parse_digits s' 0 with
         | Some v => if v <=? max then Some v else None
         | None => None
         end
  end.

Definition all_digits (s : list N) : Prop := Forall (fun c => 48 <= c <= 57) s.

(* ------------------------------------------------------------------ *)

Lemma parse_digits_spec s : forall acc,
  all_digits s ->
  parse_digits s acc = Some (acc * 10 ^ N.of_nat (length s) + of_digits 10 (map (fun c => c - 48) s)).
Proof.
  induction s as [|c r IH]; intros acc H.
  - cbn. f_equal. lia.
  - inversion H as [|? ? Hc Hr]; subst. cbn [parse_digits]. unfold digit_val.
    replace ((48 <=? c) && (c <=? 57)) with true by lia.
    rewrite IH by assumption. cbn [map length]. rewrite of_digits_cons, map_length.
    rewrite Nat2N.inj_succ, N.pow_succ_r'. f_equal. lia.
Qed.

Lemma parse_digits_some s : forall acc v, parse_digits s acc = Some v -> all_digits s.
Proof.
  induction s as [|c r IH]; intros acc v H; [constructor|].
  cbn [parse_digits] in H. unfold digit_val in H.
  destruct ((48 <=? c) && (c <=? 57)) eqn:E; [|discriminate].
  constructor; [lia|]. eapply IH; eassumption.
Qed.

Lemma decimal_digits n : all_digits (decimal n).
Proof.
  unfold decimal. destruct (N.eqb_spec n 0); [repeat constructor; lia|].
  pose proof (to_digits_ok 10 n ltac:(lia)) as H.
  induction H as [|d r Hd _ IH]; [constructor|]. cbn [map]. constructor; [lia|exact IH].
Qed.

Lemma decimal_nonempty n : decimal n <> [].
Proof.
  unfold decimal. destruct (N.eqb_spec n 0); [discriminate|].
  intros H. apply map_eq_nil in H. revert H. apply to_digits_nonempty; lia.
Qed.

Lemma decimal_no_plus n : forall r, decimal n <> 43 :: r.
Proof.
  intros r H. pose proof (decimal_digits n) as D. rewrite H in D. inversion D; lia.
Qed.

Lemma map_sub_add l : map (fun c => c - 48) (map (fun d => 48 + d) l) = l.
Proof. induction l as [|x l IH]; [reflexivity|]. cbn [map]. rewrite IH. f_equal. lia. Qed.

Lemma decimal_value n : of_digits 10 (map (fun c => c - 48) (decimal n)) = n.
Proof.
  unfold decimal. destruct (N.eqb_spec n 0) as [->|Hn]; [reflexivity|].
  rewrite map_sub_add. apply of_to_digits; lia.
Qed.

Lemma parse_decimal max n : n <= max -> parse_uint max (decimal n) = Some n.
Proof.
  intros Hn. unfold parse_uint.
  destruct (decimal n) as [|c r] eqn:E; [exfalso; eapply decimal_nonempty; eassumption|].
  assert (Hc : c <> 43) by (intros ->; eapply decimal_no_plus; eassumption).
  assert (Hs : match c :: r with 43 :: r0 => r0 | _ => c :: r end = c :: r).
  { destruct c as [|p]; [reflexivity|]. repeat (destruct p as [p|p|]; try reflexivity). congruence. }
  rewrite Hs, <- E. rewrite parse_digits_spec by apply decimal_digits.
  rewrite decimal_value. rewrite N.mul_0_l, N.add_0_l.
  replace (n <=? max) with true by lia. reflexivity.
Qed.

(** leading zero free: the canonical decimal spelling *)
Lemma decimal_canonical n : n <> 0 -> exists c r, decimal n = c :: r /\ c <> 48.
Proof.
  intros Hn. unfold decimal. destruct (N.eqb_spec n 0); [contradiction|].
  pose proof (to_digits_canonical 10 n ltac:(lia)) as C.
  destruct (to_digits 10 n) as [|d r] eqn:E.
  - exfalso. eapply to_digits_nonempty; [| |exact E]; lia.
  - cbn in C. cbn [map]. exists (48 + d), (map (fun d => 48 + d) r). split; [reflexivity|lia].
Qed.

Lemma parse_uint_sound max s v :
  parse_uint max s = Some v ->
  v <= max /\ exists ds, (s = ds \/ s = 43 :: ds) /\ ds <> [] /\ all_digits ds
                        /\ v = of_digits 10 (map (fun c => c - 48) ds).
Proof.
  unfold parse_uint. intros H.
  set (s' := match s with 43 :: r => r | _ => s end) in *.
  assert (Hs : s = s' \/ s = 43 :: s').
  { subst s'. destruct s as [|c r]; [left; reflexivity|].
    destruct c as [|p]; [left; reflexivity|].
    repeat (destruct p as [p|p|]; try (left; reflexivity)). right; reflexivity. }
  destruct s' as [|c r] eqn:E; [discriminate|].
  destruct (parse_digits (c :: r) 0) as [v'|] eqn:P; [|discriminate].
  destruct (N.leb_spec v' max); [|discriminate]. inversion H; subst v'.
  split; [assumption|]. exists (c :: r). split; [exact Hs|]. split; [discriminate|].
  pose proof (parse_digits_some _ _ _ P) as D. split; [exact D|].
  rewrite parse_digits_spec in P by exact D. rewrite N.mul_0_l, N.add_0_l in P.
  inversion P. reflexivity.
Qed.

Lemma parse_uint_reject_nondigit max s :
  (forall ds, (s = ds \/ s = 43 :: ds) -> ds = [] \/ ~ all_digits ds) -> parse_uint max s = None.
Proof.
  intros H. destruct (parse_uint max s) as [v|] eqn:E; [|reflexivity].
  apply parse_uint_sound in E as (_ & ds & Hs & Hne & Hd & _).
  destruct (H ds Hs); contradiction.
Qed.
