(** Hexadecimal text <-> bytes: the [hex] crate's [encode] / [decode] / [decode_to_slice]. *)
From Coq Require Import List NArith ZArith Lia Bool PeanoNat Arith.
From HDW Require Import Lib.Radix Lib.Bytes.
Import ListNotations.
Open Scope N_scope.

(** lower-case digit of a nibble *)
Definition hex_digit (n : N) : N := if n <? 10 then 48 + n else 87 + n.

(** value of a digit in either case *)
Definition hex_val (c : N) : option N :=
  if (48 <=? c) && (c <=? 57) then Some (c - 48)
  else if (97 <=? c) && (c <=? 102) then Some (c - 87)
  else if (65 <=? c) && (c <=? 70) then Some (c - 55)
  else None.

Definition is_hex (c : N) : bool :=
  match hex_val c with Some _ => true | None => false end.

Fixpoint hex_encode (bs : bytes) : list N :=
  match bs with
  | [] => []
  | b :: r => hex_digit (b / 16) :: hex_digit (b mod 16) :: hex_encode r
  end.

(** [hex::decode]: [None] on an odd number of characters or a non-hex character. *)
Fixpoint hex_decode (s : list N) : option bytes :=
  match s with
  | [] => Some []
  | [_] => None
  | h :: l :: r =>
      match hex_val h, hex_val l, hex_decode r with
      | Some a, Some b, Some bs => Some (a * 16 + b :: bs)
      | _, _, _ => None
      end
  end.

(** [hex::decode_to_slice(s, &mut [0; k])] *)
Definition hex_decode_fixed (k : nat) (s : list N) : option bytes :=
  match hex_decode s with
  | Some bs => if Nat.eqb (length bs) k then Some bs else None
  | None => None
  end.

(* ------------------------------------------------------------------ *)

Lemma hex_val_digit n : n < 16 -> hex_val (hex_digit n) = Some n.
Proof.
  intros Hn. unfold hex_val, hex_digit.
  destruct (N.ltb_spec n 10).
  - replace ((48 <=? 48 + n) && (48 + n <=? 57)) with true by lia. f_equal; lia.
  - replace ((48 <=? 87 + n) && (87 + n <=? 57)) with false by lia.
    replace ((97 <=? 87 + n) && (87 + n <=? 102)) with true by lia. f_equal; lia.
Qed.

Lemma hex_val_bound c v : hex_val c = Some v -> v < 16.
Proof.
  unfold hex_val. intros H.
  destruct ((48 <=? c) && (c <=? 57)) eqn:E1; [inversion H; lia|].
  destruct ((97 <=? c) && (c <=? 102)) eqn:E2; [inversion H; lia|].
  destruct ((65 <=? c) && (c <=? 70)) eqn:E3; [inversion H; lia|discriminate].
Qed.

Lemma hex_val_ascii c v : hex_val c = Some v -> c < 128.
Proof.
  unfold hex_val. intros H.
  destruct ((48 <=? c) && (c <=? 57)) eqn:E1; [lia|].
  destruct ((97 <=? c) && (c <=? 102)) eqn:E2; [lia|].
  destruct ((65 <=? c) && (c <=? 70)) eqn:E3; [lia|discriminate].
Qed.

Lemma hex_val_lower c : hex_val (to_lower c) = hex_val c.
Proof.
  unfold hex_val, to_lower, is_upper.
  destruct ((65 <=? c) && (c <=? 90)) eqn:EU; [|reflexivity].
  replace ((48 <=? c + 32) && (c + 32 <=? 57)) with false by lia.
  replace ((48 <=? c) && (c <=? 57)) with false by lia.
  replace ((97 <=? c) && (c <=? 102)) with false by lia.
  replace ((65 <=? c + 32) && (c + 32 <=? 70)) with false by lia.
  destruct ((65 <=? c) && (c <=? 70)) eqn:E3.
  - replace ((97 <=? c + 32) && (c + 32 <=? 102)) with true by lia. f_equal; lia.
  - replace ((97 <=? c + 32) && (c + 32 <=? 102)) with false by lia. reflexivity.
Qed.

Lemma hex_val_upper c : hex_val (to_upper c) = hex_val c.
Proof.
  unfold hex_val, to_upper, is_lower.
  destruct ((97 <=? c) && (c <=? 122)) eqn:EU; [|reflexivity].
  replace ((48 <=? c - 32) && (c - 32 <=? 57)) with false by lia.
  replace ((48 <=? c) && (c <=? 57)) with false by lia.
  replace ((97 <=? c - 32) && (c - 32 <=? 102)) with false by lia.
  replace ((65 <=? c) && (c <=? 70)) with false by lia.
  destruct ((97 <=? c) && (c <=? 102)) eqn:E3.
  - replace ((65 <=? c - 32) && (c - 32 <=? 70)) with true by lia. f_equal; lia.
  - replace ((65 <=? c - 32) && (c - 32 <=? 70)) with false by lia. reflexivity.
Qed.

(** the lower-case spelling of a hex digit is [hex_digit] of its value *)
Lemma hex_val_to_lower c v : hex_val c = Some v -> to_lower c = hex_digit v.
Proof.
  unfold hex_val, to_lower, is_upper, hex_digit. intros H.
  destruct ((48 <=? c) && (c <=? 57)) eqn:E1.
  { inversion H; subst. replace ((65 <=? c) && (c <=? 90)) with false by lia.
    replace (c - 48 <? 10) with true by lia. lia. }
  destruct ((97 <=? c) && (c <=? 102)) eqn:E2.
  { inversion H; subst. replace ((65 <=? c) && (c <=? 90)) with false by lia.
    replace (c - 87 <? 10) with false by lia. lia. }
  destruct ((65 <=? c) && (c <=? 70)) eqn:E3; [|discriminate].
  inversion H; subst. replace ((65 <=? c) && (c <=? 90)) with true by lia.
  replace (c - 55 <? 10) with false by lia. lia.
Qed.

Lemma hex_digit_lower n : n < 16 -> to_lower (hex_digit n) = hex_digit n.
Proof.
  intros Hn. unfold to_lower, is_upper, hex_digit.
  destruct (N.ltb_spec n 10).
  - replace ((65 <=? 48 + n) && (48 + n <=? 90)) with false by lia. reflexivity.
  - replace ((65 <=? 87 + n) && (87 + n <=? 90)) with false by lia. reflexivity.
Qed.

Lemma hex_decode_encode bs : bytes_ok bs -> hex_decode (hex_encode bs) = Some bs.
Proof.
  induction 1 as [|b r Hb _ IH]; [reflexivity|].
  cbn [hex_encode hex_decode]. rewrite IH.
  rewrite !hex_val_digit by lia. do 2 f_equal. lia.
Qed.

Lemma hex_encode_length bs : length (hex_encode bs) = (2 * length bs)%nat.
Proof. induction bs as [|b r IH]; [reflexivity|]. cbn [hex_encode length]. rewrite IH. lia. Qed.

Lemma hex_encode_app a b : hex_encode (a ++ b) = hex_encode a ++ hex_encode b.
Proof. induction a as [|x a IH]; [reflexivity|]. cbn [app hex_encode]. rewrite IH. reflexivity. Qed.

(** induction principle stepping two elements at a time *)
Lemma list_ind2 {A} (P : list A -> Prop) :
  P [] -> (forall x, P [x]) -> (forall x y r, P r -> P (x :: y :: r)) -> forall l, P l.
Proof.
  intros H0 H1 H2.
  assert (H : forall l, P l /\ forall x, P (x :: l)).
  { induction l as [|y r [IHa IHb]]; split; auto. }
  intros l; apply H.
Qed.

Lemma hex_decode_sound s bs :
  hex_decode s = Some bs ->
  bytes_ok bs /\ map to_lower s = hex_encode bs /\ length s = (2 * length bs)%nat.
Proof.
  revert bs. induction s as [| x | h l r IH] using list_ind2; intros bs H.
  - inversion H; subst. repeat split; constructor.
  - discriminate.
  - cbn [hex_decode] in H.
    destruct (hex_val h) as [a|] eqn:Ha; [|discriminate].
    destruct (hex_val l) as [b|] eqn:Hb; [|discriminate].
    destruct (hex_decode r) as [bs'|] eqn:Hr; [|discriminate].
    inversion H; subst. destruct (IH bs' eq_refl) as (Hok & Hmap & Hlen).
    pose proof (hex_val_bound _ _ Ha). pose proof (hex_val_bound _ _ Hb).
    split; [constructor; [lia|assumption]|]. split.
    + cbn [map hex_encode]. rewrite Hmap.
      replace ((a * 16 + b) / 16) with a by lia. replace ((a * 16 + b) mod 16) with b by lia.
      rewrite (hex_val_to_lower _ _ Ha), (hex_val_to_lower _ _ Hb). reflexivity.
    + cbn [length]. rewrite Hlen. lia.
Qed.

Lemma hex_decode_lower s : hex_decode (map to_lower s) = hex_decode s.
Proof.
  induction s as [| x | h l r IH] using list_ind2; [reflexivity|reflexivity|].
  cbn [map hex_decode]. rewrite !hex_val_lower, IH. reflexivity.
Qed.

Lemma hex_decode_upper s : hex_decode (map to_upper s) = hex_decode s.
Proof.
  induction s as [| x | h l r IH] using list_ind2; [reflexivity|reflexivity|].
  cbn [map hex_decode]. rewrite !hex_val_upper, IH. reflexivity.
Qed.

(** Completeness: any spelling whose lower-casing is the canonical hex of [bs] decodes to [bs]. *)
Lemma hex_decode_complete s bs :
  bytes_ok bs -> map to_lower s = hex_encode bs -> hex_decode s = Some bs.
Proof.
  intros Hok Hs. rewrite <- hex_decode_lower, Hs. apply hex_decode_encode; assumption.
Qed.

Lemma hex_decode_odd s : Nat.odd (length s) = true -> hex_decode s = None.
Proof.
  induction s as [| x | h l r IH] using list_ind2; intros H.
  - discriminate.
  - reflexivity.
  - cbn [hex_decode]. rewrite IH; [destruct (hex_val h), (hex_val l); reflexivity|].
    cbn [length] in H. rewrite Nat.odd_succ_succ in H. exact H.
Qed.

Lemma hex_decode_all_hex s bs : hex_decode s = Some bs -> forallb is_hex s = true.
Proof.
  revert bs. induction s as [| x | h l r IH] using list_ind2; intros bs H.
  - reflexivity.
  - discriminate.
  - cbn [hex_decode] in H. cbn [forallb]. unfold is_hex at 1 2.
    destruct (hex_val h); [|discriminate]. destruct (hex_val l); [|discriminate].
    destruct (hex_decode r) eqn:Hr; [|discriminate]. cbn. eapply IH; reflexivity.
Qed.

Lemma hex_decode_bad_char s : forallb is_hex s = false -> hex_decode s = None.
Proof.
  intros H. destruct (hex_decode s) eqn:E; [|reflexivity].
  apply hex_decode_all_hex in E. congruence.
Qed.

Lemma hex_encode_is_hex bs : bytes_ok bs -> forallb is_hex (hex_encode bs) = true.
Proof.
  intros H. eapply hex_decode_all_hex. apply hex_decode_encode; exact H.
Qed.

Lemma hex_encode_lower bs : bytes_ok bs -> map to_lower (hex_encode bs) = hex_encode bs.
Proof.
  induction 1 as [|b r Hb _ IH]; [reflexivity|].
  cbn [hex_encode map]. rewrite IH, !hex_digit_lower by lia. reflexivity.
Qed.

Lemma hex_encode_ascii bs : bytes_ok bs -> all_ascii (hex_encode bs).
Proof.
  induction 1 as [|b r Hb _ IH]; [constructor|].
  cbn [hex_encode]. unfold hex_digit.
  constructor; [destruct (b / 16 <? 10) eqn:?; lia|].
  constructor; [destruct (b mod 16 <? 10) eqn:?; lia|]. exact IH.
Qed.
