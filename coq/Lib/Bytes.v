(** Bytes, text, big-endian integers, UTF-8 and ASCII helpers.

    A byte is an [N] below 256 ([bytes_ok]); text is a list of Unicode scalar values
    (code points) as [N].  ASCII-level parsers work on either, since an ASCII
    character is its own UTF-8 encoding ([utf8_ascii]). *)
From Coq Require Import String Ascii.
From Coq Require Import List NArith ZArith Lia Bool PeanoNat Arith ZifyBool ZifyNat ZifyN.
From HDW Require Import Lib.Radix.
Import ListNotations.
Open Scope N_scope.

(** [lia] understands division and modulo by constants from here on. *)
Ltac Zify.zify_post_hook ::= Z.div_mod_to_equations.

Definition bytes := list N.
Definition text := list N.

Definition bytes_ok (bs : bytes) : Prop := Forall (fun b => b < 256) bs.
Definition bytes_okb (bs : bytes) : bool := forallb (fun b => b <? 256) bs.

Lemma bytes_okb_spec bs : bytes_okb bs = true <-> bytes_ok bs.
Proof.
  unfold bytes_okb, bytes_ok. rewrite forallb_forall, Forall_forall.
  split; intros H x Hx; specialize (H x Hx); [apply N.ltb_lt|apply N.ltb_lt]; assumption.
Qed.

Lemma bytes_ok_app a b : bytes_ok (a ++ b) <-> bytes_ok a /\ bytes_ok b.
Proof. apply Forall_app. Qed.

Lemma bytes_ok_digits bs : bytes_ok bs <-> digits_ok 256 bs.
Proof. reflexivity. Qed.

(** ASCII string literal -> list of code points / bytes. *)
Definition s2l (s : string) : list N := map N_of_ascii (list_ascii_of_string s).
Arguments s2l s%string.

(** Big-endian value of a byte string, and the two printing directions. *)
Definition be_val (bs : bytes) : N := of_digits 256 bs.
Definition be_fixed (k : nat) (v : N) : bytes := to_digits_fixed 256 k v.
Definition be_min (v : N) : bytes := to_digits 256 v.

Lemma be_fixed_length k v : length (be_fixed k v) = k.
Proof. apply to_digits_fixed_length. Qed.
Lemma be_fixed_ok k v : bytes_ok (be_fixed k v).
Proof. apply to_digits_fixed_ok. lia. Qed.
Lemma be_val_fixed k v : v < 256 ^ N.of_nat k -> be_val (be_fixed k v) = v.
Proof. apply of_to_digits_fixed_small. lia. Qed.
Lemma be_val_fixed_mod k v : be_val (be_fixed k v) = v mod 256 ^ N.of_nat k.
Proof. apply of_to_digits_fixed. lia. Qed.
Lemma be_fixed_val bs : bytes_ok bs -> be_fixed (length bs) (be_val bs) = bs.
Proof. apply to_of_digits_fixed. lia. Qed.
Lemma be_val_bound bs : bytes_ok bs -> be_val bs < 256 ^ N.of_nat (length bs).
Proof. apply of_digits_bound. Qed.
Lemma be_min_ok v : bytes_ok (be_min v).
Proof. apply to_digits_ok. lia. Qed.
Lemma be_val_min v : be_val (be_min v) = v.
Proof. apply of_to_digits. lia. Qed.
Lemma be_min_canonical v : canonical (be_min v).
Proof. apply to_digits_canonical. lia. Qed.
Lemma be_min_val bs : bytes_ok bs -> canonical bs -> be_min (be_val bs) = bs.
Proof. apply to_of_digits. lia. Qed.
Lemma be_min_length_le k v : v < 256 ^ N.of_nat k -> (length (be_min v) <= k)%nat.
Proof. apply to_digits_length_le. lia. Qed.
Lemma strip0_be_fixed k v : v < 256 ^ N.of_nat k -> strip0 (be_fixed k v) = be_min v.
Proof. apply strip0_fixed. lia. Qed.

Lemma be_val_inj a b :
  length a = length b -> bytes_ok a -> bytes_ok b -> be_val a = be_val b -> a = b.
Proof. apply digits_same_length_inj. lia. Qed.

(* ---------------- ASCII ---------------- *)

Definition is_ascii (c : N) : bool := c <? 128.
Definition is_digit (c : N) : bool := (48 <=? c) && (c <=? 57).
Definition is_upper (c : N) : bool := (65 <=? c) && (c <=? 90).
Definition is_lower (c : N) : bool := (97 <=? c) && (c <=? 122).
Definition to_lower (c : N) : N := if is_upper c then c + 32 else c.
Definition to_upper (c : N) : N := if is_lower c then c - 32 else c.

(** Rust's [char::is_whitespace]: the Unicode White_Space property. *)
Definition is_whitespace (c : N) : bool :=
  ((9 <=? c) && (c <=? 13)) || (c =? 32) || (c =? 0x85) || (c =? 0xA0) || (c =? 0x1680)
  || ((0x2000 <=? c) && (c <=? 0x200A)) || (c =? 0x2028) || (c =? 0x2029) || (c =? 0x202F)
  || (c =? 0x205F) || (c =? 0x3000).

Definition is_ascii_whitespace (c : N) : bool :=
  ((9 <=? c) && (c <=? 13)) || (c =? 32).

(* ---------------- UTF-8 ---------------- *)

Definition utf8_char (c : N) : bytes :=
  if c <? 0x80 then [c]
  else if c <? 0x800 then [0xC0 + c / 64; 0x80 + c mod 64]
  else if c <? 0x10000 then [0xE0 + c / 4096; 0x80 + (c / 64) mod 64; 0x80 + c mod 64]
  else [0xF0 + (c / 262144) mod 8; 0x80 + (c / 4096) mod 64; 0x80 + (c / 64) mod 64; 0x80 + c mod 64].

Definition utf8 (t : text) : bytes := flat_map utf8_char t.

Definition all_ascii (t : list N) : Prop := Forall (fun c => c < 128) t.

Lemma utf8_ascii t : all_ascii t -> utf8 t = t.
Proof.
  induction 1 as [|c r Hc _ IH]; [reflexivity|].
  cbn [utf8 flat_map]. fold (utf8 r). rewrite IH. unfold utf8_char.
  destruct (N.ltb_spec c 128); [reflexivity|lia].
Qed.

Lemma utf8_char_ok c : bytes_ok (utf8_char c).
Proof.
  unfold utf8_char, bytes_ok.
  destruct (N.ltb_spec c 128); [repeat constructor; lia|].
  destruct (N.ltb_spec c 0x800).
  { repeat constructor.
    - assert (c / 64 < 32) by (apply N.div_lt_upper_bound; lia). lia.
    - pose proof (N.mod_lt c 64). lia. }
  destruct (N.ltb_spec c 0x10000).
  { repeat constructor.
    - assert (c / 4096 < 16) by (apply N.div_lt_upper_bound; lia). lia.
    - pose proof (N.mod_lt (c / 64) 64). lia.
    - pose proof (N.mod_lt c 64). lia. }
  repeat constructor.
  - pose proof (N.mod_lt (c / 262144) 8). lia.
  - pose proof (N.mod_lt (c / 4096) 64). lia.
  - pose proof (N.mod_lt (c / 64) 64). lia.
  - pose proof (N.mod_lt c 64). lia.
Qed.

Lemma utf8_ok t : bytes_ok (utf8 t).
Proof.
  induction t as [|c r IH]; [constructor|].
  cbn [utf8 flat_map]. apply Forall_app; split; [apply utf8_char_ok|exact IH].
Qed.

(** A non-ASCII character never produces an ASCII byte. *)
Lemma utf8_char_high c : 128 <= c -> Forall (fun b => 128 <= b) (utf8_char c).
Proof.
  intros Hc. unfold utf8_char.
  destruct (N.ltb_spec c 128); [lia|].
  destruct (N.ltb_spec c 0x800); [repeat constructor; lia|].
  destruct (N.ltb_spec c 0x10000); repeat constructor; lia.
Qed.

Lemma utf8_all_ascii_inv t : all_ascii (utf8 t) -> all_ascii t.
Proof.
  induction t as [|c r IH]; intros H; [constructor|].
  cbn [utf8 flat_map] in H. apply Forall_app in H as [Hc Hr].
  constructor; [|apply IH; exact Hr].
  destruct (N.lt_ge_cases c 128) as [|Hge]; [assumption|].
  pose proof (utf8_char_high c Hge) as Hh.
  unfold utf8_char in *. destruct (c <? 128); [inversion Hc; subst; lia|].
  destruct (c <? 2048); [inversion Hc; inversion Hh; subst; lia|].
  destruct (c <? 65536); inversion Hc; inversion Hh; subst; lia.
Qed.

(* ---------------- list helpers ---------------- *)

Fixpoint strip_prefix (p s : list N) : option (list N) :=
  match p, s with
  | [], _ => Some s
  | x :: p', y :: s' => if x =? y then strip_prefix p' s' else None
  | _ :: _, [] => None
  end.

Lemma strip_prefix_app p s : strip_prefix p (p ++ s) = Some s.
Proof. induction p as [|x p IH]; [reflexivity|]. cbn. rewrite N.eqb_refl. exact IH. Qed.

Lemma strip_prefix_some p s r : strip_prefix p s = Some r -> s = p ++ r.
Proof.
  revert s; induction p as [|x p IH]; intros s H.
  - inversion H; reflexivity.
  - destruct s as [|y s']; [discriminate|]. cbn in H.
    destruct (N.eqb_spec x y); [|discriminate]. subst. cbn. f_equal. apply IH; assumption.
Qed.

Definition list_eqb (a b : list N) : bool :=
  (Nat.eqb (length a) (length b)) && forallb (fun p => fst p =? snd p) (combine a b).

Lemma list_eqb_spec a b : list_eqb a b = true <-> a = b.
Proof.
  unfold list_eqb. revert b; induction a as [|x a IH]; intros [|y b]; cbn; split; intros H;
    try reflexivity; try discriminate.
  - apply andb_true_iff in H as [Hl H]. apply andb_true_iff in H as [Hxy H].
    apply N.eqb_eq in Hxy. subst. f_equal. apply IH. rewrite Hl, H. reflexivity.
  - inversion H; subst. rewrite N.eqb_refl. cbn.
    specialize (IH b). destruct IH as [_ IH]. specialize (IH eq_refl).
    exact IH.
Qed.
