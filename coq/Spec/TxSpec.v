(** C06 / C11 — standard-shaped specification of the transaction encodings: the RLP item trees
    of EIP-155 (legacy), EIP-2930 and EIP-1559 over the RLP specification of C07
    ([Spec/RlpSpec.v]), the signing payloads, and the well-formedness predicates.
    Definitions only. *)
From Coq Require Import String.
From Coq Require Import List NArith ZArith Bool.
From HDW Require Import Lib.Outcome Lib.Bytes Model.Json Model.Num Model.SigText Model.Tx Spec.RlpSpec.
Import ListNotations.
Open Scope N_scope.

(** An integer is the byte string of its minimal big-endian representation (zero: empty). *)
Definition Int (v : N) : item := Str (be_min v).

(** The recipient: the 20 address bytes, or the empty string for a contract creation. *)
Definition to_item (to : option bytes) : item :=
  Str (match to with Some a => a | None => [] end).

(** EIP-2930 access list: a list of [[address, [storage key, ...]]]. *)
Definition access_entry_tree (e : bytes * list bytes) : item :=
  let '(a, ks) := e in Lst [Str a; Lst (map Str ks)].
Definition access_list_tree (al : access_list) : item := Lst (map access_entry_tree al).

(** the yParity of a signature as an integer *)
Definition parity_N (σ : sig) : N := if sig_parity σ then 1 else 0.

(** EIP-155: [v = 35 + 2 * chainId + yParity]; without a chain id [v = 27 + yParity]
    (mathematical integers, no width). *)
Definition spec_v (σ : sig) (chain_id : option N) : N :=
  match chain_id with
  | Some c => 35 + 2 * c + parity_N σ
  | None => 27 + parity_N σ
  end.

(** [[nonce, gasPrice, gas, to, value, data] ++ tail] *)
Definition legacy_fields (t : legacy_tx) : list item :=
  [Int (l_nonce t); Int (l_gas_price t); Int (l_gas t); to_item (l_to t); Int (l_value t);
   Str (l_data t)].
Definition legacy_tree (t : legacy_tx) (tail : list item) : item := Lst (legacy_fields t ++ tail).

(** [[chainId, nonce, gasPrice, gas, to, value, data, accessList] ++ tail] *)
Definition eip2930_fields (t : eip2930_tx) : list item :=
  [Int (e2_chain_id t); Int (e2_nonce t); Int (e2_gas_price t); Int (e2_gas t); to_item (e2_to t);
   Int (e2_value t); Str (e2_data t); access_list_tree (e2_access_list t)].
Definition eip2930_tree (t : eip2930_tx) (tail : list item) : item := Lst (eip2930_fields t ++ tail).

(** [[chainId, nonce, maxPriorityFeePerGas, maxFeePerGas, gas, to, value, data, accessList] ++ tail] *)
Definition eip1559_fields (t : eip1559_tx) : list item :=
  [Int (e5_chain_id t); Int (e5_nonce t); Int (e5_max_priority_fee_per_gas t);
   Int (e5_max_fee_per_gas t); Int (e5_gas t); to_item (e5_to t); Int (e5_value t);
   Str (e5_data t); access_list_tree (e5_access_list t)].
Definition eip1559_tree (t : eip1559_tx) (tail : list item) : item := Lst (eip1559_fields t ++ tail).

(** signed tails: [[v, r, s]] (legacy), [[yParity, r, s]] (typed) *)
Definition legacy_signed_tail (chain_id : option N) (σ : sig) : list item :=
  [Int (spec_v σ chain_id); Int (sig_r σ); Int (sig_s σ)].
Definition typed_signed_tail (σ : sig) : list item :=
  [Int (parity_N σ); Int (sig_r σ); Int (sig_s σ)].

(** EIP-155 unsigned tail: [[chainId, 0, 0]] iff a chain id is present *)
Definition legacy_unsigned_tail (chain_id : option N) : list item :=
  match chain_id with
  | Some c => [Int c; Int 0; Int 0]
  | None => []
  end.

Definition signed_tree (t : tx) (σ : sig) : item :=
  match t with
  | Legacy t => legacy_tree t (legacy_signed_tail (l_chain_id t) σ)
  | Eip2930 t => eip2930_tree t (typed_signed_tail σ)
  | Eip1559 t => eip1559_tree t (typed_signed_tail σ)
  end.

Definition unsigned_tree (t : tx) : item :=
  match t with
  | Legacy t => legacy_tree t (legacy_unsigned_tail (l_chain_id t))
  | Eip2930 t => eip2930_tree t []
  | Eip1559 t => eip1559_tree t []
  end.

(** EIP-2718 type byte: none for legacy, [0x01], [0x02] *)
Definition type_prefix (t : tx) : bytes :=
  match t with
  | Legacy _ => []
  | Eip2930 _ => [0x01]
  | Eip1559 _ => [0x02]
  end.

(** The bytes of the signed transaction and the pre-image of the digest that is signed. *)
Definition signed_bytes (t : tx) (σ : sig) : bytes := type_prefix t ++ enc (signed_tree t σ).
Definition payload (t : tx) : bytes := type_prefix t ++ enc (unsigned_tree t).

(** the part of an encoding after the type byte (if any) *)
Definition body (t : tx) (bs : bytes) : bytes := skipn (length (type_prefix t)) bs.

Inductive tx_kind := KLegacy | KEip2930 | KEip1559.
Definition kind (t : tx) : tx_kind :=
  match t with Legacy _ => KLegacy | Eip2930 _ => KEip2930 | Eip1559 _ => KEip1559 end.

Definition tx_chain_id (t : tx) : option N :=
  match t with
  | Legacy t => l_chain_id t
  | Eip2930 t => Some (e2_chain_id t)
  | Eip1559 t => Some (e5_chain_id t)
  end.

(* ------------------------------------------------------------------ *)
(** * Well-formed field values *)

Definition u256 (v : N) : Prop := v < 2 ^ 256.

Definition wf_to (to : option bytes) : Prop :=
  match to with Some a => length a = 20%nat /\ bytes_ok a | None => True end.

Definition wf_access_entry (e : bytes * list bytes) : Prop :=
  (length (fst e) = 20%nat /\ bytes_ok (fst e))
  /\ Forall (fun k => length k = 32%nat /\ bytes_ok k) (snd e).
Definition wf_access_list (al : access_list) : Prop := Forall wf_access_entry al.

(** a chain id that a legacy transaction can carry: [35 + 2 * c + 1] fits 256 bits *)
Definition wf_legacy_chain (c : option N) : Prop :=
  match c with Some c => 2 * c + 36 < 2 ^ 256 | None => True end.

Definition wf_legacy (t : legacy_tx) : Prop :=
  u256 (l_nonce t) /\ u256 (l_gas_price t) /\ u256 (l_gas t) /\ wf_to (l_to t) /\ u256 (l_value t)
  /\ bytes_ok (l_data t) /\ wf_legacy_chain (l_chain_id t).

Definition wf_eip2930 (t : eip2930_tx) : Prop :=
  u256 (e2_chain_id t) /\ u256 (e2_nonce t) /\ u256 (e2_gas_price t) /\ u256 (e2_gas t)
  /\ wf_to (e2_to t) /\ u256 (e2_value t) /\ bytes_ok (e2_data t)
  /\ wf_access_list (e2_access_list t).

Definition wf_eip1559 (t : eip1559_tx) : Prop :=
  u256 (e5_chain_id t) /\ u256 (e5_nonce t) /\ u256 (e5_max_priority_fee_per_gas t)
  /\ u256 (e5_max_fee_per_gas t) /\ u256 (e5_gas t) /\ wf_to (e5_to t) /\ u256 (e5_value t)
  /\ bytes_ok (e5_data t) /\ wf_access_list (e5_access_list t).

(** Every integer below 2^256, address 20 bytes, storage keys 32 bytes, bytes below 256. *)
Definition wf_tx (t : tx) : Prop :=
  match t with
  | Legacy t => wf_legacy t
  | Eip2930 t => wf_eip2930 t
  | Eip1559 t => wf_eip1559 t
  end.

(** The transaction fits in a 64-bit address space: the calldata length plus 64 bytes for each
    access-list entry and each storage key (a generous bound on their encodings), plus 1024
    bytes for the scalar fields and headers, is below 2^64.  (A [Vec<u8>] that exists in memory
    satisfies this; the model's overflow-checked [usize] sums need it.) *)
Definition access_list_cells (al : access_list) : N :=
  fold_right (fun e acc => 1 + N.of_nat (length (snd e)) + acc) 0 al.

Definition tx_data (t : tx) : bytes :=
  match t with Legacy t => l_data t | Eip2930 t => e2_data t | Eip1559 t => e5_data t end.
Definition tx_access_list (t : tx) : access_list :=
  match t with Legacy _ => [] | Eip2930 t => e2_access_list t | Eip1559 t => e5_access_list t end.

Definition tx_fits (t : tx) : Prop :=
  N.of_nat (length (tx_data t)) + 64 * access_list_cells (tx_access_list t) + 1024 < 2 ^ 64.

(** a signature whose scalars fit 256 bits (every [valid_sig] does) *)
Definition sig_fits (σ : sig) : Prop := sig_r σ < 2 ^ 256 /\ sig_s σ < 2 ^ 256.

(* ------------------------------------------------------------------ *)
(** * The document *)

(** serde_json's invariant on the number tokens of the document's members ([Num.num_token_ok]) *)
Definition doc_tokens_ok (j : json) : Prop :=
  match j with
  | JObj kvs => Forall (fun kv => num_token_ok (snd kv)) kvs
  | _ => True
  end.

(** the kind selected by the keys that are present ([null] values count) *)
Definition fee_market_keys (kvs : list (text * json)) : bool :=
  obj_has k_max_priority_fee_per_gas kvs || obj_has k_max_fee_per_gas kvs.
Definition kind_of_keys (kvs : list (text * json)) : tx_kind :=
  if fee_market_keys kvs then KEip1559
  else if obj_has k_access_list kvs then KEip2930
  else KLegacy.

(** the numeric keys that a kind requires *)
Definition numeric_keys (k : tx_kind) : list text :=
  match k with
  | KLegacy => [k_nonce; k_gas_price; k_gas; k_value]
  | KEip2930 => [k_chain_id; k_nonce; k_gas_price; k_gas; k_value]
  | KEip1559 => [k_chain_id; k_nonce; k_max_priority_fee_per_gas; k_max_fee_per_gas; k_gas; k_value]
  end.

(** the access-list member as the kind reads it *)
Definition access_list_field (k : tx_kind) (kvs : list (text * json)) : outcome access_list :=
  match k with
  | KLegacy => Ok []
  | KEip2930 => access_list_req_field kvs
  | KEip1559 => access_list_default_field kvs
  end.

(** the chain id as the kind reads it *)
Definition chain_field (k : tx_kind) (kvs : list (text * json)) : outcome (option N) :=
  match k with
  | KLegacy => legacy_chain_field kvs
  | _ => omap Some (num_field k_chain_id kvs)
  end.

(** Two documents select the same kind and all their members parse, field by field, to the
    same results. *)
Definition same_fields (kvs1 kvs2 : list (text * json)) : Prop :=
  kind_of_keys kvs1 = kind_of_keys kvs2
  /\ (forall k, In k (numeric_keys (kind_of_keys kvs1)) -> num_field k kvs1 = num_field k kvs2)
  /\ to_field kvs1 = to_field kvs2
  /\ data_field kvs1 = data_field kvs2
  /\ chain_field (kind_of_keys kvs1) kvs1 = chain_field (kind_of_keys kvs1) kvs2
  /\ access_list_field (kind_of_keys kvs1) kvs1 = access_list_field (kind_of_keys kvs1) kvs2.

(** Some member that the selected kind reads is missing (when required) or refused by its
    field-level parser. *)
Definition field_rejected (kvs : list (text * json)) : Prop :=
  (exists k, In k (numeric_keys (kind_of_keys kvs)) /\ forall v, num_field k kvs <> Ok v)
  \/ (forall v, to_field kvs <> Ok v)
  \/ (forall v, data_field kvs <> Ok v)
  \/ (forall v, chain_field (kind_of_keys kvs) kvs <> Ok v)
  \/ (forall v, access_list_field (kind_of_keys kvs) kvs <> Ok v).

(* ------------------------------------------------------------------ *)
(** * Every field of the parsed transaction is the field-level parse of its member *)

Definition legacy_parsed (kvs : list (text * json)) (t : legacy_tx) : Prop :=
  num_field k_nonce kvs = Ok (l_nonce t)
  /\ num_field k_gas_price kvs = Ok (l_gas_price t)
  /\ num_field k_gas kvs = Ok (l_gas t)
  /\ to_field kvs = Ok (l_to t)
  /\ num_field k_value kvs = Ok (l_value t)
  /\ data_field kvs = Ok (l_data t)
  /\ legacy_chain_field kvs = Ok (l_chain_id t).

Definition eip2930_parsed (kvs : list (text * json)) (t : eip2930_tx) : Prop :=
  num_field k_chain_id kvs = Ok (e2_chain_id t)
  /\ num_field k_nonce kvs = Ok (e2_nonce t)
  /\ num_field k_gas_price kvs = Ok (e2_gas_price t)
  /\ num_field k_gas kvs = Ok (e2_gas t)
  /\ to_field kvs = Ok (e2_to t)
  /\ num_field k_value kvs = Ok (e2_value t)
  /\ data_field kvs = Ok (e2_data t)
  /\ access_list_req_field kvs = Ok (e2_access_list t).

Definition eip1559_parsed (kvs : list (text * json)) (t : eip1559_tx) : Prop :=
  num_field k_chain_id kvs = Ok (e5_chain_id t)
  /\ num_field k_nonce kvs = Ok (e5_nonce t)
  /\ num_field k_max_priority_fee_per_gas kvs = Ok (e5_max_priority_fee_per_gas t)
  /\ num_field k_max_fee_per_gas kvs = Ok (e5_max_fee_per_gas t)
  /\ num_field k_gas kvs = Ok (e5_gas t)
  /\ to_field kvs = Ok (e5_to t)
  /\ num_field k_value kvs = Ok (e5_value t)
  /\ data_field kvs = Ok (e5_data t)
  /\ access_list_default_field kvs = Ok (e5_access_list t).

Definition tx_parsed (kvs : list (text * json)) (t : tx) : Prop :=
  match t with
  | Legacy t => legacy_parsed kvs t
  | Eip2930 t => eip2930_parsed kvs t
  | Eip1559 t => eip1559_parsed kvs t
  end.
