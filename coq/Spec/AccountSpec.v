(** Standard-shaped vocabulary for the statements of C04.  Definitions only. *)
From Coq Require Import List NArith Bool.
From HDW Require Import Lib.Bytes.
Import ListNotations.
Open Scope N_scope.

(** the 4-bit halves of a byte string, high half first (the hex digits' values) *)
Definition nibbles (bs : bytes) : list N := flat_map (fun b => [b / 16; b mod 16]) bs.

(** the lower-case hex letters a..f *)
Definition hex_letter (c : N) : Prop := 97 <= c <= 102.
(** the upper-case hex letters A..F *)
Definition hex_LETTER (c : N) : Prop := 65 <= c <= 70.
