(** ECDSA in its standard form: verification (SEC 1 v2 section 4.1.4), public-key recovery
    (SEC 1 v2 section 4.1.6), deterministic signing (RFC 6979 section 2.4 with the nonce
    of section 3.2) and the low-s normalisation (BIP 62 / EIP-2).  Definitions only.

    Same abstract group as Model/Ecdsa.v, plus point addition, negation and [lift]
    (point decompression: the point with abscissa x and the given parity of y). *)
From Coq Require Import ZArith Bool.
From HDW Require Import Lib.Outcome.
Local Open Scope Z_scope.

Section WithGroup.
  Variables (E : Type) (G : E) (mul : Z -> E -> E) (add : E -> E -> E) (neg : E -> E)
            (xcoord : E -> Z) (yodd : E -> bool)
            (lift : Z -> bool -> option E)
            (n : Z) (inv : Z -> Z)
            (nonce : Z -> Z -> Z).

  (** SEC 1 4.1.4, for the public key [Q], the digest value [h] (e = h, 256 bits = the
      length of n, so no truncation), the signature (r, s):
      1. r, s in [1, n-1];  4. e;  5. u1 = e s^-1, u2 = r s^-1;  6. R = u1 G + u2 Q;
      7.-8. v = x_R mod n, valid iff v = r.
      (Step 6's "reject if R = O" is subsumed whenever [xcoord] of the point at infinity
      is 0 - as it is for the instance of Run/DC05.v and for k256's affine identity -
      because r > 0.) *)
  Definition verify (Q : E) (h r s : Z) : bool :=
    (0 <? r) && (r <? n) && (0 <? s) && (s <? n) &&
    (let z := h mod n in
     let w := inv s in
     xcoord (add (mul (z * w) G) (mul (r * w) Q)) mod n =? r).

  (** SEC 1 4.1.6 with j = 0 (x = r: the case "x(R) was not reduced modulo n", the only one
      expressible once the [is_x_reduced] bit is dropped), the candidate R chosen by the
      parity bit [v] instead of trying both:  Q = r^-1 (s R - e G). *)
  Definition recover (h r s : Z) (v : bool) : option E :=
    let z := h mod n in
    match lift r v with
    | Some R => Some (mul (inv r) (add (mul s R) (neg (mul z G))))
    | None => None
    end.

  (** bits2octets(h1) seen as an integer (RFC 6979 2.3.4): bits2int(h1) mod q; qlen = hlen
      = 256, so bits2int is the plain big-endian value. *)
  Definition bits2octets (h : Z) : Z := h mod n.

  (** RFC 6979 2.4: k from the HMAC-DRBG of section 3.2 fed with int2octets(x) and
      bits2octets(h1); r = x(kG) mod q; s = (h + x r) / k mod q.  No normalisation of s.
      The third component is the parity of y(kG) (the recovery bit; not part of RFC 6979).
      Partiality: where the RFC asks for the next k (r = 0, and s = 0 in FIPS 186) this
      definition returns [Err]; nobody can exhibit such inputs. *)
  Definition rfc6979_ecdsa (d h : Z) : outcome (Z * Z * bool) :=
    let k := nonce d (bits2octets h) in
    if k =? 0 then Err else
    let R := mul k G in
    let r := xcoord R mod n in
    let s := ((h mod n + d * r) * inv k) mod n in
    if (r =? 0) || (s =? 0) then Err else Ok (r, s, yodd R).

  (** low-s normalisation: (r, s, v) ~> (r, n - s, not v) when s > n/2 *)
  Definition low_s (sg : Z * Z * bool) : Z * Z * bool :=
    let '(r, s, v) := sg in
    if n / 2 <? s then (r, n - s, negb v) else (r, s, v).

  Definition low_s_normalise (o : outcome (Z * Z * bool)) : outcome (Z * Z * bool) :=
    omap low_s o.
End WithGroup.
