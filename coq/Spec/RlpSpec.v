(** C07 — Recursive Length Prefix, standard-shaped specification (Ethereum Yellow Paper, appendix B)
    and a STRICT decoder.  Definitions only. *)
From Coq Require Import List NArith.
From HDW Require Import Lib.Radix Lib.Bytes.
Import ListNotations.
Open Scope N_scope.

(** An RLP item is a byte string or a list of items. *)
Inductive item : Type :=
| Str (b : bytes)
| Lst (l : list item).

(** Length header: [off + n] for [n < 56], otherwise [off + 55 + |BE(n)|] followed by the minimal
    big-endian bytes [BE(n)] of [n] ([off] = 0x80 for strings (YP 180), 0xc0 for lists (YP 183)). *)
Definition enc_len (n off : N) : bytes :=
  if n <? 56 then [off + n]
  else let bl := be_min n in (off + 55 + N.of_nat (length bl)) :: bl.

(** YP (180): R_b(x) = x                              if |x| = 1 and x[0] < 128
                    = (128 + |x|) . x                 if |x| < 56
                    = (183 + |BE(|x|)|) . BE(|x|) . x otherwise *)
Definition enc_str (b : bytes) : bytes :=
  match b with
  | [x] => if x <? 128 then [x] else enc_len 1 128 ++ b
  | _ => enc_len (N.of_nat (length b)) 128 ++ b
  end.

(** YP (183): R_l(x) = (192 + |s(x)|) . s(x) / (247 + |BE(|s(x)|)|) . BE(|s(x)|) . s(x),
    s(x) = RLP(x_0) . RLP(x_1) ... *)
Fixpoint enc (i : item) : bytes :=
  match i with
  | Str b => enc_str b
  | Lst l => let s := flat_map enc l in enc_len (N.of_nat (length s)) 192 ++ s
  end.

(** Well-formed = representable by the implementation: bytes below 256, every string and
    every list payload shorter than 2^64. *)
Inductive wf_item : item -> Prop :=
| wf_Str b : bytes_ok b -> N.of_nat (length b) < 2 ^ 64 -> wf_item (Str b)
| wf_Lst l : Forall wf_item l -> N.of_nat (length (flat_map enc l)) < 2 ^ 64 -> wf_item (Lst l).

(* ------------------------------ strict decoder ------------------------------ *)

(** the first [n] bytes and the rest; [None] when fewer than [n] are available (truncated input).
    Recursion on the input, so an absurd announced length costs nothing. *)
Fixpoint take (n : N) (l : bytes) : option (bytes * bytes) :=
  if n =? 0 then Some ([], l)
  else match l with
       | [] => None
       | x :: r => match take (N.pred n) r with Some (p, q) => Some (x :: p, q) | None => None end
       end.

(** A long-form length of [ll] bytes.  Rejected: first length byte 0 (the length of the length
    is not minimal / the length has a leading zero) and values below 56 (the short form exists). *)
Definition long_len (ll : N) (t : bytes) : option (N * bytes) :=
  match take ll t with
  | Some (lb, t') =>
      match lb with
      | 0 :: _ => None
      | _ => let n := be_val lb in if n <? 56 then None else Some (n, t')
      end
  | None => None
  end.

Definition single_low (p : bytes) : bool :=
  match p with [x] => x <? 128 | _ => false end.

(** Split one item off the front: (is it a list?, payload, unconsumed rest). *)
Definition dec_hdr (bs : bytes) : option (bool * bytes * bytes) :=
  match bs with
  | [] => None
  | h :: t =>
      if h <? 0x80 then Some (false, [h], t)
      else if h <? 0xb8 then
        match take (h - 0x80) t with
        | Some (p, r) => if single_low p then None (* 0x81 b with b < 0x80 *) else Some (false, p, r)
        | None => None
        end
      else if h <? 0xc0 then
        match long_len (h - 0xb7) t with
        | Some (n, t') => match take n t' with Some (p, r) => Some (false, p, r) | None => None end
        | None => None
        end
      else if h <? 0xf8 then
        match take (h - 0xc0) t with Some (p, r) => Some (true, p, r) | None => None end
      else if h <? 0x100 then
        match long_len (h - 0xf7) t with
        | Some (n, t') => match take n t' with Some (p, r) => Some (true, p, r) | None => None end
        | None => None
        end
      else None
  end.

(** One item, given the decoder [seq] for the item sequence inside a list payload. *)
Definition dec1 (seq : bytes -> option (list item)) (bs : bytes) : option (item * bytes) :=
  match dec_hdr bs with
  | Some (false, p, r) => Some (Str p, r)
  | Some (true, p, r) => match seq p with Some l => Some (Lst l, r) | None => None end
  | None => None
  end.

(** A sequence of items that must use up the input exactly.  Every recursive call is on a
    strictly shorter input, so fuel [length input] (+1) is enough ([Proofs/RlpProofs.v]). *)
Fixpoint dec_seq (fuel : nat) (bs : bytes) : option (list item) :=
  match fuel with
  | O => None
  | S f =>
      match bs with
      | [] => Some []
      | _ =>
          match dec1 (dec_seq f) bs with
          | Some (i, r) => match dec_seq f r with Some l => Some (i :: l) | None => None end
          | None => None
          end
      end
  end.

Definition dec_item (fuel : nat) (bs : bytes) : option (item * bytes) := dec1 (dec_seq fuel) bs.

(** The strict decoder: the first item of [bs] and the unconsumed rest. *)
Definition dec_strict (bs : bytes) : option (item * bytes) := dec_item (S (length bs)) bs.

(** A scalar is a string without leading zero byte (zero is the empty string). *)
Definition int_of_str (b : bytes) : option N :=
  match b with
  | 0 :: _ => None
  | _ => Some (be_val b)
  end.
