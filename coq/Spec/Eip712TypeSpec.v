(** EIP-712 [encodeType] as the standard words it (definitions only):

    "If the struct type references other struct types (and these in turn reference even more
    struct types), then the set of referenced struct types is collected, sorted by name and
    appended to the encoding."  The primary type comes first and is not part of the collected
    set (also when it is reachable from itself). *)
From Coq Require Import String.
From Coq Require Import List NArith Bool Sorted.
From HDW Require Import Lib.Outcome Lib.Bytes Model.Eip712Kind Model.Domain Model.Eip712Types.
Import ListNotations.
Open Scope N_scope.

(** The strict lexicographic order on texts (code point sequences). *)
Inductive text_lt : text -> text -> Prop :=
| text_lt_nil : forall y b, text_lt [] (y :: b)
| text_lt_head : forall x y a b, x < y -> text_lt (x :: a) (y :: b)
| text_lt_tail : forall x a b, text_lt a b -> text_lt (x :: a) (x :: b).

(** The strict lexicographic order on byte strings, written independently (first difference). *)
Definition bytes_lt (a b : bytes) : Prop :=
  (exists y r, b = a ++ y :: r) \/
  (exists p x y a' b', a = p ++ x :: a' /\ b = p ++ y :: b' /\ x < y).

(** A member type refers to struct [U]: it is [U] followed by any number of array suffixes. *)
Inductive refers : kind -> text -> Prop :=
| refers_struct : forall U, refers (KStruct U) U
| refers_array : forall k n U, refers k U -> refers (KArray k n) U.

(** The definition of type [T] in the table ([[]] when absent). *)
Definition def (tys : typesmap) (T : text) : list member :=
  match types_get T tys with Some ms => ms | None => [] end.

(** [U] is referenced by a member of [T] *)
Definition reach1 (tys : typesmap) (T U : text) : Prop :=
  exists m, In m (def tys T) /\ refers (m_kind m) U.

(** the transitive closure *)
Inductive reachp (tys : typesmap) (P : text) : text -> Prop :=
| reachp_step : forall T, reach1 tys P T -> reachp tys P T
| reachp_trans : forall T U, reachp tys P T -> reach1 tys T U -> reachp tys P U.

(** [l] is the sorted, duplicate-free list of the types transitively referenced by [P], [P]
    itself excluded.  (Strict sortedness gives "exactly once each"; the two clauses determine
    [l] uniquely: [deps_unique].) *)
Definition deps_spec (tys : typesmap) (P : text) (l : list text) : Prop :=
  StronglySorted text_lt l /\ forall T, In T l <-> (reachp tys P T /\ T <> P).

(** every type that matters is defined *)
Definition all_defined (tys : typesmap) (P : text) : Prop :=
  forall T, (T = P \/ reachp tys P T) -> types_get T tys <> None.

(** [encodeType]: the primary type, then the dependencies *)
Definition encode_type_spec (tys : typesmap) (P : text) (l : list text) : text :=
  display_typedef P (def tys P) ++ concat (map (fun T => display_typedef T (def tys T)) l).
