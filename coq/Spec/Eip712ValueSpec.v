(** EIP-712 typed values, their types, their JSON spellings and [encodeData] / [hashStruct] as
    the standard words them.  Definitions only.

    "encodeData: the encoded member values are concatenated in the order they appear in the
    type, each exactly 32 bytes.  bool: uint256 0/1; address: uint160; integers: sign extended
    to 256 bit, big endian; bytes1..bytes32: zero-padded at the end; bytes and string: their
    keccak256; arrays: keccak256 of the concatenated encodeData of the elements; struct values:
    recursively hashStruct(s) = keccak256(typeHash ‖ encodeData(s))." *)
From Coq Require Import String.
From Coq Require Import List NArith ZArith Bool.
From HDW Require Import Lib.Outcome Lib.Bytes Model.Json Model.Eip712Kind Model.Domain Model.Eip712Values.
Import ListNotations.
Open Scope N_scope.

(** typed values *)
Inductive tval : Type :=
| VBool (b : bool)
| VAddr (a : bytes)
| VUint (v : N)
| VInt (z : Z)
| VBytesN (b : bytes)
| VBytes (b : bytes)
| VString (s : text)
| VArr (l : list tval)
| VStruct (fields : list (text * tval)).

(** JSON documents as serde_json produces them: the keys of every object are distinct
    (the invariant stated in [Model/Json.v]) *)
Fixpoint json_wf (j : json) : Prop :=
  match j with
  | JArr l => (fix all (l : list json) : Prop :=
                 match l with [] => True | x :: r => json_wf x /\ all r end) l
  | JObj kvs => NoDup (map fst kvs) /\
                (fix all (l : list (text * json)) : Prop :=
                   match l with [] => True | kv :: r => json_wf (snd kv) /\ all r end) kvs
  | _ => True
  end.

Section Spec.

Variable keccak : bytes -> bytes.
(** typeHash of a struct name: keccak256(encodeType) when the type and everything it refers to
    is defined ([Spec] of C08's type half) *)
Variable type_hash : typesmap -> text -> outcome bytes.
(** what a JSON value denotes as an unsigned / signed integer, a byte string, an address
    (C13's [denotes_int] and the hex spellings) *)
Variable den_u : json -> N -> Prop.
Variable den_i : json -> Z -> Prop.
Variable den_bytes : json -> bytes -> Prop.
Variable den_addr : json -> bytes -> Prop.

Definition type_hash_word (tys : typesmap) (name : text) : bytes :=
  match type_hash tys name with Ok h => h | _ => [] end.

(** [has_type tys k tv]: [tv] is a value of the EIP-712 type [k].
    - [uintN]: [0 <= v < 2^N]; [intN]: [-2^(N-1) <= z < 2^(N-1)] (N at least 1); in both cases
      the value is a 256-bit word (implied by the first bound for every N up to 256, i.e. for
      every width of the grammar; written out so that no side condition on N is needed);
    - [bytesN]: exactly N bytes (N up to 32); [address]: 20 bytes;
    - [T[n]]: exactly n elements of type T; [T[]]: any number;
    - struct: the type is defined and has a type hash (its dependencies are defined), and the
      value has exactly the declared members, in the declared order, each of its declared type. *)
Fixpoint has_type (tys : typesmap) (k : kind) (tv : tval) {struct tv} : Prop :=
  match k, tv with
  | KBool, VBool _ => True
  | KAddress, VAddr a => length a = 20%nat
  | KUint n, VUint v => v < 2 ^ n /\ v < 2 ^ 256
  | KInt n, VInt z => 1 <= n /\ (- 2 ^ Z.of_N (n - 1) <= z < 2 ^ Z.of_N (n - 1))%Z /\
                      (- 2 ^ 255 <= z < 2 ^ 255)%Z
  | KBytes (Some n), VBytesN b => n <= 32 /\ N.of_nat (length b) = n
  | KBytes None, VBytes _ => True
  | KString, VString _ => True
  | KArray inner size, VArr l =>
      match size with Some s => N.of_nat (length l) = s | None => True end /\
      (fix all (l : list tval) : Prop :=
         match l with [] => True | x :: r => has_type tys inner x /\ all r end) l
  | KStruct name, VStruct fields =>
      match types_get name tys with
      | None => False
      | Some ms =>
          (exists h, type_hash tys name = Ok h) /\
          (fix go (ms : list member) (fields : list (text * tval)) {struct fields} : Prop :=
             match ms, fields with
             | [], [] => True
             | m :: mr, f :: fr => m_name m = fst f /\ has_type tys (m_kind m) (snd f) /\ go mr fr
             | _, _ => False
             end) ms fields
      end
  | _, _ => False
  end.

(** [denotes tys j k tv]: the JSON value [j] is a spelling of the typed value [tv] at type [k].
    Booleans and strings are themselves; numbers, byte strings and addresses go through the
    leaf relations; an array is spelled element-wise; a struct is spelled by an object whose
    keys are distinct and are exactly the member names, in any order. *)
Fixpoint denotes (tys : typesmap) (j : json) (k : kind) (tv : tval) {struct tv} : Prop :=
  match k, tv with
  | KBool, VBool b => j = JBool b
  | KAddress, VAddr a => den_addr j a
  | KUint _, VUint v => den_u j v
  | KInt _, VInt z => den_i j z
  | KBytes (Some _), VBytesN b => den_bytes j b
  | KBytes None, VBytes b => den_bytes j b
  | KString, VString s => j = JStr s
  | KArray inner _, VArr l =>
      exists js, j = JArr js /\
      (fix all2 (js : list json) (l : list tval) {struct l} : Prop :=
         match js, l with
         | [], [] => True
         | x :: jr, t :: lr => denotes tys x inner t /\ all2 jr lr
         | _, _ => False
         end) js l
  | KStruct name, VStruct fields =>
      exists kvs, j = JObj kvs /\
      NoDup (map fst kvs) /\ NoDup (map fst fields) /\
      (forall key, In key (map fst kvs) -> In key (map fst fields)) /\
      match types_get name tys with
      | None => False
      | Some ms =>
          (fix go (ms : list member) (fields : list (text * tval)) {struct fields} : Prop :=
             match ms, fields with
             | [], [] => True
             | m :: mr, f :: fr =>
                 (exists v, obj_get (fst f) kvs = Some v /\ denotes tys v (m_kind m) (snd f)) /\
                 go mr fr
             | _, _ => False
             end) ms fields
      end
  | _, _ => False
  end.

Definition elem_kind (k : kind) : kind :=
  match k with KArray inner _ => inner | _ => k end.
Definition struct_name (k : kind) : text :=
  match k with KStruct name => name | _ => [] end.
Definition struct_members (tys : typesmap) (k : kind) : list member :=
  match types_get (struct_name k) tys with Some ms => ms | None => [] end.

(** [enc_data tys k tv]: the 32-byte word of [tv] inside an enclosing [encodeData]
    (for a struct this is [hashStruct], for an array the hash of its elements' words) *)
Fixpoint enc_data (tys : typesmap) (k : kind) (tv : tval) {struct tv} : bytes :=
  match tv with
  | VBool b => be_fixed 32 (if b then 1 else 0)
  | VAddr a => repeat 0 12%nat ++ a
  | VUint v => be_fixed 32 v
  | VInt z => be_fixed 32 (Z.to_N (z mod 2 ^ 256))
  | VBytesN b => b ++ repeat 0 (32 - length b)%nat
  | VBytes b => keccak b
  | VString s => keccak (utf8 s)
  | VArr l => keccak (concat (map (enc_data tys (elem_kind k)) l))
  | VStruct fields =>
      keccak (type_hash_word tys (struct_name k) ++
              (fix go (ms : list member) (fields : list (text * tval)) {struct fields} : bytes :=
                 match ms, fields with
                 | m :: mr, f :: fr => enc_data tys (m_kind m) (snd f) ++ go mr fr
                 | _, _ => []
                 end) (struct_members tys k) fields)
  end.

(** hashStruct(s) = keccak256(typeHash ‖ encodeData(s)) *)
Definition hash_struct (tys : typesmap) (name : text) (fields : list (text * tval)) : bytes :=
  enc_data tys (KStruct name) (VStruct fields).

End Spec.

(* ------------------------------------------------------------------ *)
(** * The primitives the model is parametric in, and what is assumed about them *)

(** Keccak-256, [Types::type_hash], and the four leaf deserialisers, as one parameter *)
Record prims : Type := {
  p_keccak : bytes -> bytes;
  p_type_hash : typesmap -> text -> outcome bytes;
  p_u256 : json -> outcome N;       (* [serialization::permissive]: negatives refused *)
  p_i256 : json -> outcome Z;       (* ethnum's permissive [I256] *)
  p_bytes : json -> outcome bytes;  (* [serialization::bytes]: "0x" + hex string *)
  p_addr : json -> outcome bytes    (* [ethaddr::Address] *)
}.

Definition encode_value_p (P : prims) :=
  encode_value (p_keccak P) (p_type_hash P) (p_u256 P) (p_i256 P) (p_bytes P) (p_addr P).
Definition struct_hash_p (P : prims) :=
  struct_hash (p_keccak P) (p_type_hash P) (p_u256 P) (p_i256 P) (p_bytes P) (p_addr P).
Definition compute_p (P : prims) :=
  compute (p_keccak P) (p_type_hash P) (p_u256 P) (p_i256 P) (p_bytes P) (p_addr P).

(** the results of the primitives have the size of their Rust types
    ([Digest = [u8; 32]], [Address = [u8; 20]]) *)
Record prims_sized (P : prims) : Prop := {
  keccak_length : forall m, length (p_keccak P m) = 32%nat;
  type_hash_length : forall tys T h, p_type_hash P tys T = Ok h -> length h = 32%nat;
  address_len : forall j a, p_addr P j = Ok a -> length a = 20%nat
}.

(** the deserialised numbers have the range of their Rust types ([U256], [I256]) *)
Record prims_ranged (P : prims) : Prop := {
  num_u256_range : forall j v, p_u256 P j = Ok v -> v < 2 ^ 256;
  num_i256_range : forall j z, p_i256 P j = Ok z -> (- 2 ^ 255 <= z < 2 ^ 255)%Z
}.

(** the primitives themselves return a value or an ordinary error *)
Record prims_total (P : prims) : Prop := {
  type_hash_graceful : forall tys T, graceful (p_type_hash P tys T);
  num_u256_graceful : forall j, graceful (p_u256 P j);
  num_i256_graceful : forall j, graceful (p_i256 P j);
  bytes_graceful : forall j, graceful (p_bytes P j);
  address_graceful : forall j, graceful (p_addr P j)
}.

(** the leaf relations of [denotes] are what the deserialisers accept *)
Record prims_denote (P : prims) (den_u : json -> N -> Prop) (den_i : json -> Z -> Prop)
  (den_bytes den_addr : json -> bytes -> Prop) : Prop := {
  den_u_iff : forall j v, p_u256 P j = Ok v <-> den_u j v;
  den_i_iff : forall j z, p_i256 P j = Ok z <-> den_i j z;
  den_bytes_iff : forall j b, p_bytes P j = Ok b <-> den_bytes j b;
  den_addr_iff : forall j a, p_addr P j = Ok a <-> den_addr j a
}.
