(** BIP-32 private parent key -> private child key derivation, in the words of the standard
    (https://github.com/bitcoin/bips/blob/master/bip-0032.mediawiki).  Definitions only.

    Conventions of BIP-32: ser32(i) 4 bytes big-endian; ser256(p) 32 bytes big-endian;
    serP(P) the SEC1 compressed form; parse256(p) the big-endian integer of 32 bytes;
    point(p) = p·G; an extended private key is (k, c); i >= 2^31 is a hardened index.
    [serP_point k] stands for serP(point(k)) and [hmac512] for HMAC-SHA512; both are
    parameters (opaque primitives). *)
From Coq Require Import String.
From Coq Require Import List NArith Bool.
From HDW Require Import Lib.Bytes Model.Path.
Import ListNotations.
Open Scope N_scope.

(** n, the order of the secp256k1 group (SEC 2, 2.4.1) *)
Definition bip32_n : N :=
  0xFFFFFFFFFFFFFFFFFFFFFFFFFFFFFFFEBAAEDCE6AF48A03BBFD25E8CD0364141.

Definition ser32 (i : N) : bytes := be_fixed 4 i.
Definition ser256 (p : N) : bytes := be_fixed 32 p.
Definition parse256 (p : bytes) : N := be_val p.

(** "Split I into two 32-byte sequences, IL and IR." *)
Definition IL (I : bytes) : bytes := firstn 32 I.
Definition IR (I : bytes) : bytes := skipn 32 I.

(** extended private key (k, c) *)
Definition xprv : Type := N * bytes.

(** The index BIP-32 gives a path component: i' = i + 2^31 for hardened children. *)
Definition index (c : component) : N :=
  match c with Hardened v => v + 2^31 | Normal v => v end.

Section Spec.
  Variable hmac512 : bytes -> bytes -> bytes.   (* HMAC-SHA512(Key, Data) *)
  Variable serP_point : N -> bytes.             (* serP(point(k)) *)

  (** Master key generation:
      "Calculate I = HMAC-SHA512(Key = "Bitcoin seed", Data = S).  Use parse256(IL) as master
       secret key, and IR as master chain code.  In case parse256(IL) is 0 or parse256(IL) >= n,
       the master key is invalid." *)
  Definition master (S : bytes) : option xprv :=
    let I := hmac512 (s2l "Bitcoin seed") S in
    let k := parse256 (IL I) in
    if (k =? 0) || (bip32_n <=? k) then None else Some (k, IR I).

  (** CKDpriv((kpar, cpar), i), i < 2^32:
      "Check whether i >= 2^31 (whether the child is a hardened key).
         If so (hardened child): let I = HMAC-SHA512(Key = cpar, Data = 0x00 || ser256(kpar) || ser32(i)).
         If not (normal child):  let I = HMAC-SHA512(Key = cpar, Data = serP(point(kpar)) || ser32(i))." *)
  Definition ckd_data (kpar : N) (i : N) : bytes :=
    if 2^31 <=? i then [0] ++ ser256 kpar ++ ser32 i
    else serP_point kpar ++ ser32 i.

  Definition ckd_I (x : xprv) (i : N) : bytes :=
    let '(kpar, cpar) := x in hmac512 cpar (ckd_data kpar i).

  (** "The returned child key ki is parse256(IL) + kpar (mod n).  The returned chain code ci is IR.
       In case parse256(IL) >= n or ki = 0, the resulting key is invalid." *)
  Definition ckd_priv (x : xprv) (i : N) : option xprv :=
    let I := ckd_I x i in
    let ki := (parse256 (IL I) + fst x) mod bip32_n in
    if (bip32_n <=? parse256 (IL I)) || (ki =? 0) then None else Some (ki, IR I).

  (** CKDpriv(CKDpriv(CKDpriv(m, i1), i2), ...) *)
  Fixpoint ckd_path (ckd : xprv -> N -> option xprv) (x : xprv) (is : list N) : option xprv :=
    match is with
    | [] => Some x
    | i :: r => match ckd x i with Some x' => ckd_path ckd x' r | None => None end
    end.

  (** The private key at path [is] below the master key of seed [S]; [None] = invalid. *)
  Definition bip32 (S : bytes) (is : list N) : option N :=
    match master S with
    | Some m => option_map fst (ckd_path ckd_priv m is)
    | None => None
    end.

  (** BIP-32 with one more invalidity rule (the one hdwallet adds): a child whose parse256(IL)
      is 0 is refused as well.  BIP-32 itself accepts it (the child key then equals the parent
      key); the event has probability 2^-256 per step. *)
  Definition ckd_priv_strict (x : xprv) (i : N) : option xprv :=
    if parse256 (IL (ckd_I x i)) =? 0 then None else ckd_priv x i.

  Definition bip32_strict (S : bytes) (is : list N) : option N :=
    match master S with
    | Some m => option_map fst (ckd_path ckd_priv_strict m is)
    | None => None
    end.

  (** "some IL along the path is 0": at some step of the (valid) BIP-32 derivation
      parse256(IL) = 0. *)
  Fixpoint zero_IL_below (x : xprv) (is : list N) : Prop :=
    match is with
    | [] => False
    | i :: r =>
        parse256 (IL (ckd_I x i)) = 0
        \/ match ckd_priv x i with Some x' => zero_IL_below x' r | None => False end
    end.

  Definition zero_IL_along (S : bytes) (is : list N) : Prop :=
    match master S with Some m => zero_IL_below m is | None => False end.
End Spec.

(** A path as the parser produces it: every value is below 2^31 (this is [in_range] of
    [Model/Path.v], see [canonical_path_in_range] in the proofs). *)
Definition canonical_path (p : path) : Prop := Forall (fun c => comp_value c < 2^31) p.
