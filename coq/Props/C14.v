(** C14 — HD path text is unambiguous: standard indices only, canonical round trip.
    Statements only; every proof is one [exact] of a lemma from [Proofs/PathProofs.v].

    Vocabulary ([Model/Path.v]): [spells t c] — [t] is an optional '+', one or more ASCII digits
    denoting [comp_value c] < 2^31, and an apostrophe exactly when [c] is hardened;
    [comp_shape t] — the same outer shape with any value; [join 47 ts] — the texts [ts] with '/'
    between neighbours (every text [r] is [join 47 [r]], so "any text around" is covered);
    [bip32_index c] — the 32-bit word [value | HARDENED] / [value] that key derivation uses. *)
From Coq Require Import String.
From Coq Require Import List NArith Bool.
From HDW Require Import Lib.Outcome Lib.Bytes Lib.Decimal Model.Path Proofs.PathProofs.
Import ListNotations.
Open Scope N_scope.

(** m/i1/i2/… in canonical decimal, indices below 2^31, is accepted and yields these indices. *)
Theorem C14_accept_canonical : forall p,
  p <> [] -> Forall (fun c => comp_value c < 2 ^ 31) p -> parse_path (print_path p) = Ok p.
Proof. exact accept_canonical. Qed.
Print Assumptions C14_accept_canonical.

(** Every accepted path is non-empty and has all indices below 2^31 ... *)
Theorem C14_parsed_in_range : forall s p,
  parse_path s = Ok p -> p <> [] /\ Forall (fun c => comp_value c < 2 ^ 31) p.
Proof. exact parsed_in_range. Qed.
Print Assumptions C14_parsed_in_range.

(** ... so its printed (canonical) form parses to the same path (hence derives the same key). *)
Theorem C14_print_parse : forall s p, parse_path s = Ok p -> parse_path (print_path p) = Ok p.
Proof. exact print_parse. Qed.
Print Assumptions C14_print_parse.

(** The word fed to HMAC: below 2^31 the OR with the hardened bit is an addition, *)
Theorem C14_index_is_add : forall c,
  comp_value c < 2 ^ 31 ->
  bip32_index c = match c with Hardened v => v + 2 ^ 31 | Normal v => v end.
Proof. exact index_is_add. Qed.
Print Assumptions C14_index_is_add.

(** so two accepted texts select the same BIP-32 index sequence only if they are the same path. *)
Theorem C14_no_alias : forall s1 s2 p1 p2,
  parse_path s1 = Ok p1 -> parse_path s2 = Ok p2 ->
  map bip32_index p1 = map bip32_index p2 -> p1 = p2.
Proof. exact no_alias. Qed.
Print Assumptions C14_no_alias.

(** Soundness: only "m/" followed by '/'-separated spellings of the components is accepted. *)
Theorem C14_sound : forall s p,
  parse_path s = Ok p ->
  exists comps, s = s2l "m/" ++ join 47 comps /\ Forall2 spells comps p.
Proof. exact sound. Qed.
Print Assumptions C14_sound.

(** Completeness: every such text is accepted (this includes the non-canonical spellings
    "+5" and "007" that Rust's [u32] parser accepts). *)
Theorem C14_complete : forall comps p,
  comps <> [] -> Forall2 spells comps p -> parse_path (s2l "m/" ++ join 47 comps) = Ok p.
Proof. exact complete. Qed.
Print Assumptions C14_complete.

(** Rejections.  Missing root: *)
Theorem C14_reject_no_root : forall s, (forall r, s <> s2l "m/" ++ r) -> parse_path s = Err.
Proof. exact reject_no_root. Qed.
Print Assumptions C14_reject_no_root.

(** an index of 2^31 or more, normal or hardened, anywhere in the path: *)
Theorem C14_reject_out_of_range : forall pre post v suffix,
  2 ^ 31 <= v -> (suffix = [] \/ suffix = [39]) ->
  parse_path (s2l "m/" ++ join 47 (pre ++ (decimal v ++ suffix) :: post)) = Err.
Proof. exact reject_out_of_range. Qed.
Print Assumptions C14_reject_out_of_range.

(** (the same for every spelling of such a number: '+', leading zeros) *)
Theorem C14_reject_out_of_range_spelled : forall pre post plus digits suffix,
  (plus = [] \/ plus = [43]) -> digits <> [] -> all_digits digits -> (suffix = [] \/ suffix = [39]) ->
  2 ^ 31 <= dec_value digits ->
  parse_path (s2l "m/" ++ join 47 (pre ++ (plus ++ digits ++ suffix) :: post)) = Err.
Proof. exact reject_out_of_range_spelled. Qed.
Print Assumptions C14_reject_out_of_range_spelled.

(** an empty component ("m/" itself, "m//0", "m/0/"): *)
Theorem C14_reject_empty_component : forall pre post,
  parse_path (s2l "m/" ++ join 47 (pre ++ [] :: post)) = Err.
Proof. exact reject_empty_component. Qed.
Print Assumptions C14_reject_empty_component.

(** any character other than ASCII digits, '+', '\'' and '/' after the root
    ('-', '.', 'x', '_', space, non-ASCII digits, …): *)
Theorem C14_reject_bad_char : forall r x,
  In x r -> bad_char x -> parse_path (s2l "m/" ++ r) = Err.
Proof. exact reject_bad_char. Qed.
Print Assumptions C14_reject_bad_char.

(** a component that is not [+]digits['] ("+", "'", "1''", "5+", "'5", "++5", …): *)
Theorem C14_reject_bad_shape : forall pre t post,
  ~ In 47 t -> ~ comp_shape t -> parse_path (s2l "m/" ++ join 47 (pre ++ t :: post)) = Err.
Proof. exact reject_bad_shape. Qed.
Print Assumptions C14_reject_bad_shape.

(** The default account path. *)
Theorem C14_for_index_ok : forall i,
  i < 2 ^ 31 -> for_index i = Ok [Hardened 44; Hardened 60; Hardened 0; Normal 0; Normal i].
Proof. exact for_index_ok. Qed.
Print Assumptions C14_for_index_ok.

Theorem C14_for_index_reject : forall i, 2 ^ 31 <= i -> for_index i = Err.
Proof. exact for_index_reject. Qed.
Print Assumptions C14_for_index_reject.

(** Parsing never panics. *)
Theorem C14_total : forall s, graceful (parse_path s).
Proof. exact total_parse. Qed.
Print Assumptions C14_total.

Theorem C14_total_for_index : forall i, graceful (for_index i).
Proof. exact total_for_index. Qed.
Print Assumptions C14_total_for_index.

(** Non-vacuity. *)
Example C14_example_max :
  parse_path (s2l "m/44'/60'/0'/0/2147483647")
  = Ok [Hardened 44; Hardened 60; Hardened 0; Normal 0; Normal 2147483647].
Proof. vm_compute. reflexivity. Qed.

Example C14_example_alias_rejected : parse_path (s2l "m/2147483648'") = Err.
Proof. vm_compute. reflexivity. Qed.

Example C14_example_lenient : parse_path (s2l "m/+5/007") = Ok [Normal 5; Normal 7].
Proof. vm_compute. reflexivity. Qed.

Example C14_example_spells : spells (s2l "+5'") (Hardened 5) /\ bad_char 45.
Proof.
  split.
  - exists [43], [53]. repeat split; try reflexivity; [right; reflexivity|discriminate|].
    repeat constructor; discriminate.
  - unfold bad_char. repeat split; try discriminate. intros [H _]. apply H. reflexivity.
Qed.

Example C14_example_index :
  map bip32_index [Hardened 0; Normal 2147483647] = [2147483648; 2147483647].
Proof. vm_compute. reflexivity. Qed.
