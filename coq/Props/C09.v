(** C09 — Typed data that does not conform to its declared types is refused.
    Statements only; every proof is one [exact] of a lemma from [Proofs/Eip712ValueC09.v].

    [P : prims] bundles the primitives the model is parametric in (Keccak-256, the type hash,
    the leaf deserialisers of [Model/Num.v]); [encode_value_p P], [struct_hash_p P], [compute_p P]
    are the model functions of [Model/Eip712Values.v] at these primitives.  Assumptions, where a
    statement needs them, are the named bundles of [Spec/Eip712ValueSpec.v]:
    [prims_ranged] (a [U256] is below 2^256, an [I256] in [-2^255, 2^255)),
    [prims_sized] (digests are 32 bytes, addresses 20), [prims_total] (the primitives return a
    value or an ordinary error). *)
From Coq Require Import String.
From Coq Require Import List NArith ZArith Bool.
From HDW Require Import Lib.Outcome Lib.Bytes Model.Json Model.Eip712Kind Model.Domain Model.Eip712Values.
From HDW Require Import Spec.Eip712ValueSpec Proofs.Eip712ValueC09.
Import ListNotations.
Open Scope N_scope.

(** uintN: accepted exactly for [0 <= v < 2^N]; the word is the 32-byte big-endian value. *)
Theorem C09_uint_range : forall P tys n j w,
  prims_ranged P -> encode_value_p P tys (KUint n) j = Ok w ->
  exists v, p_u256 P j = Ok v /\ v < 2 ^ n /\ w = be_fixed 32 v.
Proof. exact c09_uint_range. Qed.
Print Assumptions C09_uint_range.

Theorem C09_uint_reject : forall P tys n j v,
  prims_ranged P -> p_u256 P j = Ok v -> 2 ^ n <= v -> encode_value_p P tys (KUint n) j = Err.
Proof. exact c09_uint_reject. Qed.
Print Assumptions C09_uint_reject.

(** negative numbers for unsigned types: they are refused inside [p_u256]
    ([Model/Num.v: permissive_u256]), and whatever it refuses is refused here. *)
Theorem C09_uint_negative : forall P tys n j,
  p_u256 P j = Err -> encode_value_p P tys (KUint n) j = Err.
Proof. exact c09_uint_negative. Qed.
Print Assumptions C09_uint_negative.

(** intN: accepted exactly for [-2^(N-1) <= z < 2^(N-1)]; the word is the two's complement. *)
Theorem C09_int_range : forall P tys n j w,
  prims_ranged P -> 1 <= n -> encode_value_p P tys (KInt n) j = Ok w ->
  exists z, p_i256 P j = Ok z /\ (- 2 ^ Z.of_N (n - 1) <= z < 2 ^ Z.of_N (n - 1))%Z /\
            w = be_fixed 32 (Z.to_N (z mod 2 ^ 256)).
Proof. exact c09_int_range. Qed.
Print Assumptions C09_int_range.

Theorem C09_int_reject : forall P tys n j z,
  prims_ranged P -> 1 <= n -> p_i256 P j = Ok z ->
  (z < - 2 ^ Z.of_N (n - 1) \/ 2 ^ Z.of_N (n - 1) <= z)%Z ->
  encode_value_p P tys (KInt n) j = Err.
Proof. exact c09_int_reject. Qed.
Print Assumptions C09_int_reject.

(** bytesN: exactly N bytes (N at most 32), right-padded with zeros; never truncated. *)
Theorem C09_bytesN_length : forall P tys n j w,
  encode_value_p P tys (KBytes (Some n)) j = Ok w ->
  exists b, p_bytes P j = Ok b /\ N.of_nat (length b) = n /\ n <= 32 /\
            w = b ++ repeat 0 (32 - N.to_nat n)%nat.
Proof. exact c09_bytesN_length. Qed.
Print Assumptions C09_bytesN_length.

Theorem C09_bytesN_reject : forall P tys n j b,
  p_bytes P j = Ok b -> N.of_nat (length b) <> n -> encode_value_p P tys (KBytes (Some n)) j = Err.
Proof. exact c09_bytesN_reject. Qed.
Print Assumptions C09_bytesN_reject.

(** fixed-size arrays *)
Theorem C09_fixed_array_length : forall P tys k n l w,
  encode_value_p P tys (KArray k (Some n)) (JArr l) = Ok w -> N.of_nat (length l) = n.
Proof. exact c09_fixed_array_length. Qed.
Print Assumptions C09_fixed_array_length.

Theorem C09_fixed_array_reject : forall P tys k n l,
  N.of_nat (length l) <> n -> encode_value_p P tys (KArray k (Some n)) (JArr l) = Err.
Proof. exact c09_fixed_array_reject. Qed.
Print Assumptions C09_fixed_array_reject.

(** a declared member is absent from the object *)
Theorem C09_missing_member : forall P tys name ms obj m,
  prims_sized P -> prims_total P ->
  types_get name tys = Some ms -> In m ms -> obj_get (m_name m) obj = None ->
  struct_hash_p P tys name obj = Err.
Proof. exact c09_missing_member. Qed.
Print Assumptions C09_missing_member.

(** the object has a key that is not a declared member *)
Theorem C09_extra_member : forall P tys name ms obj key,
  prims_sized P -> prims_total P ->
  types_get name tys = Some ms -> In key (map fst obj) -> ~ In key (map m_name ms) ->
  struct_hash_p P tys name obj = Err.
Proof. exact c09_extra_member. Qed.
Print Assumptions C09_extra_member.

(** a reference to an undefined struct type ... *)
Theorem C09_undefined_struct : forall P tys name,
  types_get name tys = None ->
  (forall obj, struct_hash_p P tys name obj = Err) /\
  (forall j, encode_value_p P tys (KStruct name) j = Err).
Proof. exact c09_undefined_struct. Qed.
Print Assumptions C09_undefined_struct.

(** ... also when it is only referred to by the type of a member (then the type hash of the
    enclosing struct is an error), even if no value needs it (e.g. an empty array of it). *)
Theorem C09_unresolved_dependency : forall P tys name,
  p_type_hash P tys name = Err ->
  (forall obj, struct_hash_p P tys name obj = Err) /\
  (forall j, encode_value_p P tys (KStruct name) j = Err).
Proof. exact c09_unresolved_dependency. Qed.
Print Assumptions C09_unresolved_dependency.

(** a JSON value of the wrong kind: [bool] needs [true]/[false], [string] a string, a struct an
    object, an array an array; numbers, byte strings and addresses: whatever the leaf
    deserialiser refuses (C13 / [Model/Num.v] say what that is). *)
Theorem C09_wrong_kind : forall P tys j,
  ((forall b, j <> JBool b) -> encode_value_p P tys KBool j = Err) /\
  ((forall s, j <> JStr s) -> encode_value_p P tys KString j = Err) /\
  (forall name, (forall kvs, j <> JObj kvs) -> encode_value_p P tys (KStruct name) j = Err) /\
  (forall k s, (forall l, j <> JArr l) -> encode_value_p P tys (KArray k s) j = Err) /\
  (forall n, p_u256 P j = Err -> encode_value_p P tys (KUint n) j = Err) /\
  (forall n, p_i256 P j = Err -> encode_value_p P tys (KInt n) j = Err) /\
  (forall n, p_bytes P j = Err -> encode_value_p P tys (KBytes n) j = Err) /\
  (p_addr P j = Err -> encode_value_p P tys KAddress j = Err).
Proof. exact c09_wrong_kind. Qed.
Print Assumptions C09_wrong_kind.

(** the rejection propagates from any position: any element of an array ... *)
Theorem C09_position_independent_array : forall P tys k s l x,
  prims_sized P -> prims_total P ->
  In x l -> encode_value_p P tys k x = Err -> encode_value_p P tys (KArray k s) (JArr l) = Err.
Proof. exact c09_position_array. Qed.
Print Assumptions C09_position_independent_array.

(** ... and the value of any member of a struct (objects have distinct keys, [Model/Json.v]);
    by induction, from any depth. *)
Theorem C09_position_independent_member : forall P tys name ms obj m x,
  prims_sized P -> prims_total P ->
  NoDup (map fst obj) -> types_get name tys = Some ms -> In m ms ->
  obj_get (m_name m) obj = Some x -> encode_value_p P tys (m_kind m) x = Err ->
  struct_hash_p P tys name obj = Err /\ encode_value_p P tys (KStruct name) (JObj obj) = Err.
Proof. exact c09_position_member. Qed.
Print Assumptions C09_position_independent_member.

(** nothing is hashed: digests exist only under [Ok] *)
Theorem C09_nothing_hashed : forall P j, compute_p P j = Err -> ~ exists r, compute_p P j = Ok r.
Proof. exact c09_nothing_hashed. Qed.
Print Assumptions C09_nothing_hashed.

(** no panic (none of the slice operations can fail) and no fuel: every outcome is a result or
    an ordinary error *)
Theorem C09_total : forall P,
  prims_sized P -> prims_total P ->
  (forall tys k j, graceful (encode_value_p P tys k j)) /\
  (forall tys name obj, graceful (struct_hash_p P tys name obj)) /\
  (forall j, graceful (compute_p P j)).
Proof. exact c09_total. Qed.
Print Assumptions C09_total.
