(** C15 (signature text) — Printed signatures parse back; text that does not denote a
    signature is rejected with an error.
    Statements only; every proof is one [exact] of a lemma from [Proofs/SigTextProofs.v].
    (The [C15_pipeline] statement about the two CLI commands lives with the transaction model.) *)
From Coq Require Import String.
From Coq Require Import List NArith Bool PeanoNat.
From HDW Require Import Lib.Outcome Lib.Bytes Lib.Hex Model.SigText.
From HDW Require Import Proofs.HexCliProofs Proofs.SigTextProofs.
Import ListNotations.
Open Scope N_scope.

(** The text is [0x], the 64 lower-case hex digits of r, the 64 of s, the two of v = 27 + yParity. *)
Theorem C15_format : forall σ, sig_r σ < 2 ^ 256 -> sig_s σ < 2 ^ 256 ->
  exists rd sd vd,
    print_sig σ = s2l "0x" ++ rd ++ sd ++ vd
    /\ length rd = 64%nat /\ length sd = 64%nat /\ length vd = 2%nat
    /\ forallb lower_hex_char (rd ++ sd ++ vd) = true
    /\ hex_decode rd = Some (be_fixed 32 (sig_r σ)) /\ be_val (be_fixed 32 (sig_r σ)) = sig_r σ
    /\ hex_decode sd = Some (be_fixed 32 (sig_s σ)) /\ be_val (be_fixed 32 (sig_s σ)) = sig_s σ
    /\ hex_decode vd = Some [27 + (if sig_parity σ then 1 else 0)].
Proof. exact format. Qed.
Print Assumptions C15_format.

(** Parsing a printed signature returns an equal signature: with the prefix ... *)
Theorem C15_roundtrip : forall σ, valid_sig σ -> parse_sig (print_sig σ) = Ok σ.
Proof. exact roundtrip. Qed.
Print Assumptions C15_roundtrip.

(** ... without it ... *)
Theorem C15_roundtrip_noprefix : forall σ, valid_sig σ -> parse_sig (skipn 2 (print_sig σ)) = Ok σ.
Proof. exact roundtrip_noprefix. Qed.
Print Assumptions C15_roundtrip_noprefix.

(** ... and with upper-case digits. *)
Theorem C15_roundtrip_upper : forall σ, valid_sig σ ->
  parse_sig (s2l "0x" ++ map to_upper (skipn 2 (print_sig σ))) = Ok σ.
Proof. exact roundtrip_upper. Qed.
Print Assumptions C15_roundtrip_upper.

Theorem C15_roundtrip_upper_noprefix : forall σ, valid_sig σ ->
  parse_sig (map to_upper (skipn 2 (print_sig σ))) = Ok σ.
Proof. exact roundtrip_upper_noprefix. Qed.
Print Assumptions C15_roundtrip_upper_noprefix.

(** Every spelling (optional lower-case 0x, 130 digits in either case) of a valid signature is accepted. *)
Theorem C15_accept : forall σ t, valid_sig σ ->
  sig_spelling (sig_r σ) (sig_s σ) (v_legacy σ) t -> parse_sig t = Ok σ.
Proof. exact accept. Qed.
Print Assumptions C15_accept.

(** Only texts that denote a signature are accepted; printing the result gives the canonical
    (lower-case, prefixed) form of the input. *)
Theorem C15_sound : forall t σ, parse_sig t = Ok σ ->
  valid_sig σ /\
  exists body, (t = s2l "0x" ++ body \/ t = body) /\ map to_lower body = skipn 2 (print_sig σ).
Proof. exact sound. Qed.
Print Assumptions C15_sound.

(** Everything else is an ordinary error. *)
Theorem C15_reject : forall t,
  (~ exists σ, valid_sig σ /\ sig_spelling (sig_r σ) (sig_s σ) (v_legacy σ) t) -> parse_sig t = Err.
Proof. exact reject. Qed.
Print Assumptions C15_reject.

(** Wrong length: the UTF-8 bytes left after the optional prefix are not 130. *)
Theorem C15_reject_length : forall t, length (sig_body t) <> 130%nat -> parse_sig t = Err.
Proof. exact reject_length. Qed.
Print Assumptions C15_reject_length.

(** Non-hex: some byte after the optional prefix is not a hex digit. *)
Theorem C15_reject_nonhex : forall t, forallb is_hex (sig_body t) = false -> parse_sig t = Err.
Proof. exact reject_nonhex. Qed.
Print Assumptions C15_reject_nonhex.

Theorem C15_reject_non_ascii : forall t, ~ all_ascii t -> parse_sig t = Err.
Proof. exact reject_non_ascii. Qed.
Print Assumptions C15_reject_non_ascii.

(** Only the lower-case prefix is recognised. *)
Theorem C15_reject_0X : forall σ, parse_sig (s2l "0X" ++ skipn 2 (print_sig σ)) = Err.
Proof. exact reject_0X. Qed.
Print Assumptions C15_reject_0X.

(** v other than 27/28, r or s zero or not below the group order: on the canonical text ... *)
Theorem C15_reject_canonical : forall r s v,
  (r = 0 \/ secp_n <= r \/ s = 0 \/ secp_n <= s \/ (v <> 27 /\ v <> 28)) ->
  r < 2 ^ 256 -> s < 2 ^ 256 -> v < 256 ->
  parse_sig (s2l "0x" ++ hex_encode (be_fixed 32 r ++ be_fixed 32 s ++ [v])) = Err.
Proof. exact reject_canonical. Qed.
Print Assumptions C15_reject_canonical.

(** ... and, one theorem per cause, on every spelling [t] of the triple (r, s, v). *)
Theorem C15_reject_v : forall r s v t,
  r < 2 ^ 256 -> s < 2 ^ 256 -> v < 256 -> sig_spelling r s v t ->
  v <> 27 -> v <> 28 -> parse_sig t = Err.
Proof. exact reject_v. Qed.
Print Assumptions C15_reject_v.

Theorem C15_reject_r_zero : forall s v t,
  s < 2 ^ 256 -> v < 256 -> sig_spelling 0 s v t -> parse_sig t = Err.
Proof. exact reject_r_zero. Qed.
Print Assumptions C15_reject_r_zero.

Theorem C15_reject_s_zero : forall r v t,
  r < 2 ^ 256 -> v < 256 -> sig_spelling r 0 v t -> parse_sig t = Err.
Proof. exact reject_s_zero. Qed.
Print Assumptions C15_reject_s_zero.

Theorem C15_reject_r_big : forall r s v t,
  r < 2 ^ 256 -> s < 2 ^ 256 -> v < 256 -> sig_spelling r s v t ->
  secp_n <= r -> parse_sig t = Err.
Proof. exact reject_r_big. Qed.
Print Assumptions C15_reject_r_big.

Theorem C15_reject_s_big : forall r s v t,
  r < 2 ^ 256 -> s < 2 ^ 256 -> v < 256 -> sig_spelling r s v t ->
  secp_n <= s -> parse_sig t = Err.
Proof. exact reject_s_big. Qed.
Print Assumptions C15_reject_s_big.

(** The parser never panics. *)
Theorem C15_total : forall t, graceful (parse_sig t).
Proof. exact total. Qed.
Print Assumptions C15_total.

(* ---- Examples (non-vacuity) ---- *)

Definition ex_r : N := 0x0101010101010101010101010101010101010101010101010101010101010101.
Definition ex_s : N := 0x0202020202020202020202020202020202020202020202020202020202020202.
Definition ex_text : text :=
  s2l "0x010101010101010101010101010101010101010101010101010101010101010102020202020202020202020202020202020202020202020202020202020202021b".

(** The repository's unit-test vector [signature::tests::signature_to_string]. *)
Example C15_example_print :
  print_sig {| sig_r := ex_r; sig_s := ex_s; sig_parity := false |} = ex_text.
Proof. vm_compute. reflexivity. Qed.

Example C15_example_parse :
  parse_sig ex_text = Ok {| sig_r := ex_r; sig_s := ex_s; sig_parity := false |}
  /\ parse_sig (skipn 2 ex_text) = Ok {| sig_r := ex_r; sig_s := ex_s; sig_parity := false |}
  /\ valid_sig {| sig_r := ex_r; sig_s := ex_s; sig_parity := false |}.
Proof. split; [|split]; [vm_compute; reflexivity..|]. repeat split; vm_compute; congruence. Qed.

Example C15_example_parity :
  print_sig {| sig_r := 1; sig_s := 2; sig_parity := true |}
  = s2l "0x" ++ repeat 48 63 ++ s2l "1" ++ repeat 48 63 ++ s2l "2" ++ s2l "1c".
Proof. vm_compute. reflexivity. Qed.

(** Boundary scalars: 0 and n are refused, n-1 is accepted (for r and for s).  s = n-1 is a
    "high" s (above n/2): the parser does not ask for a normalised signature. *)
Example C15_example_r_zero :
  parse_sig (s2l "0x" ++ hex_encode (be_fixed 32 0 ++ be_fixed 32 ex_s ++ [27])) = Err.
Proof. vm_compute. reflexivity. Qed.

Example C15_example_r_n :
  parse_sig (s2l "0x" ++ hex_encode (be_fixed 32 secp_n ++ be_fixed 32 ex_s ++ [27])) = Err.
Proof. vm_compute. reflexivity. Qed.

Example C15_example_r_n_minus_1 :
  parse_sig (s2l "0x" ++ hex_encode (be_fixed 32 (secp_n - 1) ++ be_fixed 32 ex_s ++ [28]))
  = Ok {| sig_r := secp_n - 1; sig_s := ex_s; sig_parity := true |}.
Proof. vm_compute. reflexivity. Qed.

Example C15_example_s_bounds :
  parse_sig (s2l "0x" ++ hex_encode (be_fixed 32 ex_r ++ be_fixed 32 0 ++ [27])) = Err
  /\ parse_sig (s2l "0x" ++ hex_encode (be_fixed 32 ex_r ++ be_fixed 32 secp_n ++ [27])) = Err
  /\ parse_sig (s2l "0x" ++ hex_encode (be_fixed 32 ex_r ++ be_fixed 32 (secp_n - 1) ++ [27]))
     = Ok {| sig_r := ex_r; sig_s := secp_n - 1; sig_parity := false |}.
Proof. repeat split; vm_compute; reflexivity. Qed.

(** Other v bytes, the upper-case prefix, a trailing character; upper-case digits are fine. *)
Example C15_example_v_and_case :
  parse_sig (s2l "0x" ++ hex_encode (be_fixed 32 ex_r ++ be_fixed 32 ex_s ++ [29])) = Err
  /\ parse_sig (s2l "0x" ++ hex_encode (be_fixed 32 ex_r ++ be_fixed 32 ex_s ++ [0])) = Err
  /\ parse_sig (s2l "0X" ++ skipn 2 ex_text) = Err
  /\ parse_sig (ex_text ++ s2l "0") = Err
  /\ parse_sig (s2l "0x" ++ map to_upper (skipn 2 ex_text))
     = Ok {| sig_r := ex_r; sig_s := ex_s; sig_parity := false |}.
Proof. repeat split; vm_compute; reflexivity. Qed.
