(** C04 — Public key and address are the secp256k1 / Keccak-256 images of the secret.
    Statements only; every proof is one [exact] of a lemma from [Proofs/AccountProofs.v].

    Keccak-256 ([keccak]) and the map from a scalar to the 65-byte uncompressed SEC1 encoding
    of scalar·G ([pubkey65]) are parameters of the statements; what is assumed about them is
    written in each statement (output sizes; the leading 0x04 tag).  [Run/DC04.v] instantiates
    them with [Prim.Keccak.keccak256] and [Prim.Secp256k1.ser_uncompressed (pt_mul_G k)] and
    checks [Z.of_N curve_n = secp_n]. *)
From Coq Require Import String.
From Coq Require Import List NArith Bool PeanoNat.
From HDW Require Import Lib.Outcome Lib.Bytes Lib.Hex Model.Account Spec.AccountSpec Proofs.AccountProofs.
Import ListNotations.
Open Scope N_scope.

(* ---------------- which byte strings are keys ---------------- *)

(** A 32-byte string is a key iff its big-endian value is in [1, n-1]; the key is that value;
    zero and values >= n are rejected. *)
Theorem C04_accept_32 : forall b, length b = 32%nat ->
  (key_new b = Ok (be_val b) <-> 1 <= be_val b < curve_n)
  /\ (~ (1 <= be_val b < curve_n) -> key_new b = Err).
Proof. exact accept_32. Qed.
Print Assumptions C04_accept_32.

(** Any other length is rejected or taken as the same big-endian integer (in range). *)
Theorem C04_other_lengths : forall b, length b <> 32%nat ->
  key_new b = Err \/ (key_new b = Ok (be_val b) /\ 1 <= be_val b < curve_n).
Proof. exact other_lengths. Qed.
Print Assumptions C04_other_lengths.

(** Whatever the length: an accepted key is the big-endian integer of the input — never a
    different key —, lies in [1, n-1], and came from 24 to 32 bytes. *)
Theorem C04_key_value : forall b k, key_new b = Ok k ->
  k = be_val b /\ 1 <= k < curve_n /\ (24 <= length b <= 32)%nat.
Proof. exact key_value. Qed.
Print Assumptions C04_key_value.

(** Lengths below 24 and above 32 are always rejected ... *)
Theorem C04_length_table : forall b, (length b < 24 \/ length b > 32)%nat -> key_new b = Err.
Proof. exact key_new_out. Qed.
Print Assumptions C04_length_table.

(** ... lengths 24..32 are decided by the range check alone (elliptic-curve left-pads with zeros). *)
Theorem C04_accept_24_32 : forall b, (24 <= length b <= 32)%nat ->
  (key_new b = Ok (be_val b) <-> 1 <= be_val b < curve_n)
  /\ (~ (1 <= be_val b < curve_n) -> key_new b = Err).
Proof. exact accept_mid. Qed.
Print Assumptions C04_accept_24_32.

(** [PrivateKey::new] returns a key or an ordinary error on every input. *)
Theorem C04_total : forall b, graceful (key_new b).
Proof. exact key_new_total. Qed.
Print Assumptions C04_total.

(** [secret] is the 32-byte big-endian scalar and reads back as the same key ... *)
Theorem C04_secret_roundtrip : forall k, 1 <= k < curve_n -> key_new (secret k) = Ok k.
Proof. exact secret_roundtrip. Qed.
Print Assumptions C04_secret_roundtrip.

(** ... and the secret of a key made from 32 bytes is those 32 bytes
    ([bytes_ok]: the input is a byte string). *)
Theorem C04_secret_of_key : forall b k,
  bytes_ok b -> length b = 32%nat -> key_new b = Ok k -> secret k = b.
Proof. exact secret_of_key. Qed.
Print Assumptions C04_secret_of_key.

(** In general the secret is the input left-padded with zeros to 32 bytes. *)
Theorem C04_secret_of_short_key : forall b k,
  bytes_ok b -> key_new b = Ok k -> secret k = repeat 0 (32 - length b) ++ b.
Proof. exact secret_of_short_key. Qed.
Print Assumptions C04_secret_of_short_key.

Theorem C04_secret_length : forall k, length (secret k) = 32%nat.
Proof. exact secret_length. Qed.
Print Assumptions C04_secret_length.

(* ---------------- public key and address ---------------- *)

(** The public key of a scalar in [1, n-1] is the 65-byte encoding (by the hypothesis on
    [pubkey65]: the model passes it through unchanged). *)
Theorem C04_public_length : forall (pubkey65 : N -> bytes),
  (forall k, 1 <= k < curve_n -> length (pubkey65 k) = 65%nat) ->
  forall k, 1 <= k < curve_n -> length (public pubkey65 k) = 65%nat.
Proof. exact public_length. Qed.
Print Assumptions C04_public_length.

(** The address is the last 20 bytes of Keccak-256 of the 64 coordinate bytes (the encoding
    without its 0x04 tag); the debug assertion on the tag never fires. *)
Theorem C04_address : forall (keccak : bytes -> bytes) (pubkey65 : N -> bytes),
  (forall x, length (keccak x) = 32%nat) ->
  (forall k, 1 <= k < curve_n -> length (pubkey65 k) = 65%nat) ->
  (forall k, 1 <= k < curve_n -> hd 0 (pubkey65 k) = 4) ->
  forall k, 1 <= k < curve_n ->
    address keccak pubkey65 k = Ok (skipn 12 (keccak (skipn 1 (pubkey65 k))))
    /\ length (skipn 1 (pubkey65 k)) = 64%nat
    /\ length (skipn 12 (keccak (skipn 1 (pubkey65 k)))) = 20%nat
    /\ exists pre, keccak (skipn 1 (pubkey65 k)) = pre ++ skipn 12 (keccak (skipn 1 (pubkey65 k)))
                   /\ length pre = 12%nat.
Proof. exact address_eq. Qed.
Print Assumptions C04_address.

(** 0x04 followed by the 64 coordinate bytes that are hashed. *)
Theorem C04_public_shape : forall (pubkey65 : N -> bytes),
  (forall k, 1 <= k < curve_n -> length (pubkey65 k) = 65%nat) ->
  (forall k, 1 <= k < curve_n -> hd 0 (pubkey65 k) = 4) ->
  forall k, 1 <= k < curve_n ->
    public pubkey65 k = 4 :: skipn 1 (pubkey65 k) /\ length (skipn 1 (pubkey65 k)) = 64%nat.
Proof. exact public_shape. Qed.
Print Assumptions C04_public_shape.

(** Every accepted key has a 20-byte address. *)
Theorem C04_address_of_key : forall (keccak : bytes -> bytes) (pubkey65 : N -> bytes),
  (forall x, length (keccak x) = 32%nat) ->
  (forall k, 1 <= k < curve_n -> length (pubkey65 k) = 65%nat) ->
  (forall k, 1 <= k < curve_n -> hd 0 (pubkey65 k) = 4) ->
  forall b k, key_new b = Ok k ->
    exists a, address keccak pubkey65 k = Ok a /\ length a = 20%nat.
Proof. exact address_of_key. Qed.
Print Assumptions C04_address_of_key.

(* ---------------- EIP-55 display ---------------- *)

(** The displayed address is "0x" and 40 characters that lower-case to the hex digits of the
    address; character i is the capital of digit i exactly when that digit is a letter and
    nibble i of Keccak-256 of the 40 lower-case characters is >= 8, otherwise digit i itself. *)
Theorem C04_eip55 : forall (keccak : bytes -> bytes),
  (forall x, bytes_ok (keccak x)) ->
  forall a, bytes_ok a -> length a = 20%nat ->
  exists body,
    eip55 keccak a = s2l "0x" ++ body
    /\ length body = 40%nat
    /\ map to_lower body = hex_encode a
    /\ forall i, (i < 40)%nat ->
         let c := nth i (hex_encode a) 0 in
         let up := hex_letter c /\ 8 <= nth i (nibbles (keccak (hex_encode a))) 0 in
         (up -> nth i body 0 = c - 32) /\ (~ up -> nth i body 0 = c).
Proof. exact eip55_spec. Qed.
Print Assumptions C04_eip55.

(** The same as a statement about letter case. *)
Theorem C04_eip55_case : forall (keccak : bytes -> bytes),
  (forall x, bytes_ok (keccak x)) ->
  forall a, bytes_ok a -> length a = 20%nat ->
  exists body,
    eip55 keccak a = s2l "0x" ++ body
    /\ length body = 40%nat
    /\ map to_lower body = hex_encode a
    /\ forall i, (i < 40)%nat ->
         (is_upper (nth i body 0) = true
          <-> hex_letter (nth i (hex_encode a) 0)
              /\ 8 <= nth i (nibbles (keccak (hex_encode a))) 0)
         /\ (is_upper (nth i body 0) = true -> hex_LETTER (nth i body 0)).
Proof. exact eip55_case. Qed.
Print Assumptions C04_eip55_case.

(** 42 characters; the part after "0x" is a hex spelling of the address bytes. *)
Theorem C04_eip55_decodes : forall (keccak : bytes -> bytes),
  (forall x, bytes_ok (keccak x)) ->
  forall a, bytes_ok a -> length a = 20%nat ->
  length (eip55 keccak a) = 42%nat
  /\ exists body, eip55 keccak a = s2l "0x" ++ body /\ hex_decode body = Some a.
Proof. exact eip55_decodes. Qed.
Print Assumptions C04_eip55_decodes.

(** Non-vacuity: boundary values of the range check. *)
Example C04_example_one : key_new (repeat 0 31 ++ [1]) = Ok 1.
Proof. vm_compute. reflexivity. Qed.
Example C04_example_zero : key_new (repeat 0 32) = Err.
Proof. vm_compute. reflexivity. Qed.
Example C04_example_n : key_new (be_fixed 32 curve_n) = Err /\ key_new (be_fixed 32 (curve_n - 1)) = Ok (curve_n - 1).
Proof. split; vm_compute; reflexivity. Qed.
Example C04_example_lengths :
  key_new [1] = Err /\ key_new (repeat 0 22 ++ [1]) = Err /\ key_new (repeat 0 23 ++ [1]) = Ok 1
  /\ key_new (repeat 0 30 ++ [1]) = Ok 1 /\ key_new (repeat 0 32 ++ [1]) = Err.
Proof. repeat split; vm_compute; reflexivity. Qed.
