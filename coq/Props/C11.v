(** C11 — Chain replay protection is never dropped silently.
    Statements only; every proof is one [exact] of a lemma from [Proofs/TxProofs.v] or
    [Proofs/TxCmdProofs.v].  Model: [sign_tx_cmd] ([cmd/sign.rs]), [sig_v]
    ([account/signature.rs]), [legacy_tail_rlp] ([transaction/legacy.rs]) in [Model/Tx.v].
    Keccak-256 ([keccak]) and the selected account's signer ([sign_digest]) are arbitrary
    functions.  Hypotheses [wf_tx], [tx_fits], [sig_fits], [doc_tokens_ok]: see [Props/C06.v]. *)
From Coq Require Import String.
From Coq Require Import List NArith ZArith Bool.
From HDW Require Import Lib.Outcome Lib.Bytes Lib.Hex Model.Json Model.Num Model.Rlp Model.SigText
  Model.Tx Spec.RlpSpec Spec.TxSpec.
From HDW Require Proofs.TxProofs Proofs.TxParseProofs Proofs.TxCmdProofs.
Import ListNotations.
Open Scope N_scope.

(** The signing command refuses a legacy transaction without chain id unless the override flag
    is given (in both output modes). *)
Theorem C11_guard : forall (keccak : bytes -> bytes) (sign_digest : bytes -> outcome sig) sigonly j t,
  tx_of_json j = Ok (Legacy t) -> l_chain_id t = None ->
  sign_tx_cmd keccak sign_digest false sigonly j = Err.
Proof. exact TxCmdProofs.guard. Qed.
Print Assumptions C11_guard.

(** ... and the guard refuses nothing else. *)
Theorem C11_guard_only : forall allow t,
  allow = true \/ tx_chain_id t <> None -> relay_protection_guard allow t = Ok tt.
Proof. exact TxCmdProofs.guard_passes. Qed.
Print Assumptions C11_guard_only.

(** With the override, what is signed is the plain six-field payload and v is 27 or 28:
    the printed signature is [print_sig σ] (whose last byte is 27 + yParity, C15_format) and the
    printed transaction carries [Int (27 + yParity)].
    [sign_digest]'s results are valid signatures (first hypothesis). *)
Theorem C11_override_v :
  forall (keccak : bytes -> bytes) (sign_digest : bytes -> outcome sig) sigonly j t out,
  (forall h σ, sign_digest h = Ok σ -> valid_sig σ) ->
  doc_tokens_ok j -> tx_of_json j = Ok (Legacy t) -> tx_fits (Legacy t) -> l_chain_id t = None ->
  sign_tx_cmd keccak sign_digest true sigonly j = Ok out ->
  exists σ,
    sign_digest (keccak (enc (Lst (legacy_fields t)))) = Ok σ
    /\ sig_v σ None = Ok (27 + parity_N σ) /\ parity_N σ <= 1
    /\ out = if sigonly then print_sig σ
             else s2l "0x" ++ hex_encode (enc (legacy_tree t
                    [Int (27 + parity_N σ); Int (sig_r σ); Int (sig_s σ)])).
Proof. exact TxCmdProofs.override_v. Qed.
Print Assumptions C11_override_v.

Theorem C11_v_none : forall σ, sig_v σ None = Ok (27 + parity_N σ).
Proof. exact TxProofs.sig_v_none. Qed.
Print Assumptions C11_v_none.

(** v = 35 + 2c + yParity exactly as an integer whenever that fits 256 bits (for both parities) *)
Theorem C11_v_exact : forall σ c,
  2 * c + 36 < 2 ^ 256 -> sig_v σ (Some c) = Ok (35 + 2 * c + parity_N σ).
Proof. exact TxProofs.sig_v_exact. Qed.
Print Assumptions C11_v_exact.

(** ... and never a wrapped value: beyond that the overflow check of the debug build fires.
    (Unreachable from a parsed document, next theorems.) *)
Theorem C11_v_overflow : forall σ c,
  2 ^ 256 <= 35 + 2 * c + parity_N σ -> sig_v σ (Some c) = Panic.
Proof. exact TxProofs.sig_v_overflow. Qed.
Print Assumptions C11_v_overflow.

(** the parser's bound makes the overflow branch unreachable *)
Theorem C11_v_no_panic_parsed : forall j t c σ,
  tx_of_json j = Ok (Legacy t) -> l_chain_id t = Some c ->
  sig_v σ (Some c) = Ok (35 + 2 * c + parity_N σ).
Proof. exact TxCmdProofs.v_no_panic_parsed. Qed.
Print Assumptions C11_v_no_panic_parsed.

(** A legacy document whose chain id is a number [c] with [2c + 36 >= 2^256] is refused by the
    parser, hence by the command before anything is signed. *)
Theorem C11_too_large : forall kvs cj c,
  kind_of_keys kvs = KLegacy -> obj_get k_chain_id kvs = Some cj -> permissive_u256 cj = Ok c ->
  2 ^ 256 <= 2 * c + 36 -> tx_of_json (JObj kvs) = Err.
Proof. exact TxCmdProofs.too_large. Qed.
Print Assumptions C11_too_large.

Theorem C11_too_large_cmd :
  forall (keccak : bytes -> bytes) (sign_digest : bytes -> outcome sig) allow sigonly kvs cj c,
  kind_of_keys kvs = KLegacy -> obj_get k_chain_id kvs = Some cj -> permissive_u256 cj = Ok c ->
  2 ^ 256 <= 2 * c + 36 -> sign_tx_cmd keccak sign_digest allow sigonly (JObj kvs) = Err.
Proof. exact TxCmdProofs.too_large_cmd. Qed.
Print Assumptions C11_too_large_cmd.

(** The chain id is inside what is signed: the legacy payload ends in (c, 0, 0) ... *)
Theorem C11_bound_legacy : forall t c,
  l_chain_id t = Some c ->
  unsigned_tree (Legacy t) = Lst (legacy_fields t ++ [Int c; Int 0; Int 0]).
Proof. exact TxCmdProofs.bound_legacy. Qed.
Print Assumptions C11_bound_legacy.

(** ... and it is the first element of the signed list of a typed transaction. *)
Theorem C11_bound_typed :
  (forall t σ, exists rest rest',
      signed_tree (Eip2930 t) σ = Lst (Int (e2_chain_id t) :: rest)
      /\ unsigned_tree (Eip2930 t) = Lst (Int (e2_chain_id t) :: rest'))
  /\ (forall t σ, exists rest rest',
      signed_tree (Eip1559 t) σ = Lst (Int (e5_chain_id t) :: rest)
      /\ unsigned_tree (Eip1559 t) = Lst (Int (e5_chain_id t) :: rest')).
Proof. exact TxCmdProofs.bound_typed. Qed.
Print Assumptions C11_bound_typed.

(** what the command signs and prints when it signs *)
Theorem C11_sign_cmd_spec :
  forall (keccak : bytes -> bytes) (sign_digest : bytes -> outcome sig) allow sigonly j t σ,
  tx_of_json j = Ok t -> wf_tx t -> tx_fits t ->
  allow = true \/ tx_chain_id t <> None ->
  sign_digest (keccak (payload t)) = Ok σ -> sig_fits σ ->
  sign_tx_cmd keccak sign_digest allow sigonly j
  = Ok (if sigonly then print_sig σ else s2l "0x" ++ hex_encode (signed_bytes t σ)).
Proof. exact TxCmdProofs.sign_cmd_spec. Qed.
Print Assumptions C11_sign_cmd_spec.

(** Two transactions of one kind with different chain ids (in particular: differing only in
    the chain id, or one legacy transaction with and one without) have different signing
    payloads (RLP injectivity, C07) ... *)
Theorem C11_chain_separation : forall t1 t2,
  wf_tx t1 -> tx_fits t1 -> wf_tx t2 -> tx_fits t2 -> kind t1 = kind t2 ->
  tx_chain_id t1 <> tx_chain_id t2 -> payload t1 <> payload t2.
Proof. exact TxCmdProofs.chain_separation. Qed.
Print Assumptions C11_chain_separation.

(** ... hence different digests, unless Keccak collides on these two explicit, distinct inputs.
    (That an ECDSA signature valid for one digest is not valid for another is the cryptographic
    conclusion; it is named, not proved.) *)
Theorem C11_chain_separation_digest : forall (keccak : bytes -> bytes) t1 t2,
  wf_tx t1 -> tx_fits t1 -> wf_tx t2 -> tx_fits t2 -> kind t1 = kind t2 ->
  tx_chain_id t1 <> tx_chain_id t2 ->
  signing_message keccak t1 = signing_message keccak t2 ->
  payload t1 <> payload t2 /\ keccak (payload t1) = keccak (payload t2).
Proof. exact TxCmdProofs.chain_separation_digest. Qed.
Print Assumptions C11_chain_separation_digest.

(** the command never panics (for a signer that does not) *)
Theorem C11_total :
  forall (keccak : bytes -> bytes) (sign_digest : bytes -> outcome sig) allow sigonly j,
  (forall h, graceful (sign_digest h)) ->
  (forall h σ, sign_digest h = Ok σ -> valid_sig σ) ->
  doc_tokens_ok j -> (forall t, tx_of_json j = Ok t -> tx_fits t) ->
  graceful (sign_tx_cmd keccak sign_digest allow sigonly j).
Proof. exact TxCmdProofs.sign_cmd_graceful. Qed.
Print Assumptions C11_total.

(* ------------------------------------------------------------------ *)
(** ** Examples *)

Definition ex_doc (chain : list (text * json)) : json :=
  JObj (chain ++ [(k_nonce, JU64 0); (k_gas_price, JU64 0); (k_gas, JU64 21000);
                  (k_value, JU64 0); (k_data, JStr (s2l "0x"))]).
Definition ex_signer (_ : bytes) : outcome sig := Ok {| sig_r := 1; sig_s := 2; sig_parity := true |}.
Definition ex_keccak (b : bytes) : bytes := repeat 0 32.

Example C11_ex_guard :
  sign_tx_cmd ex_keccak ex_signer false false (ex_doc []) = Err
  /\ sign_tx_cmd ex_keccak ex_signer false true (ex_doc [(k_chain_id, JNull)]) = Err
  /\ is_ok (sign_tx_cmd ex_keccak ex_signer true false (ex_doc [])) = true
  /\ is_ok (sign_tx_cmd ex_keccak ex_signer false false (ex_doc [(k_chain_id, JU64 0)])) = true.
Proof. vm_compute. repeat split; reflexivity. Qed.

(** the largest chain id 2^255 - 19: v = 2^256 - 3 + yParity, no wrap; one more is refused *)
Example C11_ex_max_chain :
  sig_v {| sig_r := 1; sig_s := 2; sig_parity := true |} (Some ((2 ^ 256 - 37) / 2)) = Ok (2 ^ 256 - 2)
  /\ sign_tx_cmd ex_keccak ex_signer false false
       (ex_doc [(k_chain_id, JStr (s2l "0x7fffffffffffffffffffffffffffffffffffffffffffffffffffffffffffffee"))])
     = Err.
Proof. vm_compute. repeat split; reflexivity. Qed.
