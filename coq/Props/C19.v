(** C19 — Hex encode and decode are inverse; decoding is lenient only about layout.
    Statements only; every proof is one [exact] of a lemma from [Proofs/]. *)
From Coq Require Import String.
From Coq Require Import List NArith Bool PeanoNat.
From HDW Require Import Lib.Outcome Lib.Bytes Lib.Hex Model.HexCli Proofs.HexCliProofs.
Import ListNotations.
Open Scope N_scope.

(** decode (encode b) = b, for every byte string. *)
Theorem C19_roundtrip : forall b, bytes_ok b -> hex_decode_cmd (hex_encode_cmd b) = Ok b.
Proof. exact roundtrip. Qed.
Print Assumptions C19_roundtrip.

(** encode prints 0x, two lower-case digits per byte (which decode to b), newline. *)
Theorem C19_format : forall b, bytes_ok b ->
  exists ds, hex_encode_cmd b = [48; 120] ++ ds ++ [10]
    /\ length ds = (2 * length b)%nat
    /\ forallb lower_hex_char ds = true
    /\ hex_decode ds = Some b.
Proof. exact format. Qed.
Print Assumptions C19_format.

(** Every spelling (white space anywhere, either digit case, optional 0x) gives the same bytes. *)
Theorem C19_lenient : forall b t, bytes_ok b -> spelling_of b t -> permissive_hex t = Ok b.
Proof. exact permissive_hex_complete. Qed.
Print Assumptions C19_lenient.

(** Only spellings are accepted ... *)
Theorem C19_sound : forall b t, permissive_hex t = Ok b -> bytes_ok b /\ spelling_of b t.
Proof. exact permissive_hex_sound. Qed.
Print Assumptions C19_sound.

(** ... everything else is an ordinary error (no output is produced under [Err]). *)
Theorem C19_reject : forall t, (~ exists b, bytes_ok b /\ spelling_of b t) -> permissive_hex t = Err.
Proof. exact reject. Qed.
Print Assumptions C19_reject.

Theorem C19_reject_odd : forall t,
  all_ascii (body t) -> Nat.odd (length (body t)) = true -> permissive_hex t = Err.
Proof. exact reject_odd. Qed.
Print Assumptions C19_reject_odd.

Theorem C19_reject_nonhex : forall t, forallb is_hex (body t) = false -> permissive_hex t = Err.
Proof. exact reject_nonhex. Qed.
Print Assumptions C19_reject_nonhex.

Theorem C19_total : forall t, graceful (permissive_hex t).
Proof. exact total. Qed.
Print Assumptions C19_total.

(** Non-vacuity: a concrete layout with white space inside the prefix, mixed case. *)
Example C19_example :
  spelling_of [222; 173] (s2l " 0 x" ++ [9] ++ s2l "dE" ++ [10; 0x3000] ++ s2l "Ad ")
  /\ permissive_hex (s2l " 0 x" ++ [9] ++ s2l "dE" ++ [10; 0x3000] ++ s2l "Ad ") = Ok [222; 173].
Proof. split; [exists (s2l "dEAd"); split; [right|]; reflexivity | reflexivity]. Qed.
