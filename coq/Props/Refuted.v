(** The formal record of the defects found on the pinned tree (DESIGN.md section 8, rows D1..D15;
    /verif/KNOWN_FINDINGS.txt, [fixed:] lines).

    For every row: [Dk_refuted] evaluates the model of the ORIGINAL code ([Model/Pinned.v]) on the
    witness input of the row and exhibits the violation of the given property; [Dk_repaired]
    evaluates the CURRENT model on the same input.  Everything is proved by computation on
    closed terms.  None of these statements is an obligation of a property check. *)
From Coq Require Import String.
From Coq Require Import List NArith ZArith Bool.
From HDW Require Import Lib.Outcome Lib.Bytes Lib.Hex Lib.Decimal.
From HDW Require Import Model.Json Model.Num Model.Bip39 Model.Entropy Model.Path Model.SigText
  Model.Rlp Model.Tx Model.Eip712Kind Model.Domain Model.Eip712Types Model.Eip712Values
  Model.Prefix Model.Pinned.
From HDW Require Model.Vanity.
From HDW Require Prim.Sha256.
Import ListNotations.
Open Scope N_scope.

Local Notation sha256 := Prim.Sha256.sha256.

(** closes [exists a, x = Ok a] for a closed [x] by evaluating it *)
Local Ltac ok_witness :=
  match goal with
  | |- exists a, ?x = Ok a =>
      let v := eval vm_compute in x in
      match v with
      | Ok ?a => exists a; vm_cast_no_check (@eq_refl _ v)
      end
  end.

(* ================================================================== *)
(** * D1 (C01, C12) — 13- and 16-word phrases were accepted, [new -n 13] generated one *)

(** 12 x "abandon" + "absent" *)
Theorem D1_refuted :
  exists t, length (split_ws t) = 13%nat /\ exists m, pinned_from_phrase sha256 t = Ok m.
Proof. exists d1_phrase13. split; [ vm_compute; reflexivity | ok_witness ]. Qed.
Print Assumptions D1_refuted.

(** 15 x "abandon" + "bomb" *)
Theorem D1_refuted_16 :
  exists t, length (split_ws t) = 16%nat /\ exists m, pinned_from_phrase sha256 t = Ok m.
Proof. exists d1_phrase16. split; [ vm_compute; reflexivity | ok_witness ]. Qed.
Print Assumptions D1_refuted_16.

(** [new -n 13] on 17 zero bytes of entropy printed that 13-word phrase *)
Theorem D1_refuted_new :
  fst (pinned_new_cmd sha256 13 d1_entropy) = Ok d1_phrase13.
Proof. vm_compute. reflexivity. Qed.
Print Assumptions D1_refuted_new.

Theorem D1_repaired :
  from_phrase sha256 d1_phrase13 = Err /\ from_phrase sha256 d1_phrase16 = Err
  /\ fst (new_cmd sha256 13 d1_entropy) = Err.
Proof. vm_compute. repeat split. Qed.
Print Assumptions D1_repaired.

(* ================================================================== *)
(** * D2 (C17) — 14, 17, 19, 20, 22 or 23 list words: index out of bounds in the unpacking loop *)

Theorem D2_refuted : exists t, pinned_from_phrase sha256 t = Panic.
Proof. exists (d2_phrase 14). vm_compute. reflexivity. Qed.
Print Assumptions D2_refuted.

Theorem D2_refuted_all :
  Forall (fun n => length (split_ws (d2_phrase n)) = n
                   /\ pinned_from_phrase sha256 (d2_phrase n) = Panic)
         [14; 17; 19; 20; 22; 23]%nat.
Proof. repeat constructor; vm_compute; reflexivity. Qed.
Print Assumptions D2_refuted_all.

Theorem D2_repaired :
  Forall (fun n => from_phrase sha256 (d2_phrase n) = Err) [14; 17; 19; 20; 22; 23]%nat.
Proof. repeat constructor; vm_compute; reflexivity. Qed.
Print Assumptions D2_repaired.

(* ================================================================== *)
(** * D3 (C14) — [m/2147483648'] accepted and derived the key of [m/0']; [m/4294967295] accepted *)

Theorem D3_refuted :
  pinned_parse_path (s2l "m/2147483648'") = Ok [Hardened 2147483648]
  /\ bip32_index (Hardened 2147483648) = bip32_index (Hardened 0).
Proof. vm_compute. split; reflexivity. Qed.
Print Assumptions D3_refuted.

Theorem D3_refuted_normal :
  pinned_parse_path (s2l "m/4294967295") = Ok [Normal 4294967295].
Proof. vm_compute. reflexivity. Qed.
Print Assumptions D3_refuted_normal.

Theorem D3_repaired :
  parse_path (s2l "m/2147483648'") = Err /\ parse_path (s2l "m/4294967295") = Err.
Proof. vm_compute. split; reflexivity. Qed.
Print Assumptions D3_repaired.

(* ================================================================== *)
(** * D4 (C14, C17) — [--account-index 4294967296]: [Path::for_index] unwrapped the parse error;
      2^31 <= index < 2^32 gave a path no BIP-32 wallet derives *)

Theorem D4_refuted : pinned_for_index 4294967296 = Panic.
Proof. vm_compute. reflexivity. Qed.
Print Assumptions D4_refuted.

Theorem D4_refuted_nonstandard :
  pinned_for_index 2147483648
  = Ok [Hardened 44; Hardened 60; Hardened 0; Normal 0; Normal 2147483648].
Proof. vm_compute. reflexivity. Qed.
Print Assumptions D4_refuted_nonstandard.

Theorem D4_repaired : for_index 4294967296 = Err /\ for_index 2147483648 = Err.
Proof. vm_compute. split; reflexivity. Qed.
Print Assumptions D4_repaired.

(* ================================================================== *)
(** * D5 (C17, C18) — [new --vanity-prefix 0x1 --vanity-account-index 4294967296 -j 2]: every
      worker panicked, the main thread waited forever

    In [Model/Vanity.v] the address of a candidate starts with the account path; with the
    original [for_index] that is a panic, a panicking worker sends nothing, and the answer of
    [run_vanity] is [OutOfFuel] ("still waiting") whichever worker is designated the winner. *)
Theorem D5_refuted : forall (rest : outcome bytes) p streams winner,
  Vanity.run_vanity unit (fun _ => bind (pinned_for_index 4294967296) (fun _ => rest))
    p 2 streams winner (Ok tt) = OutOfFuel.
Proof.
  intros rest p streams winner. unfold Vanity.run_vanity.
  replace (pinned_for_index 4294967296) with (@Panic path) by (vm_compute; reflexivity).
  cbn [bind N.eqb Pos.eqb]. destruct (N.of_nat winner <? 2); [ | reflexivity ].
  destruct (nth winner streams []); reflexivity.
Qed.
Print Assumptions D5_refuted.

(** now every worker reports the error, and so does the command *)
Theorem D5_repaired : forall (rest : outcome bytes) p streams winner,
  (winner < 2)%nat ->
  Vanity.run_vanity unit (fun _ => bind (for_index 4294967296) (fun _ => rest))
    p 2 streams winner (Ok tt) = Err.
Proof.
  intros rest p streams winner Hw. unfold Vanity.run_vanity.
  replace (for_index 4294967296) with (@Err path) by (vm_compute; reflexivity).
  cbn [bind N.eqb Pos.eqb].
  destruct winner as [ | [ | w ] ];
    [ | | exfalso; inversion Hw as [ | ? H1 ]; inversion H1 as [ | ? H2 ]; inversion H2 ];
    (cbn [N.of_nat Pos.of_succ_nat N.ltb N.compare Pos.compare Pos.compare_cont];
     destruct (nth _ streams []); reflexivity).
Qed.
Print Assumptions D5_repaired.

(* ================================================================== *)
(** * D6 (C15) — the parser refused the [0x] that [Display] prints *)

Theorem D6_refuted : exists σ, valid_sig σ /\ pinned_parse_sig (print_sig σ) = Err.
Proof.
  exists d6_sig. split.
  - repeat split; vm_compute; (reflexivity || discriminate).
  - vm_compute. reflexivity.
Qed.
Print Assumptions D6_refuted.

Theorem D6_repaired : parse_sig (print_sig d6_sig) = Ok d6_sig.
Proof. vm_compute. reflexivity. Qed.
Print Assumptions D6_repaired.

(* ================================================================== *)
(** * D7 (C15, C17) — signature text with r = 0 or r >= n: [from_scalars(..).unwrap()] *)

(** "00" x 32, then s = 1, then v = 27 *)
Theorem D7_refuted : pinned_parse_sig d7_text_r0 = Panic.
Proof. vm_compute. reflexivity. Qed.
Print Assumptions D7_refuted.

(** r = 2^256 - 1; and the same after the prefix repair alone *)
Theorem D7_refuted_rmax :
  pinned_parse_sig d7_text_rmax = Panic /\ pinned_parse_sig_0x (s2l "0x" ++ d7_text_r0) = Panic.
Proof. vm_compute. split; reflexivity. Qed.
Print Assumptions D7_refuted_rmax.

Theorem D7_repaired :
  parse_sig d7_text_r0 = Err /\ parse_sig d7_text_rmax = Err
  /\ parse_sig (s2l "0x" ++ d7_text_r0) = Err.
Proof. vm_compute. repeat split. Qed.
Print Assumptions D7_repaired.

(* ================================================================== *)
(** * D8 (C11, C17) — legacy [chainId] = 0x7fff..ffee = 2^255 - 18: [Signature::v] overflowed *)

Theorem D8_refuted :
  exists t, pinned_legacy_of_json d8_tx = Ok t
    /\ l_chain_id t = Some (2 ^ 255 - 18)
    /\ valid_sig d8_sig
    /\ sig_v d8_sig (l_chain_id t) = Panic
    /\ encode (Legacy t) d8_sig = Panic.
Proof.
  assert (H : exists t, pinned_legacy_of_json d8_tx = Ok t) by ok_witness.
  destruct H as [t H]. exists t. split; [ exact H | ].
  vm_compute in H. injection H as <-.
  split; [ vm_compute; reflexivity | ].
  split; [ repeat split; vm_compute; (reflexivity || discriminate) | ].
  split; vm_compute; reflexivity.
Qed.
Print Assumptions D8_refuted.

Theorem D8_repaired :
  legacy_of_json d8_tx = Err /\ tx_of_json (JObj d8_tx) = Err.
Proof. vm_compute. split; reflexivity. Qed.
Print Assumptions D8_repaired.

(** the bound is tight: one less is accepted and signs with v = 2^256 - 2 *)
Theorem D8_repaired_tight :
  chainid_field (Some (JStr (s2l "0x7" ++ repeat 102 61 ++ s2l "ed"))) = Ok (Some (2 ^ 255 - 19))
  /\ sig_v d8_sig (Some (2 ^ 255 - 19)) = Ok (2 ^ 256 - 2).
Proof. vm_compute. split; reflexivity. Qed.
Print Assumptions D8_repaired_tight.

(* ================================================================== *)
(** * D9 (C13) — ["nonce": -1] and [-1.0] accepted as 2^256 - 1 *)

Theorem D9_refuted : pinned_permissive_u256 (JI64 (-1)) = Ok (2 ^ 256 - 1).
Proof. vm_compute. reflexivity. Qed.
Print Assumptions D9_refuted.

Theorem D9_refuted_float : pinned_permissive_u256 (JF64 (-1) 0) = Ok (2 ^ 256 - 1).
Proof. vm_compute. reflexivity. Qed.
Print Assumptions D9_refuted_float.

Theorem D9_repaired :
  permissive_u256 (JI64 (-1)) = Err /\ permissive_u256 (JF64 (-1) 0) = Err.
Proof. vm_compute. split; reflexivity. Qed.
Print Assumptions D9_repaired.

(* ================================================================== *)
(** * D10 (C09) — [uint256] typed-data value -1 accepted as 2^256 - 1 *)

Theorem D10_refuted : pinned_enc_uint 256 (JI64 (-1)) = Ok (repeat 255 32).
Proof. vm_compute. reflexivity. Qed.
Print Assumptions D10_refuted.

Theorem D10_repaired : enc_uint permissive_u256 256 (JI64 (-1)) = Err.
Proof. vm_compute. reflexivity. Qed.
Print Assumptions D10_repaired.

(* ================================================================== *)
(** * D11 (C09) — [int8] values 128..255 and -255..-129 accepted *)

Theorem D11_refuted :
  pinned_int_ok 8 128 = true
  /\ pinned_enc_int ethnum_permissive_i256 8 (JU64 128) = Ok (be_fixed 32 128).
Proof. vm_compute. split; reflexivity. Qed.
Print Assumptions D11_refuted.

Theorem D11_refuted_range :
  pinned_int_ok 8 255 = true /\ pinned_int_ok 8 (-129) = true /\ pinned_int_ok 8 (-255) = true.
Proof. vm_compute. repeat split. Qed.
Print Assumptions D11_refuted_range.

Theorem D11_repaired :
  enc_int ethnum_permissive_i256 8 (JU64 128) = Err
  /\ enc_int ethnum_permissive_i256 8 (JI64 (-129)) = Err
  /\ current_int_ok 8 128 = false /\ current_int_ok 8 (-129) = false
  /\ current_int_ok 8 127 = true /\ current_int_ok 8 (-128) = true.
Proof. vm_compute. repeat split. Qed.
Print Assumptions D11_repaired.

(* ================================================================== *)
(** * D12 (C08) — members [Asset tx, Person from, Person to]: [Asset] missing from encodeType *)

Theorem D12_refuted :
  pinned_encode_type d12_types (s2l "Transfer")
  = Ok (s2l "Transfer(Asset tx,Person from,Person to)Person(string name,address wallet)").
Proof. vm_compute. reflexivity. Qed.
Print Assumptions D12_refuted.

(** ... although the original code did collect it for the ordering [from, to, tx] *)
Theorem D12_refuted_reordered :
  pinned_encode_type d12_types_reordered (s2l "Transfer")
  = Ok (s2l "Transfer(Person from,Person to,Asset tx)Asset(address token,uint256 amount)Person(string name,address wallet)").
Proof. vm_compute. reflexivity. Qed.
Print Assumptions D12_refuted_reordered.

Theorem D12_repaired :
  encode_type d12_types (s2l "Transfer")
  = Ok (s2l "Transfer(Asset tx,Person from,Person to)Asset(address token,uint256 amount)Person(string name,address wallet)").
Proof. vm_compute. reflexivity. Qed.
Print Assumptions D12_repaired.

(* ================================================================== *)
(** * D13 (C08) — a self-referential type repeated the primary type *)

Theorem D13_refuted :
  pinned_encode_type d13_types (s2l "Foo")
  = Ok (s2l "Foo(uint256 id,Foo[] children)Foo(uint256 id,Foo[] children)").
Proof. vm_compute. reflexivity. Qed.
Print Assumptions D13_refuted.

Theorem D13_repaired :
  encode_type d13_types (s2l "Foo") = Ok (s2l "Foo(uint256 id,Foo[] children)").
Proof. vm_compute. reflexivity. Qed.
Print Assumptions D13_repaired.

(* ================================================================== *)
(** * D14 (C18, C17) — [new --vanity-prefix 0xA]: [u8] underflow *)

Theorem D14_refuted : pinned_parse_nibble 65 = Panic.
Proof. vm_compute. reflexivity. Qed.
Print Assumptions D14_refuted.

Theorem D14_refuted_prefix : pinned_parse_prefix (s2l "0xA") = Panic.
Proof. vm_compute. reflexivity. Qed.
Print Assumptions D14_refuted_prefix.

(** the release build (wrapping arithmetic) searched for [0x8b] when asked for [0xAB] *)
Theorem D14_refuted_release :
  exists h l, pinned_parse_nibble_release 65 = Ok h /\ pinned_parse_nibble_release 66 = Ok l
    /\ (u8_shl h 4 + l) mod 256 = 0x8b.
Proof. exists 234, 235. vm_compute. repeat split. Qed.
Print Assumptions D14_refuted_release.

Theorem D14_repaired :
  parse_nibble 65 = Ok 10
  /\ parse_prefix (s2l "0xA") = Ok {| p_bytes := []; p_nibble := Some 10 |}
  /\ parse_prefix (s2l "0xAB") = Ok {| p_bytes := [0xab]; p_nibble := None |}.
Proof. vm_compute. repeat split. Qed.
Print Assumptions D14_repaired.

(* ================================================================== *)
(** * D15 (C09, C17) — a [bytes1] value of 2^32 + 1 bytes passed the length check *)

Theorem D15_refuted : pinned_bytesn_len_ok 1 (2 ^ 32 + 1) = true.
Proof. vm_compute. reflexivity. Qed.
Print Assumptions D15_refuted.

(** ... and the [copy_from_slice] that follows a passed check panics on every source whose
    length is not [n] *)
Theorem D15_refuted_panic_site : forall src : bytes,
  length src <> 1%nat -> copy_at (repeat 0 32%nat) 0 1 src = Panic.
Proof.
  intros src H. unfold copy_at. cbn [repeat length Nat.ltb Nat.leb Nat.sub].
  destruct (Nat.eqb (length src) 1) eqn:E; [ | reflexivity ].
  apply PeanoNat.Nat.eqb_eq in E. contradiction.
Qed.
Print Assumptions D15_refuted_panic_site.

Theorem D15_repaired : current_bytesn_len_ok 1 (2 ^ 32 + 1) = false.
Proof. vm_compute. reflexivity. Qed.
Print Assumptions D15_repaired.
