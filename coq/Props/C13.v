(** C13 — Transaction JSON numbers mean exactly the integer written or are rejected; byte
    fields require 0x-prefixed even-length hex and addresses exactly 20 bytes.
    Field-level deserialisers ([Model/Num.v]).  Statements only; every proof is one [exact]
    of a lemma from [Proofs/NumProofs.v]. *)
From Coq Require Import String.
From Coq Require Import List NArith ZArith Bool PeanoNat.
From HDW Require Import Lib.Outcome Lib.Radix Lib.Bytes Lib.Hex Lib.Decimal Model.Json Model.Num
  Proofs.NumProofs.
Import ListNotations.
Open Scope N_scope.

(* ------------------------------------------------------------------ *)
(** ** Accepted => the exact integer written, below 2^256 (no wrap, truncation, rounding, default).
    [num_token_ok]: serde_json's invariant on its own tokens (a [u64] token is below 2^64, an
    [i64] token is negative). *)
Theorem C13_exact : forall j v,
  num_token_ok j -> permissive_u256 j = Ok v -> denotes_int false j (Z.of_N v) /\ v < 2 ^ 256.
Proof. exact exact. Qed.
Print Assumptions C13_exact.

(** For strings the characterisation is an equivalence. *)
Theorem C13_string_iff : forall s v,
  permissive_u256 (JStr s) = Ok v <-> text_denotes false s (Z.of_N v) /\ v < 2 ^ 256.
Proof. exact string_iff. Qed.
Print Assumptions C13_string_iff.

(** ethnum's parser itself, signed or not: a text of the shape [[+|-]? [0b|0o|0x]? digits]
    is accepted exactly when its value fits, with that value; nothing else is accepted. *)
Theorem C13_from_str_prefixed : forall signed s v,
  from_str_prefixed signed s = Some v <-> text_denotes signed s v /\ in_range signed 256 v = true.
Proof. exact from_str_prefixed_iff. Qed.
Print Assumptions C13_from_str_prefixed.

(* ------------------------------------------------------------------ *)
(** ** Every spelling of an integer below 2^256 is accepted with that value *)

Theorem C13_complete_decimal : forall v, v < 2 ^ 256 -> permissive_u256 (JStr (decimal v)) = Ok v.
Proof. exact complete_decimal. Qed.
Print Assumptions C13_complete_decimal.

(** minimal digits, lower case ([upper = false]) or upper case ([upper = true]); "0x0" for 0 *)
Theorem C13_complete_hex : forall upper v,
  v < 2 ^ 256 -> permissive_u256 (JStr (s2l "0x" ++ hex_min upper v)) = Ok v.
Proof. exact complete_hex. Qed.
Print Assumptions C13_complete_hex.

(** 64 digits with leading zeros, either case *)
Theorem C13_complete_hex_padded : forall v,
  v < 2 ^ 256 ->
  permissive_u256 (JStr (s2l "0x" ++ hex_encode (be_fixed 32 v))) = Ok v
  /\ permissive_u256 (JStr (s2l "0x" ++ map to_upper (hex_encode (be_fixed 32 v)))) = Ok v.
Proof. exact complete_hex_fixed. Qed.
Print Assumptions C13_complete_hex_padded.

(** any non-empty hexadecimal digit string (mixed case, any number of leading zeros) *)
Theorem C13_complete_hex_digits : forall ds dv,
  ds <> [] -> Forall2 (digit_char 16) ds dv -> of_digits 16 dv < 2 ^ 256 ->
  permissive_u256 (JStr (s2l "0x" ++ ds)) = Ok (of_digits 16 dv).
Proof. exact complete_hex_digits. Qed.
Print Assumptions C13_complete_hex_digits.

(** any text that denotes [v] ([+] sign, [0b]/[0o] radix, leading zeros, ...) *)
Theorem C13_complete_string : forall s v,
  text_denotes false s (Z.of_N v) -> v < 2 ^ 256 -> permissive_u256 (JStr s) = Ok v.
Proof. exact complete_string. Qed.
Print Assumptions C13_complete_string.

Theorem C13_complete_u64 : forall n, n < 2 ^ 64 -> permissive_u256 (JU64 n) = Ok n.
Proof. exact complete_u64. Qed.
Print Assumptions C13_complete_u64.

(** a double whose exact value [m * 2^e] is the integer [v] below 2^53 *)
Theorem C13_complete_f64 : forall m e v,
  denotes_int false (JF64 m e) (Z.of_N v) -> v < 2 ^ 53 -> permissive_u256 (JF64 m e) = Ok v.
Proof. exact complete_f64. Qed.
Print Assumptions C13_complete_f64.

(** all four spellings of one integer give the same value (hence the same encoding) *)
Theorem C13_same_integer : forall v,
  v < 2 ^ 256 ->
  permissive_u256 (JStr (decimal v)) = Ok v
  /\ permissive_u256 (JStr (s2l "0x" ++ hex_min false v)) = Ok v
  /\ (v < 2 ^ 64 -> permissive_u256 (JU64 v) = Ok v)
  /\ (forall m e, v < 2 ^ 53 -> denotes_int false (JF64 m e) (Z.of_N v) ->
        permissive_u256 (JF64 m e) = Ok v).
Proof. exact same_integer. Qed.
Print Assumptions C13_same_integer.

(* ------------------------------------------------------------------ *)
(** ** Rejections: an ordinary error, never a wrapped / truncated / rounded / default value *)

Theorem C13_reject_negative_int : forall z, (z < 0)%Z -> permissive_u256 (JI64 z) = Err.
Proof. exact reject_negative_int. Qed.
Print Assumptions C13_reject_negative_int.

Theorem C13_reject_negative_float : forall m e, (m < 0)%Z -> permissive_u256 (JF64 m e) = Err.
Proof. exact reject_negative_float. Qed.
Print Assumptions C13_reject_negative_float.

Theorem C13_reject_negative_string : forall t, permissive_u256 (JStr (s2l "-" ++ t)) = Err.
Proof. exact reject_negative_string. Qed.
Print Assumptions C13_reject_negative_string.

(** a double that is not an integer *)
Theorem C13_reject_fraction : forall m e,
  (forall i, ~ denotes_int false (JF64 m e) i) -> permissive_u256 (JF64 m e) = Err.
Proof. exact reject_fraction. Qed.
Print Assumptions C13_reject_fraction.

(** an integral double at or above 2^53 (beyond exactness) *)
Theorem C13_reject_big_float : forall m e i,
  denotes_int false (JF64 m e) i -> (2 ^ 53 <= i)%Z -> permissive_u256 (JF64 m e) = Err.
Proof. exact reject_big_float. Qed.
Print Assumptions C13_reject_big_float.

Theorem C13_reject_too_big : forall s v,
  text_denotes false s v -> (2 ^ 256 <= v)%Z -> permissive_u256 (JStr s) = Err.
Proof. exact reject_too_big. Qed.
Print Assumptions C13_reject_too_big.

Theorem C13_reject_too_big_decimal : forall v,
  2 ^ 256 <= v -> permissive_u256 (JStr (decimal v)) = Err.
Proof. exact reject_too_big_decimal. Qed.
Print Assumptions C13_reject_too_big_decimal.

Theorem C13_reject_too_big_hex : forall upper v,
  2 ^ 256 <= v -> permissive_u256 (JStr (s2l "0x" ++ hex_min upper v)) = Err.
Proof. exact reject_too_big_hex. Qed.
Print Assumptions C13_reject_too_big_hex.

Theorem C13_reject_too_big_hex_digits : forall ds dv,
  ds <> [] -> Forall2 (digit_char 16) ds dv -> 2 ^ 256 <= of_digits 16 dv ->
  permissive_u256 (JStr (s2l "0x" ++ ds)) = Err.
Proof. exact reject_too_big_hex_digits. Qed.
Print Assumptions C13_reject_too_big_hex_digits.

Theorem C13_reject_empty :
  permissive_u256 (JStr []) = Err /\ permissive_u256 (JStr (s2l "0x")) = Err.
Proof. exact reject_empty. Qed.
Print Assumptions C13_reject_empty.

(** a string that is not [+? [0b|0o|0x]? digit+] at all *)
Theorem C13_reject_not_number : forall s,
  (forall v, ~ text_denotes false s v) -> permissive_u256 (JStr s) = Err.
Proof. exact reject_not_number. Qed.
Print Assumptions C13_reject_not_number.

(** any character outside [0-9a-zA-Z], anywhere (except one leading [+]): white space, [_],
    [.], [-], non-ASCII ... *)
Theorem C13_reject_bad_char : forall a c b,
  ~ alnum c -> (a = [] -> c <> 43) -> permissive_u256 (JStr (a ++ c :: b)) = Err.
Proof. exact reject_bad_char. Qed.
Print Assumptions C13_reject_bad_char.

(** a character that is not a digit of the radix selected by the prefix *)
Theorem C13_reject_bad_digit : forall sign sg pfx radix a c b,
  sign_of false sign sg -> prefix_radix pfx radix -> pfx <> [] ->
  (forall d, ~ digit_char radix c d) ->
  permissive_u256 (JStr (sign ++ pfx ++ a ++ c :: b)) = Err.
Proof. exact reject_bad_digit_prefixed. Qed.
Print Assumptions C13_reject_bad_digit.

(** ... and without a radix prefix: a character that is not a decimal digit *)
Theorem C13_reject_bad_decimal_digit : forall sign sg a c b,
  sign_of false sign sg ->
  (forall r, a ++ c :: b <> 43 :: r) -> no_radix_prefix (a ++ c :: b) ->
  (forall d, ~ digit_char 10 c d) ->
  permissive_u256 (JStr (sign ++ a ++ c :: b)) = Err.
Proof. exact reject_bad_digit_decimal. Qed.
Print Assumptions C13_reject_bad_decimal_digit.

Theorem C13_reject_kind :
  permissive_u256 JNull = Err /\ (forall b, permissive_u256 (JBool b) = Err)
  /\ (forall l, permissive_u256 (JArr l) = Err) /\ (forall kvs, permissive_u256 (JObj kvs) = Err).
Proof. exact reject_kind. Qed.
Print Assumptions C13_reject_kind.

(* ------------------------------------------------------------------ *)
(** ** Byte fields *)

Theorem C13_bytes : forall j b,
  bytes_field j = Ok b <-> exists s, j = JStr (s2l "0x" ++ s) /\ hex_decode (utf8 s) = Some b.
Proof. exact bytes_iff. Qed.
Print Assumptions C13_bytes.

(** accepted => the digits after [0x] are, up to case, the two hex digits of each byte *)
Theorem C13_bytes_sound : forall j b,
  bytes_field j = Ok b ->
  bytes_ok b /\ exists s, j = JStr (s2l "0x" ++ s) /\ map to_lower s = hex_encode b
                          /\ length s = (2 * length b)%nat.
Proof. exact bytes_sound. Qed.
Print Assumptions C13_bytes_sound.

Theorem C13_bytes_complete : forall b s,
  bytes_ok b -> map to_lower s = hex_encode b -> bytes_field (JStr (s2l "0x" ++ s)) = Ok b.
Proof. exact bytes_complete. Qed.
Print Assumptions C13_bytes_complete.

Theorem C13_bytes_reject_no_prefix : forall s,
  strip_prefix (s2l "0x") s = None -> bytes_field (JStr s) = Err.
Proof. exact bytes_reject_no_prefix. Qed.
Print Assumptions C13_bytes_reject_no_prefix.

Theorem C13_bytes_reject_odd : forall s,
  Nat.odd (length (utf8 s)) = true -> bytes_field (JStr (s2l "0x" ++ s)) = Err.
Proof. exact bytes_reject_odd. Qed.
Print Assumptions C13_bytes_reject_odd.

Theorem C13_bytes_reject_nonhex : forall s,
  forallb is_hex (utf8 s) = false -> bytes_field (JStr (s2l "0x" ++ s)) = Err.
Proof. exact bytes_reject_nonhex. Qed.
Print Assumptions C13_bytes_reject_nonhex.

Theorem C13_bytes_reject_kind : forall j, (forall s, j <> JStr s) -> bytes_field j = Err.
Proof. exact bytes_reject_kind. Qed.
Print Assumptions C13_bytes_reject_kind.

(** fixed-size arrays (storage keys: [k = 32]) are byte fields of exactly [k] bytes *)
Theorem C13_bytearray_len : forall k j b,
  bytearray_field k j = Ok b -> length b = k /\ bytes_field j = Ok b.
Proof. exact bytearray_sound. Qed.
Print Assumptions C13_bytearray_len.

Theorem C13_bytearray_complete : forall k j b,
  bytes_field j = Ok b -> length b = k -> bytearray_field k j = Ok b.
Proof. exact bytearray_complete. Qed.
Print Assumptions C13_bytearray_complete.

Theorem C13_bytearray_reject_len : forall k j b,
  bytes_field j = Ok b -> length b <> k -> bytearray_field k j = Err.
Proof. exact bytearray_reject_len. Qed.
Print Assumptions C13_bytearray_reject_len.

(** addresses: exactly 20 bytes = 40 hex digits of either case after [0x] (ethaddr also
    tolerates a doubled prefix [0x0x]) *)
Theorem C13_address : forall j b,
  address_field j = Ok b ->
  length b = 20%nat /\ bytes_ok b /\
  exists s, (j = JStr (s2l "0x" ++ s) \/ j = JStr (s2l "0x0x" ++ s))
            /\ length s = 40%nat /\ map to_lower s = hex_encode b.
Proof. exact address_sound. Qed.
Print Assumptions C13_address.

Theorem C13_address_complete : forall b s,
  bytes_ok b -> length b = 20%nat -> map to_lower s = hex_encode b ->
  address_field (JStr (s2l "0x" ++ s)) = Ok b /\ address_field (JStr (s2l "0x0x" ++ s)) = Ok b.
Proof. exact address_complete. Qed.
Print Assumptions C13_address_complete.

Theorem C13_address_reject_no_prefix : forall s,
  strip_prefix (s2l "0x") s = None -> address_field (JStr s) = Err.
Proof. exact address_reject_no_prefix. Qed.
Print Assumptions C13_address_reject_no_prefix.

Theorem C13_address_reject_kind : forall j, (forall s, j <> JStr s) -> address_field j = Err.
Proof. exact address_reject_kind. Qed.
Print Assumptions C13_address_reject_kind.

Theorem C13_opt_address : forall j b,
  opt_address_field j = Ok (Some b) -> exists j', j = Some j' /\ address_field j' = Ok b.
Proof. exact opt_address_sound. Qed.
Print Assumptions C13_opt_address.

(* ------------------------------------------------------------------ *)
(** ** Optional numbers, chain id *)

Theorem C13_numopt_none : numopt None = Ok None /\ numopt (Some JNull) = Ok None.
Proof. exact numopt_none. Qed.
Print Assumptions C13_numopt_none.

Theorem C13_numopt_some : forall j c,
  numopt j = Ok (Some c) -> exists j', j = Some j' /\ permissive_u256 j' = Ok c.
Proof. exact numopt_some. Qed.
Print Assumptions C13_numopt_some.

(** an accepted chain id is an accepted number for which [35 + 2 * chain_id + 1] fits 256 bits *)
Theorem C13_chainid_bound : forall j c,
  chainid_field j = Ok (Some c) -> numopt j = Ok (Some c) /\ 2 * c + 36 < 2 ^ 256.
Proof. exact chainid_sound. Qed.
Print Assumptions C13_chainid_bound.

Theorem C13_chainid_complete : forall j c,
  numopt j = Ok (Some c) -> 2 * c + 36 < 2 ^ 256 -> chainid_field j = Ok (Some c).
Proof. exact chainid_complete. Qed.
Print Assumptions C13_chainid_complete.

Theorem C13_chainid_reject : forall j c,
  numopt j = Ok (Some c) -> 2 ^ 256 <= 2 * c + 36 -> chainid_field j = Err.
Proof. exact chainid_reject. Qed.
Print Assumptions C13_chainid_reject.

(* ------------------------------------------------------------------ *)
(** ** No panic anywhere *)

Theorem C13_total : forall j oj k,
  graceful (permissive_u256 j) /\ graceful (ethnum_permissive_i256 j) /\ graceful (numopt oj)
  /\ graceful (chainid_field oj) /\ graceful (bytes_field j) /\ graceful (bytearray_field k j)
  /\ graceful (address_field j) /\ graceful (opt_address_field oj).
Proof. exact total. Qed.
Print Assumptions C13_total.

(* ------------------------------------------------------------------ *)
(** ** Side results *)

(** What the hdwallet wrapper protects against: ethnum alone wraps a negative JSON integer. *)
Theorem C13_ethnum_wraps_negative : forall z,
  (- 2 ^ 63 <= z < 0)%Z -> ethnum_permissive_u256 (JI64 z) = Ok (Z.to_N (2 ^ 256 + z)).
Proof. exact ethnum_wraps_negative. Qed.
Print Assumptions C13_ethnum_wraps_negative.

(** the signed target ([I256]) is exact too *)
Theorem C13_i256_exact : forall j v,
  num_token_ok j -> ethnum_permissive_i256 j = Ok v ->
  denotes_int true j v /\ (- 2 ^ 255 <= v < 2 ^ 255)%Z.
Proof. exact i256_exact. Qed.
Print Assumptions C13_i256_exact.

(* ------------------------------------------------------------------ *)
(** ** Examples (non-vacuity) *)

Example C13_ex_accept :
  permissive_str "0xff" = Ok 255 /\ permissive_str "0xFF" = Ok 255 /\ permissive_str "255" = Ok 255 /\ permissive_str "0b101" = Ok 5
  /\ permissive_str "0o17" = Ok 15 /\ permissive_str "+5" = Ok 5 /\ permissive_str "+0x10" = Ok 16 /\ permissive_str "00012" = Ok 12
  /\ permissive_u256 (JU64 255) = Ok 255
  /\ permissive_u256 (JF64 104453125 7) = Ok 13370000000     (* 13.37e9 *)
  /\ permissive_u256 (JF64 0 0) = Ok 0                         (* 0.0 and -0.0 *)
  /\ permissive_u256 (JStr (decimal (2 ^ 256 - 1))) = Ok (2 ^ 256 - 1).
Proof. vm_compute. repeat split; reflexivity. Qed.

Example C13_ex_reject :
  permissive_str "-1" = Err /\ permissive_str " 5" = Err /\ permissive_str "1_000" = Err /\ permissive_str "0X10" = Err /\ permissive_str "" = Err /\ permissive_str "0x" = Err
  /\ permissive_str "0x+1" = Err /\ permissive_str "+" = Err /\ permissive_str "0b2" = Err /\ permissive_str "1e3" = Err /\ permissive_str "1.0" = Err
  /\ permissive_u256 (JStr (decimal (2 ^ 256))) = Err
  /\ permissive_u256 (JI64 (-1)) = Err
  /\ permissive_u256 (JF64 (-1) 0) = Err                       (* -1.0 *)
  /\ permissive_u256 (JF64 3 (-1)) = Err                       (* 1.5 *)
  /\ permissive_u256 (JF64 1 53) = Err                         (* 2^53 as a float *)
  /\ permissive_u256 (JF64 1 64) = Err                         (* the integer literal 2^64 *)
  /\ permissive_u256 JNull = Err /\ permissive_u256 (JBool true) = Err.
Proof. vm_compute. repeat split; reflexivity. Qed.

Example C13_ex_bytes :
  bytes_field (JStr (s2l "0xabCd")) = Ok [171; 205] /\ bytes_field (JStr (s2l "0x")) = Ok []
  /\ bytes_field (JStr (s2l "0xabc")) = Err /\ bytes_field (JStr (s2l "abcd")) = Err
  /\ bytes_field (JStr (s2l "0xzz")) = Err
  /\ bytearray_field 2 (JStr (s2l "0xabCd")) = Ok [171; 205]
  /\ bytearray_field 3 (JStr (s2l "0xabCd")) = Err
  /\ address_field (JStr (s2l "0xdeadbeefdeadbeefdeadbeefdeadbeefdeadbeeF"))
     = Ok [222; 173; 190; 239; 222; 173; 190; 239; 222; 173; 190; 239; 222; 173; 190; 239; 222; 173; 190; 239]
  /\ address_field (JStr (s2l "0xdeadbeefdeadbeefdeadbeefdeadbeefdeadbe")) = Err
  /\ address_field (JStr (s2l "0xdeadbeefdeadbeefdeadbeefdeadbeefdeadbeefde")) = Err
  /\ address_field (JStr (s2l "deadbeefdeadbeefdeadbeefdeadbeefdeadbeef")) = Err
  /\ chainid_field (Some (JStr (s2l "0x7fffffffffffffffffffffffffffffffffffffffffffffffffffffffffffffed")))
     = Ok (Some ((2 ^ 256 - 37) / 2))
  /\ chainid_field (Some (JStr (s2l "0x7fffffffffffffffffffffffffffffffffffffffffffffffffffffffffffffee"))) = Err
  /\ chainid_field None = Ok None.
Proof. vm_compute. repeat split; reflexivity. Qed.
