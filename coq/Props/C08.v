(** C08 (type half) — the [encodeType] string computed by [Types::encode_type] is the one EIP-712
    defines: the primary type first, then all transitively referenced struct types exactly once
    each in name order, the primary type never repeated (also for self- and mutually recursive
    types); an error exactly when a type that matters is undefined; never a panic, and the
    work-list terminates within the fuel formula for every type graph.
    Statements only; every proof is one [exact] of a lemma from [Proofs/].
    (The value half — [encode_value], [struct_hash], the digests — is delivered separately.) *)
From Coq Require Import String.
From Coq Require Import List NArith Bool Sorted Permutation.
From HDW Require Import Lib.Outcome Lib.Bytes Prim.Keccak.
From HDW Require Import Model.Eip712Kind Model.Domain Model.Eip712Types Spec.Eip712TypeSpec.
From HDW Require Import Proofs.Eip712TypeProofs Proofs.Utf8Order.
Import ListNotations.
Open Scope N_scope.

(* ================================================================== *)
(** * The main theorem *)

(** If the primary type and every type it transitively references are defined, the result is
    the specified string for the (unique, see [C08_deps_unique]) list [l] of dependencies.
    No distinctness hypothesis on the keys of [tys] is needed: model and specification both
    read the table through [types_get]. *)
Theorem C08_encode_type : forall tys P,
  all_defined tys P ->
  exists l, deps_spec tys P l /\ encode_type tys P = Ok (encode_type_spec tys P l).
Proof. exact encode_type_correct. Qed.
Print Assumptions C08_encode_type.

(** [deps_spec] determines the list: two strictly sorted lists with the same elements are equal. *)
Theorem C08_deps_unique : forall tys P l1 l2,
  deps_spec tys P l1 -> deps_spec tys P l2 -> l1 = l2.
Proof. exact deps_unique. Qed.
Print Assumptions C08_deps_unique.

(** Conversely every successful result is the specified string, and then all types are defined. *)
Theorem C08_encode_type_sound : forall tys P s,
  encode_type tys P = Ok s ->
  all_defined tys P /\ exists l, deps_spec tys P l /\ s = encode_type_spec tys P l.
Proof. exact encode_type_sound. Qed.
Print Assumptions C08_encode_type_sound.

(** An undefined primary or (transitively) referenced type gives an ordinary error ... *)
Theorem C08_encode_type_undefined : forall tys P,
  (exists T, (T = P \/ reachp tys P T) /\ types_get T tys = None) -> encode_type tys P = Err.
Proof. exact encode_type_undefined. Qed.
Print Assumptions C08_encode_type_undefined.

(** ... and nothing else does. *)
Theorem C08_encode_type_err_iff : forall tys P,
  encode_type tys P = Err <->
  exists T, (T = P \/ reachp tys P T) /\ types_get T tys = None.
Proof. exact encode_type_err_iff. Qed.
Print Assumptions C08_encode_type_err_iff.

(** The primary type is not repeated; every dependency occurs exactly once; every reachable
    type is listed. *)
Theorem C08_primary_once : forall tys P l, deps_spec tys P l -> ~ In P l.
Proof. exact deps_primary_once. Qed.
Print Assumptions C08_primary_once.

Theorem C08_each_once : forall tys P l, deps_spec tys P l -> NoDup l.
Proof. exact deps_each_once. Qed.
Print Assumptions C08_each_once.

Theorem C08_deps_complete : forall tys P l T,
  deps_spec tys P l -> reachp tys P T -> T = P \/ In T l.
Proof. exact deps_complete. Qed.
Print Assumptions C08_deps_complete.

(** Total: a result or an ordinary error for every type table and primary type, in particular
    never [OutOfFuel]: the fuel [1 + |refs P| + sum_T |refs T|] suffices for every type graph,
    including self- and mutually recursive ones (this is the termination argument). *)
Theorem C08_encode_type_total : forall tys P, graceful (encode_type tys P).
Proof. exact encode_type_total. Qed.
Print Assumptions C08_encode_type_total.

Theorem C08_loop_fuel_enough : forall tys P ms,
  encode_type_loop (encode_type_fuel tys ms) tys P (rev (struct_references ms)) [] <> OutOfFuel.
Proof. exact encode_type_loop_fuel_enough. Qed.
Print Assumptions C08_loop_fuel_enough.

(** [type_hash] is Keccak-256 of the UTF-8 bytes of the specified string, and total.
    ([Print Assumptions] lists the [Uint63] kernel primitives used by [keccak256].) *)
Theorem C08_type_hash : forall tys P,
  all_defined tys P ->
  exists l, deps_spec tys P l /\
            type_hash tys P = Ok (keccak256 (utf8 (encode_type_spec tys P l))).
Proof. exact type_hash_correct. Qed.
Print Assumptions C08_type_hash.

Theorem C08_type_hash_total : forall tys P, graceful (type_hash tys P).
Proof. exact type_hash_total. Qed.
Print Assumptions C08_type_hash_total.

(** The list of dependencies does not depend on the order of the members inside the types
    (only the per-type strings [display_typedef] do). *)
Theorem C08_order_independent : forall tys1 tys2 P l,
  (forall T, Permutation (def tys1 T) (def tys2 T)) ->
  deps_spec tys1 P l -> deps_spec tys2 P l.
Proof. exact deps_perm. Qed.
Print Assumptions C08_order_independent.

(* ================================================================== *)
(** * The model's key order is Rust's [str] order *)

(** The executable order is the lexicographic order on code points ... *)
Theorem C08_text_ltb_spec : forall a b, text_ltb a b = true <-> text_lt a b.
Proof. exact text_ltb_spec. Qed.
Print Assumptions C08_text_ltb_spec.

(** ... which, for Unicode scalar values (below 0x110000), is the lexicographic order of the
    UTF-8 bytes, i.e. [Ord for str], the key order of [BTreeMap<&str, _>]. *)
Theorem C08_text_order_is_byte_order : forall a b,
  Forall (fun c => c < 0x110000) a -> Forall (fun c => c < 0x110000) b ->
  (text_lt a b <-> bytes_lt (utf8 a) (utf8 b)).
Proof. exact text_lt_utf8. Qed.
Print Assumptions C08_text_order_is_byte_order.

(* ================================================================== *)
(** * Regression examples (the witnesses of the defect in the pinned code, D12) *)

Local Open Scope string_scope.

Definition mk_types (tys : list (string * list (string * string))) : typesmap :=
  map (fun '(n, ms) =>
         (s2l n, map (fun '(mn, mt) => {| m_name := s2l mn; m_kind := kind_of_string (s2l mt) |}) ms))
      tys.

Definition person := ("Person", [("name", "string"); ("wallet", "address")]).
Definition asset := ("Asset", [("token", "address"); ("amount", "uint256")]).

(** the repeated dependency listed last: [Asset] must not be dropped *)
Example C08_ex_asset_first :
  encode_type
    (mk_types [("Transaction", [("tx", "Asset"); ("from", "Person"); ("to", "Person")]); person; asset])
    (s2l "Transaction")
  = Ok (s2l ("Transaction(Asset tx,Person from,Person to)"
             ++ "Asset(address token,uint256 amount)Person(string name,address wallet)")).
Proof. vm_compute. reflexivity. Qed.

(** the repeated dependency listed first (the order of the repository's own fixture) *)
Example C08_ex_asset_last :
  encode_type
    (mk_types [("Transaction", [("from", "Person"); ("to", "Person"); ("tx", "Asset")]); person; asset])
    (s2l "Transaction")
  = Ok (s2l ("Transaction(Person from,Person to,Asset tx)"
             ++ "Asset(address token,uint256 amount)Person(string name,address wallet)")).
Proof. vm_compute. reflexivity. Qed.

(** a self-referential type is not repeated *)
Example C08_ex_self :
  encode_type (mk_types [("Foo", [("children", "Foo[]")])]) (s2l "Foo")
  = Ok (s2l "Foo(Foo[] children)").
Proof. vm_compute. reflexivity. Qed.

(** mutual recursion, from either end *)
Example C08_ex_mutual_A :
  encode_type (mk_types [("A", [("b", "B[]"); ("n", "uint8")]); ("B", [("a", "A[2][]")])]) (s2l "A")
  = Ok (s2l "A(B[] b,uint8 n)B(A[2][] a)").
Proof. vm_compute. reflexivity. Qed.

Example C08_ex_mutual_B :
  encode_type (mk_types [("A", [("b", "B[]"); ("n", "uint8")]); ("B", [("a", "A[2][]")])]) (s2l "B")
  = Ok (s2l "B(A[2][] a)A(B[] b,uint8 n)").
Proof. vm_compute. reflexivity. Qed.

(** the EIP-712 reference example *)
Example C08_ex_mail :
  encode_type
    (mk_types [("Mail", [("from", "Person"); ("to", "Person"); ("contents", "string")]); person])
    (s2l "Mail")
  = Ok (s2l "Mail(Person from,Person to,string contents)Person(string name,address wallet)").
Proof. vm_compute. reflexivity. Qed.

(** a diamond with a cycle back to the primary type, dependencies in name order not in
    discovery order; an empty struct *)
Example C08_ex_diamond :
  encode_type
    (mk_types [("Top", [("l", "Zed"); ("r", "Mid[3]")]); ("Zed", [("b", "Bot")]);
               ("Mid", [("b", "Bot[]"); ("t", "Top[]")]); ("Bot", [])])
    (s2l "Top")
  = Ok (s2l "Top(Zed l,Mid[3] r)Bot()Mid(Bot[] b,Top[] t)Zed(Bot b)").
Proof. vm_compute. reflexivity. Qed.

(** an undefined dependency is an error; so is an undefined primary type *)
Example C08_ex_undefined :
  encode_type (mk_types [("Mail", [("from", "Person")])]) (s2l "Mail") = Err /\
  encode_type (mk_types [person]) (s2l "Mail") = Err.
Proof. vm_compute. split; reflexivity. Qed.
