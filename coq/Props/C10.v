(** C10 — Personal-message digest is the EIP-191 prefixed Keccak-256.
    Statements only; every proof is one [exact] of a lemma from [Proofs/MessageProofs.v].
    Keccak-256 is a parameter of every statement (the model never looks inside it);
    [Run/DC10.v] instantiates it with [Prim.Keccak.keccak256]. *)
From Coq Require Import String.
From Coq Require Import List NArith Bool PeanoNat.
From HDW Require Import Lib.Radix Lib.Bytes Lib.Decimal Model.Message Proofs.MessageProofs.
Import ListNotations.
Open Scope N_scope.

(** The digest of every byte list [m] (no well-formedness or UTF-8 condition) is Keccak-256 of
    0x19, "Ethereum Signed Message:", "\n", the decimal length of [m], then [m]. *)
Theorem C10_digest : forall (keccak : bytes -> bytes) (m : bytes),
  digest keccak m
  = keccak ([25] ++ s2l "Ethereum Signed Message:" ++ [10] ++ decimal (N.of_nat (length m)) ++ m).
Proof. exact digest_eq. Qed.
Print Assumptions C10_digest.

(** The constant part, byte by byte; with the leading 0x19 it is 26 bytes long. *)
Theorem C10_prefix_bytes :
  s2l "Ethereum Signed Message:" ++ [10]
  = [69; 116; 104; 101; 114; 101; 117; 109; 32; 83; 105; 103; 110; 101; 100; 32;
     77; 101; 115; 115; 97; 103; 101; 58; 10]
  /\ length ([25] ++ s2l "Ethereum Signed Message:" ++ [10]) = 26%nat.
Proof. exact prefix_bytes. Qed.
Print Assumptions C10_prefix_bytes.

(** The length field: ASCII digits only, no leading zero, "0" for the empty message, and it
    reads back as the number (as a digit string and through Rust's integer parser). *)
Theorem C10_decimal_canonical : forall n,
  all_digits (decimal n)
  /\ (n <> 0 -> exists c r, decimal n = c :: r /\ c <> 48)
  /\ (n = 0 -> decimal n = [48])
  /\ of_digits 10 (map (fun c => c - 48) (decimal n)) = n
  /\ (forall max, n <= max -> parse_uint max (decimal n) = Some n).
Proof. exact decimal_canonical_full. Qed.
Print Assumptions C10_decimal_canonical.

(** A length with exactly k+1 decimal digits is printed with k+1 characters, for every k. *)
Theorem C10_decimal_length : forall n k,
  10 ^ N.of_nat k <= n < 10 ^ N.of_nat (S k) -> length (decimal n) = S k.
Proof. exact decimal_length. Qed.
Print Assumptions C10_decimal_length.

(** ... spelled out for 1 to 7 digits. *)
Theorem C10_decimal_length_table : forall n,
  (n < 10 -> length (decimal n) = 1%nat)
  /\ (10 <= n < 100 -> length (decimal n) = 2%nat)
  /\ (100 <= n < 1000 -> length (decimal n) = 3%nat)
  /\ (1000 <= n < 10000 -> length (decimal n) = 4%nat)
  /\ (10000 <= n < 100000 -> length (decimal n) = 5%nat)
  /\ (100000 <= n < 1000000 -> length (decimal n) = 6%nat)
  /\ (1000000 <= n < 10000000 -> length (decimal n) = 7%nat).
Proof. exact decimal_length_table. Qed.
Print Assumptions C10_decimal_length_table.

(** Total length of the hashed buffer. *)
Theorem C10_preimage_length : forall m,
  length (preimage m) = (26 + length (decimal (N.of_nat (length m))) + length m)%nat.
Proof. exact preimage_length. Qed.
Print Assumptions C10_preimage_length.

(** The framing is unambiguous: different messages are hashed from different buffers. *)
Theorem C10_preimage_injective : forall m1 m2, preimage m1 = preimage m2 -> m1 = m2.
Proof. exact preimage_injective. Qed.
Print Assumptions C10_preimage_injective.

(** Hence two different messages with the same digest exhibit a Keccak collision. *)
Theorem C10_digest_collision : forall (keccak : bytes -> bytes) m1 m2,
  digest keccak m1 = digest keccak m2 ->
  m1 = m2 \/ (preimage m1 <> preimage m2 /\ keccak (preimage m1) = keccak (preimage m2)).
Proof. exact digest_collision. Qed.
Print Assumptions C10_digest_collision.

(** Non-vacuity: the crate's own test vector, the empty message, and a non-UTF-8 message. *)
Example C10_example_hello : forall keccak,
  digest keccak (s2l "hello world!") = keccak ([25] ++ s2l "Ethereum Signed Message:" ++ [10] ++ s2l "12hello world!").
Proof. reflexivity. Qed.
Example C10_example_empty : forall keccak,
  digest keccak [] = keccak ([25] ++ s2l "Ethereum Signed Message:" ++ [10] ++ s2l "0").
Proof. reflexivity. Qed.
Example C10_example_binary : forall keccak,
  digest keccak [255; 0; 128] = keccak ([25] ++ s2l "Ethereum Signed Message:" ++ [10] ++ s2l "3" ++ [255; 0; 128]).
Proof. reflexivity. Qed.
