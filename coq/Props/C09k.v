(** C09 (companion, with the digest equation of C08's value half) — the theorems of
    [Props/C09.v] that need only the size / totality bundles, at the primitives that
    [Run/DC08.v] evaluates: Keccak-256 of [Prim/Keccak.v], the type hash of
    [Model/Eip712Types.v], the leaf deserialisers of [Model/Num.v]
    (= the record [Proofs/Eip712ValueInst.real_prims]).  They are stated about the driver's own
    functions [c08_encode_value], [c08_struct_hash], [c08_compute_model]
    ([C09k_driver_is_real_prims]: these are the model at [real_prims], by computation).
    [prims_sized real_prims] is proved outright ([real_prims_sized], from [keccak256_length]);
    [prims_total real_prims] follows from [C08_type_hash_total] ([real_prims_total]).
    NOT instantiated: the statements of [Props/C09.v] that need [prims_ranged] / [prims_denote]
    ([C09_uint_range], [C09_uint_reject], [C09_int_range], [C09_int_reject]): those bundles are
    C13's theorems about [Model/Num.v] and hold for well-formed number tokens only.
    Statements only. *)
From Coq Require Import String.
From Coq Require Import List NArith ZArith Bool.
From HDW Require Import Lib.Outcome Lib.Bytes Prim.Keccak.
From HDW Require Import Model.Json Model.Eip712Kind Model.Domain Model.Num Model.Eip712Types Model.Eip712Values.
From HDW Require Import Spec.Eip712ValueSpec Proofs.Eip712ValueInst.
From HDW Require Import Run.DC08.
From HDW Require Props.C08 Props.C09.
Import ListNotations.
Open Scope N_scope.

(** what the driver evaluates is the model at [real_prims] *)
Theorem C09k_driver_is_real_prims :
  c08_encode_value = encode_value_p real_prims
  /\ c08_struct_hash = struct_hash_p real_prims
  /\ c08_compute_model = compute_p real_prims.
Proof. exact (conj eq_refl (conj eq_refl eq_refl)). Qed.
Print Assumptions C09k_driver_is_real_prims.

(** the two bundles, for the real primitives, with nothing assumed *)
Theorem C09k_prims_sized_total : prims_sized real_prims /\ prims_total real_prims.
Proof. exact (conj real_prims_sized (real_prims_total C08.C08_type_hash_total)). Qed.
Print Assumptions C09k_prims_sized_total.

(** no panic and no fuel exhaustion anywhere: every outcome is a result or an ordinary error *)
Theorem C09k_total :
  (forall tys k j, graceful (c08_encode_value tys k j)) /\
  (forall tys name obj, graceful (c08_struct_hash tys name obj)) /\
  (forall j, graceful (c08_compute_model j)).
Proof. exact (real_total C08.C08_type_hash_total). Qed.
Print Assumptions C09k_total.

(** the signing digest is Keccak-256 of 0x19 0x01 ‖ domain separator ‖ message hash *)
Theorem C09k_digest_eq : forall j d ds mh,
  c08_compute_model j = Ok (d, ds, mh) -> d = keccak256 ([0x19; 0x01] ++ ds ++ mh).
Proof. exact real_digest_eq. Qed.
Print Assumptions C09k_digest_eq.

(** a declared member is absent from the object *)
Theorem C09k_missing_member : forall tys name ms obj m,
  types_get name tys = Some ms -> In m ms -> obj_get (m_name m) obj = None ->
  c08_struct_hash tys name obj = Err.
Proof.
  intros tys name ms obj m.
  exact (C09.C09_missing_member real_prims tys name ms obj m real_prims_sized (real_prims_total C08.C08_type_hash_total)).
Qed.
Print Assumptions C09k_missing_member.

(** the object has a key that is not a declared member *)
Theorem C09k_extra_member : forall tys name ms obj key,
  types_get name tys = Some ms -> In key (map fst obj) -> ~ In key (map m_name ms) ->
  c08_struct_hash tys name obj = Err.
Proof.
  intros tys name ms obj key.
  exact (C09.C09_extra_member real_prims tys name ms obj key real_prims_sized (real_prims_total C08.C08_type_hash_total)).
Qed.
Print Assumptions C09k_extra_member.

(** a reference to an undefined struct type *)
Theorem C09k_undefined_struct : forall tys name,
  types_get name tys = None ->
  (forall obj, c08_struct_hash tys name obj = Err) /\
  (forall j, c08_encode_value tys (KStruct name) j = Err).
Proof. exact (C09.C09_undefined_struct real_prims). Qed.
Print Assumptions C09k_undefined_struct.

(** ... also when only the type of a member refers to it (the type hash is then an error) *)
Theorem C09k_unresolved_dependency : forall tys name,
  c08_type_hash tys name = Err ->
  (forall obj, c08_struct_hash tys name obj = Err) /\
  (forall j, c08_encode_value tys (KStruct name) j = Err).
Proof. exact (C09.C09_unresolved_dependency real_prims). Qed.
Print Assumptions C09k_unresolved_dependency.

(** a JSON value of the wrong kind *)
Theorem C09k_wrong_kind : forall tys j,
  ((forall b, j <> JBool b) -> c08_encode_value tys KBool j = Err) /\
  ((forall s, j <> JStr s) -> c08_encode_value tys KString j = Err) /\
  (forall name, (forall kvs, j <> JObj kvs) -> c08_encode_value tys (KStruct name) j = Err) /\
  (forall k s, (forall l, j <> JArr l) -> c08_encode_value tys (KArray k s) j = Err) /\
  (forall n, permissive_u256 j = Err -> c08_encode_value tys (KUint n) j = Err) /\
  (forall n, ethnum_permissive_i256 j = Err -> c08_encode_value tys (KInt n) j = Err) /\
  (forall n, bytes_field j = Err -> c08_encode_value tys (KBytes n) j = Err) /\
  (address_field j = Err -> c08_encode_value tys KAddress j = Err).
Proof. exact (C09.C09_wrong_kind real_prims). Qed.
Print Assumptions C09k_wrong_kind.

(** bytesN: exactly N bytes (N at most 32), right-padded with zeros; never truncated *)
Theorem C09k_bytesN_length : forall tys n j w,
  c08_encode_value tys (KBytes (Some n)) j = Ok w ->
  exists b, bytes_field j = Ok b /\ N.of_nat (length b) = n /\ n <= 32 /\
            w = b ++ repeat 0 (32 - N.to_nat n)%nat.
Proof. exact (C09.C09_bytesN_length real_prims). Qed.
Print Assumptions C09k_bytesN_length.

Theorem C09k_bytesN_reject : forall tys n j b,
  bytes_field j = Ok b -> N.of_nat (length b) <> n -> c08_encode_value tys (KBytes (Some n)) j = Err.
Proof. exact (C09.C09_bytesN_reject real_prims). Qed.
Print Assumptions C09k_bytesN_reject.

(** fixed-size arrays *)
Theorem C09k_fixed_array_length : forall tys k n l w,
  c08_encode_value tys (KArray k (Some n)) (JArr l) = Ok w -> N.of_nat (length l) = n.
Proof. exact (C09.C09_fixed_array_length real_prims). Qed.
Print Assumptions C09k_fixed_array_length.

Theorem C09k_fixed_array_reject : forall tys k n l,
  N.of_nat (length l) <> n -> c08_encode_value tys (KArray k (Some n)) (JArr l) = Err.
Proof. exact (C09.C09_fixed_array_reject real_prims). Qed.
Print Assumptions C09k_fixed_array_reject.

(** negative numbers (and whatever else [permissive_u256] refuses) for unsigned types *)
Theorem C09k_uint_negative : forall tys n j,
  permissive_u256 j = Err -> c08_encode_value tys (KUint n) j = Err.
Proof. exact (C09.C09_uint_negative real_prims). Qed.
Print Assumptions C09k_uint_negative.

(** the rejection propagates from any position: any element of an array ... *)
Theorem C09k_position_independent_array : forall tys k s l x,
  In x l -> c08_encode_value tys k x = Err -> c08_encode_value tys (KArray k s) (JArr l) = Err.
Proof.
  intros tys k s l x.
  exact (C09.C09_position_independent_array real_prims tys k s l x real_prims_sized (real_prims_total C08.C08_type_hash_total)).
Qed.
Print Assumptions C09k_position_independent_array.

(** ... and the value of any member of a struct, from any depth *)
Theorem C09k_position_independent_member : forall tys name ms obj m x,
  NoDup (map fst obj) -> types_get name tys = Some ms -> In m ms ->
  obj_get (m_name m) obj = Some x -> c08_encode_value tys (m_kind m) x = Err ->
  c08_struct_hash tys name obj = Err /\ c08_encode_value tys (KStruct name) (JObj obj) = Err.
Proof.
  intros tys name ms obj m x.
  exact (C09.C09_position_independent_member real_prims tys name ms obj m x real_prims_sized (real_prims_total C08.C08_type_hash_total)).
Qed.
Print Assumptions C09k_position_independent_member.

(** nothing is hashed on an error *)
Theorem C09k_nothing_hashed : forall j, c08_compute_model j = Err -> ~ exists r, c08_compute_model j = Ok r.
Proof. exact (C09.C09_nothing_hashed real_prims). Qed.
Print Assumptions C09k_nothing_hashed.
