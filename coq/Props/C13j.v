(** C13 (companion) — numbers at the level of the JSON TEXT ([Model/JsonText.v]): a plain decimal
    integer literal below 2^64 is read as exactly that integer (no floating point involved), and
    the objects of a document become maps (sorted distinct keys; the last of several equal member
    names wins) — the form in which [Model/Tx.v] and [Model/Eip712Values.v] receive them.
    Every other literal keeps its exact decimal value in the syntax tree ([NumF]); which double
    serde_json's reader makes of it is a parameter of [to_value] (known findings K1/K2).
    Statements only. *)
From Coq Require Import String.
From Coq Require Import List NArith ZArith Bool Sorted Lia Permutation.
From HDW Require Import Lib.Outcome Lib.Bytes Lib.Decimal Model.Json Model.JsonText Model.Num Spec.Eip712TypeSpec Proofs.JsonTextProofs Proofs.JsonRoundTrip Proofs.JsonObjOrder.
From HDW Require Props.C13.
Import ListNotations.
Open Scope N_scope.

Theorem C13j_integer_literal_exact : forall n rest, n < 2 ^ 64 -> ends_num rest ->
  pnum (decimal n ++ rest) = Ok (NumU n, rest).
Proof. exact pnum_decimal. Qed.
Print Assumptions C13j_integer_literal_exact.

Theorem C13j_integer_document_exact : forall n, n < 2 ^ 64 -> parse_doc (decimal n) = Ok (TNum (NumU n)).
Proof. exact parse_doc_decimal. Qed.
Print Assumptions C13j_integer_document_exact.

(** text -> number field: the literal's integer, whatever the floating-point reader does *)
Theorem C13j_integer_field_exact : forall rnd n, n < 2 ^ 64 ->
  bind (json_of_text rnd (decimal n)) permissive_u256 = Ok n.
Proof.
  intros rnd n Hn. unfold json_of_text. rewrite (parse_doc_decimal n Hn). cbn [bind to_value].
  exact (C13.C13_complete_u64 n Hn).
Qed.
Print Assumptions C13j_integer_field_exact.

Theorem C13j_object_is_map : forall rnd kvs m,
  to_value rnd (TObj kvs) = Ok (JObj m) ->
  StronglySorted text_lt (map fst m) /\
  forall k, obj_get k m = last_member (to_value rnd) k kvs None.
Proof. exact to_value_object_is_map. Qed.
Print Assumptions C13j_object_is_map.

(** the order in which the members of an object are written is irrelevant (distinct member names): every
    permutation has the same value — for transactions, typed data, domains and messages alike *)
Theorem C13j_member_order_irrelevant : forall rnd l l', Permutation l l' -> NoDup (map fst l) ->
  to_value rnd (TObj l) = to_value rnd (TObj l').
Proof. exact to_value_member_order. Qed.
Print Assumptions C13j_member_order_irrelevant.

(** print / parse round trip: every syntax tree without floating-point literals (integers in the
    u64 / negative i64 range; strings and member names any sequences of Unicode scalar values, which
    the printer writes as UTF-8 with the quote, the backslash and control characters escaped; at most
    127 levels) is read back from its compact text exactly — members in order, duplicates included,
    whatever the nesting *)
Theorem C13j_print_parse_roundtrip : forall t, simple 127 t -> parse_doc (print t) = Ok t.
Proof. exact parse_print. Qed.
Print Assumptions C13j_print_parse_roundtrip.

(** more fuel never changes what the value parser returns *)
Theorem C13j_fuel_irrelevant : forall k f d s, pv f d s <> OutOfFuel -> pv (k + f) d s = pv f d s.
Proof. exact pv_more_fuel. Qed.
Print Assumptions C13j_fuel_irrelevant.

(** the bridge from texts to the value-level theorems of C06 / C08 / C09 / C11 / C13: reading the printed
    text of a tree and then applying any reader [f] is applying [f] to the tree's value *)
Theorem C13j_text_pipeline : forall {A} rnd t (f : json -> outcome A), simple 127 t ->
  bind (json_of_text rnd (print t)) f = bind (to_value rnd t) f.
Proof. intros A rnd t f H. unfold json_of_text. rewrite (parse_print t H). reflexivity. Qed.
Print Assumptions C13j_text_pipeline.

(** a negative integer literal in a number field is refused, from the text on *)
Theorem C13j_negative_literal_refused : forall rnd z, (- 2 ^ 63 <= z <= -1)%Z ->
  bind (json_of_text rnd (45 :: decimal (Z.to_N (- z)))) permissive_u256 = Err.
Proof.
  intros rnd z Hz. change (45 :: decimal (Z.to_N (- z))) with (print (TNum (NumI z))).
  rewrite (C13j_text_pipeline rnd (TNum (NumI z)) permissive_u256 Hz). cbn [to_value bind].
  apply C13.C13_reject_negative_int. lia.
Qed.
Print Assumptions C13j_negative_literal_refused.

(** white space in front of the document changes nothing (and, with the round trip, neither does the
    amount of fuel: [parse_doc] gives more fuel to the longer text) *)
Theorem C13j_leading_white_space_irrelevant : forall w s, all_ws w = true -> parse_doc (w ++ s) = parse_doc s.
Proof. exact parse_doc_leading_ws. Qed.
Print Assumptions C13j_leading_white_space_irrelevant.

(** non-vacuity of the round trip: a transaction-shaped tree meets its hypothesis *)
Example C13j_roundtrip_witness :
  let t := TObj [(s2l "nonce", TNum (NumU 18446744073709551615)); (s2l "to", TStr [34; 92; 10; 233; 8364; 128512]);
                 (s2l "accessList", TArr [TObj [(s2l "address", TStr (s2l "0x11")); (s2l "storageKeys", TArr [])]; TNull]);
                 (s2l "v", TNum (NumI (-9223372036854775808))); (s2l "nonce", TBool true)] in
  simple 127 t /\ print t = s2l "{""nonce"":18446744073709551615,""to"":""\""\\\u000aé€😀"",""accessList"":[{""address"":""0x11"",""storageKeys"":[]},null],""v"":-9223372036854775808,""nonce"":true}".
Proof.
  split; [|vm_compute; reflexivity].
  cbn [simple fst snd]. unfold plain.
  repeat match goal with
  | |- _ /\ _ => split
  | |- True => exact I
  | |- Forall _ _ => repeat constructor
  end; try reflexivity; try (vm_compute; reflexivity); try (cbn; lia).
Qed.
Print Assumptions C13j_roundtrip_witness.

(** non-vacuity: a document with a duplicate member, a negative integer, a float and an escape *)
Example C13j_witness :
  parse_doc (s2l "{""b"":1,""a"":[-2,2.50e1,""é""],""b"":18446744073709551615} ")
  = Ok (TObj [(s2l "b", TNum (NumU 1));
              (s2l "a", TArr [TNum (NumI (-2)); TNum (NumF false 250 (-1)); TStr [233]]);
              (s2l "b", TNum (NumU 18446744073709551615))])
  /\ to_value no_floats (TObj [(s2l "b", TNum (NumU 1)); (s2l "a", TNull); (s2l "b", TNum (NumU 2))])
     = Ok (JObj [(s2l "a", JNull); (s2l "b", JU64 2)]).
Proof. vm_compute. split; reflexivity. Qed.
Print Assumptions C13j_witness.
