(** C13 (companion) — numbers at the level of the JSON TEXT ([Model/JsonText.v]): a plain decimal
    integer literal below 2^64 is read as exactly that integer (no floating point involved), and
    the objects of a document become maps (sorted distinct keys; the last of several equal member
    names wins) — the form in which [Model/Tx.v] and [Model/Eip712Values.v] receive them.
    Every other literal keeps its exact decimal value in the syntax tree ([NumF]); which double
    serde_json's reader makes of it is a parameter of [to_value] (known findings K1/K2).
    Statements only. *)
From Coq Require Import String.
From Coq Require Import List NArith ZArith Bool Sorted.
From HDW Require Import Lib.Outcome Lib.Bytes Lib.Decimal Model.Json Model.JsonText Model.Num Spec.Eip712TypeSpec Proofs.JsonTextProofs.
From HDW Require Props.C13.
Import ListNotations.
Open Scope N_scope.

Theorem C13j_integer_literal_exact : forall n rest, n < 2 ^ 64 -> ends_num rest ->
  pnum (decimal n ++ rest) = Ok (NumU n, rest).
Proof. exact pnum_decimal. Qed.
Print Assumptions C13j_integer_literal_exact.

Theorem C13j_integer_document_exact : forall n, n < 2 ^ 64 -> parse_doc (decimal n) = Ok (TNum (NumU n)).
Proof. exact parse_doc_decimal. Qed.
Print Assumptions C13j_integer_document_exact.

(** text -> number field: the literal's integer, whatever the floating-point reader does *)
Theorem C13j_integer_field_exact : forall rnd n, n < 2 ^ 64 ->
  bind (json_of_text rnd (decimal n)) permissive_u256 = Ok n.
Proof.
  intros rnd n Hn. unfold json_of_text. rewrite (parse_doc_decimal n Hn). cbn [bind to_value].
  exact (C13.C13_complete_u64 n Hn).
Qed.
Print Assumptions C13j_integer_field_exact.

Theorem C13j_object_is_map : forall rnd kvs m,
  to_value rnd (TObj kvs) = Ok (JObj m) ->
  StronglySorted text_lt (map fst m) /\
  forall k, obj_get k m = last_member (to_value rnd) k kvs None.
Proof. exact to_value_object_is_map. Qed.
Print Assumptions C13j_object_is_map.

(** non-vacuity: a document with a duplicate member, a negative integer, a float and an escape *)
Example C13j_witness :
  parse_doc (s2l "{""b"":1,""a"":[-2,2.50e1,""é""],""b"":18446744073709551615} ")
  = Ok (TObj [(s2l "b", TNum (NumU 1));
              (s2l "a", TArr [TNum (NumI (-2)); TNum (NumF false 250 (-1)); TStr [233]]);
              (s2l "b", TNum (NumU 18446744073709551615))])
  /\ to_value no_floats (TObj [(s2l "b", TNum (NumU 1)); (s2l "a", TNull); (s2l "b", TNum (NumU 2))])
     = Ok (JObj [(s2l "a", JNull); (s2l "b", JU64 2)]).
Proof. vm_compute. split; reflexivity. Qed.
Print Assumptions C13j_witness.
