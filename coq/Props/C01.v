(** C01 — Mnemonic phrases and entropy are in exact BIP-39 correspondence.
    Statements only; every proof is one [exact] of a lemma from [Proofs/].

    SHA-256 is an opaque primitive: every theorem quantifies over an arbitrary function
    [sha256 : bytes -> bytes] that returns 32 bytes ([Prim/Sha256.v] is one such function:
    [Sha256.sha256_length], [Sha256.sha256_ok]).

    Model: [Model/Bip39.v] ([from_phrase], [to_phrase], [mnemonic_length], [mk_mnemonic] = the
    buffer [Mnemonic::random] builds from entropy bytes).  Specification: [Spec/Bip39Spec.v]
    ([bip39_indices ent] = the 11-bit groups of entropy ‖ first ENT/32 bits of SHA-256(entropy),
    [bip39_phrase] = their words separated by single spaces). *)
From Coq Require Import String.
From Coq Require Import List NArith Bool PeanoNat Sorted.
From HDW Require Import Lib.Outcome Lib.Radix Lib.Bytes Model.Wordlist Model.Bip39 Spec.Bip39Spec
  Proofs.WordlistProofs Proofs.Bip39Unpack Proofs.Bip39Proofs.
From HDW Require Prim.Sha256.
Import ListNotations.
Open Scope N_scope.

(** A phrase is accepted iff its white-space separated pieces are the words of
    [bip39_indices ent] for some entropy of 16, 20, 24, 28 or 32 bytes — i.e. 12, 15, 18, 21 or
    24 list words whose trailing ENT/32 bits are the leading bits of SHA-256(entropy). *)
Theorem C01_accept_iff : forall sha256 : bytes -> bytes,
  (forall x, length (sha256 x) = 32%nat) -> (forall x, bytes_ok (sha256 x)) ->
  forall t,
  (exists m, from_phrase sha256 t = Ok m) <->
  (exists ent, bytes_ok ent /\ valid_ent_len (length ent)
     /\ split_ws t = map word (bip39_indices sha256 ent)).
Proof. exact accept_iff. Qed.
Print Assumptions C01_accept_iff.

(** What is stored for an accepted phrase: entropy ‖ SHA-256(entropy) ‖ zeros, entropy length. *)
Theorem C01_parse_value : forall sha256 : bytes -> bytes,
  (forall x, length (sha256 x) = 32%nat) -> (forall x, bytes_ok (sha256 x)) ->
  forall t m, from_phrase sha256 t = Ok m ->
  exists ent, bytes_ok ent /\ valid_ent_len (length ent)
    /\ split_ws t = map word (bip39_indices sha256 ent) /\ m = mk_mnemonic sha256 ent.
Proof. exact parse_value. Qed.
Print Assumptions C01_parse_value.

(** Any other word count is an error. *)
Theorem C01_reject_count : forall (sha256 : bytes -> bytes) t,
  ~ valid_word_count (length (split_ws t)) -> from_phrase sha256 t = Err.
Proof. exact reject_count. Qed.
Print Assumptions C01_reject_count.

(** Any word that is not in the list is an error. *)
Theorem C01_reject_unknown_word : forall sha256 : bytes -> bytes,
  (forall x, length (sha256 x) = 32%nat) -> (forall x, bytes_ok (sha256 x)) ->
  forall t,
  (exists w, In w (split_ws t) /\ search w = None) -> valid_word_count (length (split_ws t)) ->
  from_phrase sha256 t = Err.
Proof. exact reject_unknown_word. Qed.
Print Assumptions C01_reject_unknown_word.

(** All words known (indices [l]), count right, but [l] is not the BIP-39 encoding of the
    entropy bytes it starts with (= the checksum bits are wrong): error. *)
Theorem C01_reject_checksum : forall sha256 : bytes -> bytes,
  (forall x, length (sha256 x) = 32%nat) -> (forall x, bytes_ok (sha256 x)) ->
  forall t l,
  Forall2 (fun w i => search w = Some i) (split_ws t) l -> valid_word_count (length (split_ws t)) ->
  bip39_indices sha256 (leading_entropy l) <> l -> from_phrase sha256 t = Err.
Proof. exact reject_checksum. Qed.
Print Assumptions C01_reject_checksum.

(** Everything that is not a BIP-39 phrase is an ordinary error. *)
Theorem C01_reject : forall sha256 : bytes -> bytes,
  (forall x, length (sha256 x) = 32%nat) -> (forall x, bytes_ok (sha256 x)) ->
  forall t,
  ~ (exists ent, bytes_ok ent /\ valid_ent_len (length ent)
       /\ split_ws t = map word (bip39_indices sha256 ent)) ->
  from_phrase sha256 t = Err.
Proof. exact reject_all. Qed.
Print Assumptions C01_reject.

(** Printing the mnemonic of an entropy value gives the BIP-39 phrase; the reported length is
    the number of words. *)
Theorem C01_print : forall sha256 : bytes -> bytes,
  (forall x, length (sha256 x) = 32%nat) -> (forall x, bytes_ok (sha256 x)) ->
  forall ent, bytes_ok ent -> valid_ent_len (length ent) ->
  to_phrase (mk_mnemonic sha256 ent) = Ok (bip39_phrase sha256 ent)
  /\ mnemonic_length (mk_mnemonic sha256 ent) = length (bip39_indices sha256 ent).
Proof. exact to_phrase_ok. Qed.
Print Assumptions C01_print.

(** parse (print ent) = ent, for every entropy of the five sizes ... *)
Theorem C01_roundtrip : forall sha256 : bytes -> bytes,
  (forall x, length (sha256 x) = 32%nat) -> (forall x, bytes_ok (sha256 x)) ->
  forall ent, bytes_ok ent -> valid_ent_len (length ent) ->
  from_phrase sha256 (bip39_phrase sha256 ent) = Ok (mk_mnemonic sha256 ent).
Proof. exact roundtrip. Qed.
Print Assumptions C01_roundtrip.

(** ... and print (parse t) = the same words joined by single spaces. *)
Theorem C01_canonical : forall sha256 : bytes -> bytes,
  (forall x, length (sha256 x) = 32%nat) -> (forall x, bytes_ok (sha256 x)) ->
  forall t m, from_phrase sha256 t = Ok m -> to_phrase m = Ok (join [32] (split_ws t)).
Proof. exact canonical. Qed.
Print Assumptions C01_canonical.

(** The reported length of an accepted phrase is its word count. *)
Theorem C01_length : forall sha256 : bytes -> bytes,
  (forall x, length (sha256 x) = 32%nat) -> (forall x, bytes_ok (sha256 x)) ->
  forall t m, from_phrase sha256 t = Ok m -> mnemonic_length m = length (split_ws t).
Proof. exact parsed_length. Qed.
Print Assumptions C01_length.

(** No input makes [from_phrase] panic (the length table protects the indexing; the two
    [debug_assert_eq!] hold; the inner loop needs at most two rounds) ... *)
Theorem C01_total : forall sha256 : bytes -> bytes,
  (forall x, length (sha256 x) = 32%nat) -> (forall x, bytes_ok (sha256 x)) ->
  forall t, graceful (from_phrase sha256 t).
Proof. exact total. Qed.
Print Assumptions C01_total.

(** ... and [to_phrase] never reads outside the 64-byte buffer. *)
Theorem C01_total_print : forall sha256 : bytes -> bytes,
  (forall x, length (sha256 x) = 32%nat) -> (forall x, bytes_ok (sha256 x)) ->
  forall ent, bytes_ok ent -> valid_ent_len (length ent) ->
  graceful (to_phrase (mk_mnemonic sha256 ent)).
Proof. exact total_print. Qed.
Print Assumptions C01_total_print.

(** The unpacking loop, on its own: for [ws] all in the list with indices [l], within the
    seed's capacity, the loop ends with [bit_offset <= 8], [acc = X mod 2^64] and the bytes
    written are the big-endian digits of [X / 2^bit_offset], where [X] is [l] read in base 2048. *)
Theorem C01_unpack_loop : forall len ws,
  11 * N.of_nat (length ws) <= 8 * N.of_nat len + 8 ->
  match lookup_all ws with
  | None => unpack_loop len ws (0, 0, []) = Err
  | Some l => exists st', unpack_loop len ws (0, 0, []) = Ok st' /\ Inv (of_digits 2048 l) (length ws) st'
  end.
Proof. exact unpack_loop_top. Qed.
Print Assumptions C01_unpack_loop.

(** The embedded word list (2048 entries; each fact is a finite check by [vm_compute]):
    2048 words, strictly increasing in [str] order, lower-case ASCII, non-empty. *)
Theorem C01_wordlist :
  length wordlist = 2048%nat /\ StronglySorted lex_lt wordlist
  /\ Forall lower_ascii_word wordlist /\ Forall nonempty_no_ws wordlist.
Proof. exact wordlist_ok. Qed.
Print Assumptions C01_wordlist.

Theorem C01_search_word : forall i, i < 2048 -> search (word i) = Some i.
Proof. exact search_word. Qed.
Print Assumptions C01_search_word.

Theorem C01_search_sound : forall w i, search w = Some i -> word i = w /\ i < 2048.
Proof. exact search_sound. Qed.
Print Assumptions C01_search_sound.

Theorem C01_search_complete : forall w, (exists i, search w = Some i) <-> In w wordlist.
Proof. exact search_some_iff. Qed.
Print Assumptions C01_search_complete.

(** Non-vacuity: Unicode white space, empty pieces dropped; a 13-word phrase is an error
    whatever the hash function. *)
Example C01_example_split :
  split_ws ([0x3000; 32] ++ s2l "zoo" ++ [9; 10; 0x2003] ++ s2l "abandon" ++ [0x85])
  = [s2l "zoo"; s2l "abandon"]
  /\ search (s2l "zoo") = Some 2047 /\ search (s2l "Zoo") = None /\ word 3 = s2l "about".
Proof. vm_compute. repeat split. Qed.

Example C01_example_13_words : forall sha256 : bytes -> bytes,
  from_phrase sha256 (s2l "abandon abandon abandon abandon abandon abandon abandon abandon abandon abandon abandon abandon absent") = Err.
Proof. intros sha256. apply reject_count. vm_compute. intuition discriminate. Qed.

(** With the executable SHA-256 of [Prim/Sha256.v] (an instance of the hypotheses): the test
    vectors of BIP-39 / the crate, a 15-word phrase, and a wrong checksum word. *)
Example C01_example_instance :
  (forall x, length (Sha256.sha256 x) = 32%nat) /\ (forall x, bytes_ok (Sha256.sha256 x)).
Proof. split; [exact Sha256.sha256_length|exact Sha256.sha256_ok]. Qed.

Example C01_example_vectors :
  from_phrase Sha256.sha256 (s2l "abandon abandon abandon abandon abandon abandon abandon abandon abandon abandon abandon about")
    = Ok (mk_mnemonic Sha256.sha256 (repeat 0 16))
  /\ from_phrase Sha256.sha256 (s2l "myth like bonus scare over problem client lizard pioneer submit female collect")
    = Ok (mk_mnemonic Sha256.sha256 [0x92; 0x90; 0x34; 0x65; 0xe0; 0x29; 0xdf; 0x56; 0xca; 0xb4; 0x16; 0xa5; 0x3b; 0x01; 0x53; 0x96])
  /\ bip39_phrase Sha256.sha256 (repeat 0 32)
    = s2l "abandon abandon abandon abandon abandon abandon abandon abandon abandon abandon abandon abandon abandon abandon abandon abandon abandon abandon abandon abandon abandon abandon abandon art"
  /\ to_phrase (mk_mnemonic Sha256.sha256 (map N.of_nat (seq 0 20)))
    = Ok (s2l "abandon amount liar amount expire adjust cage candy arch gather drum bullet absurd math exhibit")
  /\ from_phrase Sha256.sha256 (s2l "abandon abandon abandon abandon abandon abandon abandon abandon abandon abandon abandon abandon")
    = Err.
Proof. vm_compute. repeat split. Qed.
