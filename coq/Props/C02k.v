(** C02 (companion) — the theorems of [Props/C02.v] at the executable primitives that
    [Run/DC02.v] evaluates: [Prim.Sha256.sha256], [Prim.Pbkdf2.pbkdf2_hmac_sha512],
    [Prim.Nfkd.nfkd].  No hypothesis about a primitive is left ([sha256_length], [sha256_ok],
    [pbkdf2_length], [nfkd_ascii_prefix], [nfkd_ascii] discharge them).
    Statements only.  ([Print Assumptions] lists the kernel's primitive 63-bit integer
    operations because the hash functions compute with [Uint63].) *)
From Coq Require Import String.
From Coq Require Import List NArith Bool.
From HDW Require Import Lib.Outcome Lib.Bytes Model.Bip39 Spec.Bip39Spec Model.Seed Proofs.ConcreteProofs.
From HDW Require Import Prim.Sha256 Prim.Nfkd Prim.Pbkdf2 Proofs.NfkdProofs.
From HDW Require Props.C02.
Import ListNotations.

(** seed = PBKDF2-HMAC-SHA512(password = the canonical phrase, salt = NFKD("mnemonic" ++ passphrase), 2048 rounds, 64 bytes) *)
Theorem C02k_seed_def : forall ent pw, bytes_ok ent -> valid_ent_len (length ent) ->
  seed pbkdf2_hmac_sha512 nfkd (mk_mnemonic sha256 ent) pw
  = Ok (pbkdf2_hmac_sha512 (utf8 (bip39_phrase sha256 ent)) (utf8 (nfkd (s2l "mnemonic" ++ pw))) 2048%N 64%nat).
Proof. exact (C02.C02_seed_def sha256 pbkdf2_hmac_sha512 nfkd sha256_length sha256_ok). Qed.
Print Assumptions C02k_seed_def.

(** for a parsed phrase the password is the words joined by single spaces, not the text typed *)
Theorem C02k_seed_of_phrase : forall t m pw, from_phrase sha256 t = Ok m ->
  seed pbkdf2_hmac_sha512 nfkd m pw
  = Ok (pbkdf2_hmac_sha512 (utf8 (join [32%N] (split_ws t))) (utf8 (nfkd (s2l "mnemonic" ++ pw))) 2048%N 64%nat).
Proof. exact (C02.C02_seed_of_phrase sha256 pbkdf2_hmac_sha512 nfkd sha256_length sha256_ok). Qed.
Print Assumptions C02k_seed_of_phrase.

Theorem C02k_layout_irrelevant : forall t1 t2 m1 m2 pw, split_ws t1 = split_ws t2 ->
  from_phrase sha256 t1 = Ok m1 -> from_phrase sha256 t2 = Ok m2 ->
  seed pbkdf2_hmac_sha512 nfkd m1 pw = seed pbkdf2_hmac_sha512 nfkd m2 pw.
Proof. exact (C02.C02_layout_irrelevant sha256 pbkdf2_hmac_sha512 nfkd sha256_length sha256_ok). Qed.
Print Assumptions C02k_layout_irrelevant.

(** the salt is "mnemonic" followed by the normalised passphrase *)
Theorem C02k_salt : forall m pw,
  seed pbkdf2_hmac_sha512 nfkd m pw = bind (to_phrase m) (fun phrase =>
    Ok (pbkdf2_hmac_sha512 (utf8 phrase) (utf8 (s2l "mnemonic" ++ nfkd pw)) 2048%N 64%nat)).
Proof. exact (C02.C02_salt pbkdf2_hmac_sha512 nfkd nfkd_ascii_prefix). Qed.
Print Assumptions C02k_salt.

(** an ASCII passphrase is used as typed: the salt bytes are "mnemonic" followed by it *)
Theorem C02k_ascii_passphrase : forall m pw, all_ascii pw ->
  seed pbkdf2_hmac_sha512 nfkd m pw = bind (to_phrase m) (fun phrase =>
    Ok (pbkdf2_hmac_sha512 (utf8 phrase) (s2l "mnemonic" ++ pw) 2048%N 64%nat)).
Proof. exact seed_ascii_passphrase. Qed.
Print Assumptions C02k_ascii_passphrase.

(** accepted phrase, ASCII passphrase: password and salt are these byte strings (the phrase
    consists of list words, which are ASCII) *)
Theorem C02k_seed_ascii : forall t m pw, from_phrase sha256 t = Ok m -> all_ascii pw ->
  seed pbkdf2_hmac_sha512 nfkd m pw
  = Ok (pbkdf2_hmac_sha512 (join [32%N] (split_ws t)) (s2l "mnemonic" ++ pw) 2048%N 64%nat).
Proof. exact seed_of_phrase_ascii. Qed.
Print Assumptions C02k_seed_ascii.

(** the seed has 64 bytes *)
Theorem C02k_seed_length : forall m pw s, seed pbkdf2_hmac_sha512 nfkd m pw = Ok s -> length s = 64%nat.
Proof. exact (C02.C02_seed_length pbkdf2_hmac_sha512 nfkd pbkdf2_length). Qed.
Print Assumptions C02k_seed_length.

(** every accepted phrase has a seed (what [Run/DC02.c02_seed] evaluates is never a panic) *)
Theorem C02k_seed_exists : forall t m pw, from_phrase sha256 t = Ok m ->
  exists sd, seed pbkdf2_hmac_sha512 nfkd m pw = Ok sd /\ length sd = 64%nat.
Proof. exact seed_of_parsed_ok. Qed.
Print Assumptions C02k_seed_exists.

(** NFKD is a normal form: applying it twice changes nothing (the decomposition table is closed and
    canonical reordering is idempotent, [Proofs/NfkdProofs.v]) *)
Theorem C02k_nfkd_idempotent : forall t, nfkd (nfkd t) = nfkd t.
Proof. exact nfkd_idempotent. Qed.
Print Assumptions C02k_nfkd_idempotent.

(** the seed depends on the passphrase only through its normal form: a passphrase and its
    NFKD-normalised spelling give the same seed ... *)
Theorem C02k_seed_of_normalised_passphrase : forall m pw,
  seed pbkdf2_hmac_sha512 nfkd m pw = seed pbkdf2_hmac_sha512 nfkd m (nfkd pw).
Proof.
  intros m pw. apply (C02.C02_nfkd_equiv_concrete m pw (nfkd pw)).
  symmetry. apply nfkd_idempotent.
Qed.
Print Assumptions C02k_seed_of_normalised_passphrase.

(** ... and any two passphrases with the same normal form do (the hypothesis is on the normal
    forms, which is decidable by computing them) *)
Theorem C02k_seed_depends_on_normal_form : forall m p1 p2,
  nfkd p1 = nfkd p2 -> seed pbkdf2_hmac_sha512 nfkd m p1 = seed pbkdf2_hmac_sha512 nfkd m p2.
Proof. exact C02.C02_nfkd_equiv_concrete. Qed.
Print Assumptions C02k_seed_depends_on_normal_form.

(** non-vacuity: a precomposed and a decomposed spelling (U+00E9 vs e + U+0301; the ligature
    U+FB01 vs "fi"; the Hangul syllable U+D55C vs its three jamo) have equal normal forms *)
Example C02k_normal_form_witnesses :
  nfkd [233%N] = nfkd [101%N; 769%N] /\ nfkd [64257%N] = nfkd [102%N; 105%N] /\
  nfkd [54620%N] = [4370%N; 4449%N; 4523%N] /\
  nfkd [113%N; 803%N; 775%N] = nfkd [113%N; 775%N; 803%N].
Proof. vm_compute. repeat split; reflexivity. Qed.
Print Assumptions C02k_normal_form_witnesses.
