(** C16 — Every command acts on the selected account and prints the standard result (partial:
    clap's own parsing — flag/environment equivalence, conflicts_with — is checked black-box).
    Statements only; all primitives are universally quantified functions. *)
From Coq Require Import String.
From Coq Require Import List NArith ZArith Bool.
From HDW Require Import Lib.Outcome Lib.Bytes Lib.Hex Model.Json.
From HDW Require Import Model.Bip39 Model.Seed Model.Path Model.Bip32 Model.Account Model.SigText Model.Message Model.Tx Model.Cli.
From HDW Require Import Proofs.CliProofs.
Import ListNotations.
Open Scope N_scope.

(** The account selector: default index 0, [--account-index i] selects m/44'/60'/0'/0/i for every i below 2^31
    (and is refused above), [--hd-path p] is the parsed path. *)
Theorem C16_selector :
  account_path SelDefault = Ok [Hardened 44; Hardened 60; Hardened 0; Normal 0; Normal 0]
  /\ (forall i, i < 2 ^ 31 -> account_path (SelIndex i) = Ok [Hardened 44; Hardened 60; Hardened 0; Normal 0; Normal i])
  /\ (forall i, 2 ^ 31 <= i -> account_path (SelIndex i) = Err)
  /\ (forall p, account_path (SelPath p) = parse_path p).
Proof. exact (conj account_path_default (conj account_path_index (conj account_path_index_reject account_path_path))). Qed.
Print Assumptions C16_selector.

(** The key every command uses: phrase -> seed (with the passphrase) -> path -> BIP-32 derivation. *)
Theorem C16_private_key : forall sha256 pbkdf2 nfkd hmac512 pub_compressed o k,
  private_key sha256 pbkdf2 nfkd hmac512 pub_compressed o = Ok k <->
  exists m sd p, from_phrase sha256 (o_mnemonic o) = Ok m /\ seed pbkdf2 nfkd m (o_password o) = Ok sd
                 /\ account_path (o_sel o) = Ok p /\ derive hmac512 pub_compressed sd p = Ok k.
Proof. exact private_key_iff. Qed.
Print Assumptions C16_private_key.

Theorem C16_address : forall sha256 pbkdf2 nfkd hmac512 pub_compressed pubkey65 keccak o t,
  cmd_address sha256 pbkdf2 nfkd hmac512 pub_compressed pubkey65 keccak o = Ok t <->
  exists k a, private_key sha256 pbkdf2 nfkd hmac512 pub_compressed o = Ok k
              /\ address keccak pubkey65 k = Ok a /\ t = eip55 keccak a.
Proof. exact cmd_address_iff. Qed.
Print Assumptions C16_address.

Theorem C16_export : forall sha256 pbkdf2 nfkd hmac512 pub_compressed o t,
  cmd_export sha256 pbkdf2 nfkd hmac512 pub_compressed o = Ok t <->
  exists k, private_key sha256 pbkdf2 nfkd hmac512 pub_compressed o = Ok k /\ t = s2l "0x" ++ hex_encode (be_fixed 32 k).
Proof. exact cmd_export_iff. Qed.
Print Assumptions C16_export.

Theorem C16_public_key : forall sha256 pbkdf2 nfkd hmac512 pub_compressed pubkey65 o t,
  cmd_public_key sha256 pbkdf2 nfkd hmac512 pub_compressed pubkey65 o = Ok t <->
  exists k, private_key sha256 pbkdf2 nfkd hmac512 pub_compressed o = Ok k /\ t = s2l "0x" ++ hex_encode (pubkey65 k).
Proof. exact cmd_public_key_iff. Qed.
Print Assumptions C16_public_key.

(** [sign message] prints the selected key's signature over exactly the digest [hash message] prints. *)
Theorem C16_sign_message_is_sign_of_hash : forall sha256 pbkdf2 nfkd hmac512 pub_compressed keccak sign o m out,
  cmd_sign_message sha256 pbkdf2 nfkd hmac512 pub_compressed keccak sign o m = Ok out ->
  exists k d σ, private_key sha256 pbkdf2 nfkd hmac512 pub_compressed o = Ok k
                /\ cmd_hash_message keccak m = Ok (hex0x d) /\ d = digest keccak m
                /\ sign k d = Ok σ /\ out = print_sig σ.
Proof. exact sign_message_is_sign_of_hash. Qed.
Print Assumptions C16_sign_message_is_sign_of_hash.

Theorem C16_sign_typeddata_is_sign_of_hash : forall sha256 pbkdf2 nfkd hmac512 pub_compressed sign typed_data o j out,
  cmd_sign_typeddata sha256 pbkdf2 nfkd hmac512 pub_compressed sign typed_data o j = Ok out ->
  exists k d σ, private_key sha256 pbkdf2 nfkd hmac512 pub_compressed o = Ok k
                /\ cmd_hash_typeddata typed_data false j = Ok (hex0x d) /\ sign k d = Ok σ /\ out = print_sig σ.
Proof. exact sign_typeddata_is_sign_of_hash. Qed.
Print Assumptions C16_sign_typeddata_is_sign_of_hash.

Theorem C16_sign_transaction_is_sign_of_hash : forall sha256 pbkdf2 nfkd hmac512 pub_compressed keccak sign o allow j out,
  cmd_sign_transaction sha256 pbkdf2 nfkd hmac512 pub_compressed keccak sign o allow true j = Ok out ->
  exists k d σ, private_key sha256 pbkdf2 nfkd hmac512 pub_compressed o = Ok k
                /\ cmd_hash_transaction keccak j None = Ok (hex0x d) /\ sign k d = Ok σ /\ out = print_sig σ.
Proof. exact sign_transaction_sigonly_is_sign_of_hash. Qed.
Print Assumptions C16_sign_transaction_is_sign_of_hash.

(** full mode: the encoding of the transaction with that same signature *)
Theorem C16_sign_transaction_full : forall sha256 pbkdf2 nfkd hmac512 pub_compressed keccak sign o allow j out,
  cmd_sign_transaction sha256 pbkdf2 nfkd hmac512 pub_compressed keccak sign o allow false j = Ok out ->
  exists k t h σ e, private_key sha256 pbkdf2 nfkd hmac512 pub_compressed o = Ok k /\ tx_of_json j = Ok t
                    /\ signing_message keccak t = Ok h /\ sign k h = Ok σ /\ encode t σ = Ok e /\ out = hex0x e.
Proof. exact sign_transaction_full. Qed.
Print Assumptions C16_sign_transaction_full.

(** [sign raw] signs the given digest as it is. *)
Theorem C16_sign_raw : forall sha256 pbkdf2 nfkd hmac512 pub_compressed sign o d out,
  cmd_sign_raw sha256 pbkdf2 nfkd hmac512 pub_compressed sign o d = Ok out ->
  exists k σ, private_key sha256 pbkdf2 nfkd hmac512 pub_compressed o = Ok k /\ sign k d = Ok σ /\ out = print_sig σ.
Proof. exact sign_raw_signs_digest. Qed.
Print Assumptions C16_sign_raw.

(** [hash data] is Keccak-256 of the input; [hash typeddata --message-hash] is the message struct hash alone. *)
Theorem C16_hash_data : forall (keccak : bytes -> bytes) x, cmd_hash_data keccak x = Ok (s2l "0x" ++ hex_encode (keccak x)).
Proof. reflexivity. Qed.
Print Assumptions C16_hash_data.

Theorem C16_message_hash_flag : forall typed_data j t,
  cmd_hash_typeddata typed_data true j = Ok t -> exists d ds mh, typed_data j = Ok (d, ds, mh) /\ t = hex0x mh.
Proof. exact hash_typeddata_message_hash. Qed.
Print Assumptions C16_message_hash_flag.

(** If the account cannot be loaded nothing is printed by any account command. *)
Theorem C16_no_account_no_output : forall sha256 pbkdf2 nfkd hmac512 pub_compressed pubkey65 keccak sign o,
  (forall k, private_key sha256 pbkdf2 nfkd hmac512 pub_compressed o <> Ok k) ->
  (forall t, cmd_address sha256 pbkdf2 nfkd hmac512 pub_compressed pubkey65 keccak o <> Ok t)
  /\ (forall t, cmd_export sha256 pbkdf2 nfkd hmac512 pub_compressed o <> Ok t)
  /\ (forall t, cmd_public_key sha256 pbkdf2 nfkd hmac512 pub_compressed pubkey65 o <> Ok t)
  /\ (forall d t, sign_and_print sha256 pbkdf2 nfkd hmac512 pub_compressed sign o d <> Ok t).
Proof. intros sha256 pbkdf2 nfkd hmac512 pub_compressed pubkey65 keccak sign o. exact (no_account_no_output sha256 pbkdf2 nfkd hmac512 pub_compressed pubkey65 keccak sign o). Qed.
Print Assumptions C16_no_account_no_output.
