(** C18 — Vanity search returns a phrase whose account really has the prefix (the parts that are
    pure logic: prefix parser, prefix matcher, search loop and thread race).
    Statements only; every proof is one [exact] of a lemma from [Proofs/]. *)
From Coq Require Import String.
From Coq Require Import List NArith Bool PeanoNat.
From HDW Require Import Lib.Outcome Lib.Bytes Lib.Hex Model.Prefix Model.Vanity.
From HDW Require Import Proofs.PrefixProofs Proofs.VanityProofs.
Import ListNotations.
Open Scope N_scope.

(* ------------------------------------------------------------------ *)
(** * The prefix parser and matcher *)

(** Every string of hex digits (either case, any length) parses: [length / 2] whole bytes and
    a trailing nibble exactly when the number of digits is odd. *)
Theorem C18_prefix_parse : forall ds, Forall is_hex_digit ds ->
  exists p, parse_prefix (s2l "0x" ++ ds) = Ok p
    /\ length (p_bytes p) = Nat.div (length ds) 2
    /\ (p_nibble p = None <-> Nat.even (length ds) = true)
    /\ bytes_ok (p_bytes p)
    /\ (forall n, p_nibble p = Some n -> n < 16).
Proof. exact prefix_parse. Qed.
Print Assumptions C18_prefix_parse.

(** The matcher accepts an address exactly when the lower-case hex spelling of the address
    begins with the requested digits compared case-insensitively — odd or even length, either
    case, also prefixes longer than the address. *)
Theorem C18_prefix_spec : forall ds p addr,
  parse_prefix (s2l "0x" ++ ds) = Ok p -> bytes_ok addr ->
  (matches p addr = true <-> hex_prefix_matches ds addr).
Proof. exact prefix_spec. Qed.
Print Assumptions C18_prefix_spec.

(** A prefix with more digits than the address never matches. *)
Theorem C18_prefix_too_long : forall ds p addr,
  parse_prefix (s2l "0x" ++ ds) = Ok p -> bytes_ok addr ->
  (2 * length addr < length ds)%nat -> matches p addr = false.
Proof. exact prefix_too_long. Qed.
Print Assumptions C18_prefix_too_long.

(** Only [0x] followed by ASCII hex digits is accepted ... *)
Theorem C18_prefix_sound : forall t p,
  parse_prefix t = Ok p -> exists ds, t = s2l "0x" ++ ds /\ Forall is_hex_digit ds.
Proof. exact prefix_sound. Qed.
Print Assumptions C18_prefix_sound.

(** ... anything else (no [0x], or some character after it that is not an ASCII hex digit —
    including every non-ASCII character) is refused with an ordinary error. *)
Theorem C18_nonhex : forall t,
  (~ (exists r, t = s2l "0x" ++ r))
  \/ (exists ds, t = s2l "0x" ++ ds /\ Exists (fun c => ~ is_hex_digit c) ds) ->
  parse_prefix t = Err.
Proof. exact prefix_nonhex. Qed.
Print Assumptions C18_nonhex.

(** The parser never panics (no [u8] underflow/overflow, no index out of bounds, the
    [unreachable!] is unreachable) on any text. *)
Theorem C18_prefix_total : forall t, graceful (parse_prefix t).
Proof. exact prefix_total. Qed.
Print Assumptions C18_prefix_total.

(* ------------------------------------------------------------------ *)
(** * The search loop and the race ([candidate], [addr_of] arbitrary) *)

(** What a search returns has an address that matches, and it is the first candidate or one
    that the entropy source delivered to this worker. *)
Theorem C18_search_matches :
  forall (candidate : Type) (addr_of : candidate -> outcome bytes) p st c0 c,
  search candidate addr_of p c0 st = Ok c ->
  (exists a, addr_of c = Ok a /\ matches p a = true) /\ (c = c0 \/ In (Ok c) st).
Proof. exact search_matches. Qed.
Print Assumptions C18_search_matches.

(** For EVERY thread count, worker streams and winner (whichever worker's message is first on
    the channel) the returned phrase matches the prefix and was really generated. *)
Theorem C18_result :
  forall (candidate : Type) (addr_of : candidate -> outcome bytes) p threads workers winner first c,
  run_vanity candidate addr_of p threads workers winner first = Ok c ->
  (exists a, addr_of c = Ok a /\ matches p a = true)
  /\ (first = Ok c \/ exists st, In st workers /\ In (Ok c) st).
Proof. exact result. Qed.
Print Assumptions C18_result.

(** Combined with [C18_prefix_spec]: the address of the returned phrase begins with exactly
    the requested digits. *)
Theorem C18_result_spec :
  forall (candidate : Type) (addr_of : candidate -> outcome bytes) ds p threads workers winner first c,
  parse_prefix (s2l "0x" ++ ds) = Ok p ->
  run_vanity candidate addr_of p threads workers winner first = Ok c ->
  exists a, addr_of c = Ok a /\ (bytes_ok a -> hex_prefix_matches ds a).
Proof. exact result_spec. Qed.
Print Assumptions C18_result_spec.

(** An error outcome carries no phrase. *)
Theorem C18_error_never_phrase :
  forall (candidate : Type) (addr_of : candidate -> outcome bytes) p threads workers winner first,
  run_vanity candidate addr_of p threads workers winner first = Err ->
  forall c, run_vanity candidate addr_of p threads workers winner first <> Ok c.
Proof. exact error_never_phrase. Qed.
Print Assumptions C18_error_never_phrase.

(** The error (entropy failure, derivation error) of the worker whose message comes first —
    or of the inline search — is the outcome of the run. *)
Theorem C18_worker_error :
  forall (candidate : Type) (addr_of : candidate -> outcome bytes) p threads workers winner c0,
  search candidate addr_of p c0 (nth (if threads =? 0 then 0%nat else winner) workers []) = Err ->
  (threads = 0 \/ N.of_nat winner < threads) ->
  run_vanity candidate addr_of p threads workers winner (Ok c0) = Err.
Proof. exact worker_error_is_error. Qed.
Print Assumptions C18_worker_error.

(** An [Err] of the run comes from the first entropy request or from that worker's search. *)
Theorem C18_error_origin :
  forall (candidate : Type) (addr_of : candidate -> outcome bytes) p threads workers winner first,
  run_vanity candidate addr_of p threads workers winner first = Err ->
  first = Err
  \/ exists c0, first = Ok c0
       /\ search candidate addr_of p c0 (nth (if threads =? 0 then 0%nat else winner) workers []) = Err.
Proof. exact error_origin. Qed.
Print Assumptions C18_error_origin.

(** Entropy failure at the first request (main thread) and at any later request of a search
    whose earlier candidates were all rejected: an error (vanity part of C12). *)
Theorem C18_first_entropy_failure :
  forall (candidate : Type) (addr_of : candidate -> outcome bytes) p threads workers winner,
  run_vanity candidate addr_of p threads workers winner Err = Err.
Proof. exact first_entropy_failure. Qed.
Print Assumptions C18_first_entropy_failure.

Theorem C18_later_entropy_failure :
  forall (candidate : Type) (addr_of : candidate -> outcome bytes) p c0 cs rest,
  rejected candidate addr_of p c0 -> Forall (rejected candidate addr_of p) cs ->
  search candidate addr_of p c0 (map Ok cs ++ Err :: rest) = Err.
Proof. exact search_entropy_failure. Qed.
Print Assumptions C18_later_entropy_failure.

(** A first candidate that does not match is never the phrase returned. *)
Theorem C18_first_nonmatching_not_returned :
  forall (candidate : Type) (addr_of : candidate -> outcome bytes) p c0 st c a0,
  search candidate addr_of p c0 st = Ok c -> addr_of c0 = Ok a0 -> matches p a0 = false ->
  c <> c0 /\ In (Ok c) st.
Proof. exact first_nonmatching_not_returned. Qed.
Print Assumptions C18_first_nonmatching_not_returned.

(** The search returns the FIRST matching candidate of its stream (used by the exact-phrase
    comparison under scripted entropy). *)
Theorem C18_search_first_match :
  forall (candidate : Type) (addr_of : candidate -> outcome bytes) p c0 cs c1 a1 rest,
  rejected candidate addr_of p c0 -> Forall (rejected candidate addr_of p) cs ->
  addr_of c1 = Ok a1 -> matches p a1 = true ->
  search candidate addr_of p c0 (map Ok cs ++ Ok c1 :: rest) = Ok c1.
Proof. exact search_first_match. Qed.
Print Assumptions C18_search_first_match.

(* ------------------------------------------------------------------ *)
(** * Examples (non-vacuity) *)

Example C18_ex_upper_nibble : parse_prefix (s2l "0xA") = Ok {| p_bytes := []; p_nibble := Some 10 |}.
Proof. vm_compute. reflexivity. Qed.

Example C18_ex_odd : parse_prefix (s2l "0xab1") = Ok {| p_bytes := [0xab]; p_nibble := Some 1 |}.
Proof. vm_compute. reflexivity. Qed.

Example C18_ex_upper_matches :
  omap (fun p => matches p [0xab; 0xcd; 0xef]) (parse_prefix (s2l "0xAB")) = Ok true
  /\ omap (fun p => matches p [0xab; 0xcd; 0xef]) (parse_prefix (s2l "0xaBc")) = Ok true
  /\ omap (fun p => matches p [0xab; 0xcd; 0xef]) (parse_prefix (s2l "0xABd")) = Ok false
  /\ omap (fun p => matches p [0xab]) (parse_prefix (s2l "0xABc")) = Ok false.
Proof. vm_compute. repeat split; reflexivity. Qed.

Example C18_ex_nonhex : parse_prefix (s2l "0xg") = Err /\ parse_prefix (s2l "1a") = Err
  /\ parse_prefix (s2l "0x1" ++ [0xe9]) = Err /\ parse_prefix (s2l "0X1a") = Err.
Proof. vm_compute. repeat split; reflexivity. Qed.

Example C18_ex_empty : forall addr,
  exists p, parse_prefix (s2l "0x") = Ok p /\ matches p addr = true.
Proof. exact prefix_empty. Qed.

(** A two-worker race on a toy candidate type (a candidate is its own address): worker 0 finds
    [0xab..] as its third candidate, worker 1 hits an entropy failure first. *)
Example C18_ex_race :
  let addr_of := fun c : bytes => Ok c in
  let p := {| p_bytes := [0xab]; p_nibble := None |} in
  let workers := [[Ok [1; 2]; Ok [0xab; 7]; Ok [0xab; 8]]; [Ok [3; 4]; Err; Ok [0xab; 9]]] in
  run_vanity bytes addr_of p 2 workers 0 (Ok [0; 0]) = Ok [0xab; 7]
  /\ run_vanity bytes addr_of p 2 workers 1 (Ok [0; 0]) = Err
  /\ run_vanity bytes addr_of p 0 workers 1 (Ok [0; 0]) = Ok [0xab; 7]
  /\ run_vanity bytes addr_of p 2 workers 0 (Ok [0xab; 0]) = Ok [0xab; 0].
Proof. vm_compute. repeat split; reflexivity. Qed.
