(** C02 — Wallet seed is the BIP-39 PBKDF2 stretch of phrase and passphrase.  Statements only.
    PBKDF2-HMAC-SHA512 and SHA-256 are arbitrary functions in every statement; NFKD is arbitrary
    subject to [nfkd (ascii ++ p) = ascii ++ nfkd p], which is PROVED for the table-driven
    [Prim.Nfkd.nfkd] and discharged in the [_concrete] corollaries. *)
From Coq Require Import String.
From Coq Require Import List NArith Bool.
From HDW Require Import Lib.Outcome Lib.Bytes Model.Bip39 Spec.Bip39Spec Model.Seed Proofs.EntropyProofs.
From HDW Require Import Prim.Nfkd Prim.Pbkdf2.
Import ListNotations.

(** seed = PBKDF2(password = the canonical single-space phrase, salt = NFKD("mnemonic" + passphrase), 2048 rounds, 64 bytes) *)
Theorem C02_seed_def : forall (sha256 : bytes -> bytes) (pbkdf2 : bytes -> bytes -> N -> nat -> bytes) (nfkd : text -> text),
  (forall x, length (sha256 x) = 32%nat) -> (forall x, bytes_ok (sha256 x)) ->
  forall ent pw, bytes_ok ent -> valid_ent_len (length ent) ->
  seed pbkdf2 nfkd (mk_mnemonic sha256 ent) pw
  = Ok (pbkdf2 (utf8 (bip39_phrase sha256 ent)) (utf8 (nfkd (s2l "mnemonic" ++ pw))) 2048%N 64%nat).
Proof. intros sha256 pbkdf2 nfkd H1 H2. exact (seed_def sha256 H1 H2 pbkdf2 nfkd). Qed.
Print Assumptions C02_seed_def.

(** for a parsed phrase: the password is the words joined by single spaces, not the text typed *)
Theorem C02_seed_of_phrase : forall (sha256 : bytes -> bytes) (pbkdf2 : bytes -> bytes -> N -> nat -> bytes) (nfkd : text -> text),
  (forall x, length (sha256 x) = 32%nat) -> (forall x, bytes_ok (sha256 x)) ->
  forall t m pw, from_phrase sha256 t = Ok m ->
  seed pbkdf2 nfkd m pw
  = Ok (pbkdf2 (utf8 (join [32%N] (split_ws t))) (utf8 (nfkd (s2l "mnemonic" ++ pw))) 2048%N 64%nat).
Proof. intros sha256 pbkdf2 nfkd H1 H2. exact (seed_of_phrase sha256 H1 H2 pbkdf2 nfkd). Qed.
Print Assumptions C02_seed_of_phrase.

(** the white-space layout of the input phrase is irrelevant *)
Theorem C02_layout_irrelevant : forall (sha256 : bytes -> bytes) (pbkdf2 : bytes -> bytes -> N -> nat -> bytes) (nfkd : text -> text),
  (forall x, length (sha256 x) = 32%nat) -> (forall x, bytes_ok (sha256 x)) ->
  forall t1 t2 m1 m2 pw, split_ws t1 = split_ws t2 ->
  from_phrase sha256 t1 = Ok m1 -> from_phrase sha256 t2 = Ok m2 ->
  seed pbkdf2 nfkd m1 pw = seed pbkdf2 nfkd m2 pw.
Proof. intros sha256 pbkdf2 nfkd H1 H2. exact (layout_irrelevant sha256 H1 H2 pbkdf2 nfkd). Qed.
Print Assumptions C02_layout_irrelevant.

(** NFKD-equivalent passphrases give the same seed *)
Theorem C02_nfkd_equiv : forall (pbkdf2 : bytes -> bytes -> N -> nat -> bytes) (nfkd : text -> text),
  (forall a p, all_ascii a -> nfkd (a ++ p) = a ++ nfkd p) ->
  forall m p1 p2, nfkd p1 = nfkd p2 -> seed pbkdf2 nfkd m p1 = seed pbkdf2 nfkd m p2.
Proof. intros pbkdf2 nfkd H. exact (nfkd_equiv pbkdf2 nfkd H). Qed.
Print Assumptions C02_nfkd_equiv.

(** ... in particular for the table-driven NFKD of Prim/Nfkd.v and the Gallina PBKDF2 *)
Theorem C02_nfkd_equiv_concrete : forall m p1 p2, Nfkd.nfkd p1 = Nfkd.nfkd p2 ->
  seed pbkdf2_hmac_sha512 Nfkd.nfkd m p1 = seed pbkdf2_hmac_sha512 Nfkd.nfkd m p2.
Proof. exact (nfkd_equiv pbkdf2_hmac_sha512 Nfkd.nfkd nfkd_ascii_prefix). Qed.
Print Assumptions C02_nfkd_equiv_concrete.

(** the salt is "mnemonic" followed by the normalised passphrase *)
Theorem C02_salt : forall (pbkdf2 : bytes -> bytes -> N -> nat -> bytes) (nfkd : text -> text),
  (forall a p, all_ascii a -> nfkd (a ++ p) = a ++ nfkd p) ->
  forall m pw, seed pbkdf2 nfkd m pw = bind (to_phrase m) (fun phrase =>
    Ok (pbkdf2 (utf8 phrase) (utf8 (s2l "mnemonic" ++ nfkd pw)) 2048%N 64%nat)).
Proof. intros pbkdf2 nfkd H. exact (seed_salt pbkdf2 nfkd H). Qed.
Print Assumptions C02_salt.

(** the seed has 64 bytes (for any PBKDF2 that returns the requested number of bytes; Prim.Pbkdf2.pbkdf2_length is that fact
    for the Gallina PBKDF2) *)
Theorem C02_seed_length : forall (pbkdf2 : bytes -> bytes -> N -> nat -> bytes) (nfkd : text -> text),
  (forall a b c d, length (pbkdf2 a b c d) = d) ->
  forall m pw s, seed pbkdf2 nfkd m pw = Ok s -> length s = 64%nat.
Proof. intros pbkdf2 nfkd Hl m pw s. exact (seed_length pbkdf2 nfkd m pw s Hl). Qed.
Print Assumptions C02_seed_length.
