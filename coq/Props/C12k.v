(** C12 (companion) — the theorems of [Props/C12.v] that carry hypotheses about SHA-256, at the
    executable [Prim.Sha256.sha256] that [Run/DC12.v] evaluates; the hypotheses are discharged
    by [Sha256.sha256_length] / [Sha256.sha256_ok].  Statements only. *)
From Coq Require Import String.
From Coq Require Import List NArith Bool PeanoNat Arith.
From HDW Require Import Lib.Outcome Lib.Bytes Model.Bip39 Spec.Bip39Spec Model.Entropy.
From HDW Require Import Prim.Sha256.
From HDW Require Props.C12.
Import ListNotations.
Close Scope N_scope.
Open Scope nat_scope.

(** What [new -n L] prints is the BIP-39 phrase of exactly the bytes the entropy source returned. *)
Theorem C12k_phrase : forall L n e rest reqs, byte_len L = Ok n -> length e = n -> bytes_ok e ->
  new_cmd sha256 L {| pending := Some e :: rest; requests := reqs |}
  = (Ok (bip39_phrase sha256 e), {| pending := rest; requests := reqs ++ [n] |}).
Proof. exact (C12.C12_phrase sha256 sha256_length sha256_ok). Qed.
Print Assumptions C12k_phrase.

(** Every generated phrase parses back to the same mnemonic, which prints the same phrase. *)
Theorem C12k_reparse : forall L n e, byte_len L = Ok n -> length e = n -> bytes_ok e ->
  from_phrase sha256 (bip39_phrase sha256 e) = Ok (mk_mnemonic sha256 e)
  /\ to_phrase (mk_mnemonic sha256 e) = Ok (bip39_phrase sha256 e).
Proof. exact (C12.C12_reparse sha256 sha256_length sha256_ok). Qed.
Print Assumptions C12k_reparse.

(** Different entropy gives a different phrase. *)
Theorem C12k_phrase_injective : forall e1 e2,
  bytes_ok e1 -> bytes_ok e2 -> valid_ent_len (length e1) -> valid_ent_len (length e2) ->
  bip39_phrase sha256 e1 = bip39_phrase sha256 e2 -> e1 = e2.
Proof. exact (C12.C12_phrase_injective sha256 sha256_length sha256_ok). Qed.
Print Assumptions C12k_phrase_injective.

(** The mnemonic's entropy is the oracle's bytes (C12_exact at the real hash; no premise to discharge). *)
Theorem C12k_exact : forall L n e rest reqs,
  byte_len L = Ok n -> length e = n -> bytes_ok e ->
  random sha256 L {| pending := Some e :: rest; requests := reqs |}
    = (Ok (mk_mnemonic sha256 e), {| pending := rest; requests := reqs ++ [n] |})
  /\ firstn (m_len (mk_mnemonic sha256 e)) (m_buf (mk_mnemonic sha256 e)) = e
  /\ mnemonic_length (mk_mnemonic sha256 e) = L.
Proof. exact (C12.C12_exact sha256). Qed.
Print Assumptions C12k_exact.
