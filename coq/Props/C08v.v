(** C08, value half — the words and digests of [Model/Eip712Values.v] are the ones EIP-712 defines
    ([Spec/Eip712ValueSpec.v]: typed values [tval], [has_type], JSON spellings [denotes],
    [enc_data] / [hash_struct]); and the general form of C09 ([C09_reject]).
    Statements only; every proof is one [exact] of a lemma from [Proofs/Eip712ValueSpecProofs.v].

    [P : prims] are the primitives (Keccak-256, type hash, leaf deserialisers);
    [den_u], [den_i], [den_bytes], [den_addr] say what a JSON value denotes as an unsigned /
    signed integer, a byte string, an address, and [prims_denote] ties them to the
    deserialisers of [P] (for the real ones this is C13 / [Model/Num.v]).
    [json_wf j]: the keys of every object in [j] are distinct (serde_json's invariant). *)
From Coq Require Import String.
From Coq Require Import List NArith ZArith Bool.
From HDW Require Import Lib.Outcome Lib.Bytes Model.Json Model.Eip712Kind Model.Domain Model.Eip712Values.
From HDW Require Import Spec.Eip712ValueSpec Proofs.Eip712ValueSpecProofs.
Import ListNotations.
Open Scope N_scope.

(** Every spelling of a value of the declared type is accepted, and its word is [enc_data]:
    bool / uintN as 32-byte big-endian numbers, intN sign-extended ([z mod 2^256]), address
    left-padded, bytesN right-padded, bytes / string hashed, arrays the hash of the concatenated
    element words, structs [hashStruct]. *)
Theorem C08_value : forall P den_u den_i den_bytes den_addr tys k j tv,
  prims_sized P -> prims_denote P den_u den_i den_bytes den_addr ->
  has_type (p_type_hash P) tys k tv ->
  denotes den_u den_i den_bytes den_addr tys j k tv ->
  encode_value_p P tys k j = Ok (enc_data (p_keccak P) (p_type_hash P) tys k tv).
Proof. exact c08_value. Qed.
Print Assumptions C08_value.

(** Conversely, whatever is accepted is a spelling of a value of the declared type, and the
    word is that value's [enc_data]. *)
Theorem C08_value_sound : forall P den_u den_i den_bytes den_addr tys k j w,
  prims_sized P -> prims_ranged P -> prims_denote P den_u den_i den_bytes den_addr ->
  json_wf j -> encode_value_p P tys k j = Ok w ->
  exists tv, has_type (p_type_hash P) tys k tv /\
             denotes den_u den_i den_bytes den_addr tys j k tv /\
             w = enc_data (p_keccak P) (p_type_hash P) tys k tv.
Proof. exact c08_value_sound. Qed.
Print Assumptions C08_value_sound.

(** accepted  iff  the JSON denotes a typed value of the declared type *)
Theorem C08_accepted_iff : forall P den_u den_i den_bytes den_addr tys k j,
  prims_sized P -> prims_ranged P -> prims_denote P den_u den_i den_bytes den_addr ->
  json_wf j ->
  ((exists w, encode_value_p P tys k j = Ok w) <->
   (exists tv, has_type (p_type_hash P) tys k tv /\ denotes den_u den_i den_bytes den_addr tys j k tv)).
Proof. exact c08_accepted_iff. Qed.
Print Assumptions C08_accepted_iff.

(** C09 in one statement: a value that cannot be a value of its declared type is refused with
    an ordinary error. *)
Theorem C09_reject : forall P den_u den_i den_bytes den_addr tys k j,
  prims_sized P -> prims_ranged P -> prims_total P ->
  prims_denote P den_u den_i den_bytes den_addr ->
  json_wf j ->
  (~ exists tv, has_type (p_type_hash P) tys k tv /\ denotes den_u den_i den_bytes den_addr tys j k tv) ->
  encode_value_p P tys k j = Err.
Proof. exact c09_reject. Qed.
Print Assumptions C09_reject.

(** The three digests of a document: digest = keccak256(0x19 0x01 ‖ domainSeparator ‖
    hashStruct(message)); the domain separator is [hash_struct] of a value of the (verified)
    type [EIP712Domain] spelled by the [domain] object, the message hash is [hash_struct] of a
    value of the primary type spelled by the [message] object. *)
Theorem C08_digest : forall P den_u den_i den_bytes den_addr j d ds mh,
  prims_sized P -> prims_ranged P -> prims_denote P den_u den_i den_bytes den_addr ->
  json_wf j -> compute_p P j = Ok (d, ds, mh) ->
  d = p_keccak P ([0x19; 0x01] ++ ds ++ mh) /\
  exists b dv mv,
    blob_of_json j = Ok b /\
    verify_domain_type (b_types b) = Ok tt /\
    has_type (p_type_hash P) (b_types b) (KStruct (s2l "EIP712Domain")) (VStruct dv) /\
    denotes den_u den_i den_bytes den_addr (b_types b) (JObj (b_domain b))
      (KStruct (s2l "EIP712Domain")) (VStruct dv) /\
    ds = hash_struct (p_keccak P) (p_type_hash P) (b_types b) (s2l "EIP712Domain") dv /\
    has_type (p_type_hash P) (b_types b) (KStruct (b_primary b)) (VStruct mv) /\
    denotes den_u den_i den_bytes den_addr (b_types b) (JObj (b_message b))
      (KStruct (b_primary b)) (VStruct mv) /\
    mh = hash_struct (p_keccak P) (p_type_hash P) (b_types b) (b_primary b) mv.
Proof. exact c08_digest. Qed.
Print Assumptions C08_digest.

(** the digest equation alone *)
Theorem C08_digest_eq : forall P j d ds mh,
  prims_sized P -> compute_p P j = Ok (d, ds, mh) -> d = p_keccak P ([0x19; 0x01] ++ ds ++ mh).
Proof. exact c08_digest_eq. Qed.
Print Assumptions C08_digest_eq.
