(** C03 (companion) — the theorems of [Props/C03.v] at the executable primitives that
    [Run/DC03.v] evaluates: [hmac512 := Prim.Hmac.hmac_sha512] and
    [pub_compressed := Run.DC03.pubc] (= compressed SEC1 encoding of k·G computed by
    [Prim/Secp256k1.v]).  The only premise of the general theorems, that HMAC-SHA512 returns 64
    bytes, is [Hmac.hmac_sha512_length]; nothing is assumed of [pubc] (the general theorems hold
    for every function in its place: both [derive] and the BIP-32 specification use it only as
    the serialisation of the parent public key).  Statements only. *)
From Coq Require Import String.
From Coq Require Import List NArith Bool.
From HDW Require Import Lib.Outcome Lib.Bytes Model.Path Model.Bip32 Spec.Bip32Spec.
From HDW Require Import Prim.Hmac.
From HDW Require Import Run.DC03.
From HDW Require Props.C03.
Import ListNotations.
Open Scope N_scope.

Theorem C03k_refines : forall seed p, canonical_path p ->
  derive hmac_sha512 pubc seed p =
  match bip32_strict hmac_sha512 pubc seed (map index p) with
  | Some k => Ok k
  | None => Err
  end.
Proof. exact (C03.C03_refines hmac_sha512 pubc hmac_sha512_length). Qed.
Print Assumptions C03k_refines.

Theorem C03k_never_other_key : forall seed p k, canonical_path p ->
  derive hmac_sha512 pubc seed p = Ok k ->
  bip32 hmac_sha512 pubc seed (map index p) = Some k.
Proof. exact (C03.C03_never_other_key hmac_sha512 pubc hmac_sha512_length). Qed.
Print Assumptions C03k_never_other_key.

Theorem C03k_complete : forall seed p k, canonical_path p ->
  bip32 hmac_sha512 pubc seed (map index p) = Some k ->
  derive hmac_sha512 pubc seed p = Ok k
  \/ zero_IL_along hmac_sha512 pubc seed (map index p).
Proof. exact (C03.C03_complete hmac_sha512 pubc hmac_sha512_length). Qed.
Print Assumptions C03k_complete.

Theorem C03k_errors_are_bip32_invalid : forall seed p, canonical_path p ->
  derive hmac_sha512 pubc seed p = Err ->
  bip32_strict hmac_sha512 pubc seed (map index p) = None.
Proof. exact (C03.C03_errors_are_bip32_invalid hmac_sha512 pubc hmac_sha512_length). Qed.
Print Assumptions C03k_errors_are_bip32_invalid.

Theorem C03k_total : forall seed p, graceful (derive hmac_sha512 pubc seed p).
Proof. exact (C03.C03_total hmac_sha512 pubc hmac_sha512_length). Qed.
Print Assumptions C03k_total.

Theorem C03k_key_in_range : forall seed p k,
  derive hmac_sha512 pubc seed p = Ok k -> 0 < k < secp256k1_n.
Proof. exact (C03.C03_key_in_range hmac_sha512 pubc). Qed.
Print Assumptions C03k_key_in_range.

Theorem C03k_hardened_uses_private : forall seed v k', v < 2^31 ->
  derive hmac_sha512 pubc seed [Hardened v] = Ok k' ->
  let I := hmac_sha512 (s2l "Bitcoin seed") seed in
  let k := be_val (firstn 32 I) in
  let I' := hmac_sha512 (skipn 32 I) ([0] ++ be_fixed 32 k ++ be_fixed 4 (v + 2^31)) in
  k' = (be_val (firstn 32 I') + k) mod secp256k1_n.
Proof. exact (C03.C03_hardened_uses_private hmac_sha512 pubc hmac_sha512_length). Qed.
Print Assumptions C03k_hardened_uses_private.

Theorem C03k_normal_uses_public : forall seed v k', v < 2^31 ->
  derive hmac_sha512 pubc seed [Normal v] = Ok k' ->
  let I := hmac_sha512 (s2l "Bitcoin seed") seed in
  let k := be_val (firstn 32 I) in
  let I' := hmac_sha512 (skipn 32 I) (pubc k ++ be_fixed 4 v) in
  k' = (be_val (firstn 32 I') + k) mod secp256k1_n.
Proof. exact (C03.C03_normal_uses_public hmac_sha512 pubc hmac_sha512_length). Qed.
Print Assumptions C03k_normal_uses_public.
