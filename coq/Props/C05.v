(** C05 - signatures are valid, recoverable, low-s and RFC 6979 deterministic.

    Model: [Model/Ecdsa.v] ([sign] = [PrivateKey::try_sign]); standard definitions:
    [Spec/EcdsaSpec.v] ([verify], [recover], [rfc6979_ecdsa], [low_s_normalise]).

    The theorems are stated over an ABSTRACT group: the Section variables below are
    instantiated with the executable secp256k1 / HMAC-DRBG primitives only in the driver
    (Run/DC05.v).  The Section hypotheses are the documented trusted base of C05 (DESIGN.md
    Appendix A.4); after the section closes they are premises of every statement that
    needs them:

      n_gt1, inv_ok   n > 1 and [inv] inverts modulo n whatever is invertible (for the
                      concrete [inv_n] = a^(n-2) this is the primality of n)
      mul_add, mul_mul, mul_mod, neg_mul
                      [mul] is a Z/n-module action on <G> (group law of the curve)
      x_neg           a point and its opposite have the same abscissa
      lift_ok, lift_neg
                      decompression of (x(P), parity) gives back P, and -P for the other
                      parity (for P = k·G other than the point at infinity)
      nonce_range     the RFC 6979 generator returns a scalar in [1, n-1]

    [x_neg] is not in Appendix A.4's list: it is what validity of the low-s normalised
    signature needs (the prototype verified the un-normalised signature only).
    [lift_ok]/[lift_neg] are restricted to k <> 0 (mod n), weaker than in A.4. *)
From Coq Require Import ZArith Bool.
From HDW Require Import Lib.Outcome Model.Ecdsa Spec.EcdsaSpec Proofs.EcdsaProofs.
Local Open Scope Z_scope.

Section C05.
  Variables (E : Type) (G : E) (mul : Z -> E -> E) (add : E -> E -> E) (neg : E -> E)
            (xcoord : E -> Z) (yodd : E -> bool)
            (lift : Z -> bool -> option E)
            (n : Z) (inv : Z -> Z)
            (nonce : Z -> Z -> Z).

  Hypothesis n_gt1 : 1 < n.
  Hypothesis inv_ok : forall a, a mod n <> 0 -> (a * inv a) mod n = 1.
  Hypothesis mul_add : forall a b P, add (mul a P) (mul b P) = mul (a + b) P.
  Hypothesis mul_mul : forall a b P, mul a (mul b P) = mul (a * b) P.
  Hypothesis mul_mod : forall a, mul (a mod n) G = mul a G.
  Hypothesis neg_mul : forall P, neg P = mul (-1) P.
  Hypothesis x_neg : forall k, xcoord (neg (mul k G)) = xcoord (mul k G).
  Hypothesis lift_ok : forall k, k mod n <> 0 ->
    lift (xcoord (mul k G)) (yodd (mul k G)) = Some (mul k G).
  Hypothesis lift_neg : forall k, k mod n <> 0 ->
    lift (xcoord (mul k G)) (negb (yodd (mul k G))) = Some (neg (mul k G)).
  Hypothesis nonce_range : forall d h, 0 < nonce d h < n.

  Local Notation sign := (Ecdsa.sign E G mul xcoord yodd n inv nonce).
  Local Notation verify := (EcdsaSpec.verify E G mul add xcoord n inv).
  Local Notation recover := (EcdsaSpec.recover E G mul add neg lift n inv).
  Local Notation rfc6979_ecdsa := (EcdsaSpec.rfc6979_ecdsa E G mul xcoord yodd n inv nonce).
  Local Notation low_s_normalise := (EcdsaSpec.low_s_normalise n).

  (** Every signature has 1 <= r < n, 1 <= s <= n/2 and verifies against the signer's
      public key d·G. *)
  Theorem C05_valid : forall d h r s v,
    sign d h = Ok (r, s, v) -> 0 < d < n ->
    0 < r < n /\ 0 < s <= n / 2 /\ verify (mul d G) h r s = true.
  Proof.
    exact (EcdsaProofs.C05_valid E G mul add neg xcoord yodd n inv nonce
             n_gt1 inv_ok mul_add mul_mul mul_mod neg_mul x_neg nonce_range).
  Qed.

  (** Recovery from (digest, r, s, y parity) returns the signer's public key, provided
      x(R) < n: hdwallet drops k256's [is_x_reduced] bit, so for the about 2^-128 fraction
      of nonces with n <= x(k·G) < p recovery (by anybody, from hdwallet's output) cannot
      work.  Nobody can exhibit such a nonce. *)
  Theorem C05_recover : forall d h r s v,
    sign d h = Ok (r, s, v) -> 0 < d < n ->
    0 <= xcoord (mul (nonce d h) G) < n ->
    recover h r s v = Some (mul d G).
  Proof.
    exact (EcdsaProofs.C05_recover E G mul add neg xcoord yodd lift n inv nonce
             n_gt1 inv_ok mul_add mul_mul mul_mod neg_mul lift_ok lift_neg nonce_range).
  Qed.

  (** low s, in the form of EIP-2 (2 s <= n) and of k256 ([is_high] false) *)
  Theorem C05_low_s : forall d h r s v,
    sign d h = Ok (r, s, v) -> 2 * s <= n /\ Ecdsa.is_high n s = false.
  Proof.
    exact (EcdsaProofs.C05_low_s E G mul xcoord yodd n inv nonce n_gt1).
  Qed.

  (** With R = k·G and s0 the raw s = k^-1 (z + r d): when s0 is high the result carries
      n - s0 and the negated parity of y(R), otherwise s0 and the parity itself. *)
  Theorem C05_parity_flip : forall d h r s v,
    sign d h = Ok (r, s, v) ->
    let R := mul (nonce d h) G in
    let s0 := (inv (nonce d h) * (h mod n + (xcoord R mod n) * d)) mod n in
    (n / 2 < s0 -> s = n - s0 /\ v = negb (yodd R)) /\
    (s0 <= n / 2 -> s = s0 /\ v = yodd R).
  Proof.
    exact (EcdsaProofs.C05_parity_flip E G mul xcoord yodd n inv nonce).
  Qed.

  (** Signing is a function of (key, digest).  Trivial in Gallina - the content is in the
      model: [sign] has no other input (no RNG, empty additional data), which the
      differential check confirms against the implementation. *)
  Theorem C05_deterministic : forall d d' h h',
    d = d' -> h = h' -> sign d h = sign d' h'.
  Proof.
    exact (EcdsaProofs.C05_deterministic E G mul xcoord yodd n inv nonce).
  Qed.

  (** For a digest below the group order the result is the RFC 6979 signature, low-s
      normalised with the parity bit flipped accordingly.  (For h >= n the code feeds the
      unreduced digest bytes to the DRBG where RFC 6979 feeds bits2octets(h) = h mod n.) *)
  Theorem C05_rfc6979 : forall d h,
    0 <= h < n -> sign d h = low_s_normalise (rfc6979_ecdsa d h).
  Proof.
    exact (EcdsaProofs.C05_rfc6979 E G mul xcoord yodd n inv nonce).
  Qed.
End C05.

(** The Section hypotheses are satisfiable (toy instance: Z/7, see [EcdsaProofs.Toy]), so
    the theorems above are not vacuous; on that instance validity and recoverability hold
    without any hypothesis. *)
Example C05_hypotheses_satisfiable :
  exists (E : Type) (G : E) (mul : Z -> E -> E) (add : E -> E -> E) (neg : E -> E)
         (xcoord : E -> Z) (yodd : E -> bool) (lift : Z -> bool -> option E)
         (n : Z) (inv : Z -> Z) (nonce : Z -> Z -> Z),
    1 < n /\
    (forall a, a mod n <> 0 -> (a * inv a) mod n = 1) /\
    (forall a b P, add (mul a P) (mul b P) = mul (a + b) P) /\
    (forall a b P, mul a (mul b P) = mul (a * b) P) /\
    (forall a, mul (a mod n) G = mul a G) /\
    (forall P, neg P = mul (-1) P) /\
    (forall k, xcoord (neg (mul k G)) = xcoord (mul k G)) /\
    (forall k, k mod n <> 0 -> lift (xcoord (mul k G)) (yodd (mul k G)) = Some (mul k G)) /\
    (forall k, k mod n <> 0 ->
       lift (xcoord (mul k G)) (negb (yodd (mul k G))) = Some (neg (mul k G))) /\
    (forall d h : Z, 0 < nonce d h < n).
Proof. exact Toy.satisfiable. Qed.

Example C05_toy : forall d h r s v,
  Toy.sign d h = Ok (r, s, v) -> 0 < d < Toy.n ->
  0 < r < Toy.n /\ 0 < s <= Toy.n / 2 /\ Toy.verify (Toy.mul d Toy.G) h r s = true /\
  Toy.recover h r s v = Some (Toy.mul d Toy.G).
Proof. exact Toy.toy_valid_recover. Qed.

Print Assumptions C05_valid.
Print Assumptions C05_recover.
Print Assumptions C05_low_s.
Print Assumptions C05_parity_flip.
Print Assumptions C05_deterministic.
Print Assumptions C05_rfc6979.
Print Assumptions C05_hypotheses_satisfiable.
Print Assumptions C05_toy.
