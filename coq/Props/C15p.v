(** C15 (pipeline) — feeding the output of [sign transaction --signature-only] to
    [hash transaction --signature] yields Keccak-256 of the full signed transaction that
    [sign transaction] prints.
    Statement only; the proof is one [exact] of a lemma from [Proofs/TxCmdProofs.v] (which uses
    [C15_roundtrip]).  Keccak-256 and the signer are arbitrary functions; the signer's results
    are valid signatures (first hypothesis). *)
From Coq Require Import String.
From Coq Require Import List NArith ZArith Bool.
From HDW Require Import Lib.Outcome Lib.Bytes Lib.Hex Model.Json Model.SigText Model.Tx Spec.TxSpec.
From HDW Require Proofs.TxCmdProofs.
Import ListNotations.
Open Scope N_scope.

(** [t1]: stdout of [sign transaction --signature-only]; [full]: stdout of [sign transaction]
    ([0x] and the hex digits of the signed transaction [bs]); then [t1] parses to a signature
    [σ] and [hash transaction --signature t1] prints [0x] and the hex digits of [keccak bs]. *)
Theorem C15_pipeline :
  forall (keccak : bytes -> bytes) (sign_digest : bytes -> outcome sig) allow j t1 full,
  (forall h σ, sign_digest h = Ok σ -> valid_sig σ) ->
  sign_tx_cmd keccak sign_digest allow true j = Ok t1 ->
  sign_tx_cmd keccak sign_digest allow false j = Ok full ->
  exists σ bs,
    parse_sig t1 = Ok σ /\ full = s2l "0x" ++ hex_encode bs
    /\ hash_tx_cmd keccak j (Some σ) = Ok (s2l "0x" ++ hex_encode (keccak bs)).
Proof. exact TxCmdProofs.pipeline. Qed.
Print Assumptions C15_pipeline.

(** the two modes of [hash transaction] *)
Theorem C15_hash_unsigned : forall (keccak : bytes -> bytes) j t,
  tx_of_json j = Ok t -> wf_tx t -> tx_fits t ->
  hash_tx_cmd keccak j None = Ok (s2l "0x" ++ hex_encode (keccak (payload t))).
Proof. exact TxCmdProofs.hash_cmd_unsigned. Qed.
Print Assumptions C15_hash_unsigned.

Theorem C15_hash_signed : forall (keccak : bytes -> bytes) j t σ,
  tx_of_json j = Ok t -> wf_tx t -> tx_fits t -> sig_fits σ ->
  hash_tx_cmd keccak j (Some σ) = Ok (s2l "0x" ++ hex_encode (keccak (signed_bytes t σ))).
Proof. exact TxCmdProofs.hash_cmd_signed. Qed.
Print Assumptions C15_hash_signed.
