(** C05 for the EXECUTABLE instance that the correspondence check runs ([Run/DC05.v]):
    [secp_sign] = [Ecdsa.sign] over [Prim/Secp256k1.v] (BigZ field arithmetic, Jacobian
    double-and-add), [inv_n] = a^(n-2) mod n, [secp_nonce] = the RFC 6979 HMAC-DRBG of
    [Prim/Rfc6979.v] over [Prim/Hmac.v].

    Everything that [Props/C05.v] proves WITHOUT the group laws holds for this instance with
    no premise left: ranges of r and s, low s, the parity rule, determinism, and equality
    with the RFC 6979 signature (low-s normalised) for digests below n.  Validity and
    recoverability ([C05_valid], [C05_recover]) need the curve's group laws, which are NOT
    proved for [Prim/Secp256k1.v]; for the executable instance they stay validated by the
    differential check (implementation vs this instance vs an independent Python secp256k1)
    and by the [Example]s of [Prim/Secp256k1.v].  The two premises of C05 that are plain
    facts about this instance are proved here as well ([C05k_n_gt1], [C05k_x_neg]). *)
From Coq Require Import ZArith Bool List.
From HDW Require Import Lib.Outcome Model.Ecdsa Spec.EcdsaSpec Proofs.EcdsaProofs.
From HDW Require Import Lib.Bytes Prim.Secp256k1 Prim.Hmac Prim.Rfc6979 Run.DC05.
Local Open Scope Z_scope.

Theorem C05k_n_gt1 : 1 < secp_n.
Proof. reflexivity. Qed.

(** r and s of every signature the executable instance returns: 1 <= r < n, 1 <= s <= n/2 *)
Theorem C05k_ranges : forall d h r s v,
  secp_sign d h = Ok (r, s, v) -> 0 < r < secp_n /\ 0 < s <= secp_n / 2.
Proof.
  exact (EcdsaProofs.sign_ranges point secp_G pt_mul secp_xcoord secp_yodd secp_n inv_n
           secp_nonce C05k_n_gt1).
Qed.

Theorem C05k_low_s : forall d h r s v,
  secp_sign d h = Ok (r, s, v) -> 2 * s <= secp_n /\ Ecdsa.is_high secp_n s = false.
Proof.
  exact (EcdsaProofs.C05_low_s point secp_G pt_mul secp_xcoord secp_yodd secp_n inv_n
           secp_nonce C05k_n_gt1).
Qed.

Theorem C05k_parity_flip : forall d h r s v,
  secp_sign d h = Ok (r, s, v) ->
  let R := pt_mul (secp_nonce d h) secp_G in
  let s0 := (inv_n (secp_nonce d h) * (h mod secp_n + (secp_xcoord R mod secp_n) * d)) mod secp_n in
  (secp_n / 2 < s0 -> s = secp_n - s0 /\ v = negb (secp_yodd R)) /\
  (s0 <= secp_n / 2 -> s = s0 /\ v = secp_yodd R).
Proof.
  exact (EcdsaProofs.C05_parity_flip point secp_G pt_mul secp_xcoord secp_yodd secp_n inv_n
           secp_nonce).
Qed.

Theorem C05k_deterministic : forall d d' h h',
  d = d' -> h = h' -> secp_sign d h = secp_sign d' h'.
Proof.
  exact (EcdsaProofs.C05_deterministic point secp_G pt_mul secp_xcoord secp_yodd secp_n inv_n
           secp_nonce).
Qed.

Theorem C05k_rfc6979 : forall d h,
  0 <= h < secp_n ->
  secp_sign d h = EcdsaSpec.low_s_normalise secp_n (secp_rfc6979_ecdsa d h).
Proof.
  exact (EcdsaProofs.C05_rfc6979 point secp_G pt_mul secp_xcoord secp_yodd secp_n inv_n
           secp_nonce).
Qed.

(** signing never panics or runs out of fuel: the only refusals are ordinary errors
    (k = 0, r = 0 or s = 0) *)
Theorem C05k_total : forall d h, graceful (secp_sign d h).
Proof.
  intros d h. unfold secp_sign, Ecdsa.sign.
  destruct (secp_nonce d h =? 0); [apply graceful_err|].
  match goal with |- context [if ?c then Err else _] => destruct c end; [apply graceful_err|].
  match goal with |- context [if ?c then _ else _] => destruct c end; apply graceful_ok.
Qed.

(** premise [x_neg] of C05, for every point of this instance with reduced coordinates *)
Theorem C05k_x_neg : forall P,
  secp_xcoord (pt_neg P) = secp_xcoord P mod secp_p.
Proof.
  intros [[x y]|]; reflexivity.
Qed.

(** premise [nonce_range] of C05 for the executable RFC 6979 generator, up to the model's
    own fuel bound: the retry loop returns a candidate in [1, n-1], or 0 when 100 successive
    candidates were rejected (probability < 2^-12700; the Rust loop is unbounded) - and then
    [secp_sign] is an ordinary error, never a signature made with a bad nonce. *)
Theorem C05k_nonce_range : forall d h, 0 <= secp_nonce d h < secp_n.
Proof.
  intros d h. unfold secp_nonce, Prim.Rfc6979.rfc6979_k.
  destruct (Prim.Rfc6979.drbg_new _ _ _) as [K V].
  pose proof (Prim.Rfc6979.drbg_loop_range Prim.Hmac.hmac_sha256 Prim.Rfc6979.rfc6979_fuel K V (Z.to_N secp_n)
                ltac:(reflexivity)) as H.
  split; [apply N2Z.is_nonneg|].
  apply N2Z.inj_lt in H. rewrite Z2N.id in H by (vm_compute; discriminate). exact H.
Qed.

Theorem C05k_nonce_zero_is_error : forall d h, secp_nonce d h = 0 -> secp_sign d h = Err.
Proof.
  intros d h H. unfold secp_sign, Ecdsa.sign. rewrite H. reflexivity.
Qed.

(** a concrete, non-trivial instance (key 1, digest 1): the hypotheses of the theorems above
    are met by an actual signature, computed by the kernel's VM *)
Example C05k_witness :
  exists r s v, secp_sign 1 1 = Ok (r, s, v) /\ 0 < r < secp_n /\ 2 * s <= secp_n.
Proof.
  destruct (secp_sign 1 1) as [[[r s] v]| | |] eqn:E.
  - exists r, s, v. split; [reflexivity|].
    pose proof (C05k_ranges 1 1 r s v E) as [Hr _].
    pose proof (C05k_low_s 1 1 r s v E) as [Hs _]. split; assumption.
  - exfalso. revert E. vm_compute. discriminate.
  - exfalso. revert E. vm_compute. discriminate.
  - exfalso. revert E. vm_compute. discriminate.
Qed.

Print Assumptions C05k_n_gt1.
Print Assumptions C05k_ranges.
Print Assumptions C05k_low_s.
Print Assumptions C05k_parity_flip.
Print Assumptions C05k_deterministic.
Print Assumptions C05k_rfc6979.
Print Assumptions C05k_total.
Print Assumptions C05k_x_neg.
Print Assumptions C05k_nonce_range.
Print Assumptions C05k_nonce_zero_is_error.
Print Assumptions C05k_witness.
