(** C13 at transaction level — equal integers in different spellings give identical
    encodings; a refused member refuses the document.
    Statements only; every proof is one [exact] of a lemma from [Proofs/TxParseProofs.v].
    (The field-level theorems are in [Props/C13.v]; [C06_fields_from_json] and [C06_num_field]
    tie each transaction field to them.) *)
From Coq Require Import String.
From Coq Require Import List NArith ZArith Bool.
From HDW Require Import Lib.Outcome Lib.Bytes Lib.Hex Lib.Decimal Model.Json Model.Num Model.Rlp
  Model.SigText Model.Tx Spec.RlpSpec Spec.TxSpec.
From HDW Require Proofs.TxParseProofs.
Import ListNotations.
Open Scope N_scope.

(** Two documents that select the same kind and whose members parse, field by field, to the
    same results ([same_fields]: e.g. the same integer in different spellings) give the same
    transaction (or are both refused), hence identical encodings and digests. *)
Theorem C13_tx_same_encoding : forall kvs1 kvs2,
  same_fields kvs1 kvs2 -> tx_of_json (JObj kvs1) = tx_of_json (JObj kvs2).
Proof. exact TxParseProofs.same_fields_same_tx. Qed.
Print Assumptions C13_tx_same_encoding.

(** If a member that the selected kind reads is missing (when required) or refused by its
    field-level parser ([field_rejected]), the document is refused with an error. *)
Theorem C13_tx_reject_field : forall kvs, field_rejected kvs -> tx_of_json (JObj kvs) = Err.
Proof. exact TxParseProofs.reject_field. Qed.
Print Assumptions C13_tx_reject_field.

(** special cases: a numeric member refused by [permissive_u256] (negative, fractional, not
    below 2^256, empty, not a number: [Props/C13.v]) ... *)
Theorem C13_tx_reject_numeric : forall kvs k j,
  In k (numeric_keys (kind_of_keys kvs)) -> obj_get k kvs = Some j -> permissive_u256 j = Err ->
  tx_of_json (JObj kvs) = Err.
Proof. exact TxParseProofs.reject_numeric. Qed.
Print Assumptions C13_tx_reject_numeric.

(** ... or missing (nothing is defaulted) ... *)
Theorem C13_tx_reject_missing : forall kvs k,
  In k (numeric_keys (kind_of_keys kvs)) -> obj_get k kvs = None -> tx_of_json (JObj kvs) = Err.
Proof. exact TxParseProofs.reject_missing. Qed.
Print Assumptions C13_tx_reject_missing.

(** ... bad calldata, a bad recipient. *)
Theorem C13_tx_reject_data : forall kvs j,
  obj_get k_data kvs = Some j -> bytes_field j = Err -> tx_of_json (JObj kvs) = Err.
Proof. exact TxParseProofs.reject_data. Qed.
Print Assumptions C13_tx_reject_data.

Theorem C13_tx_reject_to : forall kvs j,
  obj_get k_to kvs = Some j -> j <> JNull -> address_field j = Err -> tx_of_json (JObj kvs) = Err.
Proof. exact TxParseProofs.reject_to. Qed.
Print Assumptions C13_tx_reject_to.

(* ------------------------------------------------------------------ *)
(** ** Examples: one transaction, four spellings of each number *)

Definition ex_doc (nonce gas value : json) : json :=
  JObj [(k_nonce, nonce); (k_gas_price, JStr (s2l "0x0")); (k_gas, gas); (k_value, value);
        (k_data, JStr (s2l "0xC0ffEE")); (k_chain_id, JStr (s2l "0o1"))].

Example C13_tx_ex_spellings :
  let d1 := ex_doc (JU64 255) (JU64 21000) (JU64 1024) in
  let d2 := ex_doc (JStr (s2l "0xff")) (JStr (s2l "21000")) (JF64 1 10) in
  let d3 := ex_doc (JStr (s2l "0xFF")) (JF64 2625 3) (JStr (s2l "+0b10000000000")) in
  let d4 := ex_doc (JF64 255 0) (JStr (s2l "0x5208")) (JStr (s2l "0x00400")) in
  is_ok (tx_of_json d1) = true
  /\ tx_of_json d1 = tx_of_json d2 /\ tx_of_json d1 = tx_of_json d3 /\ tx_of_json d1 = tx_of_json d4.
Proof. vm_compute. repeat split; reflexivity. Qed.

Example C13_tx_ex_rejects :
  tx_of_json (ex_doc (JI64 (-1)) (JU64 21000) (JU64 0)) = Err
  /\ tx_of_json (ex_doc (JF64 3 (-1)) (JU64 21000) (JU64 0)) = Err
  /\ tx_of_json (ex_doc (JU64 0) (JStr (decimal (2 ^ 256))) (JU64 0)) = Err
  /\ tx_of_json (ex_doc (JU64 0) (JU64 21000) (JStr [])) = Err
  /\ tx_of_json (ex_doc (JU64 0) (JU64 21000) JNull) = Err
  /\ is_ok (tx_of_json (ex_doc (JU64 0) (JStr (decimal (2 ^ 256 - 1))) (JU64 0))) = true.
Proof. vm_compute. repeat split; reflexivity. Qed.
