(** C03 — Derived keys equal BIP-32 CKDpriv along the whole path.
    Statements only; every proof is one [exact] of a lemma from [Proofs/Bip32Proofs.v].

    [derive] (Model/Bip32.v) is the model of [hdk::derive] + [PrivateKey::secret];
    [bip32] (Spec/Bip32Spec.v) is BIP-32 (master key generation, then CKDpriv per index);
    [bip32_strict] is [bip32] with the one extra invalidity rule the code has (a child whose
    parse256(IL) is 0 is refused).  Every statement holds for every [hmac512] whose output has 64
    bytes and every [pub_compressed] (the primitives are opaque).  [canonical_path p]: every
    component value is below 2^31, which the path parser guarantees.  The statements also cover
    the empty path (the parser never produces it; [p <> []] is not needed). *)
From Coq Require Import String.
From Coq Require Import List NArith Bool.
From HDW Require Import Lib.Outcome Lib.Bytes Model.Path Model.Bip32 Spec.Bip32Spec
  Proofs.Bip32Proofs.
Import ListNotations.
Open Scope N_scope.

(** [value | HARDENED] is BIP-32's i + 2^31. *)
Theorem C03_lor_is_add : forall v, v < 2^31 -> N.lor v (2^31) = v + 2^31.
Proof. exact lor_is_add. Qed.
Print Assumptions C03_lor_is_add.

(** The indices handed to the spec are 32-bit, as BIP-32 requires of CKDpriv. *)
Theorem C03_index_32bit : forall c, comp_value c < 2^31 -> index c < 2^32.
Proof. exact index_lt. Qed.
Print Assumptions C03_index_32bit.

(** [canonical_path] is the [in_range] that C14 proves of every parsed path, and [index] is the
    [bip32_index] of [Model/Path.v] on such paths. *)
Theorem C03_canonical_is_in_range : canonical_path = in_range.
Proof. exact canonical_path_in_range. Qed.
Print Assumptions C03_canonical_is_in_range.

Theorem C03_index_is_bip32_index : forall c, comp_value c < 2^31 -> bip32_index c = index c.
Proof. exact index_bip32_index. Qed.
Print Assumptions C03_index_is_bip32_index.

(** Derivation is BIP-32 with the extra "IL = 0 is invalid" rule: same key, or an error exactly
    when that derivation is invalid. *)
Theorem C03_refines :
  forall (hmac512 : bytes -> bytes -> bytes) (pub_compressed : N -> bytes),
  (forall k m, length (hmac512 k m) = 64%nat) ->
  forall seed p, canonical_path p ->
    derive hmac512 pub_compressed seed p =
    match bip32_strict hmac512 pub_compressed seed (map index p) with
    | Some k => Ok k
    | None => Err
    end.
Proof. exact refines_match. Qed.
Print Assumptions C03_refines.

(** How [bip32_strict] and [bip32] are related: the strict one only ever refuses more ... *)
Theorem C03_strict_implies_bip32 :
  forall (hmac512 : bytes -> bytes -> bytes) (pub_compressed : N -> bytes) seed is k,
    bip32_strict hmac512 pub_compressed seed is = Some k ->
    bip32 hmac512 pub_compressed seed is = Some k.
Proof. exact bip32_strict_some. Qed.
Print Assumptions C03_strict_implies_bip32.

(** ... and it refuses more only when some parse256(IL) along the path is 0 (probability 2^-256
    per step for a pseudo-random HMAC). *)
Theorem C03_bip32_implies_strict_or_zero_IL :
  forall (hmac512 : bytes -> bytes -> bytes) (pub_compressed : N -> bytes) seed is k,
    bip32 hmac512 pub_compressed seed is = Some k ->
    bip32_strict hmac512 pub_compressed seed is = Some k
    \/ zero_IL_along hmac512 pub_compressed seed is.
Proof. exact bip32_some_strict. Qed.
Print Assumptions C03_bip32_implies_strict_or_zero_IL.

(** Derivation never yields a key other than BIP-32's. *)
Theorem C03_never_other_key :
  forall (hmac512 : bytes -> bytes -> bytes) (pub_compressed : N -> bytes),
  (forall k m, length (hmac512 k m) = 64%nat) ->
  forall seed p k, canonical_path p ->
    derive hmac512 pub_compressed seed p = Ok k ->
    bip32 hmac512 pub_compressed seed (map index p) = Some k.
Proof. exact never_other_key. Qed.
Print Assumptions C03_never_other_key.

(** Whenever BIP-32 yields a key, derivation yields that key, unless some IL on the way is 0. *)
Theorem C03_complete :
  forall (hmac512 : bytes -> bytes -> bytes) (pub_compressed : N -> bytes),
  (forall k m, length (hmac512 k m) = 64%nat) ->
  forall seed p k, canonical_path p ->
    bip32 hmac512 pub_compressed seed (map index p) = Some k ->
    derive hmac512 pub_compressed seed p = Ok k
    \/ zero_IL_along hmac512 pub_compressed seed (map index p).
Proof. exact complete. Qed.
Print Assumptions C03_complete.

(** An error is reported only where (strict) BIP-32 declares the derivation invalid. *)
Theorem C03_errors_are_bip32_invalid :
  forall (hmac512 : bytes -> bytes -> bytes) (pub_compressed : N -> bytes),
  (forall k m, length (hmac512 k m) = 64%nat) ->
  forall seed p, canonical_path p ->
    derive hmac512 pub_compressed seed p = Err ->
    bip32_strict hmac512 pub_compressed seed (map index p) = None.
Proof. exact errors_are_invalid. Qed.
Print Assumptions C03_errors_are_bip32_invalid.

(** Never a panic (the [..32] slices and [split_at(32)] are in range because HMAC-SHA512 gives
    64 bytes), for every path, canonical or not. *)
Theorem C03_total :
  forall (hmac512 : bytes -> bytes -> bytes) (pub_compressed : N -> bytes),
  (forall k m, length (hmac512 k m) = 64%nat) ->
  forall seed p, graceful (derive hmac512 pub_compressed seed p).
Proof. exact total. Qed.
Print Assumptions C03_total.

(** The key is a valid secp256k1 secret and [PrivateKey::secret()] is its 32-byte big-endian form. *)
Theorem C03_secret_bytes :
  forall (hmac512 : bytes -> bytes -> bytes) (pub_compressed : N -> bytes) seed p k,
    derive hmac512 pub_compressed seed p = Ok k ->
    derive_secret hmac512 pub_compressed seed p = Ok (be_fixed 32 k)
    /\ length (be_fixed 32 k) = 32%nat /\ be_val (be_fixed 32 k) = k.
Proof. exact derive_secret_roundtrip. Qed.
Print Assumptions C03_secret_bytes.

Theorem C03_key_in_range :
  forall (hmac512 : bytes -> bytes -> bytes) (pub_compressed : N -> bytes) seed p k,
    derive hmac512 pub_compressed seed p = Ok k -> 0 < k < secp256k1_n.
Proof. exact derive_range. Qed.
Print Assumptions C03_key_in_range.

(** One loop iteration: the next chain code is the right half of the HMAC keyed with the current
    chain code; the next key is (left half + current key) mod n. *)
Theorem C03_chain_code_carried :
  forall (hmac512 : bytes -> bytes -> bytes) (pub_compressed : N -> bytes),
  (forall k m, length (hmac512 k m) = 64%nat) ->
  forall (ek : bytes) c (ek' : bytes), (32 <= length ek)%nat ->
    derive_step hmac512 pub_compressed ek c = Ok ek' ->
    let k := be_val (firstn 32 ek) in
    let I := hmac512 (skipn 32 ek) (child_data pub_compressed k c) in
    skipn 32 ek' = skipn 32 I
    /\ firstn 32 ek' = be_fixed 32 ((be_val (firstn 32 I) + k) mod secp256k1_n).
Proof. exact chain_code_carried. Qed.
Print Assumptions C03_chain_code_carried.

(** A hardened child hashes 0x00 ‖ parent private key ‖ ser32(v + 2^31) ... *)
Theorem C03_hardened_uses_private :
  forall (hmac512 : bytes -> bytes -> bytes) (pub_compressed : N -> bytes),
  (forall k m, length (hmac512 k m) = 64%nat) ->
  forall seed v k', v < 2^31 ->
    derive hmac512 pub_compressed seed [Hardened v] = Ok k' ->
    let I := hmac512 (s2l "Bitcoin seed") seed in
    let k := be_val (firstn 32 I) in
    let I' := hmac512 (skipn 32 I) ([0] ++ be_fixed 32 k ++ be_fixed 4 (v + 2^31)) in
    k' = (be_val (firstn 32 I') + k) mod secp256k1_n.
Proof. exact hardened_uses_private. Qed.
Print Assumptions C03_hardened_uses_private.

(** ... a normal child hashes the compressed parent public key ‖ ser32(v). *)
Theorem C03_normal_uses_public :
  forall (hmac512 : bytes -> bytes -> bytes) (pub_compressed : N -> bytes),
  (forall k m, length (hmac512 k m) = 64%nat) ->
  forall seed v k', v < 2^31 ->
    derive hmac512 pub_compressed seed [Normal v] = Ok k' ->
    let I := hmac512 (s2l "Bitcoin seed") seed in
    let k := be_val (firstn 32 I) in
    let I' := hmac512 (skipn 32 I) (pub_compressed k ++ be_fixed 4 v) in
    k' = (be_val (firstn 32 I') + k) mod secp256k1_n.
Proof. exact normal_uses_public. Qed.
Print Assumptions C03_normal_uses_public.

(** Non-vacuity with toy primitives: a constant "HMAC" whose halves are 0x0101..01 < n gives
    master key k = 0x0101..01 and child 2k mod n; a constant 0xFF.. "HMAC" is invalid (>= n). *)
Example C03_example_ok :
  derive (fun _ _ => repeat 1 64) (fun _ => repeat 2 33) [7] [Hardened 0; Normal 5]
  = Ok (3 * be_val (repeat 1 32))
  /\ bip32 (fun _ _ => repeat 1 64) (fun _ => repeat 2 33) [7] [2^31; 5]
     = Some (3 * be_val (repeat 1 32)).
Proof. split; vm_compute; reflexivity. Qed.

Example C03_example_err :
  derive (fun _ _ => repeat 255 64) (fun _ => repeat 2 33) [7] [Hardened 0] = Err
  /\ bip32 (fun _ _ => repeat 255 64) (fun _ => repeat 2 33) [7] [2^31] = None.
Proof. split; vm_compute; reflexivity. Qed.
