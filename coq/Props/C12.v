(** C12 — New mnemonics carry exactly the OS entropy; entropy failure is an error (partial: the
    unpredictability of the kernel's bytes is outside any model).  Statements only. *)
From Coq Require Import String.
From Coq Require Import List NArith Bool PeanoNat Arith.
From HDW Require Import Lib.Outcome Lib.Bytes Model.Bip39 Spec.Bip39Spec Model.Entropy Proofs.EntropyProofs.
Import ListNotations.
Close Scope N_scope.
Open Scope nat_scope.

(** Supported lengths are exactly 12, 15, 18, 21, 24; the entropy request is for L*4/3 bytes. *)
Theorem C12_supported : forall L n, byte_len L = Ok n <-> (valid_word_count L /\ n = (L * 4 / 3)%nat).
Proof. exact byte_len_supported. Qed.
Print Assumptions C12_supported.

(** One request of exactly L*4/3 bytes is made; the mnemonic's entropy IS the bytes the source
    returned (an equality of byte lists: every entropy bit is an oracle bit, none is constant or
    derived otherwise); its word count is L; nothing else is consumed. *)
Theorem C12_exact : forall sha256 : bytes -> bytes, forall L n e rest reqs,
  byte_len L = Ok n -> length e = n -> bytes_ok e ->
  random sha256 L {| pending := Some e :: rest; requests := reqs |}
    = (Ok (mk_mnemonic sha256 e), {| pending := rest; requests := reqs ++ [n] |})
  /\ firstn (m_len (mk_mnemonic sha256 e)) (m_buf (mk_mnemonic sha256 e)) = e
  /\ mnemonic_length (mk_mnemonic sha256 e) = L.
Proof.
  intros sha256 L n e rest reqs HL He Hok. split; [|split].
  - exact (random_exact sha256 L n e rest reqs HL He).
  - exact (entropy_of_mk sha256 e).
  - exact (mnemonic_length_of_random sha256 L n e HL He Hok).
Qed.
Print Assumptions C12_exact.

(** What [new -n L] prints is the BIP-39 phrase of exactly those bytes. *)
Theorem C12_phrase : forall sha256 : bytes -> bytes,
  (forall x, length (sha256 x) = 32%nat) -> (forall x, bytes_ok (sha256 x)) ->
  forall L n e rest reqs, byte_len L = Ok n -> length e = n -> bytes_ok e ->
  new_cmd sha256 L {| pending := Some e :: rest; requests := reqs |}
  = (Ok (bip39_phrase sha256 e), {| pending := rest; requests := reqs ++ [n] |}).
Proof. exact new_cmd_exact. Qed.
Print Assumptions C12_phrase.

(** Different entropy gives a different phrase (no bit of the entropy is dropped). *)
Theorem C12_phrase_injective : forall sha256 : bytes -> bytes,
  (forall x, length (sha256 x) = 32%nat) -> (forall x, bytes_ok (sha256 x)) ->
  forall e1 e2, bytes_ok e1 -> bytes_ok e2 -> valid_ent_len (length e1) -> valid_ent_len (length e2) ->
  bip39_phrase sha256 e1 = bip39_phrase sha256 e2 -> e1 = e2.
Proof. exact phrase_injective. Qed.
Print Assumptions C12_phrase_injective.

(** Unsupported lengths are refused (and no entropy is requested). *)
Theorem C12_unsupported : forall (sha256 : bytes -> bytes) L st,
  ~ valid_word_count L -> random sha256 L st = (Err, st) /\ new_cmd sha256 L st = (Err, st).
Proof. intros sha256 L st H. split; [exact (random_unsupported sha256 L st H) | exact (new_cmd_unsupported sha256 L st H)]. Qed.
Print Assumptions C12_unsupported.

(** If the source reports failure, generation fails and nothing is printed. *)
Theorem C12_failure : forall (sha256 : bytes -> bytes) L n rest reqs,
  byte_len L = Ok n ->
  random sha256 L {| pending := None :: rest; requests := reqs |} = (Err, {| pending := rest; requests := reqs ++ [n] |})
  /\ new_cmd sha256 L {| pending := None :: rest; requests := reqs |} = (Err, {| pending := rest; requests := reqs ++ [n] |}).
Proof. intros sha256 L n rest reqs H. split; [exact (random_failure sha256 L n rest reqs H) | exact (new_cmd_failure sha256 L n rest reqs H)]. Qed.
Print Assumptions C12_failure.

(** Every generated phrase parses back (to the same mnemonic, which prints the same phrase). *)
Theorem C12_reparse : forall sha256 : bytes -> bytes,
  (forall x, length (sha256 x) = 32%nat) -> (forall x, bytes_ok (sha256 x)) ->
  forall L n e, byte_len L = Ok n -> length e = n -> bytes_ok e ->
  from_phrase sha256 (bip39_phrase sha256 e) = Ok (mk_mnemonic sha256 e)
  /\ to_phrase (mk_mnemonic sha256 e) = Ok (bip39_phrase sha256 e).
Proof.
  intros sha256 H1 H2 L n e HL He Hok.
  assert (Hv : valid_ent_len (length e)) by (rewrite He; eapply byte_len_valid_ent; eauto).
  split; [exact (HDW.Props.C01.C01_roundtrip sha256 H1 H2 e Hok Hv) | exact (proj1 (HDW.Props.C01.C01_print sha256 H1 H2 e Hok Hv))].
Qed.
Print Assumptions C12_reparse.

(** Non-vacuity: 16 zero bytes give a 12-word mnemonic whatever the hash function. *)
Example C12_example : forall sha256 : bytes -> bytes,
  fst (random sha256 12%nat {| pending := [Some (repeat 0%N 16%nat)]; requests := [] |}) = Ok (mk_mnemonic sha256 (repeat 0%N 16%nat))
  /\ requests (snd (random sha256 12%nat {| pending := [Some (repeat 0%N 16%nat)]; requests := [] |})) = [16%nat]
  /\ fst (random sha256 13%nat {| pending := [Some (repeat 0%N 16%nat)]; requests := [] |}) = Err.
Proof. intros sha256. repeat split. Qed.
