(** C20 — Only well-formed EIP-712 domain types are accepted; and the member type grammar
    ([MemberKind::from_str] / [Display]) on which C20 and C08 rest.
    Statements only; every proof is one [exact] of a lemma from [Proofs/]. *)
From Coq Require Import String.
From Coq Require Import List NArith Bool PeanoNat.
From HDW Require Import Lib.Outcome Lib.Bytes Lib.Decimal.
From HDW Require Import Model.Eip712Kind Model.Domain Proofs.KindProofs Proofs.DomainProofs.
Import ListNotations.
Open Scope N_scope.

(* ================================================================== *)
(** * The member type grammar *)

(** The derived [PartialEq] decides equality of kinds. *)
Theorem Kind_eqb_spec : forall a b, kind_eqb a b = true <-> a = b.
Proof. exact kind_eqb_spec. Qed.
Print Assumptions Kind_eqb_spec.

(** The fuelled definition never runs out: any fuel above the length gives the same result. *)
Theorem Kind_fuel_enough : forall s n, (length s < n)%nat -> kind_of_string_fuel n s = kind_of_string s.
Proof. exact kind_fuel_enough. Qed.
Print Assumptions Kind_fuel_enough.

(** ... and the exhaustion branch is never evaluated ([kind_fuel_opt] is the parser
    instrumented to return [None] when it is). *)
Theorem Kind_fuel_never_exhausted : forall n s,
  (length s < n)%nat -> kind_fuel_opt n s = Some (kind_of_string s).
Proof. exact kind_fuel_never_exhausted. Qed.
Print Assumptions Kind_fuel_never_exhausted.

(** Printing a well-formed kind and parsing it back is the identity: bytes width 1..32,
    uint/int width a multiple of 8 in 8..256, array sizes up to [usize::MAX] = 2^64-1, struct
    names that are none of the four literals and contain no numeric character and no [']'];
    arbitrarily many array suffixes. *)
Theorem Kind_parse_display : forall k, wf_kind k -> kind_of_string (display_kind k) = k.
Proof. exact parse_display. Qed.
Print Assumptions Kind_parse_display.

(** The same with the weakest possible condition on struct names (the name itself parses as a
    struct; e.g. [Foo1], [bytes33], [uint7] qualify). *)
Theorem Kind_parse_display_gen : forall k,
  wf_kind_with struct_name_ok k -> kind_of_string (display_kind k) = k.
Proof. exact parse_display_gen. Qed.
Print Assumptions Kind_parse_display_gen.

(** [ident_like] covers every name made of ASCII letters, ['_'] and ['$'] other than
    [bool], [address], [bytes], [string]. *)
Theorem Kind_ident_like_ascii : forall name,
  ~ In name literal_atoms -> forallb ascii_ident_char name = true -> ident_like name.
Proof. exact ascii_ident_like. Qed.
Print Assumptions Kind_ident_like_ascii.

(** All 100 atomic types (4 literals, bytes1..bytes32, uint8..uint256, int8..int256; bound:
    the finite [atom_table]) parse to the intended kind and are printed back verbatim. *)
Theorem Kind_atoms :
  length atom_table = 100%nat /\
  Forall (fun e => kind_of_string (fst e) = snd e /\ display_kind (snd e) = fst e) atom_table.
Proof. exact (conj atom_table_length atoms). Qed.
Print Assumptions Kind_atoms.

(** Array suffixes, for every text in front of them. *)
Theorem Kind_array_dyn : forall t, kind_of_string (t ++ s2l "[]") = KArray (kind_of_string t) None.
Proof. exact kind_array_dyn. Qed.
Print Assumptions Kind_array_dyn.

Theorem Kind_array_fixed : forall t n, n <= usize_max ->
  kind_of_string (t ++ [91] ++ decimal n ++ [93]) = KArray (kind_of_string t) (Some n).
Proof. exact kind_array_fixed. Qed.
Print Assumptions Kind_array_fixed.

(** The [find(char::is_numeric)] / [split_at] / [parse::<u32>] step accepts exactly
    [bytes|uint|int] followed by ASCII digits (leading zeros allowed) of admissible value. *)
Theorem Kind_sized_atom_spec : forall s k, sized_atom s = Some k <-> sized_spec s k.
Proof. exact sized_atom_spec. Qed.
Print Assumptions Kind_sized_atom_spec.

(** The non-ASCII part of the [char::is_numeric] table (Unicode version) cannot influence the
    grammar. *)
Theorem Kind_numeric_table_irrelevant : forall p q s,
  numeric_like p -> numeric_like q -> sized_atom_with p s = sized_atom_with q s.
Proof. exact sized_atom_table_irrelevant. Qed.
Print Assumptions Kind_numeric_table_irrelevant.

Theorem Kind_numeric_like_is_numeric : numeric_like is_numeric.
Proof. exact numeric_like_is_numeric. Qed.
Print Assumptions Kind_numeric_like_is_numeric.

(** Non-vacuity / the behaviours pinned against the real code. *)
Example Kind_examples :
  kind_of_string (s2l "uint8[3][]") = KArray (KArray (KUint 8) (Some 3)) None
  /\ kind_of_string (s2l "Person[2][][7]")
     = KArray (KArray (KArray (KStruct (s2l "Person")) (Some 2)) None) (Some 7)
  /\ kind_of_string (s2l "uint08") = KUint 8
  /\ display_kind (kind_of_string (s2l "uint08")) = s2l "uint8"
  /\ kind_of_string (s2l "bytes33") = KStruct (s2l "bytes33")
  /\ kind_of_string (s2l "bytes0") = KStruct (s2l "bytes0")
  /\ kind_of_string (s2l "uint7") = KStruct (s2l "uint7")
  /\ kind_of_string (s2l "uint264") = KStruct (s2l "uint264")
  /\ kind_of_string (s2l "uint+8") = KStruct (s2l "uint+8")
  /\ kind_of_string (s2l "Foo1") = KStruct (s2l "Foo1")
  /\ kind_of_string (s2l "bytes" ++ [0xFF11]) = KStruct (s2l "bytes" ++ [0xFF11])
  /\ kind_of_string (s2l "x[+2]") = KArray (KStruct (s2l "x")) (Some 2)
  /\ kind_of_string (s2l "x[-1]") = KStruct (s2l "x[-1]")
  /\ kind_of_string (s2l "uint8[18446744073709551616]") = KStruct (s2l "uint8[18446744073709551616]")
  /\ kind_of_string (s2l "[]") = KArray (KStruct []) None
  /\ kind_of_string [] = KStruct []
  /\ struct_reference (kind_of_string (s2l "Person[2][][7]")) = Some (s2l "Person")
  /\ struct_reference (kind_of_string (s2l "uint8[]")) = None.
Proof. vm_compute. repeat split. Qed.

(* ================================================================== *)
(** * C20: the domain type check *)

(** Accepted exactly when the declared members are a non-empty order-preserving sub-sequence
    of name:string, version:string, chainId:uint256, verifyingContract:address, salt:bytes32
    (names and kinds of the members arbitrary, lists unbounded). *)
Theorem C20_iff : forall ms, verify_domain ms = Ok tt <-> domain_ok ms.
Proof. exact verify_domain_iff. Qed.
Print Assumptions C20_iff.

(** Anything else is an ordinary error. *)
Theorem C20_reject : forall ms, ~ domain_ok ms -> verify_domain ms = Err.
Proof. exact verify_domain_reject. Qed.
Print Assumptions C20_reject.

(** Exactly the 31 non-empty sub-sequences are accepted: the enumeration has 31 pairwise
    distinct entries, each is accepted, nothing else is. *)
Theorem C20_31 :
  (forall ms, verify_domain ms = Ok tt
              <-> In (map member_pair ms) (nonempty_sublists domain_members))
  /\ length (nonempty_sublists domain_members) = 31%nat
  /\ NoDup (nonempty_sublists domain_members)
  /\ Forall (fun s => verify_domain (map member_of_pair s) = Ok tt)
            (nonempty_sublists domain_members).
Proof.
  exact (conj verify_domain_31
        (conj nonempty_sublists_31 (conj nonempty_sublists_nodup verify_domain_31_accepted))).
Qed.
Print Assumptions C20_31.

(** Each field at most once. *)
Theorem C20_each_once : forall ms, ~ NoDup (map m_name ms) -> verify_domain ms = Err.
Proof. exact each_once. Qed.
Print Assumptions C20_each_once.

Theorem C20_each_once_repeated : forall pre mid post a b,
  m_name a = m_name b -> verify_domain (pre ++ a :: mid ++ b :: post) = Err.
Proof. exact each_once_repeated. Qed.
Print Assumptions C20_each_once_repeated.

(** Relative order: the names of an accepted domain are a sub-sequence of the standard order;
    exchanging any two members of an accepted domain gives a rejected one. *)
Theorem C20_order_names : forall ms,
  verify_domain ms = Ok tt -> sublist (map m_name ms) (map fst domain_members).
Proof. exact accepted_names_sublist. Qed.
Print Assumptions C20_order_names.

Theorem C20_order : forall pre mid post a b,
  verify_domain (pre ++ a :: mid ++ b :: post) = Ok tt ->
  verify_domain (pre ++ b :: mid ++ a :: post) = Err.
Proof. exact order_swapped. Qed.
Print Assumptions C20_order.

(** Exact types: a standard field declared with any other kind is refused, wherever it stands. *)
Theorem C20_exact_types : forall ms m k,
  In m ms -> In (m_name m, k) domain_members -> m_kind m <> k -> verify_domain ms = Err.
Proof. exact exact_types. Qed.
Print Assumptions C20_exact_types.

(** Unknown fields are refused, wherever they stand. *)
Theorem C20_unknown_field : forall ms m,
  In m ms -> ~ In (m_name m) (map fst domain_members) -> verify_domain ms = Err.
Proof. exact unknown_field. Qed.
Print Assumptions C20_unknown_field.

Theorem C20_empty : verify_domain [] = Err.
Proof. exact empty_rejected. Qed.
Print Assumptions C20_empty.

(** A document without a domain type is refused. *)
Theorem C20_missing : forall types,
  ~ In (s2l "EIP712Domain") (map fst types) -> verify_domain_type types = Err.
Proof. exact missing_domain. Qed.
Print Assumptions C20_missing.

Theorem C20_type_iff : forall types,
  verify_domain_type types = Ok tt <->
  exists ms, types_get (s2l "EIP712Domain") types = Some ms /\ domain_ok ms.
Proof. exact verify_domain_type_iff. Qed.
Print Assumptions C20_type_iff.

(** Never a panic, never out of fuel. *)
Theorem C20_total : forall ms, graceful (verify_domain ms).
Proof. exact verify_domain_total. Qed.
Print Assumptions C20_total.

Theorem C20_type_total : forall types, graceful (verify_domain_type types).
Proof. exact verify_domain_type_total. Qed.
Print Assumptions C20_type_total.

(** Non-vacuity, with kinds obtained from type strings as in a document. *)
Local Open Scope string_scope.
Example C20_examples :
  let mk (n t : string) := {| m_name := s2l n; m_kind := kind_of_string (s2l t) |} in
  verify_domain [mk "name" "string"; mk "chainId" "uint256"; mk "salt" "bytes32"] = Ok tt
  /\ verify_domain [mk "chainId" "uint256"; mk "name" "string"] = Err
  /\ verify_domain [mk "name" "string"; mk "name" "string"] = Err
  /\ verify_domain [mk "name" "string"; mk "salt" "bytes"] = Err
  /\ verify_domain [mk "name" "string"; mk "foo" "string"] = Err
  /\ verify_domain [mk "chainId" "uint0256"] = Ok tt.
Proof. vm_compute. repeat split. Qed.
