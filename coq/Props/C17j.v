(** C17 (companion) — reading a JSON document: the reader of [Model/JsonText.v]
    ([serde_json::from_slice] as hdwallet calls it for transactions and typed data) returns a value or an
    ordinary error for EVERY byte string — no panic branch, and the fuel [parse_doc] gives the
    value parser (2·|s|+2) is never exhausted, whatever the nesting — and so does the whole pipeline
    bytes -> JSON -> transaction.  Statements only. *)
From Coq Require Import List NArith ZArith Bool.
From HDW Require Import Lib.Outcome Lib.Bytes Model.Json Model.JsonText Model.Tx Proofs.JsonTextProofs.
From HDW Require Import Model.Eip712Values Spec.Eip712ValueSpec Proofs.Eip712ValueInst.
From HDW Require Props.C06 Props.C17.
Import ListNotations.
Open Scope N_scope.

Theorem C17j_json_reader_total : forall s : bytes, graceful (parse_doc s).
Proof. exact parse_doc_total. Qed.
Print Assumptions C17j_json_reader_total.

(** every sub-parser consumes input: the rest it returns is strictly shorter than what it was given *)
Theorem C17j_value_parser_consumes : forall f d s,
  (2 * length s + 2 <= f)%nat -> good s (pv f d s).
Proof. intros f d s. exact (proj1 (all_steps f) d s). Qed.
Print Assumptions C17j_value_parser_consumes.

(** bytes -> transaction: whatever double the floating-point reader [rnd] returns for the
    non-integer literals, the pipeline ends in a transaction or an ordinary error *)
Theorem C17j_value_view_total : forall rnd (s : bytes), graceful (json_of_text rnd s).
Proof. exact json_of_text_total. Qed.
Print Assumptions C17j_value_view_total.

Theorem C17j_transaction_text_total : forall rnd (s : bytes),
  graceful (bind (json_of_text rnd s) tx_of_json).
Proof.
  intros rnd s. apply graceful_bind; [apply json_of_text_total|]. intros j _. apply C06.C06_total.
Qed.
Print Assumptions C17j_transaction_text_total.

(** bytes -> typed data: the three digests or an ordinary error, for every byte string *)
Theorem C17j_typed_data_text_total : forall rnd (s : bytes),
  graceful (bind (json_of_text rnd s) (compute_p real_prims)).
Proof.
  intros rnd s. apply graceful_bind; [apply json_of_text_total|]. intros j _.
  exact (proj2 (proj2 C17.C17_total_typed_data) j).
Qed.
Print Assumptions C17j_typed_data_text_total.
