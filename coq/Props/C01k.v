(** C01 (companion) — the theorems of [Props/C01.v] at the executable SHA-256 of
    [Prim/Sha256.v], i.e. about exactly the functions [Run/DC01.v] evaluates
    ([from_phrase sha256], [to_phrase (mk_mnemonic sha256 e)]).  No hypothesis about the hash
    is left: [Sha256.sha256_length] and [Sha256.sha256_ok] discharge the two premises.
    Statements only; every proof is one [exact] of the general theorem.
    ([Print Assumptions] lists the kernel's primitive 63-bit integer operations, because
    [Prim.Sha256.sha256] computes with [Uint63]; no axiom about them is used.) *)
From Coq Require Import String.
From Coq Require Import List NArith Bool PeanoNat.
From HDW Require Import Lib.Outcome Lib.Radix Lib.Bytes Model.Wordlist Model.Bip39 Spec.Bip39Spec
  Proofs.WordlistProofs Proofs.ConcreteProofs.
From HDW Require Import Prim.Sha256.
From HDW Require Props.C01.
Import ListNotations.
Open Scope N_scope.

(** A phrase is accepted iff its white-space separated pieces are the BIP-39 words of some
    entropy of 16, 20, 24, 28 or 32 bytes (checksum = leading bits of the real SHA-256). *)
Theorem C01k_accept_iff : forall t,
  (exists m, from_phrase sha256 t = Ok m) <->
  (exists ent, bytes_ok ent /\ valid_ent_len (length ent)
     /\ split_ws t = map word (bip39_indices sha256 ent)).
Proof. exact (C01.C01_accept_iff sha256 sha256_length sha256_ok). Qed.
Print Assumptions C01k_accept_iff.

Theorem C01k_parse_value : forall t m, from_phrase sha256 t = Ok m ->
  exists ent, bytes_ok ent /\ valid_ent_len (length ent)
    /\ split_ws t = map word (bip39_indices sha256 ent) /\ m = mk_mnemonic sha256 ent.
Proof. exact (C01.C01_parse_value sha256 sha256_length sha256_ok). Qed.
Print Assumptions C01k_parse_value.

Theorem C01k_print : forall ent, bytes_ok ent -> valid_ent_len (length ent) ->
  to_phrase (mk_mnemonic sha256 ent) = Ok (bip39_phrase sha256 ent)
  /\ mnemonic_length (mk_mnemonic sha256 ent) = length (bip39_indices sha256 ent).
Proof. exact (C01.C01_print sha256 sha256_length sha256_ok). Qed.
Print Assumptions C01k_print.

Theorem C01k_roundtrip : forall ent, bytes_ok ent -> valid_ent_len (length ent) ->
  from_phrase sha256 (bip39_phrase sha256 ent) = Ok (mk_mnemonic sha256 ent).
Proof. exact (C01.C01_roundtrip sha256 sha256_length sha256_ok). Qed.
Print Assumptions C01k_roundtrip.

Theorem C01k_canonical : forall t m,
  from_phrase sha256 t = Ok m -> to_phrase m = Ok (join [32] (split_ws t)).
Proof. exact (C01.C01_canonical sha256 sha256_length sha256_ok). Qed.
Print Assumptions C01k_canonical.

Theorem C01k_length : forall t m,
  from_phrase sha256 t = Ok m -> mnemonic_length m = length (split_ws t).
Proof. exact (C01.C01_length sha256 sha256_length sha256_ok). Qed.
Print Assumptions C01k_length.

Theorem C01k_total : forall t, graceful (from_phrase sha256 t).
Proof. exact (C01.C01_total sha256 sha256_length sha256_ok). Qed.
Print Assumptions C01k_total.

Theorem C01k_total_print : forall ent, bytes_ok ent -> valid_ent_len (length ent) ->
  graceful (to_phrase (mk_mnemonic sha256 ent)).
Proof. exact (C01.C01_total_print sha256 sha256_length sha256_ok). Qed.
Print Assumptions C01k_total_print.

Theorem C01k_reject : forall t,
  ~ (exists ent, bytes_ok ent /\ valid_ent_len (length ent)
       /\ split_ws t = map word (bip39_indices sha256 ent)) ->
  from_phrase sha256 t = Err.
Proof. exact (C01.C01_reject sha256 sha256_length sha256_ok). Qed.
Print Assumptions C01k_reject.

Theorem C01k_reject_unknown_word : forall t,
  (exists w, In w (split_ws t) /\ search w = None) -> valid_word_count (length (split_ws t)) ->
  from_phrase sha256 t = Err.
Proof. exact (C01.C01_reject_unknown_word sha256 sha256_length sha256_ok). Qed.
Print Assumptions C01k_reject_unknown_word.

Theorem C01k_reject_checksum : forall t l,
  Forall2 (fun w i => search w = Some i) (split_ws t) l -> valid_word_count (length (split_ws t)) ->
  bip39_indices sha256 (leading_entropy l) <> l -> from_phrase sha256 t = Err.
Proof. exact (C01.C01_reject_checksum sha256 sha256_length sha256_ok). Qed.
Print Assumptions C01k_reject_checksum.

(** The word list.  [wordlist_file_sha256] is the digest the translator (vp/build.py) computed
    over the bytes of /repo/src/mnemonic/wordlist/english.txt when it generated
    [Model/Wordlist.v]; it is the published SHA-256 of the official BIP-39 english.txt. *)
Theorem C01k_wordlist_digest :
  wordlist_file_sha256 =
  [0x2f; 0x5e; 0xed; 0x53; 0xa4; 0x72; 0x7b; 0x4b; 0xf8; 0x88; 0x0d; 0x8f; 0x3f; 0x19; 0x9e; 0xfc;
   0x90; 0xe5; 0x85; 0x03; 0x64; 0x6d; 0x9f; 0xf8; 0xef; 0xf3; 0xa2; 0xed; 0x3b; 0x24; 0xdb; 0xda].
Proof. exact wordlist_digest_official. Qed.
Print Assumptions C01k_wordlist_digest.

(** Stronger, and inside Coq: the embedded list written out again as english.txt (every word
    followed by a line feed) and hashed with the executable SHA-256 of [Prim/Sha256.v] has that
    digest.  So the 2048 words of [Model/Wordlist.v], in this order, are the official BIP-39
    English list (up to a SHA-256 collision; that [Prim.Sha256.sha256] is SHA-256 is what the
    correspondence check of the primitives tests). *)
Theorem C01k_wordlist_regenerated_digest :
  sha256 (flat_map (fun w => utf8 w ++ [10]) wordlist) =
  [0x2f; 0x5e; 0xed; 0x53; 0xa4; 0x72; 0x7b; 0x4b; 0xf8; 0x88; 0x0d; 0x8f; 0x3f; 0x19; 0x9e; 0xfc;
   0x90; 0xe5; 0x85; 0x03; 0x64; 0x6d; 0x9f; 0xf8; 0xef; 0xf3; 0xa2; 0xed; 0x3b; 0x24; 0xdb; 0xda]
  /\ sha256 (flat_map (fun w => utf8 w ++ [10]) wordlist) = wordlist_file_sha256.
Proof. exact (conj wordlist_regenerated_digest wordlist_regenerated_digest_recorded). Qed.
Print Assumptions C01k_wordlist_regenerated_digest.
