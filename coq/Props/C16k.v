(** C16 (companion) — the account pipeline of [Props/C16.v] at the instantiation of
    [Run/DC16.v]: [c16_key mn pw sel] = [private_key] with [Prim.Sha256.sha256],
    [Prim.Pbkdf2.pbkdf2_hmac_sha512], [Prim.Nfkd.nfkd], [Prim.Hmac.hmac_sha512],
    [Run.DC03.pubc].  Statements only. *)
From Coq Require Import String.
From Coq Require Import List NArith ZArith Bool.
From HDW Require Import Lib.Outcome Lib.Bytes Lib.Hex.
From HDW Require Import Prim.Sha256 Prim.Pbkdf2 Prim.Nfkd Prim.Hmac Prim.Keccak.
From HDW Require Import Model.Bip39 Model.Seed Model.Path Model.Bip32 Model.Account Model.Cli.
From HDW Require Import Run.DC03 Run.DC04 Run.DC16.
From HDW Require Import Proofs.ConcreteProofs.
From HDW Require Props.C16.
Import ListNotations.
Open Scope N_scope.

(** The key every command uses: phrase -> seed (with the passphrase) -> path -> BIP-32 derivation,
    all with the real primitives. *)
Theorem C16k_account : forall mn pw sel k,
  c16_key mn pw sel = Ok k <->
  exists m sd p, from_phrase sha256 mn = Ok m /\ seed pbkdf2_hmac_sha512 nfkd m pw = Ok sd
                 /\ account_path sel = Ok p /\ derive hmac_sha512 pubc sd p = Ok k.
Proof. exact c16_key_iff. Qed.
Print Assumptions C16k_account.

(** Loading the account never panics and needs no fuel: a key or an ordinary error, for every
    phrase, passphrase and selector (composition of C01_total, the seed of a parsed mnemonic
    always existing, C14_total / C14_total_for_index and C03_total). *)
Theorem C16k_total : forall mn pw sel, graceful (c16_key mn pw sel).
Proof. exact c16_key_total. Qed.
Print Assumptions C16k_total.

(** [address], [export], [public-key] at the real primitives (C16_address, C16_export,
    C16_public_key instantiated; [c16_key] unfolds to that [private_key]). *)
Theorem C16k_address : forall mn pw sel t,
  cmd_address sha256 pbkdf2_hmac_sha512 nfkd hmac_sha512 pubc pubkey65 keccak256
    {| o_mnemonic := mn; o_password := pw; o_sel := sel |} = Ok t <->
  exists k a, c16_key mn pw sel = Ok k /\ address keccak256 pubkey65 k = Ok a /\ t = eip55 keccak256 a.
Proof.
  intros mn pw sel t.
  exact (C16.C16_address sha256 pbkdf2_hmac_sha512 nfkd hmac_sha512 pubc pubkey65 keccak256
           {| o_mnemonic := mn; o_password := pw; o_sel := sel |} t).
Qed.
Print Assumptions C16k_address.

Theorem C16k_export : forall mn pw sel t,
  cmd_export sha256 pbkdf2_hmac_sha512 nfkd hmac_sha512 pubc
    {| o_mnemonic := mn; o_password := pw; o_sel := sel |} = Ok t <->
  exists k, c16_key mn pw sel = Ok k /\ t = s2l "0x" ++ hex_encode (be_fixed 32 k).
Proof.
  intros mn pw sel t.
  exact (C16.C16_export sha256 pbkdf2_hmac_sha512 nfkd hmac_sha512 pubc
           {| o_mnemonic := mn; o_password := pw; o_sel := sel |} t).
Qed.
Print Assumptions C16k_export.

(** If the account cannot be loaded, no account command prints anything. *)
Theorem C16k_no_account_no_output : forall sign mn pw sel,
  (forall k, c16_key mn pw sel <> Ok k) ->
  let o := {| o_mnemonic := mn; o_password := pw; o_sel := sel |} in
  (forall t, cmd_address sha256 pbkdf2_hmac_sha512 nfkd hmac_sha512 pubc pubkey65 keccak256 o <> Ok t)
  /\ (forall t, cmd_export sha256 pbkdf2_hmac_sha512 nfkd hmac_sha512 pubc o <> Ok t)
  /\ (forall t, cmd_public_key sha256 pbkdf2_hmac_sha512 nfkd hmac_sha512 pubc pubkey65 o <> Ok t)
  /\ (forall d t, sign_and_print sha256 pbkdf2_hmac_sha512 nfkd hmac_sha512 pubc sign o d <> Ok t).
Proof.
  intros sign mn pw sel.
  exact (C16.C16_no_account_no_output sha256 pbkdf2_hmac_sha512 nfkd hmac_sha512 pubc pubkey65 keccak256 sign
           {| o_mnemonic := mn; o_password := pw; o_sel := sel |}).
Qed.
Print Assumptions C16k_no_account_no_output.
