(** C07 — Every emitted RLP item is canonical and decodes to the original values.
    Statements only; every proof is one [exact] of a lemma from [Proofs/RlpProofs.v].
    Model: [Model/Rlp.v] (mirrors [src/transaction/rlp.rs]); specification: [Spec/RlpSpec.v]
    (Yellow-Paper [enc], strict decoder [dec_strict], scalar reader [int_of_str]). *)
From Coq Require Import String.
From Coq Require Import List NArith Bool PeanoNat.
From HDW Require Import Lib.Outcome Lib.Radix Lib.Bytes Model.Rlp Spec.RlpSpec Proofs.RlpProofs.
Import ListNotations.
Open Scope N_scope.
Open Scope outcome_scope.

(** The overflow-checked [u8] additions of [len] never fire for a [usize] length and the two
    offsets in use ([8 + 0xc0 + 55 = 255] is the tight case). *)
Theorem C07_len_no_panic : forall n off,
  n < 2 ^ 64 -> off = 0x80 \/ off = 0xc0 -> exists h, rlp_len n off = Ok h.
Proof. exact len_no_panic. Qed.
Print Assumptions C07_len_no_panic.

(** ... and the header is the Yellow-Paper one (minimal big-endian length, short form below 56). *)
Theorem C07_model_is_enc_len : forall n off,
  n < 2 ^ 64 -> off <= 0xc0 -> rlp_len n off = Ok (enc_len n off).
Proof. exact rlp_len_enc. Qed.
Print Assumptions C07_model_is_enc_len.

(** The implementation computes the Yellow-Paper encoding. *)
Theorem C07_model_is_enc_bytes : forall b,
  N.of_nat (length b) < 2 ^ 64 -> rlp_bytes b = Ok (enc (Str b)).
Proof. exact rlp_bytes_enc. Qed.
Print Assumptions C07_model_is_enc_bytes.

Theorem C07_model_is_enc_uint : forall v,
  v < 2 ^ 256 -> rlp_uint v = Ok (enc (Str (be_min v))).
Proof. exact rlp_uint_enc. Qed.
Print Assumptions C07_model_is_enc_uint.

Theorem C07_model_is_enc_list : forall l,
  N.of_nat (length (flat_map enc l)) < 2 ^ 64 -> rlp_list (map enc l) = Ok (enc (Lst l)).
Proof. exact rlp_list_enc. Qed.
Print Assumptions C07_model_is_enc_list.

Theorem C07_model_is_enc_iter : forall l,
  N.of_nat (length (flat_map enc l)) < 2 ^ 64 -> rlp_iter (map enc l) = Ok (enc (Lst l)).
Proof. exact rlp_iter_enc. Qed.
Print Assumptions C07_model_is_enc_iter.

(** The strict decoder accepts every encoding, returns the original item and leaves exactly
    the bytes that follow it (the fuel it derives from the input length is sufficient). *)
Theorem C07_roundtrip : forall i rest,
  wf_item i -> dec_strict (enc i ++ rest) = Some (i, rest).
Proof. exact roundtrip. Qed.
Print Assumptions C07_roundtrip.

(** The strict decoder accepts only canonical encodings. *)
Theorem C07_strict : forall bs i rest,
  bytes_ok bs -> dec_strict bs = Some (i, rest) -> bs = enc i ++ rest /\ wf_item i.
Proof. exact strict. Qed.
Print Assumptions C07_strict.

(** Distinct items never share an encoding; no encoding is a proper prefix of another. *)
Theorem C07_injective : forall a b, wf_item a -> wf_item b -> enc a = enc b -> a = b.
Proof. exact injective. Qed.
Print Assumptions C07_injective.

Theorem C07_prefix_free : forall a b r1 r2,
  wf_item a -> wf_item b -> enc a ++ r1 = enc b ++ r2 -> a = b /\ r1 = r2.
Proof. exact prefix_free. Qed.
Print Assumptions C07_prefix_free.

(** Integers: the minimal big-endian string reads back as the integer, zero is the empty
    string, and a leading zero byte is rejected. *)
Theorem C07_uint_canonical : forall v,
  int_of_str (be_min v) = Some v /\ (v = 0 -> be_min v = []).
Proof. exact uint_canonical. Qed.
Print Assumptions C07_uint_canonical.

Theorem C07_uint_leading_zero : forall r, int_of_str (0 :: r) = None.
Proof. exact int_of_str_leading_zero. Qed.
Print Assumptions C07_uint_leading_zero.

(** End to end on the model: what [bytes] / [uint] / [list] emit is accepted by the strict
    decoder, consumed completely, and gives back the original value. *)
Theorem C07_bytes_decodes : forall b,
  bytes_ok b -> N.of_nat (length b) < 2 ^ 64 ->
  exists e, rlp_bytes b = Ok e /\ dec_strict e = Some (Str b, []).
Proof. exact bytes_decodes. Qed.
Print Assumptions C07_bytes_decodes.

Theorem C07_uint_decodes : forall v,
  v < 2 ^ 256 ->
  exists e s, rlp_uint v = Ok e /\ dec_strict e = Some (Str s, []) /\ int_of_str s = Some v.
Proof. exact uint_decodes. Qed.
Print Assumptions C07_uint_decodes.

Theorem C07_list_decodes : forall l,
  Forall wf_item l -> N.of_nat (length (flat_map enc l)) < 2 ^ 64 ->
  exists e, rlp_list (map enc l) = Ok e /\ dec_strict e = Some (Lst l, []).
Proof. exact list_decodes. Qed.
Print Assumptions C07_list_decodes.

(* ---------------- the vectors of the unit tests of rlp.rs ---------------- *)

Example C07_ex_len : rlp_len 1024 0x80 = Ok [0xb9; 0x04; 0x00].
Proof. vm_compute. reflexivity. Qed.
Example C07_ex_dog : rlp_bytes (s2l "dog") = Ok (0x83 :: s2l "dog").
Proof. vm_compute. reflexivity. Qed.
Example C07_ex_cat_dog :
  (let* c := rlp_bytes (s2l "cat") in let* d := rlp_bytes (s2l "dog") in rlp_list [c; d])
  = Ok [0xc8; 0x83; 0x63; 0x61; 0x74; 0x83; 0x64; 0x6f; 0x67].
Proof. vm_compute. reflexivity. Qed.
Example C07_ex_empty_string : rlp_bytes [] = Ok [0x80].
Proof. vm_compute. reflexivity. Qed.
Example C07_ex_empty_list : rlp_list [] = Ok [0xc0].
Proof. vm_compute. reflexivity. Qed.
Example C07_ex_uint0 : rlp_uint 0 = Ok [0x80].
Proof. vm_compute. reflexivity. Qed.
Example C07_ex_byte0 : rlp_bytes [0] = Ok [0].
Proof. vm_compute. reflexivity. Qed.
Example C07_ex_uint15 : rlp_uint 15 = Ok [0x0f].
Proof. vm_compute. reflexivity. Qed.
Example C07_ex_uint1024 : rlp_uint 1024 = Ok [0x82; 0x04; 0x00].
Proof. vm_compute. reflexivity. Qed.
Example C07_ex_nested :
  (let* e := rlp_list [] in
   let* l1 := rlp_list [e] in
   let* l2 := rlp_list [e; l1] in
   rlp_list [e; l1; l2])
  = Ok [0xc7; 0xc0; 0xc1; 0xc0; 0xc3; 0xc0; 0xc1; 0xc0].
Proof. vm_compute. reflexivity. Qed.
Example C07_ex_lorem :
  rlp_bytes (s2l "Lorem ipsum dolor sit amet, consectetur adipisicing elit")
  = Ok (0xb8 :: 0x38 :: s2l "Lorem ipsum dolor sit amet, consectetur adipisicing elit").
Proof. vm_compute. reflexivity. Qed.

(* ---------------- boundaries, extreme widths ---------------- *)

Example C07_ex_len55 : rlp_len 55 0xc0 = Ok [0xf7] /\ rlp_len 56 0xc0 = Ok [0xf8; 56].
Proof. split; vm_compute; reflexivity. Qed.
Example C07_ex_len_max : rlp_len (2 ^ 64 - 1) 0xc0 = Ok (0xff :: repeat 0xff 8).
Proof. vm_compute. reflexivity. Qed.
Example C07_ex_byte7f_80 : rlp_bytes [0x7f] = Ok [0x7f] /\ rlp_bytes [0x80] = Ok [0x81; 0x80].
Proof. split; vm_compute; reflexivity. Qed.
Example C07_ex_uint_max : rlp_uint (2 ^ 256 - 1) = Ok (0xa0 :: repeat 0xff 32).
Proof. vm_compute. reflexivity. Qed.

(* ---------------- the strict decoder: acceptance and rejections ---------------- *)

Example C07_ex_dec_nested :
  dec_strict [0xc7; 0xc0; 0xc1; 0xc0; 0xc3; 0xc0; 0xc1; 0xc0; 0x07]
  = Some (Lst [Lst []; Lst [Lst []]; Lst [Lst []; Lst [Lst []]]], [0x07]).
Proof. vm_compute. reflexivity. Qed.
Example C07_ex_dec_long : dec_strict ([0xb8; 0x38] ++ repeat 1 56) = Some (Str (repeat 1 56), []).
Proof. vm_compute. reflexivity. Qed.
(** [0x81 b] with [b < 0x80] *)
Example C07_ex_rej_single : dec_strict [0x81; 0x05] = None.
Proof. vm_compute. reflexivity. Qed.
(** long form below 56 *)
Example C07_ex_rej_long_small : dec_strict [0xb8; 0x05; 1; 2; 3; 4; 5] = None.
Proof. vm_compute. reflexivity. Qed.
(** non-minimal length of length (leading zero length byte) *)
Example C07_ex_rej_len_zero : dec_strict ([0xb9; 0x00; 0x38] ++ repeat 1 56) = None.
Proof. vm_compute. reflexivity. Qed.
(** the same for lists *)
Example C07_ex_rej_list_long_small : dec_strict [0xf8; 0x01; 0xc0] = None.
Proof. vm_compute. reflexivity. Qed.
Example C07_ex_rej_list_len_zero : dec_strict ([0xf9; 0x00; 0x38] ++ repeat 0xc0 56) = None.
Proof. vm_compute. reflexivity. Qed.
(** truncated input; a huge announced length does not blow up *)
Example C07_ex_rej_truncated : dec_strict [0x83; 1; 2] = None /\ dec_strict (0xbf :: repeat 0xff 8) = None.
Proof. split; vm_compute; reflexivity. Qed.
(** a non-canonical item nested inside a list is rejected as well *)
Example C07_ex_rej_nested : dec_strict [0xc2; 0x81; 0x05] = None.
Proof. vm_compute. reflexivity. Qed.
(** a list payload must be used up exactly by its items *)
Example C07_ex_rej_list_trailing : dec_strict [0xc2; 0x83; 0x01] = None.
Proof. vm_compute. reflexivity. Qed.
Example C07_ex_int_leading_zero : int_of_str [0; 1] = None /\ int_of_str [1; 0] = Some 256 /\ int_of_str [] = Some 0.
Proof. repeat split. Qed.
