(** C17 — No input makes the tool panic, abort or hang (partial: the compiled binary's stack and
    wall-clock behaviour are exercised by the check, not modelled).

    Every model function returns [outcome]; every [unwrap]/index/slice/overflow-checked site of
    hdwallet's own code is an explicit [Panic] branch and every non-structural loop runs on fuel
    ([OutOfFuel]).  The theorems below state, parser by parser, that neither is reachable
    ([graceful x := x <> Panic /\ x <> OutOfFuel]).  Statements only: each is the totality
    theorem proved with the corresponding property. *)
From Coq Require Import String.
From Coq Require Import List NArith ZArith Bool.
From HDW Require Import Lib.Outcome Lib.Bytes Model.Json.
From HDW Require Import Model.Bip39 Spec.Bip39Spec Model.Path Model.SigText Model.Account Model.Bip32 Model.Tx Spec.TxSpec
  Model.Eip712Kind Model.Domain Model.Eip712Types Model.Eip712Values Spec.Eip712ValueSpec Model.HexCli Model.Prefix Model.Num Model.Rlp
  Model.Entropy.
From HDW Require Import Props.C01 Props.C03 Props.C04 Props.C06 Props.C07 Props.C08 Props.C09 Props.C11 Props.C13 Props.C14 Props.C15
  Props.C18 Props.C19 Props.C20 Proofs.Eip712ValueInst.
Import ListNotations.
Open Scope N_scope.

(** mnemonic phrases *)
Theorem C17_total_from_phrase : forall sha256 : bytes -> bytes,
  (forall x, length (sha256 x) = 32%nat) -> (forall x, bytes_ok (sha256 x)) -> forall t, graceful (from_phrase sha256 t).
Proof. exact C01_total. Qed.
Print Assumptions C17_total_from_phrase.

Theorem C17_total_to_phrase : forall sha256 : bytes -> bytes,
  (forall x, length (sha256 x) = 32%nat) -> (forall x, bytes_ok (sha256 x)) ->
  forall ent, bytes_ok ent -> valid_ent_len (length ent) -> graceful (to_phrase (mk_mnemonic sha256 ent)).
Proof. exact C01_total_print. Qed.
Print Assumptions C17_total_to_phrase.

(** generation lengths and the entropy source: whatever the OS answers, [random] is an [Ok] or an [Err] *)
Theorem C17_total_random : forall (sha256 : bytes -> bytes) L r rest reqs,
  graceful (fst (random sha256 L {| pending := r :: rest; requests := reqs |})).
Proof.
  intros sha256 L r rest reqs. unfold random.
  destruct (byte_len L) as [n| | |] eqn:E; cbn [fst].
  - unfold get_entropy. cbn [pending]. destruct r; cbn [fst]; [apply graceful_ok|apply graceful_err].
  - apply graceful_err.
  - unfold byte_len in E. destruct (_ || _); discriminate.
  - unfold byte_len in E. destruct (_ || _); discriminate.
Qed.
Print Assumptions C17_total_random.

(** HD paths and account indices *)
Theorem C17_total_parse_path : forall s, graceful (parse_path s).
Proof. exact C14_total. Qed.
Print Assumptions C17_total_parse_path.

Theorem C17_total_for_index : forall i, graceful (for_index i).
Proof. exact C14_total_for_index. Qed.
Print Assumptions C17_total_for_index.

(** signatures *)
Theorem C17_total_parse_sig : forall t, graceful (parse_sig t).
Proof. exact C15_total. Qed.
Print Assumptions C17_total_parse_sig.

(** private keys and derivation *)
Theorem C17_total_key_new : forall b, graceful (key_new b).
Proof. exact C04_total. Qed.
Print Assumptions C17_total_key_new.

Theorem C17_total_derive : forall (hmac512 : bytes -> bytes -> bytes) (pub_compressed : N -> bytes),
  (forall k m, length (hmac512 k m) = 64%nat) -> forall seed p, graceful (derive hmac512 pub_compressed seed p).
Proof. exact C03_total. Qed.
Print Assumptions C17_total_derive.

(** transaction JSON, encoding, the sign command, v *)
Theorem C17_total_tx_of_json : forall j, graceful (tx_of_json j).
Proof. exact C06_total. Qed.
Print Assumptions C17_total_tx_of_json.

Theorem C17_total_encode : forall t σ, wf_tx t -> tx_fits t -> sig_fits σ -> exists bs, encode t σ = Ok bs.
Proof. exact C06_encode_total. Qed.
Print Assumptions C17_total_encode.

Theorem C17_total_sign_tx_cmd : forall (keccak : bytes -> bytes) (sign_digest : bytes -> outcome sig) allow sigonly j,
  (forall h, graceful (sign_digest h)) -> (forall h σ, sign_digest h = Ok σ -> valid_sig σ) ->
  doc_tokens_ok j -> (forall t, tx_of_json j = Ok t -> tx_fits t) ->
  graceful (sign_tx_cmd keccak sign_digest allow sigonly j).
Proof. exact C11_total. Qed.
Print Assumptions C17_total_sign_tx_cmd.

Theorem C17_v_never_overflows : forall j t c σ,
  tx_of_json j = Ok (Legacy t) -> l_chain_id t = Some c -> sig_v σ (Some c) = Ok (35 + 2 * c + parity_N σ).
Proof. exact C11_v_no_panic_parsed. Qed.
Print Assumptions C17_v_never_overflows.

Theorem C17_rlp_header_never_overflows : forall n off, n < 2 ^ 64 -> off = 0x80 \/ off = 0xc0 -> exists h, rlp_len n off = Ok h.
Proof. exact C07_len_no_panic. Qed.
Print Assumptions C17_rlp_header_never_overflows.

Theorem C17_total_numbers : forall j oj k,
  graceful (permissive_u256 j) /\ graceful (ethnum_permissive_i256 j) /\ graceful (numopt oj) /\ graceful (chainid_field oj)
  /\ graceful (bytes_field j) /\ graceful (bytearray_field k j) /\ graceful (address_field j) /\ graceful (opt_address_field oj).
Proof. exact C13_total. Qed.
Print Assumptions C17_total_numbers.

(** typed data: the type grammar (any number of array suffixes), the dependency work-list, values, the whole document *)
Theorem C17_kind_fuel_never_exhausted : forall n s, (length s < n)%nat -> kind_fuel_opt n s = Some (kind_of_string s).
Proof. exact Kind_fuel_never_exhausted. Qed.
Print Assumptions C17_kind_fuel_never_exhausted.

Theorem C17_total_encode_type : forall tys P, graceful (encode_type tys P).
Proof. exact C08_encode_type_total. Qed.
Print Assumptions C17_total_encode_type.

Theorem C17_worklist_fuel : forall tys P ms,
  encode_type_loop (encode_type_fuel tys ms) tys P (rev (struct_references ms)) [] <> OutOfFuel.
Proof. exact C08_loop_fuel_enough. Qed.
Print Assumptions C17_worklist_fuel.

Theorem C17_total_domain : forall types, graceful (verify_domain_type types).
Proof. exact C20_type_total. Qed.
Print Assumptions C17_total_domain.

Theorem C17_total_typed_data :
  (forall tys k j, graceful (encode_value_p real_prims tys k j))
  /\ (forall tys name obj, graceful (struct_hash_p real_prims tys name obj))
  /\ (forall j, graceful (compute_p real_prims j)).
Proof. exact (real_total C08_type_hash_total). Qed.
Print Assumptions C17_total_typed_data.

(** hex input and vanity prefixes *)
Theorem C17_total_permissive_hex : forall t, graceful (permissive_hex t).
Proof. exact C19_total. Qed.
Print Assumptions C17_total_permissive_hex.

Theorem C17_total_parse_prefix : forall t, graceful (parse_prefix t).
Proof. exact C18_prefix_total. Qed.
Print Assumptions C17_total_parse_prefix.
