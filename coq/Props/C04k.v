(** C04 (companion) — the theorems of [Props/C04.v] at the executable primitives that
    [Run/DC04.v] evaluates: [keccak := Prim.Keccak.keccak256] and
    [pubkey65 := Run.DC04.pubkey65] (= [ser_uncompressed (pt_mul_G k)] of [Prim/Secp256k1.v]).
    The premises about Keccak-256 (32 output bytes, each below 256) are discharged by
    [Keccak.keccak256_length] / [Keccak.keccak256_ok].  Statements only. *)
From Coq Require Import String.
From Coq Require Import List NArith Bool PeanoNat.
From HDW Require Import Lib.Outcome Lib.Bytes Lib.Hex Model.Account Spec.AccountSpec.
From HDW Require Import Prim.Keccak.
From HDW Require Import Run.DC04.
From HDW Require Props.C04.
Import ListNotations.
Open Scope N_scope.

(* ---------------- EIP-55 display: nothing assumed ---------------- *)

Theorem C04k_eip55 : forall a, bytes_ok a -> length a = 20%nat ->
  exists body,
    eip55 keccak256 a = s2l "0x" ++ body
    /\ length body = 40%nat
    /\ map to_lower body = hex_encode a
    /\ forall i, (i < 40)%nat ->
         let c := nth i (hex_encode a) 0 in
         let up := hex_letter c /\ 8 <= nth i (nibbles (keccak256 (hex_encode a))) 0 in
         (up -> nth i body 0 = c - 32) /\ (~ up -> nth i body 0 = c).
Proof. exact (C04.C04_eip55 keccak256 keccak256_ok). Qed.
Print Assumptions C04k_eip55.

Theorem C04k_eip55_case : forall a, bytes_ok a -> length a = 20%nat ->
  exists body,
    eip55 keccak256 a = s2l "0x" ++ body
    /\ length body = 40%nat
    /\ map to_lower body = hex_encode a
    /\ forall i, (i < 40)%nat ->
         (is_upper (nth i body 0) = true
          <-> hex_letter (nth i (hex_encode a) 0)
              /\ 8 <= nth i (nibbles (keccak256 (hex_encode a))) 0)
         /\ (is_upper (nth i body 0) = true -> hex_LETTER (nth i body 0)).
Proof. exact (C04.C04_eip55_case keccak256 keccak256_ok). Qed.
Print Assumptions C04k_eip55_case.

Theorem C04k_eip55_decodes : forall a, bytes_ok a -> length a = 20%nat ->
  length (eip55 keccak256 a) = 42%nat
  /\ exists body, eip55 keccak256 a = s2l "0x" ++ body /\ hex_decode body = Some a.
Proof. exact (C04.C04_eip55_decodes keccak256 keccak256_ok). Qed.
Print Assumptions C04k_eip55_decodes.

(* ---------------- public key and address ---------------- *)

(** The two premises about [pubkey65] are KEPT: that [ser_uncompressed (pt_mul_G k)] has 65 bytes
    and starts with 0x04 for every k in [1, n-1] means that k·G is not the point at infinity,
    i.e. that G has order n in the curve group.  That group fact is not proved in this
    development ([Prim/Secp256k1.v] is an executable primitive without an algebraic theory);
    [Run/DC04.v] checks both premises on concrete scalars ([c04_pubkey65_one]) and the
    correspondence check compares [pubkey65] with the implementation on every generated key.
    The premise about Keccak-256 is discharged. *)
Theorem C04k_address :
  (forall k, 1 <= k < curve_n -> length (pubkey65 k) = 65%nat) ->
  (forall k, 1 <= k < curve_n -> hd 0 (pubkey65 k) = 4) ->
  forall k, 1 <= k < curve_n ->
    address keccak256 pubkey65 k = Ok (skipn 12 (keccak256 (skipn 1 (pubkey65 k))))
    /\ length (skipn 1 (pubkey65 k)) = 64%nat
    /\ length (skipn 12 (keccak256 (skipn 1 (pubkey65 k)))) = 20%nat
    /\ exists pre, keccak256 (skipn 1 (pubkey65 k)) = pre ++ skipn 12 (keccak256 (skipn 1 (pubkey65 k)))
                   /\ length pre = 12%nat.
Proof. exact (C04.C04_address keccak256 pubkey65 keccak256_length). Qed.
Print Assumptions C04k_address.

(** same premises kept, for the same reason *)
Theorem C04k_address_of_key :
  (forall k, 1 <= k < curve_n -> length (pubkey65 k) = 65%nat) ->
  (forall k, 1 <= k < curve_n -> hd 0 (pubkey65 k) = 4) ->
  forall b k, key_new b = Ok k ->
    exists a, address keccak256 pubkey65 k = Ok a /\ length a = 20%nat.
Proof. exact (C04.C04_address_of_key keccak256 pubkey65 keccak256_length). Qed.
Print Assumptions C04k_address_of_key.
