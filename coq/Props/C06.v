(** C06 — Signed transactions are the exact typed encodings.
    Statements only; every proof is one [exact] of a lemma from [Proofs/TxProofs.v],
    [Proofs/TxParseProofs.v] or [Proofs/TxCmdProofs.v].
    Model: [Model/Tx.v] (mirrors [src/transaction.rs], [transaction/{legacy,eip2930,eip1559,
    accesslist}.rs], [account/signature.rs]); specification: [Spec/TxSpec.v] (the item trees of
    EIP-155 / EIP-2930 / EIP-1559 over the Yellow-Paper [enc] of [Spec/RlpSpec.v]).

    Hypotheses that recur:
    - [wf_tx t]: every integer below 2^256, address 20 bytes, storage keys 32 bytes, bytes below
      256, and for a legacy chain id [2c + 36 < 2^256] — what the parser guarantees ([C06_wf_parsed]);
    - [tx_fits t]: calldata length + 64 * (access-list entries + storage keys) + 1024 < 2^64 (the
      transaction exists in a 64-bit address space; the code's [usize] sums are overflow-checked);
    - [sig_fits σ]: r and s below 2^256 (every [valid_sig] is). *)
From Coq Require Import String.
From Coq Require Import List NArith ZArith Bool.
From HDW Require Import Lib.Outcome Lib.Bytes Lib.Hex Model.Json Model.Num Model.Rlp Model.SigText
  Model.Tx Spec.RlpSpec Spec.TxSpec.
From HDW Require Proofs.TxProofs Proofs.TxParseProofs Proofs.TxCmdProofs.
Import ListNotations.
Open Scope N_scope.

(* ------------------------------------------------------------------ *)
(** ** The emitted bytes *)

(** rlp([nonce, gasPrice, gas, to, value, data, v, r, s]), v = 35 + 2 chainId + yParity or 27 + yParity *)
Theorem C06_legacy_bytes : forall t σ,
  wf_legacy t -> tx_fits (Legacy t) -> sig_fits σ ->
  encode (Legacy t) σ
  = Ok (enc (legacy_tree t [Int (spec_v σ (l_chain_id t)); Int (sig_r σ); Int (sig_s σ)])).
Proof. exact TxCmdProofs.legacy_bytes. Qed.
Print Assumptions C06_legacy_bytes.

(** 0x01 ‖ rlp([chainId, nonce, gasPrice, gas, to, value, data, accessList, yParity, r, s]) *)
Theorem C06_eip2930_bytes : forall t σ,
  wf_eip2930 t -> tx_fits (Eip2930 t) -> sig_fits σ ->
  encode (Eip2930 t) σ
  = Ok ([0x01] ++ enc (eip2930_tree t [Int (parity_N σ); Int (sig_r σ); Int (sig_s σ)])).
Proof. exact TxCmdProofs.eip2930_bytes. Qed.
Print Assumptions C06_eip2930_bytes.

(** 0x02 ‖ rlp([chainId, nonce, maxPriorityFeePerGas, maxFeePerGas, gas, to, value, data,
    accessList, yParity, r, s]) *)
Theorem C06_eip1559_bytes : forall t σ,
  wf_eip1559 t -> tx_fits (Eip1559 t) -> sig_fits σ ->
  encode (Eip1559 t) σ
  = Ok ([0x02] ++ enc (eip1559_tree t [Int (parity_N σ); Int (sig_r σ); Int (sig_s σ)])).
Proof. exact TxCmdProofs.eip1559_bytes. Qed.
Print Assumptions C06_eip1559_bytes.

(** all kinds at once: [signed_bytes t σ = type_prefix t ++ enc (signed_tree t σ)] *)
Theorem C06_signed_bytes : forall t σ,
  wf_tx t -> tx_fits t -> sig_fits σ -> encode t σ = Ok (signed_bytes t σ).
Proof. exact TxCmdProofs.encode_signed_bytes. Qed.
Print Assumptions C06_signed_bytes.

(** The digest that is signed is Keccak of the same payload without the signature ... *)
Theorem C06_signing_payload : forall (keccak : bytes -> bytes) t,
  wf_tx t -> tx_fits t -> signing_message keccak t = Ok (keccak (payload t)).
Proof. exact TxCmdProofs.signing_payload. Qed.
Print Assumptions C06_signing_payload.

(** ... with [chainId, 0, 0] appended iff legacy with a chain id. *)
Theorem C06_payload_shape :
  (forall t, payload (Legacy t)
             = enc (Lst (legacy_fields t ++
                         match l_chain_id t with Some c => [Int c; Int 0; Int 0] | None => [] end)))
  /\ (forall t, payload (Eip2930 t) = [0x01] ++ enc (Lst (eip2930_fields t)))
  /\ (forall t, payload (Eip1559 t) = [0x02] ++ enc (Lst (eip1559_fields t))).
Proof. exact TxCmdProofs.payload_shape. Qed.
Print Assumptions C06_payload_shape.

(* ------------------------------------------------------------------ *)
(** ** From JSON *)

(** EIP-1559 when a fee-market key is present, else EIP-2930 when an access list is present,
    else legacy ([obj_has] is [contains_key]: a [null] value counts). *)
Theorem C06_kind : forall kvs t,
  tx_of_json (JObj kvs) = Ok t ->
  (kind t = KEip1559 <->
     obj_has k_max_priority_fee_per_gas kvs || obj_has k_max_fee_per_gas kvs = true)
  /\ (kind t = KEip2930 <->
        obj_has k_max_priority_fee_per_gas kvs || obj_has k_max_fee_per_gas kvs = false
        /\ obj_has k_access_list kvs = true)
  /\ (kind t = KLegacy <->
        obj_has k_max_priority_fee_per_gas kvs || obj_has k_max_fee_per_gas kvs = false
        /\ obj_has k_access_list kvs = false).
Proof. exact TxParseProofs.kind_spec. Qed.
Print Assumptions C06_kind.

(** Every field of the accepted transaction is the field-level parse of its member
    ([tx_parsed]: e.g. [num_field "nonce" kvs = Ok (l_nonce t)]), so C13's exactness transfers;
    and conversely. *)
Theorem C06_fields_from_json : forall kvs t,
  tx_of_json (JObj kvs) = Ok t <-> kind t = kind_of_keys kvs /\ tx_parsed kvs t.
Proof. exact TxParseProofs.tx_of_json_iff. Qed.
Print Assumptions C06_fields_from_json.

(** a numeric member is required and read by [permissive_u256] (C13) *)
Theorem C06_num_field : forall k kvs v,
  num_field k kvs = Ok v <-> exists j, obj_get k kvs = Some j /\ permissive_u256 j = Ok v.
Proof. exact TxParseProofs.num_field_iff. Qed.
Print Assumptions C06_num_field.

Theorem C06_data_field : forall kvs b,
  data_field kvs = Ok b <-> exists j, obj_get k_data kvs = Some j /\ bytes_field j = Ok b.
Proof. exact TxParseProofs.data_field_iff. Qed.
Print Assumptions C06_data_field.

(** absent or null recipient = [None] (encoded as the empty string, see [to_item]) *)
Theorem C06_to_absent_or_null : forall kvs,
  obj_get k_to kvs = None \/ obj_get k_to kvs = Some JNull -> to_field kvs = Ok None.
Proof. exact TxParseProofs.to_field_none. Qed.
Print Assumptions C06_to_absent_or_null.

Theorem C06_to_present : forall kvs a,
  to_field kvs = Ok (Some a) -> exists j, obj_get k_to kvs = Some j /\ address_field j = Ok a.
Proof. exact TxParseProofs.to_field_some. Qed.
Print Assumptions C06_to_present.

(** the optional legacy chain id: absent or null = none; otherwise a C13 number with [2c + 36 < 2^256] *)
Theorem C06_legacy_chain_none : forall kvs,
  obj_get k_chain_id kvs = None \/ obj_get k_chain_id kvs = Some JNull ->
  legacy_chain_field kvs = Ok None.
Proof. exact TxParseProofs.legacy_chain_none. Qed.
Print Assumptions C06_legacy_chain_none.

Theorem C06_legacy_chain_some : forall kvs c,
  legacy_chain_field kvs = Ok (Some c) ->
  (exists j, obj_get k_chain_id kvs = Some j /\ permissive_u256 j = Ok c) /\ 2 * c + 36 < 2 ^ 256.
Proof. exact TxParseProofs.legacy_chain_some. Qed.
Print Assumptions C06_legacy_chain_some.

(** the EIP-1559 access list defaults to empty *)
Theorem C06_access_list_default : forall kvs,
  obj_get k_access_list kvs = None -> access_list_default_field kvs = Ok [].
Proof. exact TxParseProofs.access_list_default_absent. Qed.
Print Assumptions C06_access_list_default.

(** anything but a JSON object is refused *)
Theorem C06_not_object : forall j, (forall kvs, j <> JObj kvs) -> tx_of_json j = Err.
Proof. exact TxParseProofs.tx_of_json_not_obj. Qed.
Print Assumptions C06_not_object.

(** Parsed values are in range.  [doc_tokens_ok]: serde_json's invariant on the number tokens
    of the members (a [u64] token is below 2^64, an [i64] token is negative). *)
Theorem C06_wf_parsed : forall j t, doc_tokens_ok j -> tx_of_json j = Ok t -> wf_tx t.
Proof. exact TxParseProofs.wf_parsed. Qed.
Print Assumptions C06_wf_parsed.

(* ------------------------------------------------------------------ *)
(** ** An independent strict decoder recovers every field *)

(** [body t bs]: [bs] without its type byte (none for legacy) *)
Theorem C06_decodes : forall t σ bs,
  wf_tx t -> tx_fits t -> sig_fits σ -> encode t σ = Ok bs ->
  dec_strict (body t bs) = Some (signed_tree t σ, []).
Proof. exact TxCmdProofs.decodes. Qed.
Print Assumptions C06_decodes.

Theorem C06_payload_decodes : forall t,
  wf_tx t -> tx_fits t -> dec_strict (body t (payload t)) = Some (unsigned_tree t, []).
Proof. exact TxCmdProofs.payload_decodes. Qed.
Print Assumptions C06_payload_decodes.

(* ------------------------------------------------------------------ *)
(** ** No panic *)

Theorem C06_total : forall j, graceful (tx_of_json j).
Proof. exact TxParseProofs.tx_of_json_graceful. Qed.
Print Assumptions C06_total.

Theorem C06_encode_total : forall t σ,
  wf_tx t -> tx_fits t -> sig_fits σ -> exists bs, encode t σ = Ok bs.
Proof. exact TxCmdProofs.encode_total. Qed.
Print Assumptions C06_encode_total.

(* ------------------------------------------------------------------ *)
(** ** Examples: the repository's vectors *)

Definition ex_addr0 : text := s2l "0x0000000000000000000000000000000000000000".
Definition ex_legacy_doc (chain : list (text * json)) : json :=
  JObj (chain ++ [(k_nonce, JU64 0); (k_gas_price, JU64 0); (k_gas, JU64 21000);
                  (k_to, JStr ex_addr0); (k_value, JU64 0); (k_data, JStr (s2l "0x"))]).

Definition hex_of (o : outcome bytes) : outcome text := omap hex_encode o.

(** [transaction::tests::encode_signed_transaction], first vector (no chain id, v = 0x1c) *)
Example C06_ex_signed_legacy :
  hex_of (bind (tx_of_json (ex_legacy_doc [])) (fun t => encode t
    {| sig_r := 0x0f1c0e95b7050ac3df5ac3b69a7d41e0b815da462fcd30954b1c37b58ca71c16;
       sig_s := 0x68dab467ad79359967a3df1bcfc17292a3839288d05274d0e3e391f8b508410b;
       sig_parity := true |}))
  = Ok (s2l ("f85f808082520894000000000000000000000000000000000000000080801ca0"
          ++ "0f1c0e95b7050ac3df5ac3b69a7d41e0b815da462fcd30954b1c37b58ca71c16"
          ++ "a068dab467ad79359967a3df1bcfc17292a3839288d05274d0e3e391f8b50841"
          ++ "0b")%string).
Proof. vm_compute. reflexivity. Qed.

(** second vector (chain id 1, v = 0x25 = 35 + 2 + 0) *)
Example C06_ex_signed_legacy_chain :
  hex_of (bind (tx_of_json (ex_legacy_doc [(k_chain_id, JU64 1)])) (fun t => encode t
    {| sig_r := 0xc97442e361bf3940bec722b240c699de22302469756436bbcc5a150a93309b08;
       sig_s := 0x2fd3e68ed327dea3d085ec16a8589ebf7871e5a990669f67be82a70cd9dfb4f7;
       sig_parity := false |}))
  = Ok (s2l ("f85f8080825208940000000000000000000000000000000000000000808025a0"
          ++ "c97442e361bf3940bec722b240c699de22302469756436bbcc5a150a93309b08"
          ++ "a02fd3e68ed327dea3d085ec16a8589ebf7871e5a990669f67be82a70cd9dfb4"
          ++ "f7")%string).
Proof. vm_compute. reflexivity. Qed.

(** third vector: an [accessList] key selects EIP-2930 *)
Example C06_ex_signed_eip2930 :
  hex_of (bind (tx_of_json (JObj [(k_chain_id, JU64 1); (k_nonce, JU64 0); (k_gas_price, JU64 0);
                                  (k_gas, JU64 21000); (k_to, JStr ex_addr0); (k_value, JU64 0);
                                  (k_data, JStr (s2l "0x")); (k_access_list, JArr [])]))
    (fun t => encode t
    {| sig_r := 0x4366d11301b0a233d0f311f93083583ed316c2ebd7246ccd93f1a320b257fd65;
       sig_s := 0x2e3df28ccda84b829403a04f2d142416f01bdf7036dba12b66e4add64d59455e;
       sig_parity := false |}))
  = Ok (s2l ("01f8610180808252089400000000000000000000000000000000000000008080"
          ++ "c080a04366d11301b0a233d0f311f93083583ed316c2ebd7246ccd93f1a320b2"
          ++ "57fd65a02e3df28ccda84b829403a04f2d142416f01bdf7036dba12b66e4add6"
          ++ "4d59455e")%string).
Proof. vm_compute. reflexivity. Qed.

(** fourth vector: fee-market keys select EIP-1559; the access list defaults to empty *)
Example C06_ex_signed_eip1559 :
  hex_of (bind (tx_of_json (JObj [(k_chain_id, JU64 1); (k_nonce, JU64 0);
                                  (k_max_priority_fee_per_gas, JU64 0); (k_max_fee_per_gas, JU64 0);
                                  (k_gas, JU64 21000); (k_to, JStr ex_addr0); (k_value, JU64 0);
                                  (k_data, JStr (s2l "0x"))]))
    (fun t => encode t
    {| sig_r := 0x290dbdecbc884b4cb827015fe0cd7ac90df1a5634d52a2845c21afacca14b803;
       sig_s := 0x3e848dd1a342e5528beff99c42876cf091a68e2090dbbced5a5f7f392d3abcda;
       sig_parity := true |}))
  = Ok (s2l ("02f8620180808082520894000000000000000000000000000000000000000080"
          ++ "80c001a0290dbdecbc884b4cb827015fe0cd7ac90df1a5634d52a2845c21afac"
          ++ "ca14b803a03e848dd1a342e5528beff99c42876cf091a68e2090dbbced5a5f7f"
          ++ "392d3abcda")%string).
Proof. vm_compute. reflexivity. Qed.

(** [legacy::tests::encode], first vector: the unsigned payload ends in (chainId, 0, 0) *)
Example C06_ex_legacy_preimage :
  hex_of (rlp_encode (Legacy {| l_nonce := 66; l_gas_price := 42000000000; l_gas := 30000;
                                l_to := Some (concat (repeat [0xde; 0xad; 0xbe; 0xef] 5));
                                l_value := 13370000000000000000; l_data := [];
                                l_chain_id := Some 1 |}) None)
  = Ok (s2l ("ec428509c765240082753094deadbeefdeadbeefdeadbeefdeadbeefdeadbeef"
          ++ "88b98bc829a6f9000080018080")%string).
Proof. vm_compute. reflexivity. Qed.

(** every valid signature fits ([sig_fits] is the weaker hypothesis used above) *)
Theorem C06_valid_sig_fits : forall σ, valid_sig σ -> sig_fits σ.
Proof. exact TxCmdProofs.valid_sig_fits. Qed.
Print Assumptions C06_valid_sig_fits.
