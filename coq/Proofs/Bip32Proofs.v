(** Proofs for C03: [Model/Bip32.v] ([derive]) refines [Spec/Bip32Spec.v] (BIP-32 CKDpriv). *)
From Coq Require Import String.
From Coq Require Import List NArith Bool PeanoNat Lia.
From HDW Require Import Lib.Outcome Lib.Bytes Model.Path Model.Bip32 Spec.Bip32Spec.
Import ListNotations.
Open Scope N_scope.
Arguments N.add : simpl never.
Arguments N.sub : simpl never.
Arguments N.mul : simpl never.
Arguments N.div : simpl never.
Arguments N.modulo : simpl never.
Arguments N.eqb : simpl never.
Arguments N.ltb : simpl never.
Arguments N.leb : simpl never.
Arguments N.pow : simpl never.
Arguments N.lor : simpl never.
Arguments N.land : simpl never.

(* ------------------------------------------------------------------ *)
(** * Arithmetic facts *)

Lemma land_pow2_small v k : v < 2^k -> N.land v (2^k) = 0.
Proof.
  intros H. apply N.bits_inj_0. intros m.
  rewrite N.land_spec, N.pow2_bits_eqb.
  destruct (N.eqb_spec k m) as [->|Hne].
  - rewrite <- (N.mod_small v (2^m)) by exact H.
    rewrite N.mod_pow2_bits_high by lia. reflexivity.
  - apply andb_false_r.
Qed.

Lemma lor_is_add v : v < 2^31 -> N.lor v (2^31) = v + 2^31.
Proof.
  intros H. pose proof (land_pow2_small v 31 H) as H0.
  rewrite <- (N.lxor_lor _ _ H0). symmetry. apply N.add_nocarry_lxor. exact H0.
Qed.

Lemma n_same : bip32_n = secp256k1_n.
Proof. reflexivity. Qed.

Lemma n_lt_2_256 : secp256k1_n < 256 ^ N.of_nat 32.
Proof. vm_compute. reflexivity. Qed.

Lemma n_pos : secp256k1_n <> 0.
Proof. discriminate. Qed.

Lemma index_lt c : comp_value c < 2^31 -> index c < 2^32.
Proof.
  change (2^31) with 2147483648. change (2^32) with 4294967296.
  destruct c as [v|v]; cbn [comp_value index]; change (2^31) with 2147483648; lia.
Qed.

(** the vocabulary of C14 ([Model/Path.v]) and of this property coincide *)
Lemma canonical_path_in_range : canonical_path = in_range.
Proof. reflexivity. Qed.

Lemma index_bip32_index c : comp_value c < 2^31 -> bip32_index c = index c.
Proof.
  intros H. destruct c as [v|v]; cbn [comp_value bip32_index index] in *; [|reflexivity].
  change 2147483648 with (2^31). apply lor_is_add; exact H.
Qed.

(* ------------------------------------------------------------------ *)
(** * List facts *)

Lemma firstn_app_len {A} (a b : list A) k : length a = k -> firstn k (a ++ b) = a.
Proof.
  intros <-. rewrite firstn_app, Nat.sub_diag, firstn_O, app_nil_r. apply firstn_all.
Qed.

Lemma skipn_app_len {A} (a b : list A) k : length a = k -> skipn k (a ++ b) = b.
Proof.
  intros <-. rewrite skipn_app, Nat.sub_diag, skipn_all. reflexivity.
Qed.

Lemma slice_to_ok k buf : (k <= length buf)%nat -> slice_to k buf = Ok (firstn k buf).
Proof.
  intros H. unfold slice_to. destruct (Nat.ltb_spec (length buf) k) as [Hlt|_]; [lia|reflexivity].
Qed.

Lemma slice_to_cases k buf : slice_to k buf = Panic \/ slice_to k buf = Ok (firstn k buf).
Proof. unfold slice_to. destruct (length buf <? k)%nat; auto. Qed.

(* ------------------------------------------------------------------ *)
(** * [secret_from_slice] *)

Definition bad_scalar (v : N) : bool := (v =? 0) || (secp256k1_n <=? v).

Lemma secret_from_slice_eq b :
  secret_from_slice b = if bad_scalar (be_val b) then Err else Ok (be_val b).
Proof. reflexivity. Qed.

Lemma bad_scalar_false v : bad_scalar v = false <-> 0 < v < secp256k1_n.
Proof.
  unfold bad_scalar. rewrite orb_false_iff, N.eqb_neq, N.leb_gt. lia.
Qed.

Lemma secret_from_slice_ok b k :
  secret_from_slice b = Ok k <-> k = be_val b /\ 0 < k < secp256k1_n.
Proof.
  rewrite secret_from_slice_eq. destruct (bad_scalar (be_val b)) eqn:E.
  - split; [discriminate|]. intros [-> H]. apply bad_scalar_false in H. congruence.
  - apply bad_scalar_false in E. split.
    + intros H; inversion H; subst; auto.
    + intros [-> _]; reflexivity.
Qed.

Lemma be_val_be_fixed_mod_n a :
  be_val (be_fixed 32 (a mod secp256k1_n)) = a mod secp256k1_n.
Proof.
  apply be_val_fixed. pose proof (N.mod_lt a secp256k1_n n_pos). pose proof n_lt_2_256. lia.
Qed.

Lemma Ok_inj {A} (a b : A) : Ok a = Ok b -> a = b.
Proof. intros H; inversion H; reflexivity. Qed.

Lemma Some_inj {A} (a b : A) : Some a = Some b -> a = b.
Proof. intros H; inversion H; reflexivity. Qed.

Definition to_outcome {A} (o : option A) : outcome A :=
  match o with Some a => Ok a | None => Err end.

(* ------------------------------------------------------------------ *)
(** * Spec-only facts: BIP-32 versus BIP-32 with the extra "IL = 0" rule *)

Section SpecFacts.
  Variable hmac512 : bytes -> bytes -> bytes.
  Variable serP_point : N -> bytes.

  Notation ckd_priv := (ckd_priv hmac512 serP_point).
  Notation ckd_priv_strict := (ckd_priv_strict hmac512 serP_point).
  Notation ckd_I := (ckd_I hmac512 serP_point).

  Lemma ckd_priv_strict_some x i y : ckd_priv_strict x i = Some y -> ckd_priv x i = Some y.
  Proof.
    unfold Bip32Spec.ckd_priv_strict. destruct (parse256 (IL (ckd_I x i)) =? 0); [discriminate|auto].
  Qed.

  Lemma ckd_path_strict_some is : forall x y,
    ckd_path ckd_priv_strict x is = Some y -> ckd_path ckd_priv x is = Some y.
  Proof.
    induction is as [|i r IH]; intros x y H; cbn [ckd_path] in *; [exact H|].
    destruct (ckd_priv_strict x i) as [x'|] eqn:E; [|discriminate].
    rewrite (ckd_priv_strict_some _ _ _ E). apply IH; exact H.
  Qed.

  Lemma ckd_path_some_strict is : forall x y,
    ckd_path ckd_priv x is = Some y ->
    ckd_path ckd_priv_strict x is = Some y \/ zero_IL_below hmac512 serP_point x is.
  Proof.
    induction is as [|i r IH]; intros x y H; cbn [ckd_path zero_IL_below] in *; [left; exact H|].
    destruct (ckd_priv x i) as [x'|] eqn:E; [|discriminate].
    destruct (parse256 (IL (ckd_I x i)) =? 0) eqn:Z.
    - right; left. apply N.eqb_eq; exact Z.
    - assert (Es : ckd_priv_strict x i = Some x').
      { unfold Bip32Spec.ckd_priv_strict. rewrite Z. exact E. }
      rewrite Es. destruct (IH _ _ H) as [Hs|Hz]; [left; exact Hs|right; right; exact Hz].
  Qed.

  Lemma bip32_strict_some S is k :
    bip32_strict hmac512 serP_point S is = Some k -> bip32 hmac512 serP_point S is = Some k.
  Proof.
    unfold bip32_strict, bip32. destruct (master hmac512 S) as [m|]; [|discriminate].
    destruct (ckd_path ckd_priv_strict m is) as [y|] eqn:E; [|discriminate].
    rewrite (ckd_path_strict_some _ _ _ E). auto.
  Qed.

  Lemma bip32_some_strict S is k :
    bip32 hmac512 serP_point S is = Some k ->
    bip32_strict hmac512 serP_point S is = Some k \/ zero_IL_along hmac512 serP_point S is.
  Proof.
    unfold bip32_strict, bip32, zero_IL_along. destruct (master hmac512 S) as [m|]; [|discriminate].
    destruct (ckd_path ckd_priv m is) as [y|] eqn:E; [|discriminate].
    intros H. destruct (ckd_path_some_strict _ _ _ E) as [Hs|Hz].
    - left. rewrite Hs. exact H.
    - right. exact Hz.
  Qed.
End SpecFacts.

(* ------------------------------------------------------------------ *)
(** * The model against the spec *)

Section Refinement.
  Variable hmac512 : bytes -> bytes -> bytes.
  Variable pub_compressed : N -> bytes.
  Hypothesis hmac512_length : forall k m, length (hmac512 k m) = 64%nat.

  Notation derive_step := (derive_step hmac512 pub_compressed).
  Notation derive_loop := (derive_loop hmac512 pub_compressed).
  Notation derive := (derive hmac512 pub_compressed).
  Notation child_data := (child_data pub_compressed).
  Notation ckd_priv := (ckd_priv hmac512 pub_compressed).
  Notation ckd_priv_strict := (ckd_priv_strict hmac512 pub_compressed).
  Notation ckd_I := (ckd_I hmac512 pub_compressed).
  Notation ckd_data := (ckd_data pub_compressed).
  Notation bip32 := (bip32 hmac512 pub_compressed).
  Notation bip32_strict := (bip32_strict hmac512 pub_compressed).

  (** the HMAC input of the code is the HMAC input of BIP-32 *)
  Lemma child_data_spec k c : comp_value c < 2^31 -> child_data k c = ckd_data k (index c).
  Proof.
    intros Hc. destruct c as [v|v]; cbn [comp_value index Bip32.child_data] in *;
      unfold Bip32Spec.ckd_data, ser256, ser32.
    - change HARDENED with (2^31). rewrite (lor_is_add v Hc).
      replace (2^31 <=? v + 2^31) with true; [reflexivity|].
      symmetry. apply N.leb_le. lia.
    - replace (2^31 <=? v) with false; [reflexivity|].
      symmetry. apply N.leb_gt. exact Hc.
  Qed.

  (** What is left to do after the loop: [PrivateKey::new(&extended_key[..32])]. *)
  Definition finish (o : outcome bytes) : outcome N :=
    bind o (fun ek => bind (slice_to 32 ek) secret_from_slice).

  Lemma derive_eq seed p : derive seed p = finish (derive_loop (master_extended_key hmac512 seed) p).
  Proof. reflexivity. Qed.

  (** One loop iteration, as a function of (k, c) = (parse256 of the first half, second half). *)
  Lemma derive_step_eq (ek : bytes) c :
    (32 <= length ek)%nat ->
    derive_step ek c =
      let k := be_val (firstn 32 ek) in
      if bad_scalar k then Err else
      let I := hmac512 (skipn 32 ek) (child_data k c) in
      let il := be_val (firstn 32 I) in
      if bad_scalar il then Err else
      Ok (be_fixed 32 ((il + k) mod secp256k1_n) ++ skipn 32 I).
  Proof.
    intros Hlen. unfold Bip32.derive_step.
    rewrite (slice_to_ok 32 ek Hlen). cbn [bind].
    rewrite secret_from_slice_eq. cbv zeta.
    destruct (bad_scalar (be_val (firstn 32 ek))); [reflexivity|]. cbn [bind].
    rewrite slice_to_ok by (rewrite hmac512_length; repeat constructor).
    cbn [bind]. rewrite secret_from_slice_eq.
    destruct (bad_scalar _); reflexivity.
  Qed.

  Lemma derive_step_cases (ek : bytes) c :
    (32 <= length ek)%nat ->
    derive_step ek c = Err \/ exists ek', derive_step ek c = Ok ek' /\ length ek' = 64%nat.
  Proof.
    intros Hlen. rewrite (derive_step_eq ek c Hlen). cbv zeta.
    destruct (bad_scalar _); [left; reflexivity|].
    destruct (bad_scalar _); [left; reflexivity|].
    right. eexists; split; [reflexivity|].
    rewrite app_length, be_fixed_length, skipn_length, hmac512_length. reflexivity.
  Qed.

  Lemma finish_ok_eq (ek : bytes) :
    (32 <= length ek)%nat ->
    finish (Ok ek) = if bad_scalar (be_val (firstn 32 ek)) then Err else Ok (be_val (firstn 32 ek)).
  Proof.
    intros Hlen. unfold finish. cbn [bind]. rewrite (slice_to_ok 32 ek Hlen). cbn [bind].
    apply secret_from_slice_eq.
  Qed.

  (** ** No panic *)
  Lemma loop_graceful p : forall ek : bytes, (32 <= length ek)%nat -> graceful (finish (derive_loop ek p)).
  Proof.
    induction p as [|c r IH]; intros ek Hlen; cbn [Bip32.derive_loop].
    - rewrite (finish_ok_eq ek Hlen). destruct (bad_scalar _); [apply graceful_err|apply graceful_ok].
    - destruct (derive_step_cases ek c Hlen) as [E|[ek' [E L]]]; rewrite E; cbn [bind].
      + apply graceful_err.
      + apply IH. rewrite L. repeat constructor.
  Qed.

  Lemma master_length seed : length (master_extended_key hmac512 seed) = 64%nat.
  Proof. apply hmac512_length. Qed.

  Lemma total seed p : graceful (derive seed p).
  Proof.
    rewrite derive_eq. apply loop_graceful. rewrite master_length. repeat constructor.
  Qed.

  (** ** Refinement of the loop *)
  Lemma loop_refines p : forall ek : bytes,
    canonical_path p -> (32 <= length ek)%nat ->
    finish (derive_loop ek p) =
      let k := be_val (firstn 32 ek) in
      if bad_scalar k then Err
      else to_outcome (option_map fst (ckd_path ckd_priv_strict (k, skipn 32 ek) (map index p))).
  Proof.
    induction p as [|c r IH]; intros ek Hp Hlen; cbv zeta; cbn [Bip32.derive_loop map ckd_path].
    - rewrite (finish_ok_eq ek Hlen). destruct (bad_scalar _); reflexivity.
    - inversion Hp as [|c' r' Hc Hr]; subst c' r'.
      rewrite (derive_step_eq ek c Hlen). cbv zeta.
      set (k := be_val (firstn 32 ek)).
      destruct (bad_scalar k) eqn:Bk; [reflexivity|].
      unfold Bip32Spec.ckd_priv_strict, Bip32Spec.ckd_priv, Bip32Spec.ckd_I. cbn [fst].
      rewrite <- (child_data_spec k c Hc). unfold parse256, IL, IR. rewrite n_same.
      set (I := hmac512 (skipn 32 ek) (child_data k c)).
      set (il := be_val (firstn 32 I)).
      set (ki := (il + k) mod secp256k1_n).
      assert (Hki : ki < secp256k1_n) by (apply N.mod_lt; exact n_pos).
      unfold bad_scalar at 1. destruct (il =? 0) eqn:Z; [reflexivity|].
      cbn [orb]. destruct (secp256k1_n <=? il) eqn:G; [reflexivity|].
      cbn [orb bind].
      assert (L : (32 <= length (be_fixed 32 ki ++ skipn 32 I))%nat).
      { rewrite app_length, be_fixed_length. lia. }
      rewrite (IH _ Hr L). cbv zeta.
      rewrite (firstn_app_len _ _ 32 (be_fixed_length 32 ki)).
      rewrite (skipn_app_len _ _ 32 (be_fixed_length 32 ki)).
      unfold ki at 1 2. rewrite be_val_be_fixed_mod_n. fold ki.
      unfold bad_scalar. replace (secp256k1_n <=? ki) with false by (symmetry; apply N.leb_gt; exact Hki).
      rewrite orb_false_r. destruct (ki =? 0); reflexivity.
  Qed.

  Lemma refines seed p :
    canonical_path p ->
    derive seed p = to_outcome (bip32_strict seed (map index p)).
  Proof.
    intros Hp. rewrite derive_eq.
    rewrite (loop_refines p _ Hp) by (rewrite master_length; repeat constructor).
    cbv zeta. unfold Bip32Spec.bip32_strict, master, parse256, IL, IR, master_extended_key.
    rewrite n_same. fold (bad_scalar (be_val (firstn 32 (hmac512 (s2l "Bitcoin seed") seed)))).
    destruct (bad_scalar _); reflexivity.
  Qed.

  Lemma refines_match seed p :
    canonical_path p ->
    derive seed p = match bip32_strict seed (map index p) with Some k => Ok k | None => Err end.
  Proof. exact (refines seed p). Qed.

  Lemma never_other_key seed p k :
    canonical_path p -> derive seed p = Ok k -> bip32 seed (map index p) = Some k.
  Proof.
    intros Hp H. rewrite (refines seed p Hp) in H. apply bip32_strict_some.
    destruct (bip32_strict seed (map index p)); [inversion H; reflexivity|discriminate].
  Qed.

  Lemma errors_are_invalid seed p :
    canonical_path p -> derive seed p = Err -> bip32_strict seed (map index p) = None.
  Proof.
    intros Hp H. rewrite (refines seed p Hp) in H.
    destruct (bip32_strict seed (map index p)); [discriminate|reflexivity].
  Qed.

  (** whenever BIP-32 itself yields a key, the code yields the same key, unless some IL is 0 *)
  Lemma complete seed p k :
    canonical_path p -> bip32 seed (map index p) = Some k ->
    derive seed p = Ok k \/ zero_IL_along hmac512 pub_compressed seed (map index p).
  Proof.
    intros Hp H. destruct (bip32_some_strict _ _ _ _ _ H) as [Hs|Hz]; [left|right; exact Hz].
    rewrite (refines seed p Hp), Hs. reflexivity.
  Qed.

  (** the derived key is a valid secp256k1 secret, so its 32-byte form loses nothing *)
  Lemma derive_range seed p k : derive seed p = Ok k -> 0 < k < secp256k1_n.
  Proof.
    clear hmac512_length. rewrite derive_eq. unfold finish. intros H.
    apply bind_ok in H. destruct H as [ek [_ H]].
    apply bind_ok in H. destruct H as [s [_ H]].
    apply secret_from_slice_ok in H. exact (proj2 H).
  Qed.

  Lemma derive_secret_roundtrip seed p k :
    derive seed p = Ok k ->
    derive_secret hmac512 pub_compressed seed p = Ok (be_fixed 32 k)
    /\ length (be_fixed 32 k) = 32%nat /\ be_val (be_fixed 32 k) = k.
  Proof.
    clear hmac512_length. intros H. unfold derive_secret. rewrite H. split; [reflexivity|]. split; [apply be_fixed_length|].
    apply be_val_fixed. pose proof (derive_range _ _ _ H). pose proof n_lt_2_256. lia.
  Qed.

  (** ** One step made explicit: which bytes go into which HMAC *)

  Lemma chain_code_carried (ek : bytes) c (ek' : bytes) :
    (32 <= length ek)%nat ->
    derive_step ek c = Ok ek' ->
    let k := be_val (firstn 32 ek) in
    let I := hmac512 (skipn 32 ek) (child_data k c) in
    skipn 32 ek' = skipn 32 I
    /\ firstn 32 ek' = be_fixed 32 ((be_val (firstn 32 I) + k) mod secp256k1_n).
  Proof.
    intros Hlen H. rewrite (derive_step_eq ek c Hlen) in H. cbv zeta in *.
    destruct (bad_scalar _); [discriminate|].
    destruct (bad_scalar _); [discriminate|].
    apply Ok_inj in H. subst ek'. split.
    - apply skipn_app_len, be_fixed_length.
    - apply firstn_app_len, be_fixed_length.
  Qed.

  Lemma one_step seed c k' :
    comp_value c < 2^31 ->
    derive seed [c] = Ok k' ->
    let I := hmac512 (s2l "Bitcoin seed") seed in
    let k := be_val (firstn 32 I) in
    let I' := hmac512 (skipn 32 I) (ckd_data k (index c)) in
    k' = (be_val (firstn 32 I') + k) mod secp256k1_n.
  Proof.
    intros Hc H. apply never_other_key in H; [|repeat constructor; exact Hc].
    cbn [map] in H. unfold Bip32Spec.bip32, master in H. cbv zeta.
    destruct (_ || _) in H; [discriminate|].
    cbn [ckd_path] in H. unfold Bip32Spec.ckd_priv, Bip32Spec.ckd_I in H. cbn [fst] in H.
    destruct (_ || _) in H; [discriminate|].
    cbn [option_map fst] in H. apply Some_inj in H. subst k'. rewrite n_same. reflexivity.
  Qed.

  Lemma hardened_uses_private seed v k' :
    v < 2^31 ->
    derive seed [Hardened v] = Ok k' ->
    let I := hmac512 (s2l "Bitcoin seed") seed in
    let k := be_val (firstn 32 I) in
    let I' := hmac512 (skipn 32 I) ([0] ++ be_fixed 32 k ++ be_fixed 4 (v + 2^31)) in
    k' = (be_val (firstn 32 I') + k) mod secp256k1_n.
  Proof.
    intros Hv H. pose proof (one_step seed (Hardened v) k' Hv H) as E. cbv zeta in *.
    rewrite <- (child_data_spec _ (Hardened v) Hv) in E. cbn [Bip32.child_data] in E.
    change HARDENED with (2^31) in E. rewrite (lor_is_add v Hv) in E. exact E.
  Qed.

  Lemma normal_uses_public seed v k' :
    v < 2^31 ->
    derive seed [Normal v] = Ok k' ->
    let I := hmac512 (s2l "Bitcoin seed") seed in
    let k := be_val (firstn 32 I) in
    let I' := hmac512 (skipn 32 I) (pub_compressed k ++ be_fixed 4 v) in
    k' = (be_val (firstn 32 I') + k) mod secp256k1_n.
  Proof.
    intros Hv H. pose proof (one_step seed (Normal v) k' Hv H) as E. cbv zeta in *.
    rewrite <- (child_data_spec _ (Normal v) Hv) in E. exact E.
  Qed.
End Refinement.
