(** Proofs about [Model/Entropy.v] (C12) and [Model/Seed.v] (C02), built on the C01 theorems. *)
From Coq Require Import String.
From Coq Require Import List NArith Bool Lia PeanoNat.
From HDW Require Import Lib.Outcome Lib.Bytes Model.Wordlist Model.Bip39 Spec.Bip39Spec Model.Entropy Model.Seed.
From HDW Require Import Proofs.Bip39Proofs Props.C01.
Import ListNotations.

(** the length table: supported lengths and the number of entropy bytes *)
Lemma byte_len_supported L n :
  byte_len L = Ok n <-> (valid_word_count L /\ n = (L * 4 / 3)%nat).
Proof.
  unfold byte_len, valid_word_count. split.
  - intros H.
    destruct (N.eqb_spec (N.of_nat L) 12) as [E|_].
    { assert (L = 12%nat) by lia. subst L. inversion H. split; [auto|reflexivity]. }
    destruct (N.eqb_spec (N.of_nat L) 15) as [E|_].
    { assert (L = 15%nat) by lia. subst L. inversion H. split; [auto|reflexivity]. }
    destruct (N.eqb_spec (N.of_nat L) 18) as [E|_].
    { assert (L = 18%nat) by lia. subst L. inversion H. split; [auto 6|reflexivity]. }
    destruct (N.eqb_spec (N.of_nat L) 21) as [E|_].
    { assert (L = 21%nat) by lia. subst L. inversion H. split; [auto 6|reflexivity]. }
    destruct (N.eqb_spec (N.of_nat L) 24) as [E|_].
    { assert (L = 24%nat) by lia. subst L. inversion H. split; [auto 6|reflexivity]. }
    discriminate.
  - intros [[H|[H|[H|[H|H]]]] Hn]; subst L n; reflexivity.
Qed.

Lemma byte_len_valid_ent L n : byte_len L = Ok n -> valid_ent_len n.
Proof.
  intros H. apply byte_len_supported in H. destruct H as [[H|[H|[H|[H|H]]]] Hn]; subst L n; unfold valid_ent_len; cbn; auto 6.
Qed.

Lemma byte_len_unsupported L : ~ valid_word_count L -> byte_len L = Err.
Proof.
  intros H. destruct (byte_len L) as [n| | |] eqn:E; try reflexivity.
  - exfalso. apply H. apply byte_len_supported in E. tauto.
  - unfold byte_len in E. destruct (_ || _); discriminate.
  - unfold byte_len in E. destruct (_ || _); discriminate.
Qed.

Lemma firstn_exact (e : bytes) n : length e = n -> firstn n (e ++ repeat 0%N n) = e.
Proof. intros H. subst n. rewrite firstn_app, Nat.sub_diag, firstn_all. cbn. apply app_nil_r. Qed.

Section WithSha256.
Variable sha256 : bytes -> bytes.
Hypothesis sha256_length : forall x, length (sha256 x) = 32%nat.
Hypothesis sha256_ok : forall x, bytes_ok (sha256 x).

Lemma entropy_of_mk ent : firstn (m_len (mk_mnemonic sha256 ent)) (m_buf (mk_mnemonic sha256 ent)) = ent.
Proof.
  unfold mk_mnemonic. cbn [m_len m_buf]. rewrite firstn_app, Nat.sub_diag, firstn_all. cbn. apply app_nil_r.
Qed.

Lemma random_exact L n e rest reqs :
  byte_len L = Ok n -> length e = n ->
  random sha256 L {| pending := Some e :: rest; requests := reqs |}
  = (Ok (mk_mnemonic sha256 e), {| pending := rest; requests := reqs ++ [n] |}).
Proof.
  intros HL He. unfold random. rewrite HL. unfold get_entropy. cbn [pending requests].
  rewrite (firstn_exact e n He). reflexivity.
Qed.

Lemma random_unsupported L st : ~ valid_word_count L -> random sha256 L st = (Err, st).
Proof. intros H. unfold random. rewrite (byte_len_unsupported L H). reflexivity. Qed.

Lemma random_failure L n rest reqs :
  byte_len L = Ok n ->
  random sha256 L {| pending := None :: rest; requests := reqs |}
  = (Err, {| pending := rest; requests := reqs ++ [n] |}).
Proof. intros HL. unfold random. rewrite HL. reflexivity. Qed.

Lemma new_cmd_exact L n e rest reqs :
  byte_len L = Ok n -> length e = n -> bytes_ok e ->
  new_cmd sha256 L {| pending := Some e :: rest; requests := reqs |}
  = (Ok (bip39_phrase sha256 e), {| pending := rest; requests := reqs ++ [n] |}).
Proof.
  intros HL He Hok. unfold new_cmd. rewrite (random_exact L n e rest reqs HL He). cbn [bind].
  assert (Hv : valid_ent_len (length e)) by (rewrite He; eapply byte_len_valid_ent; eauto).
  destruct (C01_print sha256 sha256_length sha256_ok e Hok Hv) as [Hp _]. rewrite Hp. reflexivity.
Qed.

Lemma new_cmd_failure L n rest reqs :
  byte_len L = Ok n ->
  new_cmd sha256 L {| pending := None :: rest; requests := reqs |} = (Err, {| pending := rest; requests := reqs ++ [n] |}).
Proof. intros HL. unfold new_cmd. rewrite (random_failure L n rest reqs HL). reflexivity. Qed.

Lemma new_cmd_unsupported L st : ~ valid_word_count L -> new_cmd sha256 L st = (Err, st).
Proof. intros H. unfold new_cmd. rewrite (random_unsupported L st H). reflexivity. Qed.

Lemma phrase_injective e1 e2 :
  bytes_ok e1 -> bytes_ok e2 -> valid_ent_len (length e1) -> valid_ent_len (length e2) ->
  bip39_phrase sha256 e1 = bip39_phrase sha256 e2 -> e1 = e2.
Proof.
  intros H1 H2 V1 V2 Hp.
  pose proof (C01_roundtrip sha256 sha256_length sha256_ok e1 H1 V1) as R1.
  pose proof (C01_roundtrip sha256 sha256_length sha256_ok e2 H2 V2) as R2.
  rewrite Hp in R1. rewrite R1 in R2.
  assert (Hm : mk_mnemonic sha256 e1 = mk_mnemonic sha256 e2) by congruence.
  rewrite <- (entropy_of_mk e1), <- (entropy_of_mk e2).
  exact (f_equal (fun m => firstn (m_len m) (m_buf m)) Hm).
Qed.

Lemma mnemonic_length_of_random L n e :
  byte_len L = Ok n -> length e = n -> bytes_ok e -> mnemonic_length (mk_mnemonic sha256 e) = L.
Proof.
  intros HL He _. apply byte_len_supported in HL. destruct HL as [[H|[H|[H|[H|H]]]] Hn]; subst L n;
    unfold mnemonic_length, mk_mnemonic; cbn [m_len]; rewrite He; reflexivity.
Qed.

(* ---------------- C02 ---------------- *)
Variable pbkdf2 : bytes -> bytes -> N -> nat -> bytes.
Variable nfkd : text -> text.

Lemma seed_def ent pw : bytes_ok ent -> valid_ent_len (length ent) ->
  seed pbkdf2 nfkd (mk_mnemonic sha256 ent) pw
  = Ok (pbkdf2 (utf8 (bip39_phrase sha256 ent)) (utf8 (nfkd (s2l "mnemonic" ++ pw))) 2048%N 64%nat).
Proof.
  intros Hok Hv. unfold seed, salt_text.
  destruct (C01_print sha256 sha256_length sha256_ok ent Hok Hv) as [Hp _]. rewrite Hp. reflexivity.
Qed.

Lemma seed_of_phrase t m pw : from_phrase sha256 t = Ok m ->
  seed pbkdf2 nfkd m pw
  = Ok (pbkdf2 (utf8 (join [32%N] (split_ws t))) (utf8 (nfkd (s2l "mnemonic" ++ pw))) 2048%N 64%nat).
Proof.
  intros H. unfold seed, salt_text. rewrite (C01_canonical sha256 sha256_length sha256_ok t m H). reflexivity.
Qed.

Lemma layout_irrelevant t1 t2 m1 m2 pw : split_ws t1 = split_ws t2 ->
  from_phrase sha256 t1 = Ok m1 -> from_phrase sha256 t2 = Ok m2 ->
  seed pbkdf2 nfkd m1 pw = seed pbkdf2 nfkd m2 pw.
Proof.
  intros Hs H1 H2. rewrite (seed_of_phrase t1 m1 pw H1), (seed_of_phrase t2 m2 pw H2), Hs. reflexivity.
Qed.

Lemma all_ascii_mnemonic : all_ascii (s2l "mnemonic").
Proof. unfold all_ascii. repeat constructor; reflexivity. Qed.

Lemma seed_length m pw s : (forall a b c d, length (pbkdf2 a b c d) = d) ->
  seed pbkdf2 nfkd m pw = Ok s -> length s = 64%nat.
Proof.
  intros Hl H. unfold seed in H. destruct (to_phrase m) as [p| | |]; cbv [bind] in H; [|discriminate H..].
  injection H as <-. apply Hl.
Qed.

Hypothesis nfkd_ascii_prefix : forall a p, all_ascii a -> nfkd (a ++ p) = a ++ nfkd p.

Lemma salt_split pw : nfkd (salt_text pw) = s2l "mnemonic" ++ nfkd pw.
Proof. unfold salt_text. apply nfkd_ascii_prefix, all_ascii_mnemonic. Qed.

Lemma nfkd_equiv m p1 p2 : nfkd p1 = nfkd p2 -> seed pbkdf2 nfkd m p1 = seed pbkdf2 nfkd m p2.
Proof. intros H. unfold seed. rewrite !salt_split, H. reflexivity. Qed.

Lemma seed_salt m pw :
  seed pbkdf2 nfkd m pw = bind (to_phrase m) (fun phrase =>
    Ok (pbkdf2 (utf8 phrase) (utf8 (s2l "mnemonic" ++ nfkd pw)) 2048%N 64%nat)).
Proof. unfold seed. rewrite salt_split. reflexivity. Qed.

End WithSha256.
