(** Helper lemmas for the companion property files [Props/C01k.v] ... [Props/C16k.v]: facts
    about the model instantiated with the executable primitives of [Prim/] (the instantiation
    that the drivers in [Run/] evaluate).  Only the length / byte-range / ASCII lemmas that
    [Prim/] proves by list reasoning are used; no Uint63 specification axiom. *)
From Coq Require Import String.
From Coq Require Import List NArith Bool PeanoNat Lia.
From HDW Require Import Lib.Outcome Lib.Radix Lib.Bytes.
From HDW Require Import Prim.Sha256 Prim.Hmac Prim.Pbkdf2 Prim.Nfkd Prim.Secp256k1.
From HDW Require Import Model.Wordlist Model.Bip39 Spec.Bip39Spec Model.Seed Model.Path Model.Bip32 Model.Cli.
From HDW Require Import Proofs.WordlistProofs Proofs.Bip39Proofs Proofs.EntropyProofs Proofs.PathProofs
  Proofs.Bip32Proofs Proofs.CliProofs.
From HDW Require Run.DC03 Run.DC16.
Import ListNotations.
Open Scope N_scope.

(* ------------------------------------------------------------------ *)
(** * The word list, re-serialised and hashed by the Gallina SHA-256 *)

(** english.txt is every word followed by a line feed.  The embedded list, written out again in
    that format and hashed with [Prim.Sha256.sha256], gives the published digest of the
    official BIP-39 english.txt (2f5eed53...3b24dbda) — so the 2048 words of
    [Model/Wordlist.v], in this order, are the official ones (up to a SHA-256 collision, and
    given that [Prim.Sha256.sha256] is SHA-256, which the correspondence check tests). *)
Lemma wordlist_regenerated_digest :
  sha256 (flat_map (fun w => utf8 w ++ [10]) wordlist) =
  [0x2f; 0x5e; 0xed; 0x53; 0xa4; 0x72; 0x7b; 0x4b; 0xf8; 0x88; 0x0d; 0x8f; 0x3f; 0x19; 0x9e; 0xfc;
   0x90; 0xe5; 0x85; 0x03; 0x64; 0x6d; 0x9f; 0xf8; 0xef; 0xf3; 0xa2; 0xed; 0x3b; 0x24; 0xdb; 0xda].
Proof. vm_compute. reflexivity. Qed.

Lemma wordlist_regenerated_digest_recorded :
  sha256 (flat_map (fun w => utf8 w ++ [10]) wordlist) = wordlist_file_sha256.
Proof. rewrite wordlist_regenerated_digest. symmetry. exact wordlist_digest_official. Qed.

(* ------------------------------------------------------------------ *)
(** * ASCII facts: words, phrases, salts *)

Lemma word_ascii i : all_ascii (word i).
Proof.
  unfold word. destruct (nth_in_or_default (N.to_nat i) wordlist []) as [Hin|Hd].
  - pose proof wordlist_lower_ascii as H. rewrite Forall_forall in H. specialize (H _ Hin).
    unfold lower_ascii_word in H. unfold all_ascii. eapply Forall_impl; [|exact H].
    intros c Hc. cbv beta in Hc. lia.
  - rewrite Hd. constructor.
Qed.

Lemma join_space_ascii l : Forall all_ascii l -> all_ascii (Bip39.join [32] l).
Proof.
  induction l as [|w r IH]; intros H.
  - constructor.
  - inversion H as [|w' r' Hw Hr]; subst. destruct r as [|w2 r2].
    + exact Hw.
    + change (Bip39.join [32] (w :: w2 :: r2)) with (w ++ [32] ++ Bip39.join [32] (w2 :: r2)).
      unfold all_ascii in *. apply Forall_app. split; [exact Hw|].
      apply Forall_app. split; [|apply IH; exact Hr].
      constructor; [reflexivity|constructor].
Qed.

Lemma bip39_phrase_ascii (h : bytes -> bytes) ent : all_ascii (bip39_phrase h ent).
Proof.
  unfold bip39_phrase. apply join_space_ascii. apply Forall_forall. intros w Hw.
  apply in_map_iff in Hw as [i [<- _]]. apply word_ascii.
Qed.

(** the phrase printed for an accepted input is ASCII (its words are list words) *)
Lemma parsed_phrase_ascii t m : from_phrase sha256 t = Ok m -> all_ascii (Bip39.join [32] (split_ws t)).
Proof.
  intros H. destruct (parse_value sha256 sha256_length sha256_ok t m H) as (ent & _ & _ & Hs & _).
  rewrite Hs. apply join_space_ascii. apply Forall_forall. intros w Hw.
  apply in_map_iff in Hw as [i [<- _]]. apply word_ascii.
Qed.

Lemma salt_ascii pw : all_ascii pw -> all_ascii (s2l "mnemonic" ++ pw).
Proof. intros H. unfold all_ascii in *. apply Forall_app. split; [exact all_ascii_mnemonic|exact H]. Qed.

(** an ASCII passphrase is used as it is: the salt bytes are "mnemonic" followed by it *)
Lemma seed_ascii_passphrase m pw : all_ascii pw ->
  seed pbkdf2_hmac_sha512 nfkd m pw
  = bind (to_phrase m) (fun phrase => Ok (pbkdf2_hmac_sha512 (utf8 phrase) (s2l "mnemonic" ++ pw) 2048 64%nat)).
Proof.
  intros H. unfold seed, salt_text.
  rewrite (nfkd_ascii _ (salt_ascii pw H)), (utf8_ascii _ (salt_ascii pw H)). reflexivity.
Qed.

(** for an accepted phrase and an ASCII passphrase everything is bytes = code points *)
Lemma seed_of_phrase_ascii t m pw : from_phrase sha256 t = Ok m -> all_ascii pw ->
  seed pbkdf2_hmac_sha512 nfkd m pw
  = Ok (pbkdf2_hmac_sha512 (Bip39.join [32] (split_ws t)) (s2l "mnemonic" ++ pw) 2048 64%nat).
Proof.
  intros Hm Hpw. rewrite (seed_ascii_passphrase m pw Hpw).
  rewrite (canonical sha256 sha256_length sha256_ok t m Hm). cbn [bind].
  rewrite (utf8_ascii _ (parsed_phrase_ascii t m Hm)). reflexivity.
Qed.

(* ------------------------------------------------------------------ *)
(** * The seed of a parsed mnemonic always exists *)

Lemma seed_of_parsed_ok t m pw : from_phrase sha256 t = Ok m ->
  exists sd, seed pbkdf2_hmac_sha512 nfkd m pw = Ok sd /\ length sd = 64%nat.
Proof.
  intros Hm. rewrite (seed_of_phrase sha256 sha256_length sha256_ok pbkdf2_hmac_sha512 nfkd t m pw Hm).
  eexists. split; [reflexivity|apply pbkdf2_length].
Qed.

(* ------------------------------------------------------------------ *)
(** * The account pipeline of [Run/DC16.v] *)

Lemma account_path_total sel : graceful (account_path sel).
Proof. destruct sel; cbn [account_path]; [apply total_for_index|apply total_for_index|apply total_parse]. Qed.

Lemma c16_key_iff mn pw sel k :
  DC16.c16_key mn pw sel = Ok k <->
  exists m sd p, from_phrase sha256 mn = Ok m /\ seed pbkdf2_hmac_sha512 nfkd m pw = Ok sd
                 /\ account_path sel = Ok p /\ derive hmac_sha512 DC03.pubc sd p = Ok k.
Proof.
  exact (private_key_iff sha256 pbkdf2_hmac_sha512 nfkd hmac_sha512 DC03.pubc
           {| o_mnemonic := mn; o_password := pw; o_sel := sel |} k).
Qed.

Lemma c16_key_total mn pw sel : graceful (DC16.c16_key mn pw sel).
Proof.
  unfold DC16.c16_key, private_key. cbn [o_mnemonic o_password o_sel].
  apply graceful_bind; [apply (Bip39Proofs.total sha256 sha256_length sha256_ok)|].
  intros m Hm. destruct (seed_of_parsed_ok mn m pw Hm) as [sd [Hs _]]. rewrite Hs. cbn [bind].
  apply graceful_bind; [apply account_path_total|].
  intros p _. apply (Bip32Proofs.total hmac_sha512 DC03.pubc hmac_sha512_length).
Qed.
