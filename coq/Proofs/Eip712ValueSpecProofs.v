(** Refinement between [Model/Eip712Values.v] and [Spec/Eip712ValueSpec.v]: a JSON value is
    accepted at a type exactly when it denotes a typed value of that type, and the word is then
    the standard's [encodeData] word (C08, value half; C09_reject). *)
From Coq Require Import String.
From Coq Require Import List NArith ZArith Bool Lia PeanoNat.
From HDW Require Import Lib.Outcome Lib.Bytes Model.Json Model.Eip712Kind Model.Domain Model.Eip712Values.
From HDW Require Import Spec.Eip712ValueSpec Proofs.KindProofs Proofs.Eip712ValueProofs.
Import ListNotations.
Open Scope N_scope.
Local Open Scope outcome_scope.

Arguments N.add : simpl never.
Arguments N.sub : simpl never.
Arguments N.mul : simpl never.
Arguments N.pow : simpl never.
Arguments N.leb : simpl never.
Arguments N.ltb : simpl never.
Arguments N.eqb : simpl never.
Arguments Z.pow : simpl never.
Arguments Z.modulo : simpl never.
Arguments Nat.mul : simpl never.
Arguments Nat.sub : simpl never.
Arguments be_fixed : simpl never.
Arguments repeat : simpl never.

Lemma tval_ind' (Q : tval -> Prop) :
  (forall b, Q (VBool b)) -> (forall a, Q (VAddr a)) -> (forall v, Q (VUint v)) ->
  (forall z, Q (VInt z)) -> (forall b, Q (VBytesN b)) -> (forall b, Q (VBytes b)) ->
  (forall s, Q (VString s)) ->
  (forall l, Forall Q l -> Q (VArr l)) ->
  (forall fields, Forall (fun f => Q (snd f)) fields -> Q (VStruct fields)) ->
  forall tv, Q tv.
Proof.
  intros H0 H1 H2 H3 H4 H5 H6 H7 H8. fix IH 1. intros [b|a|v|z|b|b|s|l|fields].
  - apply H0.
  - apply H1.
  - apply H2.
  - apply H3.
  - apply H4.
  - apply H5.
  - apply H6.
  - apply H7. induction l as [|x r IHl]; constructor; [apply IH|exact IHl].
  - apply H8. induction fields as [|f r IHl]; constructor; [apply IH|exact IHl].
Qed.

Lemma Forall2_same_length {A B} (R : A -> B -> Prop) l l' : Forall2 R l l' -> length l = length l'.
Proof. induction 1; cbn; congruence. Qed.

Lemma json_wf_arr l : json_wf (JArr l) <-> Forall json_wf l.
Proof.
  cbn [json_wf]. induction l as [|x r IH]; [split; constructor|].
  split.
  - intros [Hx Hr]. constructor; [exact Hx|apply IH, Hr].
  - intros H. inversion H; subst. split; [assumption|apply IH; assumption].
Qed.

Lemma json_wf_obj kvs :
  json_wf (JObj kvs) <-> NoDup (map fst kvs) /\ Forall (fun kv => json_wf (snd kv)) kvs.
Proof.
  cbn [json_wf]. apply and_iff_compat_l.
  induction kvs as [|x r IH]; [split; constructor|].
  split.
  - intros [Hx Hr]. constructor; [exact Hx|apply IH, Hr].
  - intros H. inversion H; subst. split; [assumption|apply IH; assumption].
Qed.

(** the member words of a struct value, in declaration order *)
Fixpoint field_words (enc : kind -> tval -> bytes) (ms : list member) (fields : list (text * tval))
  : list bytes :=
  match ms, fields with
  | m :: mr, f :: fr => enc (m_kind m) (snd f) :: field_words enc mr fr
  | _, _ => []
  end.

Section Refinement.

Variable P : prims.
Variable den_u : json -> N -> Prop.
Variable den_i : json -> Z -> Prop.
Variable den_bytes : json -> bytes -> Prop.
Variable den_addr : json -> bytes -> Prop.

Notation ev := (Eip712Values.encode_value (p_keccak P) (p_type_hash P) (p_u256 P) (p_i256 P)
                  (p_bytes P) (p_addr P)).
Notation sh := (Eip712Values.struct_hash (p_keccak P) (p_type_hash P) (p_u256 P) (p_i256 P)
                  (p_bytes P) (p_addr P)).
Notation ht := (has_type (p_type_hash P)).
Notation dn := (denotes den_u den_i den_bytes den_addr).
Notation ed := (enc_data (p_keccak P) (p_type_hash P)).

(* ------------------------------------------------------------------ *)
(** * the nested recursions of the specification, as [Forall] / [Forall2] *)

Lemma ht_array tys inner size l :
  ht tys (KArray inner size) (VArr l) <->
  match size with Some s => N.of_nat (length l) = s | None => True end /\
  Forall (ht tys inner) l.
Proof.
  cbn [has_type]. apply and_iff_compat_l.
  induction l as [|x r IH]; [split; constructor|]. split.
  - intros [Hx Hr]. constructor; [exact Hx|apply IH, Hr].
  - intros H. inversion H; subst. split; [assumption|apply IH; assumption].
Qed.

Definition ht_field tys (m : member) (f : text * tval) : Prop :=
  m_name m = fst f /\ ht tys (m_kind m) (snd f).

Lemma ht_struct tys name fields :
  ht tys (KStruct name) (VStruct fields) <->
  exists ms, types_get name tys = Some ms /\ (exists h, p_type_hash P tys name = Ok h) /\
             Forall2 (ht_field tys) ms fields.
Proof.
  cbn [has_type]. destruct (types_get name tys) as [ms|].
  2:{ split; [contradiction|]. intros (ms & H & _). discriminate. }
  split.
  - intros [Hh H]. exists ms. split; [reflexivity|]. split; [exact Hh|].
    revert ms H. induction fields as [|f fr IH]; intros [|m mr] H; try contradiction.
    + constructor.
    + destruct H as (H1 & H2 & H3). constructor; [split; assumption|apply IH, H3].
  - intros (ms' & E & Hh & H). inversion E; subst ms'. split; [exact Hh|]. clear E.
    induction H as [|m f mr fr [H1 H2] _ IH]; [exact I|]. split; [exact H1|split; [exact H2|exact IH]].
Qed.

Lemma ht_field_names tys ms fields :
  Forall2 (ht_field tys) ms fields -> map m_name ms = map fst fields.
Proof. induction 1 as [|m f mr fr [H1 _] _ IH]; [reflexivity|]. cbn [map]. f_equal; assumption. Qed.

Lemma dn_array tys j inner size l :
  dn tys j (KArray inner size) (VArr l) <->
  exists js, j = JArr js /\ Forall2 (fun x t => dn tys x inner t) js l.
Proof.
  cbn [denotes]. split; intros (js & -> & H); exists js; (split; [reflexivity|]).
  - revert js H. induction l as [|t lr IH]; intros [|x jr] H; try contradiction.
    + constructor.
    + destruct H as [H1 H2]. constructor; [exact H1|apply IH, H2].
  - induction H as [|x t jr lr H1 _ IH]; [exact I|]. split; assumption.
Qed.

Definition dn_field tys kvs (m : member) (f : text * tval) : Prop :=
  exists v, obj_get (fst f) kvs = Some v /\ dn tys v (m_kind m) (snd f).

Lemma dn_struct tys j name fields :
  dn tys j (KStruct name) (VStruct fields) <->
  exists kvs, j = JObj kvs /\ NoDup (map fst kvs) /\ NoDup (map fst fields) /\
    (forall key, In key (map fst kvs) -> In key (map fst fields)) /\
    exists ms, types_get name tys = Some ms /\ Forall2 (dn_field tys kvs) ms fields.
Proof.
  cbn [denotes]. split.
  - intros (kvs & -> & N1 & N2 & Hk & H). exists kvs. repeat (split; [assumption||reflexivity|]).
    destruct (types_get name tys) as [ms|]; [|contradiction]. exists ms. split; [reflexivity|].
    clear N2 Hk. revert ms H. induction fields as [|f fr IH]; intros [|m mr] H; try contradiction.
    + constructor.
    + destruct H as [H1 H2]. constructor; [exact H1|apply IH, H2].
  - intros (kvs & -> & N1 & N2 & Hk & ms & E & H). exists kvs.
    repeat (split; [assumption||reflexivity|]). rewrite E.
    clear N2 Hk E. induction H as [|m f mr fr H1 _ IH]; [exact I|]. split; assumption.
Qed.

Lemma ed_array tys inner size l :
  ed tys (KArray inner size) (VArr l) = p_keccak P (concat (map (ed tys inner) l)).
Proof. reflexivity. Qed.

Lemma ed_struct tys name ms h fields :
  types_get name tys = Some ms -> p_type_hash P tys name = Ok h ->
  ed tys (KStruct name) (VStruct fields) = p_keccak P (h ++ concat (field_words (ed tys) ms fields)).
Proof.
  intros E Hh. cbn [enc_data]. unfold type_hash_word, struct_members. cbn [struct_name].
  rewrite E, Hh. f_equal. f_equal.
  clear E. revert ms. induction fields as [|f fr IH]; intros [|m mr]; try reflexivity.
  cbn [field_words concat]. f_equal. apply IH.
Qed.

(* ------------------------------------------------------------------ *)
(** * assumptions *)

Hypothesis D : prims_denote P den_u den_i den_bytes den_addr.
Hypothesis KL : forall m, length (p_keccak P m) = 32%nat.
Hypothesis TL : forall tys T h, p_type_hash P tys T = Ok h -> length h = 32%nat.
Hypothesis AL : forall j a, p_addr P j = Ok a -> length a = 20%nat.

Lemma ev_array tys k s l :
  ev tys (KArray k s) (JArr l) =
  if size_ok s l then omap (fun ws => p_keccak P (concat ws)) (omapM (ev tys k) l) else Err.
Proof. apply encode_value_array; assumption. Qed.

Lemma ev_atoms tys j :
  ev tys (KBytes None) j = enc_bytes (p_keccak P) (p_bytes P) None j /\
  (forall n, ev tys (KBytes (Some n)) j = enc_bytes (p_keccak P) (p_bytes P) (Some n) j) /\
  (forall n, ev tys (KUint n) j = enc_uint (p_u256 P) n j) /\
  (forall n, ev tys (KInt n) j = enc_int (p_i256 P) n j) /\
  ev tys KBool j = enc_bool j /\
  ev tys KAddress j = enc_address (p_addr P) j /\
  ev tys KString j = enc_string (p_keccak P) j.
Proof. apply encode_value_atoms. Qed.

(* ------------------------------------------------------------------ *)
(** * completeness: a spelling of a well-typed value is accepted, with the standard's word *)

Ltac dk := match goal with k : kind |- _ => destruct k as [[n|]|n|n| | | |name|inner size]; try contradiction end.

Lemma value_complete tys tv : forall j k,
  ht tys k tv -> dn tys j k tv -> ev tys k j = Ok (ed tys k tv).
Proof.
  destruct D as [DU DI DB DA].
  induction tv as [b|a|v|z|b|b|s|l IHl|fields IHf] using tval_ind'; intros j k HT DN;
    destruct (ev_atoms tys j) as (Eb & EbN & Eu & Ei & Ebo & Ea & Es).
  - dk. cbn [denotes] in DN. subst j. destruct b; reflexivity.
  - dk. cbn [has_type denotes] in *. rewrite Ea.
    apply (enc_address_complete (p_keccak P) (p_type_hash P) (p_u256 P) (p_i256 P) (p_bytes P) (p_addr P));
      [apply DA; exact DN|exact HT].
  - dk. cbn [has_type denotes] in *. destruct HT as [H1 H2]. rewrite Eu.
    apply enc_uint_complete; [apply DU; exact DN|exact H2|exact H1].
  - dk. cbn [has_type denotes] in *. destruct HT as (H1 & H2 & H3).
    rewrite Ei. apply enc_int_complete; [apply DI; exact DN|exact H3|exact H1|exact H2].
  - dk. cbn [has_type denotes] in *.
    destruct HT as [H1 H2]. rewrite EbN.
    rewrite (enc_bytesN_complete (p_keccak P) (p_type_hash P) (p_u256 P) (p_i256 P) (p_bytes P) (p_addr P) n j b); [|apply DB; exact DN|exact H2|exact H1].
    cbn [enc_data]. do 3 f_equal. lia.
  - dk. cbn [denotes] in DN. rewrite Eb.
    unfold enc_bytes. rewrite (proj2 (DB _ _) DN). reflexivity.
  - dk. cbn [denotes] in DN. subst j. reflexivity.
  - destruct k as [[?|]| | | | | | |inner size]; try contradiction. clear Eb EbN Eu Ei Ebo Ea Es.
    apply ht_array in HT as [Hs HF]. apply dn_array in DN as (js & -> & DF).
    rewrite ev_array, ed_array.
    assert (Hlen : length js = length l) by (eapply Forall2_same_length; exact DF).
    assert (Hsz : size_ok size js = true).
    { unfold size_ok. destruct size as [sz|]; [|reflexivity]. rewrite Hlen. apply N.eqb_eq, Hs. }
    rewrite Hsz.
    rewrite (omapM_all_ok (ev tys inner) js (map (ed tys inner) l)); [reflexivity|].
    clear Hsz Hlen Hs. induction DF as [|x t jr lr Hxt _ IH]; [constructor|].
    inversion HF; subst. inversion IHl; subst. cbn [map]. constructor; [auto|apply IH; assumption].
  - destruct k as [[?|]| | | | | |name| ]; try contradiction. clear Eb EbN Eu Ei Ebo Ea Es.
    apply ht_struct in HT as (ms & E & [h Hh] & HF).
    apply dn_struct in DN as (kvs & -> & N1 & N2 & Hk & ms' & E' & DF).
    rewrite E in E'. inversion E'; subst ms'. clear E'.
    rewrite encode_value_struct, (struct_hash_eq _ _ _ _ _ _ KL TL AL), E, Hh. cbn [bind].
    rewrite (ed_struct tys name ms h fields E Hh).
    pose proof (ht_field_names _ _ _ HF) as Hnames.
    rewrite (members_words_complete (ev tys) ms kvs (field_words (ed tys) ms fields)).
    + reflexivity.
    + exact N1.
    + rewrite Hnames. exact N2.
    + clear Hnames N2 Hk E. revert fields IHf HF DF.
      induction ms as [|m mr IH]; intros fields IHf HF DF.
      * inversion HF; subst. constructor.
      * inversion HF as [|? f ? fr [Hn Ht] HFr]; subst. inversion DF as [|? ? ? ? (v & Hv & Hd) DFr]; subst.
        inversion IHf as [|? ? IH1 IH2]; subst. cbn [field_words]. constructor.
        -- exists v. split; [rewrite Hn; exact Hv|]. apply IH1; assumption.
        -- apply IH; assumption.
    + intros key Hin. rewrite Hnames. apply Hk, Hin.
Qed.

(* ------------------------------------------------------------------ *)
(** * soundness: whatever is accepted denotes a well-typed value *)

Hypothesis RU : forall j v, p_u256 P j = Ok v -> v < 2 ^ 256.
Hypothesis RI : forall j z, p_i256 P j = Ok z -> (- 2 ^ 255 <= z < 2 ^ 255)%Z.

Definition sound_at tys (j : json) : Prop :=
  forall k w, json_wf j -> ev tys k j = Ok w ->
  exists tv, ht tys k tv /\ dn tys j k tv /\ w = ed tys k tv.

(** [int0] does not exist in the grammar; the code's test refuses every value for it *)
Lemma enc_int_zero j w : enc_int (p_i256 P) 0 j <> Ok w.
Proof.
  intros H. unfold enc_int in H. apply bind_ok in H as (z & _ & H).
  destruct (N.ltb_spec 256 (leading_zeros_256 (Z.to_N (if (z <? 0)%Z then (- z - 1)%Z else z)) + 0));
    [|discriminate].
  unfold leading_zeros_256 in *. lia.
Qed.

Lemma value_sound_atoms tys j k w :
  match k with KStruct _ | KArray _ _ => False | _ => True end ->
  ev tys k j = Ok w -> exists tv, ht tys k tv /\ dn tys j k tv /\ w = ed tys k tv.
Proof.
  destruct D as [DU DI DB DA].
  destruct (ev_atoms tys j) as (Eb & EbN & Eu & Ei & Ebo & Ea & Es).
  intros Hk H. destruct k as [[n|]|n|n| | | | | ]; try contradiction.
  - rewrite EbN in H. apply enc_bytesN_ok in H as (b & Hb & Hl & Hle & ->).
    exists (VBytesN b). cbn [has_type denotes enc_data]. repeat split; auto.
    + apply DB, Hb.
    + do 3 f_equal. lia.
  - rewrite Eb in H. unfold enc_bytes in H. apply bind_ok in H as (b & Hb & H). inversion H; subst.
    exists (VBytes b). cbn [has_type denotes enc_data]. repeat split; auto. apply DB, Hb.
  - rewrite Eu in H. apply (enc_uint_ok _ _ _ _ RU) in H as (v & Hv & Hlt & ->).
    exists (VUint v). cbn [has_type denotes enc_data]. repeat split; eauto. apply DU, Hv.
  - rewrite Ei in H. destruct (N.eq_dec n 0) as [->|Hn].
    { exfalso. exact (enc_int_zero j _ H). }
    assert (Hn1 : 1 <= n) by lia.
    apply (enc_int_ok _ _ _ _ RI Hn1) in H as (z & Hz & Hr & ->).
    exists (VInt z). cbn [has_type denotes enc_data]. repeat split; eauto; try lia; try apply (RI _ _ Hz).
    apply DI, Hz.
  - rewrite Ebo in H. apply enc_bool_ok in H as (b & -> & ->). exists (VBool b).
    cbn [has_type denotes enc_data]. repeat split; auto.
  - rewrite Ea in H. apply enc_address_ok in H as (a & Ha & Hl & ->). exists (VAddr a).
    cbn [has_type denotes enc_data]. repeat split; auto. apply DA, Ha.
  - rewrite Es in H. apply enc_string_ok in H as (s & -> & ->). exists (VString s).
    cbn [has_type denotes enc_data]. repeat split; auto.
Qed.

Lemma value_sound tys j : sound_at tys j.
Proof.
  induction j as [ |b|n|z|m e|s|l IHl|kvs IHk] using json_ind'; intros k w Hwf H.
  1-6: destruct k as [ | | | | | |name|inner size];
       try (apply value_sound_atoms; [exact I|exact H]); discriminate.
  - (* arrays *)
    destruct k as [ | | | | | |name|inner size];
      try (apply value_sound_atoms; [exact I|exact H]); [discriminate|].
    rewrite ev_array in H. destruct (size_ok size l) eqn:Hsz; [|discriminate].
    apply omap_ok in H as (ws & Hws & ->). apply omapM_ok in Hws.
    apply json_wf_arr in Hwf.
    assert (Hex : exists tvs, Forall (ht tys inner) tvs /\ Forall2 (fun x t => dn tys x inner t) l tvs /\
                              ws = map (ed tys inner) tvs).
    { clear Hsz. induction Hws as [|x y lr wr Hxy _ IH].
      - exists []. repeat split; constructor.
      - inversion IHl as [|? ? Hx IHr]; subst. inversion Hwf as [|? ? Wx Wr]; subst.
        destruct (Hx inner y Wx Hxy) as (t & T1 & T2 & ->).
        destruct (IH IHr Wr) as (ts & S1 & S2 & ->).
        exists (t :: ts). repeat split; constructor; assumption. }
    destruct Hex as (tvs & HF & DF & ->).
    exists (VArr tvs). split; [|split].
    + apply ht_array. split; [|exact HF]. destruct size as [sz|]; [|exact I].
      unfold size_ok in Hsz. apply N.eqb_eq in Hsz. rewrite <- Hsz. f_equal.
      symmetry. eapply Forall2_same_length; exact DF.
    + apply dn_array. exists l. split; [reflexivity|exact DF].
    + rewrite ed_array. reflexivity.
  - (* objects *)
    destruct k as [ | | | | | |name|inner size];
      try (apply value_sound_atoms; [exact I|exact H]); [|discriminate].
    rewrite encode_value_struct in H.
    apply (struct_hash_ok_inv _ _ _ _ _ _ KL TL AL) in H as (ms & th & ws & E & Hth & Hm & ->).
    apply json_wf_obj in Hwf as [N1 Wk].
    destruct (members_words_sound _ _ _ _ _ N1 Hm) as [Nms F2].
    pose proof (members_words_no_extra _ _ _ _ Hm) as Hkeys.
    assert (Hex : exists fields, Forall2 (ht_field tys) ms fields /\
                                 Forall2 (dn_field tys kvs) ms fields /\
                                 ws = field_words (ed tys) ms fields).
    { clear Hm Hkeys Nms E. induction F2 as [|m y mr wr (v & Hv & Hvy) _ IH].
      - exists []. repeat split; constructor.
      - destruct IH as (fs & S1 & S2 & ->).
        apply obj_get_in in Hv as Hin.
        rewrite Forall_forall in IHk, Wk.
        destruct (IHk (m_name m, v) Hin (m_kind m) y (Wk (m_name m, v) Hin) Hvy) as (t & T1 & T2 & ->).
        exists ((m_name m, t) :: fs). repeat split.
        + constructor; [split; [reflexivity|exact T1]|exact S1].
        + constructor; [exists v; split; [exact Hv|exact T2]|exact S2].  }
    destruct Hex as (fields & HF & DF & ->).
    pose proof (ht_field_names _ _ _ HF) as Hnames.
    exists (VStruct fields). split; [|split].
    + apply ht_struct. exists ms. repeat split; eauto.
    + apply dn_struct. exists kvs. repeat split; try assumption.
      * rewrite <- Hnames. exact Nms.
      * intros key Hin. rewrite <- Hnames. apply Hkeys, Hin.
      * exists ms. split; assumption.
    + symmetry. apply ed_struct; assumption.
Qed.


(* ------------------------------------------------------------------ *)
(** * the document *)

Lemma blob_of_fields_inv t p d m b :
  blob_of_fields t p d m = Ok b -> d = JObj (b_domain b) /\ m = JObj (b_message b).
Proof.
  unfold blob_of_fields. intros H. apply bind_ok in H as (tys & _ & H).
  apply bind_ok in H as (pr & _ & H). apply bind_ok in H as (dm & Hd & H).
  apply bind_ok in H as (ms & Hm & H). inversion H; subst b. cbn [b_domain b_message].
  destruct d; try discriminate. destruct m; try discriminate.
  inversion Hd; inversion Hm; subst. split; reflexivity.
Qed.

Lemma blob_of_json_wf j b :
  blob_of_json j = Ok b -> json_wf j ->
  json_wf (JObj (b_domain b)) /\ json_wf (JObj (b_message b)).
Proof.
  destruct j as [ | | | | | |l|kvs]; try discriminate.
  - destruct l as [|t [|p [|d [|m [|? ?]]]]]; try discriminate. cbn [blob_of_json].
    intros H W. apply blob_of_fields_inv in H as [<- <-].
    apply json_wf_arr in W. inversion W as [|? ? _ W1]; subst. inversion W1 as [|? ? _ W2]; subst.
    inversion W2 as [|? ? Wd W3]; subst. inversion W3; subst. split; assumption.
  - cbn [blob_of_json].
    destruct (obj_get (s2l "types") kvs) as [t|]; [|discriminate].
    destruct (obj_get (s2l "primaryType") kvs) as [p|]; [|discriminate].
    destruct (obj_get (s2l "domain") kvs) as [d|] eqn:Ed; [|discriminate].
    destruct (obj_get (s2l "message") kvs) as [m|] eqn:Em; [|discriminate].
    intros H W. apply blob_of_fields_inv in H as [<- <-].
    apply json_wf_obj in W as [_ W]. rewrite Forall_forall in W.
    apply obj_get_in in Ed, Em. split; [exact (W _ Ed)|exact (W _ Em)].
Qed.

Notation cp := (Eip712Values.compute (p_keccak P) (p_type_hash P) (p_u256 P) (p_i256 P)
                  (p_bytes P) (p_addr P)).

Lemma struct_sound tys name obj w :
  json_wf (JObj obj) -> sh tys name obj = Ok w ->
  exists fields, ht tys (KStruct name) (VStruct fields) /\
                 dn tys (JObj obj) (KStruct name) (VStruct fields) /\
                 w = hash_struct (p_keccak P) (p_type_hash P) tys name fields.
Proof.
  intros W H. rewrite <- encode_value_struct in H.
  destruct (value_sound tys (JObj obj) (KStruct name) w W H) as (tv & T1 & T2 & ->).
  destruct tv; try contradiction. exists fields. repeat split; assumption.
Qed.

Lemma digest_sound j d ds mh :
  json_wf j -> cp j = Ok (d, ds, mh) ->
  d = p_keccak P ([0x19; 0x01] ++ ds ++ mh) /\
  exists b dv mv,
    blob_of_json j = Ok b /\
    verify_domain_type (b_types b) = Ok tt /\
    ht (b_types b) (KStruct (s2l "EIP712Domain")) (VStruct dv) /\
    dn (b_types b) (JObj (b_domain b)) (KStruct (s2l "EIP712Domain")) (VStruct dv) /\
    ds = hash_struct (p_keccak P) (p_type_hash P) (b_types b) (s2l "EIP712Domain") dv /\
    ht (b_types b) (KStruct (b_primary b)) (VStruct mv) /\
    dn (b_types b) (JObj (b_message b)) (KStruct (b_primary b)) (VStruct mv) /\
    mh = hash_struct (p_keccak P) (p_type_hash P) (b_types b) (b_primary b) mv.
Proof.
  intros W H. apply (compute_ok _ _ _ _ _ _ KL TL AL) in H as (b & Hb & Hv & Hds & Hmh & ->).
  split; [reflexivity|].
  destruct (blob_of_json_wf _ _ Hb W) as [Wd Wm].
  destruct (struct_sound _ _ _ _ Wd Hds) as (dv & D1 & D2 & D3).
  destruct (struct_sound _ _ _ _ Wm Hmh) as (mv & M1 & M2 & M3).
  exists b, dv, mv. repeat split; assumption.
Qed.

End Refinement.

(* ------------------------------------------------------------------ *)
(** * the statements of [Props/C08v.v] *)

Section Statements.
Variable P : prims.
Variable den_u : json -> N -> Prop.
Variable den_i : json -> Z -> Prop.
Variable den_bytes : json -> bytes -> Prop.
Variable den_addr : json -> bytes -> Prop.
Notation ht := (has_type (p_type_hash P)).
Notation dn := (denotes den_u den_i den_bytes den_addr).
Notation ed := (enc_data (p_keccak P) (p_type_hash P)).

Lemma c08_value tys k j tv :
  prims_sized P -> prims_denote P den_u den_i den_bytes den_addr ->
  ht tys k tv -> dn tys j k tv -> encode_value_p P tys k j = Ok (ed tys k tv).
Proof. intros [KL TL AL] D. unfold encode_value_p. apply value_complete; assumption. Qed.

Lemma c08_value_sound tys k j w :
  prims_sized P -> prims_ranged P -> prims_denote P den_u den_i den_bytes den_addr ->
  json_wf j -> encode_value_p P tys k j = Ok w ->
  exists tv, ht tys k tv /\ dn tys j k tv /\ w = ed tys k tv.
Proof.
  intros [KL TL AL] [RU RI] D W H. unfold encode_value_p in H.
  exact (value_sound P den_u den_i den_bytes den_addr D KL TL AL RU RI tys j k w W H).
Qed.

Lemma c08_accepted_iff tys k j :
  prims_sized P -> prims_ranged P -> prims_denote P den_u den_i den_bytes den_addr ->
  json_wf j ->
  ((exists w, encode_value_p P tys k j = Ok w) <-> (exists tv, ht tys k tv /\ dn tys j k tv)).
Proof.
  intros S R D W. split.
  - intros [w H]. destruct (c08_value_sound tys k j w S R D W H) as (tv & T1 & T2 & _). eauto.
  - intros (tv & T1 & T2). eexists. apply c08_value; eassumption.
Qed.

Lemma c09_reject tys k j :
  prims_sized P -> prims_ranged P -> prims_total P ->
  prims_denote P den_u den_i den_bytes den_addr ->
  json_wf j -> (~ exists tv, ht tys k tv /\ dn tys j k tv) -> encode_value_p P tys k j = Err.
Proof.
  intros S R T D W Hno. apply graceful_not_ok_err.
  - destruct S as [KL TL AL], T as [TG UG IG BG AG]. unfold encode_value_p.
    apply encode_value_graceful; assumption.
  - intros w H. apply Hno. destruct (c08_value_sound tys k j w S R D W H) as (tv & T1 & T2 & _). eauto.
Qed.

Lemma c08_digest j d ds mh :
  prims_sized P -> prims_ranged P -> prims_denote P den_u den_i den_bytes den_addr ->
  json_wf j -> compute_p P j = Ok (d, ds, mh) ->
  d = p_keccak P ([0x19; 0x01] ++ ds ++ mh) /\
  exists b dv mv,
    blob_of_json j = Ok b /\
    verify_domain_type (b_types b) = Ok tt /\
    ht (b_types b) (KStruct (s2l "EIP712Domain")) (VStruct dv) /\
    dn (b_types b) (JObj (b_domain b)) (KStruct (s2l "EIP712Domain")) (VStruct dv) /\
    ds = hash_struct (p_keccak P) (p_type_hash P) (b_types b) (s2l "EIP712Domain") dv /\
    ht (b_types b) (KStruct (b_primary b)) (VStruct mv) /\
    dn (b_types b) (JObj (b_message b)) (KStruct (b_primary b)) (VStruct mv) /\
    mh = hash_struct (p_keccak P) (p_type_hash P) (b_types b) (b_primary b) mv.
Proof.
  intros [KL TL AL] [RU RI] D W H. unfold compute_p in H.
  exact (digest_sound P den_u den_i den_bytes den_addr D KL TL AL RU RI j d ds mh W H).
Qed.

(** the digest equation alone needs nothing but the sizes *)
Lemma c08_digest_eq j d ds mh :
  prims_sized P -> compute_p P j = Ok (d, ds, mh) -> d = p_keccak P ([0x19; 0x01] ++ ds ++ mh).
Proof.
  intros [KL TL AL] H. unfold compute_p in H.
  apply (compute_ok _ _ _ _ _ _ KL TL AL) in H as (b & _ & _ & _ & _ & ->). reflexivity.
Qed.

End Statements.
