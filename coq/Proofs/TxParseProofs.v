(** C06 / C13 — proofs, part 2: the JSON side.  [tx_of_json] is the field-wise parse of the
    members of the object, selects the kind by key presence, never panics, and yields field
    values in range. *)
From Coq Require Import String.
From Coq Require Import List NArith ZArith Lia Bool PeanoNat.
From HDW Require Import Lib.Outcome Lib.Radix Lib.Bytes Lib.Hex Model.Json Model.Num Model.Rlp
  Model.SigText Model.Tx Spec.RlpSpec Spec.TxSpec.
From HDW Require Proofs.NumProofs.
Import ListNotations.
Open Scope N_scope.
Open Scope outcome_scope.

Arguments N.add : simpl never.
Arguments N.mul : simpl never.
Arguments N.ltb : simpl never.
Arguments N.pow : simpl never.

(** peel the binds off [H : (let* a := x in ..) = Ok t] *)
Ltac bind_inv H :=
  repeat match type of H with
         | bind ?x ?f = Ok _ =>
             let a := fresh "a" in
             let Ha := fresh "Ha" in
             apply bind_ok in H; destruct H as [a [Ha H]]
         end.

(* ------------------------------------------------------------------ *)
(** * The three struct deserialisers are exactly the field-wise parses *)

Lemma legacy_of_json_iff kvs t : legacy_of_json kvs = Ok t <-> legacy_parsed kvs t.
Proof.
  unfold legacy_of_json, legacy_parsed. split.
  - intros H. bind_inv H. inversion H; subst t; cbn. repeat split; assumption.
  - intros (H0 & H1 & H2 & H3 & H4 & H5 & H6).
    rewrite H0, H1, H2, H3, H4, H5, H6. cbn [bind]. destruct t; reflexivity.
Qed.

Lemma eip2930_of_json_iff kvs t : eip2930_of_json kvs = Ok t <-> eip2930_parsed kvs t.
Proof.
  unfold eip2930_of_json, eip2930_parsed. split.
  - intros H. bind_inv H. inversion H; subst t; cbn. repeat split; assumption.
  - intros (H0 & H1 & H2 & H3 & H4 & H5 & H6 & H7).
    rewrite H0, H1, H2, H3, H4, H5, H6, H7. cbn [bind]. destruct t; reflexivity.
Qed.

Lemma eip1559_of_json_iff kvs t : eip1559_of_json kvs = Ok t <-> eip1559_parsed kvs t.
Proof.
  unfold eip1559_of_json, eip1559_parsed. split.
  - intros H. bind_inv H. inversion H; subst t; cbn. repeat split; assumption.
  - intros (H0 & H1 & H2 & H3 & H4 & H5 & H6 & H7 & H8).
    rewrite H0, H1, H2, H3, H4, H5, H6, H7, H8. cbn [bind]. destruct t; reflexivity.
Qed.

Lemma omap_ok {A B} (f : A -> B) x b : omap f x = Ok b -> exists a, x = Ok a /\ b = f a.
Proof. unfold omap. intros H. apply bind_ok in H as (a & Ha & H). inversion H. eauto. Qed.

(** the dispatch *)
Lemma tx_of_json_obj kvs :
  tx_of_json (JObj kvs) =
  match kind_of_keys kvs with
  | KEip1559 => omap Eip1559 (eip1559_of_json kvs)
  | KEip2930 => omap Eip2930 (eip2930_of_json kvs)
  | KLegacy => omap Legacy (legacy_of_json kvs)
  end.
Proof.
  unfold tx_of_json, kind_of_keys, fee_market_keys.
  destruct (obj_has k_max_priority_fee_per_gas kvs || obj_has k_max_fee_per_gas kvs); [reflexivity|].
  destruct (obj_has k_access_list kvs); reflexivity.
Qed.

Lemma tx_of_json_not_obj j : (forall kvs, j <> JObj kvs) -> tx_of_json j = Err.
Proof. intros H. destruct j; try reflexivity. exfalso. eapply H. reflexivity. Qed.

Lemma tx_of_json_is_obj j t : tx_of_json j = Ok t -> exists kvs, j = JObj kvs.
Proof. destruct j; try discriminate. eauto. Qed.

(** accepted <=> the kind is the one selected by the keys and every field is the field-level
    parse of its member *)
Theorem tx_of_json_iff kvs t :
  tx_of_json (JObj kvs) = Ok t <-> kind t = kind_of_keys kvs /\ tx_parsed kvs t.
Proof.
  rewrite tx_of_json_obj. split.
  - intros H. destruct (kind_of_keys kvs); apply omap_ok in H as (a & Ha & ->); cbn [kind tx_parsed];
      (split; [reflexivity|]).
    + apply legacy_of_json_iff, Ha.
    + apply eip2930_of_json_iff, Ha.
    + apply eip1559_of_json_iff, Ha.
  - intros [Hk Hp]. rewrite <- Hk. destruct t as [t|t|t]; cbn [kind tx_parsed] in *.
    + apply legacy_of_json_iff in Hp. rewrite Hp. reflexivity.
    + apply eip2930_of_json_iff in Hp. rewrite Hp. reflexivity.
    + apply eip1559_of_json_iff in Hp. rewrite Hp. reflexivity.
Qed.

Theorem kind_of_parsed kvs t : tx_of_json (JObj kvs) = Ok t -> kind t = kind_of_keys kvs.
Proof. intros H. apply tx_of_json_iff in H. apply H. Qed.

Theorem fields_of_parsed kvs t : tx_of_json (JObj kvs) = Ok t -> tx_parsed kvs t.
Proof. intros H. apply tx_of_json_iff in H. apply H. Qed.

(** the kind in the words of the property: EIP-1559 when a fee-market key is present, else
    EIP-2930 when an access list is present, else legacy *)
Theorem kind_spec kvs t :
  tx_of_json (JObj kvs) = Ok t ->
  (kind t = KEip1559 <->
     obj_has k_max_priority_fee_per_gas kvs || obj_has k_max_fee_per_gas kvs = true)
  /\ (kind t = KEip2930 <->
        obj_has k_max_priority_fee_per_gas kvs || obj_has k_max_fee_per_gas kvs = false
        /\ obj_has k_access_list kvs = true)
  /\ (kind t = KLegacy <->
        obj_has k_max_priority_fee_per_gas kvs || obj_has k_max_fee_per_gas kvs = false
        /\ obj_has k_access_list kvs = false).
Proof.
  intros H. rewrite (kind_of_parsed kvs t H). unfold kind_of_keys, fee_market_keys.
  destruct (obj_has k_max_priority_fee_per_gas kvs || obj_has k_max_fee_per_gas kvs);
    destruct (obj_has k_access_list kvs); repeat split; intros; try discriminate; try reflexivity;
    try tauto; try (destruct H0; discriminate).
Qed.

(* ------------------------------------------------------------------ *)
(** * Field-level facts *)

Lemma num_field_iff k kvs v :
  num_field k kvs = Ok v <-> exists j, obj_get k kvs = Some j /\ permissive_u256 j = Ok v.
Proof.
  unfold num_field, req_field. split.
  - intros H. apply bind_ok in H as (j & Hj & H). destruct (obj_get k kvs) as [j'|]; [|discriminate].
    inversion Hj; subst. eauto.
  - intros (j & -> & H). exact H.
Qed.

Lemma data_field_iff kvs b :
  data_field kvs = Ok b <-> exists j, obj_get k_data kvs = Some j /\ bytes_field j = Ok b.
Proof.
  unfold data_field, req_field. split.
  - intros H. apply bind_ok in H as (j & Hj & H). destruct (obj_get k_data kvs) as [j'|]; [|discriminate].
    inversion Hj; subst. eauto.
  - intros (j & -> & H). exact H.
Qed.

Lemma to_field_none kvs :
  obj_get k_to kvs = None \/ obj_get k_to kvs = Some JNull -> to_field kvs = Ok None.
Proof. unfold to_field. intros [-> | ->]; reflexivity. Qed.

Lemma to_field_some kvs a :
  to_field kvs = Ok (Some a) -> exists j, obj_get k_to kvs = Some j /\ address_field j = Ok a.
Proof. unfold to_field. apply NumProofs.opt_address_sound. Qed.

Lemma legacy_chain_none kvs :
  obj_get k_chain_id kvs = None \/ obj_get k_chain_id kvs = Some JNull ->
  legacy_chain_field kvs = Ok None.
Proof. unfold legacy_chain_field. intros [-> | ->]; reflexivity. Qed.

Lemma legacy_chain_some kvs c :
  legacy_chain_field kvs = Ok (Some c) ->
  (exists j, obj_get k_chain_id kvs = Some j /\ permissive_u256 j = Ok c) /\ 2 * c + 36 < 2 ^ 256.
Proof.
  unfold legacy_chain_field. intros H. apply NumProofs.chainid_sound in H as [H Hc].
  split; [|exact Hc]. apply NumProofs.numopt_some in H. exact H.
Qed.

Lemma access_list_default_absent kvs :
  obj_get k_access_list kvs = None -> access_list_default_field kvs = Ok [].
Proof. unfold access_list_default_field. intros ->. reflexivity. Qed.

(* ------------------------------------------------------------------ *)
(** * No panic *)

Lemma of_option_graceful {A} (x : option A) : graceful (of_option x).
Proof. destruct x; [apply graceful_ok|apply graceful_err]. Qed.

Lemma omap_graceful {A B} (f : A -> B) x : graceful x -> graceful (omap f x).
Proof. intros H. unfold omap. apply graceful_bind; [exact H|]. intros; apply graceful_ok. Qed.

Lemma num_field_graceful k kvs : graceful (num_field k kvs).
Proof.
  unfold num_field, req_field. apply graceful_bind; [apply of_option_graceful|].
  intros; apply NumProofs.permissive_u256_total.
Qed.

Lemma data_field_graceful kvs : graceful (data_field kvs).
Proof.
  unfold data_field, req_field. apply graceful_bind; [apply of_option_graceful|].
  intros; apply NumProofs.bytes_total.
Qed.

Lemma to_field_graceful kvs : graceful (to_field kvs).
Proof. apply NumProofs.opt_address_total. Qed.

Lemma legacy_chain_graceful kvs : graceful (legacy_chain_field kvs).
Proof. apply NumProofs.chainid_total. Qed.

Lemma slots_graceful j : graceful (slots_of_json j).
Proof.
  destruct j; try apply graceful_err. cbn [slots_of_json]. apply omapM_graceful.
  intros; apply NumProofs.bytearray_total.
Qed.

Lemma access_entry_graceful j : graceful (access_entry_of_json j).
Proof.
  destruct j as [| | | | | |l|]; try apply graceful_err.
  destruct l as [|a [|ks [|x r]]]; try apply graceful_err.
  cbn [access_entry_of_json]. apply graceful_bind; [apply NumProofs.address_total|]. intros a' _.
  apply graceful_bind; [apply slots_graceful|]. intros; apply graceful_ok.
Qed.

Lemma access_list_graceful j : graceful (access_list_of_json j).
Proof.
  destruct j; try apply graceful_err. cbn [access_list_of_json]. apply omapM_graceful.
  intros; apply access_entry_graceful.
Qed.

Lemma access_list_req_graceful kvs : graceful (access_list_req_field kvs).
Proof.
  unfold access_list_req_field, req_field. apply graceful_bind; [apply of_option_graceful|].
  intros; apply access_list_graceful.
Qed.

Lemma access_list_default_graceful kvs : graceful (access_list_default_field kvs).
Proof.
  unfold access_list_default_field. destruct (obj_get k_access_list kvs);
    [apply access_list_graceful|apply graceful_ok].
Qed.

Ltac graceful_chain :=
  repeat (apply graceful_bind;
          [first [apply num_field_graceful | apply data_field_graceful | apply to_field_graceful
                 | apply legacy_chain_graceful | apply access_list_req_graceful
                 | apply access_list_default_graceful]
          | intros ? _]);
  apply graceful_ok.

Lemma legacy_of_json_graceful kvs : graceful (legacy_of_json kvs).
Proof. unfold legacy_of_json. graceful_chain. Qed.
Lemma eip2930_of_json_graceful kvs : graceful (eip2930_of_json kvs).
Proof. unfold eip2930_of_json. graceful_chain. Qed.
Lemma eip1559_of_json_graceful kvs : graceful (eip1559_of_json kvs).
Proof. unfold eip1559_of_json. graceful_chain. Qed.

Theorem tx_of_json_graceful j : graceful (tx_of_json j).
Proof.
  destruct j; try apply graceful_err. rewrite tx_of_json_obj.
  destruct (kind_of_keys kvs); apply omap_graceful;
    [apply legacy_of_json_graceful|apply eip2930_of_json_graceful|apply eip1559_of_json_graceful].
Qed.

Lemma graceful_cases {A} (x : outcome A) : graceful x -> (exists a, x = Ok a) \/ x = Err.
Proof. intros [H1 H2]. destruct x; [eauto|auto|congruence|congruence]. Qed.

Theorem tx_of_json_cases j : (exists t, tx_of_json j = Ok t) \/ tx_of_json j = Err.
Proof. apply graceful_cases, tx_of_json_graceful. Qed.

(* ------------------------------------------------------------------ *)
(** * Rejections and agreement of documents *)

Lemma chain_field_of_parsed kvs t :
  tx_parsed kvs t -> chain_field (kind t) kvs = Ok (tx_chain_id t).
Proof.
  destruct t as [t|t|t]; cbn [tx_parsed kind chain_field tx_chain_id].
  - intros H. apply H.
  - intros (H & _). rewrite H. reflexivity.
  - intros (H & _). rewrite H. reflexivity.
Qed.

Lemma access_list_field_of_parsed kvs t :
  tx_parsed kvs t -> access_list_field (kind t) kvs = Ok (tx_access_list t).
Proof.
  destruct t as [t|t|t]; cbn [tx_parsed kind access_list_field tx_access_list].
  - reflexivity.
  - intros H. apply H.
  - intros H. apply H.
Qed.

Lemma to_field_of_parsed kvs t :
  tx_parsed kvs t ->
  to_field kvs = Ok (match t with Legacy t => l_to t | Eip2930 t => e2_to t | Eip1559 t => e5_to t end).
Proof. destruct t as [t|t|t]; cbn [tx_parsed]; intros H; apply H. Qed.

Lemma data_field_of_parsed kvs t : tx_parsed kvs t -> data_field kvs = Ok (tx_data t).
Proof. destruct t as [t|t|t]; cbn [tx_parsed tx_data]; intros H; apply H. Qed.

Lemma numeric_of_parsed kvs t k :
  tx_parsed kvs t -> In k (numeric_keys (kind t)) -> exists v, num_field k kvs = Ok v.
Proof.
  destruct t as [t|t|t]; cbn [tx_parsed kind numeric_keys In]; intros H Hin.
  - destruct H as (H0 & H1 & H2 & H3 & H4 & H5 & H6).
    destruct Hin as [<-|[<-|[<-|[<-|[]]]]]; eauto.
  - destruct H as (H0 & H1 & H2 & H3 & H4 & H5 & H6 & H7).
    destruct Hin as [<-|[<-|[<-|[<-|[<-|[]]]]]]; eauto.
  - destruct H as (H0 & H1 & H2 & H3 & H4 & H5 & H6 & H7 & H8).
    destruct Hin as [<-|[<-|[<-|[<-|[<-|[<-|[]]]]]]]; eauto.
Qed.

(** a member that the selected kind reads is missing or refused => the document is refused *)
Theorem reject_field kvs : field_rejected kvs -> tx_of_json (JObj kvs) = Err.
Proof.
  intros Hrej. destruct (tx_of_json_cases (JObj kvs)) as [[t Ht]|He]; [|exact He]. exfalso.
  apply tx_of_json_iff in Ht as [Hk Hp]. unfold field_rejected in Hrej. rewrite <- Hk in Hrej.
  destruct Hrej as [(k & Hin & Hno)|[Hno|[Hno|[Hno|Hno]]]].
  - destruct (numeric_of_parsed kvs t k Hp Hin) as [v Hv]. exact (Hno v Hv).
  - exact (Hno _ (to_field_of_parsed kvs t Hp)).
  - exact (Hno _ (data_field_of_parsed kvs t Hp)).
  - exact (Hno _ (chain_field_of_parsed kvs t Hp)).
  - exact (Hno _ (access_list_field_of_parsed kvs t Hp)).
Qed.

(** the common special case: a required numeric member is refused by [permissive_u256] *)
Theorem reject_numeric kvs k j :
  In k (numeric_keys (kind_of_keys kvs)) -> obj_get k kvs = Some j -> permissive_u256 j = Err ->
  tx_of_json (JObj kvs) = Err.
Proof.
  intros Hin Hget Hrej. apply reject_field. left. exists k. split; [exact Hin|].
  intros v Hv. apply num_field_iff in Hv as (j' & Hj' & Hv). congruence.
Qed.

Theorem reject_missing kvs k :
  In k (numeric_keys (kind_of_keys kvs)) -> obj_get k kvs = None -> tx_of_json (JObj kvs) = Err.
Proof.
  intros Hin Hget. apply reject_field. left. exists k. split; [exact Hin|].
  intros v Hv. apply num_field_iff in Hv as (j' & Hj' & Hv). congruence.
Qed.

Theorem reject_data kvs j :
  obj_get k_data kvs = Some j -> bytes_field j = Err -> tx_of_json (JObj kvs) = Err.
Proof.
  intros Hget Hrej. apply reject_field. right. right. left.
  intros v Hv. apply data_field_iff in Hv as (j' & Hj' & Hv). congruence.
Qed.

Theorem reject_to kvs j :
  obj_get k_to kvs = Some j -> j <> JNull -> address_field j = Err -> tx_of_json (JObj kvs) = Err.
Proof.
  intros Hget Hn Hrej. apply reject_field. right. left.
  intros v Hv. unfold to_field in Hv. rewrite Hget in Hv. unfold opt_address_field in Hv.
  destruct j; try congruence; rewrite Hrej in Hv; discriminate.
Qed.

(** documents whose members parse field by field to the same results give the same outcome *)
Theorem same_fields_same_tx kvs1 kvs2 :
  same_fields kvs1 kvs2 -> tx_of_json (JObj kvs1) = tx_of_json (JObj kvs2).
Proof.
  intros (Hk & Hnum & Hto & Hdata & Hchain & Hal).
  rewrite !tx_of_json_obj. rewrite <- Hk.
  destruct (kind_of_keys kvs1); cbn [numeric_keys chain_field access_list_field] in *.
  - unfold legacy_of_json.
    rewrite (Hnum k_nonce), (Hnum k_gas_price), (Hnum k_gas), (Hnum k_value), Hto, Hdata, Hchain
      by (cbn [In]; tauto).
    reflexivity.
  - unfold eip2930_of_json.
    rewrite (Hnum k_chain_id), (Hnum k_nonce), (Hnum k_gas_price), (Hnum k_gas), (Hnum k_value),
      Hto, Hdata, Hal by (cbn [In]; tauto).
    reflexivity.
  - unfold eip1559_of_json.
    rewrite (Hnum k_chain_id), (Hnum k_nonce), (Hnum k_max_priority_fee_per_gas),
      (Hnum k_max_fee_per_gas), (Hnum k_gas), (Hnum k_value), Hto, Hdata, Hal by (cbn [In]; tauto).
    reflexivity.
Qed.

(* ------------------------------------------------------------------ *)
(** * Parsed values are in range *)

Lemma obj_get_in k kvs j : obj_get k kvs = Some j -> exists k', In (k', j) kvs.
Proof.
  induction kvs as [|[k' v] r IH]; cbn [obj_get]; intros H; [discriminate|].
  destruct (list_eqb k k').
  - inversion H; subst. exists k'. left. reflexivity.
  - destruct (IH H) as [k'' Hin]. exists k''. right. exact Hin.
Qed.

Lemma num_field_range kvs k v :
  doc_tokens_ok (JObj kvs) -> num_field k kvs = Ok v -> v < 2 ^ 256.
Proof.
  cbn [doc_tokens_ok]. intros Htok H. apply num_field_iff in H as (j & Hj & H).
  destruct (obj_get_in _ _ _ Hj) as [k' Hin].
  rewrite Forall_forall in Htok. specialize (Htok _ Hin). cbn [snd] in Htok.
  exact (proj2 (NumProofs.exact j v Htok H)).
Qed.

Lemma to_field_wf kvs to : to_field kvs = Ok to -> wf_to to.
Proof.
  intros H. destruct to as [a|]; [|exact I]. apply to_field_some in H as (j & _ & H).
  apply NumProofs.address_sound in H as (HL & Hok & _). split; assumption.
Qed.

Lemma data_field_ok kvs b : data_field kvs = Ok b -> bytes_ok b.
Proof.
  intros H. apply data_field_iff in H as (j & _ & H). apply NumProofs.bytes_sound in H. apply H.
Qed.

Lemma legacy_chain_wf kvs c : legacy_chain_field kvs = Ok c -> wf_legacy_chain c.
Proof.
  intros H. destruct c as [c|]; [|exact I]. apply legacy_chain_some in H. apply H.
Qed.

Lemma slots_wf j (ks : list bytes) :
  slots_of_json j = Ok ks -> Forall (fun k : bytes => length k = 32%nat /\ bytes_ok k) ks.
Proof.
  destruct j as [| | | | | |l|]; try discriminate. cbn [slots_of_json]. intros H.
  apply omapM_ok in H. induction H as [|x y l ks Hxy _ IH]; constructor; [|exact IH].
  apply NumProofs.bytearray_sound in Hxy as [HL Hb]. split; [exact HL|].
  apply NumProofs.bytes_sound in Hb. apply Hb.
Qed.

Lemma access_entry_wf j e : access_entry_of_json j = Ok e -> wf_access_entry e.
Proof.
  destruct j as [| | | | | |l|]; try discriminate.
  destruct l as [|a [|ks [|x r]]]; try discriminate.
  cbn [access_entry_of_json]. intros H. bind_inv H. inversion H; subst e.
  unfold wf_access_entry. cbn [fst snd].
  apply NumProofs.address_sound in Ha as (HL & Hok & _).
  split; [split; assumption|]. eapply slots_wf. eassumption.
Qed.

Lemma access_list_wf j al : access_list_of_json j = Ok al -> wf_access_list al.
Proof.
  destruct j as [| | | | | |l|]; try discriminate. cbn [access_list_of_json]. intros H.
  apply omapM_ok in H. unfold wf_access_list.
  induction H as [|x y l al Hxy _ IH]; constructor; [|exact IH].
  eapply access_entry_wf. eassumption.
Qed.

Lemma access_list_req_wf kvs al : access_list_req_field kvs = Ok al -> wf_access_list al.
Proof.
  unfold access_list_req_field. intros H. apply bind_ok in H as (j & _ & H).
  eapply access_list_wf. eassumption.
Qed.

Lemma access_list_default_wf kvs al : access_list_default_field kvs = Ok al -> wf_access_list al.
Proof.
  unfold access_list_default_field. destruct (obj_get k_access_list kvs) as [j|].
  - apply access_list_wf.
  - intros H. inversion H. constructor.
Qed.

Theorem wf_parsed j t : doc_tokens_ok j -> tx_of_json j = Ok t -> wf_tx t.
Proof.
  intros Htok H. destruct (tx_of_json_is_obj j t H) as [kvs ->].
  apply fields_of_parsed in H.
  pose proof (num_field_range kvs) as R. specialize (fun k v => R k v Htok).
  destruct t as [t|t|t]; cbn [tx_parsed wf_tx] in *.
  - destruct H as (H0 & H1 & H2 & H3 & H4 & H5 & H6). unfold wf_legacy, u256.
    repeat split; eauto using to_field_wf, data_field_ok, legacy_chain_wf.
  - destruct H as (H0 & H1 & H2 & H3 & H4 & H5 & H6 & H7). unfold wf_eip2930, u256.
    repeat split; eauto using to_field_wf, data_field_ok, access_list_req_wf.
  - destruct H as (H0 & H1 & H2 & H3 & H4 & H5 & H6 & H7 & H8). unfold wf_eip1559, u256.
    repeat split; eauto using to_field_wf, data_field_ok, access_list_default_wf.
Qed.
