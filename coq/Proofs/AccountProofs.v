(** Proofs for C04 — key acceptance, public key, address, EIP-55 ([Model/Account.v]). *)
From Coq Require Import String.
From Coq Require Import List NArith Lia Bool PeanoNat Arith.
From HDW Require Import Lib.Outcome Lib.Radix Lib.Bytes Lib.Hex Model.Account Spec.AccountSpec.
Import ListNotations.
Open Scope N_scope.

(* ---------------- which byte strings are keys ---------------- *)

Definition in_range (v : N) : Prop := 1 <= v < curve_n.

Lemma curve_n_small : curve_n < 256 ^ N.of_nat 32.
Proof. vm_compute. reflexivity. Qed.

Lemma secret_from_bytes_cases b :
  (in_range (be_val b) /\ secret_from_bytes b = Ok (be_val b))
  \/ (~ in_range (be_val b) /\ secret_from_bytes b = Err).
Proof.
  unfold secret_from_bytes, in_range. cbv zeta.
  destruct (N.ltb_spec (be_val b) curve_n) as [Hlt|Hge].
  - destruct (N.eqb_spec (be_val b) 0) as [H0|H0].
    + right. split; [lia|reflexivity].
    + left. split; [lia|reflexivity].
  - right. split; [lia|reflexivity].
Qed.

Lemma be_val_pad k b : be_val (repeat 0 k ++ b) = be_val b.
Proof. apply of_digits_zeros. Qed.

(** lengths 24..32: the range check on the big-endian value; every other length: error *)
Lemma key_new_mid b :
  (24 <= length b <= 32)%nat ->
  (in_range (be_val b) /\ key_new b = Ok (be_val b))
  \/ (~ in_range (be_val b) /\ key_new b = Err).
Proof.
  intros Hlen. unfold key_new. cbv zeta.
  destruct (Nat.eqb_spec (length b) 32) as [E|E].
  - apply secret_from_bytes_cases.
  - replace (Nat.leb 24 (length b) && Nat.ltb (length b) 32) with true by lia.
    pose proof (secret_from_bytes_cases (repeat 0 (32 - length b) ++ b)) as H.
    rewrite be_val_pad in H. exact H.
Qed.

Lemma key_new_out b : (length b < 24 \/ length b > 32)%nat -> key_new b = Err.
Proof.
  intros Hlen. unfold key_new. cbv zeta.
  destruct (Nat.eqb_spec (length b) 32) as [E|E]; [lia|].
  replace (Nat.leb 24 (length b) && Nat.ltb (length b) 32) with false by lia. reflexivity.
Qed.

Lemma key_new_cases b :
  ((24 <= length b <= 32)%nat /\ in_range (be_val b) /\ key_new b = Ok (be_val b))
  \/ key_new b = Err.
Proof.
  destruct (Nat.le_gt_cases 24 (length b)) as [H1|H1]; [|right; apply key_new_out; lia].
  destruct (Nat.le_gt_cases (length b) 32) as [H2|H2]; [|right; apply key_new_out; lia].
  destruct (key_new_mid b (conj H1 H2)) as [[Hr Hk]|[_ Hk]]; [left; auto|right; exact Hk].
Qed.

Lemma accept_mid b :
  (24 <= length b <= 32)%nat ->
  (key_new b = Ok (be_val b) <-> 1 <= be_val b < curve_n)
  /\ (~ (1 <= be_val b < curve_n) -> key_new b = Err).
Proof.
  intros Hlen. destruct (key_new_mid b Hlen) as [[Hr Hk]|[Hr Hk]]; unfold in_range in *.
  - split; [split; auto|]. intros; contradiction.
  - split; [|intros _; exact Hk]. split; [rewrite Hk; discriminate|intros; contradiction].
Qed.

Lemma accept_32 b :
  length b = 32%nat ->
  (key_new b = Ok (be_val b) <-> 1 <= be_val b < curve_n)
  /\ (~ (1 <= be_val b < curve_n) -> key_new b = Err).
Proof. intros H. apply accept_mid. lia. Qed.

Lemma other_lengths b :
  length b <> 32%nat ->
  key_new b = Err \/ (key_new b = Ok (be_val b) /\ 1 <= be_val b < curve_n).
Proof.
  intros _. destruct (key_new_cases b) as [(_ & Hr & Hk)|Hk]; [right; split; assumption|left; exact Hk].
Qed.

(** whatever is accepted is the big-endian integer of the input, in range, from 24..32 bytes *)
Lemma key_value b k :
  key_new b = Ok k -> k = be_val b /\ 1 <= k < curve_n /\ (24 <= length b <= 32)%nat.
Proof.
  intros H. destruct (key_new_cases b) as [(Hl & Hr & Hk)|Hk]; [|congruence].
  rewrite Hk in H. inversion H; subst k. auto.
Qed.

Lemma key_new_total b : graceful (key_new b).
Proof.
  destruct (key_new_cases b) as [(_ & _ & Hk)|Hk]; rewrite Hk; [apply graceful_ok|apply graceful_err].
Qed.

(** two accepted spellings of the same length are the same bytes iff they are the same key *)
Lemma key_new_inj b1 b2 k :
  bytes_ok b1 -> bytes_ok b2 -> length b1 = length b2 ->
  key_new b1 = Ok k -> key_new b2 = Ok k -> b1 = b2.
Proof.
  intros O1 O2 L H1 H2. apply key_value in H1 as (E1 & _), H2 as (E2 & _).
  apply be_val_inj; congruence.
Qed.

Lemma secret_length k : length (secret k) = 32%nat.
Proof. apply be_fixed_length. Qed.

Lemma secret_ok k : bytes_ok (secret k).
Proof. apply be_fixed_ok. Qed.

Lemma secret_roundtrip k : 1 <= k < curve_n -> key_new (secret k) = Ok k.
Proof.
  intros Hk. pose proof curve_n_small as Hn.
  assert (Hv : be_val (secret k) = k) by (apply be_val_fixed; lia).
  destruct (accept_32 (secret k) (secret_length k)) as [[_ H] _].
  rewrite Hv in H. apply H; exact Hk.
Qed.

(** the secret of a key made from 32 bytes is those bytes *)
Lemma secret_of_key b k :
  bytes_ok b -> length b = 32%nat -> key_new b = Ok k -> secret k = b.
Proof.
  intros Hok Hlen H. apply key_value in H as (-> & _). unfold secret.
  rewrite <- Hlen. apply be_fixed_val; exact Hok.
Qed.

(** ... and of a key made from a shorter spelling: the same bytes, zero-padded to 32 *)
Lemma secret_of_short_key b k :
  bytes_ok b -> key_new b = Ok k -> secret k = repeat 0 (32 - length b) ++ b.
Proof.
  intros Hok H. apply key_value in H as (-> & _ & Hlen).
  rewrite <- (be_val_pad (32 - length b) b). unfold secret.
  replace 32%nat with (length (repeat 0 (32 - length b) ++ b)) at 1
    by (rewrite app_length, repeat_length; lia).
  apply be_fixed_val. apply bytes_ok_app. split; [|exact Hok].
  apply Forall_forall. intros x Hx. apply repeat_spec in Hx. subst x. reflexivity.
Qed.

(* ---------------- public key and address ---------------- *)

Section PublicKey.
  Variable pubkey65 : N -> bytes.
  Hypothesis pubkey65_length : forall k, 1 <= k < curve_n -> length (pubkey65 k) = 65%nat.
  Hypothesis pubkey65_head : forall k, 1 <= k < curve_n -> hd 0 (pubkey65 k) = 4.

  Lemma public_length k : 1 <= k < curve_n -> length (public pubkey65 k) = 65%nat.
  Proof. exact (pubkey65_length k). Qed.

  (** 0x04, then the 64 coordinate bytes *)
  Lemma public_shape k :
    1 <= k < curve_n ->
    public pubkey65 k = 4 :: skipn 1 (pubkey65 k) /\ length (skipn 1 (pubkey65 k)) = 64%nat.
  Proof.
    intros Hk. unfold public.
    pose proof (pubkey65_length k Hk) as L. pose proof (pubkey65_head k Hk) as Hd.
    destruct (pubkey65 k) as [|c r]; [discriminate|].
    cbn [hd] in Hd. subst c. cbn [skipn]. cbn [length] in L. split; [reflexivity|lia].
  Qed.

End PublicKey.

Section Address.
  Variable keccak : bytes -> bytes.
  Variable pubkey65 : N -> bytes.
  Hypothesis keccak_length : forall x, length (keccak x) = 32%nat.
  Hypothesis pubkey65_length : forall k, 1 <= k < curve_n -> length (pubkey65 k) = 65%nat.
  Hypothesis pubkey65_head : forall k, 1 <= k < curve_n -> hd 0 (pubkey65 k) = 4.

  Lemma address_eq k :
    1 <= k < curve_n ->
    address keccak pubkey65 k = Ok (skipn 12 (keccak (skipn 1 (pubkey65 k))))
    /\ length (skipn 1 (pubkey65 k)) = 64%nat
    /\ length (skipn 12 (keccak (skipn 1 (pubkey65 k)))) = 20%nat
    /\ exists pre, keccak (skipn 1 (pubkey65 k)) = pre ++ skipn 12 (keccak (skipn 1 (pubkey65 k)))
                   /\ length pre = 12%nat.
  Proof.
    intros Hk. unfold address, public. cbv zeta.
    rewrite (pubkey65_head k Hk). change (4 =? 4) with true. cbv iota.
    split; [reflexivity|]. split; [apply (public_shape pubkey65 pubkey65_length pubkey65_head k Hk)|].
    split; [rewrite skipn_length, keccak_length; reflexivity|].
    exists (firstn 12 (keccak (skipn 1 (pubkey65 k)))). split.
    - symmetry. apply firstn_skipn.
    - rewrite firstn_length, keccak_length. reflexivity.
  Qed.

  (** an accepted key always has an address (the debug assertion never fires) *)
  Lemma address_of_key b k :
    key_new b = Ok k ->
    exists a, address keccak pubkey65 k = Ok a /\ length a = 20%nat.
  Proof.
    intros H. apply key_value in H as (_ & Hr & _).
    destruct (address_eq k Hr) as (Ha & _ & Hl & _). eauto.
  Qed.
End Address.

(* ---------------- EIP-55 ---------------- *)

Lemma nibbles_cons b d : nibbles (b :: d) = b / 16 :: b mod 16 :: nibbles d.
Proof. reflexivity. Qed.

Lemma nibbles_length d : length (nibbles d) = (2 * length d)%nat.
Proof. induction d as [|b d IH]; [reflexivity|]. rewrite nibbles_cons. cbn [length]. rewrite IH. lia. Qed.

Lemma nibble_at_SS b d j : nibble_at (b :: d) (S (S j)) = nibble_at d j.
Proof.
  unfold nibble_at. cbv zeta. rewrite Nat.even_succ_succ.
  replace (S (S j)) with (j + 1 * 2)%nat by lia.
  rewrite Nat.div_add by lia. rewrite Nat.add_1_r. reflexivity.
Qed.

(** the model's walk over the digest reads the i-th nibble *)
Lemma nibble_at_nibbles d : bytes_ok d -> forall i, nibble_at d i = nth i (nibbles d) 0.
Proof.
  induction 1 as [|b d Hb _ IH]; intros i.
  - unfold nibble_at. cbv zeta. destruct (i / 2)%nat; destruct (Nat.even i); destruct i; reflexivity.
  - destruct i as [|[|j]].
    + change (nibble_at (b :: d) 0) with ((b / 16) mod 16). rewrite nibbles_cons. cbn [nth]. lia.
    + change (nibble_at (b :: d) 1) with (b mod 16). reflexivity.
    + rewrite nibble_at_SS, nibbles_cons. cbn [nth]. apply IH.
Qed.

Lemma checksum_case_length d s : forall i, length (checksum_case d i s) = length s.
Proof. induction s as [|c r IH]; intros i; [reflexivity|]. cbn [checksum_case length]. rewrite IH. reflexivity. Qed.

Lemma checksum_case_nth d s : forall i j x,
  (j < length s)%nat ->
  nth j (checksum_case d i s) x
  = if 8 <=? nibble_at d (i + j) then to_upper (nth j s x) else nth j s x.
Proof.
  induction s as [|c r IH]; intros i j x Hj; [cbn [length] in Hj; lia|].
  cbn [checksum_case]. destruct j as [|j].
  - rewrite Nat.add_0_r. reflexivity.
  - cbn [nth]. rewrite IH by (cbn [length] in Hj; lia).
    replace (S i + j)%nat with (i + S j)%nat by lia. reflexivity.
Qed.

Lemma to_lower_upper c : to_lower (to_upper c) = to_lower c.
Proof.
  unfold to_lower, to_upper, is_upper, is_lower.
  destruct ((97 <=? c) && (c <=? 122)) eqn:E; [|reflexivity].
  replace ((65 <=? c - 32) && (c - 32 <=? 90)) with true by lia.
  replace ((65 <=? c) && (c <=? 90)) with false by lia. lia.
Qed.

Lemma checksum_case_lower d s : forall i, map to_lower (checksum_case d i s) = map to_lower s.
Proof.
  induction s as [|c r IH]; intros i; [reflexivity|].
  cbn [checksum_case map]. rewrite IH.
  destruct (8 <=? nibble_at d i); [rewrite to_lower_upper|]; reflexivity.
Qed.

Definition hex_char (c : N) : Prop := 48 <= c <= 57 \/ hex_letter c.

Lemma hex_digit_char n : n < 16 -> hex_char (hex_digit n).
Proof.
  intros Hn. unfold hex_char, hex_letter, hex_digit. destruct (N.ltb_spec n 10); lia.
Qed.

Lemma hex_encode_chars a : bytes_ok a -> Forall hex_char (hex_encode a).
Proof.
  induction 1 as [|b r Hb _ IH]; [constructor|].
  cbn [hex_encode]. constructor; [apply hex_digit_char; lia|].
  constructor; [apply hex_digit_char; lia|exact IH].
Qed.

Lemma Forall_nth_lt {A} (P : A -> Prop) l i x : Forall P l -> (i < length l)%nat -> P (nth i l x).
Proof. intros H Hi. rewrite Forall_forall in H. apply H. apply nth_In. exact Hi. Qed.

Section Eip55.
  Variable keccak : bytes -> bytes.
  Hypothesis keccak_ok : forall x, bytes_ok (keccak x).

  (** "0x", then the lower-case hex digits of the address where exactly the letters whose
      nibble of keccak(lower-case hex) is >= 8 are replaced by their capitals *)
  Lemma eip55_spec a :
    bytes_ok a -> length a = 20%nat ->
    exists body,
      eip55 keccak a = s2l "0x" ++ body
      /\ length body = 40%nat
      /\ map to_lower body = hex_encode a
      /\ forall i, (i < 40)%nat ->
           let c := nth i (hex_encode a) 0 in
           let up := hex_letter c /\ 8 <= nth i (nibbles (keccak (hex_encode a))) 0 in
           (up -> nth i body 0 = c - 32) /\ (~ up -> nth i body 0 = c).
  Proof.
    intros Hok Hlen. exists (checksum_case (keccak (hex_encode a)) 0 (hex_encode a)).
    assert (L : length (hex_encode a) = 40%nat) by (rewrite hex_encode_length, Hlen; reflexivity).
    split; [reflexivity|]. split; [rewrite checksum_case_length; exact L|].
    split; [rewrite checksum_case_lower; apply hex_encode_lower; exact Hok|].
    intros i Hi. cbv zeta.
    rewrite checksum_case_nth by lia. rewrite Nat.add_0_l.
    rewrite nibble_at_nibbles by apply keccak_ok.
    pose proof (Forall_nth_lt _ _ i 0 (hex_encode_chars a Hok) ltac:(lia)) as Hc.
    set (c := nth i (hex_encode a) 0) in *.
    set (nb := nth i (nibbles (keccak (hex_encode a))) 0) in *.
    unfold hex_char, hex_letter in *. unfold to_upper, is_lower.
    destruct (N.leb_spec 8 nb) as [Hn|Hn].
    - destruct ((97 <=? c) && (c <=? 122)) eqn:E; split; intros H; lia.
    - split; intros H; [lia|reflexivity].
  Qed.

  (** the same, as a statement about the case of each character *)
  Lemma eip55_case a :
    bytes_ok a -> length a = 20%nat ->
    exists body,
      eip55 keccak a = s2l "0x" ++ body
      /\ length body = 40%nat
      /\ map to_lower body = hex_encode a
      /\ forall i, (i < 40)%nat ->
           (is_upper (nth i body 0) = true
            <-> hex_letter (nth i (hex_encode a) 0)
                /\ 8 <= nth i (nibbles (keccak (hex_encode a))) 0)
           /\ (is_upper (nth i body 0) = true -> hex_LETTER (nth i body 0)).
  Proof.
    intros Hok Hlen. destruct (eip55_spec a Hok Hlen) as (body & He & Hl & Hm & Hc).
    exists body. split; [exact He|]. split; [exact Hl|]. split; [exact Hm|].
    intros i Hi. specialize (Hc i Hi). cbv zeta in Hc. destruct Hc as [Hup Hno].
    assert (L : length (hex_encode a) = 40%nat) by (rewrite hex_encode_length, Hlen; reflexivity).
    pose proof (Forall_nth_lt _ _ i 0 (hex_encode_chars a Hok) ltac:(lia)) as Hch.
    set (c := nth i (hex_encode a) 0) in *.
    set (nb := nth i (nibbles (keccak (hex_encode a))) 0) in *.
    unfold hex_char, hex_letter, hex_LETTER in *. unfold is_upper.
    destruct (N.leb_spec 8 nb) as [Hn|Hn].
    - destruct (N.leb_spec 97 c) as [Hl97|Hl97].
      + rewrite Hup by lia. split; [split; intros; lia|intros; lia].
      + rewrite Hno by lia. split; [split; intros; lia|intros; lia].
    - rewrite Hno by lia. split; [split; intros; lia|intros; lia].
  Qed.

  (** the displayed address is 42 ASCII characters and spells the address bytes in hex *)
  Lemma eip55_decodes a :
    bytes_ok a -> length a = 20%nat ->
    length (eip55 keccak a) = 42%nat
    /\ exists body, eip55 keccak a = s2l "0x" ++ body /\ hex_decode body = Some a.
  Proof.
    intros Hok Hlen. destruct (eip55_spec a Hok Hlen) as (body & He & Hl & Hm & _).
    split; [rewrite He, app_length, Hl; reflexivity|].
    exists body. split; [exact He|]. apply hex_decode_complete; assumption.
  Qed.
End Eip55.
