(** Proofs about [Model/Prefix.v] (property C18: prefix parser and matcher). *)
From Coq Require Import String.
From Coq Require Import List NArith ZArith Lia Bool PeanoNat.
From HDW Require Import Lib.Outcome Lib.Radix Lib.Bytes Lib.Hex Model.Prefix.
Import ListNotations.
Open Scope N_scope.
Open Scope outcome_scope.

Arguments N.add : simpl never.
Arguments N.sub : simpl never.
Arguments N.mul : simpl never.
Arguments N.div : simpl never.
Arguments N.modulo : simpl never.
Arguments N.eqb : simpl never.
Arguments N.ltb : simpl never.
Arguments N.leb : simpl never.
Arguments N.pow : simpl never.
Arguments N.shiftl : simpl never.
Arguments N.shiftr : simpl never.

(* ------------------------------------------------------------------ *)
(** ** [parse_nibble] is [hex_val]; its [u8] arithmetic never panics *)

Lemma parse_nibble_hex_val c : parse_nibble c = of_option (hex_val c).
Proof.
  unfold parse_nibble, hex_val, u8_sub, u8_add.
  destruct ((48 <=? c) && (c <=? 57)) eqn:E1.
  { replace (c <? 48) with false by lia. reflexivity. }
  destruct ((97 <=? c) && (c <=? 102)) eqn:E2.
  { replace (c <? 97) with false by lia. cbn [bind].
    replace (c - 97 + 10 <? 256) with true by lia. cbn [of_option]. f_equal. lia. }
  destruct ((65 <=? c) && (c <=? 70)) eqn:E3.
  { replace (c <? 65) with false by lia. cbn [bind].
    replace (c - 65 + 10 <? 256) with true by lia. cbn [of_option]. f_equal. lia. }
  reflexivity.
Qed.

Lemma u8_byte a b : a < 16 -> b < 16 -> u8_add (u8_shl a 4) b = Ok (a * 16 + b).
Proof.
  intros Ha Hb. unfold u8_add, u8_shl. rewrite N.shiftl_mul_pow2. change (2 ^ 4) with 16.
  replace ((a * 16) mod 256) with (a * 16) by lia.
  replace (a * 16 + b <? 256) with true by lia. reflexivity.
Qed.

(* ------------------------------------------------------------------ *)
(** ** The loop with an indexed vector is a plain structural recursion *)

Fixpoint parse_chunks (s : bytes) : outcome (bytes * option N) :=
  match s with
  | [] => Ok ([], None)
  | [ni] => let* n := parse_nibble ni in Ok ([], Some n)
  | hi :: lo :: r =>
      let* h := parse_nibble hi in
      let* l := parse_nibble lo in
      let* b := u8_add (u8_shl h 4) l in
      let* st := parse_chunks r in
      Ok (b :: fst st, snd st)
  end.

Lemma div2_SS n : Nat.div (S (S n)) 2 = S (Nat.div n 2).
Proof.
  replace (S (S n)) with (n + 1 * 2)%nat by lia. rewrite Nat.div_add by lia. lia.
Qed.

Lemma vec_set_mid (pre post : bytes) z x :
  vec_set (pre ++ z :: post) (length pre) x = Ok (pre ++ x :: post).
Proof.
  unfold vec_set.
  replace (Nat.ltb (length pre) (length (pre ++ z :: post))) with true.
  2:{ symmetry. apply Nat.ltb_lt. rewrite app_length. cbn [length]. lia. }
  rewrite firstn_app, firstn_all, Nat.sub_diag. cbn [firstn]. rewrite app_nil_r.
  rewrite skipn_app. rewrite skipn_all2 by lia.
  replace (S (length pre) - length pre)%nat with 1%nat by lia. reflexivity.
Qed.

Lemma parse_loop_chunks s : forall pre,
  parse_loop (chunks2 s) (length pre) (pre ++ repeat 0 (Nat.div (length s) 2), None)
  = omap (fun st => (pre ++ fst st, snd st)) (parse_chunks s).
Proof.
  induction s as [| x | x y r IH] using list_ind2; intros pre.
  - reflexivity.
  - cbn [chunks2 parse_loop parse_step parse_chunks fst snd].
    destruct (parse_nibble x); reflexivity.
  - cbn [chunks2 parse_loop parse_step parse_chunks fst snd].
    destruct (parse_nibble x) as [h| | |]; try reflexivity.
    destruct (parse_nibble y) as [l| | |]; try reflexivity.
    cbn [bind].
    destruct (u8_add (u8_shl h 4) l) as [b| | |]; try reflexivity.
    cbn [bind]. cbn [length]. rewrite div2_SS. cbn [repeat].
    rewrite vec_set_mid. cbn [bind].
    replace (S (length pre)) with (length (pre ++ [b])) by (rewrite app_length; cbn [length]; lia).
    replace (pre ++ b :: repeat 0 (Nat.div (length r) 2)) with ((pre ++ [b]) ++ repeat 0 (Nat.div (length r) 2))
      by (rewrite <- app_assoc; reflexivity).
    rewrite IH. destruct (parse_chunks r) as [st| | |]; try reflexivity.
    cbn [omap bind fst snd]. rewrite <- app_assoc. reflexivity.
Qed.

(** [parse_prefix] without the loop. *)
Lemma parse_prefix_eq t :
  parse_prefix t =
  match strip_prefix (s2l "0x") t with
  | None => Err
  | Some s => omap (fun st => {| p_bytes := fst st; p_nibble := snd st |}) (parse_chunks (utf8 s))
  end.
Proof.
  unfold parse_prefix. destruct (strip_prefix (s2l "0x") t) as [s|]; [|reflexivity].
  cbv zeta. pose proof (parse_loop_chunks (utf8 s) []) as H. cbn [app length] in H.
  rewrite H. destruct (parse_chunks (utf8 s)); reflexivity.
Qed.

(** [parse_chunks] step by step, in terms of [hex_val]. *)
Lemma parse_chunks_1 c :
  parse_chunks [c] = match hex_val c with Some n => Ok ([], Some n) | None => Err end.
Proof. cbn [parse_chunks]. rewrite parse_nibble_hex_val. destruct (hex_val c); reflexivity. Qed.

Lemma parse_chunks_2 h l r :
  parse_chunks (h :: l :: r) =
  match hex_val h, hex_val l with
  | Some a, Some b => let* st := parse_chunks r in Ok (a * 16 + b :: fst st, snd st)
  | _, _ => Err
  end.
Proof.
  cbn [parse_chunks]. rewrite !parse_nibble_hex_val.
  destruct (hex_val h) as [a|] eqn:Ha; [|reflexivity].
  destruct (hex_val l) as [b|] eqn:Hb; [|reflexivity].
  cbn [of_option bind]. rewrite u8_byte by (eapply hex_val_bound; eassumption). reflexivity.
Qed.

Lemma parse_chunks_graceful s : graceful (parse_chunks s).
Proof.
  induction s as [| x | h l r IH] using list_ind2.
  - apply graceful_ok.
  - rewrite parse_chunks_1. destruct (hex_val x); [apply graceful_ok|apply graceful_err].
  - rewrite parse_chunks_2. destruct (hex_val h); [|apply graceful_err].
    destruct (hex_val l); [|apply graceful_err].
    apply graceful_bind; [exact IH|]. intros; apply graceful_ok.
Qed.

Lemma is_hex_digit_val c : is_hex_digit c <-> exists v, hex_val c = Some v.
Proof.
  unfold is_hex_digit, is_hex. destruct (hex_val c) as [v|]; split; intros H.
  - eauto. - reflexivity. - discriminate. - destruct H; discriminate.
Qed.

(** Shape of a successful parse. *)
Lemma parse_chunks_ok s : forall bs nib,
  parse_chunks s = Ok (bs, nib) ->
  Forall is_hex_digit s
  /\ bytes_ok bs
  /\ length bs = Nat.div (length s) 2
  /\ (nib = None <-> Nat.even (length s) = true)
  /\ (forall n, nib = Some n -> n < 16).
Proof.
  induction s as [| x | h l r IH] using list_ind2; intros bs nib H.
  - inversion H; subst. repeat split; try constructor; try reflexivity. intros; discriminate.
  - rewrite parse_chunks_1 in H. destruct (hex_val x) as [n|] eqn:Hx; [|discriminate].
    inversion H; subst. repeat split; try reflexivity.
    + constructor; [|constructor]. apply is_hex_digit_val; eauto.
    + constructor.
    + intros; discriminate.
    + intros; discriminate.
    + intros n' Hn. inversion Hn; subst. eapply hex_val_bound; eassumption.
  - rewrite parse_chunks_2 in H.
    destruct (hex_val h) as [a|] eqn:Ha; [|discriminate].
    destruct (hex_val l) as [b|] eqn:Hb; [|discriminate].
    destruct (parse_chunks r) as [[bs' nib']| | |] eqn:Hr; try discriminate.
    cbn [bind fst snd] in H. inversion H; subst.
    destruct (IH bs' nib eq_refl) as (Hd & Hok & Hlen & Hev & Hn).
    pose proof (hex_val_bound _ _ Ha). pose proof (hex_val_bound _ _ Hb).
    split; [|split; [|split; [|split]]].
    + constructor; [apply is_hex_digit_val; eauto|].
      constructor; [apply is_hex_digit_val; eauto|exact Hd].
    + constructor; [lia|exact Hok].
    + cbn [length]. rewrite div2_SS, Hlen. reflexivity.
    + cbn [length]. rewrite Nat.even_succ_succ. exact Hev.
    + exact Hn.
Qed.

Lemma parse_chunks_complete s : Forall is_hex_digit s -> exists st, parse_chunks s = Ok st.
Proof.
  induction s as [| x | h l r IH] using list_ind2; intros H.
  - eexists; reflexivity.
  - inversion H as [|? ? Hx _]; subst. apply is_hex_digit_val in Hx as [v Hv].
    rewrite parse_chunks_1, Hv. eauto.
  - inversion H as [|? ? Hh H']; subst. inversion H' as [|? ? Hl Hr]; subst.
    apply is_hex_digit_val in Hh as [a Ha]. apply is_hex_digit_val in Hl as [b Hb].
    destruct (IH Hr) as [st Hst]. rewrite parse_chunks_2, Ha, Hb, Hst. cbn [bind]. eauto.
Qed.

(* ------------------------------------------------------------------ *)
(** ** Prefixes of lists *)

Lemma is_prefixb_spec p : forall l, is_prefixb p l = true <-> is_prefix p l.
Proof.
  unfold is_prefix. induction p as [|x p IH]; intros l.
  - cbn [is_prefixb]. split; [intros _; exists l; reflexivity|reflexivity].
  - destruct l as [|y l]; cbn [is_prefixb].
    + split; [discriminate|intros [r Hr]; discriminate].
    + rewrite andb_true_iff, N.eqb_eq, IH. split.
      * intros [-> [r ->]]. exists r. reflexivity.
      * intros [r Hr]. cbn [app] in Hr. inversion Hr; subst. split; [reflexivity|eauto].
Qed.

Lemma starts_with_spec a p : starts_with a p = true <-> is_prefix p a.
Proof.
  unfold starts_with, is_prefix. rewrite andb_true_iff, Nat.leb_le, list_eqb_spec. split.
  - intros [_ Hp]. exists (skipn (length p) a). rewrite Hp at 1. symmetry. apply firstn_skipn.
  - intros [r ->]. rewrite app_length. split; [lia|].
    rewrite firstn_app, firstn_all, Nat.sub_diag. cbn [firstn]. rewrite app_nil_r. reflexivity.
Qed.

Lemma starts_with_prefixb a p : starts_with a p = is_prefixb p a.
Proof. apply eq_true_iff_eq. rewrite starts_with_spec, is_prefixb_spec. reflexivity. Qed.

(* ------------------------------------------------------------------ *)
(** ** The matcher against the hex spelling *)

Lemma hex_digit_eqb n m : n < 16 -> m < 16 -> (hex_digit n =? hex_digit m) = (n =? m).
Proof.
  intros Hn Hm. apply eq_true_iff_eq. rewrite !N.eqb_eq. unfold hex_digit.
  destruct (N.ltb_spec n 10), (N.ltb_spec m 10); lia.
Qed.

(** [Prefix::matches] on the two components. *)
Definition matches2 (bs : bytes) (nib : option N) (addr : bytes) : bool :=
  is_prefixb bs addr
  && match nib with
     | Some n => match nth_error addr (length bs) with
                 | Some last => N.shiftr last 4 =? n
                 | None => false
                 end
     | None => true
     end.

Lemma matches_matches2 p addr : matches p addr = matches2 (p_bytes p) (p_nibble p) addr.
Proof. unfold matches, matches2. rewrite starts_with_prefixb. reflexivity. Qed.

Lemma matches2_cons b bs nib a ar :
  matches2 (b :: bs) nib (a :: ar) = (b =? a) && matches2 bs nib ar.
Proof. unfold matches2. cbn [is_prefixb length nth_error]. rewrite andb_assoc. reflexivity. Qed.

Lemma matches2_chunks s : forall bs nib addr,
  parse_chunks s = Ok (bs, nib) -> bytes_ok addr ->
  matches2 bs nib addr = is_prefixb (map to_lower s) (hex_encode addr).
Proof.
  induction s as [| x | h l r IH] using list_ind2; intros bs nib addr H Hok.
  - inversion H; subst. reflexivity.
  - rewrite parse_chunks_1 in H. destruct (hex_val x) as [n|] eqn:Hx; [|discriminate].
    inversion H; subst. unfold matches2. cbn [is_prefixb length andb map].
    destruct addr as [|a ar]; [reflexivity|].
    inversion Hok as [|? ? Ha _]; subst.
    cbn [nth_error hex_encode is_prefixb]. rewrite andb_true_r.
    rewrite (hex_val_to_lower _ _ Hx).
    pose proof (hex_val_bound _ _ Hx).
    rewrite hex_digit_eqb by lia.
    rewrite N.shiftr_div_pow2. change (2 ^ 4) with 16.
    rewrite N.eqb_sym. reflexivity.
  - rewrite parse_chunks_2 in H.
    destruct (hex_val h) as [vh|] eqn:Hh; [|discriminate].
    destruct (hex_val l) as [vl|] eqn:Hl; [|discriminate].
    destruct (parse_chunks r) as [[bs' nib']| | |] eqn:Hr; try discriminate.
    cbn [bind fst snd] in H. inversion H; subst.
    destruct addr as [|a ar]; [reflexivity|].
    inversion Hok as [|? ? Ha Har]; subst.
    rewrite matches2_cons. cbn [map hex_encode is_prefixb].
    rewrite (IH bs' nib ar eq_refl Har).
    rewrite (hex_val_to_lower _ _ Hh), (hex_val_to_lower _ _ Hl).
    pose proof (hex_val_bound _ _ Hh). pose proof (hex_val_bound _ _ Hl).
    rewrite !hex_digit_eqb by lia. rewrite andb_assoc. f_equal.
    apply eq_true_iff_eq. rewrite andb_true_iff, !N.eqb_eq. lia.
Qed.

(* ------------------------------------------------------------------ *)
(** ** The parser on text *)

Lemma all_hex_digit_ascii s : Forall is_hex_digit s -> all_ascii s.
Proof.
  intros H. eapply Forall_impl; [|exact H]. intros c Hc.
  apply is_hex_digit_val in Hc as [v Hv]. eapply hex_val_ascii; exact Hv.
Qed.

(** Soundness: only [0x] followed by ASCII hex digits is accepted. *)
Lemma prefix_sound t p :
  parse_prefix t = Ok p -> exists ds, t = s2l "0x" ++ ds /\ Forall is_hex_digit ds.
Proof.
  rewrite parse_prefix_eq. destruct (strip_prefix (s2l "0x") t) as [s|] eqn:Es; [|discriminate].
  destruct (parse_chunks (utf8 s)) as [[bs nib]| | |] eqn:Hc; try discriminate. intros _.
  apply strip_prefix_some in Es. exists s. split; [exact Es|].
  destruct (parse_chunks_ok _ _ _ Hc) as (Hd & _).
  pose proof (utf8_all_ascii_inv _ (all_hex_digit_ascii _ Hd)) as Ha.
  rewrite (utf8_ascii _ Ha) in Hd. exact Hd.
Qed.

Lemma parse_prefix_digits ds :
  Forall is_hex_digit ds ->
  parse_prefix (s2l "0x" ++ ds)
  = omap (fun st => {| p_bytes := fst st; p_nibble := snd st |}) (parse_chunks ds).
Proof.
  intros H. rewrite parse_prefix_eq, strip_prefix_app.
  rewrite (utf8_ascii _ (all_hex_digit_ascii _ H)). reflexivity.
Qed.

(** Every digit string parses: [length / 2] whole bytes, a nibble iff the length is odd. *)
Lemma prefix_parse ds :
  Forall is_hex_digit ds ->
  exists p, parse_prefix (s2l "0x" ++ ds) = Ok p
    /\ length (p_bytes p) = Nat.div (length ds) 2
    /\ (p_nibble p = None <-> Nat.even (length ds) = true)
    /\ bytes_ok (p_bytes p)
    /\ (forall n, p_nibble p = Some n -> n < 16).
Proof.
  intros H. rewrite (parse_prefix_digits _ H).
  destruct (parse_chunks_complete _ H) as [[bs nib] Hst]. rewrite Hst.
  destruct (parse_chunks_ok _ _ _ Hst) as (_ & Hok & Hlen & Hev & Hn).
  eexists. split; [reflexivity|]. cbn [p_bytes p_nibble fst snd]. auto.
Qed.

(** The matcher decides exactly "the hex spelling of the address starts with the digits". *)
Lemma prefix_spec ds p addr :
  parse_prefix (s2l "0x" ++ ds) = Ok p -> bytes_ok addr ->
  (matches p addr = true <-> hex_prefix_matches ds addr).
Proof.
  intros Hp Hok. destruct (prefix_sound _ _ Hp) as (ds' & Heq & Hd).
  apply app_inv_head in Heq. subst ds'.
  rewrite (parse_prefix_digits _ Hd) in Hp.
  destruct (parse_chunks ds) as [[bs nib]| | |] eqn:Hc; try discriminate.
  cbn [omap bind fst snd] in Hp. inversion Hp; subst p.
  rewrite matches_matches2. cbn [p_bytes p_nibble].
  rewrite (matches2_chunks _ _ _ _ Hc Hok). unfold hex_prefix_matches. apply is_prefixb_spec.
Qed.

(** A prefix with more digits than the address has never matches. *)
Lemma prefix_too_long ds p addr :
  parse_prefix (s2l "0x" ++ ds) = Ok p -> bytes_ok addr ->
  (2 * length addr < length ds)%nat -> matches p addr = false.
Proof.
  intros Hp Hok Hlen. destruct (matches p addr) eqn:Hm; [|reflexivity].
  apply (prefix_spec _ _ _ Hp Hok) in Hm. destruct Hm as [r Hr].
  apply (f_equal (@length N)) in Hr. rewrite hex_encode_length, app_length, map_length in Hr. lia.
Qed.

Lemma prefix_total t : graceful (parse_prefix t).
Proof.
  rewrite parse_prefix_eq. destruct (strip_prefix (s2l "0x") t); [|apply graceful_err].
  apply graceful_bind; [apply parse_chunks_graceful|]. intros; apply graceful_ok.
Qed.

Lemma prefix_nonhex t :
  (~ (exists r, t = s2l "0x" ++ r))
  \/ (exists ds, t = s2l "0x" ++ ds /\ Exists (fun c => ~ is_hex_digit c) ds) ->
  parse_prefix t = Err.
Proof.
  intros H. destruct (prefix_total t) as [Hp Hf].
  destruct (parse_prefix t) as [p| | |] eqn:E; try reflexivity; try congruence.
  exfalso. destruct (prefix_sound _ _ E) as (ds & Ht & Hd).
  destruct H as [H | (ds' & Ht' & Hex)].
  - apply H. eauto.
  - rewrite Ht in Ht'. apply app_inv_head in Ht'. subst ds'.
    apply Exists_exists in Hex as (c & Hin & Hc). rewrite Forall_forall in Hd. auto.
Qed.

(** An empty digit string is the empty prefix, which matches every address. *)
Lemma prefix_empty addr : exists p, parse_prefix (s2l "0x") = Ok p /\ matches p addr = true.
Proof.
  eexists. split; [reflexivity|]. unfold matches, starts_with. reflexivity.
Qed.
