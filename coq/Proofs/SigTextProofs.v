(** Proofs about [Model/SigText.v] (property C15, the signature text). *)
From Coq Require Import String.
From Coq Require Import List NArith ZArith Lia Bool PeanoNat.
From HDW Require Import Lib.Outcome Lib.Radix Lib.Bytes Lib.Hex Model.SigText.
From HDW Require Import Model.HexCli Proofs.HexCliProofs.
Import ListNotations.
Open Scope N_scope.


(** The 65 bytes [r(32) ‖ s(32) ‖ v] a signature text denotes. *)
Definition sig_bytes (r s v : N) : bytes := be_fixed 32 r ++ be_fixed 32 s ++ [v].

(** [t] spells the triple [(r, s, v)]: an optional lower-case [0x], then the 130 hex digits
    of [sig_bytes r s v] in either case. *)
Definition sig_spelling (r s v : N) (t : text) : Prop :=
  exists body, (t = s2l "0x" ++ body \/ t = body) /\ map to_lower body = hex_encode (sig_bytes r s v).

(** The value [parse_sig] gives to a spelling of [(r, s, v)]. *)
Definition sig_of_triple (r s v : N) : outcome sig :=
  if (v =? 27) || (v =? 28) then
    if scalar_okb r && scalar_okb s
    then Ok {| sig_r := r; sig_s := s; sig_parity := (v =? 28) |}
    else Err
  else Err.

(* ------------------------------------------------------------------ *)
(** * Constants *)

Lemma pow256_32 : 256 ^ N.of_nat 32 = 2 ^ 256.
Proof. vm_compute. reflexivity. Qed.

Lemma secp_n_lt : secp_n < 2 ^ 256.
Proof. vm_compute. reflexivity. Qed.

Lemma scalar_okb_spec x : scalar_okb x = true <-> 1 <= x /\ x < secp_n.
Proof.
  unfold scalar_okb. rewrite andb_true_iff, N.leb_le, N.ltb_lt. reflexivity.
Qed.

Lemma valid_sig_okb σ : valid_sig σ <-> scalar_okb (sig_r σ) && scalar_okb (sig_s σ) = true.
Proof.
  unfold valid_sig. rewrite andb_true_iff, !scalar_okb_spec. reflexivity.
Qed.

Lemma v_legacy_cases σ : v_legacy σ = if sig_parity σ then 28 else 27.
Proof. unfold v_legacy, y_parity. destruct (sig_parity σ); reflexivity. Qed.

Lemma v_legacy_byte σ : v_legacy σ < 256.
Proof. rewrite v_legacy_cases. destruct (sig_parity σ); lia. Qed.

(* ------------------------------------------------------------------ *)
(** * List helpers *)

Lemma firstn_app_len {A} k (a b : list A) : length a = k -> firstn k (a ++ b) = a.
Proof.
  intros <-. induction a as [|x a IH]; cbn [length app firstn].
  - destruct b; reflexivity.
  - rewrite IH. reflexivity.
Qed.

Lemma skipn_app_len {A} k (a b : list A) : length a = k -> skipn k (a ++ b) = b.
Proof.
  intros <-. induction a as [|x a IH]; cbn [length app skipn]; [reflexivity|exact IH].
Qed.

Lemma nth_app_len {A} k (a : list A) x r d : length a = k -> nth k (a ++ x :: r) d = x.
Proof.
  intros <-. induction a as [|y a IH]; cbn [length app nth]; [reflexivity|exact IH].
Qed.

Lemma skipn_one {A} k (l : list A) d : length l = S k -> skipn k l = [nth k l d].
Proof.
  revert l; induction k as [|k IH]; intros [|x l] H; try discriminate.
  - destruct l; [reflexivity|discriminate].
  - cbn [skipn nth]. apply IH. cbn [length] in H. lia.
Qed.

Lemma skipn_add {A} a b (l : list A) : skipn a (skipn b l) = skipn (b + a) l.
Proof.
  revert l; induction b as [|b IH]; intros l; [reflexivity|].
  destruct l as [|x l]; [destruct a; reflexivity|]. cbn [skipn Nat.add]. apply IH.
Qed.

Lemma split65 (bs : list N) :
  length bs = 65%nat ->
  bs = firstn 32 bs ++ firstn 32 (skipn 32 bs) ++ [nth 64 bs 0].
Proof.
  intros H.
  rewrite <- (firstn_skipn 32 bs) at 1. f_equal.
  rewrite <- (firstn_skipn 32 (skipn 32 bs)) at 1. f_equal.
  rewrite skipn_add. change (32 + 32)%nat with 64%nat.
  apply skipn_one. exact H.
Qed.

Lemma sig_bytes_length r s v : length (sig_bytes r s v) = 65%nat.
Proof. unfold sig_bytes. rewrite !app_length, !be_fixed_length. reflexivity. Qed.

Lemma sig_bytes_ok r s v : v < 256 -> bytes_ok (sig_bytes r s v).
Proof.
  intros Hv. unfold sig_bytes. apply bytes_ok_app; split; [apply be_fixed_ok|].
  apply bytes_ok_app; split; [apply be_fixed_ok|]. constructor; [exact Hv|constructor].
Qed.

(* ------------------------------------------------------------------ *)
(** * The byte-level parser on canonical bytes *)

Lemma parse_sig_bytes_triple r s v :
  r < 2 ^ 256 -> s < 2 ^ 256 -> parse_sig_bytes (sig_bytes r s v) = sig_of_triple r s v.
Proof.
  intros Hr Hs. unfold parse_sig_bytes, sig_bytes, sig_of_triple.
  assert (Ev : nth 64 (be_fixed 32 r ++ be_fixed 32 s ++ [v]) 0 = v).
  { rewrite app_assoc. apply nth_app_len. rewrite app_length, !be_fixed_length. reflexivity. }
  rewrite Ev.
  rewrite (firstn_app_len 32) by apply be_fixed_length.
  rewrite (skipn_app_len 32) by apply be_fixed_length.
  rewrite (firstn_app_len 32) by apply be_fixed_length.
  rewrite !be_val_fixed by (rewrite pow256_32; assumption).
  destruct (N.eqb_spec v 27) as [->|N27]; [reflexivity|].
  destruct (N.eqb_spec v 28) as [->|N28]; reflexivity.
Qed.

Lemma sig_of_triple_valid σ :
  valid_sig σ -> sig_of_triple (sig_r σ) (sig_s σ) (v_legacy σ) = Ok σ.
Proof.
  intros Hv. unfold sig_of_triple. apply valid_sig_okb in Hv. rewrite Hv.
  rewrite v_legacy_cases. destruct σ as [r s [|]]; reflexivity.
Qed.

Lemma sig_of_triple_err r s v :
  r = 0 \/ secp_n <= r \/ s = 0 \/ secp_n <= s \/ (v <> 27 /\ v <> 28) ->
  sig_of_triple r s v = Err.
Proof.
  intros H. unfold sig_of_triple.
  destruct ((v =? 27) || (v =? 28)) eqn:Ev; [|reflexivity].
  destruct (scalar_okb r && scalar_okb s) eqn:Eo; [|reflexivity].
  exfalso. apply andb_true_iff in Eo as [Er Es].
  apply scalar_okb_spec in Er, Es. apply orb_true_iff in Ev.
  rewrite !N.eqb_eq in Ev. lia.
Qed.

Lemma sig_of_triple_ok r s v σ :
  sig_of_triple r s v = Ok σ ->
  valid_sig σ /\ sig_r σ = r /\ sig_s σ = s /\ v_legacy σ = v.
Proof.
  unfold sig_of_triple. intros H.
  destruct ((v =? 27) || (v =? 28)) eqn:Ev; [|discriminate].
  destruct (scalar_okb r && scalar_okb s) eqn:Eo; [|discriminate].
  inversion H; subst σ; clear H. split; [apply valid_sig_okb; exact Eo|].
  split; [reflexivity|]. split; [reflexivity|].
  rewrite v_legacy_cases. cbn [sig_parity].
  apply orb_true_iff in Ev. rewrite !N.eqb_eq in Ev.
  destruct (N.eqb_spec v 28) as [->|N28]; [reflexivity|]. destruct Ev; congruence.
Qed.

(* ------------------------------------------------------------------ *)
(** * Stripping the prefix *)

Lemma s2l_0x : s2l "0x" = [48; 120].
Proof. reflexivity. Qed.

Lemma sig_body_hex h : forallb is_hex h = true -> sig_body h = h.
Proof.
  intros H. unfold sig_body. rewrite utf8_ascii by (apply all_hex_ascii; exact H).
  rewrite all_hex_no_0x by exact H. reflexivity.
Qed.

Lemma sig_body_0x_hex h : forallb is_hex h = true -> sig_body (s2l "0x" ++ h) = h.
Proof.
  intros H. unfold sig_body. rewrite utf8_ascii.
  - rewrite strip_prefix_app. reflexivity.
  - rewrite s2l_0x. cbn [app]. constructor; [lia|]. constructor; [lia|].
    apply all_hex_ascii; exact H.
Qed.

(** If what is left after stripping is ASCII, then the text itself was ASCII and is the
    body with or without [0x] in front. *)
Lemma sig_body_ascii_inv t :
  all_ascii (sig_body t) -> t = s2l "0x" ++ sig_body t \/ t = sig_body t.
Proof.
  unfold sig_body. intros H.
  destruct (strip_prefix (s2l "0x") (utf8 t)) as [r|] eqn:E.
  - left. apply strip_prefix_some in E.
    assert (Ha : all_ascii t).
    { apply utf8_all_ascii_inv. rewrite E, s2l_0x. cbn [app].
      constructor; [lia|]. constructor; [lia|]. exact H. }
    rewrite (utf8_ascii t Ha) in E. exact E.
  - right. symmetry. apply utf8_ascii. apply utf8_all_ascii_inv. exact H.
Qed.

(* ------------------------------------------------------------------ *)
(** * Completeness: every spelling is parsed to the triple's value *)

Lemma parse_sig_body t body bs :
  t = s2l "0x" ++ body \/ t = body ->
  hex_decode body = Some bs -> length bs = 65%nat ->
  parse_sig t = parse_sig_bytes bs.
Proof.
  intros Ht Hd Hl. pose proof (hex_decode_all_hex _ _ Hd) as Hx.
  assert (Hb : sig_body t = body).
  { destruct Ht as [-> | ->]; [apply sig_body_0x_hex|apply sig_body_hex]; exact Hx. }
  unfold parse_sig, hex_decode_fixed. rewrite Hb, Hd, Hl. reflexivity.
Qed.

Lemma parse_spelling r s v t :
  r < 2 ^ 256 -> s < 2 ^ 256 -> v < 256 -> sig_spelling r s v t ->
  parse_sig t = sig_of_triple r s v.
Proof.
  intros Hr Hs Hv (body & Ht & Hm).
  rewrite <- parse_sig_bytes_triple by assumption.
  apply (parse_sig_body t body); [exact Ht| |apply sig_bytes_length].
  apply hex_decode_complete; [apply sig_bytes_ok; exact Hv|exact Hm].
Qed.

Lemma valid_sig_bounds σ : valid_sig σ -> sig_r σ < 2 ^ 256 /\ sig_s σ < 2 ^ 256.
Proof. intros [[_ Hr] [_ Hs]]. pose proof secp_n_lt. split; lia. Qed.

Theorem accept σ t :
  valid_sig σ -> sig_spelling (sig_r σ) (sig_s σ) (v_legacy σ) t -> parse_sig t = Ok σ.
Proof.
  intros Hv Hsp. destruct (valid_sig_bounds σ Hv) as [Hr Hs].
  rewrite (parse_spelling _ _ _ t Hr Hs (v_legacy_byte σ) Hsp).
  apply sig_of_triple_valid; exact Hv.
Qed.

(* ------------------------------------------------------------------ *)
(** * The printed text *)

Lemma print_sig_eq σ :
  print_sig σ = s2l "0x" ++ hex_encode (sig_bytes (sig_r σ) (sig_s σ) (v_legacy σ)).
Proof. unfold print_sig, sig_bytes. rewrite !hex_encode_app. reflexivity. Qed.

Lemma print_sig_body σ :
  skipn 2 (print_sig σ) = hex_encode (sig_bytes (sig_r σ) (sig_s σ) (v_legacy σ)).
Proof. rewrite print_sig_eq, s2l_0x. reflexivity. Qed.

Lemma sig_bytes_enc_lower r s v :
  v < 256 -> map to_lower (hex_encode (sig_bytes r s v)) = hex_encode (sig_bytes r s v).
Proof. intros Hv. apply hex_encode_lower, sig_bytes_ok; exact Hv. Qed.

Lemma print_sig_spelling σ : sig_spelling (sig_r σ) (sig_s σ) (v_legacy σ) (print_sig σ).
Proof.
  exists (hex_encode (sig_bytes (sig_r σ) (sig_s σ) (v_legacy σ))). split.
  - left. apply print_sig_eq.
  - apply sig_bytes_enc_lower, v_legacy_byte.
Qed.

Lemma print_sig_body_spelling σ :
  sig_spelling (sig_r σ) (sig_s σ) (v_legacy σ) (skipn 2 (print_sig σ)).
Proof.
  exists (hex_encode (sig_bytes (sig_r σ) (sig_s σ) (v_legacy σ))). split.
  - right. apply print_sig_body.
  - apply sig_bytes_enc_lower, v_legacy_byte.
Qed.

Lemma upper_spelling r s v :
  v < 256 -> map to_lower (map to_upper (hex_encode (sig_bytes r s v))) = hex_encode (sig_bytes r s v).
Proof.
  intros Hv.
  assert (Hd : hex_decode (map to_upper (hex_encode (sig_bytes r s v))) = Some (sig_bytes r s v)).
  { rewrite hex_decode_upper. apply hex_decode_encode, sig_bytes_ok; exact Hv. }
  apply hex_decode_sound in Hd. apply Hd.
Qed.

Lemma print_sig_upper_spelling σ :
  sig_spelling (sig_r σ) (sig_s σ) (v_legacy σ) (s2l "0x" ++ map to_upper (skipn 2 (print_sig σ))).
Proof.
  exists (map to_upper (skipn 2 (print_sig σ))). split; [left; reflexivity|].
  rewrite print_sig_body. apply upper_spelling, v_legacy_byte.
Qed.

Theorem roundtrip σ : valid_sig σ -> parse_sig (print_sig σ) = Ok σ.
Proof. intros Hv. apply accept; [exact Hv|apply print_sig_spelling]. Qed.

Theorem roundtrip_noprefix σ : valid_sig σ -> parse_sig (skipn 2 (print_sig σ)) = Ok σ.
Proof. intros Hv. apply accept; [exact Hv|apply print_sig_body_spelling]. Qed.

Theorem roundtrip_upper σ :
  valid_sig σ -> parse_sig (s2l "0x" ++ map to_upper (skipn 2 (print_sig σ))) = Ok σ.
Proof. intros Hv. apply accept; [exact Hv|apply print_sig_upper_spelling]. Qed.

Theorem roundtrip_upper_noprefix σ :
  valid_sig σ -> parse_sig (map to_upper (skipn 2 (print_sig σ))) = Ok σ.
Proof.
  intros Hv. apply accept; [exact Hv|].
  exists (map to_upper (skipn 2 (print_sig σ))). split; [right; reflexivity|].
  rewrite print_sig_body. apply upper_spelling, v_legacy_byte.
Qed.

Lemma hex_encode_lower_chars bs : bytes_ok bs -> forallb lower_hex_char (hex_encode bs) = true.
Proof.
  induction 1 as [|x r Hx _ IH]; [reflexivity|].
  cbn [hex_encode forallb]. rewrite !hex_digit_lower_char by lia. exact IH.
Qed.

Theorem format σ :
  sig_r σ < 2 ^ 256 -> sig_s σ < 2 ^ 256 ->
  exists rd sd vd,
    print_sig σ = s2l "0x" ++ rd ++ sd ++ vd
    /\ length rd = 64%nat /\ length sd = 64%nat /\ length vd = 2%nat
    /\ forallb lower_hex_char (rd ++ sd ++ vd) = true
    /\ hex_decode rd = Some (be_fixed 32 (sig_r σ)) /\ be_val (be_fixed 32 (sig_r σ)) = sig_r σ
    /\ hex_decode sd = Some (be_fixed 32 (sig_s σ)) /\ be_val (be_fixed 32 (sig_s σ)) = sig_s σ
    /\ hex_decode vd = Some [27 + (if sig_parity σ then 1 else 0)].
Proof.
  intros Hr Hs.
  assert (Hv : bytes_ok [v_legacy σ]) by (constructor; [apply v_legacy_byte|constructor]).
  exists (hex_encode (be_fixed 32 (sig_r σ))), (hex_encode (be_fixed 32 (sig_s σ))),
         (hex_encode [v_legacy σ]).
  split; [reflexivity|].
  split; [rewrite hex_encode_length, be_fixed_length; reflexivity|].
  split; [rewrite hex_encode_length, be_fixed_length; reflexivity|].
  split; [reflexivity|].
  split.
  { rewrite <- !hex_encode_app. apply hex_encode_lower_chars.
    apply bytes_ok_app; split; [apply be_fixed_ok|].
    apply bytes_ok_app; split; [apply be_fixed_ok|exact Hv]. }
  split; [apply hex_decode_encode, be_fixed_ok|].
  split; [apply be_val_fixed; rewrite pow256_32; exact Hr|].
  split; [apply hex_decode_encode, be_fixed_ok|].
  split; [apply be_val_fixed; rewrite pow256_32; exact Hs|].
  rewrite hex_decode_encode by exact Hv. do 2 f_equal.
  unfold v_legacy, y_parity. destruct (sig_parity σ); reflexivity.
Qed.

(* ------------------------------------------------------------------ *)
(** * Soundness: only spellings of valid signatures are accepted *)

Lemma parse_sig_inv t σ :
  parse_sig t = Ok σ ->
  exists bs, hex_decode (sig_body t) = Some bs /\ length bs = 65%nat /\ parse_sig_bytes bs = Ok σ.
Proof.
  unfold parse_sig, hex_decode_fixed. intros H.
  destruct (hex_decode (sig_body t)) as [bs|] eqn:Hd; [|discriminate].
  destruct (Nat.eqb_spec (length bs) 65) as [Hl|Hl]; [|discriminate].
  exists bs. repeat split; assumption.
Qed.

Lemma bytes_canonical bs :
  bytes_ok bs -> length bs = 65%nat ->
  bs = sig_bytes (be_val (firstn 32 bs)) (be_val (firstn 32 (skipn 32 bs))) (nth 64 bs 0)
  /\ be_val (firstn 32 bs) < 2 ^ 256 /\ be_val (firstn 32 (skipn 32 bs)) < 2 ^ 256
  /\ nth 64 bs 0 < 256.
Proof.
  intros Hok Hl. pose proof (split65 bs Hl) as Hsp.
  set (a := firstn 32 bs) in *. set (b := firstn 32 (skipn 32 bs)) in *.
  set (v := nth 64 bs 0) in *.
  rewrite Hsp in Hok. apply bytes_ok_app in Hok as [Ha Hok].
  apply bytes_ok_app in Hok as [Hb Hv].
  assert (La : length a = 32%nat) by (subst a; rewrite firstn_length; lia).
  assert (Lb : length b = 32%nat) by (subst b; rewrite firstn_length, skipn_length; lia).
  pose proof (be_fixed_val a Ha) as Ea. rewrite La in Ea.
  pose proof (be_fixed_val b Hb) as Eb. rewrite Lb in Eb.
  pose proof (be_val_bound a Ha) as Ba. rewrite La, pow256_32 in Ba.
  pose proof (be_val_bound b Hb) as Bb. rewrite Lb, pow256_32 in Bb.
  split; [|split; [exact Ba|split; [exact Bb|inversion Hv; assumption]]].
  unfold sig_bytes. rewrite Ea, Eb. exact Hsp.
Qed.

Theorem sound_spelling t σ :
  parse_sig t = Ok σ ->
  valid_sig σ /\ sig_spelling (sig_r σ) (sig_s σ) (v_legacy σ) t.
Proof.
  intros H. destruct (parse_sig_inv t σ H) as (bs & Hd & Hl & Hp).
  destruct (hex_decode_sound _ _ Hd) as (Hok & Hmap & _).
  destruct (bytes_canonical bs Hok Hl) as (Hbs & Br & Bs & Bv).
  rewrite Hbs in Hp. rewrite parse_sig_bytes_triple in Hp by assumption.
  apply sig_of_triple_ok in Hp as (Hvalid & Er & Es & Ev).
  split; [exact Hvalid|].
  exists (sig_body t). split.
  - apply sig_body_ascii_inv. apply all_hex_ascii. eapply hex_decode_all_hex; exact Hd.
  - rewrite Er, Es, Ev, <- Hbs. exact Hmap.
Qed.

Theorem sound t σ :
  parse_sig t = Ok σ ->
  valid_sig σ /\
  exists body, (t = s2l "0x" ++ body \/ t = body) /\ map to_lower body = skipn 2 (print_sig σ).
Proof.
  intros H. destruct (sound_spelling t σ H) as (Hv & body & Ht & Hm).
  split; [exact Hv|]. exists body. split; [exact Ht|]. rewrite print_sig_body. exact Hm.
Qed.

(* ------------------------------------------------------------------ *)
(** * Totality and rejections *)

Lemma parse_sig_bytes_cases bs : (exists σ, parse_sig_bytes bs = Ok σ) \/ parse_sig_bytes bs = Err.
Proof.
  unfold parse_sig_bytes.
  destruct (nth 64 bs 0 =? 27); cbn [bind].
  - destruct (scalar_okb _ && scalar_okb _); [left; eauto|right; reflexivity].
  - destruct (nth 64 bs 0 =? 28); cbn [bind]; [|right; reflexivity].
    destruct (scalar_okb _ && scalar_okb _); [left; eauto|right; reflexivity].
Qed.

Lemma parse_sig_cases t : (exists σ, parse_sig t = Ok σ) \/ parse_sig t = Err.
Proof.
  unfold parse_sig. destruct (hex_decode_fixed 65 (sig_body t)) as [bs|]; cbn [of_option bind].
  - apply parse_sig_bytes_cases.
  - right; reflexivity.
Qed.

Theorem total t : graceful (parse_sig t).
Proof.
  destruct (parse_sig_cases t) as [[σ ->]| ->]; [apply graceful_ok|apply graceful_err].
Qed.

(** Everything that is not a spelling of a valid signature is an ordinary error. *)
Theorem reject t :
  (~ exists σ, valid_sig σ /\ sig_spelling (sig_r σ) (sig_s σ) (v_legacy σ) t) -> parse_sig t = Err.
Proof.
  intros H. destruct (parse_sig_cases t) as [[σ Hσ]|]; [|assumption].
  exfalso. apply H. exists σ. apply sound_spelling; exact Hσ.
Qed.

Theorem reject_length t : length (sig_body t) <> 130%nat -> parse_sig t = Err.
Proof.
  intros H. destruct (parse_sig_cases t) as [[σ Hσ]|]; [|assumption].
  exfalso. apply H. destruct (parse_sig_inv t σ Hσ) as (bs & Hd & Hl & _).
  apply hex_decode_sound in Hd as (_ & _ & Hlen). rewrite Hlen, Hl. reflexivity.
Qed.

Theorem reject_nonhex t : forallb is_hex (sig_body t) = false -> parse_sig t = Err.
Proof.
  intros H. unfold parse_sig, hex_decode_fixed. rewrite hex_decode_bad_char by exact H. reflexivity.
Qed.

(** A non-ASCII character anywhere makes a non-hex byte. *)
Lemma sig_body_suffix t : exists p, utf8 t = p ++ sig_body t.
Proof.
  unfold sig_body. destruct (strip_prefix (s2l "0x") (utf8 t)) as [r|] eqn:E.
  - exists (s2l "0x"). apply strip_prefix_some; exact E.
  - exists []. reflexivity.
Qed.

Theorem reject_non_ascii t : ~ all_ascii t -> parse_sig t = Err.
Proof.
  intros H. destruct (parse_sig_cases t) as [[σ Hσ]|]; [|assumption].
  exfalso. apply H. destruct (sound_spelling t σ Hσ) as (_ & body & Ht & Hm).
  assert (Hx : forallb is_hex body = true).
  { eapply spelling_all_hex; [|exact Hm]. apply sig_bytes_ok, v_legacy_byte. }
  apply all_hex_ascii in Hx.
  destruct Ht as [-> | ->]; [|exact Hx].
  rewrite s2l_0x. cbn [app]. constructor; [lia|]. constructor; [lia|exact Hx].
Qed.

(** Scalar / v rejections on any spelling of the triple. *)
Theorem reject_triple r s v t :
  r < 2 ^ 256 -> s < 2 ^ 256 -> v < 256 -> sig_spelling r s v t ->
  r = 0 \/ secp_n <= r \/ s = 0 \/ secp_n <= s \/ (v <> 27 /\ v <> 28) ->
  parse_sig t = Err.
Proof.
  intros Hr Hs Hv Hsp Hbad. rewrite (parse_spelling r s v t Hr Hs Hv Hsp).
  apply sig_of_triple_err; exact Hbad.
Qed.

Lemma canonical_spelling r s v :
  v < 256 -> sig_spelling r s v (s2l "0x" ++ hex_encode (sig_bytes r s v)).
Proof.
  intros Hv. exists (hex_encode (sig_bytes r s v)). split; [left; reflexivity|].
  apply sig_bytes_enc_lower; exact Hv.
Qed.

Theorem reject_canonical r s v :
  r = 0 \/ secp_n <= r \/ s = 0 \/ secp_n <= s \/ (v <> 27 /\ v <> 28) ->
  r < 2 ^ 256 -> s < 2 ^ 256 -> v < 256 ->
  parse_sig (s2l "0x" ++ hex_encode (be_fixed 32 r ++ be_fixed 32 s ++ [v])) = Err.
Proof.
  intros Hbad Hr Hs Hv.
  apply (reject_triple r s v); try assumption. apply canonical_spelling; exact Hv.
Qed.

Theorem reject_v r s v t :
  r < 2 ^ 256 -> s < 2 ^ 256 -> v < 256 -> sig_spelling r s v t ->
  v <> 27 -> v <> 28 -> parse_sig t = Err.
Proof. intros Hr Hs Hv Hsp H1 H2. apply (reject_triple r s v); auto 10. Qed.

Theorem reject_r_zero s v t :
  s < 2 ^ 256 -> v < 256 -> sig_spelling 0 s v t -> parse_sig t = Err.
Proof. intros Hs Hv Hsp. apply (reject_triple 0 s v); auto 10. lia. Qed.

Theorem reject_s_zero r v t :
  r < 2 ^ 256 -> v < 256 -> sig_spelling r 0 v t -> parse_sig t = Err.
Proof. intros Hr Hv Hsp. apply (reject_triple r 0 v); auto 10. lia. Qed.

Theorem reject_r_big r s v t :
  r < 2 ^ 256 -> s < 2 ^ 256 -> v < 256 -> sig_spelling r s v t ->
  secp_n <= r -> parse_sig t = Err.
Proof. intros Hr Hs Hv Hsp H. apply (reject_triple r s v); auto 10. Qed.

Theorem reject_s_big r s v t :
  r < 2 ^ 256 -> s < 2 ^ 256 -> v < 256 -> sig_spelling r s v t ->
  secp_n <= s -> parse_sig t = Err.
Proof. intros Hr Hs Hv Hsp H. apply (reject_triple r s v); auto 10. Qed.

(** Only the lower-case prefix is stripped: a printed signature with [0X] is refused. *)
Theorem reject_0X σ : parse_sig (s2l "0X" ++ skipn 2 (print_sig σ)) = Err.
Proof.
  apply reject_length. rewrite print_sig_body.
  set (h := hex_encode _).
  assert (Hh : length h = 130%nat) by (subst h; rewrite hex_encode_length, sig_bytes_length; reflexivity).
  assert (Hx : forallb is_hex h = true) by (apply hex_encode_is_hex, sig_bytes_ok, v_legacy_byte).
  unfold sig_body. rewrite utf8_ascii.
  - change (s2l "0X" ++ h) with (48 :: 88 :: h). change (s2l "0x") with [48; 120].
    cbn [strip_prefix]. change (48 =? 48) with true. change (120 =? 88) with false.
    cbn [length]. rewrite Hh. discriminate.
  - change (s2l "0X" ++ h) with (48 :: 88 :: h). constructor; [lia|]. constructor; [lia|].
    apply all_hex_ascii; exact Hx.
Qed.
