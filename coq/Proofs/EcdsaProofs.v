(** Proofs for C05: the ECDSA algebra over an abstract group.

    Technique (DESIGN.md Appendix A.4): congruence modulo n as a setoid ([eqm] with
    [Proper] instances for +, *, -), [mulG_eqm : a == b -> a·G = b·G], and the key
    congruence [k * s == z + r * d] satisfied by the raw (un-normalised) s. *)
From Coq Require Import ZArith Bool Lia Morphisms Setoid.
From HDW Require Import Lib.Outcome Lib.Bytes Model.Ecdsa Spec.EcdsaSpec.
Local Open Scope Z_scope.

Section Algebra.
  Variables (E : Type) (G : E) (mul : Z -> E -> E) (add : E -> E -> E) (neg : E -> E)
            (xcoord : E -> Z) (yodd : E -> bool)
            (lift : Z -> bool -> option E)
            (n : Z) (inv : Z -> Z)
            (nonce : Z -> Z -> Z).

  Hypothesis n_gt1 : 1 < n.
  Hypothesis inv_ok : forall a, a mod n <> 0 -> (a * inv a) mod n = 1.
  Hypothesis mul_add : forall a b P, add (mul a P) (mul b P) = mul (a + b) P.
  Hypothesis mul_mul : forall a b P, mul a (mul b P) = mul (a * b) P.
  Hypothesis mul_mod : forall a, mul (a mod n) G = mul a G.
  Hypothesis neg_mul : forall P, neg P = mul (-1) P.
  Hypothesis x_neg : forall k, xcoord (neg (mul k G)) = xcoord (mul k G).
  Hypothesis lift_ok : forall k, k mod n <> 0 ->
    lift (xcoord (mul k G)) (yodd (mul k G)) = Some (mul k G).
  Hypothesis lift_neg : forall k, k mod n <> 0 ->
    lift (xcoord (mul k G)) (negb (yodd (mul k G))) = Some (neg (mul k G)).
  Hypothesis nonce_range : forall d h, 0 < nonce d h < n.

  Local Notation sign := (Ecdsa.sign E G mul xcoord yodd n inv nonce).
  Local Notation is_high := (Ecdsa.is_high n).
  Local Notation verify := (EcdsaSpec.verify E G mul add xcoord n inv).
  Local Notation recover := (EcdsaSpec.recover E G mul add neg lift n inv).
  Local Notation rfc6979_ecdsa := (EcdsaSpec.rfc6979_ecdsa E G mul xcoord yodd n inv nonce).
  Local Notation low_s_normalise := (EcdsaSpec.low_s_normalise n).

  (** [lia] reverts the whole context, which would make every lemma depend on every section
      variable and hypothesis: clear what the goal does not mention first. *)
  Ltac zlia :=
    try clear lift_ok; try clear lift_neg; try clear x_neg; try clear neg_mul;
    try clear mul_mod; try clear mul_mul; try clear mul_add; try clear inv_ok;
    try clear nonce_range;
    try clear lift; try clear add; try clear neg; try clear nonce; try clear inv;
    try clear yodd; try clear xcoord; try clear mul; try clear G; try clear E; lia.

  (* ---------------------------------------------------------------------------------- *)
  (** * Congruence modulo n *)

  Definition eqm (a b : Z) : Prop := a mod n = b mod n.
  Local Infix "==" := eqm (at level 70, no associativity).

  Global Instance eqm_equiv : Equivalence eqm.
  Proof using Type.
    split.
    - intros a. reflexivity.
    - intros a b H. unfold eqm in *. symmetry. exact H.
    - intros a b c H1 H2. unfold eqm in *. congruence.
  Qed.

  Global Instance add_eqm : Proper (eqm ==> eqm ==> eqm) Z.add.
  Proof using n_gt1.
    intros a a' Ha b b' Hb. unfold eqm in *.
    rewrite (Z.add_mod a b), (Z.add_mod a' b') by zlia. rewrite Ha, Hb. reflexivity.
  Qed.

  Global Instance mul_eqm : Proper (eqm ==> eqm ==> eqm) Z.mul.
  Proof using n_gt1.
    intros a a' Ha b b' Hb. unfold eqm in *.
    rewrite (Z.mul_mod a b), (Z.mul_mod a' b') by zlia. rewrite Ha, Hb. reflexivity.
  Qed.

  Global Instance opp_eqm : Proper (eqm ==> eqm) Z.opp.
  Proof using n_gt1.
    intros a a' Ha.
    replace (- a) with (-1 * a) by ring. replace (- a') with (-1 * a') by ring.
    rewrite Ha. reflexivity.
  Qed.

  Global Instance sub_eqm : Proper (eqm ==> eqm ==> eqm) Z.sub.
  Proof using n_gt1.
    intros a a' Ha b b' Hb. unfold Z.sub. rewrite Ha, Hb. reflexivity.
  Qed.

  Lemma mod_eqm a : a mod n == a.
  Proof using n_gt1. unfold eqm. apply Z.mod_mod. zlia. Qed.

  Lemma inv_eqm a : a mod n <> 0 -> a * inv a == 1.
  Proof using n_gt1 inv_ok.
    intros Ha. unfold eqm. rewrite (inv_ok a Ha). symmetry. apply Z.mod_small. zlia.
  Qed.

  Lemma n_sub_eqm s : n - s == - s.
  Proof using n_gt1.
    unfold eqm. replace (n - s) with (- s + 1 * n) by ring. apply Z.mod_add. zlia.
  Qed.

  Lemma mulG_eqm a b : a == b -> mul a G = mul b G.
  Proof using mul_mod.
    intros H. rewrite <- (mul_mod a), <- (mul_mod b). unfold eqm in H. rewrite H. reflexivity.
  Qed.

  Lemma small_mod_nz a : 0 < a < n -> a mod n <> 0.
  Proof using Type. intros H. rewrite Z.mod_small by zlia. zlia. Qed.

  Lemma neg_mulG k : neg (mul k G) = mul (- k) G.
  Proof using neg_mul mul_mul.
    rewrite neg_mul, mul_mul. replace (- k) with (-1 * k) by ring. reflexivity.
  Qed.

  (* ---------------------------------------------------------------------------------- *)
  (** * The algebra of one signature: k, z, r, d arbitrary, s with k s == z + r d *)

  (** the raw s satisfies the key congruence *)
  Lemma core k z r d :
    k mod n <> 0 -> k * ((inv k * (z + r * d)) mod n) == z + r * d.
  Proof using n_gt1 inv_ok.
    intros Hk. rewrite (mod_eqm (inv k * (z + r * d))).
    replace (k * (inv k * (z + r * d))) with ((k * inv k) * (z + r * d)) by ring.
    rewrite (inv_eqm k Hk). rewrite Z.mul_1_l. reflexivity.
  Qed.

  (** u1 G + u2 Q = k G *)
  Lemma verify_point k z r s d :
    s mod n <> 0 -> k * s == z + r * d ->
    add (mul (z * inv s) G) (mul (r * inv s) (mul d G)) = mul k G.
  Proof using n_gt1 inv_ok mul_add mul_mul mul_mod.
    intros Hs Hc. rewrite mul_mul, mul_add. apply mulG_eqm.
    replace (z * inv s + r * inv s * d) with (inv s * (z + r * d)) by ring.
    rewrite <- Hc.
    replace (inv s * (k * s)) with (k * (s * inv s)) by ring.
    rewrite (inv_eqm s Hs). rewrite Z.mul_1_r. reflexivity.
  Qed.

  (** the same with the normalised s' == - s: the point is - k G *)
  Lemma verify_point_flipped k z r s s' d :
    s' mod n <> 0 -> s' == - s -> k * s == z + r * d ->
    add (mul (z * inv s') G) (mul (r * inv s') (mul d G)) = mul (- k) G.
  Proof using n_gt1 inv_ok mul_add mul_mul mul_mod.
    intros Hs Hf Hc. rewrite mul_mul, mul_add. apply mulG_eqm.
    replace (z * inv s' + r * inv s' * d) with (inv s' * (z + r * d)) by ring.
    rewrite <- Hc.
    replace (inv s' * (k * s)) with (- (k * (inv s' * - s))) by ring.
    rewrite <- Hf.
    replace (k * (inv s' * s')) with (k * (s' * inv s')) by ring.
    rewrite (inv_eqm s' Hs). rewrite Z.mul_1_r. reflexivity.
  Qed.

  (** r^-1 (s R - z G) = d G for R = k G *)
  Lemma recover_point k z r s d :
    r mod n <> 0 -> k * s == z + r * d ->
    mul (inv r) (add (mul s (mul k G)) (neg (mul z G))) = mul d G.
  Proof using n_gt1 inv_ok mul_add mul_mul mul_mod neg_mul.
    intros Hr Hc. rewrite neg_mulG, mul_mul, mul_add, mul_mul. apply mulG_eqm.
    replace (s * k) with (k * s) by ring. rewrite Hc.
    replace (inv r * (z + r * d + - z)) with ((r * inv r) * d) by ring.
    rewrite (inv_eqm r Hr). rewrite Z.mul_1_l. reflexivity.
  Qed.

  (** r^-1 (s' (-R) - z G) = d G for s' == - s *)
  Lemma recover_point_flipped k z r s s' d :
    r mod n <> 0 -> s' == - s -> k * s == z + r * d ->
    mul (inv r) (add (mul s' (neg (mul k G))) (neg (mul z G))) = mul d G.
  Proof using n_gt1 inv_ok mul_add mul_mul mul_mod neg_mul.
    intros Hr Hf Hc. rewrite !neg_mulG, mul_mul, mul_add, mul_mul. apply mulG_eqm.
    rewrite Hf.
    replace (- s * - k) with (k * s) by ring. rewrite Hc.
    replace (inv r * (z + r * d + - z)) with ((r * inv r) * d) by ring.
    rewrite (inv_eqm r Hr). rewrite Z.mul_1_l. reflexivity.
  Qed.

  (* ---------------------------------------------------------------------------------- *)
  (** * Inversion of [sign] *)

  (** the raw (un-normalised) components computed by [sign] *)
  Definition raw_R (d h : Z) : E := mul (nonce d h) G.
  Definition raw_r (d h : Z) : Z := xcoord (raw_R d h) mod n.
  Definition raw_s (d h : Z) : Z := (inv (nonce d h) * (h mod n + raw_r d h * d)) mod n.

  Lemma sign_inv d h r s v :
    sign d h = Ok (r, s, v) ->
    r = raw_r d h /\ raw_r d h <> 0 /\ raw_s d h <> 0 /\
    s = (if is_high (raw_s d h) then n - raw_s d h else raw_s d h) /\
    v = xorb (yodd (raw_R d h)) (is_high (raw_s d h)).
  Proof using Type.
    unfold Ecdsa.sign. fold (raw_R d h). fold (raw_r d h). fold (raw_s d h).
    destruct (nonce d h =? 0) eqn:Hk0; [discriminate|].
    destruct ((raw_r d h =? 0) || (raw_s d h =? 0)) eqn:Hz; [discriminate|].
    apply orb_false_elim in Hz. destruct Hz as [Hr0 Hs0].
    apply Z.eqb_neq in Hr0. apply Z.eqb_neq in Hs0.
    destruct (is_high (raw_s d h)) eqn:Hh; intros H; inversion H; subst; clear H.
    - repeat split; try assumption; try (rewrite ?xorb_true_r; reflexivity).
    - repeat split; try assumption; try (rewrite ?xorb_false_r; reflexivity).
  Qed.

  Lemma raw_r_range d h : 0 <= raw_r d h < n.
  Proof using n_gt1. unfold raw_r. apply Z.mod_pos_bound. zlia. Qed.

  Lemma raw_s_range d h : 0 <= raw_s d h < n.
  Proof using n_gt1. unfold raw_s. apply Z.mod_pos_bound. zlia. Qed.

  Lemma nonce_nz d h : nonce d h mod n <> 0.
  Proof using nonce_range. apply small_mod_nz. apply nonce_range. Qed.

  Lemma raw_core d h : nonce d h * raw_s d h == h mod n + raw_r d h * d.
  Proof using n_gt1 inv_ok nonce_range. unfold raw_s. apply core. apply nonce_nz. Qed.

  Lemma is_high_true s : is_high s = true -> n / 2 < s.
  Proof using Type. unfold Ecdsa.is_high. apply Z.ltb_lt. Qed.

  Lemma is_high_false s : is_high s = false -> s <= n / 2.
  Proof using Type. unfold Ecdsa.is_high. intros H. apply Z.ltb_ge in H. exact H. Qed.

  (* ---------------------------------------------------------------------------------- *)
  (** * C05: ranges, low s *)

  Lemma sign_ranges d h r s v :
    sign d h = Ok (r, s, v) -> 0 < r < n /\ 0 < s <= n / 2.
  Proof using n_gt1.
    intros H. apply sign_inv in H. destruct H as (Hr & Hr0 & Hs0 & Hs & _).
    pose proof (raw_r_range d h) as Rr. pose proof (raw_s_range d h) as Rs.
    split; [zlia|].
    destruct (is_high (raw_s d h)) eqn:Hh.
    - apply is_high_true in Hh. subst s. zlia.
    - apply is_high_false in Hh. subst s. zlia.
  Qed.

  Lemma C05_low_s d h r s v :
    sign d h = Ok (r, s, v) -> 2 * s <= n /\ is_high s = false.
  Proof using n_gt1.
    intros H. apply sign_ranges in H. destruct H as [_ Hs].
    split; [zlia|]. unfold Ecdsa.is_high. apply Z.ltb_ge. zlia.
  Qed.

  (** the parity bit is that of y(R), negated exactly when the raw s was high; and the
      returned s is the raw s, negated modulo n in the same case (k256: [is_y_odd ^ is_high],
      [normalize_s]) *)
  Lemma C05_parity_flip d h r s v :
    sign d h = Ok (r, s, v) ->
    let R := mul (nonce d h) G in
    let s0 := (inv (nonce d h) * (h mod n + (xcoord R mod n) * d)) mod n in
    (n / 2 < s0 -> s = n - s0 /\ v = negb (yodd R)) /\
    (s0 <= n / 2 -> s = s0 /\ v = yodd R).
  Proof using Type.
    intros H. apply sign_inv in H. destruct H as (_ & _ & _ & Hs & Hv).
    cbv zeta. fold (raw_R d h). fold (raw_r d h). fold (raw_s d h).
    destruct (is_high (raw_s d h)) eqn:Hh.
    - apply is_high_true in Hh. rewrite xorb_true_r in Hv. split; intros; [tauto|zlia].
    - apply is_high_false in Hh. rewrite xorb_false_r in Hv. split; intros; [zlia|tauto].
  Qed.

  (* ---------------------------------------------------------------------------------- *)
  (** * C05: validity *)

  Lemma C05_valid d h r s v :
    sign d h = Ok (r, s, v) -> 0 < d < n ->
    0 < r < n /\ 0 < s <= n / 2 /\ verify (mul d G) h r s = true.
  Proof using n_gt1 inv_ok mul_add mul_mul mul_mod neg_mul x_neg nonce_range.
    intros H _. pose proof (sign_ranges _ _ _ _ _ H) as [Rr Rs].
    split; [exact Rr|]. split; [exact Rs|].
    assert (Hsn : s < n) by zlia.
    apply sign_inv in H. destruct H as (Hr & Hr0 & Hs0 & Hs & _).
    pose proof (raw_s_range d h) as Rs0.
    pose proof (raw_core d h) as Hc.
    unfold EcdsaSpec.verify.
    repeat (apply andb_true_intro; split); try (apply Z.ltb_lt; zlia).
    apply Z.eqb_eq.
    destruct (is_high (raw_s d h)) eqn:Hh.
    - (* normalised: the point is -R, same abscissa *)
      assert (Hsnz : s mod n <> 0) by (apply small_mod_nz; zlia).
      assert (Hf : s == - raw_s d h) by (rewrite Hs; apply n_sub_eqm).
      rewrite Hr in *.
      rewrite (verify_point_flipped (nonce d h) (h mod n) (raw_r d h) (raw_s d h) s d Hsnz Hf Hc).
      rewrite <- neg_mulG, x_neg. reflexivity.
    - assert (Hsnz : s mod n <> 0) by (apply small_mod_nz; zlia).
      rewrite Hr in *. rewrite Hs in *.
      rewrite (verify_point (nonce d h) (h mod n) (raw_r d h) (raw_s d h) d Hsnz Hc).
      reflexivity.
  Qed.

  (* ---------------------------------------------------------------------------------- *)
  (** * C05: recoverability *)

  Lemma C05_recover d h r s v :
    sign d h = Ok (r, s, v) -> 0 < d < n ->
    0 <= xcoord (mul (nonce d h) G) < n ->
    recover h r s v = Some (mul d G).
  Proof using n_gt1 inv_ok mul_add mul_mul mul_mod neg_mul lift_ok lift_neg nonce_range.
    intros H _ Hx. apply sign_inv in H. destruct H as (Hr & Hr0 & Hs0 & Hs & Hv).
    pose proof (raw_core d h) as Hc.
    pose proof (nonce_nz d h) as Hk.
    assert (Hrx : raw_r d h = xcoord (mul (nonce d h) G))
      by (unfold raw_r, raw_R; apply Z.mod_small; exact Hx).
    assert (Hrnz : raw_r d h mod n <> 0).
    { pose proof (raw_r_range d h). apply small_mod_nz. zlia. }
    unfold EcdsaSpec.recover. rewrite Hr.
    destruct (is_high (raw_s d h)) eqn:Hh.
    - rewrite xorb_true_r in Hv. rewrite Hv. unfold raw_R. rewrite Hrx at 1.
      rewrite (lift_neg _ Hk). f_equal.
      assert (Hf : s == - raw_s d h) by (rewrite Hs; apply n_sub_eqm).
      exact (recover_point_flipped (nonce d h) (h mod n) (raw_r d h) (raw_s d h) s d Hrnz Hf Hc).
    - rewrite xorb_false_r in Hv. rewrite Hv. unfold raw_R. rewrite Hrx at 1.
      rewrite (lift_ok _ Hk). f_equal. rewrite Hs.
      exact (recover_point (nonce d h) (h mod n) (raw_r d h) (raw_s d h) d Hrnz Hc).
  Qed.

  (* ---------------------------------------------------------------------------------- *)
  (** * C05: determinism, RFC 6979 *)

  Lemma C05_deterministic d d' h h' :
    d = d' -> h = h' -> sign d h = sign d' h'.
  Proof using Type. intros -> ->. reflexivity. Qed.

  Lemma C05_rfc6979 d h :
    0 <= h < n -> sign d h = low_s_normalise (rfc6979_ecdsa d h).
  Proof using Type.
    intros Hh. unfold Ecdsa.sign, EcdsaSpec.low_s_normalise, EcdsaSpec.rfc6979_ecdsa,
      EcdsaSpec.bits2octets, Ecdsa.is_high.
    rewrite (Z.mod_small h n Hh).
    destruct (nonce d h =? 0); [reflexivity|].
    set (r := xcoord (mul (nonce d h) G) mod n).
    replace ((h + d * r) * inv (nonce d h)) with (inv (nonce d h) * (h + r * d)) by ring.
    set (s := (inv (nonce d h) * (h + r * d)) mod n).
    destruct ((r =? 0) || (s =? 0)); [reflexivity|].
    cbn [omap bind EcdsaSpec.low_s].
    destruct (n / 2 <? s); reflexivity.
  Qed.
End Algebra.


(* ------------------------------------------------------------------------------------ *)
(** * The hypotheses are satisfiable: a toy instance

    The cyclic group Z/7 written additively, generator 1, with "coordinates" that have the
    shape of a curve's: x(P) = min(P, 7 - P) (shared by P and -P), the "parity" tells the
    two apart, and [lift] decompresses.  Used only by the [Example]s of Props/C05.v to show
    that the Section hypotheses of the C05 theorems are consistent. *)
Module Toy.
  Definition n : Z := 7.
  Definition E : Type := Z.
  Definition G : E := 1.
  Definition mul (a : Z) (P : E) : E := (a * P) mod 7.
  Definition add (P Q : E) : E := (P + Q) mod 7.
  Definition neg (P : E) : E := (- P) mod 7.
  Definition xcoord (P : E) : Z := let m := P mod 7 in if m <=? 3 then m else 7 - m.
  Definition yodd (P : E) : bool := 3 <? P mod 7.
  Definition lift (x : Z) (v : bool) : option E :=
    if (1 <=? x) && (x <=? 3) then Some (if v then 7 - x else x) else None.
  Definition inv (a : Z) : Z :=
    match a mod 7 with 1 => 1 | 2 => 4 | 3 => 5 | 4 => 2 | 5 => 3 | 6 => 6 | _ => 0 end.
  Definition nonce (d h : Z) : Z := 1 + (d + h) mod 6.

  Lemma mod7_cases k :
    k mod 7 = 0 \/ k mod 7 = 1 \/ k mod 7 = 2 \/ k mod 7 = 3 \/ k mod 7 = 4 \/ k mod 7 = 5 \/ k mod 7 = 6.
  Proof. pose proof (Z.mod_pos_bound k 7). lia. Qed.

  Lemma mulG k : mul k G = k mod 7.
  Proof. unfold mul, G. rewrite Z.mul_1_r. reflexivity. Qed.

  Lemma n_gt1 : 1 < n.
  Proof. reflexivity. Qed.

  Lemma inv_ok a : a mod n <> 0 -> (a * inv a) mod n = 1.
  Proof.
    unfold n, inv. intros Ha. rewrite <- Z.mul_mod_idemp_l by lia.
    destruct (mod7_cases a) as [H|[H|[H|[H|[H|[H|H]]]]]]; rewrite H in *;
      [congruence|reflexivity..].
  Qed.

  Lemma mul_add a b P : add (mul a P) (mul b P) = mul (a + b) P.
  Proof.
    unfold add, mul. rewrite <- Z.add_mod by lia. f_equal. ring.
  Qed.

  Lemma mul_mul a b P : mul a (mul b P) = mul (a * b) P.
  Proof.
    unfold mul. rewrite Z.mul_mod_idemp_r by lia. f_equal. ring.
  Qed.

  Lemma mul_mod a : mul (a mod n) G = mul a G.
  Proof.
    unfold mul, n. rewrite Z.mul_mod_idemp_l by lia. reflexivity.
  Qed.

  Lemma neg_mul P : neg P = mul (-1) P.
  Proof. unfold neg, mul. replace (- P) with (-1 * P) by ring. reflexivity. Qed.

  Lemma x_neg k : xcoord (neg (mul k G)) = xcoord (mul k G).
  Proof.
    rewrite mulG.
    destruct (mod7_cases k) as [H|[H|[H|[H|[H|[H|H]]]]]]; rewrite H; reflexivity.
  Qed.

  Lemma lift_ok k : k mod n <> 0 ->
    lift (xcoord (mul k G)) (yodd (mul k G)) = Some (mul k G).
  Proof.
    unfold n. rewrite mulG. intros Hk.
    destruct (mod7_cases k) as [H|[H|[H|[H|[H|[H|H]]]]]]; rewrite H in *;
      [congruence|reflexivity..].
  Qed.

  Lemma lift_neg k : k mod n <> 0 ->
    lift (xcoord (mul k G)) (negb (yodd (mul k G))) = Some (neg (mul k G)).
  Proof.
    unfold n. rewrite mulG. intros Hk.
    destruct (mod7_cases k) as [H|[H|[H|[H|[H|[H|H]]]]]]; rewrite H in *;
      [congruence|reflexivity..].
  Qed.

  Lemma nonce_range d h : 0 < nonce d h < n.
  Proof. unfold nonce, n. pose proof (Z.mod_pos_bound (d + h) 6). lia. Qed.

  Lemma x_small P : 0 <= xcoord P < n.
  Proof.
    unfold xcoord, n. cbv zeta. pose proof (Z.mod_pos_bound P 7).
    destruct (P mod 7 <=? 3) eqn:Hc; [apply Z.leb_le in Hc|apply Z.leb_gt in Hc]; lia.
  Qed.

  Definition sign := Ecdsa.sign E G mul xcoord yodd n inv nonce.
  Definition verify := EcdsaSpec.verify E G mul add xcoord n inv.
  Definition recover := EcdsaSpec.recover E G mul add neg lift n inv.

  (** all ten hypotheses at once *)
  Definition hypotheses
      (E : Type) (G : E) (mul : Z -> E -> E) (add : E -> E -> E) (neg : E -> E)
      (xcoord : E -> Z) (yodd : E -> bool) (lift : Z -> bool -> option E)
      (n : Z) (inv : Z -> Z) (nonce : Z -> Z -> Z) : Prop :=
    1 < n /\
    (forall a, a mod n <> 0 -> (a * inv a) mod n = 1) /\
    (forall a b P, add (mul a P) (mul b P) = mul (a + b) P) /\
    (forall a b P, mul a (mul b P) = mul (a * b) P) /\
    (forall a, mul (a mod n) G = mul a G) /\
    (forall P, neg P = mul (-1) P) /\
    (forall k, xcoord (neg (mul k G)) = xcoord (mul k G)) /\
    (forall k, k mod n <> 0 -> lift (xcoord (mul k G)) (yodd (mul k G)) = Some (mul k G)) /\
    (forall k, k mod n <> 0 ->
       lift (xcoord (mul k G)) (negb (yodd (mul k G))) = Some (neg (mul k G))) /\
    (forall d h, 0 < nonce d h < n).

  Lemma hypotheses_hold : hypotheses E G mul add neg xcoord yodd lift n inv nonce.
  Proof.
    unfold hypotheses.
    split; [exact n_gt1|]. split; [exact inv_ok|]. split; [exact mul_add|].
    split; [exact mul_mul|]. split; [exact mul_mod|]. split; [exact neg_mul|].
    split; [exact x_neg|]. split; [exact lift_ok|]. split; [exact lift_neg|].
    exact nonce_range.
  Qed.

  Lemma satisfiable :
    exists (E : Type) (G : E) mul add neg xcoord yodd lift n inv nonce,
      hypotheses E G mul add neg xcoord yodd lift n inv nonce.
  Proof.
    exists E, G, mul, add, neg, xcoord, yodd, lift, n, inv, nonce. exact hypotheses_hold.
  Qed.

  (** the theorems, hypothesis-free on the toy instance *)
  Lemma toy_valid_recover d h r s v :
    sign d h = Ok (r, s, v) -> 0 < d < n ->
    0 < r < n /\ 0 < s <= n / 2 /\ verify (mul d G) h r s = true /\
    recover h r s v = Some (mul d G).
  Proof.
    intros H Hd.
    pose proof (C05_valid E G mul add neg xcoord yodd n inv nonce
                  n_gt1 inv_ok mul_add mul_mul mul_mod neg_mul x_neg nonce_range
                  d h r s v H Hd) as (Hr & Hs & Hv).
    pose proof (C05_recover E G mul add neg xcoord yodd lift n inv nonce
                  n_gt1 inv_ok mul_add mul_mul mul_mod neg_mul lift_ok lift_neg nonce_range
                  d h r s v H Hd (x_small _)) as Hrec.
    repeat split; tauto.
  Qed.

  (** both branches of the normalisation occur, and so does the error branch (s = 0) *)
  Lemma toy_sign_examples :
    sign 1 0 = Ok (2, 1, false) /\     (* raw s = 1: kept *)
    sign 3 4 = Ok (2, 2, true) /\      (* raw s = 5 > 3: s = 7 - 5, parity of y(R) = false negated *)
    sign 3 5 = Err.
  Proof. vm_compute. repeat split; reflexivity. Qed.
End Toy.
