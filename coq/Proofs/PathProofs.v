(** Proofs about the HD path text model ([Model/Path.v]) — property C14. *)
From Coq Require Import String.
From Coq Require Import List NArith Bool Lia.
From HDW Require Import Lib.Outcome Lib.Radix Lib.Bytes Lib.Decimal Model.Path.
Import ListNotations.
Open Scope N_scope.

Arguments N.add : simpl never.
Arguments N.sub : simpl never.
Arguments N.mul : simpl never.
Arguments N.div : simpl never.
Arguments N.modulo : simpl never.
Arguments N.eqb : simpl never.
Arguments N.ltb : simpl never.
Arguments N.leb : simpl never.
Arguments N.pow : simpl never.
Arguments N.lor : simpl never.
Arguments N.land : simpl never.

(* ------------------------------------------------------------------ *)
(** * Generic: outcomes *)

Lemma graceful_not_ok_err {A} (x : outcome A) :
  graceful x -> (forall a, x <> Ok a) -> x = Err.
Proof.
  intros [H1 H2] H. destruct x as [a| | |]; [exfalso; apply (H a); reflexivity|reflexivity|congruence|congruence].
Qed.

Lemma omapM_ok_in {A B} (f : A -> outcome B) l ys t :
  omapM f l = Ok ys -> In t l -> exists y, f t = Ok y.
Proof.
  intros H. apply omapM_ok in H. induction H as [|x y l ys Hxy _ IH]; intros Hin.
  - destruct Hin.
  - destruct Hin as [->|Hin]; [eauto|auto].
Qed.

(* ------------------------------------------------------------------ *)
(** * [split_on] and [join] *)

Lemma split_on_nonempty sep s : split_on sep s <> [].
Proof.
  destruct s as [|c r]; cbn [split_on]; [discriminate|].
  destruct (c =? sep); [discriminate|]. destruct (split_on sep r); discriminate.
Qed.

Lemma split_on_sep sep r : split_on sep (sep :: r) = [] :: split_on sep r.
Proof. cbn [split_on]. rewrite N.eqb_refl. reflexivity. Qed.

Lemma split_on_other sep c r :
  c <> sep -> exists p ps, split_on sep r = p :: ps /\ split_on sep (c :: r) = (c :: p) :: ps.
Proof.
  intros Hc. cbn [split_on]. destruct (N.eqb_spec c sep) as [E|_]; [contradiction|].
  destruct (split_on sep r) as [|p ps] eqn:E; [exfalso; eapply split_on_nonempty; eassumption|].
  exists p, ps. split; reflexivity.
Qed.

Lemma join_cons sep a l : l <> [] -> join sep (a :: l) = a ++ sep :: join sep l.
Proof. destruct l; [congruence|reflexivity]. Qed.

Lemma join_cons_head sep c p ps : join sep ((c :: p) :: ps) = c :: join sep (p :: ps).
Proof. destruct ps; reflexivity. Qed.

Lemma join_split sep s : join sep (split_on sep s) = s.
Proof.
  induction s as [|c r IH]; [reflexivity|].
  destruct (N.eq_dec c sep) as [->|Hc].
  - rewrite split_on_sep, join_cons by apply split_on_nonempty. rewrite IH. reflexivity.
  - destruct (split_on_other sep c r Hc) as (p & ps & E1 & E2).
    rewrite E2, join_cons_head. f_equal. rewrite <- IH at 1. rewrite E1. reflexivity.
Qed.

Lemma split_on_app sep a b :
  split_on sep (a ++ sep :: b) = split_on sep a ++ split_on sep b.
Proof.
  induction a as [|c a IH].
  - rewrite app_nil_l, split_on_sep. reflexivity.
  - rewrite <- app_comm_cons. destruct (N.eq_dec c sep) as [->|Hc].
    + rewrite !split_on_sep, IH. reflexivity.
    + destruct (split_on_other sep c a Hc) as (p & ps & E1 & E2).
      destruct (split_on_other sep c (a ++ sep :: b) Hc) as (p' & ps' & E1' & E2').
      rewrite E2, E2'. rewrite IH, E1 in E1'. cbn [app] in E1'. inversion E1'. reflexivity.
Qed.

Lemma split_on_join sep l :
  l <> [] -> split_on sep (join sep l) = flat_map (split_on sep) l.
Proof.
  induction l as [|a l IH]; [congruence|]. intros _.
  destruct l as [|b l].
  - cbn [join flat_map]. rewrite app_nil_r. reflexivity.
  - rewrite join_cons by discriminate. rewrite split_on_app, IH by discriminate. reflexivity.
Qed.

Lemma split_on_single sep a : ~ In sep a -> split_on sep a = [a].
Proof.
  induction a as [|c a IH]; intros H; [reflexivity|].
  assert (Hc : c <> sep) by (intros ->; apply H; left; reflexivity).
  destruct (split_on_other sep c a Hc) as (p & ps & E1 & E2).
  rewrite E2. rewrite IH in E1 by (intros Hin; apply H; right; exact Hin).
  inversion E1. reflexivity.
Qed.

Lemma split_join sep l :
  l <> [] -> Forall (fun t => ~ In sep t) l -> split_on sep (join sep l) = l.
Proof.
  intros Hne H. rewrite split_on_join by exact Hne. clear Hne.
  induction H as [|t l Ht _ IH]; [reflexivity|].
  cbn [flat_map]. rewrite split_on_single by exact Ht. rewrite IH. reflexivity.
Qed.

Lemma in_split_join sep pre t post :
  ~ In sep t -> In t (split_on sep (join sep (pre ++ t :: post))).
Proof.
  intros Ht. rewrite split_on_join by (destruct pre; discriminate).
  apply in_flat_map. exists t. split.
  - apply in_or_app. right. left. reflexivity.
  - rewrite split_on_single by exact Ht. left. reflexivity.
Qed.

(** a character other than the separator ends up inside one of the pieces *)
Lemma in_split_piece sep x s :
  In x s -> x <> sep -> exists t, In t (split_on sep s) /\ In x t.
Proof.
  intros Hin Hx. induction s as [|c r IH]; [destruct Hin|].
  destruct (N.eq_dec c sep) as [->|Hc].
  - destruct Hin as [E|Hin]; [congruence|]. destruct (IH Hin) as (t & Ht & Hxt).
    exists t. rewrite split_on_sep. split; [right; exact Ht|exact Hxt].
  - destruct (split_on_other sep c r Hc) as (p & ps & E1 & E2). rewrite E2.
    destruct Hin as [->|Hin].
    + exists (x :: p). split; left; reflexivity.
    + destruct (IH Hin) as (t & Ht & Hxt). rewrite E1 in Ht. destruct Ht as [<-|Ht].
      * exists (c :: p). split; [left; reflexivity|right; exact Hxt].
      * exists t. split; [right; exact Ht|exact Hxt].
Qed.

(* ------------------------------------------------------------------ *)
(** * [strip_suffix_char] *)

Lemma strip_suffix_char_snoc c s : strip_suffix_char c (s ++ [c]) = Some s.
Proof.
  unfold strip_suffix_char. rewrite rev_app_distr. cbn [rev app].
  rewrite N.eqb_refl, rev_involutive. reflexivity.
Qed.

Lemma strip_suffix_char_other c s x : x <> c -> strip_suffix_char c (s ++ [x]) = None.
Proof.
  intros Hx. unfold strip_suffix_char. rewrite rev_app_distr. cbn [rev app].
  destruct (N.eqb_spec x c); [contradiction|reflexivity].
Qed.

Lemma strip_suffix_char_some c s r : strip_suffix_char c s = Some r -> s = r ++ [c].
Proof.
  unfold strip_suffix_char. intros H. destruct (rev s) as [|x l] eqn:E; [discriminate|].
  destruct (N.eqb_spec x c) as [->|]; [|discriminate]. inversion H; subst r.
  rewrite <- (rev_involutive s), E. reflexivity.
Qed.

(* ------------------------------------------------------------------ *)
(** * [u32_of_str] on spelled numbers *)

Lemma all_digits_app a b : all_digits (a ++ b) <-> all_digits a /\ all_digits b.
Proof. apply Forall_app. Qed.

Lemma all_digits_not_in x ds : all_digits ds -> ~ (48 <= x <= 57) -> ~ In x ds.
Proof.
  intros H Hx Hin. unfold all_digits in H. rewrite Forall_forall in H. apply Hx, H, Hin.
Qed.

Lemma skip_plus_other c r :
  c <> 43 -> match c :: r with 43 :: r0 => r0 | _ => c :: r end = c :: r.
Proof.
  intros Hc. destruct c as [|p]; [reflexivity|].
  repeat (destruct p as [p|p|]; try reflexivity). congruence.
Qed.

Lemma parse_uint_digits max ds :
  ds <> [] -> all_digits ds ->
  parse_uint max ds = if dec_value ds <=? max then Some (dec_value ds) else None.
Proof.
  intros Hne Hd. destruct ds as [|c r]; [congruence|].
  assert (Hc : c <> 43) by (inversion Hd; lia).
  unfold parse_uint. rewrite (skip_plus_other c r Hc).
  rewrite parse_digits_spec by exact Hd. rewrite N.mul_0_l, N.add_0_l. reflexivity.
Qed.

Lemma parse_uint_plus_digits max ds :
  ds <> [] -> all_digits ds ->
  parse_uint max (43 :: ds) = if dec_value ds <=? max then Some (dec_value ds) else None.
Proof.
  intros Hne Hd. destruct ds as [|c r]; [congruence|].
  unfold parse_uint. change (match 43 :: c :: r with 43 :: r0 => r0 | _ => 43 :: c :: r end) with (c :: r).
  rewrite parse_digits_spec by exact Hd. rewrite N.mul_0_l, N.add_0_l. reflexivity.
Qed.

Lemma u32_of_str_spelled plus ds :
  (plus = [] \/ plus = [43]) -> ds <> [] -> all_digits ds ->
  u32_of_str (plus ++ ds) = if dec_value ds <=? 4294967295 then Some (dec_value ds) else None.
Proof.
  intros [->| ->] Hne Hd; unfold u32_of_str; cbn [app].
  - apply parse_uint_digits; assumption.
  - apply parse_uint_plus_digits; assumption.
Qed.

(* ------------------------------------------------------------------ *)
(** * [parse_component] *)

Lemma last_digit ds : ds <> [] -> all_digits ds -> exists r x, ds = r ++ [x] /\ 48 <= x <= 57.
Proof.
  intros Hne Hd. destruct (exists_last Hne) as (r & x & ->).
  exists r, x. split; [reflexivity|]. apply all_digits_app in Hd as [_ Hx]. inversion Hx; assumption.
Qed.

(** the parser on any text of component shape *)
Lemma parse_component_shaped plus ds (h : bool) :
  (plus = [] \/ plus = [43]) -> ds <> [] -> all_digits ds ->
  parse_component (plus ++ ds ++ (if h then [39] else [])) =
    if dec_value ds <? 2147483648
    then Ok (if h then Hardened (dec_value ds) else Normal (dec_value ds))
    else Err.
Proof.
  intros Hp Hne Hd. unfold parse_component. destruct h.
  - rewrite app_assoc, strip_suffix_char_snoc. rewrite u32_of_str_spelled by assumption.
    destruct (N.leb_spec (dec_value ds) 4294967295) as [Hle|Hgt]; [reflexivity|].
    destruct (N.ltb_spec (dec_value ds) 2147483648); [lia|reflexivity].
  - rewrite app_nil_r. destruct (last_digit ds Hne Hd) as (r & x & E & Hx).
    assert (S : strip_suffix_char 39 (plus ++ ds) = None).
    { rewrite E, app_assoc. apply strip_suffix_char_other. lia. }
    rewrite S.
    rewrite u32_of_str_spelled by assumption.
    destruct (N.leb_spec (dec_value ds) 4294967295) as [Hle|Hgt]; [reflexivity|].
    destruct (N.ltb_spec (dec_value ds) 2147483648); [lia|reflexivity].
Qed.

Lemma pow31 : 2 ^ 31 = 2147483648.
Proof. reflexivity. Qed.

Lemma comp_suffix_if c : comp_suffix c = if comp_hardened c then [39] else [].
Proof. destruct c; reflexivity. Qed.

Lemma parse_component_complete t c : spells t c -> parse_component t = Ok c.
Proof.
  intros (plus & ds & -> & Hp & Hne & Hd & Hv & Hr). rewrite pow31 in Hr.
  rewrite comp_suffix_if, parse_component_shaped by assumption. rewrite Hv.
  destruct (N.ltb_spec (comp_value c) 2147483648); [|lia]. destruct c; reflexivity.
Qed.

Lemma parse_component_sound t c : parse_component t = Ok c -> spells t c.
Proof.
  unfold parse_component. intros H.
  destruct (strip_suffix_char 39 t) as [value|] eqn:E.
  - apply strip_suffix_char_some in E. subst t.
    destruct (u32_of_str value) as [v|] eqn:U; [|discriminate].
    destruct (N.ltb_spec v 2147483648) as [Hlt|]; [|discriminate]. inversion H; subst c.
    apply parse_uint_sound in U as (_ & ds & Hs & Hne & Hd & Hv).
    destruct Hs as [->| ->].
    + exists [], ds. cbn [app comp_suffix comp_value]. rewrite pow31. unfold dec_value. auto 10.
    + exists [43], ds. cbn [app comp_suffix comp_value]. rewrite pow31. unfold dec_value. auto 10.
  - destruct (u32_of_str t) as [v|] eqn:U; [|discriminate].
    destruct (N.ltb_spec v 2147483648) as [Hlt|]; [|discriminate]. inversion H; subst c.
    apply parse_uint_sound in U as (_ & ds & Hs & Hne & Hd & Hv).
    destruct Hs as [->| ->].
    + exists [], ds. cbn [app comp_suffix comp_value]. rewrite app_nil_r, pow31. unfold dec_value. auto 10.
    + exists [43], ds. cbn [app comp_suffix comp_value]. rewrite app_nil_r, pow31. unfold dec_value. auto 10.
Qed.

Lemma parse_component_graceful t : graceful (parse_component t).
Proof.
  unfold parse_component.
  destruct (strip_suffix_char 39 t) as [value|];
    (destruct (u32_of_str _) as [v|]; [|apply graceful_err]);
    (destruct (v <? 2147483648); [apply graceful_ok|apply graceful_err]).
Qed.

Lemma parse_component_err t : (forall c, parse_component t <> Ok c) -> parse_component t = Err.
Proof. apply graceful_not_ok_err, parse_component_graceful. Qed.

Lemma spells_shape t c : spells t c -> comp_shape t.
Proof.
  intros (plus & ds & E & Hp & Hne & Hd & _). exists plus, ds, (comp_suffix c).
  repeat split; try assumption. destruct c; [right|left]; reflexivity.
Qed.

Lemma spells_no_slash t c : spells t c -> ~ In 47 t.
Proof.
  intros (plus & ds & -> & Hp & _ & Hd & _) Hin.
  apply in_app_or in Hin as [Hin|Hin].
  - destruct Hp as [->| ->]; [destruct Hin|]. destruct Hin as [E|[]]; discriminate.
  - apply in_app_or in Hin as [Hin|Hin].
    + revert Hin. apply all_digits_not_in; [exact Hd|lia].
    + destruct c; cbn [comp_suffix] in Hin; [|destruct Hin]. destruct Hin as [E|[]]; discriminate.
Qed.

Lemma spells_in_range t c : spells t c -> comp_value c < 2 ^ 31.
Proof. intros (plus & ds & _ & _ & _ & _ & _ & H). exact H. Qed.

Lemma spells_canonical c : comp_value c < 2 ^ 31 -> spells (print_component c) c.
Proof.
  intros H. exists [], (decimal (comp_value c)). cbn [app].
  split; [destruct c; cbn [print_component comp_value comp_suffix]; [reflexivity|rewrite app_nil_r; reflexivity]|].
  split; [left; reflexivity|]. split; [apply decimal_nonempty|]. split; [apply decimal_digits|].
  split; [apply decimal_value|exact H].
Qed.

(* ------------------------------------------------------------------ *)
(** * [parse_path] *)

Lemma parse_path_rooted r :
  parse_path (s2l "m/" ++ r) = omapM parse_component (split_on 47 r).
Proof. unfold parse_path. rewrite strip_prefix_app. reflexivity. Qed.

Lemma parse_path_inv s p :
  parse_path s = Ok p ->
  exists r, s = s2l "m/" ++ r /\ Forall2 (fun t c => parse_component t = Ok c) (split_on 47 r) p.
Proof.
  unfold parse_path. intros H. destruct (strip_prefix (s2l "m/") s) as [r|] eqn:E; [|discriminate].
  exists r. split; [apply strip_prefix_some; exact E|apply omapM_ok; exact H].
Qed.

Lemma total_parse s : graceful (parse_path s).
Proof.
  unfold parse_path. destruct (strip_prefix (s2l "m/") s) as [r|]; [|apply graceful_err].
  apply omapM_graceful. intros t _. apply parse_component_graceful.
Qed.

Lemma total_for_index i : graceful (for_index i).
Proof. apply total_parse. Qed.

(** soundness: only "m/" followed by '/'-separated spellings is accepted *)
Lemma sound s p :
  parse_path s = Ok p ->
  exists comps, s = s2l "m/" ++ join 47 comps /\ Forall2 spells comps p.
Proof.
  intros H. apply parse_path_inv in H as (r & -> & F). exists (split_on 47 r).
  split; [rewrite join_split; reflexivity|].
  induction F as [|t c ts cs Htc _ IH]; constructor; [apply parse_component_sound; exact Htc|exact IH].
Qed.

(** completeness: every such text is accepted, with the spelled value *)
Lemma complete comps p :
  comps <> [] -> Forall2 spells comps p -> parse_path (s2l "m/" ++ join 47 comps) = Ok p.
Proof.
  intros Hne F. rewrite parse_path_rooted.
  assert (Hs : Forall (fun t => ~ In 47 t) comps).
  { clear Hne. induction F as [|t c ts cs Htc _ IH]; constructor; [eapply spells_no_slash; exact Htc|exact IH]. }
  rewrite split_join by assumption. clear Hne Hs.
  apply omapM_all_ok. induction F as [|t c ts cs Htc _ IH]; constructor;
    [apply parse_component_complete; exact Htc|exact IH].
Qed.

Lemma parsed_in_range s p : parse_path s = Ok p -> p <> [] /\ in_range p.
Proof.
  intros H. apply parse_path_inv in H as (r & _ & F). split.
  - intros ->. inversion F as [E|]. symmetry in E. revert E. apply split_on_nonempty.
  - unfold in_range. induction F as [|t c ts cs Htc _ IH]; constructor; [|exact IH].
    eapply spells_in_range, parse_component_sound, Htc.
Qed.

Lemma flat_map_join c cs :
  flat_map (fun c => 47 :: print_component c) (c :: cs) = 47 :: join 47 (map print_component (c :: cs)).
Proof.
  revert c. induction cs as [|d cs IH]; intros c.
  - cbn [flat_map map join]. rewrite app_nil_r. reflexivity.
  - change (flat_map (fun c => 47 :: print_component c) (c :: d :: cs))
      with ((47 :: print_component c) ++ flat_map (fun c => 47 :: print_component c) (d :: cs)).
    rewrite IH. cbn [map].
    rewrite (join_cons 47 (print_component c) (print_component d :: map print_component cs)) by discriminate.
    reflexivity.
Qed.

Lemma print_path_join p :
  p <> [] -> print_path p = s2l "m/" ++ join 47 (map print_component p).
Proof.
  destruct p as [|c cs]; [congruence|]. intros _. unfold print_path. rewrite flat_map_join. reflexivity.
Qed.

Lemma accept_canonical p : p <> [] -> in_range p -> parse_path (print_path p) = Ok p.
Proof.
  intros Hne Hr. rewrite print_path_join by exact Hne. apply complete.
  - destruct p; [congruence|discriminate].
  - clear Hne. induction Hr as [|c cs Hc _ IH]; constructor; [apply spells_canonical; exact Hc|exact IH].
Qed.

Lemma print_parse s p : parse_path s = Ok p -> parse_path (print_path p) = Ok p.
Proof. intros H. apply parsed_in_range in H as [Hne Hr]. apply accept_canonical; assumption. Qed.

(* ------------------------------------------------------------------ *)
(** * The BIP-32 index word *)

Lemma lor_hardened v : v < 2 ^ 31 -> N.lor v (2 ^ 31) = v + 2 ^ 31.
Proof.
  intros Hv. assert (L : N.land v (2 ^ 31) = 0).
  { apply N.bits_inj. intros n. rewrite N.land_spec, N.bits_0, N.pow2_bits_eqb.
    destruct (N.eqb_spec 31 n) as [<-|]; [|apply andb_false_r].
    rewrite andb_true_r. destruct (N.eq_dec v 0) as [->|Hz]; [apply N.bits_0|].
    apply N.bits_above_log2. apply N.log2_lt_pow2; lia. }
  rewrite <- N.lxor_lor by exact L. symmetry. apply N.add_nocarry_lxor. exact L.
Qed.

Lemma index_is_add c :
  comp_value c < 2 ^ 31 ->
  bip32_index c = match c with Hardened v => v + 2 ^ 31 | Normal v => v end.
Proof.
  destruct c as [v|v]; cbn [comp_value bip32_index]; intros H; [|reflexivity].
  rewrite <- pow31. apply lor_hardened. exact H.
Qed.

Lemma bip32_index_inj c d :
  comp_value c < 2 ^ 31 -> comp_value d < 2 ^ 31 -> bip32_index c = bip32_index d -> c = d.
Proof.
  intros Hc Hd. rewrite (index_is_add c Hc), (index_is_add d Hd). rewrite pow31 in *.
  destruct c as [v|v], d as [w|w]; cbn [comp_value] in *; intros E; try (f_equal; lia); exfalso; lia.
Qed.

Lemma map_index_inj p q : in_range p -> in_range q -> map bip32_index p = map bip32_index q -> p = q.
Proof.
  intros Hp. revert q. induction Hp as [|c p Hc _ IH]; intros q Hq E.
  - destruct q; [reflexivity|discriminate].
  - destruct q as [|d q]; [discriminate|]. inversion Hq as [|? ? Hd Hq']; subst.
    cbn [map] in E. inversion E as [[E1 E2]]. f_equal; [apply bip32_index_inj; assumption|apply IH; assumption].
Qed.

Lemma no_alias s1 s2 p1 p2 :
  parse_path s1 = Ok p1 -> parse_path s2 = Ok p2 ->
  map bip32_index p1 = map bip32_index p2 -> p1 = p2.
Proof.
  intros H1 H2. apply map_index_inj; [apply (parsed_in_range s1)|apply (parsed_in_range s2)]; assumption.
Qed.

(* ------------------------------------------------------------------ *)
(** * Rejections *)

Lemma reject_piece r t :
  In t (split_on 47 r) -> parse_component t = Err -> parse_path (s2l "m/" ++ r) = Err.
Proof.
  intros Hin He. apply graceful_not_ok_err; [apply total_parse|]. intros p H.
  rewrite parse_path_rooted in H. destruct (omapM_ok_in _ _ _ _ H Hin) as (c & Hc). congruence.
Qed.

Lemma reject_no_root s : (forall r, s <> s2l "m/" ++ r) -> parse_path s = Err.
Proof.
  intros Hs. apply graceful_not_ok_err; [apply total_parse|]. intros p H.
  apply sound in H as (comps & E & _). exact (Hs _ E).
Qed.

Lemma reject_component pre t post :
  ~ In 47 t -> parse_component t = Err ->
  parse_path (s2l "m/" ++ join 47 (pre ++ t :: post)) = Err.
Proof. intros Ht He. eapply reject_piece; [apply in_split_join; exact Ht|exact He]. Qed.

Lemma parse_component_empty : parse_component [] = Err.
Proof. reflexivity. Qed.

Lemma reject_empty_component pre post :
  parse_path (s2l "m/" ++ join 47 (pre ++ [] :: post)) = Err.
Proof. apply reject_component; [intros []|apply parse_component_empty]. Qed.

Lemma reject_out_of_range_spelled pre post plus digits suffix :
  (plus = [] \/ plus = [43]) -> digits <> [] -> all_digits digits -> (suffix = [] \/ suffix = [39]) ->
  2 ^ 31 <= dec_value digits ->
  parse_path (s2l "m/" ++ join 47 (pre ++ (plus ++ digits ++ suffix) :: post)) = Err.
Proof.
  intros Hp Hne Hd Hs Hv. rewrite pow31 in Hv.
  assert (E : exists h : bool, suffix = if h then [39] else []).
  { destruct Hs as [->| ->]; [exists false|exists true]; reflexivity. }
  destruct E as (h & ->). apply reject_component.
  - intros Hin. apply in_app_or in Hin as [Hin|Hin].
    + destruct Hp as [->| ->]; [destruct Hin|]. destruct Hin as [E|[]]; discriminate.
    + apply in_app_or in Hin as [Hin|Hin].
      * revert Hin. apply all_digits_not_in; [exact Hd|lia].
      * destruct h; [|destruct Hin]. destruct Hin as [E|[]]; discriminate.
  - rewrite parse_component_shaped by assumption.
    destruct (N.ltb_spec (dec_value digits) 2147483648); [lia|reflexivity].
Qed.

Lemma reject_out_of_range pre post v suffix :
  2 ^ 31 <= v -> (suffix = [] \/ suffix = [39]) ->
  parse_path (s2l "m/" ++ join 47 (pre ++ (decimal v ++ suffix) :: post)) = Err.
Proof.
  intros Hv Hs.
  apply (reject_out_of_range_spelled pre post [] (decimal v) suffix).
  - left; reflexivity.
  - apply decimal_nonempty.
  - apply decimal_digits.
  - exact Hs.
  - unfold dec_value. rewrite decimal_value. exact Hv.
Qed.

Lemma reject_bad_shape pre t post :
  ~ In 47 t -> ~ comp_shape t -> parse_path (s2l "m/" ++ join 47 (pre ++ t :: post)) = Err.
Proof.
  intros Ht Hs. apply reject_component; [exact Ht|]. apply parse_component_err. intros c Hc.
  apply Hs. eapply spells_shape, parse_component_sound, Hc.
Qed.

Lemma shape_chars t x : comp_shape t -> In x t -> 48 <= x <= 57 \/ x = 43 \/ x = 39.
Proof.
  intros (plus & ds & suffix & -> & Hp & _ & Hd & Hs) Hin.
  apply in_app_or in Hin as [Hin|Hin].
  - destruct Hp as [->| ->]; [destruct Hin|]. destruct Hin as [<-|[]]. right; left; reflexivity.
  - apply in_app_or in Hin as [Hin|Hin].
    + left. unfold all_digits in Hd. rewrite Forall_forall in Hd. apply Hd, Hin.
    + destruct Hs as [->| ->]; [destruct Hin|]. destruct Hin as [<-|[]]. right; right; reflexivity.
Qed.

Lemma reject_bad_char r x : In x r -> bad_char x -> parse_path (s2l "m/" ++ r) = Err.
Proof.
  intros Hin (Hd & Hplus & Hap & Hsl).
  destruct (in_split_piece 47 x r Hin Hsl) as (t & Ht & Hxt).
  eapply reject_piece; [exact Ht|]. apply parse_component_err. intros c Hc.
  apply parse_component_sound, spells_shape in Hc.
  destruct (shape_chars t x Hc Hxt) as [H|[H|H]]; contradiction.
Qed.

(* ------------------------------------------------------------------ *)
(** * The default account path *)

Lemma decimal_44 : decimal 44 = s2l "44". Proof. reflexivity. Qed.
Lemma decimal_60 : decimal 60 = s2l "60". Proof. reflexivity. Qed.
Lemma decimal_0 : decimal 0 = s2l "0". Proof. reflexivity. Qed.

Lemma for_index_text i :
  s2l "m/44'/60'/0'/0/" ++ decimal i =
  print_path [Hardened 44; Hardened 60; Hardened 0; Normal 0; Normal i].
Proof.
  unfold print_path. cbn [flat_map print_component]. rewrite decimal_44, decimal_60, decimal_0.
  rewrite app_nil_r. reflexivity.
Qed.

Lemma for_index_ok i :
  i < 2 ^ 31 -> for_index i = Ok [Hardened 44; Hardened 60; Hardened 0; Normal 0; Normal i].
Proof.
  intros Hi. unfold for_index. rewrite for_index_text. apply accept_canonical; [discriminate|].
  rewrite pow31 in *. repeat constructor; cbn [comp_value]; lia.
Qed.

Lemma for_index_reject i : 2 ^ 31 <= i -> for_index i = Err.
Proof.
  intros Hi. unfold for_index.
  pose proof (reject_out_of_range [s2l "44'"; s2l "60'"; s2l "0'"; s2l "0"] [] i [] Hi (or_introl eq_refl)) as H.
  rewrite app_nil_r in H. exact H.
Qed.
