(** The C09 statements, in the vocabulary of [Spec/Eip712ValueSpec.v] ([prims] and the bundles of
    assumptions about them); thin wrappers around [Proofs/Eip712ValueProofs.v]. *)
From Coq Require Import String.
From Coq Require Import List NArith ZArith Bool Lia.
From HDW Require Import Lib.Outcome Lib.Bytes Model.Json Model.Eip712Kind Model.Domain Model.Eip712Values.
From HDW Require Import Spec.Eip712ValueSpec Proofs.Eip712ValueProofs.
Import ListNotations.
Open Scope N_scope.

Ltac unp := unfold encode_value_p, struct_hash_p, compute_p in *.

Ltac sized S := destruct S as [KL TL AL].
Ltac total T := destruct T as [TG UG IG BG AG].

Lemma c09_uint_range P tys n j w :
  prims_ranged P -> encode_value_p P tys (KUint n) j = Ok w ->
  exists v, p_u256 P j = Ok v /\ v < 2 ^ n /\ w = be_fixed 32 v.
Proof.
  intros [RU RI]. unp. rewrite (proj1 (proj2 (proj2 (encode_value_atoms _ _ _ _ _ _ tys j)))).
  apply enc_uint_ok. exact RU.
Qed.

Lemma c09_uint_reject P tys n j v :
  prims_ranged P -> p_u256 P j = Ok v -> 2 ^ n <= v -> encode_value_p P tys (KUint n) j = Err.
Proof.
  intros [RU RI] Hv Hge. unp. rewrite (proj1 (proj2 (proj2 (encode_value_atoms _ _ _ _ _ _ tys j)))).
  exact (enc_uint_reject (p_u256 P) (p_i256 P) (p_bytes P) (p_addr P) n j v Hv (RU _ _ Hv) Hge).
Qed.

Lemma c09_uint_negative P tys n j :
  p_u256 P j = Err -> encode_value_p P tys (KUint n) j = Err.
Proof. unp. apply wrong_kind. Qed.

Lemma c09_int_range P tys n j w :
  prims_ranged P -> 1 <= n -> encode_value_p P tys (KInt n) j = Ok w ->
  exists z, p_i256 P j = Ok z /\ (- 2 ^ Z.of_N (n - 1) <= z < 2 ^ Z.of_N (n - 1))%Z /\
            w = be_fixed 32 (Z.to_N (z mod 2 ^ 256)).
Proof.
  intros [RU RI] Hn. unp.
  rewrite (proj1 (proj2 (proj2 (proj2 (encode_value_atoms _ _ _ _ _ _ tys j))))).
  apply enc_int_ok; assumption.
Qed.

Lemma c09_int_reject P tys n j z :
  prims_ranged P -> 1 <= n -> p_i256 P j = Ok z ->
  (z < - 2 ^ Z.of_N (n - 1) \/ 2 ^ Z.of_N (n - 1) <= z)%Z ->
  encode_value_p P tys (KInt n) j = Err.
Proof.
  intros [RU RI] Hn Hz Hout. unp.
  rewrite (proj1 (proj2 (proj2 (proj2 (encode_value_atoms _ _ _ _ _ _ tys j))))).
  exact (enc_int_reject (p_u256 P) (p_i256 P) (p_bytes P) (p_addr P) n j z RI Hn Hz Hout).
Qed.

Lemma c09_bytesN_length P tys n j w :
  encode_value_p P tys (KBytes (Some n)) j = Ok w ->
  exists b, p_bytes P j = Ok b /\ N.of_nat (length b) = n /\ n <= 32 /\
            w = b ++ repeat 0 (32 - N.to_nat n)%nat.
Proof.
  unp. rewrite (proj1 (proj2 (encode_value_atoms _ _ _ _ _ _ tys j))). apply enc_bytesN_ok.
Qed.

Lemma c09_bytesN_reject P tys n j b :
  p_bytes P j = Ok b -> N.of_nat (length b) <> n -> encode_value_p P tys (KBytes (Some n)) j = Err.
Proof.
  unp. rewrite (proj1 (proj2 (encode_value_atoms _ _ _ _ _ _ tys j))). apply enc_bytesN_reject.
Qed.

Lemma c09_fixed_array_length P tys k n l w :
  encode_value_p P tys (KArray k (Some n)) (JArr l) = Ok w -> N.of_nat (length l) = n.
Proof. unp. apply array_size_ok. Qed.

Lemma c09_fixed_array_reject P tys k n l :
  N.of_nat (length l) <> n -> encode_value_p P tys (KArray k (Some n)) (JArr l) = Err.
Proof. unp. apply array_size_reject. Qed.

Lemma c09_missing_member P tys name ms obj m :
  prims_sized P -> prims_total P ->
  types_get name tys = Some ms -> In m ms -> obj_get (m_name m) obj = None ->
  struct_hash_p P tys name obj = Err.
Proof. intros S T. sized S. total T. unp. apply struct_hash_missing; assumption. Qed.

Lemma c09_extra_member P tys name ms obj key :
  prims_sized P -> prims_total P ->
  types_get name tys = Some ms -> In key (map fst obj) -> ~ In key (map m_name ms) ->
  struct_hash_p P tys name obj = Err.
Proof. intros S T. sized S. total T. unp. apply struct_hash_extra; assumption. Qed.

Lemma c09_undefined_struct P tys name :
  types_get name tys = None ->
  (forall obj, struct_hash_p P tys name obj = Err) /\
  (forall j, encode_value_p P tys (KStruct name) j = Err).
Proof.
  intros H. unp. split; [intros obj; apply struct_hash_undefined, H|].
  intros j. destruct j; try reflexivity. rewrite encode_value_struct. apply struct_hash_undefined, H.
Qed.

Lemma c09_unresolved_dependency P tys name :
  p_type_hash P tys name = Err ->
  (forall obj, struct_hash_p P tys name obj = Err) /\
  (forall j, encode_value_p P tys (KStruct name) j = Err).
Proof.
  intros H. unp. split; [intros obj; apply struct_hash_unresolved, H|].
  intros j. destruct j; try reflexivity. rewrite encode_value_struct. apply struct_hash_unresolved, H.
Qed.

Lemma c09_wrong_kind P tys j :
  ((forall b, j <> JBool b) -> encode_value_p P tys KBool j = Err) /\
  ((forall s, j <> JStr s) -> encode_value_p P tys KString j = Err) /\
  (forall name, (forall kvs, j <> JObj kvs) -> encode_value_p P tys (KStruct name) j = Err) /\
  (forall k s, (forall l, j <> JArr l) -> encode_value_p P tys (KArray k s) j = Err) /\
  (forall n, p_u256 P j = Err -> encode_value_p P tys (KUint n) j = Err) /\
  (forall n, p_i256 P j = Err -> encode_value_p P tys (KInt n) j = Err) /\
  (forall n, p_bytes P j = Err -> encode_value_p P tys (KBytes n) j = Err) /\
  (p_addr P j = Err -> encode_value_p P tys KAddress j = Err).
Proof. unp. apply wrong_kind. Qed.

Lemma c09_position_array P tys k s l x :
  prims_sized P -> prims_total P ->
  In x l -> encode_value_p P tys k x = Err -> encode_value_p P tys (KArray k s) (JArr l) = Err.
Proof. intros S T. sized S. total T. unp. apply array_element_err; assumption. Qed.

Lemma c09_position_member P tys name ms obj m x :
  prims_sized P -> prims_total P ->
  NoDup (map fst obj) -> types_get name tys = Some ms -> In m ms ->
  obj_get (m_name m) obj = Some x -> encode_value_p P tys (m_kind m) x = Err ->
  struct_hash_p P tys name obj = Err /\ encode_value_p P tys (KStruct name) (JObj obj) = Err.
Proof.
  intros S T. sized S. total T. unp. intros. rewrite encode_value_struct.
  split; eapply struct_hash_member_err; eassumption.
Qed.

Lemma c09_nothing_hashed P j : compute_p P j = Err -> ~ exists r, compute_p P j = Ok r.
Proof. unp. apply compute_err_no_digest. Qed.

Lemma c09_total P :
  prims_sized P -> prims_total P ->
  (forall tys k j, graceful (encode_value_p P tys k j)) /\
  (forall tys name obj, graceful (struct_hash_p P tys name obj)) /\
  (forall j, graceful (compute_p P j)).
Proof.
  intros S T. sized S. total T. unp. refine (conj _ (conj _ _)).
  - intros. apply encode_value_graceful; assumption.
  - intros. apply struct_hash_graceful; assumption.
  - intros. apply compute_graceful; assumption.
Qed.
