(** C06 / C11 / C15 — proofs, part 3: signed bytes, signing payload, decoding, the
    [sign transaction] / [hash transaction] commands, replay protection. *)
From Coq Require Import String.
From Coq Require Import List NArith ZArith Lia Bool PeanoNat.
From HDW Require Import Lib.Outcome Lib.Radix Lib.Bytes Lib.Hex Model.Json Model.Num Model.Rlp
  Model.SigText Model.Tx Spec.RlpSpec Spec.TxSpec Proofs.TxProofs Proofs.TxParseProofs.
From HDW Require Proofs.NumProofs Proofs.RlpProofs Proofs.SigTextProofs.
Import ListNotations.
Open Scope N_scope.
Open Scope outcome_scope.

Arguments N.add : simpl never.
Arguments N.mul : simpl never.
Arguments N.ltb : simpl never.
Arguments N.pow : simpl never.

Lemma valid_sig_fits σ : valid_sig σ -> sig_fits σ.
Proof. apply SigTextProofs.valid_sig_bounds. Qed.

(* ------------------------------------------------------------------ *)
(** * C06: the emitted bytes *)

Theorem encode_signed_bytes t σ :
  wf_tx t -> tx_fits t -> sig_fits σ -> encode t σ = Ok (signed_bytes t σ).
Proof.
  intros Hw Hf Hs. unfold encode, signed_bytes. rewrite <- tree_of_some.
  apply rlp_encode_enc; assumption.
Qed.

Theorem preimage_payload t : wf_tx t -> tx_fits t -> rlp_encode t None = Ok (payload t).
Proof.
  intros Hw Hf. unfold payload. rewrite <- tree_of_none. apply rlp_encode_enc; [assumption..|exact I].
Qed.

Theorem legacy_bytes t σ :
  wf_legacy t -> tx_fits (Legacy t) -> sig_fits σ ->
  encode (Legacy t) σ
  = Ok (enc (legacy_tree t [Int (spec_v σ (l_chain_id t)); Int (sig_r σ); Int (sig_s σ)])).
Proof. intros Hw Hf Hs. exact (encode_signed_bytes (Legacy t) σ Hw Hf Hs). Qed.

Theorem eip2930_bytes t σ :
  wf_eip2930 t -> tx_fits (Eip2930 t) -> sig_fits σ ->
  encode (Eip2930 t) σ
  = Ok ([0x01] ++ enc (eip2930_tree t [Int (parity_N σ); Int (sig_r σ); Int (sig_s σ)])).
Proof. intros Hw Hf Hs. exact (encode_signed_bytes (Eip2930 t) σ Hw Hf Hs). Qed.

Theorem eip1559_bytes t σ :
  wf_eip1559 t -> tx_fits (Eip1559 t) -> sig_fits σ ->
  encode (Eip1559 t) σ
  = Ok ([0x02] ++ enc (eip1559_tree t [Int (parity_N σ); Int (sig_r σ); Int (sig_s σ)])).
Proof. intros Hw Hf Hs. exact (encode_signed_bytes (Eip1559 t) σ Hw Hf Hs). Qed.

Theorem signing_payload keccak t :
  wf_tx t -> tx_fits t -> signing_message keccak t = Ok (keccak (payload t)).
Proof. intros Hw Hf. unfold signing_message. rewrite (preimage_payload t Hw Hf). reflexivity. Qed.

(** the payload, kind by kind, in the words of the property *)
Theorem payload_shape :
  (forall t, payload (Legacy t)
             = enc (Lst (legacy_fields t ++
                         match l_chain_id t with Some c => [Int c; Int 0; Int 0] | None => [] end)))
  /\ (forall t, payload (Eip2930 t) = [0x01] ++ enc (Lst (eip2930_fields t)))
  /\ (forall t, payload (Eip1559 t) = [0x02] ++ enc (Lst (eip1559_fields t))).
Proof.
  split; [|split]; intros t; unfold payload; cbn [type_prefix unsigned_tree].
  - reflexivity.
  - unfold eip2930_tree. rewrite app_nil_r. reflexivity.
  - unfold eip1559_tree. rewrite app_nil_r. reflexivity.
Qed.

Lemma body_prefix t x : body t (type_prefix t ++ x) = x.
Proof. unfold body. apply RlpProofs.skipn_app_exact. Qed.

(** an independent strict decoder recovers the signed tree, i.e. every field *)
Theorem decodes t σ bs :
  wf_tx t -> tx_fits t -> sig_fits σ -> encode t σ = Ok bs ->
  dec_strict (body t bs) = Some (signed_tree t σ, []).
Proof.
  intros Hw Hf Hs H. rewrite (encode_signed_bytes t σ Hw Hf Hs) in H. inversion H; subst bs.
  unfold signed_bytes. rewrite body_prefix.
  rewrite <- (app_nil_r (enc (signed_tree t σ))). apply RlpProofs.roundtrip.
  rewrite <- tree_of_some. apply wf_tree; assumption.
Qed.

Theorem payload_decodes t :
  wf_tx t -> tx_fits t -> dec_strict (body t (payload t)) = Some (unsigned_tree t, []).
Proof.
  intros Hw Hf. unfold payload. rewrite body_prefix.
  rewrite <- (app_nil_r (enc (unsigned_tree t))). apply RlpProofs.roundtrip.
  rewrite <- tree_of_none. apply wf_tree; [assumption..|exact I].
Qed.

(** what the decoder's strings mean: an [Int] reads back as its integer *)
Lemma int_of_Int v : match Int v with Str b => int_of_str b = Some v | Lst _ => False end.
Proof. exact (proj1 (RlpProofs.uint_canonical v)). Qed.

Theorem encode_total t σ :
  wf_tx t -> tx_fits t -> sig_fits σ -> exists bs, encode t σ = Ok bs.
Proof. intros Hw Hf Hs. eexists. apply encode_signed_bytes; assumption. Qed.

(* ------------------------------------------------------------------ *)
(** * C11: [v] and the chain id inside what is signed *)

Theorem v_no_panic_parsed j t c σ :
  tx_of_json j = Ok (Legacy t) -> l_chain_id t = Some c ->
  sig_v σ (Some c) = Ok (35 + 2 * c + parity_N σ).
Proof.
  intros H Hc. destruct (tx_of_json_is_obj _ _ H) as [kvs ->].
  apply fields_of_parsed in H. cbn [tx_parsed] in H.
  destruct H as (_ & _ & _ & _ & _ & _ & H). rewrite Hc in H.
  apply legacy_chain_some in H as [_ Hb]. apply sig_v_exact, Hb.
Qed.

(** a legacy document whose chain id is too large for [v] is refused by the parser *)
Theorem too_large kvs cj c :
  kind_of_keys kvs = KLegacy -> obj_get k_chain_id kvs = Some cj -> permissive_u256 cj = Ok c ->
  2 ^ 256 <= 2 * c + 36 -> tx_of_json (JObj kvs) = Err.
Proof.
  intros Hk Hget Hc Hbig. apply reject_field. right. right. right. left.
  rewrite Hk. cbn [chain_field]. unfold legacy_chain_field. rewrite Hget.
  assert (Hn : cj <> JNull) by (intros ->; discriminate).
  rewrite (NumProofs.chainid_reject (Some cj) c (NumProofs.numopt_of cj c Hn Hc) Hbig).
  discriminate.
Qed.

Theorem bound_legacy t c :
  l_chain_id t = Some c ->
  unsigned_tree (Legacy t) = Lst (legacy_fields t ++ [Int c; Int 0; Int 0]).
Proof. intros H. cbn [unsigned_tree]. rewrite H. reflexivity. Qed.

Theorem bound_typed :
  (forall t σ, exists rest rest',
      signed_tree (Eip2930 t) σ = Lst (Int (e2_chain_id t) :: rest)
      /\ unsigned_tree (Eip2930 t) = Lst (Int (e2_chain_id t) :: rest'))
  /\ (forall t σ, exists rest rest',
      signed_tree (Eip1559 t) σ = Lst (Int (e5_chain_id t) :: rest)
      /\ unsigned_tree (Eip1559 t) = Lst (Int (e5_chain_id t) :: rest')).
Proof. split; intros t σ; do 2 eexists; split; reflexivity. Qed.

Lemma Int_inj a b : Int a = Int b -> a = b.
Proof.
  intros H. inversion H as [H']. apply (f_equal be_val) in H'. rewrite !be_val_min in H'. exact H'.
Qed.

(** the signing payload determines the chain id (for transactions of one kind) *)
Theorem payload_binds_chain t1 t2 :
  wf_tx t1 -> tx_fits t1 -> wf_tx t2 -> tx_fits t2 -> kind t1 = kind t2 ->
  payload t1 = payload t2 -> tx_chain_id t1 = tx_chain_id t2.
Proof.
  intros Hw1 Hf1 Hw2 Hf2 Hk Hp.
  pose proof (wf_tree t1 None Hw1 Hf1 I) as W1. pose proof (wf_tree t2 None Hw2 Hf2 I) as W2.
  rewrite tree_of_none in W1, W2. unfold payload in Hp.
  destruct t1 as [a|a|a], t2 as [b|b|b]; try discriminate Hk;
    cbn [type_prefix app tx_chain_id] in *.
  - apply (RlpProofs.injective _ _ W1 W2) in Hp. cbn [unsigned_tree] in Hp.
    unfold legacy_tree, legacy_fields in Hp. cbn [app] in Hp.
    injection Hp as _ _ _ _ _ _ Ht.
    destruct (l_chain_id a) as [c1|], (l_chain_id b) as [c2|]; cbn [legacy_unsigned_tail] in Ht;
      try discriminate Ht; [|reflexivity].
    injection Ht as Ht. f_equal. apply Int_inj. unfold Int. f_equal. exact Ht.
  - injection Hp as Hp. apply (RlpProofs.injective _ _ W1 W2) in Hp. cbn [unsigned_tree] in Hp.
    unfold eip2930_tree, eip2930_fields in Hp. cbn [app] in Hp.
    injection Hp as Hc _. f_equal. apply Int_inj. unfold Int. f_equal. exact Hc.
  - injection Hp as Hp. apply (RlpProofs.injective _ _ W1 W2) in Hp. cbn [unsigned_tree] in Hp.
    unfold eip1559_tree, eip1559_fields in Hp. cbn [app] in Hp.
    injection Hp as Hc _. f_equal. apply Int_inj. unfold Int. f_equal. exact Hc.
Qed.

Theorem chain_separation t1 t2 :
  wf_tx t1 -> tx_fits t1 -> wf_tx t2 -> tx_fits t2 -> kind t1 = kind t2 ->
  tx_chain_id t1 <> tx_chain_id t2 -> payload t1 <> payload t2.
Proof. intros Hw1 Hf1 Hw2 Hf2 Hk Hne Hp. apply Hne. apply payload_binds_chain; assumption. Qed.

(** equal digests for different chain ids = an explicit Keccak collision *)
Theorem chain_separation_digest keccak t1 t2 :
  wf_tx t1 -> tx_fits t1 -> wf_tx t2 -> tx_fits t2 -> kind t1 = kind t2 ->
  tx_chain_id t1 <> tx_chain_id t2 ->
  signing_message keccak t1 = signing_message keccak t2 ->
  payload t1 <> payload t2 /\ keccak (payload t1) = keccak (payload t2).
Proof.
  intros Hw1 Hf1 Hw2 Hf2 Hk Hne H. split; [apply chain_separation; assumption|].
  rewrite (signing_payload keccak t1 Hw1 Hf1), (signing_payload keccak t2 Hw2 Hf2) in H.
  inversion H. reflexivity.
Qed.

(* ------------------------------------------------------------------ *)
(** * The commands *)

Section Commands.
  Variable keccak : bytes -> bytes.
  Variable sign_digest : bytes -> outcome sig.

  Notation sign_cmd := (sign_tx_cmd keccak sign_digest).
  Notation hash_cmd := (hash_tx_cmd keccak).

  Lemma sign_cmd_inv allow sigonly j out :
    sign_cmd allow sigonly j = Ok out ->
    exists t h σ,
      tx_of_json j = Ok t /\ relay_protection_guard allow t = Ok tt
      /\ signing_message keccak t = Ok h /\ sign_digest h = Ok σ
      /\ (if sigonly then out = print_sig σ
          else exists e, encode t σ = Ok e /\ out = s2l "0x" ++ hex_encode e).
  Proof.
    unfold sign_tx_cmd. intros H.
    apply bind_ok in H as (t & Ht & H). apply bind_ok in H as (u & Hg & H).
    apply bind_ok in H as (h & Hh & H). apply bind_ok in H as (σ & Hσ & H).
    destruct u. exists t, h, σ. repeat split; try assumption.
    destruct sigonly.
    - inversion H. reflexivity.
    - apply bind_ok in H as (e & He & H). inversion H. eauto.
  Qed.

  (** C11: the guard *)
  Theorem guard sigonly j t :
    tx_of_json j = Ok (Legacy t) -> l_chain_id t = None -> sign_cmd false sigonly j = Err.
  Proof.
    intros Ht Hc. unfold sign_tx_cmd. rewrite Ht. cbn [bind relay_protection_guard].
    rewrite Hc. reflexivity.
  Qed.

  (** ... and it refuses nothing else: with a chain id, or for a typed transaction, or with
      the override, the guard passes *)
  Lemma guard_passes allow t :
    allow = true \/ tx_chain_id t <> None -> relay_protection_guard allow t = Ok tt.
  Proof.
    intros H. destruct t as [t|t|t]; cbn [relay_protection_guard tx_chain_id] in *; try reflexivity.
    destruct (l_chain_id t); [reflexivity|]. destruct H as [-> | H]; [reflexivity|congruence].
  Qed.

  (** what the command prints *)
  Theorem sign_cmd_spec allow sigonly j t σ :
    tx_of_json j = Ok t -> wf_tx t -> tx_fits t ->
    allow = true \/ tx_chain_id t <> None ->
    sign_digest (keccak (payload t)) = Ok σ -> sig_fits σ ->
    sign_cmd allow sigonly j
    = Ok (if sigonly then print_sig σ else s2l "0x" ++ hex_encode (signed_bytes t σ)).
  Proof.
    intros Ht Hw Hf Hg Hσ Hs. unfold sign_tx_cmd. rewrite Ht. cbn [bind].
    rewrite (guard_passes allow t Hg). cbn [bind].
    rewrite (signing_payload keccak t Hw Hf). cbn [bind]. rewrite Hσ. cbn [bind].
    destruct sigonly; [reflexivity|].
    rewrite (encode_signed_bytes t σ Hw Hf Hs). reflexivity.
  Qed.

  (** C11: with the override, [v] is 27 or 28 *)
  Theorem override_v sigonly j t out :
    (forall h σ, sign_digest h = Ok σ -> valid_sig σ) ->
    doc_tokens_ok j -> tx_of_json j = Ok (Legacy t) -> tx_fits (Legacy t) -> l_chain_id t = None ->
    sign_cmd true sigonly j = Ok out ->
    exists σ,
      sign_digest (keccak (enc (Lst (legacy_fields t)))) = Ok σ
      /\ sig_v σ None = Ok (27 + parity_N σ) /\ parity_N σ <= 1
      /\ out = if sigonly then print_sig σ
               else s2l "0x" ++ hex_encode (enc (legacy_tree t
                      [Int (27 + parity_N σ); Int (sig_r σ); Int (sig_s σ)])).
  Proof.
    intros Hsigner Htok Ht Hf Hc H.
    pose proof (wf_parsed j _ Htok Ht) as Hw.
    apply sign_cmd_inv in H as (t' & h & σ & Ht' & _ & Hh & Hσ & Hout).
    rewrite Ht in Ht'. inversion Ht'; subst t'.
    rewrite (signing_payload keccak _ Hw Hf) in Hh. inversion Hh; subst h.
    pose proof (valid_sig_fits σ (Hsigner _ _ Hσ)) as Hs.
    assert (Hpay : payload (Legacy t) = enc (Lst (legacy_fields t))).
    { rewrite (proj1 payload_shape). rewrite Hc, app_nil_r. reflexivity. }
    exists σ. rewrite <- Hpay. split; [exact Hσ|]. split; [apply sig_v_none|].
    split; [apply parity_le|].
    destruct sigonly; [exact Hout|].
    destruct Hout as (e & He & ->). rewrite (legacy_bytes t σ Hw Hf Hs) in He.
    inversion He. rewrite Hc. reflexivity.
  Qed.

  (** C11: too large a chain id is refused before anything is signed *)
  Theorem too_large_cmd allow sigonly kvs cj c :
    kind_of_keys kvs = KLegacy -> obj_get k_chain_id kvs = Some cj -> permissive_u256 cj = Ok c ->
    2 ^ 256 <= 2 * c + 36 -> sign_cmd allow sigonly (JObj kvs) = Err.
  Proof.
    intros Hk Hget Hc Hbig. unfold sign_tx_cmd. rewrite (too_large kvs cj c Hk Hget Hc Hbig).
    reflexivity.
  Qed.

  (** the hash command *)
  Theorem hash_cmd_unsigned j t :
    tx_of_json j = Ok t -> wf_tx t -> tx_fits t ->
    hash_cmd j None = Ok (s2l "0x" ++ hex_encode (keccak (payload t))).
  Proof.
    intros Ht Hw Hf. unfold hash_tx_cmd. rewrite Ht. cbn [bind].
    rewrite (signing_payload keccak t Hw Hf). reflexivity.
  Qed.

  Theorem hash_cmd_signed j t σ :
    tx_of_json j = Ok t -> wf_tx t -> tx_fits t -> sig_fits σ ->
    hash_cmd j (Some σ) = Ok (s2l "0x" ++ hex_encode (keccak (signed_bytes t σ))).
  Proof.
    intros Ht Hw Hf Hs. unfold hash_tx_cmd. rewrite Ht. cbn [bind].
    rewrite (encode_signed_bytes t σ Hw Hf Hs). reflexivity.
  Qed.

  (** C15: [sign transaction --signature-only | hash transaction --signature] *)
  Theorem pipeline allow j t1 full :
    (forall h σ, sign_digest h = Ok σ -> valid_sig σ) ->
    sign_cmd allow true j = Ok t1 -> sign_cmd allow false j = Ok full ->
    exists σ bs,
      parse_sig t1 = Ok σ /\ full = s2l "0x" ++ hex_encode bs
      /\ hash_cmd j (Some σ) = Ok (s2l "0x" ++ hex_encode (keccak bs)).
  Proof.
    intros Hsigner H1 H2.
    apply sign_cmd_inv in H1 as (t & h & σ & Ht & _ & Hh & Hσ & Hout1).
    apply sign_cmd_inv in H2 as (t' & h' & σ' & Ht' & _ & Hh' & Hσ' & (e & He & Hout2)).
    rewrite Ht in Ht'. inversion Ht'; subst t'.
    rewrite Hh in Hh'. inversion Hh'; subst h'.
    rewrite Hσ in Hσ'. inversion Hσ'; subst σ'.
    exists σ, e. subst t1. split; [apply SigTextProofs.roundtrip, (Hsigner _ _ Hσ)|].
    split; [exact Hout2|].
    unfold hash_tx_cmd. rewrite Ht. cbn [bind]. rewrite He. reflexivity.
  Qed.

  Theorem sign_cmd_graceful allow sigonly j :
    (forall h, graceful (sign_digest h)) ->
    (forall h σ, sign_digest h = Ok σ -> valid_sig σ) ->
    doc_tokens_ok j -> (forall t, tx_of_json j = Ok t -> tx_fits t) ->
    graceful (sign_cmd allow sigonly j).
  Proof.
    intros Hgs Hsigner Htok Hfits. unfold sign_tx_cmd.
    apply graceful_bind; [apply tx_of_json_graceful|]. intros t Ht.
    pose proof (wf_parsed j t Htok Ht) as Hw. pose proof (Hfits t Ht) as Hf.
    apply graceful_bind.
    { destruct t as [t|t|t]; cbn [relay_protection_guard]; try apply graceful_ok.
      destruct (l_chain_id t); [apply graceful_ok|]. destruct allow; [apply graceful_ok|apply graceful_err]. }
    intros _ _. rewrite (signing_payload keccak t Hw Hf). cbn [bind].
    apply graceful_bind; [apply Hgs|]. intros σ Hσ.
    destruct sigonly; [apply graceful_ok|].
    rewrite (encode_signed_bytes t σ Hw Hf (valid_sig_fits σ (Hsigner _ _ Hσ))). apply graceful_ok.
  Qed.
End Commands.
