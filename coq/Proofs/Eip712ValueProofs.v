(** Lemmas about [Model/Eip712Values.v]: slices, the leading-zeros range tests, the buffer loops,
    the mutual unfolding equations of [encode_value] / [struct_hash], word length, totality and
    the rejection lemmas of C09. *)
From Coq Require Import String.
From Coq Require Import List NArith ZArith Bool Lia PeanoNat.
From HDW Require Import Lib.Outcome Lib.Bytes Model.Json Model.Eip712Kind Model.Domain Model.Eip712Values.
From HDW Require Import Proofs.KindProofs Proofs.DomainProofs.
Import ListNotations.
Open Scope N_scope.
Local Open Scope outcome_scope.

Arguments N.add : simpl never.
Arguments N.sub : simpl never.
Arguments N.mul : simpl never.
Arguments N.pow : simpl never.
Arguments N.leb : simpl never.
Arguments N.ltb : simpl never.
Arguments N.eqb : simpl never.
Arguments N.size : simpl never.
Arguments Z.pow : simpl never.
Arguments Z.modulo : simpl never.
Arguments Z.ltb : simpl never.
Arguments Nat.mul : simpl never.
Arguments be_fixed : simpl never.

(* ------------------------------------------------------------------ *)
(** * outcomes *)

Lemma graceful_not_ok_err {A} (x : outcome A) : graceful x -> (forall a, x <> Ok a) -> x = Err.
Proof. intros [H1 H2] H. destruct x; try congruence. Qed.

Lemma graceful_cases {A} (x : outcome A) : graceful x -> (exists a, x = Ok a) \/ x = Err.
Proof. intros [H1 H2]. destruct x; try congruence; eauto. Qed.

Lemma graceful_omap {A B} (f : A -> B) x : graceful x -> graceful (omap f x).
Proof. intros [H1 H2]. destruct x; try congruence; split; discriminate. Qed.

Lemma omap_ok {A B} (f : A -> B) x b : omap f x = Ok b -> exists a, x = Ok a /\ b = f a.
Proof. destruct x; cbn; intros H; try discriminate. inversion H. eauto. Qed.

Lemma omapM_in_err {A B} (f : A -> outcome B) l x :
  In x l -> (forall a, f x <> Ok a) -> forall ys, omapM f l <> Ok ys.
Proof.
  intros Hin Hx ys H. apply omapM_ok in H.
  revert ys H; induction l as [|y r IH]; intros ys H; [contradiction|].
  inversion H as [|? w ? ws Hy Hr]; subst.
  destruct Hin as [->|Hin]; [eapply Hx; eassumption|eapply IH; eassumption].
Qed.

(* ------------------------------------------------------------------ *)
(** * lists and slices *)

Lemma firstn_exact {A} (a b : list A) n : length a = n -> firstn n (a ++ b) = a.
Proof.
  intros <-. rewrite <- (Nat.add_0_r (length a)) at 1. rewrite firstn_app_2. cbn. apply app_nil_r.
Qed.

Lemma skipn_exact {A} (a b : list A) n : length a = n -> skipn n (a ++ b) = b.
Proof. intros <-. rewrite skipn_app, skipn_all, Nat.sub_diag. reflexivity. Qed.

Lemma skipn_repeat {A} (x : A) n k : skipn n (repeat x k) = repeat x (k - n).
Proof.
  revert k; induction n as [|n IH]; intros k; [rewrite Nat.sub_0_r; reflexivity|].
  destruct k; [reflexivity|]. cbn. apply IH.
Qed.

Lemma firstn_repeat {A} (x : A) n k : (n <= k)%nat -> firstn n (repeat x k) = repeat x n.
Proof.
  revert k; induction n as [|n IH]; intros k H; [reflexivity|].
  destruct k; [lia|]. cbn. f_equal. apply IH. lia.
Qed.

Lemma firstn_slot {A} (buffer : list A) off w n :
  (off + length w <= length buffer)%nat -> n = (off + length w)%nat ->
  forall tl, firstn n (firstn off buffer ++ w ++ tl) = firstn off buffer ++ w.
Proof.
  intros H -> tl. rewrite app_assoc. apply firstn_exact.
  rewrite app_length, firstn_length. lia.
Qed.

Lemma copy_at_ok buffer off len src :
  (off + len <= length buffer)%nat -> length src = len ->
  copy_at buffer off len src = Ok (firstn off buffer ++ src ++ skipn (off + len) buffer).
Proof.
  unfold copy_at; intros H1 H2.
  destruct (Nat.ltb_spec (length buffer) off); [lia|].
  destruct (Nat.ltb_spec (length buffer - off) len); [lia|].
  rewrite (proj2 (Nat.eqb_eq _ _) H2). reflexivity.
Qed.

Lemma copy_at_inv buffer off len src b :
  copy_at buffer off len src = Ok b ->
  (off + len <= length buffer)%nat /\ length src = len /\
  b = firstn off buffer ++ src ++ skipn (off + len) buffer.
Proof.
  unfold copy_at.
  destruct (Nat.ltb_spec (length buffer) off); [discriminate|].
  destruct (Nat.ltb_spec (length buffer - off) len); [discriminate|].
  destruct (Nat.eqb_spec (length src) len); [|discriminate].
  intros H'; inversion H'. repeat split; lia.
Qed.

Lemma copy_at_not_err buffer off len src : copy_at buffer off len src <> Err.
Proof.
  unfold copy_at. destruct (Nat.ltb _ _); [discriminate|].
  destruct (Nat.ltb _ _); [discriminate|]. destruct (Nat.eqb _ _); discriminate.
Qed.

Lemma copy_at_length buffer off len src b :
  copy_at buffer off len src = Ok b -> length b = length buffer.
Proof.
  intros H. apply copy_at_inv in H as (H1 & H2 & ->).
  rewrite !app_length, firstn_length, skipn_length. lia.
Qed.

(* ------------------------------------------------------------------ *)
(** * the leading-zeros range tests *)

Lemma size_le_iff m n : N.size m <= n <-> m < 2 ^ n.
Proof.
  split; intros H.
  - eapply N.lt_le_trans; [apply N.size_gt|]. apply N.pow_le_mono_r; lia.
  - destruct (N.eq_dec m 0) as [->|Hm]; [change (N.size 0) with 0; lia|].
    rewrite N.size_log2 by assumption. apply N.le_succ_l. apply N.log2_lt_pow2; lia.
Qed.

(** [value.leading_zeros() + n >= 256]  iff  [value < 2^n] *)
Lemma uint_check v n :
  v < 2 ^ 256 -> ((256 <=? leading_zeros_256 v + n) = true <-> v < 2 ^ n).
Proof.
  intros Hv. apply size_le_iff in Hv. rewrite <- size_le_iff, N.leb_le.
  unfold leading_zeros_256. lia.
Qed.

Definition int_magnitude (z : Z) : Z := if (z <? 0)%Z then (- z - 1)%Z else z.

(** [magnitude.leading_zeros() + n > 256]  iff  [-2^(n-1) <= value < 2^(n-1)] *)
Lemma int_check z n :
  1 <= n -> (- 2 ^ 255 <= z < 2 ^ 255)%Z ->
  ((256 <? leading_zeros_256 (Z.to_N (int_magnitude z)) + n) = true
   <-> (- 2 ^ Z.of_N (n - 1) <= z < 2 ^ Z.of_N (n - 1))%Z).
Proof.
  intros Hn Hz.
  set (m := int_magnitude z).
  assert (Hm : (0 <= m < 2 ^ 255)%Z).
  { unfold m, int_magnitude. destruct (Z.ltb_spec z 0); lia. }
  assert (HM : Z.to_N m < 2 ^ 255).
  { apply N2Z.inj_lt. rewrite N2Z.inj_pow, Z2N.id by lia. exact (proj2 Hm). }
  apply size_le_iff in HM.
  assert (Hiff : N.size (Z.to_N m) <= n - 1 <-> (m < 2 ^ Z.of_N (n - 1))%Z).
  { rewrite size_le_iff. rewrite N2Z.inj_lt, N2Z.inj_pow, Z2N.id by lia. reflexivity. }
  rewrite N.ltb_lt. unfold leading_zeros_256.
  assert (HP : (0 < 2 ^ Z.of_N (n - 1))%Z) by (apply Z.pow_pos_nonneg; lia).
  set (P := (2 ^ Z.of_N (n - 1))%Z) in *.
  assert (Hmz : (m < P <-> - P <= z < P)%Z).
  { unfold m, int_magnitude. destruct (Z.ltb_spec z 0); lia. }
  rewrite <- Hmz, <- Hiff. lia.
Qed.

(* ------------------------------------------------------------------ *)
(** * [Map::remove] *)

Lemma map_remove_obj_remove k d : map_remove k d = obj_remove k d.
Proof.
  induction d as [|[k' v] r IH]; [reflexivity|]. cbn. rewrite IH. reflexivity.
Qed.

Lemma map_remove_none k (d : list (text * json)) : map_remove k d = None <-> obj_get k d = None.
Proof.
  induction d as [|[k' v] r IH]; [cbn; tauto|]. cbn.
  destruct (list_eqb k k'); [split; discriminate|].
  destruct (map_remove k r) as [[x r']|]; [|tauto].
  split; [discriminate|]. intros H; apply IH in H; discriminate.
Qed.

Lemma map_remove_get k (d : list (text * json)) v d' :
  map_remove k d = Some (v, d') -> obj_get k d = Some v.
Proof.
  revert d'; induction d as [|[k' x] r IH]; intros d'; [discriminate|]. cbn.
  destruct (list_eqb k k'); [intros H; inversion H; reflexivity|].
  destruct (map_remove k r) as [[y r']|]; [|discriminate].
  intros H; inversion H; subst. eapply IH; reflexivity.
Qed.

Lemma map_remove_get_other k (d : list (text * json)) v d' :
  map_remove k d = Some (v, d') -> forall k', k' <> k -> obj_get k' d' = obj_get k' d.
Proof.
  revert d'; induction d as [|[k0 x] r IH]; intros d'; [discriminate|]. cbn.
  destruct (list_eqb k k0) eqn:E.
  - intros H k' Hk'; inversion H; subst. apply list_eqb_spec in E; subst.
    rewrite (list_eqb_false k' k0) by assumption. reflexivity.
  - destruct (map_remove k r) as [[y r']|]; [|discriminate].
    intros H k' Hk'; inversion H; subst. cbn.
    destruct (list_eqb k' k0); [reflexivity|]. eapply IH; [reflexivity|assumption].
Qed.

Lemma map_remove_in {V} k (d : list (text * V)) v d' :
  map_remove k d = Some (v, d') -> In (k, v) d /\ incl d' d.
Proof.
  revert d'; induction d as [|[k0 x] r IH]; intros d'; [discriminate|]. cbn.
  destruct (list_eqb k k0) eqn:E.
  - intros H; inversion H; subst. apply list_eqb_spec in E; subst.
    split; [left; reflexivity|apply incl_tl, incl_refl].
  - destruct (map_remove k r) as [[y r']|]; [|discriminate].
    intros H; inversion H; subst. destruct (IH r' eq_refl) as [H1 H2].
    split; [right; exact H1|]. intros p [<-|Hp]; [left; reflexivity|right; apply H2, Hp].
Qed.

Lemma map_remove_keys {V} k (d : list (text * V)) v d' :
  map_remove k d = Some (v, d') ->
  forall x, In x (map fst d) <-> x = k \/ In x (map fst d').
Proof.
  revert d'; induction d as [|[k0 y] r IH]; intros d'; [discriminate|]. cbn.
  destruct (list_eqb k k0) eqn:E.
  - intros H x; inversion H; subst. apply list_eqb_spec in E; subst. intuition.
  - destruct (map_remove k r) as [[z r']|]; [|discriminate].
    intros H x; inversion H; subst. cbn. specialize (IH r' eq_refl x). intuition.
Qed.

Lemma map_remove_nodup {V} k (d : list (text * V)) v d' :
  map_remove k d = Some (v, d') -> NoDup (map fst d) ->
  NoDup (map fst d') /\ ~ In k (map fst d').
Proof.
  revert d'; induction d as [|[k0 y] r IH]; intros d'; [discriminate|]. cbn.
  destruct (list_eqb k k0) eqn:E.
  - intros H Hnd; inversion H; subst. apply list_eqb_spec in E; subst.
    inversion Hnd; subst. split; assumption.
  - destruct (map_remove k r) as [[z r']|] eqn:Er; [|discriminate].
    intros H Hnd; inversion H; subst. inversion Hnd as [|? ? Hk0 Hr]; subst.
    destruct (IH r' eq_refl Hr) as [H1 H2]. cbn. split.
    + constructor; [|exact H1]. intros Hin. apply Hk0.
      apply (map_remove_keys _ _ _ _ Er). right; exact Hin.
    + intros [->|Hin]; [|exact (H2 Hin)].
      rewrite list_eqb_refl in E. discriminate.
Qed.

Lemma obj_get_in k (d : list (text * json)) v : obj_get k d = Some v -> In (k, v) d.
Proof.
  induction d as [|[k0 x] r IH]; [discriminate|]. cbn.
  destruct (list_eqb k k0) eqn:E.
  - intros H; inversion H; subst. apply list_eqb_spec in E; subst. left; reflexivity.
  - intros H; right; apply IH, H.
Qed.

Lemma obj_get_none k (d : list (text * json)) : obj_get k d = None <-> ~ In k (map fst d).
Proof.
  induction d as [|[k0 x] r IH]; [cbn; tauto|]. cbn.
  destruct (list_eqb k k0) eqn:E.
  - apply list_eqb_spec in E; subst. split; [discriminate|]. intros H; exfalso; apply H; left; reflexivity.
  - rewrite IH. split; [|tauto]. intros H [->|Hin]; [|tauto].
    rewrite list_eqb_refl in E; discriminate.
Qed.

Lemma in_obj_get k v (d : list (text * json)) : In (k, v) d -> obj_get k d <> None.
Proof.
  intros Hin H. apply obj_get_none in H. apply H. apply in_map_iff. exists (k, v); split; [reflexivity|exact Hin].
Qed.

Lemma obj_get_nodup k v (d : list (text * json)) :
  NoDup (map fst d) -> In (k, v) d -> obj_get k d = Some v.
Proof.
  induction d as [|[k0 x] r IH]; [contradiction|]. cbn. intros Hnd Hin.
  inversion Hnd as [|? ? Hk0 Hr]; subst.
  destruct Hin as [Heq|Hin].
  - inversion Heq; subst. rewrite list_eqb_refl. reflexivity.
  - destruct (list_eqb k k0) eqn:E; [|apply IH; assumption].
    apply list_eqb_spec in E; subst. exfalso; apply Hk0.
    apply in_map_iff. exists (k0, v); split; [reflexivity|exact Hin].
Qed.

Section Proofs.

Variable keccak : bytes -> bytes.
Variable type_hash : typesmap -> text -> outcome bytes.
Variable num_u256 : json -> outcome N.
Variable num_i256 : json -> outcome Z.
Variable bytes_of_json : json -> outcome bytes.
Variable address_of_json : json -> outcome bytes.

Notation encode_value := (encode_value keccak type_hash num_u256 num_i256 bytes_of_json address_of_json).
Notation struct_hash := (struct_hash keccak type_hash num_u256 num_i256 bytes_of_json address_of_json).
Notation compute := (compute keccak type_hash num_u256 num_i256 bytes_of_json address_of_json).
Notation compute_blob := (compute_blob keccak type_hash num_u256 num_i256 bytes_of_json address_of_json).
Notation enc_bytes := (enc_bytes keccak bytes_of_json).
Notation enc_uint := (enc_uint num_u256).
Notation enc_int := (enc_int num_i256).
Notation enc_address := (enc_address address_of_json).
Notation enc_string := (enc_string keccak).
Notation shw V enc := (@Eip712Values.struct_hash_with keccak type_hash V enc) (only parsing).

(* ------------------------------------------------------------------ *)
(** * the atomic arms (no hypotheses) *)

Lemma encode_value_atoms tys j :
  encode_value tys (KBytes None) j = enc_bytes None j /\
  (forall n, encode_value tys (KBytes (Some n)) j = enc_bytes (Some n) j) /\
  (forall n, encode_value tys (KUint n) j = enc_uint n j) /\
  (forall n, encode_value tys (KInt n) j = enc_int n j) /\
  encode_value tys KBool j = enc_bool j /\
  encode_value tys KAddress j = enc_address j /\
  encode_value tys KString j = enc_string j.
Proof. destruct j; repeat split. Qed.

Lemma enc_bytesN_ok n j w :
  enc_bytes (Some n) j = Ok w ->
  exists b, bytes_of_json j = Ok b /\ N.of_nat (length b) = n /\ n <= 32 /\
            w = b ++ repeat 0 (32 - N.to_nat n)%nat.
Proof.
  unfold Eip712Values.enc_bytes. intros H. apply bind_ok in H as (b & Hb & H).
  destruct (N.eqb_spec n (N.of_nat (length b))) as [Hn|]; [|discriminate].
  destruct (N.ltb_spec 32 n) as [|Hle]; [discriminate|].
  apply copy_at_inv in H as (_ & _ & ->). exists b. repeat split; auto.
  cbn [firstn app Nat.add]. rewrite skipn_repeat. reflexivity.
Qed.

Lemma enc_bytesN_complete n j b :
  bytes_of_json j = Ok b -> N.of_nat (length b) = n -> n <= 32 ->
  enc_bytes (Some n) j = Ok (b ++ repeat 0 (32 - N.to_nat n)%nat).
Proof.
  intros Hb Hn Hle. unfold Eip712Values.enc_bytes. rewrite Hb. cbn [bind].
  rewrite (proj2 (N.eqb_eq _ _) (eq_sym Hn)).
  destruct (N.ltb_spec 32 n); [lia|].
  rewrite copy_at_ok; [|rewrite repeat_length; lia|lia].
  cbn [firstn app Nat.add]. rewrite skipn_repeat. reflexivity.
Qed.

Lemma enc_bytesN_graceful n j : graceful (bytes_of_json j) -> graceful (enc_bytes (Some n) j).
Proof.
  intros Hg. unfold Eip712Values.enc_bytes. apply graceful_bind; [exact Hg|]. intros b _.
  destruct (N.eqb_spec n (N.of_nat (length b))) as [Hn|]; [|apply graceful_err].
  destruct (N.ltb_spec 32 n); [apply graceful_err|].
  rewrite copy_at_ok; [apply graceful_ok|rewrite repeat_length; lia|lia].
Qed.

Lemma enc_bytesN_reject n j b :
  bytes_of_json j = Ok b -> N.of_nat (length b) <> n -> enc_bytes (Some n) j = Err.
Proof.
  intros Hb Hn. unfold Eip712Values.enc_bytes. rewrite Hb. cbn [bind].
  destruct (N.eqb_spec n (N.of_nat (length b))); [congruence|reflexivity].
Qed.

Lemma enc_uint_ok n j w :
  (forall j v, num_u256 j = Ok v -> v < 2 ^ 256) ->
  enc_uint n j = Ok w -> exists v, num_u256 j = Ok v /\ v < 2 ^ n /\ w = be_fixed 32 v.
Proof.
  intros Hr H. unfold Eip712Values.enc_uint in H. apply bind_ok in H as (v & Hv & H).
  destruct (256 <=? leading_zeros_256 v + n) eqn:E; [|discriminate].
  inversion H; subst. exists v. repeat split; auto.
  apply uint_check; eauto.
Qed.

Lemma enc_uint_complete n j v :
  num_u256 j = Ok v -> v < 2 ^ 256 -> v < 2 ^ n -> enc_uint n j = Ok (be_fixed 32 v).
Proof.
  intros Hv H256 Hn. unfold Eip712Values.enc_uint. rewrite Hv. cbn [bind].
  rewrite (proj2 (uint_check v n H256) Hn). reflexivity.
Qed.

Lemma enc_uint_reject n j v :
  num_u256 j = Ok v -> v < 2 ^ 256 -> 2 ^ n <= v -> enc_uint n j = Err.
Proof.
  intros Hv H256 Hge. unfold Eip712Values.enc_uint. rewrite Hv. cbn [bind].
  destruct (256 <=? leading_zeros_256 v + n) eqn:E; [|reflexivity].
  apply (uint_check v n H256) in E. lia.
Qed.

Lemma enc_uint_graceful n j : graceful (num_u256 j) -> graceful (enc_uint n j).
Proof.
  intros Hg. apply graceful_bind; [exact Hg|]. intros v _.
  cbv beta. destruct (N.leb _ _); [apply graceful_ok|apply graceful_err].
Qed.

Lemma enc_int_ok n j w :
  (forall j z, num_i256 j = Ok z -> (- 2 ^ 255 <= z < 2 ^ 255)%Z) -> 1 <= n ->
  enc_int n j = Ok w ->
  exists z, num_i256 j = Ok z /\ (- 2 ^ Z.of_N (n - 1) <= z < 2 ^ Z.of_N (n - 1))%Z /\
            w = be_fixed 32 (Z.to_N (z mod 2 ^ 256)).
Proof.
  intros Hr Hn H. unfold Eip712Values.enc_int in H. apply bind_ok in H as (z & Hz & H).
  fold (int_magnitude z) in H.
  destruct (256 <? leading_zeros_256 (Z.to_N (int_magnitude z)) + n) eqn:E; [|discriminate].
  inversion H; subst. exists z. repeat split; auto; apply (int_check z n Hn (Hr _ _ Hz)); exact E.
Qed.

Lemma enc_int_complete n j z :
  num_i256 j = Ok z -> (- 2 ^ 255 <= z < 2 ^ 255)%Z -> 1 <= n ->
  (- 2 ^ Z.of_N (n - 1) <= z < 2 ^ Z.of_N (n - 1))%Z ->
  enc_int n j = Ok (be_fixed 32 (Z.to_N (z mod 2 ^ 256))).
Proof.
  intros Hz Hr Hn Hb. unfold Eip712Values.enc_int. rewrite Hz. cbn [bind].
  fold (int_magnitude z). rewrite (proj2 (int_check z n Hn Hr) Hb). reflexivity.
Qed.

Lemma enc_int_reject n j z :
  (forall j z, num_i256 j = Ok z -> (- 2 ^ 255 <= z < 2 ^ 255)%Z) -> 1 <= n ->
  num_i256 j = Ok z -> (z < - 2 ^ Z.of_N (n - 1) \/ 2 ^ Z.of_N (n - 1) <= z)%Z ->
  enc_int n j = Err.
Proof.
  intros Hr Hn Hz Hout. unfold Eip712Values.enc_int. rewrite Hz. cbn [bind].
  fold (int_magnitude z).
  destruct (256 <? leading_zeros_256 (Z.to_N (int_magnitude z)) + n) eqn:E; [|reflexivity].
  apply (int_check z n Hn (Hr _ _ Hz)) in E. lia.
Qed.

Lemma enc_int_graceful n j : graceful (num_i256 j) -> graceful (enc_int n j).
Proof.
  intros Hg. apply graceful_bind; [exact Hg|]. intros v _.
  cbv beta zeta. destruct (N.ltb _ _); [apply graceful_ok|apply graceful_err].
Qed.

Lemma enc_bool_ok j w : enc_bool j = Ok w -> exists b, j = JBool b /\ w = be_fixed 32 (if b then 1 else 0).
Proof. destruct j as [|[|]| | | | | |]; cbn; intros H; inversion H; eauto. Qed.

Lemma enc_string_ok j w : enc_string j = Ok w -> exists s, j = JStr s /\ w = keccak (utf8 s).
Proof. destruct j; cbn; intros H; inversion H; eauto. Qed.

Lemma enc_address_ok j w :
  enc_address j = Ok w -> exists a, address_of_json j = Ok a /\ length a = 20%nat /\ w = repeat 0 12%nat ++ a.
Proof.
  unfold Eip712Values.enc_address. intros H. apply bind_ok in H as (a & Ha & H).
  apply copy_at_inv in H as (_ & Hl & ->). exists a. repeat split; auto.
  rewrite skipn_repeat. cbn [Nat.add Nat.sub repeat firstn]. rewrite app_nil_r. reflexivity.
Qed.

Lemma enc_address_complete j a :
  address_of_json j = Ok a -> length a = 20%nat -> enc_address j = Ok (repeat 0 12%nat ++ a).
Proof.
  intros Ha Hl. unfold Eip712Values.enc_address. rewrite Ha. cbn [bind].
  rewrite copy_at_ok; [|rewrite repeat_length; lia|exact Hl].
  rewrite skipn_repeat. cbn [Nat.add Nat.sub repeat firstn]. rewrite app_nil_r. reflexivity.
Qed.

(* ------------------------------------------------------------------ *)
(** * the buffer loops *)

Lemma fill_words_map {A} (f : A -> outcome bytes) l : forall i buffer,
  (forall x w, In x l -> f x = Ok w -> length w = 32%nat) ->
  length buffer = (32 * (i + length l))%nat ->
  fill_words (map f l) i buffer =
  omap (fun ws => firstn (32 * i) buffer ++ concat ws) (omapM f l).
Proof.
  induction l as [|x r IH]; intros i buffer Hlen Hb.
  - cbn. rewrite app_nil_r, firstn_all2; [reflexivity|]. cbn [length] in Hb. lia.
  - cbn [map fill_words omapM]. destruct (f x) as [w| | |] eqn:Hx; try reflexivity.
    cbn [bind]. assert (Hw : length w = 32%nat) by (eapply Hlen; [left; reflexivity|exact Hx]).
    cbn [length] in Hb.
    rewrite copy_at_ok by lia. cbn [bind].
    rewrite IH.
    + destruct (omapM f r) as [ws| | |]; try reflexivity. cbn [omap bind concat]. f_equal.
      rewrite firstn_slot by lia. rewrite <- app_assoc. f_equal. f_equal. lia.
    + intros y v Hy. apply Hlen. right; exact Hy.
    + rewrite !app_length, firstn_length, skipn_length. lia.
Qed.

(** the member loop without the buffer: the words in member order and the remaining map *)
Fixpoint members_words {V} (enc : kind -> V -> outcome bytes) (ms : list member) (data : list (text * V))
  : outcome (list bytes * list (text * V)) :=
  match ms with
  | [] => Ok ([], data)
  | m :: r =>
      match map_remove (m_name m) data with
      | None => Err
      | Some (v, data') =>
          let* w := enc (m_kind m) v in
          let* p := members_words enc r data' in
          Ok (w :: fst p, snd p)
      end
  end.

Lemma members_loop_spec {V} (enc : kind -> V -> outcome bytes) ms :
  (forall k v w, enc k v = Ok w -> length w = 32%nat) ->
  forall i buffer data,
  length buffer = (32 * (1 + i + length ms))%nat ->
  members_loop enc ms i buffer data =
  omap (fun p => (firstn (32 * (1 + i)) buffer ++ concat (fst p), snd p)) (members_words enc ms data).
Proof.
  intros Henc. induction ms as [|m r IH]; intros i buffer data Hb.
  - cbn. rewrite app_nil_r, firstn_all2; [reflexivity|]. cbn [length] in Hb. lia.
  - cbn [members_loop members_words]. destruct (map_remove (m_name m) data) as [[v d']|]; [|reflexivity].
    destruct (enc (m_kind m) v) as [w| | |] eqn:Hv; try reflexivity.
    cbn [bind]. assert (Hw : length w = 32%nat) by (eapply Henc; exact Hv).
    cbn [length] in Hb. rewrite copy_at_ok by lia. cbn [bind].
    rewrite IH.
    + destruct (members_words enc r d') as [[ws rest]| | |]; try reflexivity.
      cbn [omap bind concat fst snd]. f_equal. f_equal.
      rewrite firstn_slot by lia. rewrite <- app_assoc. f_equal. f_equal. lia.
    + rewrite !app_length, firstn_length, skipn_length. lia.
Qed.

Lemma members_words_graceful {V} (enc : kind -> V -> outcome bytes) ms : forall data,
  (forall k key v, In (key, v) data -> graceful (enc k v)) ->
  graceful (members_words enc ms data).
Proof.
  induction ms as [|m r IH]; intros data Hg; [apply graceful_ok|].
  cbn [members_words]. destruct (map_remove (m_name m) data) as [[v d']|] eqn:Er; [|apply graceful_err].
  apply map_remove_in in Er as [Hin Hincl].
  apply graceful_bind; [eapply Hg; exact Hin|]. intros w _.
  apply graceful_bind; [|intros; apply graceful_ok].
  apply IH. intros k key x Hx. eapply Hg. apply Hincl. exact Hx.
Qed.

(** values handed over through a map [f] *)
Definition mapv {V W} (f : V -> W) (d : list (text * V)) : list (text * W) :=
  map (fun kv => (fst kv, f (snd kv))) d.

Lemma map_remove_mapv {V W} (f : V -> W) k d :
  map_remove k (mapv f d) =
  match map_remove k d with Some (v, d') => Some (f v, mapv f d') | None => None end.
Proof.
  induction d as [|[k0 x] r IH]; [reflexivity|]. cbn.
  destruct (list_eqb k k0); [reflexivity|].
  unfold mapv in IH. rewrite IH. destruct (map_remove k r) as [[y r']|]; reflexivity.
Qed.

Lemma members_loop_mapv {V W} (f : V -> W) (enc : kind -> W -> outcome bytes) ms : forall i buffer d,
  members_loop enc ms i buffer (mapv f d) =
  omap (fun p => (fst p, mapv f (snd p))) (members_loop (fun k v => enc k (f v)) ms i buffer d).
Proof.
  induction ms as [|m r IH]; intros i buffer d; [reflexivity|].
  cbn [members_loop]. rewrite map_remove_mapv.
  destruct (map_remove (m_name m) d) as [[v d']|]; [|reflexivity].
  destruct (enc (m_kind m) (f v)); try reflexivity. cbn [bind].
  destruct (copy_at buffer ((i + 1) * 32) 32 a); try reflexivity. cbn [bind].
  apply IH.
Qed.

Lemma struct_hash_with_mapv {V W} (f : V -> W) (enc : kind -> W -> outcome bytes) tys name d :
  shw W enc tys name (mapv f d) =
  shw V (fun k v => enc k (f v)) tys name d.
Proof.
  unfold Eip712Values.struct_hash_with. destruct (types_get name tys) as [ms|]; [|reflexivity].
  destruct (type_hash tys name); try reflexivity. cbn [bind].
  destruct (copy_at _ 0 32 a); try reflexivity. cbn [bind].
  rewrite members_loop_mapv.
  destruct (members_loop _ ms 0 a0 d) as [[b rest]| | |]; try reflexivity. cbn.
  destruct rest; reflexivity.
Qed.

(** the code's mutual recursion: the struct arm of [encode_value] is [struct_hash] *)
Lemma encode_value_struct tys name kvs :
  encode_value tys (KStruct name) (JObj kvs) = struct_hash tys name kvs.
Proof.
  unfold Eip712Values.encode_value, Eip712Values.struct_hash. cbn [encode_value_rec].
  exact (struct_hash_with_mapv (encode_value_rec keccak type_hash num_u256 num_i256 bytes_of_json
           address_of_json tys) (fun k f => f k) tys name kvs).
Qed.

Lemma encode_value_struct_kind tys name j :
  (forall kvs, j <> JObj kvs) -> encode_value tys (KStruct name) j = Err.
Proof. destruct j; intros H; try reflexivity. exfalso; eapply H; reflexivity. Qed.

Lemma encode_value_array_kind tys k s j :
  (forall l, j <> JArr l) -> encode_value tys (KArray k s) j = Err.
Proof. destruct j; intros H; try reflexivity. exfalso; eapply H; reflexivity. Qed.

Definition size_ok (size : option N) (l : list json) : bool :=
  match size with Some size => N.of_nat (length l) =? size | None => true end.

Lemma encode_value_array_raw tys k s l :
  encode_value tys (KArray k s) (JArr l) =
  if size_ok s l then
    let* buffer := fill_words (map (encode_value tys k) l) 0 (repeat 0 (32 * length l)%nat) in
    Ok (keccak buffer)
  else Err.
Proof. reflexivity. Qed.

(* ------------------------------------------------------------------ *)
(** * hypotheses about the primitives *)

Hypothesis keccak_length : forall m, length (keccak m) = 32%nat.
Hypothesis type_hash_length : forall tys T h, type_hash tys T = Ok h -> length h = 32%nat.
Hypothesis address_len : forall j a, address_of_json j = Ok a -> length a = 20%nat.

Lemma struct_hash_with_keccak {V} (enc : kind -> V -> outcome bytes) tys name d w :
  shw V enc tys name d = Ok w -> exists b, w = keccak b.
Proof.
  unfold Eip712Values.struct_hash_with. destruct (types_get name tys); [|discriminate].
  intros H. apply bind_ok in H as (th & _ & H). apply bind_ok in H as (b & _ & H).
  apply bind_ok in H as ([b' rest] & _ & H). destruct rest; [|discriminate].
  inversion H. eauto.
Qed.

(** every word is 32 bytes long *)
Lemma encode_value_length tys k j w : encode_value tys k j = Ok w -> length w = 32%nat.
Proof.
  destruct (encode_value_atoms tys j) as (Hb & HbN & Hu & Hi & Hbo & Ha & Hs).
  destruct k as [[n|]|n|n| | | |name|inner size].
  - rewrite HbN. intros H. apply enc_bytesN_ok in H as (b & _ & Hl & Hle & ->).
    rewrite app_length, repeat_length. lia.
  - rewrite Hb. unfold Eip712Values.enc_bytes. intros H. apply bind_ok in H as (b & _ & H).
    inversion H. apply keccak_length.
  - rewrite Hu. unfold Eip712Values.enc_uint. intros H. apply bind_ok in H as (v & _ & H).
    destruct (_ <=? _); inversion H. apply be_fixed_length.
  - rewrite Hi. unfold Eip712Values.enc_int. intros H. apply bind_ok in H as (v & _ & H).
    destruct (_ <? _); inversion H. apply be_fixed_length.
  - rewrite Hbo. intros H. apply enc_bool_ok in H as (b & _ & ->). apply be_fixed_length.
  - rewrite Ha. intros H. apply enc_address_ok in H as (a & _ & Hl & ->).
    rewrite app_length, repeat_length. lia.
  - rewrite Hs. intros H. apply enc_string_ok in H as (s & _ & ->). apply keccak_length.
  - destruct j; try discriminate. unfold Eip712Values.encode_value. cbn [encode_value_rec].
    intros H. apply struct_hash_with_keccak in H as (b & ->). apply keccak_length.
  - destruct j; try discriminate. rewrite encode_value_array_raw.
    destruct (size_ok size l); [|discriminate]. intros H. apply bind_ok in H as (b & _ & H).
    inversion H. apply keccak_length.
Qed.

(** arrays: the hash of the concatenated element words *)
Lemma encode_value_array tys k s l :
  encode_value tys (KArray k s) (JArr l) =
  if size_ok s l then omap (fun ws => keccak (concat ws)) (omapM (encode_value tys k) l) else Err.
Proof.
  rewrite encode_value_array_raw. destruct (size_ok s l); [|reflexivity].
  rewrite fill_words_map.
  - destruct (omapM (encode_value tys k) l); reflexivity.
  - intros x w _. apply encode_value_length.
  - rewrite repeat_length. lia.
Qed.

(** structs: typeHash, then the member words in declaration order, nothing left over *)
Lemma struct_hash_with_eq {V} (enc : kind -> V -> outcome bytes) tys name data :
  (forall k v w, enc k v = Ok w -> length w = 32%nat) ->
  shw V enc tys name data =
  match types_get name tys with
  | None => Err
  | Some ms =>
      let* th := type_hash tys name in
      let* p := members_words enc ms data in
      match snd p with
      | [] => Ok (keccak (th ++ concat (fst p)))
      | _ :: _ => Err
      end
  end.
Proof.
  intros Henc. unfold Eip712Values.struct_hash_with.
  destruct (types_get name tys) as [ms|]; [|reflexivity].
  destruct (type_hash tys name) as [th| | |] eqn:Hth; try reflexivity. cbn [bind].
  assert (Hl : length th = 32%nat) by (eapply type_hash_length; exact Hth).
  rewrite copy_at_ok; [|rewrite repeat_length; lia|exact Hl]. cbn [bind firstn app Nat.add].
  rewrite members_loop_spec; [|exact Henc|].
  2:{ rewrite app_length, skipn_length, repeat_length. lia. }
  destruct (members_words enc ms data) as [[ws rest]| | |]; try reflexivity.
  cbn [omap bind fst snd]. rewrite firstn_exact by (rewrite Hl; reflexivity).
  reflexivity.
Qed.

Lemma struct_hash_eq tys name obj :
  struct_hash tys name obj =
  match types_get name tys with
  | None => Err
  | Some ms =>
      let* th := type_hash tys name in
      let* p := members_words (encode_value tys) ms obj in
      match snd p with
      | [] => Ok (keccak (th ++ concat (fst p)))
      | _ :: _ => Err
      end
  end.
Proof. apply struct_hash_with_eq. intros k v w. apply encode_value_length. Qed.


Lemma struct_hash_ok_inv tys name obj w :
  struct_hash tys name obj = Ok w ->
  exists ms th ws, types_get name tys = Some ms /\ type_hash tys name = Ok th /\
    members_words (encode_value tys) ms obj = Ok (ws, []) /\ w = keccak (th ++ concat ws).
Proof.
  rewrite struct_hash_eq. destruct (types_get name tys) as [ms|]; [|discriminate].
  intros H. apply bind_ok in H as (th & Hth & H). apply bind_ok in H as ([ws rest] & Hm & H).
  cbn [fst snd] in H. destruct rest; [|discriminate]. inversion H. exists ms, th, ws. auto.
Qed.

Lemma struct_hash_length tys name obj w : struct_hash tys name obj = Ok w -> length w = 32%nat.
Proof. intros H. apply struct_hash_with_keccak in H as (b & ->). apply keccak_length. Qed.

Lemma compute_blob_ok b d ds mh :
  compute_blob b = Ok (d, ds, mh) ->
  verify_domain_type (b_types b) = Ok tt /\
  struct_hash (b_types b) (s2l "EIP712Domain") (b_domain b) = Ok ds /\
  struct_hash (b_types b) (b_primary b) (b_message b) = Ok mh /\
  d = keccak ([0x19; 0x01] ++ ds ++ mh).
Proof.
  unfold Eip712Values.compute_blob. intros H.
  apply bind_ok in H as ([] & Hv & H). apply bind_ok in H as (ds' & Hds & H).
  apply bind_ok in H as (mh' & Hmh & H).
  pose proof (struct_hash_length _ _ _ _ Hds) as Lds.
  pose proof (struct_hash_length _ _ _ _ Hmh) as Lmh.
  apply bind_ok in H as (b1 & H1 & H). apply bind_ok in H as (b2 & H2 & H).
  apply bind_ok in H as (b3 & H3 & H). inversion H; subst ds' mh' d. clear H.
  repeat split; auto. f_equal.
  apply copy_at_inv in H1 as (_ & _ & E1).
  assert (E1' : b1 = [0x19; 0x01] ++ repeat 0 64%nat) by (rewrite E1; reflexivity).
  clear E1; subst b1.
  apply copy_at_inv in H2 as (_ & _ & E2).
  assert (E2' : b2 = ([0x19; 0x01] ++ ds) ++ repeat 0 32%nat) by (rewrite E2; reflexivity).
  clear E2; subst b2.
  apply copy_at_inv in H3 as (_ & _ & ->).
  rewrite firstn_exact by (rewrite app_length; cbn [length]; lia).
  rewrite skipn_all2 by (rewrite !app_length, repeat_length; cbn [length]; lia).
  rewrite app_nil_r, <- app_assoc. reflexivity.
Qed.

Lemma compute_ok j d ds mh :
  compute j = Ok (d, ds, mh) ->
  exists b, blob_of_json j = Ok b /\
    verify_domain_type (b_types b) = Ok tt /\
    struct_hash (b_types b) (s2l "EIP712Domain") (b_domain b) = Ok ds /\
    struct_hash (b_types b) (b_primary b) (b_message b) = Ok mh /\
    d = keccak ([0x19; 0x01] ++ ds ++ mh).
Proof.
  intros H. apply bind_ok in H as (b & Hb & H). exists b. split; [exact Hb|].
  apply compute_blob_ok. exact H.
Qed.

(* ------------------------------------------------------------------ *)
(** * what an accepted member list looks like *)

Lemma Forall2_in_l {A B} (R : A -> B -> Prop) l l' x :
  Forall2 R l l' -> In x l -> exists y, In y l' /\ R x y.
Proof.
  induction 1 as [|a b l l' Hab _ IH]; intros Hin; [contradiction|].
  destruct Hin as [->|Hin]; [exists b; split; [left; reflexivity|exact Hab]|].
  destruct (IH Hin) as (y & Hy & Hr). exists y; split; [right; exact Hy|exact Hr].
Qed.

Lemma Forall2_impl_in_l {A B} (R1 R2 : A -> B -> Prop) l l' :
  (forall a b, In a l -> R1 a b -> R2 a b) -> Forall2 R1 l l' -> Forall2 R2 l l'.
Proof.
  intros H F. induction F as [|a b l l' Hab _ IH]; constructor.
  - apply H; [left; reflexivity|exact Hab].
  - apply IH. intros x y Hx. apply H. right; exact Hx.
Qed.

Lemma members_words_found {V} (enc : kind -> V -> outcome bytes) ms : forall data ws rest,
  members_words enc ms data = Ok (ws, rest) ->
  forall m, In m ms -> exists v, In (m_name m, v) data.
Proof.
  induction ms as [|m0 r IH]; intros data ws rest H m Hin; [contradiction|].
  cbn [members_words] in H.
  destruct (map_remove (m_name m0) data) as [[v d']|] eqn:Er; [|discriminate].
  apply bind_ok in H as (w & Hw & H). apply bind_ok in H as ([ws' rest'] & Hr & H).
  apply map_remove_in in Er as [Hi Hincl].
  destruct Hin as [->|Hin]; [eauto|].
  destruct (IH _ _ _ Hr _ Hin) as (v' & Hv'). exists v'. apply Hincl, Hv'.
Qed.

Lemma members_words_no_extra {V} (enc : kind -> V -> outcome bytes) ms : forall data ws,
  members_words enc ms data = Ok (ws, []) ->
  forall key, In key (map fst data) -> In key (map m_name ms).
Proof.
  induction ms as [|m0 r IH]; intros data ws H key Hin.
  - cbn in H. inversion H; subst. contradiction.
  - cbn [members_words] in H.
    destruct (map_remove (m_name m0) data) as [[v d']|] eqn:Er; [|discriminate].
    apply bind_ok in H as (w & Hw & H). apply bind_ok in H as ([ws' rest'] & Hr & H).
    cbn [fst snd] in H. inversion H; subst.
    apply (map_remove_keys _ _ _ _ Er) in Hin. cbn [map].
    destruct Hin as [->|Hin]; [left; reflexivity|right; eapply IH; eassumption].
Qed.

Definition member_word (enc : kind -> json -> outcome bytes) (data : list (text * json))
  (m : member) (w : bytes) : Prop :=
  exists v, obj_get (m_name m) data = Some v /\ enc (m_kind m) v = Ok w.

Lemma members_words_sound (enc : kind -> json -> outcome bytes) ms : forall data ws rest,
  NoDup (map fst data) -> members_words enc ms data = Ok (ws, rest) ->
  NoDup (map m_name ms) /\ Forall2 (member_word enc data) ms ws.
Proof.
  induction ms as [|m0 r IH]; intros data ws rest Hnd H.
  - cbn in H. inversion H; subst. split; constructor.
  - cbn [members_words] in H.
    destruct (map_remove (m_name m0) data) as [[v d']|] eqn:Er; [|discriminate].
    apply bind_ok in H as (w & Hw & H). apply bind_ok in H as ([ws' rest'] & Hr & H).
    cbn [fst snd] in H. inversion H; subst.
    destruct (map_remove_nodup _ _ _ _ Er Hnd) as [Hnd' Hnot].
    destruct (IH _ _ _ Hnd' Hr) as [NDr F2r].
    assert (Hother : forall m w, member_word enc d' m w -> member_word enc data m w).
    { intros m w' (x & Hx & Hxw). exists x. split; [|exact Hxw].
      rewrite <- (map_remove_get_other _ _ _ _ Er); [exact Hx|].
      intros Heq. apply Hnot. rewrite <- Heq.
      apply obj_get_in in Hx. apply in_map_iff. exists (m_name m, x). split; [reflexivity|exact Hx]. }
    split.
    + cbn [map]. constructor; [|exact NDr]. intros Hin. apply in_map_iff in Hin as (m' & Hm' & Hin).
      destruct (Forall2_in_l _ _ _ _ F2r Hin) as (w' & _ & (x & Hx & _)).
      apply Hnot. rewrite <- Hm'. apply obj_get_in in Hx.
      apply in_map_iff. exists (m_name m', x). split; [reflexivity|exact Hx].
    + constructor.
      * exists v. split; [eapply map_remove_get; exact Er|exact Hw].
      * eapply Forall2_impl_in_l; [|exact F2r]. intros a b _. apply Hother.
Qed.

Lemma members_words_complete (enc : kind -> json -> outcome bytes) ms : forall data ws,
  NoDup (map fst data) -> NoDup (map m_name ms) ->
  Forall2 (member_word enc data) ms ws ->
  (forall key, In key (map fst data) -> In key (map m_name ms)) ->
  members_words enc ms data = Ok (ws, []).
Proof.
  induction ms as [|m0 r IH]; intros data ws Hnd Hnm F2 Hkeys.
  - inversion F2; subst. destruct data as [|[k v] d]; [reflexivity|].
    exfalso. apply (Hkeys k). left; reflexivity.
  - inversion F2 as [|? w ? ws' (v & Hv & Hw) F2r]; subst.
    cbn [members_words].
    destruct (map_remove (m_name m0) data) as [[v' d']|] eqn:Er.
    2:{ apply map_remove_none in Er. congruence. }
    pose proof (map_remove_get _ _ _ _ Er) as Hv'. rewrite Hv in Hv'. inversion Hv'; subst v'.
    rewrite Hw. cbn [bind].
    destruct (map_remove_nodup _ _ _ _ Er Hnd) as [Hnd' Hnot].
    cbn [map] in Hnm. inversion Hnm as [|? ? Hn0 Hnr]; subst.
    rewrite (IH d' ws'); [reflexivity|exact Hnd'|exact Hnr| |].
    + eapply Forall2_impl_in_l; [|exact F2r]. intros m w' Hin (x & Hx & Hxw).
      exists x. split; [|exact Hxw].
      rewrite (map_remove_get_other _ _ _ _ Er); [exact Hx|].
      intros Heq. apply Hn0. rewrite <- Heq. apply in_map. exact Hin.
    + intros key Hin. assert (Hd : In key (map fst data)).
      { apply (map_remove_keys _ _ _ _ Er). right; exact Hin. }
      apply Hkeys in Hd. cbn [map] in Hd. destruct Hd as [<-|Hd]; [contradiction|exact Hd].
Qed.

(* ------------------------------------------------------------------ *)
(** * induction on JSON values *)

Lemma json_ind' (P : json -> Prop) :
  P JNull -> (forall b, P (JBool b)) -> (forall n, P (JU64 n)) -> (forall z, P (JI64 z)) ->
  (forall m e, P (JF64 m e)) -> (forall s, P (JStr s)) ->
  (forall l, Forall P l -> P (JArr l)) ->
  (forall kvs, Forall (fun kv => P (snd kv)) kvs -> P (JObj kvs)) ->
  forall j, P j.
Proof.
  intros H0 H1 H2 H3 H4 H5 H6 H7. fix IH 1. intros [ |b|n|z|m e|s|l|kvs].
  - exact H0.
  - apply H1.
  - apply H2.
  - apply H3.
  - apply H4.
  - apply H5.
  - apply H6. induction l as [|x r IHl]; constructor; [apply IH|exact IHl].
  - apply H7. induction kvs as [|kv r IHl]; constructor; [apply IH|exact IHl].
Qed.

(* ------------------------------------------------------------------ *)
(** * totality *)

Hypothesis type_hash_graceful : forall tys T, graceful (type_hash tys T).
Hypothesis num_u256_graceful : forall j, graceful (num_u256 j).
Hypothesis num_i256_graceful : forall j, graceful (num_i256 j).
Hypothesis bytes_graceful : forall j, graceful (bytes_of_json j).
Hypothesis address_graceful : forall j, graceful (address_of_json j).

Lemma encode_value_graceful_atoms tys j :
  (forall n, graceful (encode_value tys (KBytes n) j)) /\
  (forall n, graceful (encode_value tys (KUint n) j)) /\
  (forall n, graceful (encode_value tys (KInt n) j)) /\
  graceful (encode_value tys KBool j) /\
  graceful (encode_value tys KAddress j) /\
  graceful (encode_value tys KString j).
Proof.
  destruct (encode_value_atoms tys j) as (Hb & HbN & Hu & Hi & Hbo & Ha & Hs).
  refine (conj _ (conj _ (conj _ (conj _ (conj _ _))))).
  - intros [n|]; [rewrite HbN; apply enc_bytesN_graceful, bytes_graceful|].
    rewrite Hb. apply graceful_bind; [apply bytes_graceful|]. intros; apply graceful_ok.
  - intros n. rewrite Hu. apply enc_uint_graceful, num_u256_graceful.
  - intros n. rewrite Hi. apply enc_int_graceful, num_i256_graceful.
  - rewrite Hbo. destruct j as [|[|]| | | | | |]; split; discriminate.
  - rewrite Ha. apply graceful_bind; [apply address_graceful|]. intros a Ha'.
    rewrite copy_at_ok; [apply graceful_ok|rewrite repeat_length; lia|eapply address_len; exact Ha'].
  - rewrite Hs. destruct j; split; discriminate.
Qed.

Lemma struct_hash_graceful_with tys name obj :
  (forall k key v, In (key, v) obj -> graceful (encode_value tys k v)) ->
  graceful (struct_hash tys name obj).
Proof.
  intros Hg. rewrite struct_hash_eq. destruct (types_get name tys) as [ms|]; [|apply graceful_err].
  apply graceful_bind; [apply type_hash_graceful|]. intros th _.
  apply graceful_bind; [apply members_words_graceful; exact Hg|]. intros [ws rest] _.
  cbn [snd]. destruct rest; [apply graceful_ok|apply graceful_err].
Qed.

Lemma encode_value_graceful tys j : forall k, graceful (encode_value tys k j).
Proof.
  induction j as [ |b|n|z|m e|s|l IHl|kvs IHk] using json_ind'; intros k.
  all: match goal with |- graceful (Eip712Values.encode_value _ _ _ _ _ _ _ _ ?J) =>
         destruct (encode_value_graceful_atoms tys J) as (Gb & Gu & Gi & Gbo & Ga & Gs) end.
  all: destruct k as [nn|nn|nn| | | |name|inner size];
    try apply Gb; try apply Gu; try apply Gi; try exact Gbo; try exact Ga; try exact Gs;
    try apply graceful_err.
  - (* array of array kind *)
    rewrite encode_value_array. destruct (size_ok size l); [|apply graceful_err].
    apply graceful_omap. apply omapM_graceful. intros x Hx.
    rewrite Forall_forall in IHl. apply IHl. exact Hx.
  - (* object of struct kind *)
    rewrite encode_value_struct. apply struct_hash_graceful_with.
    intros k key v Hin. rewrite Forall_forall in IHk. apply (IHk (key, v) Hin).
Qed.

Lemma struct_hash_graceful tys name obj : graceful (struct_hash tys name obj).
Proof. apply struct_hash_graceful_with. intros; apply encode_value_graceful. Qed.

(* ------------------------------------------------------------------ *)
(** * rejection (C09) *)

Lemma struct_hash_undefined tys name obj : types_get name tys = None -> struct_hash tys name obj = Err.
Proof.
  intros H. unfold Eip712Values.struct_hash, Eip712Values.struct_hash_with. rewrite H. reflexivity.
Qed.

Lemma struct_hash_unresolved tys name obj : type_hash tys name = Err -> struct_hash tys name obj = Err.
Proof.
  intros H. unfold Eip712Values.struct_hash, Eip712Values.struct_hash_with.
  destruct (types_get name tys); [|reflexivity]. rewrite H. reflexivity.
Qed.

Lemma struct_hash_missing tys name ms obj m :
  types_get name tys = Some ms -> In m ms -> obj_get (m_name m) obj = None ->
  struct_hash tys name obj = Err.
Proof.
  intros Ht Hin Hnone. apply graceful_not_ok_err; [apply struct_hash_graceful|].
  intros w H. apply struct_hash_ok_inv in H as (ms' & th & ws & Ht' & _ & Hm & _).
  rewrite Ht in Ht'. inversion Ht'; subst ms'.
  destruct (members_words_found _ _ _ _ _ Hm _ Hin) as (v & Hv).
  exact (in_obj_get _ _ _ Hv Hnone).
Qed.

Lemma struct_hash_extra tys name ms obj key :
  types_get name tys = Some ms -> In key (map fst obj) -> ~ In key (map m_name ms) ->
  struct_hash tys name obj = Err.
Proof.
  intros Ht Hin Hnot. apply graceful_not_ok_err; [apply struct_hash_graceful|].
  intros w H. apply struct_hash_ok_inv in H as (ms' & th & ws & Ht' & _ & Hm & _).
  rewrite Ht in Ht'. inversion Ht'; subst ms'.
  apply Hnot. eapply members_words_no_extra; eassumption.
Qed.

Lemma struct_hash_member_err tys name ms obj m x :
  NoDup (map fst obj) -> types_get name tys = Some ms -> In m ms ->
  obj_get (m_name m) obj = Some x -> encode_value tys (m_kind m) x = Err ->
  struct_hash tys name obj = Err.
Proof.
  intros Hnd Ht Hin Hx Herr. apply graceful_not_ok_err; [apply struct_hash_graceful|].
  intros w H. apply struct_hash_ok_inv in H as (ms' & th & ws & Ht' & _ & Hm & _).
  rewrite Ht in Ht'. inversion Ht'; subst ms'.
  destruct (members_words_sound _ _ _ _ _ Hnd Hm) as [_ F2].
  destruct (Forall2_in_l _ _ _ _ F2 Hin) as (w' & _ & (v & Hv & Hw)).
  rewrite Hx in Hv. inversion Hv; subst. congruence.
Qed.

Lemma array_element_err tys k s l x :
  In x l -> encode_value tys k x = Err -> encode_value tys (KArray k s) (JArr l) = Err.
Proof.
  intros Hin Herr. apply graceful_not_ok_err; [apply encode_value_graceful|].
  intros w. rewrite encode_value_array. destruct (size_ok s l); [|discriminate].
  intros H. apply omap_ok in H as (ws & Hws & _).
  eapply omapM_in_err; [exact Hin| |exact Hws]. intros a Ha. congruence.
Qed.

Lemma array_size_ok tys k n l w :
  encode_value tys (KArray k (Some n)) (JArr l) = Ok w -> N.of_nat (length l) = n.
Proof.
  rewrite encode_value_array_raw. unfold size_ok.
  destruct (N.eqb_spec (N.of_nat (length l)) n); [auto|discriminate].
Qed.

Lemma array_size_reject tys k n l :
  N.of_nat (length l) <> n -> encode_value tys (KArray k (Some n)) (JArr l) = Err.
Proof.
  intros H. rewrite encode_value_array_raw. unfold size_ok.
  destruct (N.eqb_spec (N.of_nat (length l)) n); [contradiction|reflexivity].
Qed.

Lemma wrong_kind tys j :
  ((forall b, j <> JBool b) -> encode_value tys KBool j = Err) /\
  ((forall s, j <> JStr s) -> encode_value tys KString j = Err) /\
  (forall name, (forall kvs, j <> JObj kvs) -> encode_value tys (KStruct name) j = Err) /\
  (forall k s, (forall l, j <> JArr l) -> encode_value tys (KArray k s) j = Err) /\
  (forall n, num_u256 j = Err -> encode_value tys (KUint n) j = Err) /\
  (forall n, num_i256 j = Err -> encode_value tys (KInt n) j = Err) /\
  (forall n, bytes_of_json j = Err -> encode_value tys (KBytes n) j = Err) /\
  (address_of_json j = Err -> encode_value tys KAddress j = Err).
Proof.
  destruct (encode_value_atoms tys j) as (Hb & HbN & Hu & Hi & Hbo & Ha & Hs).
  repeat split.
  - intros H. destruct j; try reflexivity. exfalso; eapply H; reflexivity.
  - intros H. destruct j; try reflexivity. exfalso; eapply H; reflexivity.
  - intros name. apply encode_value_struct_kind.
  - intros k s. apply encode_value_array_kind.
  - intros n H. rewrite Hu. unfold Eip712Values.enc_uint. rewrite H. reflexivity.
  - intros n H. rewrite Hi. unfold Eip712Values.enc_int. rewrite H. reflexivity.
  - intros [n|] H; [rewrite HbN|rewrite Hb]; unfold Eip712Values.enc_bytes; rewrite H; reflexivity.
  - intros H. rewrite Ha. unfold Eip712Values.enc_address. rewrite H. reflexivity.
Qed.

(* ------------------------------------------------------------------ *)
(** * the document *)

Lemma compute_blob_graceful b : graceful (compute_blob b).
Proof.
  unfold Eip712Values.compute_blob.
  apply graceful_bind; [apply verify_domain_type_total|]. intros _ _.
  apply graceful_bind; [apply struct_hash_graceful|]. intros ds Hds.
  apply graceful_bind; [apply struct_hash_graceful|]. intros mh Hmh.
  apply struct_hash_length in Hds, Hmh.
  rewrite copy_at_ok; [|rewrite repeat_length; lia|reflexivity]. cbn [bind].
  rewrite copy_at_ok; [|rewrite !app_length, firstn_length, skipn_length, repeat_length; cbn [length]; lia|exact Hds].
  cbn [bind].
  rewrite copy_at_ok; [apply graceful_ok| |exact Hmh].
  rewrite !app_length, !firstn_length, !skipn_length, !app_length, !firstn_length, !skipn_length, repeat_length.
  cbn [length]. lia.
Qed.

Lemma str_field_graceful key kvs : graceful (str_field key kvs).
Proof. unfold str_field. destruct (obj_get key kvs) as [[]|]; split; discriminate. Qed.

Lemma member_of_json_graceful j : graceful (member_of_json j).
Proof.
  destruct j as [ | | | | | |l|kvs]; try apply graceful_err.
  - destruct l as [|[] [|[] [|? ?]]]; split; discriminate.
  - cbn [member_of_json]. apply graceful_bind; [apply str_field_graceful|]. intros name _.
    apply graceful_bind; [apply str_field_graceful|]. intros; apply graceful_ok.
Qed.

Lemma types_of_json_graceful j : graceful (types_of_json j).
Proof.
  destruct j; try apply graceful_err. cbn [types_of_json]. apply omapM_graceful. intros [k v] _.
  apply graceful_bind; [|intros; apply graceful_ok]. cbn [snd].
  destruct v; try apply graceful_err. cbn [members_of_json]. apply omapM_graceful.
  intros; apply member_of_json_graceful.
Qed.

Lemma blob_of_fields_graceful t p d m : graceful (blob_of_fields t p d m).
Proof.
  unfold blob_of_fields. apply graceful_bind; [apply types_of_json_graceful|]. intros tys _.
  apply graceful_bind; [destruct p; split; discriminate|]. intros pr _.
  apply graceful_bind; [destruct d; split; discriminate|]. intros dm _.
  apply graceful_bind; [destruct m; split; discriminate|]. intros; apply graceful_ok.
Qed.

Lemma blob_of_json_graceful j : graceful (blob_of_json j).
Proof.
  destruct j as [ | | | | | |l|kvs]; try apply graceful_err.
  - destruct l as [|t [|p [|d [|m [|? ?]]]]]; try apply graceful_err. apply blob_of_fields_graceful.
  - cbn [blob_of_json].
    destruct (obj_get _ kvs); [|apply graceful_err]. destruct (obj_get _ kvs); [|apply graceful_err].
    destruct (obj_get _ kvs); [|apply graceful_err]. destruct (obj_get _ kvs); [|apply graceful_err].
    apply blob_of_fields_graceful.
Qed.

Lemma compute_graceful j : graceful (compute j).
Proof.
  apply graceful_bind; [apply blob_of_json_graceful|]. intros; apply compute_blob_graceful.
Qed.

Lemma compute_err_no_digest j : compute j = Err -> ~ exists r, compute j = Ok r.
Proof. intros H [r Hr]. congruence. Qed.

End Proofs.
