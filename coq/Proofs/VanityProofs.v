(** Proofs about [Model/Vanity.v] (property C18: the search loop and the thread race). *)
From Coq Require Import String.
From Coq Require Import List NArith Lia Bool PeanoNat.
From HDW Require Import Lib.Outcome Lib.Bytes Lib.Hex Model.Prefix Model.Vanity Proofs.PrefixProofs.
Import ListNotations.
Open Scope N_scope.
Open Scope outcome_scope.

Section VanityProofs.
  Variable candidate : Type.
  Variable addr_of : candidate -> outcome bytes.

  Notation search := (search candidate addr_of).
  Notation run_vanity := (run_vanity candidate addr_of).

  (** One unfolding of the loop. *)
  Lemma search_unfold p c st :
    search p c st =
    (let* a := addr_of c in
     if matches p a then Ok c
     else match st with
          | [] => OutOfFuel
          | x :: rest => let* next := x in search p next rest
          end).
  Proof. destruct st; reflexivity. Qed.

  Lemma search_hit p c st a : addr_of c = Ok a -> matches p a = true -> search p c st = Ok c.
  Proof. intros Ha Hm. rewrite search_unfold, Ha. cbn [bind]. rewrite Hm. reflexivity. Qed.

  Lemma search_miss p c a x st :
    addr_of c = Ok a -> matches p a = false ->
    search p c (x :: st) = (let* next := x in search p next st).
  Proof. intros Ha Hm. rewrite search_unfold, Ha. cbn [bind]. rewrite Hm. reflexivity. Qed.

  (** A derivation error of the current candidate ends the search with an error. *)
  Lemma search_derivation_error p c st : addr_of c = Err -> search p c st = Err.
  Proof. intros Ha. rewrite search_unfold, Ha. reflexivity. Qed.

  (** The returned candidate really matches, and it is the first candidate or one that the
      entropy source delivered. *)
  Lemma search_matches p st : forall c0 c,
    search p c0 st = Ok c ->
    (exists a, addr_of c = Ok a /\ matches p a = true) /\ (c = c0 \/ In (Ok c) st).
  Proof.
    induction st as [|x rest IH]; intros c0 c H; rewrite search_unfold in H;
      destruct (addr_of c0) as [a0| | |] eqn:Ha; try discriminate; cbn [bind] in H;
      destruct (matches p a0) eqn:Hm.
    - inversion H; subst. split; [eauto|left; reflexivity].
    - discriminate.
    - inversion H; subst. split; [eauto|left; reflexivity].
    - destruct x as [next| | |]; try discriminate. cbn [bind] in H.
      destruct (IH next c H) as [Hmatch [-> | Hin]].
      + split; [exact Hmatch|right; left; reflexivity].
      + split; [exact Hmatch|right; right; exact Hin].
  Qed.

  (** A first candidate that does not match is never the one returned. *)
  Lemma first_nonmatching_not_returned p c0 st c a0 :
    search p c0 st = Ok c -> addr_of c0 = Ok a0 -> matches p a0 = false ->
    c <> c0 /\ In (Ok c) st.
  Proof.
    intros H Ha0 Hm0. destruct (search_matches _ _ _ _ H) as [(a & Ha & Hm) Hc].
    assert (Hne : c <> c0).
    { intros ->. rewrite Ha0 in Ha. inversion Ha; subst. congruence. }
    split; [exact Hne|]. destruct Hc as [->|Hin]; [congruence|exact Hin].
  Qed.

  (** Whatever is returned matches (no non-matching phrase is ever returned). *)
  Lemma search_never_nonmatching p c0 st c a :
    search p c0 st = Ok c -> addr_of c = Ok a -> matches p a = true.
  Proof.
    intros H Ha. destruct (search_matches _ _ _ _ H) as [(a' & Ha' & Hm) _].
    rewrite Ha in Ha'. inversion Ha'; subst. exact Hm.
  Qed.

  (** The candidates that were looked at and rejected. *)
  Definition rejected (p : prefix) (c : candidate) : Prop :=
    exists a, addr_of c = Ok a /\ matches p a = false.

  Lemma search_skip p c0 cs : forall rest,
    rejected p c0 -> Forall (rejected p) cs ->
    forall c1, search p c0 (map Ok cs ++ Ok c1 :: rest)
             = search p c1 rest.
  Proof.
    revert c0. induction cs as [|c cs IH]; intros c0 rest (a0 & Ha0 & Hm0) Hcs c1.
    - cbn [map app]. rewrite (search_miss _ _ _ _ _ Ha0 Hm0). reflexivity.
    - inversion Hcs as [|? ? Hc Hcs']; subst. cbn [map app].
      rewrite (search_miss _ _ _ _ _ Ha0 Hm0). cbn [bind]. apply IH; assumption.
  Qed.

  (** An entropy failure at any later request of a search is an error (C12, vanity part). *)
  Lemma search_entropy_failure p c0 cs rest :
    rejected p c0 -> Forall (rejected p) cs ->
    search p c0 (map Ok cs ++ Err :: rest) = Err.
  Proof.
    revert c0. induction cs as [|c cs IH]; intros c0 (a0 & Ha0 & Hm0) Hcs.
    - cbn [map app]. rewrite (search_miss _ _ _ _ _ Ha0 Hm0). reflexivity.
    - inversion Hcs as [|? ? Hc Hcs']; subst. cbn [map app].
      rewrite (search_miss _ _ _ _ _ Ha0 Hm0). cbn [bind]. apply IH; assumption.
  Qed.

  (** The search returns the FIRST matching candidate of its stream. *)
  Lemma search_first_match p c0 cs c1 a1 rest :
    rejected p c0 -> Forall (rejected p) cs ->
    addr_of c1 = Ok a1 -> matches p a1 = true ->
    search p c0 (map Ok cs ++ Ok c1 :: rest) = Ok c1.
  Proof.
    intros H0 Hcs Ha1 Hm1. rewrite search_skip by assumption. eapply search_hit; eassumption.
  Qed.

  (* ---------------------------------------------------------------- *)
  (** ** The race *)

  Lemma worker_message_ok r c : worker_message candidate r = Ok c -> r = Ok c.
  Proof. destruct r; cbn; intros H; try discriminate. exact H. Qed.

  (** Some worker stream (or the inline one) produced the result. *)
  Lemma run_vanity_ok p threads workers winner first c :
    run_vanity p threads workers winner first = Ok c ->
    exists c0 st, first = Ok c0 /\ search p c0 st = Ok c
      /\ (st = nth (if threads =? 0 then 0%nat else winner) workers []).
  Proof.
    unfold Vanity.run_vanity. destruct first as [c0| | |]; try discriminate. cbn [bind].
    destruct (threads =? 0).
    - intros H. eauto.
    - destruct (N.of_nat winner <? threads); [|discriminate].
      intros H. apply worker_message_ok in H. eauto.
  Qed.

  (** Whichever worker's message comes first, the phrase that is returned has an address that
      matches the prefix, and the phrase is the first one or one generated by a worker. *)
  Lemma result p threads workers winner first c :
    run_vanity p threads workers winner first = Ok c ->
    (exists a, addr_of c = Ok a /\ matches p a = true)
    /\ (first = Ok c \/ exists st, In st workers /\ In (Ok c) st).
  Proof.
    intros H. destruct (run_vanity_ok _ _ _ _ _ _ H) as (c0 & st & -> & Hs & Hst).
    destruct (search_matches _ _ _ _ Hs) as [Hm [-> | Hin]].
    - split; [exact Hm|left; reflexivity].
    - split; [exact Hm|right]. exists st. split; [|exact Hin].
      subst st. set (k := if threads =? 0 then 0%nat else winner) in *.
      destruct (nth_in_or_default k workers []) as [Hk | Hk]; [exact Hk|].
      rewrite Hk in Hin. destruct Hin.
  Qed.

  (** … and so its address spells the requested digits. *)
  Lemma result_spec ds p threads workers winner first c :
    parse_prefix (s2l "0x" ++ ds) = Ok p ->
    run_vanity p threads workers winner first = Ok c ->
    exists a, addr_of c = Ok a /\ (bytes_ok a -> hex_prefix_matches ds a).
  Proof.
    intros Hp H. destruct (result _ _ _ _ _ _ H) as [(a & Ha & Hm) _].
    exists a. split; [exact Ha|]. intros Hok. apply (prefix_spec _ _ _ Hp Hok). exact Hm.
  Qed.

  (** An error outcome carries no phrase. *)
  Lemma error_never_phrase p threads workers winner first :
    run_vanity p threads workers winner first = Err ->
    forall c, run_vanity p threads workers winner first <> Ok c.
  Proof. intros H c. rewrite H. discriminate. Qed.

  (** A failure of the very first entropy request is an error, for every configuration. *)
  Lemma first_entropy_failure p threads workers winner :
    run_vanity p threads workers winner Err = Err.
  Proof. reflexivity. Qed.

  (** The error of the worker whose message comes first (entropy failure, derivation error)
      surfaces as an error — never as a phrase. *)
  Lemma worker_error_is_error p threads workers winner c0 :
    search p c0 (nth (if threads =? 0 then 0%nat else winner) workers []) = Err ->
    (threads = 0 \/ N.of_nat winner < threads) ->
    run_vanity p threads workers winner (Ok c0) = Err.
  Proof.
    intros Hs Hw. unfold Vanity.run_vanity. cbn [bind].
    destruct (N.eqb_spec threads 0) as [Ht|Ht].
    - exact Hs.
    - destruct Hw as [Hw|Hw]; [contradiction|].
      apply N.ltb_lt in Hw. rewrite Hw, Hs. reflexivity.
  Qed.

  (** Conversely an [Err] of the run is an [Err] of the first request or of that worker. *)
  Lemma error_origin p threads workers winner first :
    run_vanity p threads workers winner first = Err ->
    first = Err
    \/ exists c0, first = Ok c0
         /\ search p c0 (nth (if threads =? 0 then 0%nat else winner) workers []) = Err.
  Proof.
    unfold Vanity.run_vanity. destruct first as [c0| | |]; try discriminate; [|auto].
    cbn [bind]. intros H. right. exists c0. split; [reflexivity|].
    destruct (threads =? 0); [exact H|].
    destruct (N.of_nat winner <? threads); [|discriminate].
    destruct (Vanity.search candidate addr_of p c0 (nth winner workers [])); try discriminate.
    reflexivity.
  Qed.

  (** The run never panics by itself: a [Panic] can only come from the inline search
      (i.e. from [addr_of]); with threads a panicking worker just never sends. *)
  Lemma run_vanity_no_panic_threads p threads workers winner first :
    threads <> 0 -> first <> Panic -> run_vanity p threads workers winner first <> Panic.
  Proof.
    intros Ht Hf. unfold Vanity.run_vanity. destruct first as [c0| | |]; try discriminate; [|congruence].
    cbn [bind]. apply N.eqb_neq in Ht. rewrite Ht.
    destruct (N.of_nat winner <? threads); [|discriminate].
    destruct (Vanity.search candidate addr_of p c0 (nth winner workers [])); discriminate.
  Qed.
End VanityProofs.
