(** A print / parse round trip for the JSON text reader of [Model/JsonText.v]:
    [parse_doc (print t) = Ok t] for every syntax tree without floating-point literals whose strings
    are plain (printable ASCII without the quote and the backslash), nested less than 127 deep.
    Route: (1) more fuel never changes a result that is not [OutOfFuel] ([pv_more_fuel]);
    (2) for SOME fuel the value parser reads [print t ++ rest] back as [(t, rest)], by induction over
    the tree ([print_parse_some_fuel]); (3) the fuel of [parse_doc] is enough ([all_steps] of
    [Proofs/JsonTextProofs.v]), so by (1) it gives the same answer. *)
From Coq Require Import List NArith ZArith Bool Lia.
From HDW Require Import Lib.Outcome Lib.Bytes Lib.Hex Lib.Decimal Model.Json Model.Eip712Types Model.JsonText.
From HDW Require Import Proofs.JsonTextProofs.
Import ListNotations.
Open Scope N_scope.

(* ------------------------------------------------------------------ *)
(** * One unfolding of each parser, with the recursive calls as parameters *)

Definition pv_body (A : N -> bytes -> list jt -> outcome (jt * bytes))
                   (O : N -> bytes -> list (text * jt) -> outcome (jt * bytes))
                   (depth : N) (s : bytes) : outcome (jt * bytes) :=
  match skip_ws s with
  | [] => Err
  | c :: r =>
      if c =? 110 then lit [117; 108; 108] TNull r
      else if c =? 116 then lit [114; 117; 101] (TBool true) r
      else if c =? 102 then lit [97; 108; 115; 101] (TBool false) r
      else if c =? 34 then
        match pstr r [] with
        | Ok (t, r') => Ok (TStr t, r')
        | _ => Err
        end
      else if c =? 91 then
        match enter depth with
        | None => Err
        | Some d =>
            match skip_ws r with
            | x :: r' => if x =? 93 then Ok (TArr [], r') else A d (x :: r') []
            | [] => Err
            end
        end
      else if c =? 123 then
        match enter depth with
        | None => Err
        | Some d =>
            match skip_ws r with
            | x :: r' => if x =? 125 then Ok (TObj [], r') else O d (x :: r') []
            | [] => Err
            end
        end
      else if (c =? 45) || is_digit c then
        match pnum (c :: r) with
        | Ok (n, r') => Ok (TNum n, r')
        | _ => Err
        end
      else Err
  end.

Definition parr_body (V : N -> bytes -> outcome (jt * bytes))
                     (A : N -> bytes -> list jt -> outcome (jt * bytes))
                     (depth : N) (s : bytes) (acc : list jt) : outcome (jt * bytes) :=
  match V depth s with
  | Ok (v, r) =>
      match skip_ws r with
      | x :: r' =>
          if x =? 44 then A depth r' (v :: acc)
          else if x =? 93 then Ok (TArr (rev (v :: acc)), r')
          else Err
      | [] => Err
      end
  | Err => Err
  | Panic => Panic
  | OutOfFuel => OutOfFuel
  end.

Definition pobj_body (V : N -> bytes -> outcome (jt * bytes))
                     (O : N -> bytes -> list (text * jt) -> outcome (jt * bytes))
                     (depth : N) (s : bytes) (acc : list (text * jt)) : outcome (jt * bytes) :=
  match skip_ws s with
  | q :: r0 =>
      if q =? 34 then
        match pstr r0 [] with
        | Ok (k, r1) =>
            match skip_ws r1 with
            | col :: r2 =>
                if col =? 58 then
                  match V depth r2 with
                  | Ok (v, r3) =>
                      match skip_ws r3 with
                      | x :: r4 =>
                          if x =? 44 then O depth r4 ((k, v) :: acc)
                          else if x =? 125 then Ok (TObj (rev ((k, v) :: acc)), r4)
                          else Err
                      | [] => Err
                      end
                  | Err => Err
                  | Panic => Panic
                  | OutOfFuel => OutOfFuel
                  end
                else Err
            | [] => Err
            end
        | _ => Err
        end
      else Err
  | [] => Err
  end.

Lemma pv_S f d s : pv (S f) d s = pv_body (parr f) (pobj f) d s.
Proof. reflexivity. Qed.
Lemma parr_S f d s acc : parr (S f) d s acc = parr_body (pv f) (parr f) d s acc.
Proof. reflexivity. Qed.
Lemma pobj_S f d s acc : pobj (S f) d s acc = pobj_body (pv f) (pobj f) d s acc.
Proof. reflexivity. Qed.

(* ------------------------------------------------------------------ *)
(** * More fuel never changes a result *)

Definition ext3 {X} (F G : N -> bytes -> X -> outcome (jt * bytes)) : Prop :=
  forall d s a, F d s a <> OutOfFuel -> G d s a = F d s a.
Definition ext2 (F G : N -> bytes -> outcome (jt * bytes)) : Prop :=
  forall d s, F d s <> OutOfFuel -> G d s = F d s.

Lemma pv_body_ext A A' O O' : ext3 A A' -> ext3 O O' ->
  forall d s, pv_body A O d s <> OutOfFuel -> pv_body A' O' d s = pv_body A O d s.
Proof.
  intros HA HO d s. unfold pv_body.
  destruct (skip_ws s) as [|c r]; [reflexivity|].
  repeat match goal with |- context [if ?b then _ else _] =>
    match b with
    | (_ =? 93) => fail 1
    | (_ =? 125) => fail 1
    | _ => destruct b; [try reflexivity|]
    end end.
  - destruct (enter d); [|reflexivity]. destruct (skip_ws r) as [|x r']; [reflexivity|].
    destruct (x =? 93); [reflexivity|]. apply HA.
  - destruct (enter d); [|reflexivity]. destruct (skip_ws r) as [|x r']; [reflexivity|].
    destruct (x =? 125); [reflexivity|]. apply HO.
  - reflexivity.
Qed.

Lemma parr_body_ext V V' A A' : ext2 V V' -> ext3 A A' ->
  forall d s acc, parr_body V A d s acc <> OutOfFuel -> parr_body V' A' d s acc = parr_body V A d s acc.
Proof.
  intros HV HA d s acc. unfold parr_body. intros H.
  assert (HVs : V d s <> OutOfFuel) by (intros E; rewrite E in H; congruence).
  rewrite (HV d s HVs). destruct (V d s) as [[v r]| | |]; try reflexivity.
  destruct (skip_ws r) as [|x r']; [reflexivity|].
  destruct (x =? 44); [apply HA; exact H|reflexivity].
Qed.

Lemma pobj_body_ext V V' O O' : ext2 V V' -> ext3 O O' ->
  forall d s acc, pobj_body V O d s acc <> OutOfFuel -> pobj_body V' O' d s acc = pobj_body V O d s acc.
Proof.
  intros HV HO d s acc. unfold pobj_body.
  destruct (skip_ws s) as [|q r0]; [reflexivity|].
  destruct (q =? 34); [|reflexivity].
  destruct (pstr r0 []) as [[k r1]| | |]; try reflexivity.
  destruct (skip_ws r1) as [|col r2]; [reflexivity|].
  destruct (col =? 58); [|reflexivity]. intros H.
  assert (HVs : V d r2 <> OutOfFuel) by (intros E; rewrite E in H; congruence).
  rewrite (HV d r2 HVs). destruct (V d r2) as [[v r3]| | |]; try reflexivity.
  destruct (skip_ws r3) as [|x r4]; [reflexivity|].
  destruct (x =? 44); [apply HO; exact H|reflexivity].
Qed.

Lemma one_more_fuel f : ext2 (pv f) (pv (S f)) /\ ext3 (parr f) (parr (S f)) /\ ext3 (pobj f) (pobj (S f)).
Proof.
  induction f as [|f (IV & IA & IO)].
  - repeat split; intros d s; intros; cbn in *; congruence.
  - repeat split.
    + intros d s H. rewrite (pv_S (S f)), (pv_S f) in *. apply pv_body_ext; assumption.
    + intros d s a H. rewrite (parr_S (S f)), (parr_S f) in *. apply parr_body_ext; assumption.
    + intros d s a H. rewrite (pobj_S (S f)), (pobj_S f) in *. apply pobj_body_ext; assumption.
Qed.

Lemma pv_more_fuel k f d s : pv f d s <> OutOfFuel -> pv (k + f) d s = pv f d s.
Proof.
  induction k as [|k IH]; intros H; [reflexivity|].
  cbn [Nat.add]. rewrite (proj1 (one_more_fuel (k + f)) d s); rewrite IH by exact H; [reflexivity|exact H].
Qed.
Lemma parr_more_fuel k f d s a : parr f d s a <> OutOfFuel -> parr (k + f) d s a = parr f d s a.
Proof.
  induction k as [|k IH]; intros H; [reflexivity|].
  cbn [Nat.add]. rewrite (proj1 (proj2 (one_more_fuel (k + f))) d s a); rewrite IH by exact H; [reflexivity|exact H].
Qed.
Lemma pobj_more_fuel k f d s a : pobj f d s a <> OutOfFuel -> pobj (k + f) d s a = pobj f d s a.
Proof.
  induction k as [|k IH]; intros H; [reflexivity|].
  cbn [Nat.add]. rewrite (proj2 (proj2 (one_more_fuel (k + f))) d s a); rewrite IH by exact H; [reflexivity|exact H].
Qed.

Lemma pv_fuel_le f g d s x : (f <= g)%nat -> pv f d s = Ok x -> pv g d s = Ok x.
Proof.
  intros L H. replace g with ((g - f) + f)%nat by lia. rewrite pv_more_fuel; [exact H|congruence].
Qed.
Lemma parr_fuel_le f g d s a x : (f <= g)%nat -> parr f d s a = Ok x -> parr g d s a = Ok x.
Proof.
  intros L H. replace g with ((g - f) + f)%nat by lia. rewrite parr_more_fuel; [exact H|congruence].
Qed.
Lemma pobj_fuel_le f g d s a x : (f <= g)%nat -> pobj f d s a = Ok x -> pobj g d s a = Ok x.
Proof.
  intros L H. replace g with ((g - f) + f)%nat by lia. rewrite pobj_more_fuel; [exact H|congruence].
Qed.

(* ------------------------------------------------------------------ *)
(** * The printer and the trees it is defined for *)

(** a Unicode scalar value: below 0x110000 and not a surrogate *)
Definition scalar_char (c : N) : Prop := c < 0x110000 /\ ~ (0xD800 <= c <= 0xDFFF).
Definition plain (s : text) : Prop := Forall scalar_char s.

(** how the printer writes one character of a string: the quote and the backslash escaped, control
    characters as \u00XX, everything else as its UTF-8 bytes *)
Definition esc_char (c : N) : list N :=
  if c =? 34 then [92; 34]
  else if c =? 92 then [92; 92]
  else if c <? 32 then [92; 117; 48; 48; hex_digit (c / 16); hex_digit (c mod 16)]
  else utf8_char c.
Definition esc (s : text) : list N := flat_map esc_char s.

Fixpoint print_items (l : list (list N)) (close : N) : list N :=
  match l with
  | [] => [close]
  | x :: r => match r with [] => x ++ [close] | _ :: _ => x ++ 44 :: print_items r close end
  end.

(** compact JSON: no white space, members in the order of the tree, integers in decimal *)
Fixpoint print (t : jt) : list N :=
  match t with
  | TNull => [110; 117; 108; 108]
  | TBool true => [116; 114; 117; 101]
  | TBool false => [102; 97; 108; 115; 101]
  | TNum (NumU n) => decimal n
  | TNum (NumI z) => 45 :: decimal (Z.to_N (Z.opp z))
  | TNum (NumF _ _ _) => []
  | TStr s => 34 :: esc s ++ [34]
  | TArr l => 91 :: print_items (map print l) 93
  | TObj kvs => 123 :: print_items (map (fun kv => 34 :: esc (fst kv) ++ 34 :: 58 :: print (snd kv)) kvs) 125
  end.

(** [simple d t]: no floating-point literal, integers in the u64 / negative i64 range, plain
    strings and member names, at most [d] levels of arrays / objects *)
Fixpoint simple (d : nat) (t : jt) {struct t} : Prop :=
  match t with
  | TNull => True
  | TBool _ => True
  | TNum (NumU n) => n < 2 ^ 64
  | TNum (NumI z) => (- 2 ^ 63 <= z <= -1)%Z
  | TNum (NumF _ _ _) => False
  | TStr s => plain s
  | TArr l =>
      match d with
      | O => False
      | S d' => (fix go (l : list jt) : Prop := match l with [] => True | x :: r => simple d' x /\ go r end) l
      end
  | TObj kvs =>
      match d with
      | O => False
      | S d' => (fix go (l : list (text * jt)) : Prop :=
                   match l with [] => True | kv :: r => (plain (fst kv) /\ simple d' (snd kv)) /\ go r end) kvs
      end
  end.

Lemma simple_arr d l : simple (S d) (TArr l) <-> Forall (simple d) l.
Proof.
  cbn [simple]. induction l as [|x r IH]; [split; constructor|].
  split.
  - intros [H1 H2]. constructor; [exact H1|apply IH; exact H2].
  - intros H. inversion H; subst. split; [assumption|apply IH; assumption].
Qed.

Lemma simple_obj d kvs : simple (S d) (TObj kvs) <-> Forall (fun kv => plain (fst kv) /\ simple d (snd kv)) kvs.
Proof.
  cbn [simple]. induction kvs as [|x r IH]; [split; constructor|].
  split.
  - intros [H1 H2]. constructor; [exact H1|apply IH; exact H2].
  - intros H. inversion H; subst. split; [assumption|apply IH; assumption].
Qed.

(* ------------------------------------------------------------------ *)
(** * Tokens *)

Ltac Zify.zify_post_hook ::= Z.div_mod_to_equations.

Ltac step_if :=
  match goal with
  | |- context [if ?c then _ else _] => let H := fresh "Hif" in destruct c eqn:H; try (exfalso; lia)
  end.

(** one character: what the printer writes for it is read back as that character *)
Lemma pstr_esc_char c s acc : scalar_char c -> pstr (esc_char c ++ s) acc = pstr s (c :: acc).
Proof.
  intros [Hlt Hns]. unfold esc_char.
  destruct (N.eqb_spec c 34) as [->|H34]; [reflexivity|].
  destruct (N.eqb_spec c 92) as [->|H92]; [reflexivity|].
  destruct (N.ltb_spec c 32) as [H32|H32].
  - (* \u00XX *)
    cbn [app pstr]. replace (92 =? 34) with false by reflexivity. replace (92 =? 92) with true by reflexivity.
    replace (117 =? 34) with false by reflexivity. replace (117 =? 92) with false by reflexivity.
    replace (117 =? 47) with false by reflexivity. replace (117 =? 98) with false by reflexivity.
    replace (117 =? 102) with false by reflexivity. replace (117 =? 110) with false by reflexivity.
    replace (117 =? 114) with false by reflexivity. replace (117 =? 116) with false by reflexivity.
    replace (117 =? 117) with true by reflexivity.
    unfold hex4. replace (hex_val 48) with (Some 0) by reflexivity.
    rewrite (hex_val_digit (c / 16)) by lia. rewrite (hex_val_digit (c mod 16)) by lia.
    replace (((0 * 16 + 0) * 16 + c / 16) * 16 + c mod 16) with c by lia.
    repeat step_if. reflexivity.
  - unfold utf8_char.
    destruct (N.ltb_spec c 0x80) as [H80|H80].
    + cbn [app pstr]. repeat step_if. reflexivity.
    + destruct (N.ltb_spec c 0x800) as [H800|H800].
      * cbn [app pstr]. unfold cont. repeat step_if. f_equal. f_equal. lia.
      * destruct (N.ltb_spec c 0x10000) as [H10000|H10000].
        -- cbn [app pstr].
           assert (Hc : cont (0x80 + (c / 64) mod 64) && cont (0x80 + c mod 64)
                        && (if 0xE0 + c / 4096 =? 0xE0 then 0xA0 <=? 0x80 + (c / 64) mod 64 else true)
                        && (if 0xE0 + c / 4096 =? 0xED then 0x80 + (c / 64) mod 64 <=? 0x9F else true) = true).
           { unfold cont. destruct (N.eqb_spec (0xE0 + c / 4096) 0xE0), (N.eqb_spec (0xE0 + c / 4096) 0xED); lia. }
           rewrite Hc. repeat step_if. f_equal. f_equal. lia.
        -- cbn [app pstr].
           assert (Hc : cont (0x80 + (c / 4096) mod 64) && cont (0x80 + (c / 64) mod 64) && cont (0x80 + c mod 64)
                        && (if 0xF0 + (c / 262144) mod 8 =? 0xF0 then 0x90 <=? 0x80 + (c / 4096) mod 64 else true)
                        && (if 0xF0 + (c / 262144) mod 8 =? 0xF4 then 0x80 + (c / 4096) mod 64 <=? 0x8F else true) = true).
           { unfold cont. destruct (N.eqb_spec (0xF0 + (c / 262144) mod 8) 0xF0), (N.eqb_spec (0xF0 + (c / 262144) mod 8) 0xF4); lia. }
           rewrite Hc. repeat step_if. f_equal. f_equal. lia.
Qed.

Lemma pstr_plain s : forall acc rest, plain s -> pstr (esc s ++ 34 :: rest) acc = Ok (rev acc ++ s, rest).
Proof.
  induction s as [|c s IH]; intros acc rest Hp.
  - cbn [esc flat_map app pstr]. replace (34 =? 34) with true by reflexivity. rewrite app_nil_r. reflexivity.
  - inversion Hp as [|? ? Hc Hs]; subst.
    cbn [esc flat_map]. fold (esc s). rewrite <- app_assoc, (pstr_esc_char c _ acc Hc).
    rewrite IH by assumption. cbn [rev]. rewrite <- app_assoc. reflexivity.
Qed.

Lemma int_part_decimal n rest : ends_num rest -> int_part (decimal n ++ rest) = Ok (n, rest).
Proof.
  intros Hr. destruct (N.eq_dec n 0) as [->|Hn0].
  - unfold decimal. cbn [N.eqb app]. unfold int_part. replace (48 =? 48) with true by reflexivity.
    destruct rest as [|d r]; [reflexivity|]. destruct Hr as (Hd & _). rewrite Hd. reflexivity.
  - destruct (decimal_canonical n Hn0) as (c & r & Hdec & Hc).
    pose proof (decimal_digits n) as Hall. rewrite Hdec in Hall.
    assert (Hcd : 48 <= c <= 57) by (inversion Hall; assumption).
    rewrite Hdec. cbn [app]. unfold int_part. destruct (N.eqb_spec c 48); [contradiction|].
    assert (Hd : is_digit c = true) by (unfold is_digit; apply andb_true_intro; split; apply N.leb_le; lia).
    rewrite Hd. change (c :: r ++ rest) with ((c :: r) ++ rest).
    rewrite (digits_run_app (c :: r) 0 0 rest (all_digits_is_digit _ Hall)).
    2:{ destruct rest as [|x ?]; [exact I|]. destruct Hr as (Hx & _). exact Hx. }
    rewrite fold_digits, N.mul_0_l, N.add_0_l, <- Hdec, decimal_value. reflexivity.
Qed.

Lemma frac_none m rest : ends_num rest -> frac_part m rest = Ok (m, 0, false, rest).
Proof.
  intros Hr. unfold frac_part. destruct rest as [|c r]; [reflexivity|].
  destruct Hr as (_ & H46 & _). destruct (N.eqb_spec c 46); [contradiction|reflexivity].
Qed.

Lemma exp_none rest : ends_num rest -> exp_part rest = Ok (0%Z, false, rest).
Proof.
  intros Hr. unfold exp_part. destruct rest as [|c r]; [reflexivity|].
  destruct Hr as (_ & _ & H101 & H69).
  destruct (N.eqb_spec c 101); [contradiction|]. destruct (N.eqb_spec c 69); [contradiction|]. reflexivity.
Qed.

Lemma pnum_neg_decimal m rest : 1 <= m <= 2 ^ 63 -> ends_num rest ->
  pnum (45 :: decimal m ++ rest) = Ok (NumI (Z.opp (Z.of_N m)), rest).
Proof.
  intros Hm Hr. unfold pnum. replace (45 =? 45) with true by reflexivity.
  rewrite (int_part_decimal m rest Hr), (frac_none m rest Hr), (exp_none rest Hr). cbn [orb].
  unfold classify. destruct (N.leb_spec 1 m); [|lia]. destruct (N.leb_spec m (2 ^ 63)); [|lia]. reflexivity.
Qed.

(** a number token at the head of the input *)
Lemma pv_number f d c r n r' :
  (c = 45 \/ 48 <= c <= 57) -> pnum (c :: r) = Ok (n, r') -> pv (S f) d (c :: r) = Ok (TNum n, r').
Proof.
  intros Hc Hp. rewrite pv_S. unfold pv_body. cbn [skip_ws]. unfold jws.
  destruct (N.eqb_spec c 32); [lia|]. destruct (N.eqb_spec c 9); [lia|].
  destruct (N.eqb_spec c 10); [lia|]. destruct (N.eqb_spec c 13); [lia|]. cbn [orb].
  destruct (N.eqb_spec c 110); [lia|]. destruct (N.eqb_spec c 116); [lia|]. destruct (N.eqb_spec c 102); [lia|].
  destruct (N.eqb_spec c 34); [lia|]. destruct (N.eqb_spec c 91); [lia|]. destruct (N.eqb_spec c 123); [lia|].
  assert (Hd : (c =? 45) || is_digit c = true).
  { destruct Hc as [->|Hc]; [reflexivity|]. apply orb_true_iff. right. unfold is_digit.
    apply andb_true_intro; split; apply N.leb_le; lia. }
  rewrite Hd, Hp. reflexivity.
Qed.

(** the first character of a printed tree: not white space, not a closing bracket *)
Definition head_ok (s : bytes) : Prop :=
  match s with
  | c :: _ => jws c = false /\ c <> 93 /\ c <> 125
  | [] => False
  end.

Lemma head_ok_skip s rest : head_ok s -> skip_ws (s ++ rest) = s ++ rest.
Proof. destruct s as [|c r]; [intros []|]. intros (Hw & _). cbn [app skip_ws]. rewrite Hw. reflexivity. Qed.

Lemma decimal_head n : exists c r, decimal n = c :: r /\ 48 <= c <= 57.
Proof.
  pose proof (decimal_digits n) as Hall. pose proof (decimal_nonempty n) as Hne.
  destruct (decimal n) as [|c r]; [congruence|]. exists c, r. split; [reflexivity|]. inversion Hall; assumption.
Qed.

Lemma print_head_ok d t : simple d t -> head_ok (print t).
Proof.
  destruct t as [| b | nn | s | l | kvs].
  - intros _. cbn. repeat split; discriminate.
  - intros _. destruct b; cbn; repeat split; discriminate.
  - destruct nn as [n|z|ng m e]; cbn [print simple]; intros H.
    + destruct (decimal_head n) as (c & r & -> & Hc). cbn [head_ok]. unfold jws.
      repeat split; lia.
    + cbn. repeat split; discriminate.
    + exact H.
  - intros _. cbn. repeat split; discriminate.
  - intros _. cbn. repeat split; discriminate.
  - intros _. cbn. repeat split; discriminate.
Qed.

(* ------------------------------------------------------------------ *)
(** * The round trip *)

Definition DN (d : nat) : N := N.of_nat d + 1.

Lemma enter_DN d : enter (DN (S d)) = Some (DN d).
Proof. unfold enter, DN. destruct (N.leb_spec (N.of_nat (S d) + 1) 1); [lia|]. f_equal. lia. Qed.

Definition reads_back (d : nat) (t : jt) : Prop :=
  forall rest, ends_num rest -> exists f, pv f (DN d) (print t ++ rest) = Ok (t, rest).

Lemma ends_num_close c rest : c = 44 \/ c = 93 \/ c = 125 -> ends_num (c :: rest).
Proof. intros H. destruct H as [H|H]; [|destruct H as [H|H]]; subst c; cbn; repeat split; discriminate. Qed.

(** the element loop of an array *)
Lemma parr_items d l : l <> [] -> Forall (fun x => simple d x /\ reads_back d x) l ->
  forall acc rest, exists f,
    parr f (DN d) (print_items (map print l) 93 ++ rest) acc = Ok (TArr (rev acc ++ l), rest).
Proof.
  induction l as [|x r IH]; [congruence|]. intros _ HF acc rest.
  inversion HF as [|? ? Hhd HFr]; subst. destruct Hhd as [Hsx Hx].
  destruct r as [|y r'].
  - cbn [map print_items]. rewrite <- app_assoc. cbn [app].
    destruct (Hx (93 :: rest) (ends_num_close 93 rest (or_intror (or_introl eq_refl)))) as (f1 & E1).
    exists (S f1). rewrite parr_S. unfold parr_body. rewrite E1. cbn [skip_ws]. reflexivity.
  - change (map print (x :: y :: r')) with (print x :: map print (y :: r')).
    cbn [print_items]. change (map print (y :: r')) with (print y :: map print r').
    cbv iota. fold (print_items (print y :: map print r') 93).
    change (print y :: map print r') with (map print (y :: r')).
    rewrite <- app_assoc. cbn [app].
    destruct (Hx (44 :: print_items (map print (y :: r')) 93 ++ rest)
                 (ends_num_close 44 _ (or_introl eq_refl))) as (f1 & E1).
    destruct (IH ltac:(discriminate) HFr (x :: acc) rest) as (f2 & E2).
    exists (S (Nat.max f1 f2)). rewrite parr_S. unfold parr_body.
    rewrite (pv_fuel_le f1 (Nat.max f1 f2) _ _ _ (Nat.le_max_l _ _) E1). cbn [skip_ws].
    replace (jws 44) with false by reflexivity. replace (44 =? 44) with true by reflexivity.
    rewrite (parr_fuel_le f2 (Nat.max f1 f2) _ _ _ _ (Nat.le_max_r _ _) E2).
    cbn [rev]. rewrite <- app_assoc. reflexivity.
Qed.

Definition print_member (kv : text * jt) : list N := 34 :: esc (fst kv) ++ 34 :: 58 :: print (snd kv).

(** the member loop of an object *)
Lemma pobj_items d l : l <> [] ->
  Forall (fun kv => plain (fst kv) /\ simple d (snd kv) /\ reads_back d (snd kv)) l ->
  forall acc rest, exists f,
    pobj f (DN d) (print_items (map print_member l) 125 ++ rest) acc = Ok (TObj (rev acc ++ l), rest).
Proof.
  induction l as [|[k x] r IH]; [congruence|]. intros _ HF acc rest.
  inversion HF as [|? ? Hhd HFr]; subst. destruct Hhd as (Hk & Hsx & Hx). cbn [fst snd] in *.
  assert (Hone : forall tail f1, pv f1 (DN d) (print x ++ tail) = Ok (x, tail) ->
            forall O, pobj_body (pv f1) O (DN d) (print_member (k, x) ++ tail) acc
            = match skip_ws tail with
              | c :: r4 => if c =? 44 then O (DN d) r4 ((k, x) :: acc)
                           else if c =? 125 then Ok (TObj (rev ((k, x) :: acc)), r4) else Err
              | [] => Err
              end).
  { intros tail f1 E1 O. unfold pobj_body, print_member. cbn [fst snd app skip_ws].
    replace (jws 34) with false by reflexivity. replace (34 =? 34) with true by reflexivity.
    rewrite <- app_assoc. cbn [app]. rewrite (pstr_plain k [] _ Hk). cbn [rev app skip_ws].
    replace (jws 58) with false by reflexivity. replace (58 =? 58) with true by reflexivity.
    rewrite E1. reflexivity. }
  destruct r as [|y r'].
  - cbn [map print_items]. rewrite <- app_assoc. cbn [app].
    destruct (Hx (125 :: rest) (ends_num_close 125 rest (or_intror (or_intror eq_refl)))) as (f1 & E1).
    exists (S f1). rewrite pobj_S, (Hone _ _ E1). cbn [skip_ws]. reflexivity.
  - change (map print_member ((k, x) :: y :: r')) with (print_member (k, x) :: map print_member (y :: r')).
    cbn [print_items]. change (map print_member (y :: r')) with (print_member y :: map print_member r').
    cbv iota. fold (print_items (print_member y :: map print_member r') 125).
    change (print_member y :: map print_member r') with (map print_member (y :: r')).
    rewrite <- app_assoc. cbn [app].
    destruct (Hx (44 :: print_items (map print_member (y :: r')) 125 ++ rest)
                 (ends_num_close 44 _ (or_introl eq_refl))) as (f1 & E1).
    destruct (IH ltac:(discriminate) HFr ((k, x) :: acc) rest) as (f2 & E2).
    exists (S (Nat.max f1 f2)). rewrite pobj_S.
    rewrite (Hone _ _ (pv_fuel_le f1 (Nat.max f1 f2) _ _ _ (Nat.le_max_l _ _) E1)). cbn [skip_ws].
    replace (jws 44) with false by reflexivity. replace (44 =? 44) with true by reflexivity.
    rewrite (pobj_fuel_le f2 (Nat.max f1 f2) _ _ _ _ (Nat.le_max_r _ _) E2).
    cbn [rev]. rewrite <- app_assoc. reflexivity.
Qed.

Lemma print_items_head_ok l close : l <> [] -> Forall head_ok l -> head_ok (print_items l close).
Proof.
  destruct l as [|x r]; [congruence|]. intros _ HF. inversion HF as [|? ? Hx _]; subst.
  destruct x as [|c x']; [destruct Hx|]. cbn [print_items]. destruct r; exact Hx.
Qed.

Theorem print_parse_some_fuel : forall t d, simple d t -> reads_back d t.
Proof.
  apply (jt_ind' (fun t => forall d, simple d t -> reads_back d t)).
  - intros d _ rest _. exists 1%nat. reflexivity.
  - intros b d _ rest _. exists 1%nat. destruct b; reflexivity.
  - intros n d Hs rest Hr. destruct n as [n|z|ng m e]; cbn [simple print] in *.
    + destruct (decimal_head n) as (c & r & Hdec & Hc). exists 1%nat.
      pose proof (pnum_decimal n rest Hs Hr) as Hp. rewrite Hdec in *. cbn [app] in *.
      apply pv_number; [right; exact Hc|exact Hp].
    + exists 1%nat. cbn [app]. 
      assert (Hz : z = Z.opp (Z.of_N (Z.to_N (Z.opp z)))) by lia.
      rewrite Hz at 2. apply pv_number; [left; reflexivity|].
      apply pnum_neg_decimal; [lia|exact Hr].
    + destruct Hs.
  - intros s d Hs rest _. exists 1%nat. cbn [print simple] in *. rewrite pv_S. unfold pv_body.
    cbn [app skip_ws]. replace (jws 34) with false by reflexivity.
    replace (34 =? 110) with false by reflexivity. replace (34 =? 116) with false by reflexivity.
    replace (34 =? 102) with false by reflexivity. replace (34 =? 34) with true by reflexivity.
    rewrite <- app_assoc. cbn [app]. rewrite (pstr_plain s [] rest Hs). reflexivity.
  - intros l IHl d Hs rest Hr. destruct d as [|d]; [destruct Hs|].
    apply simple_arr in Hs. cbn [print].
    destruct l as [|x r].
    + exists 1%nat. rewrite pv_S. unfold pv_body. cbn [map print_items app skip_ws].
      replace (jws 91) with false by reflexivity.
      replace (91 =? 110) with false by reflexivity. replace (91 =? 116) with false by reflexivity.
      replace (91 =? 102) with false by reflexivity. replace (91 =? 34) with false by reflexivity.
      replace (91 =? 91) with true by reflexivity. rewrite enter_DN.
      replace (jws 93) with false by reflexivity. replace (93 =? 93) with true by reflexivity. reflexivity.
    + assert (HF : Forall (fun x => simple d x /\ reads_back d x) (x :: r)).
      { rewrite Forall_forall in *. intros y Hy. split; [apply Hs; exact Hy|apply IHl; [exact Hy|apply Hs; exact Hy]]. }
      destruct (parr_items d (x :: r) ltac:(discriminate) HF [] rest) as (f & E).
      assert (Hh : head_ok (print_items (map print (x :: r)) 93)).
      { apply print_items_head_ok; [discriminate|]. rewrite Forall_forall. intros s Hin.
        apply in_map_iff in Hin as (y & <- & Hy). rewrite Forall_forall in Hs. exact (print_head_ok d y (Hs y Hy)). }
      exists (S f). rewrite pv_S. unfold pv_body. cbn [app skip_ws].
      replace (jws 91) with false by reflexivity.
      replace (91 =? 110) with false by reflexivity. replace (91 =? 116) with false by reflexivity.
      replace (91 =? 102) with false by reflexivity. replace (91 =? 34) with false by reflexivity.
      replace (91 =? 91) with true by reflexivity. rewrite enter_DN.
      rewrite (head_ok_skip _ rest Hh).
      destruct (print_items (map print (x :: r)) 93) as [|c0 r0] eqn:Ei; [destruct Hh|].
      destruct Hh as (_ & H93 & _). cbn [app]. destruct (N.eqb_spec c0 93); [contradiction|].
      cbn [app] in E. exact E.
  - intros kvs IHl d Hs rest Hr. destruct d as [|d]; [destruct Hs|].
    apply simple_obj in Hs.
    change (print (TObj kvs)) with (123 :: print_items (map print_member kvs) 125).
    destruct kvs as [|kv r].
    + exists 1%nat. rewrite pv_S. unfold pv_body. cbn [map print_items app skip_ws].
      replace (jws 123) with false by reflexivity.
      replace (123 =? 110) with false by reflexivity. replace (123 =? 116) with false by reflexivity.
      replace (123 =? 102) with false by reflexivity. replace (123 =? 34) with false by reflexivity.
      replace (123 =? 91) with false by reflexivity. replace (123 =? 123) with true by reflexivity.
      rewrite enter_DN.
      replace (jws 125) with false by reflexivity. replace (125 =? 125) with true by reflexivity. reflexivity.
    + assert (HF : Forall (fun kv => plain (fst kv) /\ simple d (snd kv) /\ reads_back d (snd kv)) (kv :: r)).
      { rewrite Forall_forall in *. intros y Hy. destruct (Hs y Hy) as [H1 H2].
        split; [exact H1|]. split; [exact H2|]. apply IHl; [exact Hy|exact H2]. }
      destruct (pobj_items d (kv :: r) ltac:(discriminate) HF [] rest) as (f & E).
      exists (S f). rewrite pv_S. unfold pv_body. cbn [app skip_ws].
      replace (jws 123) with false by reflexivity.
      replace (123 =? 110) with false by reflexivity. replace (123 =? 116) with false by reflexivity.
      replace (123 =? 102) with false by reflexivity. replace (123 =? 34) with false by reflexivity.
      replace (123 =? 91) with false by reflexivity. replace (123 =? 123) with true by reflexivity.
      rewrite enter_DN.
      assert (Hh : head_ok (print_items (map print_member (kv :: r)) 125)).
      { apply print_items_head_ok; [discriminate|]. rewrite Forall_forall. intros s Hin.
        apply in_map_iff in Hin as (y & <- & Hy). cbn. repeat split; discriminate. }
      rewrite (head_ok_skip _ rest Hh).
      destruct (print_items (map print_member (kv :: r)) 125) as [|c0 r0] eqn:Ei; [destruct Hh|].
      destruct Hh as (_ & _ & H125). cbn [app]. destruct (N.eqb_spec c0 125); [contradiction|].
      cbn [app] in E. exact E.
Qed.

(** the document-level round trip *)
Theorem parse_print t : simple 127 t -> parse_doc (print t) = Ok t.
Proof.
  intros Hs. destruct (print_parse_some_fuel t 127 Hs [] I) as (f & E). rewrite app_nil_r in E.
  change (DN 127) with 128 in E.
  unfold parse_doc. set (F := (2 * length (print t) + 2)%nat).
  pose proof (proj1 (all_steps F) 128 (print t) (le_n _)) as G. unfold good in G.
  assert (EF : pv F 128 (print t) = Ok (t, [])).
  { destruct (Nat.le_ge_cases f F) as [L|L].
    - exact (pv_fuel_le f F _ _ _ L E).
    - assert (NO : pv F 128 (print t) <> OutOfFuel) by (destruct (pv F 128 (print t)) as [[? ?]| | |]; try contradiction; discriminate).
      pose proof (pv_more_fuel (f - F) F 128 (print t) NO) as M.
      replace (f - F + F)%nat with f in M by lia. rewrite <- M. exact E. }
  rewrite EF. reflexivity.
Qed.

(* ------------------------------------------------------------------ *)
(** * White space before the document is irrelevant *)

Lemma skip_ws_app w s : all_ws w = true -> skip_ws (w ++ s) = skip_ws s.
Proof.
  induction w as [|c w IH]; intros H; [reflexivity|].
  cbn [all_ws forallb] in H. apply andb_true_iff in H as [Hc Hw].
  cbn [app skip_ws]. rewrite Hc. apply IH. exact Hw.
Qed.

Theorem parse_doc_leading_ws w s : all_ws w = true -> parse_doc (w ++ s) = parse_doc s.
Proof.
  intros Hw. unfold parse_doc. rewrite app_length.
  set (F := (2 * length s + 2)%nat).
  replace (2 * (length w + length s) + 2)%nat with (2 * length w + F)%nat by (subst F; lia).
  assert (NO : pv F 128 s <> OutOfFuel).
  { pose proof (proj1 (all_steps F) 128 s (le_n _)) as G. unfold good in G.
    destruct (pv F 128 s) as [[? ?]| | |]; try contradiction; discriminate. }
  assert (E : pv (2 * length w + F) 128 (w ++ s) = pv (2 * length w + F) 128 s).
  { assert (HF : exists f, (2 * length w + F)%nat = S f) by (exists (2 * length w + 2 * length s + 1)%nat; subst F; lia).
    destruct HF as (f & ->). rewrite !pv_S. unfold pv_body. rewrite (skip_ws_app w s Hw). reflexivity. }
  rewrite E, (pv_more_fuel (2 * length w) F 128 s NO). reflexivity.
Qed.
