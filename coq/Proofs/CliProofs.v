(** Proofs about [Model/Cli.v] (C16): the commands are compositions of the library models. *)
From Coq Require Import String.
From Coq Require Import List NArith ZArith Bool Lia.
From HDW Require Import Lib.Outcome Lib.Bytes Lib.Hex Model.Json.
From HDW Require Import Model.Bip39 Model.Seed Model.Path Model.Bip32 Model.Account Model.SigText Model.Message Model.Tx Model.Cli.
From HDW Require Import Props.C14.
Import ListNotations.
Open Scope outcome_scope.

Lemma account_path_default :
  account_path SelDefault = Ok [Hardened 44; Hardened 60; Hardened 0; Normal 0; Normal 0].
Proof. unfold account_path. apply C14_for_index_ok. reflexivity. Qed.

Lemma account_path_index i : (i < 2 ^ 31)%N ->
  account_path (SelIndex i) = Ok [Hardened 44; Hardened 60; Hardened 0; Normal 0; Normal i].
Proof. intros H. unfold account_path. apply C14_for_index_ok. exact H. Qed.

Lemma account_path_index_reject i : (2 ^ 31 <= i)%N -> account_path (SelIndex i) = Err.
Proof. intros H. unfold account_path. apply C14_for_index_reject. exact H. Qed.

Lemma account_path_path p : account_path (SelPath p) = parse_path p.
Proof. reflexivity. Qed.

Lemma bind_ok_iff {A B} (x : outcome A) (f : A -> outcome B) b :
  bind x f = Ok b <-> exists a, x = Ok a /\ f a = Ok b.
Proof.
  split; [apply bind_ok|]. intros [a [Hx Hf]]. rewrite Hx. exact Hf.
Qed.

Section WithPrims.
Variable sha256 : bytes -> bytes.
Variable pbkdf2 : bytes -> bytes -> N -> nat -> bytes.
Variable nfkd : text -> text.
Variable hmac512 : bytes -> bytes -> bytes.
Variable pub_compressed : N -> bytes.
Variable pubkey65 : N -> bytes.
Variable keccak : bytes -> bytes.
Variable sign : N -> bytes -> outcome sig.
Variable typed_data : json -> outcome (bytes * bytes * bytes).

Notation private_key := (private_key sha256 pbkdf2 nfkd hmac512 pub_compressed).
Notation sign_and_print := (sign_and_print sha256 pbkdf2 nfkd hmac512 pub_compressed sign).

Lemma private_key_iff o k :
  private_key o = Ok k <->
  exists m sd p, from_phrase sha256 (o_mnemonic o) = Ok m /\ seed pbkdf2 nfkd m (o_password o) = Ok sd
                 /\ account_path (o_sel o) = Ok p /\ derive hmac512 pub_compressed sd p = Ok k.
Proof.
  unfold Cli.private_key. rewrite bind_ok_iff. split.
  - intros [m [Hm H]]. apply bind_ok_iff in H. destruct H as [sd [Hs H]].
    apply bind_ok_iff in H. destruct H as [p [Hp H]]. eauto 8.
  - intros [m [sd [p [Hm [Hs [Hp H]]]]]]. exists m. split; [exact Hm|].
    apply bind_ok_iff. exists sd. split; [exact Hs|]. apply bind_ok_iff. eauto.
Qed.

Lemma cmd_address_iff o t :
  cmd_address sha256 pbkdf2 nfkd hmac512 pub_compressed pubkey65 keccak o = Ok t <->
  exists k a, private_key o = Ok k /\ address keccak pubkey65 k = Ok a /\ t = eip55 keccak a.
Proof.
  unfold cmd_address. rewrite bind_ok_iff. split.
  - intros [k [Hk H]]. apply bind_ok_iff in H. destruct H as [a [Ha H]]. inversion H. eauto 6.
  - intros [k [a [Hk [Ha Ht]]]]. exists k. split; [exact Hk|]. apply bind_ok_iff. exists a. subst t. auto.
Qed.

Lemma cmd_export_iff o t :
  cmd_export sha256 pbkdf2 nfkd hmac512 pub_compressed o = Ok t <->
  exists k, private_key o = Ok k /\ t = s2l "0x" ++ hex_encode (be_fixed 32 k).
Proof.
  unfold cmd_export, hex0x, secret. rewrite bind_ok_iff. split.
  - intros [k [Hk H]]. inversion H. eauto.
  - intros [k [Hk Ht]]. exists k. subst t. auto.
Qed.

Lemma cmd_public_key_iff o t :
  cmd_public_key sha256 pbkdf2 nfkd hmac512 pub_compressed pubkey65 o = Ok t <->
  exists k, private_key o = Ok k /\ t = s2l "0x" ++ hex_encode (pubkey65 k).
Proof.
  unfold cmd_public_key, hex0x, public. rewrite bind_ok_iff. split.
  - intros [k [Hk H]]. inversion H. eauto.
  - intros [k [Hk Ht]]. exists k. subst t. auto.
Qed.

Lemma sign_and_print_iff o d out :
  sign_and_print o d = Ok out <->
  exists k dg σ, private_key o = Ok k /\ d = Ok dg /\ sign k dg = Ok σ /\ out = print_sig σ.
Proof.
  unfold Cli.sign_and_print. rewrite bind_ok_iff. split.
  - intros [k [Hk H]]. apply bind_ok_iff in H. destruct H as [dg [Hd H]].
    apply bind_ok_iff in H. destruct H as [σ [Hs H]]. inversion H. eauto 8.
  - intros [k [dg [σ [Hk [Hd [Hs Ho]]]]]]. exists k. split; [exact Hk|].
    apply bind_ok_iff. exists dg. split; [exact Hd|]. apply bind_ok_iff. exists σ. subst out. auto.
Qed.

Lemma sign_message_is_sign_of_hash o m out :
  cmd_sign_message sha256 pbkdf2 nfkd hmac512 pub_compressed keccak sign o m = Ok out ->
  exists k d σ, private_key o = Ok k /\ cmd_hash_message keccak m = Ok (hex0x d) /\ d = digest keccak m
                /\ sign k d = Ok σ /\ out = print_sig σ.
Proof.
  unfold cmd_sign_message. intros H. apply sign_and_print_iff in H.
  destruct H as [k [dg [σ [Hk [Hd [Hs Ho]]]]]]. inversion Hd; subst dg.
  exists k, (digest keccak m), σ. repeat split; auto.
Qed.

Lemma sign_raw_signs_digest o d out :
  cmd_sign_raw sha256 pbkdf2 nfkd hmac512 pub_compressed sign o d = Ok out ->
  exists k σ, private_key o = Ok k /\ sign k d = Ok σ /\ out = print_sig σ.
Proof.
  unfold cmd_sign_raw. intros H. apply sign_and_print_iff in H.
  destruct H as [k [dg [σ [Hk [Hd [Hs Ho]]]]]]. inversion Hd; subst dg. eauto.
Qed.

Lemma sign_typeddata_is_sign_of_hash o j out :
  cmd_sign_typeddata sha256 pbkdf2 nfkd hmac512 pub_compressed sign typed_data o j = Ok out ->
  exists k d σ, private_key o = Ok k /\ cmd_hash_typeddata typed_data false j = Ok (hex0x d)
                /\ sign k d = Ok σ /\ out = print_sig σ.
Proof.
  unfold cmd_sign_typeddata, cmd_hash_typeddata. intros H. apply sign_and_print_iff in H.
  destruct H as [k [dg [σ [Hk [Hd [Hs Ho]]]]]].
  destruct (typed_data j) as [[[d ds] mh]| | |]; cbn [bind] in Hd; try discriminate.
  inversion Hd; subst dg. exists k, d, σ. cbn [bind]. repeat split; auto.
Qed.

Lemma hash_typeddata_message_hash j t :
  cmd_hash_typeddata typed_data true j = Ok t ->
  exists d ds mh, typed_data j = Ok (d, ds, mh) /\ t = hex0x mh.
Proof.
  unfold cmd_hash_typeddata. destruct (typed_data j) as [[[d ds] mh]| | |]; cbn [bind]; intros H; try discriminate.
  inversion H. eauto.
Qed.

Lemma sign_transaction_sigonly_is_sign_of_hash o allow j out :
  cmd_sign_transaction sha256 pbkdf2 nfkd hmac512 pub_compressed keccak sign o allow true j = Ok out ->
  exists k d σ, private_key o = Ok k /\ cmd_hash_transaction keccak j None = Ok (hex0x d)
                /\ sign k d = Ok σ /\ out = print_sig σ.
Proof.
  unfold cmd_sign_transaction, cmd_hash_transaction, sign_tx_cmd, hash_tx_cmd. intros H.
  apply bind_ok_iff in H. destruct H as [k [Hk H]].
  destruct (tx_of_json j) as [t| | |]; cbn [bind] in H |- *; try discriminate.
  destruct (relay_protection_guard allow t) as [u| | |]; cbn [bind] in H; try discriminate.
  destruct (signing_message keccak t) as [h| | |]; cbn [bind] in H |- *; try discriminate.
  destruct (sign k h) as [σ| | |] eqn:Hs; cbn [bind] in H; try discriminate.
  inversion H. exists k, h, σ. repeat split; auto.
Qed.

Lemma sign_transaction_full o allow j out :
  cmd_sign_transaction sha256 pbkdf2 nfkd hmac512 pub_compressed keccak sign o allow false j = Ok out ->
  exists k t h σ e, private_key o = Ok k /\ tx_of_json j = Ok t /\ signing_message keccak t = Ok h
                    /\ sign k h = Ok σ /\ encode t σ = Ok e /\ out = hex0x e.
Proof.
  unfold cmd_sign_transaction, sign_tx_cmd. intros H.
  apply bind_ok_iff in H. destruct H as [k [Hk H]].
  destruct (tx_of_json j) as [t| | |]; cbn [bind] in H; try discriminate.
  destruct (relay_protection_guard allow t) as [u| | |]; cbn [bind] in H; try discriminate.
  destruct (signing_message keccak t) as [h| | |] eqn:Hh; cbn [bind] in H; try discriminate.
  destruct (sign k h) as [σ| | |] eqn:Hs; cbn [bind] in H; try discriminate.
  destruct (encode t σ) as [e| | |] eqn:He; cbn [bind] in H; try discriminate.
  inversion H. exists k, t, h, σ, e. repeat split; auto.
Qed.

Lemma no_account_no_output o :
  (forall k, private_key o <> Ok k) ->
  (forall t, cmd_address sha256 pbkdf2 nfkd hmac512 pub_compressed pubkey65 keccak o <> Ok t)
  /\ (forall t, cmd_export sha256 pbkdf2 nfkd hmac512 pub_compressed o <> Ok t)
  /\ (forall t, cmd_public_key sha256 pbkdf2 nfkd hmac512 pub_compressed pubkey65 o <> Ok t)
  /\ (forall d t, sign_and_print o d <> Ok t).
Proof.
  intros Hn. repeat split; intros.
  - intros H. apply cmd_address_iff in H. destruct H as [k [a [Hk _]]]. exact (Hn k Hk).
  - intros H. apply cmd_export_iff in H. destruct H as [k [Hk _]]. exact (Hn k Hk).
  - intros H. apply cmd_public_key_iff in H. destruct H as [k [Hk _]]. exact (Hn k Hk).
  - intros H. apply sign_and_print_iff in H. destruct H as [k [dg [σ [Hk _]]]]. exact (Hn k Hk).
Qed.

End WithPrims.
