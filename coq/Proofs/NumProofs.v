(** Proofs about [Model/Num.v] (property C13). *)
From Coq Require Import String.
From Coq Require Import List NArith ZArith Lia Bool PeanoNat.
From HDW Require Import Lib.Outcome Lib.Radix Lib.Bytes Lib.Hex Lib.Decimal Model.Json Model.Num.
Import ListNotations.
Open Scope N_scope.

Arguments N.add : simpl never. Arguments N.sub : simpl never. Arguments N.mul : simpl never.
Arguments N.div : simpl never. Arguments N.modulo : simpl never. Arguments N.pow : simpl never.
Arguments N.eqb : simpl never. Arguments N.ltb : simpl never. Arguments N.leb : simpl never.
Arguments Z.add : simpl never. Arguments Z.sub : simpl never. Arguments Z.mul : simpl never.
Arguments Z.div : simpl never. Arguments Z.modulo : simpl never. Arguments Z.pow : simpl never.
Arguments Z.eqb : simpl never. Arguments Z.ltb : simpl never. Arguments Z.leb : simpl never.
Arguments Z.quot : simpl never. Arguments Z.opp : simpl never.

(* ------------------------------------------------------------------ *)
(** * digits *)

Lemma to_digit_spec radix c d :
  radix <= 36 -> (to_digit radix c = Some d <-> digit_char radix c d).
Proof.
  intros Hr. unfold to_digit, digit_char. split.
  - intros H.
    destruct ((48 <=? c) && (c <=? 57)) eqn:E1.
    { destruct (N.ltb_spec (c - 48) radix); [|discriminate]. inversion H; subst. lia. }
    destruct ((97 <=? c) && (c <=? 122)) eqn:E2.
    { destruct (N.ltb_spec (c - 87) radix); [|discriminate]. inversion H; subst. lia. }
    destruct ((65 <=? c) && (c <=? 90)) eqn:E3; [|discriminate].
    destruct (N.ltb_spec (c - 55) radix); [|discriminate]. inversion H; subst. lia.
  - intros (Hd & [(Hlt & ->) | (Hge & [-> | ->])]).
    + replace ((48 <=? 48 + d) && (48 + d <=? 57)) with true by lia.
      replace (48 + d - 48) with d by lia. replace (d <? radix) with true by lia. reflexivity.
    + replace ((48 <=? 87 + d) && (87 + d <=? 57)) with false by lia.
      replace ((97 <=? 87 + d) && (87 + d <=? 122)) with true by lia.
      replace (87 + d - 87) with d by lia. replace (d <? radix) with true by lia. reflexivity.
    + replace ((48 <=? 55 + d) && (55 + d <=? 57)) with false by lia.
      replace ((97 <=? 55 + d) && (55 + d <=? 122)) with false by lia.
      replace ((65 <=? 55 + d) && (55 + d <=? 90)) with true by lia.
      replace (55 + d - 55) with d by lia. replace (d <? radix) with true by lia. reflexivity.
Qed.

Lemma to_digit_lt radix c d : to_digit radix c = Some d -> d < radix.
Proof.
  unfold to_digit. intros H.
  destruct (if (48 <=? c) && (c <=? 57) then Some (c - 48)
            else if (97 <=? c) && (c <=? 122) then Some (c - 87)
            else if (65 <=? c) && (c <=? 90) then Some (c - 55) else None) as [x|]; [|discriminate].
  destruct (N.ltb_spec x radix); [|discriminate]. inversion H; subst; assumption.
Qed.

Lemma to_digit_ascii radix c d : to_digit radix c = Some d -> c < 128.
Proof.
  unfold to_digit. intros H.
  destruct ((48 <=? c) && (c <=? 57)) eqn:E1; [lia|].
  destruct ((97 <=? c) && (c <=? 122)) eqn:E2; [lia|].
  destruct ((65 <=? c) && (c <=? 90)) eqn:E3; [lia|discriminate].
Qed.

Lemma to_digit_not_sign radix c d : to_digit radix c = Some d -> c <> 43 /\ c <> 45.
Proof.
  unfold to_digit. intros H.
  destruct ((48 <=? c) && (c <=? 57)) eqn:E1; [lia|].
  destruct ((97 <=? c) && (c <=? 122)) eqn:E2; [lia|].
  destruct ((65 <=? c) && (c <=? 90)) eqn:E3; [lia|discriminate].
Qed.

(** hexadecimal digits are the [hex_val] ones *)
Lemma to_digit_16 c : to_digit 16 c = hex_val c.
Proof.
  unfold to_digit, hex_val.
  destruct ((48 <=? c) && (c <=? 57)) eqn:E1.
  { replace (c - 48 <? 16) with true by lia. reflexivity. }
  destruct ((97 <=? c) && (c <=? 122)) eqn:E2.
  { destruct (N.ltb_spec (c - 87) 16).
    - replace ((97 <=? c) && (c <=? 102)) with true by lia. reflexivity.
    - replace ((97 <=? c) && (c <=? 102)) with false by lia.
      replace ((65 <=? c) && (c <=? 70)) with false by lia. reflexivity. }
  replace ((97 <=? c) && (c <=? 102)) with false by lia.
  destruct ((65 <=? c) && (c <=? 90)) eqn:E3.
  { destruct (N.ltb_spec (c - 55) 16).
    - replace ((65 <=? c) && (c <=? 70)) with true by lia. reflexivity.
    - replace ((65 <=? c) && (c <=? 70)) with false by lia. reflexivity. }
  replace ((65 <=? c) && (c <=? 70)) with false by lia. reflexivity.
Qed.

(** all digits of a byte string, or [None] if one is not a digit of the radix *)
Fixpoint digits_of (radix : N) (ds : bytes) : option (list N) :=
  match ds with
  | [] => Some []
  | c :: r =>
      match to_digit radix c, digits_of radix r with
      | Some d, Some l => Some (d :: l)
      | _, _ => None
      end
  end.

Lemma digits_of_Forall2 radix ds dv :
  digits_of radix ds = Some dv <-> Forall2 (fun c d => to_digit radix c = Some d) ds dv.
Proof.
  revert dv. induction ds as [|c r IH]; intros dv; cbn [digits_of].
  - split; intros H; [inversion H; constructor | inversion H; reflexivity].
  - split.
    + intros H. destruct (to_digit radix c) as [d|] eqn:Ec; [|discriminate].
      destruct (digits_of radix r) as [l|] eqn:Er; [|discriminate].
      inversion H; subst. constructor; [assumption|]. apply IH; reflexivity.
    + intros H. inversion H as [|? d ? l Hc Hr]; subst. rewrite Hc.
      apply IH in Hr. rewrite Hr. reflexivity.
Qed.

Lemma digits_of_length radix ds dv : digits_of radix ds = Some dv -> length dv = length ds.
Proof.
  intros H. apply digits_of_Forall2 in H.
  induction H as [|c d r l _ _ IH]; [reflexivity|]. cbn [length]. rewrite IH. reflexivity.
Qed.

Lemma digits_of_ok radix ds dv : digits_of radix ds = Some dv -> digits_ok radix dv.
Proof.
  intros H. apply digits_of_Forall2 in H. induction H as [|c d r l Hc _ IH]; constructor.
  - eapply to_digit_lt; eassumption.
  - exact IH.
Qed.

Lemma digits_of_ascii radix ds dv : digits_of radix ds = Some dv -> all_ascii ds.
Proof.
  intros H. apply digits_of_Forall2 in H. induction H as [|c d r l Hc _ IH]; constructor.
  - eapply to_digit_ascii; eassumption.
  - exact IH.
Qed.

Lemma digits_of_chars radix ds dv :
  radix <= 36 -> (digits_of radix ds = Some dv <-> Forall2 (digit_char radix) ds dv).
Proof.
  intros Hr. rewrite digits_of_Forall2. split; intros H;
    (induction H as [|c d r l Hc _ IH]; constructor; [apply (to_digit_spec radix c d Hr); exact Hc | exact IH]).
Qed.

Lemma digits_of_bad radix a c b :
  to_digit radix c = None -> digits_of radix (a ++ c :: b) = None.
Proof.
  intros Hc. induction a as [|x a IH]; cbn [app digits_of].
  - rewrite Hc. reflexivity.
  - rewrite IH. destruct (to_digit radix x); reflexivity.
Qed.

(* ------------------------------------------------------------------ *)
(** * ranges *)

Definition sgz (is_positive : bool) : Z := if is_positive then 1%Z else (-1)%Z.

Lemma additive_op_sgz p r x : additive_op p r x = (r + sgz p * Z.of_N x)%Z.
Proof. unfold additive_op, sgz. destruct p; lia. Qed.

Lemma pow2_pos k : (0 < 2 ^ Z.of_N k)%Z.
Proof. apply Z.pow_pos_nonneg; lia. Qed.

Lemma Z_pow2_N k : (2 ^ Z.of_N k)%Z = Z.of_N (2 ^ k).
Proof. rewrite N2Z.inj_pow. reflexivity. Qed.

Lemma in_range_0 signed bits : in_range signed bits 0 = true.
Proof.
  unfold in_range, int_min, int_max.
  pose proof (pow2_pos bits). pose proof (pow2_pos (bits - 1)). destruct signed; lia.
Qed.

(** the range is an interval around 0: anything between 0 and an in-range value is in range *)
Lemma in_range_between signed bits p a b :
  (0 <= sgz p * a <= sgz p * b)%Z -> in_range signed bits b = true -> in_range signed bits a = true.
Proof.
  unfold in_range, int_min, int_max, sgz.
  pose proof (pow2_pos bits). pose proof (pow2_pos (bits - 1)).
  destruct signed, p; lia.
Qed.

Lemma in_range_unsigned bits v :
  in_range false bits v = true <-> (0 <= v < 2 ^ Z.of_N bits)%Z.
Proof. unfold in_range, int_min, int_max. lia. Qed.

Lemma in_range_signed bits v :
  in_range true bits v = true <-> (- 2 ^ Z.of_N (bits - 1) <= v < 2 ^ Z.of_N (bits - 1))%Z.
Proof. unfold in_range, int_min, int_max. lia. Qed.

(* ------------------------------------------------------------------ *)
(** * the two loops *)

Lemma unchecked_loop_spec radix p ds : forall acc,
  run_unchecked_loop radix p ds acc =
  match digits_of radix ds with
  | None => None
  | Some dv => Some (acc * Z.of_N (radix ^ N.of_nat (length ds)) + sgz p * Z.of_N (of_digits radix dv))%Z
  end.
Proof.
  induction ds as [|c r IH]; intros acc.
  - cbn [run_unchecked_loop digits_of length]. change (N.of_nat 0) with 0. rewrite N.pow_0_r.
    rewrite of_digits_nil. f_equal. lia.
  - cbn [run_unchecked_loop digits_of length].
    destruct (to_digit radix c) as [x|]; [|reflexivity].
    rewrite IH. destruct (digits_of radix r) as [dv|] eqn:Er; [|reflexivity].
    rewrite of_digits_cons, (digits_of_length _ _ _ Er), additive_op_sgz.
    rewrite Nat2N.inj_succ, N.pow_succ_r'.
    set (P := radix ^ N.of_nat (length r)). f_equal. lia.
Qed.

Lemma checked_loop_spec signed bits radix p ds : 1 <= radix -> forall acc,
  (0 <= sgz p * acc)%Z -> in_range signed bits acc = true ->
  run_checked_loop signed bits radix p ds acc =
  match digits_of radix ds with
  | None => None
  | Some dv =>
      let v := (acc * Z.of_N (radix ^ N.of_nat (length ds)) + sgz p * Z.of_N (of_digits radix dv))%Z in
      if in_range signed bits v then Some v else None
  end.
Proof.
  intros Hr. induction ds as [|c r IH]; intros acc Hs Hin.
  - cbn [run_checked_loop digits_of length]. change (N.of_nat 0) with 0. rewrite N.pow_0_r.
    rewrite of_digits_nil. cbv zeta.
    replace (acc * Z.of_N 1 + sgz p * Z.of_N 0)%Z with acc by lia. rewrite Hin. reflexivity.
  - cbn [run_checked_loop digits_of length].
    destruct (to_digit radix c) as [x|]; [|reflexivity].
    rewrite additive_op_sgz.
    set (mul := (acc * Z.of_N radix)%Z). set (res := (mul + sgz p * Z.of_N x)%Z).
    assert (Hsq : (sgz p * sgz p = 1)%Z) by (destruct p; reflexivity).
    assert (Hmul : (0 <= sgz p * mul)%Z) by (subst mul; nia).
    assert (Hres : (sgz p * res = sgz p * mul + Z.of_N x)%Z) by (subst res; nia).
    destruct (digits_of radix r) as [dv|] eqn:Er.
    + rewrite of_digits_cons, (digits_of_length _ _ _ Er).
      rewrite Nat2N.inj_succ, N.pow_succ_r'.
      set (P := radix ^ N.of_nat (length r)).
      assert (HP : 1 <= P) .
      { subst P. pose proof (N.pow_le_mono_l 1 radix (N.of_nat (length r)) Hr) as H1.
        rewrite N.pow_1_l in H1. exact H1. }
      cbv zeta.
      set (v := (acc * Z.of_N (radix * P) + sgz p * Z.of_N (x * P + of_digits radix dv))%Z).
      assert (Hv : v = (res * Z.of_N P + sgz p * Z.of_N (of_digits radix dv))%Z) by (subst v res mul; lia).
      assert (Hsv : (sgz p * v = (sgz p * res) * Z.of_N P + Z.of_N (of_digits radix dv))%Z) by (rewrite Hv; nia).
      assert (Hle : (sgz p * res <= sgz p * v)%Z) by (rewrite Hsv; nia).
      destruct (in_range signed bits mul) eqn:Em.
      * destruct (in_range signed bits res) eqn:Ee.
        -- rewrite IH by (assumption || lia). cbv zeta. fold P. rewrite <- Hv. reflexivity.
        -- destruct (in_range signed bits v) eqn:Ev; [|reflexivity].
           rewrite (in_range_between signed bits p res v) in Ee by (assumption || lia). discriminate.
      * destruct (in_range signed bits v) eqn:Ev; [|reflexivity].
        rewrite (in_range_between signed bits p mul v) in Em by (assumption || lia). discriminate.
    + destruct (in_range signed bits mul); [|reflexivity].
      destruct (in_range signed bits res) eqn:Ee; [|reflexivity].
      rewrite IH by (assumption || lia). reflexivity.
Qed.

(** when [can_not_overflow] holds the unchecked result fits *)
Lemma can_not_overflow_in_range signed bits radix p ds dv :
  (signed = false -> p = true) ->
  can_not_overflow signed bits radix ds = true -> digits_of radix ds = Some dv ->
  in_range signed bits (sgz p * Z.of_N (of_digits radix dv)) = true.
Proof.
  unfold can_not_overflow. intros Hp Hc Hd.
  apply andb_true_iff in Hc as [Hr Hl]. apply N.leb_le in Hr, Hl.
  pose proof (of_digits_bound radix dv (digits_of_ok _ _ _ Hd)) as Hb.
  rewrite (digits_of_length _ _ _ Hd) in Hb.
  set (K := bits / 8 * 2 - (if signed then 1 else 0)) in *.
  assert (H16 : radix ^ N.of_nat (length ds) <= 2 ^ (4 * K)).
  { rewrite N.pow_mul_r. change (2 ^ 4) with 16.
    transitivity (16 ^ N.of_nat (length ds)).
    - apply N.pow_le_mono_l; assumption.
    - apply N.pow_le_mono_r; [lia|assumption]. }
  set (o := of_digits radix dv) in *.
  destruct signed.
  - assert (HK : 4 * K <= bits - 1) by (subst K; lia).
    assert (H2 : 2 ^ (4 * K) <= 2 ^ (bits - 1)) by (apply N.pow_le_mono_r; [lia|exact HK]).
    apply in_range_signed. rewrite Z_pow2_N.
    set (Q := 2 ^ (bits - 1)) in *. unfold sgz. destruct p; lia.
  - assert (HK : 4 * K <= bits) by (subst K; lia).
    assert (H2 : 2 ^ (4 * K) <= 2 ^ bits) by (apply N.pow_le_mono_r; [lia|exact HK]).
    apply in_range_unsigned. rewrite Z_pow2_N.
    set (Q := 2 ^ bits) in *. rewrite (Hp eq_refl). unfold sgz. lia.
Qed.

(* ------------------------------------------------------------------ *)
(** * [from_str_radix] in closed form *)

Lemma loops_eq signed bits radix p ds :
  1 <= radix -> (signed = false -> p = true) ->
  (if can_not_overflow signed bits radix ds
   then run_unchecked_loop radix p ds 0%Z
   else run_checked_loop signed bits radix p ds 0%Z) =
  match digits_of radix ds with
  | None => None
  | Some dv =>
      let v := (sgz p * Z.of_N (of_digits radix dv))%Z in
      if in_range signed bits v then Some v else None
  end.
Proof.
  intros Hr Hp. destruct (can_not_overflow signed bits radix ds) eqn:Ec.
  - rewrite unchecked_loop_spec. destruct (digits_of radix ds) as [dv|] eqn:Ed; [|reflexivity].
    cbv zeta. rewrite (can_not_overflow_in_range _ _ _ _ _ _ Hp Ec Ed). reflexivity.
  - rewrite checked_loop_spec; [|assumption|lia|apply in_range_0].
    destruct (digits_of radix ds) as [dv|]; [|reflexivity]. cbv zeta.
    replace (0 * Z.of_N (radix ^ N.of_nat (length ds)) + sgz p * Z.of_N (of_digits radix dv))%Z
      with (sgz p * Z.of_N (of_digits radix dv))%Z by lia. reflexivity.
Qed.

(** sign handling of [from_str_radix]: [(is_positive, prefixed_digits)] *)
Definition split_sign (signed : bool) (src : bytes) : option (bool * bytes) :=
  match src with
  | [] => None
  | c0 :: rest =>
      if ((c0 =? 43) || (c0 =? 45)) && (match rest with [] => true | _ => false end) then None
      else Some (if c0 =? 43 then (true, rest)
                 else if (c0 =? 45) && signed then (false, rest)
                 else (true, src))
  end.

Definition strip_opt (prefix : option text) (pd : bytes) : option bytes :=
  match prefix with Some q => strip_prefix (utf8 q) pd | None => Some pd end.

Definition parse_spec (signed : bool) (bits radix : N) (prefix : option text) (s : text) : option Z :=
  match split_sign signed (utf8 s) with
  | None => None
  | Some (p, pd) =>
      match strip_opt prefix pd with
      | None => None
      | Some [] => None
      | Some ds =>
          match digits_of radix ds with
          | None => None
          | Some dv =>
              let v := (sgz p * Z.of_N (of_digits radix dv))%Z in
              if in_range signed bits v then Some v else None
          end
      end
  end.

Lemma from_str_radix_eq signed bits radix prefix s :
  1 <= radix -> from_str_radix signed bits radix prefix s = parse_spec signed bits radix prefix s.
Proof.
  intros Hr. unfold from_str_radix, parse_spec, split_sign.
  destruct (utf8 s) as [|c0 rest]; [reflexivity|].
  destruct (((c0 =? 43) || (c0 =? 45)) && match rest with [] => true | _ :: _ => false end);
    [reflexivity|].
  unfold strip_opt.
  destruct prefix as [q|]; cbv beta iota.
  - destruct (c0 =? 43).
    { destruct (strip_prefix (utf8 q) rest) as [[|d ds]|]; try reflexivity. apply loops_eq; auto. }
    destruct ((c0 =? 45) && signed) eqn:E.
    { destruct (strip_prefix (utf8 q) rest) as [[|d ds]|]; try reflexivity.
      apply loops_eq; [assumption|]. intros ->. rewrite andb_false_r in E. discriminate. }
    destruct (strip_prefix (utf8 q) (c0 :: rest)) as [[|d ds]|]; try reflexivity.
    apply loops_eq; auto.
  - destruct (c0 =? 43).
    { destruct rest as [|d ds]; try reflexivity. apply loops_eq; auto. }
    destruct ((c0 =? 45) && signed) eqn:E.
    { destruct rest as [|d ds]; try reflexivity.
      apply loops_eq; [assumption|]. intros ->. rewrite andb_false_r in E. discriminate. }
    apply loops_eq; auto.
Qed.

(** the sign characters as a text and the factor they stand for *)
Lemma split_sign_sound signed src p pd :
  split_sign signed src = Some (p, pd) ->
  exists sign, src = sign ++ pd /\ sign_of signed sign (sgz p) /\ pd <> [].
Proof.
  unfold split_sign. destruct src as [|c0 rest]; [discriminate|].
  destruct (((c0 =? 43) || (c0 =? 45)) && match rest with [] => true | _ :: _ => false end) eqn:E0;
    [discriminate|].
  destruct (N.eqb_spec c0 43) as [->|H43].
  { intros H; inversion H; subst. exists [43]. split; [reflexivity|]. split.
    - right; left; split; reflexivity.
    - destruct pd; [discriminate E0|discriminate]. }
  destruct ((c0 =? 45) && signed) eqn:E.
  { apply andb_true_iff in E as [E1 E2]. apply N.eqb_eq in E1. subst.
    intros H; inversion H; subst. exists [45]. split; [reflexivity|]. split.
    - right; right; repeat split; reflexivity.
    - destruct pd; [discriminate E0|discriminate]. }
  intros H; inversion H; subst. exists []. split; [reflexivity|]. split.
  - left; split; reflexivity.
  - discriminate.
Qed.

Lemma split_sign_complete signed sign sg rest :
  sign_of signed sign sg -> rest <> [] ->
  (forall c r, rest = c :: r -> c <> 43 /\ c <> 45) ->
  exists p, split_sign signed (sign ++ rest) = Some (p, rest) /\ sgz p = sg.
Proof.
  intros Hs Hne Hhd. destruct rest as [|c r]; [congruence|].
  destruct (Hhd c r eq_refl) as [H43 H45].
  destruct Hs as [(-> & ->) | [(-> & ->) | (-> & -> & ->)]].
  - exists true. split; [|reflexivity]. cbn [app split_sign].
    replace (c =? 43) with false by lia. replace (c =? 45) with false by lia. reflexivity.
  - exists true. split; reflexivity.
  - exists false. split; reflexivity.
Qed.

Lemma utf8_ascii_inv t : all_ascii (utf8 t) -> utf8 t = t.
Proof. intros H. apply utf8_ascii. apply utf8_all_ascii_inv. exact H. Qed.

(** soundness of one [from_str_radix] attempt, at the level of bytes *)
Lemma parse_spec_sound signed bits radix prefix s v :
  parse_spec signed bits radix prefix s = Some v ->
  exists sign sg ds dv,
    utf8 s = sign ++ (match prefix with Some q => utf8 q | None => [] end) ++ ds
    /\ sign_of signed sign sg /\ ds <> [] /\ digits_of radix ds = Some dv
    /\ v = (sg * Z.of_N (of_digits radix dv))%Z /\ in_range signed bits v = true.
Proof.
  unfold parse_spec. intros H.
  destruct (split_sign signed (utf8 s)) as [[p pd]|] eqn:Es; [|discriminate].
  destruct (strip_opt prefix pd) as [ds|] eqn:Ep; [|discriminate].
  destruct ds as [|d ds]; [discriminate|].
  destruct (digits_of radix (d :: ds)) as [dv|] eqn:Ed; [|discriminate].
  cbv zeta in H.
  destruct (in_range signed bits (sgz p * Z.of_N (of_digits radix dv))) eqn:Ei; [|discriminate].
  inversion H; subst v. apply split_sign_sound in Es as (sign & Hsrc & Hsign & _).
  exists sign, (sgz p), (d :: ds), dv. repeat split; try assumption; try discriminate.
  rewrite Hsrc. f_equal. unfold strip_opt in Ep. destruct prefix as [q|].
  - apply strip_prefix_some in Ep. exact Ep.
  - inversion Ep; reflexivity.
Qed.

(** one attempt on a text whose sign part is known *)
Lemma parse_spec_at signed bits radix prefix s sign sg rest :
  utf8 s = sign ++ rest -> sign_of signed sign sg -> rest <> [] ->
  (forall c r, rest = c :: r -> c <> 43 /\ c <> 45) ->
  parse_spec signed bits radix prefix s =
  match strip_opt prefix rest with
  | None => None
  | Some [] => None
  | Some ds =>
      match digits_of radix ds with
      | None => None
      | Some dv =>
          let v := (sg * Z.of_N (of_digits radix dv))%Z in
          if in_range signed bits v then Some v else None
      end
  end.
Proof.
  intros Hs Hsign Hne Hhd. unfold parse_spec. rewrite Hs.
  destruct (split_sign_complete signed sign sg rest Hsign Hne Hhd) as (p & Hsp & Hp).
  rewrite Hsp, Hp. reflexivity.
Qed.

(* ------------------------------------------------------------------ *)
(** * [from_str_prefixed] *)

Lemma from_str_prefixed_eq signed s :
  from_str_prefixed signed s =
  or_else (or_else (or_else
    (parse_spec signed 256 2 (Some (s2l "0b")) s)
    (fun _ => parse_spec signed 256 8 (Some (s2l "0o")) s))
    (fun _ => parse_spec signed 256 16 (Some (s2l "0x")) s))
    (fun _ => parse_spec signed 256 10 None s).
Proof. unfold from_str_prefixed. rewrite !from_str_radix_eq by lia. reflexivity. Qed.

Lemma sign_of_ascii signed sign sg : sign_of signed sign sg -> all_ascii sign.
Proof.
  intros [(-> & _) | [(-> & _) | (_ & -> & _)]]; repeat constructor; cbn; lia.
Qed.

Lemma prefix_radix_ascii pfx radix : prefix_radix pfx radix -> all_ascii pfx /\ 2 <= radix <= 36.
Proof.
  intros [(-> & ->) | [(-> & ->) | [(-> & ->) | (-> & ->)]]]; (split; [repeat constructor; cbn; lia | lia]).
Qed.

Lemma attempt_sound signed radix prefix s v :
  prefix_radix (match prefix with Some q => q | None => [] end) radix ->
  parse_spec signed 256 radix prefix s = Some v ->
  text_denotes signed s v /\ in_range signed 256 v = true.
Proof.
  intros Hpr H. destruct (prefix_radix_ascii _ _ Hpr) as [Hpa Hr].
  apply parse_spec_sound in H as (sign & sg & ds & dv & Hs & Hsign & Hne & Hd & Hv & Hin).
  split; [|exact Hin].
  set (pfx := match prefix with Some q => q | None => [] end) in *.
  assert (Hq : match prefix with Some q => utf8 q | None => [] end = pfx).
  { subst pfx. destruct prefix; [apply utf8_ascii; exact Hpa|reflexivity]. }
  assert (Hs' : utf8 s = sign ++ pfx ++ ds).
  { rewrite Hs. f_equal. f_equal. exact Hq. }
  clear Hs. rename Hs' into Hs.
  assert (Ha : all_ascii (utf8 s)).
  { rewrite Hs. apply Forall_app; split; [eapply sign_of_ascii; eassumption|].
    apply Forall_app; split; [exact Hpa|eapply digits_of_ascii; eassumption]. }
  rewrite (utf8_ascii_inv s Ha) in Hs.
  exists sign, sg, pfx, radix, ds, dv. repeat split; try assumption.
  apply digits_of_chars; [lia|exact Hd].
Qed.

Lemma from_str_prefixed_sound signed s v :
  from_str_prefixed signed s = Some v -> text_denotes signed s v /\ in_range signed 256 v = true.
Proof.
  rewrite from_str_prefixed_eq. unfold or_else. intros H.
  destruct (parse_spec signed 256 2 (Some (s2l "0b")) s) as [v1|] eqn:E1.
  { inversion H; subst v1. eapply (attempt_sound signed 2 (Some (s2l "0b"))); [|exact E1].
    left; split; reflexivity. }
  destruct (parse_spec signed 256 8 (Some (s2l "0o")) s) as [v2|] eqn:E2.
  { inversion H; subst v2. eapply (attempt_sound signed 8 (Some (s2l "0o"))); [|exact E2].
    right; left; split; reflexivity. }
  destruct (parse_spec signed 256 16 (Some (s2l "0x")) s) as [v3|] eqn:E3.
  { inversion H; subst v3. eapply (attempt_sound signed 16 (Some (s2l "0x"))); [|exact E3].
    right; right; left; split; reflexivity. }
  eapply (attempt_sound signed 10 None); [|exact H].
  right; right; right; split; reflexivity.
Qed.

Lemma head_not_sign pfx radix ds dv :
  prefix_radix pfx radix -> digits_of radix ds = Some dv ->
  forall c r, pfx ++ ds = c :: r -> c <> 43 /\ c <> 45.
Proof.
  intros Hpr Hd c r H.
  destruct Hpr as [(-> & _) | [(-> & _) | [(-> & _) | (-> & _)]]];
    try (inversion H; subst; lia).
  cbn [app] in H. subst ds. cbn [digits_of] in Hd.
  destruct (to_digit radix c) eqn:Ec; [|discriminate]. eapply to_digit_not_sign; eassumption.
Qed.

Lemma dec_no_prefix ds dv q2 :
  digits_of 10 ds = Some dv -> 57 < q2 -> strip_prefix [48; q2] ds = None.
Proof.
  intros Hd Hq. destruct ds as [|c1 [|c2 r]]; cbn [strip_prefix].
  - reflexivity.
  - destruct (48 =? c1); reflexivity.
  - destruct (48 =? c1); [|reflexivity]. destruct (N.eqb_spec q2 c2) as [<-|]; [|reflexivity].
    cbn [digits_of] in Hd. destruct (to_digit 10 c1); [|discriminate].
    destruct (to_digit 10 q2) as [d|] eqn:E2; [|discriminate].
    apply to_digit_spec in E2; [|lia]. unfold digit_char in E2. lia.
Qed.

Lemma to_digit_10_letter q : 57 < q -> to_digit 10 q = None.
Proof.
  intros Hq. destruct (to_digit 10 q) as [d|] eqn:E; [|reflexivity].
  apply to_digit_spec in E; [|lia]. unfold digit_char in E. lia.
Qed.

Lemma digits_of_10_pfx q ds : 57 < q -> digits_of 10 (48 :: q :: ds) = None.
Proof. intros Hq. apply (digits_of_bad 10 [48] q ds). apply to_digit_10_letter; exact Hq. Qed.

Lemma strip2_ne x y ds : x <> y -> strip_prefix [48; x] (48 :: y :: ds) = None.
Proof. intros H. cbn [strip_prefix]. change (48 =? 48) with true. cbv iota. replace (x =? y) with false by lia. reflexivity. Qed.

Lemma strip2_eq x ds : strip_prefix [48; x] (48 :: x :: ds) = Some ds.
Proof. apply (strip_prefix_app [48; x] ds). Qed.

(** A text of the shape [[+|-]? [0b|0o|0x]? digits] is accepted exactly when its value fits. *)
Lemma from_str_prefixed_denoted signed s v :
  text_denotes signed s v ->
  from_str_prefixed signed s = if in_range signed 256 v then Some v else None.
Proof.
  intros (sign & sg & pfx & radix & ds & dv & Hs & Hsign & Hpr & Hne & Hch & Hv).
  destruct (prefix_radix_ascii _ _ Hpr) as [Hpa Hr].
  assert (Hd : digits_of radix ds = Some dv) by (apply digits_of_chars; [lia|exact Hch]).
  assert (Hu : utf8 s = sign ++ pfx ++ ds).
  { rewrite Hs. apply utf8_ascii. apply Forall_app; split; [eapply sign_of_ascii; eassumption|].
    apply Forall_app; split; [exact Hpa|eapply digits_of_ascii; eassumption]. }
  pose proof (head_not_sign _ _ _ _ Hpr Hd) as Hhd.
  assert (Hne' : pfx ++ ds <> []) by (destruct pfx; [exact Hne|discriminate]).
  pose proof (fun r prefix => parse_spec_at signed 256 r prefix s sign sg (pfx ++ ds) Hu Hsign Hne' Hhd) as Hat.
  rewrite from_str_prefixed_eq, !Hat. subst v. clear Hat Hu Hs Hhd Hne' Hpa Hch.
  unfold strip_opt.
  change (utf8 (s2l "0b")) with [48; 98]. change (utf8 (s2l "0o")) with [48; 111].
  change (utf8 (s2l "0x")) with [48; 120].
  destruct ds as [|d0 ds0]; [congruence|]. clear Hne.
  destruct Hpr as [(-> & ->) | [(-> & ->) | [(-> & ->) | (-> & ->)]]].
  - change (s2l "0b" ++ d0 :: ds0) with (48 :: 98 :: d0 :: ds0).
    rewrite strip2_eq, !strip2_ne by lia. rewrite Hd. cbv zeta.
    destruct (in_range signed 256 (sg * Z.of_N (of_digits 2 dv))); [reflexivity|].
    cbn [or_else]. rewrite digits_of_10_pfx by lia. reflexivity.
  - change (s2l "0o" ++ d0 :: ds0) with (48 :: 111 :: d0 :: ds0).
    rewrite strip2_eq, !strip2_ne by lia. rewrite Hd. cbv zeta. cbn [or_else].
    destruct (in_range signed 256 (sg * Z.of_N (of_digits 8 dv))); [reflexivity|].
    cbn [or_else]. rewrite digits_of_10_pfx by lia. reflexivity.
  - change (s2l "0x" ++ d0 :: ds0) with (48 :: 120 :: d0 :: ds0).
    rewrite strip2_eq, !strip2_ne by lia. rewrite Hd. cbv zeta. cbn [or_else].
    destruct (in_range signed 256 (sg * Z.of_N (of_digits 16 dv))); [reflexivity|].
    cbn [or_else]. rewrite digits_of_10_pfx by lia. reflexivity.
  - cbn [app].
    rewrite (dec_no_prefix _ dv 98 Hd), (dec_no_prefix _ dv 111 Hd), (dec_no_prefix _ dv 120 Hd) by lia.
    cbn [or_else]. rewrite Hd. reflexivity.
Qed.

Lemma from_str_prefixed_complete signed s v :
  text_denotes signed s v -> in_range signed 256 v = true -> from_str_prefixed signed s = Some v.
Proof. intros H Hin. rewrite (from_str_prefixed_denoted signed s v H), Hin. reflexivity. Qed.

(** the string part of C13 as an equivalence *)
Lemma from_str_prefixed_iff signed s v :
  from_str_prefixed signed s = Some v <-> text_denotes signed s v /\ in_range signed 256 v = true.
Proof.
  split; [apply from_str_prefixed_sound|]. intros [H1 H2]. apply from_str_prefixed_complete; assumption.
Qed.

(* ------------------------------------------------------------------ *)
(** * doubles *)

Lemma f64_to_int_iff m e i :
  f64_to_int m e = Some i <-> denotes_int false (JF64 m e) i /\ (- 2 ^ 53 <= i < 2 ^ 53)%Z.
Proof.
  unfold f64_to_int, denotes_int. destruct (Z.leb_spec 0 e) as [He|He].
  - split.
    + intros H. destruct ((- 2 ^ 53 <=? m * 2 ^ e) && (m * 2 ^ e <? 2 ^ 53))%Z eqn:Ew; [|discriminate].
      inversion H; subst i. split; [left; split; [assumption|reflexivity]|lia].
    + intros [[(_ & ->) | (He' & _)] Hw]; [|lia].
      replace ((- 2 ^ 53 <=? m * 2 ^ e) && (m * 2 ^ e <? 2 ^ 53))%Z with true by lia. reflexivity.
  - assert (Hd : (0 < 2 ^ (- e))%Z) by (apply Z.pow_pos_nonneg; lia).
    set (d := (2 ^ (- e))%Z) in *. split.
    + intros H. destruct ((- 2 ^ 53 * d <=? m) && (m <? 2 ^ 53 * d))%Z eqn:Ew; [|discriminate].
      destruct (Z.eqb_spec (Z.quot m d * d) m) as [Eq|]; [|discriminate].
      inversion H; subst i. split; [right; split; [assumption|symmetry; exact Eq]|].
      rewrite <- Eq in Ew. set (q := Z.quot m d) in *. nia.
    + intros [[(He' & _) | (_ & ->)] Hw]; [lia|].
      replace ((- 2 ^ 53 * d <=? i * d) && (i * d <? 2 ^ 53 * d))%Z with true by nia.
      rewrite Z.quot_mul by lia. rewrite Z.eqb_refl. reflexivity.
Qed.

Lemma f64_denotes_sign m e i : denotes_int false (JF64 m e) i -> ((m < 0)%Z <-> (i < 0)%Z).
Proof.
  unfold denotes_int. intros [(He & ->) | (He & ->)].
  - assert (0 < 2 ^ e)%Z by (apply Z.pow_pos_nonneg; lia). nia.
  - assert (0 < 2 ^ (- e))%Z by (apply Z.pow_pos_nonneg; lia). nia.
Qed.

(* ------------------------------------------------------------------ *)
(** * [permissive_u256]: exactness *)

Lemma as_u256_small i : (0 <= i < 2 ^ 256)%Z -> as_u256 i = Z.to_N i.
Proof. intros H. unfold as_u256. rewrite Z.mod_small by exact H. reflexivity. Qed.

Lemma pow2_256_N : Z.of_N (2 ^ 256) = (2 ^ 256)%Z.
Proof. reflexivity. Qed.

Lemma exact j v :
  num_token_ok j -> permissive_u256 j = Ok v ->
  denotes_int false j (Z.of_N v) /\ v < 2 ^ 256.
Proof.
  unfold permissive_u256. intros Htok H.
  destruct j as [| b | n | z | m e | s | l | kvs]; cbn [is_negative_number ethnum_permissive_u256] in H;
    try discriminate.
  - inversion H; subst v. cbn [num_token_ok] in Htok. split; [reflexivity|].
    apply N.lt_trans with (2 ^ 64); [exact Htok|]. apply N.pow_lt_mono_r; lia.
  - cbn [num_token_ok] in Htok. replace (z <? 0)%Z with true in H by lia. discriminate.
  - destruct (Z.ltb_spec m 0) as [|Hm]; [discriminate|].
    destruct (f64_to_int m e) as [i|] eqn:Ef; [|discriminate].
    apply f64_to_int_iff in Ef as [Hden Hw].
    pose proof (f64_denotes_sign m e i Hden) as Hsg.
    assert (Hi : (0 <= i < 2 ^ 53)%Z) by lia.
    rewrite as_u256_small in H by lia. inversion H; subst v.
    rewrite Z2N.id by lia. split; [exact Hden|]. lia.
  - destruct (from_str_prefixed false s) as [z|] eqn:Ep; [|discriminate].
    inversion H; subst v. apply from_str_prefixed_sound in Ep as [Hden Hin].
    apply in_range_unsigned in Hin. change (Z.of_N 256) with 256%Z in Hin.
    rewrite Z2N.id by lia. split; [exact Hden|]. lia.
Qed.

(* ------------------------------------------------------------------ *)
(** * completeness: every spelling of an integer below 2^256 is accepted with that value *)

Lemma string_iff s v :
  permissive_u256 (JStr s) = Ok v <-> text_denotes false s (Z.of_N v) /\ v < 2 ^ 256.
Proof.
  split; [intros H; apply (exact (JStr s) v I H)|].
  intros [H Hv]. unfold permissive_u256. cbn [is_negative_number ethnum_permissive_u256].
  rewrite (from_str_prefixed_complete false s _ H).
  - rewrite N2Z.id. reflexivity.
  - apply in_range_unsigned. change (Z.of_N 256) with 256%Z. lia.
Qed.

Lemma complete_string s v :
  text_denotes false s (Z.of_N v) -> v < 2 ^ 256 -> permissive_u256 (JStr s) = Ok v.
Proof. intros H Hv. apply string_iff. split; assumption. Qed.

Lemma digit_chars_dec l : digits_ok 10 l -> Forall2 (digit_char 10) (map (fun d => 48 + d) l) l.
Proof.
  induction 1 as [|d r Hd _ IH]; [constructor|]. cbn [map]. constructor; [|exact IH].
  unfold digit_char. lia.
Qed.

Lemma digit_chars_hex_lower l : digits_ok 16 l -> Forall2 (digit_char 16) (map hex_digit l) l.
Proof.
  induction 1 as [|d r Hd _ IH]; [constructor|]. cbn [map]. constructor; [|exact IH].
  unfold digit_char, hex_digit. destruct (N.ltb_spec d 10); lia.
Qed.

Lemma digit_chars_hex_upper l : digits_ok 16 l -> Forall2 (digit_char 16) (map hex_digit_upper l) l.
Proof.
  induction 1 as [|d r Hd _ IH]; [constructor|]. cbn [map]. constructor; [|exact IH].
  unfold digit_char, hex_digit_upper. destruct (N.ltb_spec d 10); lia.
Qed.

Lemma to_upper_hex_digit d : d < 16 -> to_upper (hex_digit d) = hex_digit_upper d.
Proof.
  intros Hd. unfold to_upper, is_lower, hex_digit, hex_digit_upper.
  destruct (N.ltb_spec d 10).
  - replace ((97 <=? 48 + d) && (48 + d <=? 122)) with false by lia. reflexivity.
  - replace ((97 <=? 87 + d) && (87 + d <=? 122)) with true by lia. lia.
Qed.

Lemma map_to_upper_hex_digit l : digits_ok 16 l -> map to_upper (map hex_digit l) = map hex_digit_upper l.
Proof.
  induction 1 as [|d r Hd _ IH]; [reflexivity|]. cbn [map]. rewrite IH, to_upper_hex_digit by exact Hd.
  reflexivity.
Qed.

Lemma decimal_denotes signed v : text_denotes signed (decimal v) (Z.of_N v).
Proof.
  exists [], 1%Z, [], 10, (decimal v), (if v =? 0 then [0] else to_digits 10 v).
  split; [reflexivity|]. split; [left; split; reflexivity|].
  split; [right; right; right; split; reflexivity|].
  split; [apply decimal_nonempty|]. unfold decimal.
  destruct (N.eqb_spec v 0) as [->|Hv].
  - split; [|reflexivity]. constructor; [|constructor]. unfold digit_char. lia.
  - split; [apply digit_chars_dec; apply to_digits_ok; lia|].
    rewrite of_to_digits by lia. lia.
Qed.

Lemma hex_digits_denote signed ds dv :
  ds <> [] -> Forall2 (digit_char 16) ds dv ->
  text_denotes signed (s2l "0x" ++ ds) (Z.of_N (of_digits 16 dv)).
Proof.
  intros Hne Hch. exists [], 1%Z, (s2l "0x"), 16, ds, dv.
  split; [reflexivity|]. split; [left; split; reflexivity|].
  split; [right; right; left; split; reflexivity|].
  split; [exact Hne|]. split; [exact Hch|lia].
Qed.

Lemma hex_min_denotes signed upper v : text_denotes signed (s2l "0x" ++ hex_min upper v) (Z.of_N v).
Proof.
  unfold hex_min. destruct (N.eqb_spec v 0) as [->|Hv].
  - apply (hex_digits_denote signed [48] [0]); [discriminate|].
    constructor; [|constructor]. unfold digit_char. lia.
  - rewrite <- (of_to_digits 16 v) at 2 by lia. apply hex_digits_denote.
    + intros E. apply map_eq_nil in E. revert E. apply to_digits_nonempty; lia.
    + destruct upper; [apply digit_chars_hex_upper|apply digit_chars_hex_lower]; apply to_digits_ok; lia.
Qed.

(** the two nibbles of every byte *)
Definition nibbles (bs : bytes) : list N := flat_map (fun b => [b / 16; b mod 16]) bs.

Lemma hex_encode_nibbles bs : hex_encode bs = map hex_digit (nibbles bs).
Proof. induction bs as [|b r IH]; [reflexivity|]. cbn [hex_encode nibbles flat_map app map]. fold (nibbles r). rewrite IH. reflexivity. Qed.

Lemma nibbles_ok bs : bytes_ok bs -> digits_ok 16 (nibbles bs).
Proof.
  induction 1 as [|b r Hb _ IH]; [constructor|]. cbn [nibbles flat_map app]. fold (nibbles r).
  constructor; [lia|]. constructor; [lia|exact IH].
Qed.

Lemma nibbles_app a b : nibbles (a ++ b) = nibbles a ++ nibbles b.
Proof. unfold nibbles. apply flat_map_app. Qed.

Lemma nibbles_value bs : of_digits 16 (nibbles bs) = of_digits 256 bs.
Proof.
  induction bs as [|b r IH] using rev_ind; [reflexivity|].
  rewrite nibbles_app, of_digits_snoc. cbn [nibbles flat_map app].
  change [b / 16; b mod 16] with ([b / 16] ++ [b mod 16]). rewrite app_assoc, !of_digits_snoc, IH. lia.
Qed.

Lemma nibbles_nonempty bs : bs <> [] -> nibbles bs <> [].
Proof. destruct bs; [congruence|discriminate]. Qed.

Lemma pow_256_32 : 256 ^ N.of_nat 32 = 2 ^ 256.
Proof. reflexivity. Qed.

Lemma hex_fixed_denotes signed v :
  v < 2 ^ 256 -> text_denotes signed (s2l "0x" ++ hex_encode (be_fixed 32 v)) (Z.of_N v).
Proof.
  intros Hv. rewrite hex_encode_nibbles.
  rewrite <- (be_val_fixed 32 v) at 2 by (rewrite pow_256_32; exact Hv).
  unfold be_val. rewrite <- nibbles_value. apply hex_digits_denote.
  - intros E. apply map_eq_nil in E. revert E. apply nibbles_nonempty.
    intros E. apply (f_equal (@length N)) in E. rewrite be_fixed_length in E. discriminate.
  - apply digit_chars_hex_lower. apply nibbles_ok. apply be_fixed_ok.
Qed.

Lemma hex_fixed_upper_denotes signed v :
  v < 2 ^ 256 -> text_denotes signed (s2l "0x" ++ map to_upper (hex_encode (be_fixed 32 v))) (Z.of_N v).
Proof.
  intros Hv. rewrite hex_encode_nibbles.
  rewrite map_to_upper_hex_digit by (apply nibbles_ok; apply be_fixed_ok).
  rewrite <- (be_val_fixed 32 v) at 2 by (rewrite pow_256_32; exact Hv).
  unfold be_val. rewrite <- nibbles_value. apply hex_digits_denote.
  - intros E. apply map_eq_nil in E. revert E. apply nibbles_nonempty.
    intros E. apply (f_equal (@length N)) in E. rewrite be_fixed_length in E. discriminate.
  - apply digit_chars_hex_upper. apply nibbles_ok. apply be_fixed_ok.
Qed.

Lemma complete_decimal v : v < 2 ^ 256 -> permissive_u256 (JStr (decimal v)) = Ok v.
Proof. intros Hv. apply complete_string; [apply decimal_denotes|exact Hv]. Qed.

Lemma complete_hex upper v : v < 2 ^ 256 -> permissive_u256 (JStr (s2l "0x" ++ hex_min upper v)) = Ok v.
Proof. intros Hv. apply complete_string; [apply hex_min_denotes|exact Hv]. Qed.

Lemma complete_hex_fixed v :
  v < 2 ^ 256 ->
  permissive_u256 (JStr (s2l "0x" ++ hex_encode (be_fixed 32 v))) = Ok v
  /\ permissive_u256 (JStr (s2l "0x" ++ map to_upper (hex_encode (be_fixed 32 v)))) = Ok v.
Proof.
  intros Hv. split; apply complete_string;
    [apply hex_fixed_denotes|exact Hv|apply hex_fixed_upper_denotes|exact Hv]; exact Hv.
Qed.

Lemma complete_hex_digits ds dv :
  ds <> [] -> Forall2 (digit_char 16) ds dv -> of_digits 16 dv < 2 ^ 256 ->
  permissive_u256 (JStr (s2l "0x" ++ ds)) = Ok (of_digits 16 dv).
Proof. intros Hne Hch Hv. apply complete_string; [apply hex_digits_denote; assumption|exact Hv]. Qed.

Lemma complete_u64 n : n < 2 ^ 64 -> permissive_u256 (JU64 n) = Ok n.
Proof. reflexivity. Qed.

Lemma complete_f64 m e v :
  denotes_int false (JF64 m e) (Z.of_N v) -> v < 2 ^ 53 -> permissive_u256 (JF64 m e) = Ok v.
Proof.
  intros Hden Hv. unfold permissive_u256. cbn [is_negative_number ethnum_permissive_u256].
  pose proof (f64_denotes_sign m e _ Hden) as Hsg.
  replace (m <? 0)%Z with false by lia.
  assert (Hf : f64_to_int m e = Some (Z.of_N v)) by (apply f64_to_int_iff; split; [exact Hden|lia]).
  rewrite Hf, as_u256_small by lia. rewrite N2Z.id. reflexivity.
Qed.

Lemma same_integer v :
  v < 2 ^ 256 ->
  permissive_u256 (JStr (decimal v)) = Ok v
  /\ permissive_u256 (JStr (s2l "0x" ++ hex_min false v)) = Ok v
  /\ (v < 2 ^ 64 -> permissive_u256 (JU64 v) = Ok v)
  /\ (forall m e, v < 2 ^ 53 -> denotes_int false (JF64 m e) (Z.of_N v) ->
        permissive_u256 (JF64 m e) = Ok v).
Proof.
  intros Hv. split; [apply complete_decimal; exact Hv|]. split; [apply complete_hex; exact Hv|].
  split; [apply complete_u64|]. intros m e H53 Hden. apply complete_f64; assumption.
Qed.

(* ------------------------------------------------------------------ *)
(** * rejections *)

Lemma reject_negative_int z : (z < 0)%Z -> permissive_u256 (JI64 z) = Err.
Proof. intros H. unfold permissive_u256. cbn [is_negative_number]. replace (z <? 0)%Z with true by lia. reflexivity. Qed.

Lemma reject_negative_float m e : (m < 0)%Z -> permissive_u256 (JF64 m e) = Err.
Proof. intros H. unfold permissive_u256. cbn [is_negative_number]. replace (m <? 0)%Z with true by lia. reflexivity. Qed.

(** a string that is not of the shape [+? [0b|0o|0x]? digits] is refused *)
Lemma reject_not_number s : (forall v, ~ text_denotes false s v) -> permissive_u256 (JStr s) = Err.
Proof.
  intros H. unfold permissive_u256. cbn [is_negative_number ethnum_permissive_u256].
  destruct (from_str_prefixed false s) as [z|] eqn:E; [|reflexivity].
  apply from_str_prefixed_sound in E as [Hd _]. exfalso. exact (H z Hd).
Qed.

Lemma unsigned_sign sign sg : sign_of false sign sg -> (sign = [] \/ sign = [43]) /\ sg = 1%Z.
Proof. intros [(-> & ->) | [(-> & ->) | (Hf & _)]]; [auto|auto|discriminate]. Qed.

Lemma reject_negative_string t : permissive_u256 (JStr (s2l "-" ++ t)) = Err.
Proof.
  apply reject_not_number.
  intros v (sign & sg & pfx & radix & ds & dv & Hs & Hsign & Hpr & Hne & Hch & _).
  destruct (prefix_radix_ascii _ _ Hpr) as [_ Hr].
  assert (Hd : digits_of radix ds = Some dv) by (apply digits_of_chars; [lia|exact Hch]).
  apply unsigned_sign in Hsign as [[-> | ->] _].
  - cbn [app] in Hs. destruct (head_not_sign _ _ _ _ Hpr Hd 45 t (eq_sym Hs)) as [_ H]. congruence.
  - inversion Hs.
Qed.

Lemma f64_denotes_unique m e i i' :
  denotes_int false (JF64 m e) i -> denotes_int false (JF64 m e) i' -> i = i'.
Proof.
  unfold denotes_int. intros [(He & ->) | (He & H1)] [(He' & ->) | (He' & H2)]; try lia.
  assert (0 < 2 ^ (- e))%Z by (apply Z.pow_pos_nonneg; lia). nia.
Qed.

Lemma reject_fraction m e : (forall i, ~ denotes_int false (JF64 m e) i) -> permissive_u256 (JF64 m e) = Err.
Proof.
  intros H. unfold permissive_u256. cbn [is_negative_number ethnum_permissive_u256].
  destruct (m <? 0)%Z; [reflexivity|].
  destruct (f64_to_int m e) as [i|] eqn:E; [|reflexivity].
  apply f64_to_int_iff in E as [Hd _]. exfalso. exact (H i Hd).
Qed.

Lemma reject_big_float m e i :
  denotes_int false (JF64 m e) i -> (2 ^ 53 <= i)%Z -> permissive_u256 (JF64 m e) = Err.
Proof.
  intros Hd Hi. unfold permissive_u256. cbn [is_negative_number ethnum_permissive_u256].
  destruct (m <? 0)%Z; [reflexivity|].
  destruct (f64_to_int m e) as [i'|] eqn:E; [|reflexivity].
  apply f64_to_int_iff in E as [Hd' Hw]. rewrite (f64_denotes_unique m e i i' Hd Hd') in Hi. lia.
Qed.

Lemma reject_too_big s v : text_denotes false s v -> (2 ^ 256 <= v)%Z -> permissive_u256 (JStr s) = Err.
Proof.
  intros Hd Hv. unfold permissive_u256. cbn [is_negative_number ethnum_permissive_u256].
  rewrite (from_str_prefixed_denoted false s v Hd).
  replace (in_range false 256 v) with false; [reflexivity|].
  symmetry. apply not_true_iff_false. rewrite in_range_unsigned. change (Z.of_N 256) with 256%Z. lia.
Qed.

Lemma reject_too_big_decimal v : 2 ^ 256 <= v -> permissive_u256 (JStr (decimal v)) = Err.
Proof. intros Hv. apply (reject_too_big _ (Z.of_N v)); [apply decimal_denotes|lia]. Qed.

Lemma reject_too_big_hex upper v : 2 ^ 256 <= v -> permissive_u256 (JStr (s2l "0x" ++ hex_min upper v)) = Err.
Proof. intros Hv. apply (reject_too_big _ (Z.of_N v)); [apply hex_min_denotes|lia]. Qed.

Lemma reject_too_big_hex_digits ds dv :
  ds <> [] -> Forall2 (digit_char 16) ds dv -> 2 ^ 256 <= of_digits 16 dv ->
  permissive_u256 (JStr (s2l "0x" ++ ds)) = Err.
Proof. intros Hne Hch Hv. apply (reject_too_big _ (Z.of_N (of_digits 16 dv))); [apply hex_digits_denote; assumption|lia]. Qed.

Lemma reject_empty : permissive_u256 (JStr []) = Err /\ permissive_u256 (JStr (s2l "0x")) = Err.
Proof. split; vm_compute; reflexivity. Qed.

Lemma reject_kind :
  permissive_u256 JNull = Err /\ (forall b, permissive_u256 (JBool b) = Err)
  /\ (forall l, permissive_u256 (JArr l) = Err) /\ (forall kvs, permissive_u256 (JObj kvs) = Err).
Proof. repeat split. Qed.

(** characters that are a digit in no radix up to 36 (not [0-9a-zA-Z]) *)
Definition alnum (c : N) : Prop := exists d, digit_char 36 c d.

Lemma digit_char_alnum radix c d : radix <= 36 -> digit_char radix c d -> alnum c.
Proof. intros Hr (Hd & H). exists d. split; [lia|exact H]. Qed.

Lemma text_denotes_chars s v :
  text_denotes false s v ->
  exists sign rest, s = sign ++ rest /\ (sign = [] \/ sign = [43]) /\ Forall alnum rest.
Proof.
  intros (sign & sg & pfx & radix & ds & dv & Hs & Hsign & Hpr & Hne & Hch & _).
  destruct (prefix_radix_ascii _ _ Hpr) as [_ Hr].
  apply unsigned_sign in Hsign as [Hsign _].
  exists sign, (pfx ++ ds). split; [exact Hs|]. split; [exact Hsign|].
  apply Forall_app; split.
  - assert (A : forall c d, to_digit 36 c = Some d -> alnum c).
    { intros c d H. exists d. apply (to_digit_spec 36 c d); [lia|exact H]. }
    destruct Hpr as [(-> & _) | [(-> & _) | [(-> & _) | (-> & _)]]].
    + change (s2l "0b") with [48; 98].
      constructor; [apply (A 48 0); reflexivity|]. constructor; [apply (A 98 11); reflexivity|constructor].
    + change (s2l "0o") with [48; 111].
      constructor; [apply (A 48 0); reflexivity|]. constructor; [apply (A 111 24); reflexivity|constructor].
    + change (s2l "0x") with [48; 120].
      constructor; [apply (A 48 0); reflexivity|]. constructor; [apply (A 120 33); reflexivity|constructor].
    + constructor.
  - clear Hs Hne. induction Hch as [|c d r l Hc _ IH]; constructor; [|exact IH].
    eapply digit_char_alnum; [|exact Hc]. lia.
Qed.

(** any character outside [0-9a-zA-Z] (other than a leading [+]) makes the string an error:
    white space, [_], [.], [-], non-ASCII, ... *)
Lemma reject_bad_char a c b :
  ~ alnum c -> (a = [] -> c <> 43) -> permissive_u256 (JStr (a ++ c :: b)) = Err.
Proof.
  intros Hc Ha. apply reject_not_number. intros v Hd.
  apply text_denotes_chars in Hd as (sign & rest & Hs & Hsign & Hall).
  rewrite Forall_forall in Hall.
  destruct a as [|x a'].
  - cbn [app] in Hs. destruct Hsign as [-> | ->].
    + cbn [app] in Hs. apply Hc, Hall. rewrite <- Hs. left; reflexivity.
    + inversion Hs. apply (Ha eq_refl). assumption.
  - destruct Hsign as [-> | ->].
    + cbn [app] in Hs. apply Hc, Hall. rewrite <- Hs. right. apply in_elt.
    + cbn [app] in Hs. inversion Hs as [[Hx Hr]]. apply Hc, Hall. rewrite <- Hr. apply in_elt.
Qed.

(** the text does not start with one of the three radix prefixes *)
Definition no_radix_prefix (body : text) : Prop :=
  forall t, body <> s2l "0b" ++ t /\ body <> s2l "0o" ++ t /\ body <> s2l "0x" ++ t.

Lemma not_dec_digit q d : 57 < q -> ~ digit_char 10 q d.
Proof. unfold digit_char. lia. Qed.

(** a character that is not a digit of the radix selected by the prefix *)
Lemma reject_bad_digit_gen sign sg pfx radix a c b :
  sign_of false sign sg -> prefix_radix pfx radix ->
  (forall r, pfx ++ a ++ c :: b <> 43 :: r) ->
  (pfx = [] -> no_radix_prefix (a ++ c :: b)) ->
  (forall d, ~ digit_char radix c d) ->
  permissive_u256 (JStr (sign ++ pfx ++ a ++ c :: b)) = Err.
Proof.
  intros Hsign Hpr Hplus Hnop Hc. apply reject_not_number.
  intros v (sign' & sg' & pfx' & radix' & ds' & dv' & Hs & Hsign' & Hpr' & Hne' & Hch' & _).
  destruct (prefix_radix_ascii _ _ Hpr') as [_ Hr'].
  assert (Hd' : digits_of radix' ds' = Some dv') by (apply digits_of_chars; [lia|exact Hch']).
  pose proof (head_not_sign _ _ _ _ Hpr' Hd') as Hhd'.
  apply unsigned_sign in Hsign as [Hsign _]. apply unsigned_sign in Hsign' as [Hsign' _].
  set (body := a ++ c :: b) in *.
  assert (HR : pfx ++ body = pfx' ++ ds').
  { destruct Hsign as [-> | ->], Hsign' as [-> | ->]; cbn [app] in Hs.
    - exact Hs.
    - exfalso. exact (Hplus _ Hs).
    - exfalso. destruct (Hhd' 43 (pfx ++ body) (eq_sym Hs)) as [H _]. congruence.
    - inversion Hs. reflexivity. }
  clear Hs Hsign Hsign' Hplus Hhd' Hd'.
  assert (Hfin : radix = radix' -> body = ds' -> False).
  { intros <- <-. subst body. apply Forall2_app_inv_l in Hch' as (l1 & l2 & _ & H2 & _).
    inversion H2 as [|? d ? ? Hcd _]; subst. exact (Hc d Hcd). }
  destruct Hpr as [(-> & ->) | [(-> & ->) | [(-> & ->) | (-> & ->)]]];
  destruct Hpr' as [(-> & ->) | [(-> & ->) | [(-> & ->) | (-> & ->)]]];
    try (change (s2l "0b") with [48; 98] in HR); try (change (s2l "0o") with [48; 111] in HR);
    try (change (s2l "0x") with [48; 120] in HR); cbn [app] in HR;
    try (inversion HR; apply Hfin; [reflexivity|assumption]);
    try (inversion HR; fail).
  - (* 0b.. read as decimal *)
    subst ds'. inversion Hch' as [|? ? ? ? _ H2]; subst. inversion H2 as [|? d ? ? Hq _]; subst.
    exact (not_dec_digit 98 d ltac:(lia) Hq).
  - subst ds'. inversion Hch' as [|? ? ? ? _ H2]; subst. inversion H2 as [|? d ? ? Hq _]; subst.
    exact (not_dec_digit 111 d ltac:(lia) Hq).
  - subst ds'. inversion Hch' as [|? ? ? ? _ H2]; subst. inversion H2 as [|? d ? ? Hq _]; subst.
    exact (not_dec_digit 120 d ltac:(lia) Hq).
  - destruct (Hnop eq_refl ds') as (H & _ & _). apply H. exact HR.
  - destruct (Hnop eq_refl ds') as (_ & H & _). apply H. exact HR.
  - destruct (Hnop eq_refl ds') as (_ & _ & H). apply H. exact HR.
Qed.

Lemma reject_bad_digit_prefixed sign sg pfx radix a c b :
  sign_of false sign sg -> prefix_radix pfx radix -> pfx <> [] ->
  (forall d, ~ digit_char radix c d) ->
  permissive_u256 (JStr (sign ++ pfx ++ a ++ c :: b)) = Err.
Proof.
  intros Hsign Hpr Hne Hc. eapply reject_bad_digit_gen; try eassumption.
  - intros r H. destruct Hpr as [(-> & _) | [(-> & _) | [(-> & _) | (-> & _)]]];
      try congruence; inversion H.
  - intros E. congruence.
Qed.

Lemma reject_bad_digit_decimal sign sg a c b :
  sign_of false sign sg ->
  (forall r, a ++ c :: b <> 43 :: r) -> no_radix_prefix (a ++ c :: b) ->
  (forall d, ~ digit_char 10 c d) ->
  permissive_u256 (JStr (sign ++ a ++ c :: b)) = Err.
Proof.
  intros Hsign Hplus Hnop Hc.
  apply (reject_bad_digit_gen sign sg [] 10 a c b Hsign); auto.
  right; right; right; split; reflexivity.
Qed.

(* ------------------------------------------------------------------ *)
(** * byte fields *)

Lemma hexs_ascii h : forallb is_hex h = true -> all_ascii h.
Proof.
  intros H. apply Forall_forall. intros c Hc. rewrite forallb_forall in H.
  specialize (H c Hc). unfold is_hex in H. destruct (hex_val c) eqn:E; [|discriminate].
  eapply hex_val_ascii; eassumption.
Qed.

Lemma hexs_no_0x h : forallb is_hex h = true -> strip_prefix (s2l "0x") h = None.
Proof.
  intros H. change (s2l "0x") with [48; 120].
  destruct h as [|c [|d r]]; cbn [strip_prefix].
  - reflexivity.
  - destruct (48 =? c); reflexivity.
  - destruct (48 =? c); [|reflexivity]. destruct (N.eqb_spec 120 d) as [<-|]; [|reflexivity].
    cbn [forallb] in H. change (is_hex 120) with false in H. rewrite andb_false_r in H. discriminate.
Qed.

(** what a successful [hex::decode] of the UTF-8 bytes of a text says about the text *)
Lemma hex_decode_utf8 s b :
  hex_decode (utf8 s) = Some b ->
  bytes_ok b /\ map to_lower s = hex_encode b /\ length s = (2 * length b)%nat /\ utf8 s = s.
Proof.
  intros H. pose proof (hex_decode_all_hex _ _ H) as Hx.
  pose proof (utf8_ascii_inv s (hexs_ascii _ Hx)) as Hu. rewrite Hu in H.
  destruct (hex_decode_sound _ _ H) as (H1 & H2 & H3). auto.
Qed.

Lemma bytes_iff j b :
  bytes_field j = Ok b <-> exists s, j = JStr (s2l "0x" ++ s) /\ hex_decode (utf8 s) = Some b.
Proof.
  split.
  - intros H. destruct j as [| | | | | s | |]; cbn [bytes_field] in H; try discriminate.
    destruct (strip_prefix (s2l "0x") s) as [rest|] eqn:E; [|discriminate].
    apply strip_prefix_some in E. subst s. exists rest. split; [reflexivity|].
    destruct (hex_decode (utf8 rest)); [inversion H; reflexivity|discriminate].
  - intros (s & -> & H). cbn [bytes_field]. rewrite strip_prefix_app, H. reflexivity.
Qed.

Lemma bytes_sound j b :
  bytes_field j = Ok b ->
  bytes_ok b /\ exists s, j = JStr (s2l "0x" ++ s) /\ map to_lower s = hex_encode b
                          /\ length s = (2 * length b)%nat.
Proof.
  intros H. apply bytes_iff in H as (s & -> & H).
  destruct (hex_decode_utf8 _ _ H) as (H1 & H2 & H3 & _). split; [exact H1|]. exists s. auto.
Qed.

Lemma bytes_complete b s :
  bytes_ok b -> map to_lower s = hex_encode b -> bytes_field (JStr (s2l "0x" ++ s)) = Ok b.
Proof.
  intros Hb Hs. apply bytes_iff. exists s. split; [reflexivity|].
  assert (Hx : forallb is_hex s = true).
  { eapply hex_decode_all_hex. apply hex_decode_complete; eassumption. }
  rewrite (utf8_ascii s (hexs_ascii _ Hx)). apply hex_decode_complete; assumption.
Qed.

Lemma bytes_reject_no_prefix s : strip_prefix (s2l "0x") s = None -> bytes_field (JStr s) = Err.
Proof. intros H. cbn [bytes_field]. rewrite H. reflexivity. Qed.

Lemma bytes_reject_odd s :
  Nat.odd (length (utf8 s)) = true -> bytes_field (JStr (s2l "0x" ++ s)) = Err.
Proof. intros H. cbn [bytes_field]. rewrite strip_prefix_app, hex_decode_odd by exact H. reflexivity. Qed.

Lemma bytes_reject_nonhex s :
  forallb is_hex (utf8 s) = false -> bytes_field (JStr (s2l "0x" ++ s)) = Err.
Proof. intros H. cbn [bytes_field]. rewrite strip_prefix_app, hex_decode_bad_char by exact H. reflexivity. Qed.

Lemma bytes_reject_kind j : (forall s, j <> JStr s) -> bytes_field j = Err.
Proof. intros H. destruct j; try reflexivity. exfalso. eapply H; reflexivity. Qed.

Lemma bytearray_sound k j b :
  bytearray_field k j = Ok b -> length b = k /\ bytes_field j = Ok b.
Proof.
  intros H. destruct j as [| | | | | s | |]; cbn [bytearray_field] in H; try discriminate.
  cbn [bytes_field]. destruct (strip_prefix (s2l "0x") s) as [rest|]; [|discriminate].
  unfold hex_decode_fixed in H. destruct (hex_decode (utf8 rest)) as [bs|]; [|discriminate].
  destruct (Nat.eqb_spec (length bs) k); [|discriminate]. inversion H; subst. auto.
Qed.

Lemma bytearray_complete k j b :
  bytes_field j = Ok b -> length b = k -> bytearray_field k j = Ok b.
Proof.
  intros H Hk. destruct j as [| | | | | s | |]; cbn [bytes_field] in H; try discriminate.
  cbn [bytearray_field]. destruct (strip_prefix (s2l "0x") s) as [rest|]; [|discriminate].
  unfold hex_decode_fixed. destruct (hex_decode (utf8 rest)) as [bs|]; [|discriminate].
  inversion H; subst. rewrite Nat.eqb_refl. reflexivity.
Qed.

Lemma bytearray_reject_len k j b : bytes_field j = Ok b -> length b <> k -> bytearray_field k j = Err.
Proof.
  intros H Hk. destruct j as [| | | | | s | |]; cbn [bytes_field] in H; try discriminate.
  cbn [bytearray_field]. destruct (strip_prefix (s2l "0x") s) as [rest|]; [|discriminate].
  unfold hex_decode_fixed. destruct (hex_decode (utf8 rest)) as [bs|]; [|discriminate].
  inversion H; subst. destruct (Nat.eqb_spec (length b) k); [contradiction|reflexivity].
Qed.

(** addresses: [0x], one more optional [0x], exactly 40 hex digits of either case *)
Lemma address_sound j b :
  address_field j = Ok b ->
  length b = 20%nat /\ bytes_ok b /\
  exists s, (j = JStr (s2l "0x" ++ s) \/ j = JStr (s2l "0x0x" ++ s))
            /\ length s = 40%nat /\ map to_lower s = hex_encode b.
Proof.
  intros H. destruct j as [| | | | | s | |]; cbn [address_field] in H; try discriminate.
  destruct (strip_prefix (s2l "0x") s) as [rest|] eqn:E; [|discriminate].
  apply strip_prefix_some in E. subst s. unfold ethaddr_hex_decode in H.
  set (s' := match strip_prefix (s2l "0x") rest with Some r => r | None => rest end) in *.
  assert (Hs' : rest = s' \/ rest = s2l "0x" ++ s').
  { subst s'. destruct (strip_prefix (s2l "0x") rest) as [r|] eqn:E2; [|left; reflexivity].
    right. apply strip_prefix_some in E2. exact E2. }
  clearbody s'.
  destruct (Nat.eqb_spec (length (utf8 s')) (20 * 2)) as [Hl|]; [|discriminate].
  destruct (hex_decode (utf8 s')) as [bs|] eqn:Hd; [|discriminate]. inversion H; subst bs.
  destruct (hex_decode_utf8 _ _ Hd) as (H1 & H2 & H3 & H4). rewrite H4 in Hl.
  split; [lia|]. split; [exact H1|]. exists s'. split.
  - destruct Hs' as [-> | ->]; [left; reflexivity|right; reflexivity].
  - split; [exact Hl|exact H2].
Qed.

Lemma address_complete b s :
  bytes_ok b -> length b = 20%nat -> map to_lower s = hex_encode b ->
  address_field (JStr (s2l "0x" ++ s)) = Ok b /\ address_field (JStr (s2l "0x0x" ++ s)) = Ok b.
Proof.
  intros Hb Hl Hs.
  assert (Hx : forallb is_hex s = true).
  { eapply hex_decode_all_hex. apply hex_decode_complete; eassumption. }
  assert (Hlen : length s = 40%nat).
  { rewrite <- (map_length to_lower), Hs, hex_encode_length. lia. }
  assert (He : ethaddr_hex_decode 20 s = Some b).
  { unfold ethaddr_hex_decode. rewrite (hexs_no_0x _ Hx), (utf8_ascii s (hexs_ascii _ Hx)), Hlen.
    cbn [Nat.eqb Nat.mul Nat.add]. apply hex_decode_complete; assumption. }
  assert (He2 : ethaddr_hex_decode 20 (s2l "0x" ++ s) = Some b).
  { unfold ethaddr_hex_decode. rewrite strip_prefix_app, (utf8_ascii s (hexs_ascii _ Hx)), Hlen.
    cbn [Nat.eqb Nat.mul Nat.add]. apply hex_decode_complete; assumption. }
  split.
  - cbn [address_field]. rewrite strip_prefix_app, He. reflexivity.
  - change (s2l "0x0x" ++ s) with (s2l "0x" ++ (s2l "0x" ++ s)).
    cbn [address_field]. rewrite strip_prefix_app, He2. reflexivity.
Qed.

Lemma address_reject_no_prefix s : strip_prefix (s2l "0x") s = None -> address_field (JStr s) = Err.
Proof. intros H. cbn [address_field]. rewrite H. reflexivity. Qed.

Lemma address_reject_kind j : (forall s, j <> JStr s) -> address_field j = Err.
Proof. intros H. destruct j; try reflexivity. exfalso. eapply H; reflexivity. Qed.

Lemma opt_address_sound j b :
  opt_address_field j = Ok (Some b) -> exists j', j = Some j' /\ address_field j' = Ok b.
Proof.
  unfold opt_address_field. intros H. destruct j as [j'|]; [|discriminate].
  exists j'. split; [reflexivity|].
  destruct j'; try discriminate; unfold omap in H;
    (destruct (address_field _) eqn:E; cbn [bind] in H; try discriminate; inversion H; reflexivity).
Qed.

Lemma opt_address_none : opt_address_field None = Ok None /\ opt_address_field (Some JNull) = Ok None.
Proof. split; reflexivity. Qed.

(* ------------------------------------------------------------------ *)
(** * optional numbers and the chain id *)

Lemma numopt_none : numopt None = Ok None /\ numopt (Some JNull) = Ok None.
Proof. split; reflexivity. Qed.

Lemma numopt_some j c : numopt j = Ok (Some c) -> exists j', j = Some j' /\ permissive_u256 j' = Ok c.
Proof.
  unfold numopt. intros H. destruct j as [j'|]; [|discriminate].
  exists j'. split; [reflexivity|].
  destruct j'; try discriminate; unfold omap in H;
    (destruct (permissive_u256 _) eqn:E; cbn [bind] in H; try discriminate; inversion H; reflexivity).
Qed.

Lemma numopt_of j c : j <> JNull -> permissive_u256 j = Ok c -> numopt (Some j) = Ok (Some c).
Proof. intros Hn H. unfold numopt. destruct j; try congruence; rewrite H; reflexivity. Qed.

Lemma chainid_sound j c :
  chainid_field j = Ok (Some c) -> numopt j = Ok (Some c) /\ 2 * c + 36 < 2 ^ 256.
Proof.
  unfold chainid_field. intros H. apply bind_ok in H as (o & Hn & H).
  destruct o as [c'|]; [|discriminate].
  destruct (N.ltb_spec chainid_max c'); [discriminate|]. inversion H; subst c'.
  split; [exact Hn|]. unfold chainid_max in *. lia.
Qed.

Lemma chainid_complete j c :
  numopt j = Ok (Some c) -> 2 * c + 36 < 2 ^ 256 -> chainid_field j = Ok (Some c).
Proof.
  intros Hn Hc. unfold chainid_field. rewrite Hn. cbn [bind].
  destruct (N.ltb_spec chainid_max c) as [Hlt|]; [|reflexivity].
  unfold chainid_max in Hlt. lia.
Qed.

Lemma chainid_reject j c :
  numopt j = Ok (Some c) -> 2 ^ 256 <= 2 * c + 36 -> chainid_field j = Err.
Proof.
  intros Hn Hc. unfold chainid_field. rewrite Hn. cbn [bind].
  destruct (N.ltb_spec chainid_max c) as [|Hge]; [reflexivity|].
  unfold chainid_max in Hge. lia.
Qed.

(* ------------------------------------------------------------------ *)
(** * totality: never a panic *)

Ltac graceful_tac := split; discriminate.

Lemma permissive_u256_total j : graceful (permissive_u256 j).
Proof.
  unfold permissive_u256. destruct (is_negative_number j); [apply graceful_err|].
  destruct j; cbn [ethnum_permissive_u256]; try apply graceful_err; try apply graceful_ok.
  - destruct (f64_to_int m e); [apply graceful_ok|apply graceful_err].
  - destruct (from_str_prefixed false s); [apply graceful_ok|apply graceful_err].
Qed.

Lemma ethnum_permissive_i256_total j : graceful (ethnum_permissive_i256 j).
Proof.
  destruct j; cbn [ethnum_permissive_i256]; try apply graceful_err; try apply graceful_ok.
  - destruct (f64_to_int m e); [apply graceful_ok|apply graceful_err].
  - destruct (from_str_prefixed true s); [apply graceful_ok|apply graceful_err].
Qed.

Lemma omap_total {A B} (f : A -> B) x : graceful x -> graceful (omap f x).
Proof. intros H. unfold omap. apply graceful_bind; [exact H|]. intros; apply graceful_ok. Qed.

Lemma numopt_total j : graceful (numopt j).
Proof.
  unfold numopt. destruct j as [j|]; [|apply graceful_ok].
  destruct j; try apply graceful_ok; apply omap_total; apply permissive_u256_total.
Qed.

Lemma chainid_total j : graceful (chainid_field j).
Proof.
  unfold chainid_field. apply graceful_bind; [apply numopt_total|].
  intros [c|] _; [|apply graceful_ok]. destruct (chainid_max <? c); [apply graceful_err|apply graceful_ok].
Qed.

Lemma of_option_total {A} (x : option A) : graceful (of_option x).
Proof. destruct x; [apply graceful_ok|apply graceful_err]. Qed.

Lemma bytes_total j : graceful (bytes_field j).
Proof.
  destruct j; cbn [bytes_field]; try apply graceful_err.
  destruct (strip_prefix (s2l "0x") s); [apply of_option_total|apply graceful_err].
Qed.

Lemma bytearray_total k j : graceful (bytearray_field k j).
Proof.
  destruct j; cbn [bytearray_field]; try apply graceful_err.
  destruct (strip_prefix (s2l "0x") s); [apply of_option_total|apply graceful_err].
Qed.

Lemma address_total j : graceful (address_field j).
Proof.
  destruct j; cbn [address_field]; try apply graceful_err.
  destruct (strip_prefix (s2l "0x") s); [apply of_option_total|apply graceful_err].
Qed.

Lemma opt_address_total j : graceful (opt_address_field j).
Proof.
  unfold opt_address_field. destruct j as [j|]; [|apply graceful_ok].
  destruct j; try apply graceful_ok; apply omap_total; apply address_total.
Qed.

Lemma total j oj k :
  graceful (permissive_u256 j) /\ graceful (ethnum_permissive_i256 j) /\ graceful (numopt oj)
  /\ graceful (chainid_field oj) /\ graceful (bytes_field j) /\ graceful (bytearray_field k j)
  /\ graceful (address_field j) /\ graceful (opt_address_field oj).
Proof.
  repeat split; try apply permissive_u256_total; try apply ethnum_permissive_i256_total;
    try apply numopt_total; try apply chainid_total; try apply bytes_total;
    try apply bytearray_total; try apply address_total; try apply opt_address_total.
Qed.

(* ------------------------------------------------------------------ *)
(** * what ethnum alone does with negative numbers (the pinned behaviour behind the wrapper) *)

Lemma ethnum_wraps_negative z :
  (- 2 ^ 63 <= z < 0)%Z -> ethnum_permissive_u256 (JI64 z) = Ok (Z.to_N (2 ^ 256 + z)).
Proof.
  intros H. cbn [ethnum_permissive_u256]. unfold as_u256. f_equal. f_equal.
  symmetry. apply (Z.mod_unique_pos _ _ (-1)); lia.
Qed.

(** the signed variant ([I256]): exact, in range *)
Lemma i256_exact j v :
  num_token_ok j -> ethnum_permissive_i256 j = Ok v ->
  denotes_int true j v /\ (- 2 ^ 255 <= v < 2 ^ 255)%Z.
Proof.
  intros Htok H. destruct j as [| b | n | z | m e | s | l | kvs]; cbn [ethnum_permissive_i256] in H;
    try discriminate.
  - inversion H; subst v. cbn [num_token_ok] in Htok. split; [reflexivity|]. lia.
  - inversion H; subst v. cbn [num_token_ok] in Htok. split; [reflexivity|]. lia.
  - destruct (f64_to_int m e) as [i|] eqn:Ef; [|discriminate]. inversion H; subst i.
    apply f64_to_int_iff in Ef as [Hd Hw]. split; [exact Hd|lia].
  - destruct (from_str_prefixed true s) as [z|] eqn:Ep; [|discriminate]. inversion H; subst z.
    apply from_str_prefixed_sound in Ep as [Hd Hin]. split; [exact Hd|].
    apply in_range_signed in Hin. change (Z.of_N (256 - 1)) with 255%Z in Hin. exact Hin.
Qed.

(** shorthand for the examples in [Props/C13.v] *)
Definition permissive_str (s : string) : outcome N := permissive_u256 (JStr (s2l s)).
