(** Member order of an object is irrelevant for [serde_json::Value]'s view when the member names are
    distinct: any permutation of the members gives the same value. *)
From Coq Require Import List NArith ZArith Bool Lia Sorted Permutation.
From HDW Require Import Lib.Outcome Lib.Bytes Model.Json Model.Eip712Types Model.JsonText.
From HDW Require Import Spec.Eip712TypeSpec Proofs.KindProofs Proofs.Eip712TypeProofs Proofs.JsonTextProofs.
Import ListNotations.
Open Scope N_scope.

Lemma obj_get_none_lt k m : Forall (fun k' => text_lt k k') (map fst m) -> obj_get k m = None.
Proof.
  induction m as [|[k' v] r IH]; intros H; [reflexivity|].
  cbn [map fst] in H. inversion H as [|? ? Hk Hr]; subst. cbn [obj_get].
  destruct (list_eqb k k') eqn:E.
  - apply list_eqb_spec in E. subst k'. exfalso. exact (text_lt_irrefl k Hk).
  - apply IH. exact Hr.
Qed.

(** two strictly sorted association lists with the same lookups are equal *)
Lemma sorted_assoc_ext : forall m1 m2 : list (text * json),
  StronglySorted text_lt (map fst m1) -> StronglySorted text_lt (map fst m2) ->
  (forall k, obj_get k m1 = obj_get k m2) -> m1 = m2.
Proof.
  induction m1 as [|[k1 v1] r1 IH]; intros m2 S1 S2 H.
  - destruct m2 as [|[k2 v2] r2]; [reflexivity|].
    specialize (H k2). cbn [obj_get] in H. rewrite list_eqb_refl in H. discriminate.
  - destruct m2 as [|[k2 v2] r2].
    + specialize (H k1). cbn [obj_get] in H. rewrite list_eqb_refl in H. discriminate.
    + cbn [map fst] in S1, S2. inversion S1 as [|? ? S1r F1]; subst. inversion S2 as [|? ? S2r F2]; subst.
      assert (Ek : k1 = k2).
      { destruct (text_lt_trichotomy k1 k2) as [L|[E|L]]; [|exact E|].
        - exfalso. pose proof (H k1) as Hk. cbn [obj_get] in Hk. rewrite list_eqb_refl in Hk.
          destruct (list_eqb k1 k2) eqn:E; [apply list_eqb_spec in E; subst; exact (text_lt_irrefl _ L)|].
          rewrite obj_get_none_lt in Hk; [discriminate|].
          eapply Forall_impl; [|exact F2]. intros a Ha. eapply text_lt_trans; eassumption.
        - exfalso. pose proof (H k2) as Hk. cbn [obj_get] in Hk. rewrite list_eqb_refl in Hk.
          destruct (list_eqb k2 k1) eqn:E; [apply list_eqb_spec in E; subst; exact (text_lt_irrefl _ L)|].
          rewrite obj_get_none_lt in Hk; [discriminate|].
          eapply Forall_impl; [|exact F1]. intros a Ha. eapply text_lt_trans; eassumption. }
      subst k2.
      assert (Ev : v1 = v2).
      { pose proof (H k1) as Hk. cbn [obj_get] in Hk. rewrite list_eqb_refl in Hk. congruence. }
      subst v2. f_equal. apply IH; [assumption|assumption|].
      intros k. pose proof (H k) as Hk. cbn [obj_get] in Hk.
      destruct (list_eqb k k1) eqn:E; [|exact Hk].
      apply list_eqb_spec in E. subst k.
      rewrite !obj_get_none_lt; [reflexivity|exact F2|exact F1].
Qed.

(** with distinct names, the last member with a given name is the only one: a permutation does not change it *)
Lemma last_member_perm f k : forall l l' cur, Permutation l l' -> NoDup (map fst l) ->
  last_member f k l cur = last_member f k l' cur.
Proof.
  intros l l' cur P. revert cur. induction P as [|[k1 x1] l l' P IH|[k1 x1] [k2 x2] l|l l' l'' P1 IH1 P2 IH2]; intros cur ND.
  - reflexivity.
  - cbn [last_member]. apply IH. cbn [map fst] in ND. inversion ND; assumption.
  - cbn [last_member]. cbn [map fst] in ND. inversion ND as [|? ? Hn1 ND']; subst.
    destruct (list_eqb k k2) eqn:E2, (list_eqb k k1) eqn:E1; try reflexivity.
    apply list_eqb_spec in E1, E2. subst. exfalso. apply Hn1. left. reflexivity.
  - rewrite IH1 by assumption. apply IH2.
    eapply Permutation_NoDup; [|exact ND]. apply Permutation_map. exact P1.
Qed.

Lemma objs_fold_ok_perm f : forall l l' m, Permutation l l' ->
  (exists r, objs_fold f l m = Ok r) -> exists r', objs_fold f l' m = Ok r'.
Proof.
  intros l l' m P. revert m. induction P as [|[k1 x1] l l' P IH|[k1 x1] [k2 x2] l|l l' l'' P1 IH1 P2 IH2]; intros m [r H].
  - exists r. exact H.
  - cbn [objs_fold] in *. destruct (f x1); try discriminate. apply IH. exists r. exact H.
  - cbn [objs_fold] in *. destruct (f x2) as [y2| | |]; try discriminate. destruct (f x1) as [y1| | |]; try discriminate.
    (* the maps after the two insertions differ, the remaining fold succeeds on both: success depends on f only *)
    clear -H. revert H. generalize (obj_insert k1 y1 (obj_insert k2 y2 m)) as ma, (obj_insert k2 y2 (obj_insert k1 y1 m)) as mb.
    revert r. induction l as [|[k x] l IHl]; intros r ma mb H.
    + eexists. reflexivity.
    + cbn [objs_fold] in *. destruct (f x); try discriminate. eapply IHl. exact H.
  - apply IH2. apply IH1. exists r. exact H.
Qed.

(** the order in which an object's members are written does not matter (distinct member names) *)
Theorem to_value_member_order rnd l l' : Permutation l l' -> NoDup (map fst l) ->
  to_value rnd (TObj l) = to_value rnd (TObj l').
Proof.
  intros P ND. rewrite !to_value_obj.
  assert (T : forall q m, graceful (objs_fold (to_value rnd) q m)).
  { intros q m. apply objs_fold_total. intros k x _. apply to_value_total. }
  destruct (objs_fold (to_value rnd) l []) as [m| | |] eqn:E.
  - destruct (objs_fold_ok_perm (to_value rnd) l l' [] P (ex_intro _ m E)) as (m' & E').
    rewrite E'. cbn [omap bind]. f_equal. f_equal.
    apply sorted_assoc_ext.
    + eapply objs_fold_sorted; [|exact E]. constructor.
    + eapply objs_fold_sorted; [|exact E']. constructor.
    + intros k. rewrite (objs_fold_get _ _ _ _ k E), (objs_fold_get _ _ _ _ k E').
      apply last_member_perm; assumption.
  - destruct (objs_fold (to_value rnd) l' []) as [m'| | |] eqn:E'; try reflexivity.
    + destruct (objs_fold_ok_perm (to_value rnd) l' l [] (Permutation_sym P) (ex_intro _ m' E')) as (m & Em).
      rewrite Em in E. discriminate.
    + destruct (T l' []) as [H _]. congruence.
    + destruct (T l' []) as [_ H]. congruence.
  - destruct (T l []) as [H _]. congruence.
  - destruct (T l []) as [_ H]. congruence.
Qed.
