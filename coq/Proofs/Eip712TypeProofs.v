(** Proofs for the type half of C08: [encode_type] (work-list + sorted map) computes the
    EIP-712 [encodeType] string.  Route: DESIGN.md Appendix A.3 (work-list invariant). *)
From Coq Require Import String.
From Coq Require Import List NArith Bool Lia PeanoNat Sorted Permutation.
From HDW Require Import Lib.Outcome Lib.Bytes Prim.Keccak Model.Eip712Kind Model.Domain Model.Eip712Types.
From HDW Require Import Spec.Eip712TypeSpec Proofs.KindProofs.
Import ListNotations.
Open Scope N_scope.

(* ------------------------------------------------------------------ *)
(** * The name order *)

Lemma text_ltb_spec a : forall b, text_ltb a b = true <-> text_lt a b.
Proof.
  induction a as [|x a IH]; intros [|y b]; cbn [text_ltb].
  - split; [discriminate | inversion 1].
  - split; [constructor | reflexivity].
  - split; [discriminate | inversion 1].
  - destruct (N.ltb_spec x y) as [Hlt|Hge].
    + split; [intros _; constructor; assumption | reflexivity].
    + destruct (N.eqb_spec x y) as [->|Hne].
      * rewrite IH. split; [constructor; assumption|].
        inversion 1; subst; [lia | assumption].
      * split; [discriminate|]. inversion 1; subst; [lia | congruence].
Qed.

Lemma text_lt_irrefl a : ~ text_lt a a.
Proof. induction a as [|x a IH]; inversion 1; subst; [lia | auto]. Qed.

Lemma text_lt_trans a b c : text_lt a b -> text_lt b c -> text_lt a c.
Proof.
  intros H; revert c; induction H as [y b|x y a b Hxy|x a b Hab IH]; intros c Hc;
    inversion Hc; subst.
  - constructor.
  - constructor.
  - constructor; lia.
  - constructor; assumption.
  - constructor; assumption.
  - apply text_lt_tail. apply IH; assumption.
Qed.

Lemma text_lt_trichotomy a : forall b, text_lt a b \/ a = b \/ text_lt b a.
Proof.
  induction a as [|x a IH]; intros [|y b].
  - right; left; reflexivity.
  - left; constructor.
  - right; right; constructor.
  - destruct (N.lt_trichotomy x y) as [H|[H|H]].
    + left; constructor; assumption.
    + subst y. destruct (IH b) as [H|[H|H]].
      * left; constructor; assumption.
      * right; left; congruence.
      * right; right; constructor; assumption.
    + right; right; constructor; assumption.
Qed.

Lemma text_ltb_false a b : text_ltb a b = false -> a <> b -> text_lt b a.
Proof.
  intros Hf Hne. destruct (text_lt_trichotomy a b) as [H|[H|H]]; [|contradiction|assumption].
  apply text_ltb_spec in H. congruence.
Qed.

(** strictly sorted lists have no duplicates ... *)
Lemma sorted_nodup l : StronglySorted text_lt l -> NoDup l.
Proof.
  induction 1 as [|a l _ IH HF]; constructor; [|assumption].
  intros Hin. rewrite Forall_forall in HF. exact (text_lt_irrefl a (HF a Hin)).
Qed.

(** ... and are determined by their set of elements *)
Lemma sorted_unique : forall l1 l2,
  StronglySorted text_lt l1 -> StronglySorted text_lt l2 ->
  (forall T, In T l1 <-> In T l2) -> l1 = l2.
Proof.
  induction l1 as [|x l1 IH]; intros [|y l2] H1 H2 Heq.
  - reflexivity.
  - destruct (proj2 (Heq y) (or_introl eq_refl)).
  - destruct (proj1 (Heq x) (or_introl eq_refl)).
  - inversion H1 as [|? ? S1 F1]; inversion H2 as [|? ? S2 F2]; subst.
    rewrite Forall_forall in F1, F2.
    assert (Hxy : x = y).
    { destruct (proj1 (Heq x) (or_introl eq_refl)) as [E|Hx]; [auto|].
      destruct (proj2 (Heq y) (or_introl eq_refl)) as [E|Hy]; [auto|].
      exfalso. apply (text_lt_irrefl x). apply text_lt_trans with y; auto. }
    subst y. f_equal. apply IH; [assumption|assumption|].
    intros T; split; intros HT.
    + destruct (proj1 (Heq T) (or_intror HT)) as [E|HT2]; [|assumption].
      subst T. exfalso. exact (text_lt_irrefl x (F1 x HT)).
    + destruct (proj2 (Heq T) (or_intror HT)) as [E|HT2]; [|assumption].
      subst T. exfalso. exact (text_lt_irrefl x (F2 x HT)).
Qed.

(* ------------------------------------------------------------------ *)
(** * References *)

Lemma struct_reference_refers k U : struct_reference k = Some U <-> refers k U.
Proof.
  induction k as [n|n|n| | | |name|inner IH size]; cbn [struct_reference];
    try (split; [discriminate | inversion 1]).
  - split; [intros [= ->]; constructor | inversion 1; reflexivity].
  - rewrite IH. split; [constructor; assumption | inversion 1; assumption].
Qed.

Lemma in_struct_references ms U :
  In U (struct_references ms) <-> exists m, In m ms /\ refers (m_kind m) U.
Proof.
  induction ms as [|m r IH]; cbn [struct_references].
  - split; [intros [] | intros (m & [] & _)].
  - destruct (struct_reference (m_kind m)) as [name|] eqn:Hs.
    + cbn [In]. rewrite IH. split.
      * intros [->|(m' & Hin & Hr)].
        -- exists m. split; [left; reflexivity | apply struct_reference_refers; assumption].
        -- exists m'. split; [right; assumption | assumption].
      * intros (m' & [->|Hin] & Hr).
        -- left. apply struct_reference_refers in Hr. congruence.
        -- right. exists m'. auto.
    + rewrite IH. split.
      * intros (m' & Hin & Hr). exists m'. split; [right; assumption | assumption].
      * intros (m' & [->|Hin] & Hr).
        -- apply struct_reference_refers in Hr. congruence.
        -- exists m'. auto.
Qed.

Lemma reach1_refs tys T U : reach1 tys T U <-> In U (struct_references (def tys T)).
Proof. unfold reach1. symmetry. apply in_struct_references. Qed.

Lemma def_some tys T ms : types_get T tys = Some ms -> def tys T = ms.
Proof. unfold def. intros ->. reflexivity. Qed.

Lemma reach1_defined tys T U : reach1 tys T U -> types_get T tys <> None.
Proof.
  intros (m & Hin & _) Hn. unfold def in Hin. rewrite Hn in Hin. destruct Hin.
Qed.

(* ------------------------------------------------------------------ *)
(** * The sorted map *)

Lemma bt_contains_spec k m : bt_contains k m = true <-> In k (map fst m).
Proof.
  unfold bt_contains. rewrite existsb_exists, in_map_iff. split.
  - intros (e & Hin & He). apply list_eqb_spec in He. exists e. auto.
  - intros (e & He & Hin). exists e. split; [assumption|]. apply list_eqb_spec. auto.
Qed.

Lemma bt_contains_false k m : bt_contains k m = false <-> ~ In k (map fst m).
Proof.
  rewrite <- bt_contains_spec. destruct (bt_contains k m); split; congruence.
Qed.

Lemma bt_insert_in k v m e : In e (bt_insert k v m) -> e = (k, v) \/ In e m.
Proof.
  induction m as [|[k' v'] r IH]; cbn [bt_insert].
  - intros [<-|[]]. left; reflexivity.
  - destruct (text_ltb k k').
    + intros [<-|H]; [left; reflexivity | right; assumption].
    + destruct (list_eqb k k').
      * intros [<-|H]; [left; reflexivity | right; right; assumption].
      * intros [<-|H]; [right; left; reflexivity|].
        destruct (IH H) as [E|H']; [left; assumption | right; right; assumption].
Qed.

Lemma bt_insert_keys k v m T :
  In T (map fst (bt_insert k v m)) <-> T = k \/ In T (map fst m).
Proof.
  induction m as [|[k' v'] r IH]; cbn [bt_insert].
  - cbn. intuition.
  - destruct (text_ltb k k').
    + cbn [map fst In]. intuition.
    + destruct (list_eqb k k') eqn:He.
      * apply list_eqb_spec in He. subst k'. cbn [map fst In]. intuition.
      * cbn [map fst In]. rewrite IH. intuition.
Qed.

Lemma bt_insert_sorted k v m :
  StronglySorted text_lt (map fst m) -> StronglySorted text_lt (map fst (bt_insert k v m)).
Proof.
  induction m as [|[k' v'] r IH]; cbn [bt_insert].
  - intros _. cbn. constructor; constructor.
  - intros HS. cbn [map fst] in HS. inversion HS as [|? ? HSr HF]; subst.
    destruct (text_ltb k k') eqn:Hlt.
    + apply text_ltb_spec in Hlt. cbn [map fst]. constructor; [exact HS|].
      constructor; [assumption|].
      eapply Forall_impl; [|exact HF]. intros T HT. eapply text_lt_trans; eassumption.
    + destruct (list_eqb k k') eqn:He.
      * apply list_eqb_spec in He. subst k'. cbn [map fst]. exact HS.
      * cbn [map fst]. constructor; [apply IH; assumption|].
        apply Forall_forall. intros T HT. apply bt_insert_keys in HT as [->|HT].
        -- apply text_ltb_false; [assumption|]. intros E. subst k'.
           rewrite list_eqb_refl in He. discriminate.
        -- rewrite Forall_forall in HF. auto.
Qed.

Lemma bt_contains_insert k name v m :
  bt_contains k (bt_insert name v m) = list_eqb k name || bt_contains k m.
Proof.
  apply eq_true_iff_eq.
  rewrite orb_true_iff, !bt_contains_spec, bt_insert_keys, list_eqb_spec. reflexivity.
Qed.

(* ------------------------------------------------------------------ *)
(** * The work-list invariant (Appendix A.3) *)

Definition inv (tys : typesmap) (P : text) (stack : list text) (sub : list (text * list member)) : Prop :=
  (forall T ms, In (T, ms) sub -> types_get T tys = Some ms) /\
  (forall T, In T (map fst sub) -> reachp tys P T /\ T <> P) /\
  (forall T, In T stack -> reachp tys P T) /\
  (forall T, T = P \/ In T (map fst sub) ->
     forall U, reach1 tys T U -> In U (map fst sub) \/ In U stack \/ U = P) /\
  StronglySorted text_lt (map fst sub).

Lemma inv_init tys P ms :
  types_get P tys = Some ms -> inv tys P (rev (struct_references ms)) [].
Proof.
  intros Hg. pose proof (def_some _ _ _ Hg) as Hd. repeat split.
  - intros T ms' [].
  - destruct H.
  - destruct H.
  - intros T HT. apply in_rev in HT. apply reachp_step. apply reach1_refs.
    rewrite Hd. assumption.
  - intros T [->|[]] U HU. right; left. apply in_rev. rewrite rev_involutive.
    apply reach1_refs in HU. rewrite Hd in HU. assumption.
  - constructor.
Qed.

Lemma inv_skip tys P name rest sub :
  inv tys P (name :: rest) sub -> name = P \/ In name (map fst sub) -> inv tys P rest sub.
Proof.
  intros (I0 & I1 & I2 & I3 & I4) Hn. repeat split; auto.
  - apply I1; assumption.
  - apply I1; assumption.
  - intros T HT. apply I2. right; assumption.
  - intros T HT U HU. destruct (I3 T HT U HU) as [H|[[<-|H]|H]]; auto.
    destruct Hn as [->|Hn]; auto.
Qed.

Lemma inv_insert tys P name rest sub ms :
  inv tys P (name :: rest) sub -> name <> P -> types_get name tys = Some ms ->
  inv tys P (rev_append (struct_references ms) rest) (bt_insert name ms sub).
Proof.
  intros (I0 & I1 & I2 & I3 & I4) HnP Hg.
  pose proof (def_some _ _ _ Hg) as Hd.
  assert (Hname : reachp tys P name) by (apply I2; left; reflexivity).
  rewrite rev_append_rev. repeat split.
  - intros T ms' Hin. apply bt_insert_in in Hin as [[= -> ->]|Hin]; auto.
  - apply bt_insert_keys in H as [->|H]; [assumption | apply I1; assumption].
  - apply bt_insert_keys in H as [->|H]; [assumption | apply I1; assumption].
  - intros T HT. apply in_app_or in HT as [HT|HT].
    + apply in_rev in HT. apply reachp_trans with name; [assumption|].
      apply reach1_refs. rewrite Hd. assumption.
    + apply I2. right; assumption.
  - intros T HT U HU.
    assert (Hold : (T = P \/ In T (map fst sub)) \/ T = name).
    { destruct HT as [->|HT]; [left; left; reflexivity|].
      apply bt_insert_keys in HT as [->|HT]; [right; reflexivity | left; right; assumption]. }
    destruct Hold as [Hold| ->].
    + destruct (I3 T Hold U HU) as [H|[[<-|H]|H]].
      * left. apply bt_insert_keys. right; assumption.
      * left. apply bt_insert_keys. left; reflexivity.
      * right; left. apply in_or_app. right; assumption.
      * right; right; assumption.
    + right; left. apply in_or_app. left. apply in_rev. rewrite rev_involutive.
      apply reach1_refs in HU. rewrite Hd in HU. assumption.
  - apply bt_insert_sorted. assumption.
Qed.

(** one step of the loop, as a case distinction *)
Lemma loop_step tys P fuel name rest sub :
  encode_type_loop (S fuel) tys P (name :: rest) sub =
  if list_eqb name P || bt_contains name sub then encode_type_loop fuel tys P rest sub
  else match types_get name tys with
       | None => Err
       | Some ms => encode_type_loop fuel tys P (rev_append (struct_references ms) rest)
                      (bt_insert name ms sub)
       end.
Proof. reflexivity. Qed.

Lemma skip_cond (P : text) name sub :
  list_eqb name P || bt_contains name sub = true <-> name = P \/ In name (map fst sub).
Proof. rewrite orb_true_iff, list_eqb_spec, bt_contains_spec. reflexivity. Qed.

Lemma skip_cond_false (P : text) name sub :
  list_eqb name P || bt_contains name sub = false -> name <> P /\ ~ In name (map fst sub).
Proof.
  intros H. split; intros E; assert (C : list_eqb name P || bt_contains name sub = true)
    by (apply skip_cond; auto); congruence.
Qed.

(** the invariant is carried to the exit *)
Lemma loop_ok tys P : forall fuel stack sub sub',
  inv tys P stack sub -> encode_type_loop fuel tys P stack sub = Ok sub' -> inv tys P [] sub'.
Proof.
  induction fuel as [|fuel IH]; intros stack sub sub' Hinv Hrun; [discriminate|].
  destruct stack as [|name rest].
  - cbn in Hrun. injection Hrun as <-. assumption.
  - rewrite loop_step in Hrun.
    destruct (list_eqb name P || bt_contains name sub) eqn:Hc.
    + apply skip_cond in Hc. eapply IH; [|exact Hrun]. eapply inv_skip; eassumption.
    + apply skip_cond_false in Hc as [HnP _].
      destruct (types_get name tys) as [ms|] eqn:Hg; [|discriminate].
      eapply IH; [|exact Hrun]. apply inv_insert; assumption.
Qed.

(** an error exit is caused by an undefined type that [P] reaches *)
Lemma loop_err tys P : forall fuel stack sub,
  inv tys P stack sub -> encode_type_loop fuel tys P stack sub = Err ->
  exists T, reachp tys P T /\ types_get T tys = None.
Proof.
  induction fuel as [|fuel IH]; intros stack sub Hinv Hrun; [discriminate|].
  destruct stack as [|name rest]; [discriminate|].
  rewrite loop_step in Hrun.
  destruct (list_eqb name P || bt_contains name sub) eqn:Hc.
  - apply skip_cond in Hc. eapply IH; [|exact Hrun]. eapply inv_skip; eassumption.
  - apply skip_cond_false in Hc as [HnP _].
    destruct (types_get name tys) as [ms|] eqn:Hg.
    + eapply IH; [|exact Hrun]. apply inv_insert; assumption.
    + exists name. split; [|assumption].
      destruct Hinv as (_ & _ & I2 & _). apply I2. left; reflexivity.
Qed.

(** there is no panic site in the loop *)
Lemma loop_no_panic tys P : forall fuel stack sub, encode_type_loop fuel tys P stack sub <> Panic.
Proof.
  induction fuel as [|fuel IH]; intros stack sub; [discriminate|].
  destruct stack as [|name rest]; [discriminate|].
  rewrite loop_step. destruct (list_eqb name P || bt_contains name sub); [apply IH|].
  destruct (types_get name tys); [apply IH | discriminate].
Qed.

(** ** Termination: the fuel formula suffices *)

(** references of the entries whose key has not been inserted yet *)
Definition pending (tys : typesmap) (sub : list (text * list member)) : nat :=
  list_sum (map (fun e => if bt_contains (fst e) sub then O
                          else length (struct_references (snd e))) tys).

Lemma pending_nil tys : pending tys [] = refs_total tys.
Proof. reflexivity. Qed.

Lemma list_sum_cons x l : list_sum (x :: l) = (x + list_sum l)%nat.
Proof. reflexivity. Qed.

Lemma pending_insert_le tys name v sub :
  (pending tys (bt_insert name v sub) <= pending tys sub)%nat.
Proof.
  unfold pending. induction tys as [|[n ms] r IH]; cbn [map list_sum fst snd]; [lia|].
  rewrite bt_contains_insert, !list_sum_cons.
  destruct (list_eqb n name); destruct (bt_contains n sub); cbn [orb]; lia.
Qed.

Lemma pending_insert tys name ms sub :
  types_get name tys = Some ms -> bt_contains name sub = false ->
  (pending tys (bt_insert name ms sub) + length (struct_references ms) <= pending tys sub)%nat.
Proof.
  induction tys as [|[n ms'] r IH]; cbn [types_get]; [discriminate|].
  destruct (list_eqb name n) eqn:He.
  - intros [= <-] Hc. apply list_eqb_spec in He. subst n.
    pose proof (pending_insert_le r name ms' sub) as Hle.
    unfold pending in *. cbn [map list_sum fst snd].
    rewrite bt_contains_insert, list_eqb_refl, Hc, !list_sum_cons. cbn [orb]. lia.
  - intros Hg Hc. specialize (IH Hg Hc).
    unfold pending in *. cbn [map list_sum fst snd].
    rewrite bt_contains_insert, !list_sum_cons.
    destruct (list_eqb n name); destruct (bt_contains n sub); cbn [orb]; lia.
Qed.

Lemma loop_fuel tys P : forall fuel stack sub,
  (length stack + pending tys sub < fuel)%nat ->
  encode_type_loop fuel tys P stack sub <> OutOfFuel.
Proof.
  induction fuel as [|fuel IH]; intros stack sub Hlt; [lia|].
  destruct stack as [|name rest]; [discriminate|].
  rewrite loop_step. cbn [length] in Hlt.
  destruct (list_eqb name P || bt_contains name sub) eqn:Hc.
  - apply IH. lia.
  - apply orb_false_iff in Hc as [_ Hc].
    destruct (types_get name tys) as [ms|] eqn:Hg; [|discriminate].
    apply IH. rewrite rev_append_rev, app_length, rev_length.
    pose proof (pending_insert tys name ms sub Hg Hc). lia.
Qed.

(* ------------------------------------------------------------------ *)
(** * From the invariant at exit to the specification *)

Lemma inv_exit_closed tys P sub :
  inv tys P [] sub -> forall T, reachp tys P T -> T = P \/ In T (map fst sub).
Proof.
  intros (_ & _ & _ & I3 & _) T HT.
  induction HT as [T H1|T U _ IH H1].
  - destruct (I3 P (or_introl eq_refl) T H1) as [H|[[]|H]]; auto.
  - destruct (I3 T IH U H1) as [H|[[]|H]]; auto.
Qed.

Lemma inv_exit_deps tys P sub : inv tys P [] sub -> deps_spec tys P (map fst sub).
Proof.
  intros Hinv. pose proof (inv_exit_closed _ _ _ Hinv) as Hcl.
  destruct Hinv as (_ & I1 & _ & _ & I4). split; [assumption|].
  intros T. split; [apply I1|]. intros [Hr HnP].
  destruct (Hcl T Hr) as [E|H]; [contradiction | assumption].
Qed.

Lemma inv_exit_defined tys P sub ms :
  types_get P tys = Some ms -> inv tys P [] sub -> all_defined tys P.
Proof.
  intros Hg Hinv T [->|HT]; [congruence|].
  destruct (inv_exit_closed _ _ _ Hinv T HT) as [->|Hin]; [congruence|].
  destruct Hinv as (I0 & _). apply in_map_iff in Hin as ([T' ms'] & <- & Hin).
  cbn [fst]. rewrite (I0 _ _ Hin). discriminate.
Qed.

Lemma inv_exit_display tys P sub :
  inv tys P [] sub ->
  map display_entry sub = map (fun T => display_typedef T (def tys T)) (map fst sub).
Proof.
  intros (I0 & _). rewrite map_map. apply map_ext_in. intros [T ms] Hin.
  unfold display_entry. cbn [fst snd]. rewrite (def_some _ _ _ (I0 _ _ Hin)). reflexivity.
Qed.

(* ------------------------------------------------------------------ *)
(** * [encode_type] *)

(** The complete case analysis: either every type that matters is defined and the result is the
    specified string, or some such type is undefined and the result is an error. *)
Lemma encode_type_cases tys P :
  (all_defined tys P /\
   exists l, deps_spec tys P l /\ encode_type tys P = Ok (encode_type_spec tys P l)) \/
  ((exists T, (T = P \/ reachp tys P T) /\ types_get T tys = None) /\
   encode_type tys P = Err).
Proof.
  unfold encode_type. destruct (types_get P tys) as [ms|] eqn:Hg.
  2:{ right. split; [|reflexivity]. exists P. auto. }
  pose proof (inv_init tys P ms Hg) as Hinit.
  destruct (encode_type_loop (encode_type_fuel tys ms) tys P (rev (struct_references ms)) [])
    as [sub| | |] eqn:Hrun.
  - left. pose proof (loop_ok _ _ _ _ _ _ Hinit Hrun) as Hexit. split.
    + eapply inv_exit_defined; eassumption.
    + exists (map fst sub). split; [apply inv_exit_deps; assumption|].
      cbn [bind]. unfold encode_type_spec.
      rewrite (def_some _ _ _ Hg), (inv_exit_display _ _ _ Hexit). reflexivity.
  - right. split; [|reflexivity].
    destruct (loop_err _ _ _ _ _ Hinit Hrun) as (T & HT & Hn). exists T. auto.
  - exfalso. exact (loop_no_panic _ _ _ _ _ Hrun).
  - exfalso. revert Hrun. apply loop_fuel.
    rewrite rev_length, pending_nil. unfold encode_type_fuel. lia.
Qed.

Lemma not_both tys P :
  all_defined tys P -> (exists T, (T = P \/ reachp tys P T) /\ types_get T tys = None) -> False.
Proof. intros Hd (T & HT & Hn). exact (Hd T HT Hn). Qed.

Lemma encode_type_correct tys P :
  all_defined tys P ->
  exists l, deps_spec tys P l /\ encode_type tys P = Ok (encode_type_spec tys P l).
Proof.
  intros Hd. destruct (encode_type_cases tys P) as [[_ H]|[Hu _]]; [assumption|].
  destruct (not_both _ _ Hd Hu).
Qed.

Lemma encode_type_undefined tys P :
  (exists T, (T = P \/ reachp tys P T) /\ types_get T tys = None) -> encode_type tys P = Err.
Proof.
  intros Hu. destruct (encode_type_cases tys P) as [[Hd _]|[_ H]]; [|assumption].
  destruct (not_both _ _ Hd Hu).
Qed.

Lemma encode_type_err_iff tys P :
  encode_type tys P = Err <->
  exists T, (T = P \/ reachp tys P T) /\ types_get T tys = None.
Proof.
  split; [|apply encode_type_undefined].
  intros He. destruct (encode_type_cases tys P) as [[_ (l & _ & H)]|[Hu _]]; [congruence|assumption].
Qed.

Lemma encode_type_sound tys P s :
  encode_type tys P = Ok s ->
  all_defined tys P /\ exists l, deps_spec tys P l /\ s = encode_type_spec tys P l.
Proof.
  intros Hs. destruct (encode_type_cases tys P) as [[Hd (l & Hl & H)]|[_ H]]; [|congruence].
  split; [assumption|]. exists l. split; [assumption | congruence].
Qed.

Lemma encode_type_total tys P : graceful (encode_type tys P).
Proof.
  destruct (encode_type_cases tys P) as [[_ (l & _ & H)]|[_ H]]; rewrite H;
    [apply graceful_ok | apply graceful_err].
Qed.

(** the loop itself never exhausts the fuel given by the formula, for any type graph *)
Lemma encode_type_loop_fuel_enough tys P ms :
  encode_type_loop (encode_type_fuel tys ms) tys P (rev (struct_references ms)) [] <> OutOfFuel.
Proof.
  apply loop_fuel. rewrite rev_length, pending_nil. unfold encode_type_fuel. lia.
Qed.

(** [type_hash] = Keccak-256 of the UTF-8 bytes of that string *)
Lemma type_hash_correct tys P :
  all_defined tys P ->
  exists l, deps_spec tys P l /\
            type_hash tys P = Ok (keccak256 (utf8 (encode_type_spec tys P l))).
Proof.
  intros Hd. destruct (encode_type_correct _ _ Hd) as (l & Hl & He).
  exists l. split; [assumption|]. unfold type_hash. rewrite He. reflexivity.
Qed.

Lemma type_hash_total tys P : graceful (type_hash tys P).
Proof.
  unfold type_hash. apply graceful_bind; [apply encode_type_total|].
  intros s _. apply graceful_ok.
Qed.

(* ------------------------------------------------------------------ *)
(** * Properties of the specification *)

Lemma deps_unique tys P l1 l2 : deps_spec tys P l1 -> deps_spec tys P l2 -> l1 = l2.
Proof.
  intros [S1 E1] [S2 E2]. apply sorted_unique; [assumption|assumption|].
  intros T. rewrite E1, E2. reflexivity.
Qed.

Lemma deps_primary_once tys P l : deps_spec tys P l -> ~ In P l.
Proof. intros [_ E] Hin. apply E in Hin as [_ H]. apply H; reflexivity. Qed.

Lemma deps_each_once tys P l : deps_spec tys P l -> NoDup l.
Proof. intros [S _]. apply sorted_nodup; assumption. Qed.

Lemma deps_complete tys P l T : deps_spec tys P l -> reachp tys P T -> T = P \/ In T l.
Proof.
  intros [_ E] HT. destruct (list_eqb T P) eqn:He.
  - left. apply list_eqb_spec; assumption.
  - right. apply E. split; [assumption|]. intros ->. rewrite list_eqb_refl in He. discriminate.
Qed.

(** ** Independence of the member order *)

Lemma reach1_perm tys1 tys2 :
  (forall T, Permutation (def tys1 T) (def tys2 T)) ->
  forall T U, reach1 tys1 T U -> reach1 tys2 T U.
Proof.
  intros Hp T U (m & Hin & Hr). exists m. split; [|assumption].
  eapply Permutation_in; [apply Hp | assumption].
Qed.

Lemma reachp_mono tys1 tys2 P :
  (forall T U, reach1 tys1 T U -> reach1 tys2 T U) ->
  forall T, reachp tys1 P T -> reachp tys2 P T.
Proof.
  intros H T HT. induction HT as [T H1|T U _ IH H1].
  - apply reachp_step. auto.
  - eapply reachp_trans; [exact IH | auto].
Qed.

Lemma deps_perm tys1 tys2 P l :
  (forall T, Permutation (def tys1 T) (def tys2 T)) ->
  deps_spec tys1 P l -> deps_spec tys2 P l.
Proof.
  intros Hp [S E]. split; [assumption|]. intros T. rewrite E.
  assert (Hp' : forall T, Permutation (def tys2 T) (def tys1 T))
    by (intros; apply Permutation_sym; apply Hp).
  split; intros [HT HnP]; (split; [|assumption]).
  - eapply reachp_mono; [apply reach1_perm; exact Hp | assumption].
  - eapply reachp_mono; [apply reach1_perm; exact Hp' | assumption].
Qed.
