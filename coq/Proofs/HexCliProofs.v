(** Proofs about [Model/HexCli.v] (property C19). *)
From Coq Require Import String.
From Coq Require Import List NArith ZArith Lia Bool PeanoNat.
From HDW Require Import Lib.Outcome Lib.Radix Lib.Bytes Lib.Hex Model.HexCli.
Import ListNotations.
Open Scope N_scope.

(** [t] spells the bytes [b]: after dropping white space and one optional [0x], the
    remaining characters are the hex digits of [b] in either case. *)
Definition spelling_of (b : bytes) (t : text) : Prop :=
  exists h, (strip_ws t = h \/ strip_ws t = s2l "0x" ++ h) /\ map to_lower h = hex_encode b.

Definition lower_hex_char (c : N) : bool := is_digit c || ((97 <=? c) && (c <=? 102)).

Lemma is_hex_ascii c : is_hex c = true -> c < 128.
Proof. unfold is_hex. destruct (hex_val c) eqn:E; [|discriminate]. intros _. eapply hex_val_ascii; eassumption. Qed.

Lemma all_hex_ascii h : forallb is_hex h = true -> all_ascii h.
Proof.
  intros H. apply Forall_forall. intros c Hc.
  rewrite forallb_forall in H. apply is_hex_ascii. apply H; assumption.
Qed.

Lemma all_hex_no_0x h : forallb is_hex h = true -> strip_prefix (s2l "0x") h = None.
Proof.
  intros H. change (s2l "0x") with [48; 120].
  destruct h as [|c [|d r]]; cbn [strip_prefix].
  - reflexivity.
  - destruct (48 =? c); reflexivity.
  - destruct (48 =? c); [|reflexivity]. destruct (N.eqb_spec 120 d) as [<-|]; [|reflexivity].
    cbn in H. rewrite andb_false_r in H. discriminate.
Qed.

Lemma spelling_all_hex b h : bytes_ok b -> map to_lower h = hex_encode b -> forallb is_hex h = true.
Proof. intros Hb Hh. eapply hex_decode_all_hex. apply hex_decode_complete; eassumption. Qed.

Lemma permissive_hex_complete b t : bytes_ok b -> spelling_of b t -> permissive_hex t = Ok b.
Proof.
  intros Hb (h & Hs & Hh). unfold permissive_hex.
  pose proof (spelling_all_hex b h Hb Hh) as Hx.
  assert (Hd : hex_decode (utf8 h) = Some b).
  { rewrite utf8_ascii by (apply all_hex_ascii; exact Hx). apply hex_decode_complete; assumption. }
  destruct Hs as [-> | ->].
  - rewrite all_hex_no_0x by exact Hx. rewrite Hd. reflexivity.
  - rewrite strip_prefix_app. rewrite Hd. reflexivity.
Qed.

Lemma permissive_hex_sound b t : permissive_hex t = Ok b -> bytes_ok b /\ spelling_of b t.
Proof.
  unfold permissive_hex. intros H.
  set (hs := match strip_prefix (s2l "0x") (strip_ws t) with Some r => r | None => strip_ws t end) in *.
  destruct (hex_decode (utf8 hs)) as [b'|] eqn:Hd; [|discriminate]. inversion H; subst b'.
  pose proof (hex_decode_all_hex _ _ Hd) as Hx.
  assert (Ha : all_ascii hs) by (apply utf8_all_ascii_inv, all_hex_ascii; exact Hx).
  rewrite (utf8_ascii hs Ha) in Hd.
  destruct (hex_decode_sound _ _ Hd) as (Hok & Hmap & _).
  split; [exact Hok|]. exists hs. split; [|exact Hmap].
  subst hs. destruct (strip_prefix (s2l "0x") (strip_ws t)) as [r|] eqn:E.
  - right. apply strip_prefix_some in E. exact E.
  - left. reflexivity.
Qed.

Lemma permissive_hex_cases t : (exists b, permissive_hex t = Ok b) \/ permissive_hex t = Err.
Proof. unfold permissive_hex. destruct (hex_decode _); cbn; [left; eauto|right; reflexivity]. Qed.

Lemma strip_ws_app a b : strip_ws (a ++ b) = strip_ws a ++ strip_ws b.
Proof. apply filter_app. Qed.

Lemma strip_ws_hex h : forallb is_hex h = true -> strip_ws h = h.
Proof.
  induction h as [|c r IH]; [reflexivity|]. cbn [forallb]. intros H.
  apply andb_true_iff in H as [Hc Hr]. cbn [strip_ws filter]. fold (strip_ws r). rewrite IH by exact Hr.
  assert (W : is_whitespace c = false).
  { unfold is_hex in Hc. destruct (hex_val c) eqn:E; [|discriminate].
    unfold hex_val in E. unfold is_whitespace.
    destruct ((48 <=? c) && (c <=? 57)) eqn:E1; [lia|].
    destruct ((97 <=? c) && (c <=? 102)) eqn:E2; [lia|].
    destruct ((65 <=? c) && (c <=? 70)) eqn:E3; [lia|discriminate]. }
  rewrite W. reflexivity.
Qed.

Lemma encode_cmd_spelling b : bytes_ok b -> spelling_of b (hex_encode_cmd b).
Proof.
  intros Hb. exists (hex_encode b). split.
  - right. unfold hex_encode_cmd. rewrite !strip_ws_app.
    rewrite (strip_ws_hex (hex_encode b)) by (apply hex_encode_is_hex; exact Hb).
    change (strip_ws [10]) with (@nil N). rewrite app_nil_r. reflexivity.
  - apply hex_encode_lower; exact Hb.
Qed.

Theorem roundtrip b : bytes_ok b -> hex_decode_cmd (hex_encode_cmd b) = Ok b.
Proof. intros Hb. apply permissive_hex_complete; [exact Hb|apply encode_cmd_spelling; exact Hb]. Qed.

Lemma hex_digit_lower_char n : n < 16 -> lower_hex_char (hex_digit n) = true.
Proof.
  intros Hn. unfold lower_hex_char, is_digit, hex_digit. destruct (N.ltb_spec n 10); lia.
Qed.

Theorem format b :
  bytes_ok b ->
  exists ds, hex_encode_cmd b = [48; 120] ++ ds ++ [10]
    /\ length ds = (2 * length b)%nat
    /\ forallb lower_hex_char ds = true
    /\ hex_decode ds = Some b.
Proof.
  intros Hb. exists (hex_encode b). split; [reflexivity|]. split; [apply hex_encode_length|].
  split; [|apply hex_decode_encode; exact Hb].
  induction Hb as [|x r Hx _ IH]; [reflexivity|].
  cbn [hex_encode forallb]. rewrite !hex_digit_lower_char by lia. exact IH.
Qed.

Theorem reject t : (~ exists b, bytes_ok b /\ spelling_of b t) -> permissive_hex t = Err.
Proof.
  intros H. destruct (permissive_hex_cases t) as [[b Hb]|]; [|assumption].
  exfalso. apply H. exists b. apply permissive_hex_sound; exact Hb.
Qed.

(** Concrete rejection classes named by the property. *)
Definition body (t : text) : text :=
  match strip_prefix (s2l "0x") (strip_ws t) with Some r => r | None => strip_ws t end.

Theorem reject_odd t : all_ascii (body t) -> Nat.odd (length (body t)) = true -> permissive_hex t = Err.
Proof.
  intros Ha Ho. unfold permissive_hex. change (of_option (hex_decode (utf8 (body t))) = Err).
  rewrite utf8_ascii by exact Ha.
  rewrite hex_decode_odd by exact Ho. reflexivity.
Qed.

Theorem reject_nonhex t : forallb is_hex (body t) = false -> permissive_hex t = Err.
Proof.
  intros Hn. unfold permissive_hex. change (of_option (hex_decode (utf8 (body t))) = Err).
  destruct (hex_decode (utf8 (body t))) as [b|] eqn:Hd; [|reflexivity]. exfalso.
  pose proof (hex_decode_all_hex _ _ Hd) as Hx.
  assert (Ha : all_ascii (body t)) by (apply utf8_all_ascii_inv, all_hex_ascii; exact Hx).
  rewrite utf8_ascii in Hx by exact Ha. congruence.
Qed.

Theorem total t : graceful (permissive_hex t).
Proof. destruct (permissive_hex_cases t) as [[b ->]| ->]; [apply graceful_ok|apply graceful_err]. Qed.
