(** Lemmas about [verify_domain] / [verify_domain_type] ([Model/Domain.v], C20). *)
From Coq Require Import String.
From Coq Require Import List NArith Bool Lia PeanoNat.
From HDW Require Import Lib.Outcome Lib.Bytes Model.Eip712Kind Model.Domain Proofs.KindProofs.
Import ListNotations.
Open Scope N_scope.

(* ------------------------------------------------------------------ *)
(** * Sub-sequences *)

Lemma sublist_refl {A} (l : list A) : sublist l l.
Proof. induction l; constructor; assumption. Qed.

Lemma sublist_nil_inv {A} (l : list A) : sublist l [] -> l = [].
Proof. intros H. inversion H. reflexivity. Qed.

Lemma sublist_trans {A} (a b c : list A) : sublist a b -> sublist b c -> sublist a c.
Proof.
  intros Hab Hbc. revert a Hab.
  induction Hbc as [c|x b c Hbc IH|x b c Hbc IH]; intros a Hab.
  - apply sublist_nil_inv in Hab. subst. constructor.
  - inversion Hab; subst.
    + constructor.
    + apply sublist_take. apply IH. assumption.
    + apply sublist_skip. apply IH. assumption.
  - apply sublist_skip. apply IH. exact Hab.
Qed.

Lemma sublist_app_l {A} (p s l : list A) : sublist s l -> sublist s (p ++ l).
Proof. intros H. induction p as [|x p IH]; [exact H|]. cbn [app]. apply sublist_skip. exact IH. Qed.

Lemma sublist_in {A} (a : A) s l : sublist (a :: s) l -> In a l.
Proof.
  intros H. remember (a :: s) as s' eqn:E. revert a s E.
  induction H as [l|x l1 l2 H IH|x l1 l2 H IH]; intros a s E.
  - discriminate.
  - inversion E; subst. left. reflexivity.
  - right. eapply IH. exact E.
Qed.

Lemma sublist_cons_inv {A} (a x : A) s l :
  sublist (a :: s) (x :: l) -> (a = x /\ sublist s l) \/ sublist (a :: s) l.
Proof. intros H. inversion H; subst; auto. Qed.

Lemma sublist_tail {A} (a : A) s l : sublist (a :: s) l -> sublist s l.
Proof.
  intros H. eapply sublist_trans; [|exact H]. apply sublist_skip. apply sublist_refl.
Qed.

Lemma sublist_incl {A} (s l : list A) : sublist s l -> forall x, In x s -> In x l.
Proof.
  induction s as [|a s IH]; intros H x Hx; [destruct Hx|].
  destruct Hx as [<-|Hx].
  - eapply sublist_in. exact H.
  - apply IH; [|exact Hx]. eapply sublist_tail. exact H.
Qed.

Lemma sublist_map {A B} (f : A -> B) s l : sublist s l -> sublist (map f s) (map f l).
Proof. induction 1; cbn [map]; constructor; assumption. Qed.

Lemma sublist_NoDup {A} (s l : list A) : sublist s l -> NoDup l -> NoDup s.
Proof.
  induction 1 as [l|x l1 l2 H IH|x l1 l2 H IH]; intros N.
  - constructor.
  - inversion N; subst. constructor; [|apply IH; assumption].
    intros Hx. apply H2. eapply sublist_incl; eassumption.
  - inversion N; subst. apply IH. assumption.
Qed.

Lemma sublist_pair_middle {A} (pre mid post : list A) a b :
  sublist [a; b] (pre ++ a :: mid ++ b :: post).
Proof.
  apply sublist_app_l. apply sublist_take. apply sublist_app_l. apply sublist_take. constructor.
Qed.

(** in a duplicate-free list two elements occur in one relative order only *)
Lemma sublist_pair_order {A} (l : list A) a b :
  NoDup l -> sublist [a; b] l -> sublist [b; a] l -> False.
Proof.
  induction l as [|x l IH]; intros N H1 H2; [inversion H1|].
  inversion N as [|? ? Hx N']; subst.
  inversion H1 as [|? ? ? H1'|? ? ? H1']; subst; inversion H2 as [|? ? ? H2'|? ? ? H2']; subst.
  - apply Hx. eapply sublist_in. exact H1'.
  - apply Hx. apply (sublist_incl _ _ H2'). right. left. reflexivity.
  - apply Hx. apply (sublist_incl _ _ H1'). right. left. reflexivity.
  - exact (IH N' H1' H2').
Qed.

Lemma nil_in_all_sublists {A} (l : list A) : In [] (all_sublists l).
Proof.
  induction l as [|x l IH]; [left; reflexivity|]. cbn [all_sublists]. apply in_or_app. right. exact IH.
Qed.

Lemma all_sublists_spec {A} (l s : list A) : In s (all_sublists l) <-> sublist s l.
Proof.
  split.
  - revert s. induction l as [|x l IH]; intros s H.
    + destruct H as [<-|[]]. constructor.
    + cbn [all_sublists] in H. apply in_app_or in H as [H|H].
      * apply in_map_iff in H as (s' & <- & H). apply sublist_take. apply IH. exact H.
      * apply sublist_skip. apply IH. exact H.
  - induction 1 as [l|x l1 l2 H IH|x l1 l2 H IH].
    + apply nil_in_all_sublists.
    + cbn [all_sublists]. apply in_or_app. left. apply in_map. exact IH.
    + cbn [all_sublists]. apply in_or_app. right. exact IH.
Qed.

Lemma nonempty_sublists_spec {A} (l s : list A) :
  In s (nonempty_sublists l) <-> s <> [] /\ sublist s l.
Proof.
  unfold nonempty_sublists. rewrite filter_In, all_sublists_spec.
  destruct s; split; intros [H1 H2]; split; try assumption; try discriminate; try reflexivity.
  contradiction.
Qed.

Lemma nodup_app {A} (a b : list A) :
  NoDup a -> NoDup b -> (forall x, In x a -> ~ In x b) -> NoDup (a ++ b).
Proof.
  induction a as [|x a IH]; intros Na Nb D; [exact Nb|].
  inversion Na; subst. cbn [app]. constructor.
  - intros H. apply in_app_or in H as [H|H]; [contradiction|]. apply (D x); [left; reflexivity|exact H].
  - apply IH; [assumption|assumption|]. intros y Hy. apply D. right. exact Hy.
Qed.

Lemma nodup_map_cons {A} (x : A) l : NoDup l -> NoDup (map (cons x) l).
Proof.
  induction 1 as [|s l Hs N IH]; cbn [map]; constructor; [|exact IH].
  intros H. apply in_map_iff in H as (s' & E & H). inversion E; subst. contradiction.
Qed.

(** the enumeration of sub-sequences of a duplicate-free list has no duplicates *)
Lemma all_sublists_NoDup {A} (l : list A) : NoDup l -> NoDup (all_sublists l).
Proof.
  induction 1 as [|x l Hx N IH]; cbn [all_sublists]; [repeat constructor; intros []|].
  apply nodup_app; [apply nodup_map_cons; exact IH|exact IH|].
  intros s H1 H2. apply in_map_iff in H1 as (s' & <- & _).
  apply all_sublists_spec in H2. apply Hx. eapply sublist_in. exact H2.
Qed.

Lemma nonempty_sublists_NoDup {A} (l : list A) : NoDup l -> NoDup (nonempty_sublists l).
Proof. intros N. unfold nonempty_sublists. apply NoDup_filter. apply all_sublists_NoDup. exact N. Qed.

(* ------------------------------------------------------------------ *)
(** * The scan *)

Lemma find_allowed_some name allowed k rest :
  find_allowed name allowed = Some (k, rest) ->
  exists pre, allowed = pre ++ (name, k) :: rest /\ ~ In name (map fst pre).
Proof.
  revert k rest. induction allowed as [|[n k'] r IH]; intros k rest H; [discriminate|].
  cbn [find_allowed] in H. destruct (list_eqb name n) eqn:E.
  - apply list_eqb_spec in E. inversion H; subst. exists []. split; [reflexivity|intros []].
  - destruct (IH _ _ H) as (pre & -> & Hn). exists ((n, k') :: pre). split; [reflexivity|].
    cbn [map fst]. intros [Hc|Hc]; [|contradiction].
    subst. rewrite list_eqb_refl in E. discriminate.
Qed.

Lemma find_allowed_skip name n k r :
  name <> n -> find_allowed name ((n, k) :: r) = find_allowed name r.
Proof. intros H. cbn [find_allowed]. rewrite list_eqb_false by exact H. reflexivity. Qed.

Lemma find_allowed_hit name k r : find_allowed name ((name, k) :: r) = Some (k, r).
Proof. cbn [find_allowed]. rewrite list_eqb_refl. reflexivity. Qed.

(** soundness of the scan: what it accepts is a sub-sequence of the allowed list *)
Lemma verify_fold_sound ms : forall allowed rest,
  verify_fold allowed ms = Ok rest -> sublist (map member_pair ms) allowed.
Proof.
  induction ms as [|m r IH]; intros allowed rest H; [constructor|].
  cbn [verify_fold] in H.
  destruct (find_allowed (m_name m) allowed) as [[k rest']|] eqn:F; [|discriminate].
  destruct (kind_eqb (m_kind m) k) eqn:K; [|discriminate].
  apply kind_eqb_spec in K. apply find_allowed_some in F as (pre & -> & _).
  cbn [map]. apply sublist_app_l. unfold member_pair at 1. rewrite K.
  apply sublist_take. eapply IH. exact H.
Qed.

(** completeness: every sub-sequence of an allowed list with pairwise distinct names passes *)
Lemma verify_fold_complete allowed : forall ms,
  NoDup (map fst allowed) -> sublist (map member_pair ms) allowed ->
  exists rest, verify_fold allowed ms = Ok rest.
Proof.
  induction allowed as [|[n k] l IH]; intros ms N H.
  - apply sublist_nil_inv in H. destruct ms; [|discriminate]. exists []. reflexivity.
  - cbn [map fst] in N. inversion N as [|? ? Hn N']; subst.
    destruct ms as [|m r]; [eexists; reflexivity|].
    cbn [map] in H. apply sublist_cons_inv in H as [[E H']|H'].
    + (* the member is the head of the allowed list *)
      unfold member_pair in E. inversion E as [[E1 E2]].
      cbn [verify_fold]. rewrite find_allowed_hit, kind_eqb_refl.
      apply IH; assumption.
    + (* the head of the allowed list is skipped: the member's name differs from it *)
      assert (Hne : m_name m <> n).
      { intros E. apply Hn. apply sublist_in in H'.
        apply (in_map fst) in H'. cbn [member_pair fst] in H'. rewrite <- E. exact H'. }
      destruct (IH (m :: r) N' H') as [rest Hr]. exists rest.
      cbn [verify_fold] in Hr |- *. rewrite find_allowed_skip by exact Hne. exact Hr.
Qed.

Lemma verify_fold_total allowed ms :
  (exists rest, verify_fold allowed ms = Ok rest) \/ verify_fold allowed ms = Err.
Proof.
  revert allowed. induction ms as [|m r IH]; intros allowed; cbn [verify_fold]; [eauto|].
  destruct (find_allowed (m_name m) allowed) as [[k rest']|]; [|auto].
  destruct (kind_eqb (m_kind m) k); [apply IH|auto].
Qed.

Lemma domain_names_nodup : NoDup (map fst domain_members).
Proof.
  vm_compute. repeat constructor; cbn [In]; intuition discriminate.
Qed.

Lemma verify_domain_cases ms : verify_domain ms = Ok tt \/ verify_domain ms = Err.
Proof.
  destruct ms as [|m r]; [right; reflexivity|]. unfold verify_domain.
  destruct (verify_fold_total domain_members (m :: r)) as [[rest H]|H]; rewrite H; auto.
Qed.

Lemma map_nil_iff {A B} (f : A -> B) l : map f l = [] <-> l = [].
Proof. destruct l; split; intros H; try reflexivity; discriminate. Qed.

(** C20: accepted exactly when a non-empty sub-sequence of the five standard fields *)
Theorem verify_domain_iff ms : verify_domain ms = Ok tt <-> domain_ok ms.
Proof.
  unfold domain_ok. split.
  - intros H. destruct ms as [|m r]; [discriminate|]. split; [discriminate|].
    unfold verify_domain in H.
    destruct (verify_fold domain_members (m :: r)) as [rest| | |] eqn:F; try discriminate.
    eapply verify_fold_sound. exact F.
  - intros [Hne H]. destruct ms as [|m r]; [contradiction|]. unfold verify_domain.
    destruct (verify_fold_complete domain_members (m :: r) domain_names_nodup H) as [rest ->].
    reflexivity.
Qed.

Theorem verify_domain_reject ms : ~ domain_ok ms -> verify_domain ms = Err.
Proof.
  intros H. destruct (verify_domain_cases ms) as [E|E]; [|exact E].
  apply verify_domain_iff in E. contradiction.
Qed.

Theorem verify_domain_total ms : graceful (verify_domain ms).
Proof. destruct (verify_domain_cases ms) as [-> | ->]; [apply graceful_ok|apply graceful_err]. Qed.

(* ------------------------------------------------------------------ *)
(** * The 31 well-formed domain types *)

Lemma nonempty_sublists_31 : length (nonempty_sublists domain_members) = 31%nat.
Proof. vm_compute. reflexivity. Qed.

Lemma nonempty_sublists_nodup : NoDup (nonempty_sublists domain_members).
Proof.
  apply nonempty_sublists_NoDup. eapply NoDup_map_inv. exact domain_names_nodup.
Qed.

Lemma member_pair_of_pair l : map member_pair (map member_of_pair l) = l.
Proof. induction l as [|[n k] l IH]; [reflexivity|]. cbn [map]. rewrite IH. reflexivity. Qed.

Theorem verify_domain_31 ms :
  verify_domain ms = Ok tt <-> In (map member_pair ms) (nonempty_sublists domain_members).
Proof.
  rewrite verify_domain_iff, nonempty_sublists_spec. unfold domain_ok.
  rewrite map_nil_iff. reflexivity.
Qed.

Theorem verify_domain_31_accepted :
  Forall (fun s => verify_domain (map member_of_pair s) = Ok tt) (nonempty_sublists domain_members).
Proof.
  apply Forall_forall. intros s H. apply verify_domain_31. rewrite member_pair_of_pair. exact H.
Qed.

(** the same by evaluation, as a cross-check of the enumeration *)
Lemma verify_domain_31_accepted_b :
  forallb (fun s => is_ok (verify_domain (map member_of_pair s))) (nonempty_sublists domain_members)
  = true.
Proof. vm_compute. reflexivity. Qed.

(* ------------------------------------------------------------------ *)
(** * Corollaries: each field at most once, relative order, exact types *)

Lemma accepted_names_sublist ms :
  verify_domain ms = Ok tt -> sublist (map m_name ms) (map fst domain_members).
Proof.
  intros H. apply verify_domain_iff in H as [_ H]. apply (sublist_map fst) in H.
  rewrite map_map in H. exact H.
Qed.

Theorem each_once ms : ~ NoDup (map m_name ms) -> verify_domain ms = Err.
Proof.
  intros H. apply verify_domain_reject. intros [_ D]. apply H.
  apply (sublist_map fst) in D. rewrite map_map in D.
  eapply sublist_NoDup; [exact D|exact domain_names_nodup].
Qed.

Theorem each_once_repeated pre mid post a b :
  m_name a = m_name b -> verify_domain (pre ++ a :: mid ++ b :: post) = Err.
Proof.
  intros E. apply each_once. intros N.
  rewrite map_app in N. cbn [map] in N. apply NoDup_remove_2 in N. apply N.
  apply in_or_app. right. rewrite map_app. apply in_or_app. right. left. symmetry. exact E.
Qed.

Theorem order_swapped pre mid post a b :
  verify_domain (pre ++ a :: mid ++ b :: post) = Ok tt ->
  verify_domain (pre ++ b :: mid ++ a :: post) = Err.
Proof.
  intros H1. destruct (verify_domain_cases (pre ++ b :: mid ++ a :: post)) as [H2|H2]; [|exact H2].
  exfalso. apply accepted_names_sublist in H1, H2.
  rewrite !map_app in H1, H2. cbn [map] in H1, H2. rewrite !map_app in H1, H2. cbn [map] in H1, H2.
  apply (sublist_pair_order (map fst domain_members) (m_name a) (m_name b) domain_names_nodup).
  - eapply sublist_trans; [apply sublist_pair_middle|exact H1].
  - eapply sublist_trans; [apply sublist_pair_middle|exact H2].
Qed.

Lemma nodup_fst_functional {A B} (l : list (A * B)) a b1 b2 :
  NoDup (map fst l) -> In (a, b1) l -> In (a, b2) l -> b1 = b2.
Proof.
  induction l as [|[x y] l IH]; intros N H1 H2; [destruct H1|].
  cbn [map fst] in N. inversion N as [|? ? Hx N']; subst.
  destruct H1 as [H1|H1], H2 as [H2|H2].
  - congruence.
  - inversion H1; subst. exfalso. apply Hx. apply (in_map fst) in H2. exact H2.
  - inversion H2; subst. exfalso. apply Hx. apply (in_map fst) in H1. exact H1.
  - apply IH; assumption.
Qed.

Theorem exact_types ms m k :
  In m ms -> In (m_name m, k) domain_members -> m_kind m <> k -> verify_domain ms = Err.
Proof.
  intros Hm Hk Hne. apply verify_domain_reject. intros [_ D]. apply Hne.
  assert (Hin : In (member_pair m) domain_members).
  { eapply sublist_incl; [exact D|]. apply in_map. exact Hm. }
  exact (nodup_fst_functional domain_members (m_name m) (m_kind m) k domain_names_nodup Hin Hk).
Qed.

Theorem unknown_field ms m :
  In m ms -> ~ In (m_name m) (map fst domain_members) -> verify_domain ms = Err.
Proof.
  intros Hm Hn. apply verify_domain_reject. intros [_ D]. apply Hn.
  assert (Hin : In (member_pair m) domain_members).
  { eapply sublist_incl; [exact D|]. apply in_map. exact Hm. }
  apply (in_map fst) in Hin. exact Hin.
Qed.

Theorem empty_rejected : verify_domain [] = Err.
Proof. reflexivity. Qed.

(* ------------------------------------------------------------------ *)
(** * [verify_domain_type] *)

Lemma types_get_none name types : ~ In name (map fst types) -> types_get name types = None.
Proof.
  induction types as [|[n ms] r IH]; intros H; [reflexivity|].
  cbn [types_get]. rewrite list_eqb_false.
  - apply IH. intros Hc. apply H. right. exact Hc.
  - intros E. apply H. left. symmetry. exact E.
Qed.

Lemma types_get_some name types ms : types_get name types = Some ms -> In (name, ms) types.
Proof.
  induction types as [|[n ms'] r IH]; intros H; [discriminate|].
  cbn [types_get] in H. destruct (list_eqb name n) eqn:E.
  - apply list_eqb_spec in E. inversion H; subst. left. reflexivity.
  - right. apply IH. exact H.
Qed.

Theorem missing_domain types :
  ~ In (s2l "EIP712Domain") (map fst types) -> verify_domain_type types = Err.
Proof. intros H. unfold verify_domain_type. rewrite types_get_none by exact H. reflexivity. Qed.

Theorem verify_domain_type_iff types :
  verify_domain_type types = Ok tt <->
  exists ms, types_get (s2l "EIP712Domain") types = Some ms /\ domain_ok ms.
Proof.
  unfold verify_domain_type. destruct (types_get (s2l "EIP712Domain") types) as [ms|].
  - rewrite verify_domain_iff. split; [intros H; exists ms; auto|].
    intros (ms' & E & H). inversion E; subst. exact H.
  - split; [discriminate|]. intros (ms & E & _). discriminate.
Qed.

Theorem verify_domain_type_total types : graceful (verify_domain_type types).
Proof.
  unfold verify_domain_type. destruct (types_get _ types); [apply verify_domain_total|apply graceful_err].
Qed.
