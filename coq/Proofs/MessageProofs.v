(** Proofs for C10 — the EIP-191 personal-message digest ([Model/Message.v]). *)
From Coq Require Import String.
From Coq Require Import List NArith Lia Bool PeanoNat Arith.
From HDW Require Import Lib.Radix Lib.Bytes Lib.Decimal Model.Message.
Import ListNotations.
Open Scope N_scope.

(* ---------------- the equation ---------------- *)

Section Digest.
  Variable keccak : bytes -> bytes.

  Lemma digest_eq m :
    digest keccak m
    = keccak ([25] ++ s2l "Ethereum Signed Message:" ++ [10] ++ decimal (N.of_nat (length m)) ++ m).
  Proof. reflexivity. Qed.
End Digest.

(* ---------------- the constant prefix ---------------- *)

Lemma prefix_bytes :
  s2l "Ethereum Signed Message:" ++ [10]
  = [69; 116; 104; 101; 114; 101; 117; 109; 32;         (* "Ethereum "  *)
     83; 105; 103; 110; 101; 100; 32;                    (* "Signed "    *)
     77; 101; 115; 115; 97; 103; 101; 58;                (* "Message:"   *)
     10]                                                 (* "\n"         *)
  /\ length ([25] ++ s2l "Ethereum Signed Message:" ++ [10]) = 26%nat.
Proof. split; vm_compute; reflexivity. Qed.

Lemma preimage_split m :
  preimage m = ([25] ++ s2l "Ethereum Signed Message:" ++ [10]) ++ decimal (N.of_nat (length m)) ++ m.
Proof. unfold preimage. rewrite <- !app_assoc. reflexivity. Qed.

Lemma preimage_length m :
  length (preimage m) = (26 + length (decimal (N.of_nat (length m))) + length m)%nat.
Proof.
  rewrite preimage_split, app_length. destruct prefix_bytes as [_ ->]. rewrite app_length. lia.
Qed.

(* ---------------- the decimal length field ---------------- *)

Lemma decimal_0 : decimal 0 = [48].
Proof. reflexivity. Qed.

(** only ASCII digits, no leading zero (except the single digit of 0), reads back as [n] *)
Lemma decimal_canonical_full n :
  all_digits (decimal n)
  /\ (n <> 0 -> exists c r, decimal n = c :: r /\ c <> 48)
  /\ (n = 0 -> decimal n = [48])
  /\ of_digits 10 (map (fun c => c - 48) (decimal n)) = n
  /\ (forall max, n <= max -> parse_uint max (decimal n) = Some n).
Proof.
  split; [apply decimal_digits|].
  split; [apply decimal_canonical|].
  split; [intros ->; reflexivity|].
  split; [apply decimal_value|].
  intros max; apply parse_decimal.
Qed.

Lemma decimal_length_nonzero n :
  n <> 0 -> length (decimal n) = length (to_digits 10 n).
Proof.
  intros Hn. unfold decimal. destruct (N.eqb_spec n 0); [contradiction|]. apply map_length.
Qed.

(** a number with exactly [S k] decimal digits is printed with [S k] characters *)
Lemma decimal_length n k :
  10 ^ N.of_nat k <= n < 10 ^ N.of_nat (S k) -> length (decimal n) = S k.
Proof.
  intros [Hlo Hhi].
  assert (Hpos : 0 < 10 ^ N.of_nat k) by (apply N.neq_0_lt_0, N.pow_nonzero; lia).
  assert (Hn : n <> 0) by lia.
  rewrite decimal_length_nonzero by exact Hn.
  pose proof (to_digits_length_le 10 (S k) n ltac:(lia) Hhi) as Hle.
  destruct (Nat.le_gt_cases (length (to_digits 10 n)) k) as [Hsmall|Hbig]; [exfalso|lia].
  pose proof (of_digits_bound 10 (to_digits 10 n) (to_digits_ok 10 n ltac:(lia))) as Hb.
  rewrite of_to_digits in Hb by lia.
  assert (10 ^ N.of_nat (length (to_digits 10 n)) <= 10 ^ N.of_nat k)
    by (apply N.pow_le_mono_r; lia).
  lia.
Qed.

Lemma decimal_length_0 : length (decimal 0) = 1%nat.
Proof. reflexivity. Qed.

(** the table spelled out: 1 to 7 digits, and the general rule above for more *)
Lemma decimal_length_table n :
  (n < 10 -> length (decimal n) = 1%nat)
  /\ (10 <= n < 100 -> length (decimal n) = 2%nat)
  /\ (100 <= n < 1000 -> length (decimal n) = 3%nat)
  /\ (1000 <= n < 10000 -> length (decimal n) = 4%nat)
  /\ (10000 <= n < 100000 -> length (decimal n) = 5%nat)
  /\ (100000 <= n < 1000000 -> length (decimal n) = 6%nat)
  /\ (1000000 <= n < 10000000 -> length (decimal n) = 7%nat).
Proof.
  repeat split.
  - intros H. destruct (N.eq_dec n 0) as [->|Hn]; [reflexivity|].
    apply (decimal_length n 0). change (10 ^ N.of_nat 0) with 1. change (10 ^ N.of_nat 1) with 10. lia.
  - intros H. apply (decimal_length n 1). exact H.
  - intros H. apply (decimal_length n 2). exact H.
  - intros H. apply (decimal_length n 3). exact H.
  - intros H. apply (decimal_length n 4). exact H.
  - intros H. apply (decimal_length n 5). exact H.
  - intros H. apply (decimal_length n 6). exact H.
Qed.

(** the number of characters is monotone in the number *)
Lemma decimal_length_mono a b : a <= b -> (length (decimal a) <= length (decimal b))%nat.
Proof.
  intros Hab.
  destruct (N.eq_dec a 0) as [->|Ha].
  - pose proof (decimal_nonempty b). destruct (decimal b); [congruence|]. cbn. lia.
  - assert (Hb : b <> 0) by lia.
    rewrite !decimal_length_nonzero by assumption.
    apply to_digits_length_le; [lia|].
    pose proof (of_digits_bound 10 (to_digits 10 b) (to_digits_ok 10 b ltac:(lia))) as H.
    rewrite of_to_digits in H by lia. lia.
Qed.

(* ---------------- the framing is unambiguous ---------------- *)

Lemma preimage_injective m1 m2 : preimage m1 = preimage m2 -> m1 = m2.
Proof.
  intros H. rewrite !preimage_split in H. apply app_inv_head in H.
  assert (Hlen : length m1 = length m2).
  { pose proof (f_equal (@length N) H) as L. rewrite !app_length in L.
    destruct (Nat.lt_trichotomy (length m1) (length m2)) as [Hlt|[Heq|Hgt]]; [exfalso|exact Heq|exfalso].
    - pose proof (decimal_length_mono (N.of_nat (length m1)) (N.of_nat (length m2)) ltac:(lia)). lia.
    - pose proof (decimal_length_mono (N.of_nat (length m2)) (N.of_nat (length m1)) ltac:(lia)). lia. }
  rewrite Hlen in H. apply app_inv_head in H. exact H.
Qed.

Section DigestInj.
  Variable keccak : bytes -> bytes.
  (** two messages with the same digest have colliding Keccak inputs (or are equal) *)
  Lemma digest_collision m1 m2 :
    digest keccak m1 = digest keccak m2 ->
    m1 = m2 \/ (preimage m1 <> preimage m2 /\ keccak (preimage m1) = keccak (preimage m2)).
  Proof.
    intros H. destruct (list_eq_dec N.eq_dec (preimage m1) (preimage m2)) as [E|E].
    - left. apply preimage_injective; exact E.
    - right. split; [exact E|exact H].
  Qed.
End DigestInj.
