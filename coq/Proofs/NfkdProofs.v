(** Idempotence of the table-driven NFKD of [Prim/Nfkd.v]:  nfkd (nfkd t) = nfkd t.

    Three ingredients:
    - the decomposition table is CLOSED: every code point that occurs in a decomposition
      (table entry, or the jamo of a Hangul syllable) decomposes to itself.  For the 5795
      table entries this is a finite computation over [PositiveMap.elements decomp_map]; for
      Hangul it is a computation over the 19 + 21 + 27 jamo plus arithmetic bounds;
    - canonical reordering only permutes its input;
    - canonical reordering is idempotent: its output has no adjacent pair (a, b) with
      ccc a > ccc b > 0, and it is the identity on such lists.

    Used by [Props/C02k.v]: the seed depends on the passphrase only through its normal form. *)
From Coq Require Import List NArith Bool FMapPositive Sorted Lia.
From HDW Require Import Lib.Bytes Prim.NfkdTable Prim.Nfkd.
Import ListNotations.
Local Open Scope N_scope.

(* ------------------------------------------------------------------------------------ *)
(** * The decomposition is closed *)

Definition stable (c : N) : bool :=
  match decomp c with
  | [d] => d =? c
  | _ => false
  end.

Lemma stable_spec c : stable c = true <-> decomp c = [c].
Proof.
  unfold stable. destruct (decomp c) as [|d [|e r]] eqn:E; split; intros H; try discriminate.
  - apply N.eqb_eq in H. subst d. reflexivity.
  - inversion H. subst d. apply N.eqb_refl.
Qed.

Lemma table_closed :
  forallb (fun kv => forallb stable (snd kv)) (PositiveMap.elements decomp_map) = true.
Proof. vm_compute. reflexivity. Qed.

Lemma table_entry_stable k ds d :
  PositiveMap.find k decomp_map = Some ds -> In d ds -> stable d = true.
Proof.
  intros Hf Hd. apply PositiveMap.elements_correct in Hf.
  pose proof table_closed as H. rewrite forallb_forall in H.
  specialize (H (k, ds) Hf). cbn [snd] in H. rewrite forallb_forall in H. apply H. exact Hd.
Qed.

(** the jamo *)
Lemma jamo_L_stable : forallb (fun i => stable (hangul_LBase + N.of_nat i)) (seq 0 19) = true.
Proof. vm_compute. reflexivity. Qed.
Lemma jamo_V_stable : forallb (fun i => stable (hangul_VBase + N.of_nat i)) (seq 0 21) = true.
Proof. vm_compute. reflexivity. Qed.
Lemma jamo_T_stable : forallb (fun i => stable (hangul_TBase + N.of_nat i)) (seq 0 28) = true.
Proof. vm_compute. reflexivity. Qed.

Lemma in_range_stable (base : N) (n : nat) (k : N) :
  forallb (fun i => stable (base + N.of_nat i)) (seq 0 n) = true ->
  k < N.of_nat n -> stable (base + k) = true.
Proof.
  intros H Hk. rewrite forallb_forall in H.
  specialize (H (N.to_nat k)). rewrite N2Nat.id in H. apply H.
  apply in_seq. lia.
Qed.

Lemma hangul_stable c d :
  is_hangul_syllable c = true -> In d (decomp_hangul c) -> stable d = true.
Proof.
  unfold is_hangul_syllable, decomp_hangul. intros Hc Hd.
  apply andb_prop in Hc. destruct Hc as [H1 H2]. apply N.leb_le in H1. apply N.ltb_lt in H2.
  set (s := c - hangul_SBase) in *.
  assert (Hs : s < 11172) by (unfold s, hangul_SBase, hangul_SCount in *; lia).
  assert (HL : s / hangul_NCount < 19).
  { apply N.div_lt_upper_bound; unfold hangul_NCount; lia. }
  assert (HV : (s mod hangul_NCount) / hangul_TCount < 21).
  { apply N.div_lt_upper_bound; [unfold hangul_TCount; lia|].
    pose proof (N.mod_lt s hangul_NCount ltac:(unfold hangul_NCount; lia)) as Hm.
    unfold hangul_NCount, hangul_TCount in *. lia. }
  assert (HT : s mod hangul_TCount < 28).
  { apply N.mod_lt. unfold hangul_TCount. lia. }
  destruct (s mod hangul_TCount =? 0); cbn [In] in Hd.
  - destruct Hd as [Hd|[Hd|[]]]; subst d.
    + apply (in_range_stable hangul_LBase 19); [exact jamo_L_stable|exact HL].
    + apply (in_range_stable hangul_VBase 21); [exact jamo_V_stable|exact HV].
  - destruct Hd as [Hd|[Hd|[Hd|[]]]]; subst d.
    + apply (in_range_stable hangul_LBase 19); [exact jamo_L_stable|exact HL].
    + apply (in_range_stable hangul_VBase 21); [exact jamo_V_stable|exact HV].
    + apply (in_range_stable hangul_TBase 28); [exact jamo_T_stable|exact HT].
Qed.

(** every code point of a decomposition decomposes to itself *)
Lemma decomp_closed c d : In d (decomp c) -> decomp d = [d].
Proof.
  intros Hd. apply stable_spec. revert Hd. unfold decomp at 1.
  destruct (PositiveMap.find (N.succ_pos c) decomp_map) as [ds|] eqn:Hf.
  - intros Hd. exact (table_entry_stable _ _ _ Hf Hd).
  - destruct (is_hangul_syllable c) eqn:Hh.
    + intros Hd. exact (hangul_stable c d Hh Hd).
    + intros [Hd|[]]. subst d. apply stable_spec. unfold decomp. rewrite Hf, Hh. reflexivity.
Qed.

Lemma flat_map_decomp_stable l :
  (forall d, In d l -> decomp d = [d]) -> flat_map decomp l = l.
Proof.
  induction l as [|a l IH]; intros H; cbn [flat_map]; [reflexivity|].
  rewrite (H a (or_introl eq_refl)). cbn [app]. f_equal. apply IH.
  intros d Hd. apply H. right. exact Hd.
Qed.

(* ------------------------------------------------------------------------------------ *)
(** * Reordering permutes *)

Lemma In_ins_mark x c run : In x (ins_mark c run) <-> x = c \/ In x run.
Proof.
  induction run as [|d r IH]; cbn [ins_mark].
  - cbn [In]. intuition.
  - destruct (ccc c <? ccc d); cbn [In]; [intuition|]. rewrite IH. intuition.
Qed.

Lemma In_reorder_go x l : forall run, In x (reorder_go run l) <-> In x run \/ In x l.
Proof.
  induction l as [|c r IH]; intros run; cbn [reorder_go].
  - cbn [In]. intuition.
  - destruct (ccc c =? 0).
    + rewrite in_app_iff. cbn [In]. rewrite (IH []). cbn [In]. intuition.
    + rewrite IH, In_ins_mark. cbn [In]. intuition.
Qed.

Lemma In_reorder x l : In x (reorder l) <-> In x l.
Proof. unfold reorder. rewrite In_reorder_go. cbn [In]. intuition. Qed.

(* ------------------------------------------------------------------------------------ *)
(** * Reordering is idempotent *)

Definition le_ccc (a b : N) : Prop := ccc a <= ccc b.
Definition nz (a : N) : Prop := ccc a <> 0.

(** canonically ordered: no adjacent (a, b) with ccc a > ccc b > 0 *)
Inductive canon : list N -> Prop :=
| canon_nil : canon []
| canon_one a : canon [a]
| canon_cons a b l : (ccc b = 0 \/ ccc a <= ccc b) -> canon (b :: l) -> canon (a :: b :: l).

Lemma canon_tail a l : canon (a :: l) -> canon l.
Proof. intros H. inversion H; subst; [constructor|assumption]. Qed.

Lemma canon_app_r l1 l2 : canon (l1 ++ l2) -> canon l2.
Proof.
  induction l1 as [|a l1 IH]; cbn [app]; intros H; [exact H|].
  apply IH. exact (canon_tail _ _ H).
Qed.

Lemma sorted_canon run : StronglySorted le_ccc run -> canon run.
Proof.
  induction run as [|a [|b r] IH]; intros H; [constructor|constructor|].
  inversion H as [|x y Hs Hf]; subst. constructor.
  - right. inversion Hf; subst. assumption.
  - apply IH. exact Hs.
Qed.

(** joining two canonically ordered lists whose boundary pair is fine *)
Lemma canon_app l1 : forall b l2,
  canon l1 -> canon (b :: l2) ->
  (forall a, last l1 b = a -> l1 <> [] -> ccc b = 0 \/ ccc a <= ccc b) ->
  canon (l1 ++ b :: l2).
Proof.
  induction l1 as [|a [|a' r] IH]; intros b l2 H1 H2 Hb; cbn [app].
  - exact H2.
  - constructor; [|exact H2]. apply (Hb a); [reflexivity|discriminate].
  - inversion H1 as [| |x y z Hxy Hrest]; subst. constructor; [exact Hxy|].
    apply (IH b l2 Hrest H2). intros a0 Ha0 _. apply (Hb a0); [|discriminate].
    cbn [last] in *. exact Ha0.
Qed.

Lemma ins_mark_sorted c run :
  StronglySorted le_ccc run -> StronglySorted le_ccc (ins_mark c run).
Proof.
  induction run as [|d r IH]; intros H; cbn [ins_mark].
  - constructor; constructor.
  - inversion H as [|x y Hs Hf]; subst.
    destruct (ccc c <? ccc d) eqn:Hlt.
    + apply N.ltb_lt in Hlt. constructor; [exact H|].
      constructor; [unfold le_ccc; lia|].
      rewrite Forall_forall in *. intros e He. specialize (Hf e He). unfold le_ccc in *. lia.
    + apply N.ltb_ge in Hlt. constructor; [apply IH; exact Hs|].
      rewrite Forall_forall in *. intros e He. apply In_ins_mark in He.
      destruct He as [He|He]; [subst e; exact Hlt|exact (Hf e He)].
Qed.

Lemma ins_mark_nz c run : nz c -> Forall nz run -> Forall nz (ins_mark c run).
Proof.
  intros Hc Hr. rewrite Forall_forall in *. intros e He. apply In_ins_mark in He.
  destruct He as [He|He]; [subst e; exact Hc|exact (Hr e He)].
Qed.

(** the output of the reordering is canonically ordered *)
Lemma reorder_go_canon l : forall run,
  StronglySorted le_ccc run -> canon (reorder_go run l).
Proof.
  induction l as [|c r IH]; intros run Hs; cbn [reorder_go].
  - apply sorted_canon. exact Hs.
  - destruct (ccc c =? 0) eqn:Hc.
    + apply N.eqb_eq in Hc.
      assert (Hrest : canon (c :: reorder_go [] r)).
      { specialize (IH [] (SSorted_nil _)).
        destruct (reorder_go [] r) as [|b rest]; [constructor|].
        constructor; [right; lia|exact IH]. }
      apply canon_app; [apply sorted_canon; exact Hs|exact Hrest|].
      intros a _ _. left. exact Hc.
    + apply IH. apply ins_mark_sorted. exact Hs.
Qed.

Lemma sorted_le_next run c r :
  StronglySorted le_ccc run -> canon (run ++ c :: r) -> ccc c <> 0 ->
  Forall (fun d => ccc d <= ccc c) run.
Proof.
  induction run as [|d [|d' run'] IH]; intros Hs Hc Hnz.
  - constructor.
  - constructor; [|constructor]. cbn [app] in Hc. inversion Hc; subst.
    match goal with H : _ \/ _ |- _ => destruct H as [H|H]; [contradiction|exact H] end.
  - inversion Hs as [|x y Hs' Hf]; subst.
    assert (Hrec : Forall (fun e => ccc e <= ccc c) (d' :: run')).
    { apply IH; [exact Hs'| |exact Hnz]. cbn [app] in Hc. exact (canon_tail _ _ Hc). }
    constructor; [|exact Hrec].
    inversion Hrec; subst. inversion Hf; subst. unfold le_ccc in *. lia.
Qed.

Lemma ins_mark_at_end c run :
  Forall (fun d => ccc d <= ccc c) run -> ins_mark c run = run ++ [c].
Proof.
  induction run as [|d r IH]; intros H; cbn [ins_mark app]; [reflexivity|].
  inversion H; subst.
  destruct (ccc c <? ccc d) eqn:Hlt; [apply N.ltb_lt in Hlt; lia|].
  f_equal. apply IH. assumption.
Qed.

Lemma sorted_snoc run c :
  StronglySorted le_ccc run -> Forall (fun d => ccc d <= ccc c) run ->
  StronglySorted le_ccc (run ++ [c]).
Proof.
  induction run as [|d r IH]; intros Hs Hf; cbn [app].
  - constructor; constructor.
  - inversion Hs as [|x y Hs' Hfd]; subst. inversion Hf; subst.
    constructor; [apply IH; assumption|].
    rewrite Forall_forall in *. intros e He. apply in_app_iff in He.
    destruct He as [He|[He|[]]]; [exact (Hfd e He)|subst e; assumption].
Qed.

(** ... and the reordering is the identity on canonically ordered input *)
Lemma reorder_go_fix l : forall run,
  StronglySorted le_ccc run -> canon (run ++ l) -> reorder_go run l = run ++ l.
Proof.
  induction l as [|c r IH]; intros run Hs Hc; cbn [reorder_go].
  - rewrite app_nil_r. reflexivity.
  - destruct (ccc c =? 0) eqn:Hz.
    + f_equal. f_equal. rewrite (IH [] (SSorted_nil _)); [reflexivity|].
      cbn [app]. apply canon_app_r in Hc. exact (canon_tail _ _ Hc).
    + apply N.eqb_neq in Hz.
      pose proof (sorted_le_next run c r Hs Hc Hz) as Hle.
      rewrite (ins_mark_at_end c run Hle).
      rewrite IH; [rewrite <- app_assoc; reflexivity|apply sorted_snoc; assumption|].
      rewrite <- app_assoc. exact Hc.
Qed.

Lemma reorder_canon l : canon (reorder l).
Proof. apply reorder_go_canon. constructor. Qed.

Lemma reorder_idem l : reorder (reorder l) = reorder l.
Proof.
  unfold reorder at 1. rewrite (reorder_go_fix (reorder l) [] (SSorted_nil _)); [reflexivity|].
  cbn [app]. apply reorder_canon.
Qed.

(* ------------------------------------------------------------------------------------ *)
(** * NFKD is idempotent *)

Lemma nfkd_output_stable t d : In d (nfkd t) -> decomp d = [d].
Proof.
  unfold nfkd. rewrite In_reorder, in_flat_map. intros (c & _ & Hd).
  exact (decomp_closed c d Hd).
Qed.

Theorem nfkd_idempotent t : nfkd (nfkd t) = nfkd t.
Proof.
  unfold nfkd at 1. rewrite (flat_map_decomp_stable (nfkd t) (nfkd_output_stable t)).
  unfold nfkd. apply reorder_idem.
Qed.

(** the output is in canonical order and fully decomposed *)
Theorem nfkd_normal_form t :
  canon (nfkd t) /\ forall d, In d (nfkd t) -> decomp d = [d].
Proof. split; [apply reorder_canon|apply nfkd_output_stable]. Qed.
