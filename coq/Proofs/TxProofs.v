(** C06 / C11 — proofs, part 1: the model's [rlp_encode] computes the specification trees
    ([Spec/TxSpec.v]) encoded by the Yellow-Paper [enc]; these trees are well-formed RLP items;
    [Signature::v] is exact. *)
From Coq Require Import String.
From Coq Require Import List NArith ZArith Lia Bool PeanoNat Arith ZifyBool ZifyNat ZifyN.
From HDW Require Import Lib.Outcome Lib.Radix Lib.Bytes Lib.Hex Model.Json Model.Num Model.Rlp
  Model.SigText Model.Tx Spec.RlpSpec Spec.TxSpec Proofs.RlpProofs.
Import ListNotations.
Open Scope N_scope.
Open Scope outcome_scope.

Arguments N.add : simpl never.
Arguments N.sub : simpl never.
Arguments N.mul : simpl never.
Arguments N.div : simpl never.
Arguments N.ltb : simpl never.
Arguments N.leb : simpl never.
Arguments N.pow : simpl never.
Arguments N.of_nat : simpl never.
Arguments N.to_nat : simpl never.

(* ------------------------------------------------------------------ *)
(** * Lengths of encodings (upper bounds) *)

Lemma enc_len_length n off : n < 2 ^ 64 -> N.of_nat (length (enc_len n off)) <= 9.
Proof.
  intros H. unfold enc_len. destruct (n <? 56); cbn [length]; [lia|].
  pose proof (be_min_len n H). lia.
Qed.

Lemma enc_str_length b :
  N.of_nat (length b) < 2 ^ 64 -> N.of_nat (length (enc (Str b))) <= 9 + N.of_nat (length b).
Proof.
  intros H. cbn [enc]. destruct (single_low b) eqn:Hs.
  - apply single_low_true in Hs. destruct Hs as [x [-> Hx]]. rewrite enc_str_single by exact Hx.
    cbn [length]. lia.
  - rewrite enc_str_general by exact Hs. rewrite app_length.
    pose proof (enc_len_length (N.of_nat (length b)) 128 H). lia.
Qed.

Lemma enc_lst_length l :
  N.of_nat (length (flat_map enc l)) < 2 ^ 64 ->
  N.of_nat (length (enc (Lst l))) <= 9 + N.of_nat (length (flat_map enc l)).
Proof.
  intros H. cbn [enc]. cbv zeta. rewrite app_length.
  pose proof (enc_len_length (N.of_nat (length (flat_map enc l))) 192 H). lia.
Qed.

Ltac forall_list := repeat (apply Forall_cons; [assumption|]); apply Forall_nil.

Lemma flat_map_enc_cons i l : flat_map enc (i :: l) = enc i ++ flat_map enc l.
Proof. reflexivity. Qed.

(* ------------------------------------------------------------------ *)
(** * The specification trees are well-formed items of bounded size *)

Lemma wf_Str_small b k :
  bytes_ok b -> N.of_nat (length b) <= k -> k < 2 ^ 64 ->
  wf_item (Str b) /\ N.of_nat (length (enc (Str b))) <= 9 + k.
Proof.
  intros Hok Hlen Hk. split.
  - constructor; [exact Hok|lia].
  - pose proof (enc_str_length b ltac:(lia)). lia.
Qed.

Lemma wf_Int v : v < 2 ^ 256 -> wf_item (Int v) /\ N.of_nat (length (enc (Int v))) <= 41.
Proof.
  intros H. pose proof (be_min_len32 v H) as HL.
  apply (wf_Str_small (be_min v) 32); [apply be_min_ok|lia|lia].
Qed.

Lemma wf_to_item to :
  wf_to to -> wf_item (to_item to) /\ N.of_nat (length (enc (to_item to))) <= 29.
Proof.
  intros H. unfold to_item. destruct to as [a|].
  - destruct H as [HL Hok]. apply (wf_Str_small a 20); [exact Hok|lia|lia].
  - pose proof (wf_Str_small [] 0 ltac:(constructor) ltac:(cbn [length]; lia) ltac:(lia)) as [H1 H2].
    split; [exact H1|lia].
Qed.

Lemma wf_slots (ks : list bytes) :
  Forall (fun k : bytes => length k = 32%nat /\ bytes_ok k) ks ->
  Forall wf_item (map Str ks)
  /\ N.of_nat (length (flat_map enc (map Str ks))) <= 41 * N.of_nat (length ks).
Proof.
  induction 1 as [|k ks [HL Hok] _ [IH1 IH2]]; cbn [map].
  - split; [constructor|]. cbn [flat_map length]. lia.
  - destruct (wf_Str_small k 32 Hok ltac:(lia) ltac:(lia)) as [H1 H2].
    split; [constructor; assumption|].
    rewrite flat_map_enc_cons, app_length. cbn [length]. lia.
Qed.

Lemma wf_entry e :
  wf_access_entry e -> 64 * (1 + N.of_nat (length (snd e))) < 2 ^ 64 ->
  wf_item (access_entry_tree e)
  /\ N.of_nat (length (enc (access_entry_tree e))) <= 64 * (1 + N.of_nat (length (snd e))).
Proof.
  destruct e as [a ks]. unfold wf_access_entry. cbn [fst snd access_entry_tree]. intros [[HL Hok] Hks] Hfit.
  destruct (wf_Str_small a 20 Hok ltac:(lia) ltac:(lia)) as [Ha1 Ha2].
  destruct (wf_slots ks Hks) as [Hs1 Hs2].
  assert (Hp : N.of_nat (length (flat_map enc (map Str ks))) < 2 ^ 64) by lia.
  pose proof (enc_lst_length (map Str ks) Hp) as Hs3.
  assert (Hw : wf_item (Lst (map Str ks))) by (constructor; assumption).
  assert (Hin : N.of_nat (length (flat_map enc [Str a; Lst (map Str ks)]))
                <= 38 + 41 * N.of_nat (length ks)).
  { rewrite !flat_map_enc_cons. cbn [flat_map]. rewrite !app_length. cbn [length]. lia. }
  assert (Hin' : N.of_nat (length (flat_map enc [Str a; Lst (map Str ks)])) < 2 ^ 64) by lia.
  split.
  - constructor; [forall_list|exact Hin'].
  - pose proof (enc_lst_length _ Hin'). lia.
Qed.

Lemma cells_cons e al :
  access_list_cells (e :: al) = 1 + N.of_nat (length (snd e)) + access_list_cells al.
Proof. reflexivity. Qed.

Lemma wf_entries al :
  wf_access_list al -> 64 * access_list_cells al < 2 ^ 64 ->
  Forall wf_item (map access_entry_tree al)
  /\ N.of_nat (length (flat_map enc (map access_entry_tree al))) <= 64 * access_list_cells al.
Proof.
  induction 1 as [|e al He _ IH]; intros Hfit; cbn [map].
  - split; [constructor|]. cbn [flat_map length]. lia.
  - rewrite cells_cons in *.
    destruct (wf_entry e He ltac:(lia)) as [H1 H2].
    destruct (IH ltac:(lia)) as [IH1 IH2].
    split; [constructor; assumption|].
    rewrite flat_map_enc_cons, app_length. lia.
Qed.

Lemma wf_access_list_tree al :
  wf_access_list al -> 64 * access_list_cells al + 9 < 2 ^ 64 ->
  wf_item (access_list_tree al)
  /\ N.of_nat (length (enc (access_list_tree al))) <= 9 + 64 * access_list_cells al.
Proof.
  intros Hw Hfit. destruct (wf_entries al Hw ltac:(lia)) as [H1 H2].
  unfold access_list_tree.
  assert (Hp : N.of_nat (length (flat_map enc (map access_entry_tree al))) < 2 ^ 64) by lia.
  split; [constructor; assumption|].
  pose proof (enc_lst_length _ Hp). lia.
Qed.

(** a three-integer tail *)
Lemma wf_tail3 a b c :
  a < 2 ^ 256 -> b < 2 ^ 256 -> c < 2 ^ 256 ->
  Forall wf_item [Int a; Int b; Int c]
  /\ N.of_nat (length (flat_map enc [Int a; Int b; Int c])) <= 123.
Proof.
  intros Ha Hb Hc.
  destruct (wf_Int a Ha) as [A1 A2], (wf_Int b Hb) as [B1 B2], (wf_Int c Hc) as [C1 C2].
  split; [forall_list|].
  rewrite !flat_map_enc_cons. cbn [flat_map]. rewrite !app_length. cbn [length]. lia.
Qed.

Lemma wf_tail0 :
  Forall wf_item [] /\ N.of_nat (length (flat_map enc (@nil item))) <= 123.
Proof. split; [constructor|]. cbn [flat_map length]. lia. Qed.

(** the tails (signed or unsigned) as one function of the optional signature *)
Definition legacy_tail (chain_id : option N) (σo : option sig) : list item :=
  match σo with
  | Some σ => legacy_signed_tail chain_id σ
  | None => legacy_unsigned_tail chain_id
  end.
Definition typed_tail (σo : option sig) : list item :=
  match σo with
  | Some σ => typed_signed_tail σ
  | None => []
  end.

Definition tree_of (t : tx) (σo : option sig) : item :=
  match t with
  | Legacy t => legacy_tree t (legacy_tail (l_chain_id t) σo)
  | Eip2930 t => eip2930_tree t (typed_tail σo)
  | Eip1559 t => eip1559_tree t (typed_tail σo)
  end.

Lemma tree_of_some t σ : tree_of t (Some σ) = signed_tree t σ.
Proof. destruct t; reflexivity. Qed.
Lemma tree_of_none t : tree_of t None = unsigned_tree t.
Proof. destruct t; reflexivity. Qed.

Definition sig_opt_fits (σo : option sig) : Prop :=
  match σo with Some σ => sig_fits σ | None => True end.

Lemma parity_le σ : parity_N σ <= 1.
Proof. unfold parity_N. destruct (sig_parity σ); lia. Qed.

Lemma spec_v_bound σ c : wf_legacy_chain c -> spec_v σ c < 2 ^ 256.
Proof.
  pose proof (parity_le σ). unfold wf_legacy_chain, spec_v. destruct c as [c|]; intros Hc; lia.
Qed.

Lemma wf_legacy_tail c σo :
  wf_legacy_chain c -> sig_opt_fits σo ->
  Forall wf_item (legacy_tail c σo)
  /\ N.of_nat (length (flat_map enc (legacy_tail c σo))) <= 123.
Proof.
  intros Hc Hs. destruct σo as [σ|]; cbn [legacy_tail].
  - destruct Hs as [Hr Hss]. apply wf_tail3; [apply spec_v_bound, Hc|exact Hr|exact Hss].
  - destruct c as [c|]; cbn [legacy_unsigned_tail]; [|exact wf_tail0].
    cbn [wf_legacy_chain] in Hc. apply wf_tail3; lia.
Qed.

Lemma wf_typed_tail σo :
  sig_opt_fits σo ->
  Forall wf_item (typed_tail σo)
  /\ N.of_nat (length (flat_map enc (typed_tail σo))) <= 123.
Proof.
  intros Hs. destruct σo as [σ|]; cbn [typed_tail]; [|exact wf_tail0].
  destruct Hs as [Hr Hss]. pose proof (parity_le σ). apply wf_tail3; [lia|exact Hr|exact Hss].
Qed.

Lemma wf_Lst_app fields tail k :
  Forall wf_item fields -> Forall wf_item tail ->
  N.of_nat (length (flat_map enc fields)) <= k ->
  N.of_nat (length (flat_map enc tail)) <= 123 ->
  k + 123 < 2 ^ 64 ->
  wf_item (Lst (fields ++ tail)).
Proof.
  intros Hf Ht Hk Htl Hfit. constructor.
  - apply Forall_app. split; assumption.
  - rewrite flat_map_app, app_length. lia.
Qed.

Lemma wf_tree t σo : wf_tx t -> tx_fits t -> sig_opt_fits σo -> wf_item (tree_of t σo).
Proof.
  intros Hw Hfit Hs. unfold tx_fits in Hfit.
  destruct t as [t|t|t]; cbn [wf_tx tree_of tx_data tx_access_list] in *.
  - destruct Hw as (H0 & H1 & H2 & H3 & H4 & H5 & H6). unfold u256 in *.
    destruct (wf_legacy_tail (l_chain_id t) σo H6 Hs) as [T1 T2].
    destruct (wf_Int _ H0) as [A0 B0], (wf_Int _ H1) as [A1 B1], (wf_Int _ H2) as [A2 B2],
      (wf_to_item _ H3) as [A3 B3], (wf_Int _ H4) as [A4 B4].
    destruct (wf_Str_small (l_data t) (N.of_nat (length (l_data t))) H5 ltac:(lia) ltac:(lia))
      as [A5 B5].
    unfold legacy_tree.
    apply (wf_Lst_app _ _ (N.of_nat (length (l_data t)) + 512)); try assumption.
    + unfold legacy_fields. forall_list.
    + unfold legacy_fields. rewrite !flat_map_enc_cons. cbn [flat_map]. rewrite !app_length.
      cbn [length]. lia.
    + cbn [access_list_cells fold_right] in Hfit. lia.
  - destruct Hw as (H0 & H1 & H2 & H3 & H4 & H5 & H6 & H7). unfold u256 in *.
    destruct (wf_typed_tail σo Hs) as [T1 T2].
    destruct (wf_Int _ H0) as [A0 B0], (wf_Int _ H1) as [A1 B1], (wf_Int _ H2) as [A2 B2],
      (wf_Int _ H3) as [A3 B3], (wf_to_item _ H4) as [A4 B4], (wf_Int _ H5) as [A5 B5].
    destruct (wf_Str_small (e2_data t) (N.of_nat (length (e2_data t))) H6 ltac:(lia) ltac:(lia))
      as [A6 B6].
    destruct (wf_access_list_tree _ H7 ltac:(lia)) as [A7 B7].
    unfold eip2930_tree.
    apply (wf_Lst_app _ _ (N.of_nat (length (e2_data t))
                            + 64 * access_list_cells (e2_access_list t) + 512)); try assumption.
    + unfold eip2930_fields. forall_list.
    + unfold eip2930_fields. rewrite !flat_map_enc_cons. cbn [flat_map]. rewrite !app_length.
      cbn [length]. lia.
    + lia.
  - destruct Hw as (H0 & H1 & H2 & H3 & H4 & H5 & H6 & H7 & H8). unfold u256 in *.
    destruct (wf_typed_tail σo Hs) as [T1 T2].
    destruct (wf_Int _ H0) as [A0 B0], (wf_Int _ H1) as [A1 B1], (wf_Int _ H2) as [A2 B2],
      (wf_Int _ H3) as [A3 B3], (wf_Int _ H4) as [A4 B4], (wf_to_item _ H5) as [A5 B5],
      (wf_Int _ H6) as [A6 B6].
    destruct (wf_Str_small (e5_data t) (N.of_nat (length (e5_data t))) H7 ltac:(lia) ltac:(lia))
      as [A7 B7].
    destruct (wf_access_list_tree _ H8 ltac:(lia)) as [A8 B8].
    unfold eip1559_tree.
    apply (wf_Lst_app _ _ (N.of_nat (length (e5_data t))
                            + 64 * access_list_cells (e5_access_list t) + 512)); try assumption.
    + unfold eip1559_fields. forall_list.
    + unfold eip1559_fields. rewrite !flat_map_enc_cons. cbn [flat_map]. rewrite !app_length.
      cbn [length]. lia.
    + lia.
Qed.

(* ------------------------------------------------------------------ *)
(** * [Signature::v] *)

Lemma y_parity_eq σ : y_parity σ = parity_N σ.
Proof. reflexivity. Qed.

Lemma sig_v_none σ : sig_v σ None = Ok (27 + parity_N σ).
Proof.
  pose proof (parity_le σ) as Hp. cbn [sig_v]. unfold u256_add. rewrite y_parity_eq.
  destruct (N.ltb_spec (parity_N σ + 27) (2 ^ 256)) as [_|Hc]; [|lia].
  f_equal. lia.
Qed.

Lemma sig_v_exact σ c : 2 * c + 36 < 2 ^ 256 -> sig_v σ (Some c) = Ok (35 + 2 * c + parity_N σ).
Proof.
  intros Hc. pose proof (parity_le σ) as Hp. cbn [sig_v]. unfold u256_mul, u256_add.
  rewrite y_parity_eq.
  destruct (N.ltb_spec (c * 2) (2 ^ 256)) as [_|Hx]; [|lia]. cbn [bind].
  destruct (N.ltb_spec (parity_N σ + c * 2) (2 ^ 256)) as [_|Hx]; [|lia]. cbn [bind].
  destruct (N.ltb_spec (parity_N σ + c * 2 + 35) (2 ^ 256)) as [_|Hx]; [|lia].
  f_equal. lia.
Qed.

(** the mathematical value reaches 2^256 => the overflow check fires (never a wrapped value) *)
Lemma sig_v_overflow σ c : 2 ^ 256 <= 35 + 2 * c + parity_N σ -> sig_v σ (Some c) = Panic.
Proof.
  intros Hc. cbn [sig_v]. unfold u256_mul, u256_add. rewrite y_parity_eq.
  destruct (N.ltb_spec (c * 2) (2 ^ 256)) as [_|Hx]; [|reflexivity]. cbn [bind].
  destruct (N.ltb_spec (parity_N σ + c * 2) (2 ^ 256)) as [_|Hx]; [|reflexivity]. cbn [bind].
  destruct (N.ltb_spec (parity_N σ + c * 2 + 35) (2 ^ 256)) as [Hx|Hx]; [lia|reflexivity].
Qed.

Lemma sig_v_spec σ c : wf_legacy_chain c -> sig_v σ c = Ok (spec_v σ c).
Proof.
  destruct c as [c|]; cbn [wf_legacy_chain spec_v]; intros H; [apply sig_v_exact, H|apply sig_v_none].
Qed.

(* ------------------------------------------------------------------ *)
(** * The model computes [enc] of the trees *)

Lemma rlp_to_enc to : wf_to to -> rlp_to to = Ok (enc (to_item to)).
Proof.
  intros H. unfold rlp_to, to_item. destruct to as [a|].
  - destruct H as [HL _]. apply rlp_bytes_enc. lia.
  - apply rlp_bytes_enc. cbn [length]. lia.
Qed.

Lemma wf_Str_len b : wf_item (Str b) -> N.of_nat (length b) < 2 ^ 64.
Proof. intros H. inversion H; assumption. Qed.

Lemma wf_Lst_inv l :
  wf_item (Lst l) -> Forall wf_item l /\ N.of_nat (length (flat_map enc l)) < 2 ^ 64.
Proof. intros H. inversion H; split; assumption. Qed.

Lemma slots_rlp_enc (ks : list bytes) :
  Forall wf_item (map Str ks) -> omapM rlp_bytes ks = Ok (map enc (map Str ks)).
Proof.
  induction ks as [|k ks IH]; cbn [map omapM]; intros H; [reflexivity|].
  inversion H as [|? ? Hk Hks]; subst.
  rewrite (rlp_bytes_enc k (wf_Str_len k Hk)), (IH Hks). reflexivity.
Qed.

Lemma access_entry_rlp_enc e :
  wf_item (access_entry_tree e) -> access_entry_rlp e = Ok (enc (access_entry_tree e)).
Proof.
  destruct e as [a ks]. cbn [access_entry_tree access_entry_rlp]. intros H.
  destruct (wf_Lst_inv _ H) as [Hl Hp].
  inversion Hl as [|? ? Ha Hl']; subst. inversion Hl' as [|? ? Hks _]; subst.
  destruct (wf_Lst_inv _ Hks) as [Hks1 Hks2].
  rewrite (rlp_bytes_enc a (wf_Str_len a Ha)). cbn [bind].
  rewrite (slots_rlp_enc ks Hks1). cbn [bind].
  rewrite (rlp_iter_enc (map Str ks) Hks2). cbn [bind].
  exact (rlp_list_enc [Str a; Lst (map Str ks)] Hp).
Qed.

Lemma entries_rlp_enc al :
  Forall wf_item (map access_entry_tree al) ->
  omapM access_entry_rlp al = Ok (map enc (map access_entry_tree al)).
Proof.
  induction al as [|e al IH]; cbn [map omapM]; intros H; [reflexivity|].
  inversion H as [|? ? He Hal]; subst.
  rewrite (access_entry_rlp_enc e He), (IH Hal). reflexivity.
Qed.

Lemma access_list_rlp_enc al :
  wf_item (access_list_tree al) -> access_list_rlp al = Ok (enc (access_list_tree al)).
Proof.
  unfold access_list_tree, access_list_rlp. intros H.
  destruct (wf_Lst_inv _ H) as [Hl Hp].
  rewrite (entries_rlp_enc al Hl). cbn [bind].
  exact (rlp_iter_enc (map access_entry_tree al) Hp).
Qed.

Lemma legacy_tail_rlp_enc c σo :
  wf_legacy_chain c -> sig_opt_fits σo ->
  legacy_tail_rlp c σo = Ok (map enc (legacy_tail c σo)).
Proof.
  intros Hc Hs. unfold legacy_tail_rlp. destruct σo as [σ|]; cbn [legacy_tail].
  - destruct Hs as [Hr Hss]. rewrite (sig_v_spec σ c Hc). cbn [bind].
    rewrite (rlp_uint_enc _ (spec_v_bound σ c Hc)), (rlp_uint_enc _ Hr), (rlp_uint_enc _ Hss).
    reflexivity.
  - destruct c as [c|]; cbn [bind legacy_unsigned_tail]; [|reflexivity].
    cbn [wf_legacy_chain] in Hc.
    rewrite (rlp_uint_enc c) by lia. rewrite (rlp_uint_enc 0) by lia. reflexivity.
Qed.

Lemma typed_tail_rlp_enc σo :
  sig_opt_fits σo -> typed_tail_rlp σo = Ok (map enc (typed_tail σo)).
Proof.
  intros Hs. unfold typed_tail_rlp. destruct σo as [σ|]; cbn [typed_tail]; [|reflexivity].
  destruct Hs as [Hr Hss]. pose proof (parity_le σ) as Hp. rewrite y_parity_eq.
  rewrite (rlp_uint_enc (parity_N σ)) by lia. rewrite (rlp_uint_enc _ Hr), (rlp_uint_enc _ Hss).
  reflexivity.
Qed.

Lemma data_len_fits t : tx_fits t -> N.of_nat (length (tx_data t)) < 2 ^ 64.
Proof. unfold tx_fits. lia. Qed.

Lemma al_fits t : tx_fits t -> 64 * access_list_cells (tx_access_list t) + 9 < 2 ^ 64.
Proof. unfold tx_fits. lia. Qed.

Theorem rlp_encode_enc t σo :
  wf_tx t -> tx_fits t -> sig_opt_fits σo ->
  rlp_encode t σo = Ok (type_prefix t ++ enc (tree_of t σo)).
Proof.
  intros Hw Hfit Hs.
  pose proof (wf_tree t σo Hw Hfit Hs) as Htree.
  pose proof (data_len_fits t Hfit) as Hd. pose proof (al_fits t Hfit) as Ha.
  destruct t as [t|t|t];
    cbn [wf_tx tree_of tx_data tx_access_list rlp_encode type_prefix] in *.
  - destruct Hw as (H0 & H1 & H2 & H3 & H4 & H5 & H6). unfold u256 in *.
    unfold legacy_rlp_encode.
    rewrite (rlp_uint_enc _ H0), (rlp_uint_enc _ H1), (rlp_uint_enc _ H2), (rlp_to_enc _ H3),
      (rlp_uint_enc _ H4), (rlp_bytes_enc _ Hd), (legacy_tail_rlp_enc _ _ H6 Hs).
    cbn [bind]. unfold legacy_tree in *.
    destruct (wf_Lst_inv _ Htree) as [_ Hp].
    change (rlp_iter (map enc (legacy_fields t) ++ map enc (legacy_tail (l_chain_id t) σo))
            = Ok (enc (Lst (legacy_fields t ++ legacy_tail (l_chain_id t) σo)))).
    rewrite <- map_app. exact (rlp_iter_enc _ Hp).
  - destruct Hw as (H0 & H1 & H2 & H3 & H4 & H5 & H6 & H7). unfold u256 in *.
    destruct (wf_access_list_tree _ H7 Ha) as [Hal _].
    unfold eip2930_rlp_encode.
    rewrite (rlp_uint_enc _ H0), (rlp_uint_enc _ H1), (rlp_uint_enc _ H2), (rlp_uint_enc _ H3),
      (rlp_to_enc _ H4), (rlp_uint_enc _ H5), (rlp_bytes_enc _ Hd),
      (access_list_rlp_enc _ Hal), (typed_tail_rlp_enc _ Hs).
    cbn [bind]. unfold eip2930_tree in *.
    destruct (wf_Lst_inv _ Htree) as [_ Hp].
    change (bind (rlp_iter (map enc (eip2930_fields t) ++ map enc (typed_tail σo)))
                 (fun body => Ok ([0x01] ++ body))
            = Ok ([0x01] ++ enc (Lst (eip2930_fields t ++ typed_tail σo)))).
    rewrite <- map_app, (rlp_iter_enc _ Hp). reflexivity.
  - destruct Hw as (H0 & H1 & H2 & H3 & H4 & H5 & H6 & H7 & H8). unfold u256 in *.
    destruct (wf_access_list_tree _ H8 Ha) as [Hal _].
    unfold eip1559_rlp_encode.
    rewrite (rlp_uint_enc _ H0), (rlp_uint_enc _ H1), (rlp_uint_enc _ H2), (rlp_uint_enc _ H3),
      (rlp_uint_enc _ H4), (rlp_to_enc _ H5), (rlp_uint_enc _ H6), (rlp_bytes_enc _ Hd),
      (access_list_rlp_enc _ Hal), (typed_tail_rlp_enc _ Hs).
    cbn [bind]. unfold eip1559_tree in *.
    destruct (wf_Lst_inv _ Htree) as [_ Hp].
    change (bind (rlp_iter (map enc (eip1559_fields t) ++ map enc (typed_tail σo)))
                 (fun body => Ok ([0x02] ++ body))
            = Ok ([0x02] ++ enc (Lst (eip1559_fields t ++ typed_tail σo)))).
    rewrite <- map_app, (rlp_iter_enc _ Hp). reflexivity.
Qed.
