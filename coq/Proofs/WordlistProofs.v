(** Facts about the generated BIP-39 English word list ([Model/Wordlist.v]) and about
    [search] / [word].  The list is a closed constant of 2048 entries: every fact about its
    contents is a boolean check run by [vm_compute] (finite: 2048 words, at most 8 letters
    each; [search_word_check] runs 2048 linear searches). *)
From Coq Require Import String.
From Coq Require Import List NArith Lia Bool PeanoNat Sorted.
From HDW Require Import Lib.Outcome Lib.Radix Lib.Bytes Model.Wordlist Model.Bip39 Spec.Bip39Spec.
Import ListNotations.
Open Scope N_scope.

Lemma wordlist_length : length wordlist = 2048%nat.
Proof. vm_compute. reflexivity. Qed.

(* ---------------- order ---------------- *)

Lemma lex_ltb_trans a : forall b c, lex_ltb a b = true -> lex_ltb b c = true -> lex_ltb a c = true.
Proof.
  induction a as [|x a IH]; intros [|y b] [|z c]; cbn [lex_ltb]; intros H1 H2;
    try discriminate; try reflexivity.
  apply orb_true_iff in H1. apply orb_true_iff in H2. apply orb_true_iff.
  destruct H1 as [H1|H1]; destruct H2 as [H2|H2].
  - left. apply N.ltb_lt. apply N.ltb_lt in H1. apply N.ltb_lt in H2. lia.
  - apply andb_true_iff in H2 as [E _]. apply N.eqb_eq in E. subst. left; exact H1.
  - apply andb_true_iff in H1 as [E _]. apply N.eqb_eq in E. subst. left; exact H2.
  - apply andb_true_iff in H1 as [E1 H1]. apply andb_true_iff in H2 as [E2 H2].
    apply N.eqb_eq in E1. apply N.eqb_eq in E2. subst. right.
    rewrite N.eqb_refl. cbn [andb]. eapply IH; eassumption.
Qed.

Lemma lex_ltb_irrefl a : lex_ltb a a = false.
Proof.
  induction a as [|x a IH]; [reflexivity|]. cbn [lex_ltb].
  rewrite N.ltb_irrefl, N.eqb_refl, IH. reflexivity.
Qed.

Lemma sorted_adjb_check : sorted_adjb wordlist = true.
Proof. vm_compute. reflexivity. Qed.

Lemma sorted_adjb_strongly l : sorted_adjb l = true -> StronglySorted lex_lt l.
Proof.
  intros H. apply Sorted_StronglySorted.
  { intros a b c. unfold lex_lt. apply lex_ltb_trans. }
  induction l as [|a r IH]; [constructor|].
  destruct r as [|b r'].
  - constructor; constructor.
  - cbn [sorted_adjb] in H. apply andb_true_iff in H as [Hab Hr].
    constructor; [apply IH; exact Hr|]. constructor. exact Hab.
Qed.

(** the list is strictly increasing in Rust's [str] order (the [debug_assert!] of
    [Wordlist::parse]; what makes [binary_search] an exact membership test) *)
Lemma wordlist_sorted : StronglySorted lex_lt wordlist.
Proof. apply sorted_adjb_strongly. exact sorted_adjb_check. Qed.

Lemma wordlist_nodup : NoDup wordlist.
Proof.
  pose proof wordlist_sorted as H. induction H as [|a l Hs IH Ha]; constructor; [|exact IH].
  intros Hin. rewrite Forall_forall in Ha. specialize (Ha a Hin). unfold lex_lt in Ha.
  rewrite lex_ltb_irrefl in Ha. discriminate.
Qed.

(* ---------------- characters ---------------- *)

Definition lower_ascii_wordb (w : text) : bool := forallb (fun c => (97 <=? c) && (c <=? 122)) w.
Definition nonempty_no_wsb (w : text) : bool :=
  negb (Nat.eqb (length w) 0) && forallb (fun c => negb (is_whitespace c)) w.

Lemma lower_ascii_wordb_spec w : lower_ascii_wordb w = true -> lower_ascii_word w.
Proof.
  unfold lower_ascii_wordb, lower_ascii_word. rewrite forallb_forall, Forall_forall.
  intros H c Hc. specialize (H c Hc). apply andb_true_iff in H as [H1 H2].
  apply N.leb_le in H1. apply N.leb_le in H2. lia.
Qed.

Lemma nonempty_no_wsb_spec w : nonempty_no_wsb w = true -> nonempty_no_ws w.
Proof.
  unfold nonempty_no_wsb, nonempty_no_ws. intros H. apply andb_true_iff in H as [H1 H2]. split.
  - intros ->. discriminate.
  - rewrite forallb_forall in H2. apply Forall_forall. intros c Hc. specialize (H2 c Hc).
    destruct (is_whitespace c); [discriminate|reflexivity].
Qed.

Lemma wordlist_lower_ascii : Forall lower_ascii_word wordlist.
Proof.
  apply Forall_forall. intros w Hw. apply lower_ascii_wordb_spec.
  assert (H : forallb lower_ascii_wordb wordlist = true) by (vm_compute; reflexivity).
  rewrite forallb_forall in H. apply H; exact Hw.
Qed.

Lemma wordlist_words_nonempty_no_ws : Forall nonempty_no_ws wordlist.
Proof.
  apply Forall_forall. intros w Hw. apply nonempty_no_wsb_spec.
  assert (H : forallb nonempty_no_wsb wordlist = true) by (vm_compute; reflexivity).
  rewrite forallb_forall in H. apply H; exact Hw.
Qed.

(* ---------------- search / word ---------------- *)

Lemma text_eqb_eq a : forall b, text_eqb a b = true <-> a = b.
Proof.
  induction a as [|x a IH]; intros [|y b]; cbn [text_eqb]; split; intros H;
    try reflexivity; try discriminate.
  - apply andb_true_iff in H as [E H]. apply N.eqb_eq in E. apply IH in H. subst. reflexivity.
  - inversion H; subst. rewrite N.eqb_refl. cbn [andb]. apply IH. reflexivity.
Qed.

Lemma index_of_sound w l : forall k i,
  index_of w l k = Some i ->
  exists j, i = k + N.of_nat j /\ (j < length l)%nat /\ nth j l [] = w.
Proof.
  induction l as [|x r IH]; intros k i H; cbn [index_of] in H; [discriminate|].
  destruct (text_eqb x w) eqn:E.
  - inversion H; subst. apply text_eqb_eq in E. exists 0%nat. cbn [length nth]. repeat split; lia || auto.
  - apply IH in H as (j & -> & Hj & Hn). exists (S j). cbn [length nth]. repeat split; lia || auto.
Qed.

Lemma index_of_none w l : forall k, index_of w l k = None -> ~ In w l.
Proof.
  induction l as [|x r IH]; intros k H; cbn [index_of] in H; [intros []|].
  destruct (text_eqb x w) eqn:E; [discriminate|].
  intros [->|Hin].
  - assert (text_eqb w w = true) by (apply text_eqb_eq; reflexivity). congruence.
  - eapply IH; eassumption.
Qed.

(** a found index is below 2048 and names the word that was looked up *)
Lemma search_sound w i : search w = Some i -> word i = w /\ i < 2048.
Proof.
  unfold search, word. intros H. apply index_of_sound in H as (j & -> & Hj & Hn).
  unfold text in Hj. rewrite wordlist_length in Hj. rewrite N.add_0_l, Nat2N.id. split; [exact Hn|lia].
Qed.

Lemma search_none w : search w = None -> ~ In w wordlist.
Proof. apply index_of_none. Qed.

Definition opt_eqb (o : option N) (i : N) : bool :=
  match o with Some j => j =? i | None => false end.
Lemma opt_eqb_true o i : opt_eqb o i = true -> o = Some i.
Proof. destruct o as [j|]; cbn [opt_eqb]; [|discriminate]. intros H. apply N.eqb_eq in H. subst. reflexivity. Qed.

Lemma search_word_check :
  forallb (fun i => opt_eqb (search (word i)) i) (map N.of_nat (seq 0 2048)) = true.
Proof. vm_compute. reflexivity. Qed.

Lemma forallb_range (f : N -> bool) n :
  forallb f (map N.of_nat (seq 0 n)) = true -> forall i, i < N.of_nat n -> f i = true.
Proof.
  intros H i Hi. rewrite forallb_forall in H. apply H.
  apply in_map_iff. exists (N.to_nat i). split; [apply N2Nat.id|]. apply in_seq. lia.
Qed.

(** every index below 2048 is found again from its word (the words are pairwise distinct) *)
Lemma search_word i : i < 2048 -> search (word i) = Some i.
Proof.
  intros Hi. apply opt_eqb_true.
  apply (forallb_range (fun i => opt_eqb (search (word i)) i) 2048 search_word_check).
  exact Hi.
Qed.

Lemma word_in_list i : i < 2048 -> In (word i) wordlist.
Proof.
  intros Hi. unfold word. apply nth_In. rewrite wordlist_length. lia.
Qed.

Lemma word_nonempty_no_ws i : i < 2048 -> nonempty_no_ws (word i).
Proof.
  intros Hi. pose proof wordlist_words_nonempty_no_ws as H. rewrite Forall_forall in H.
  apply H. apply word_in_list; exact Hi.
Qed.

(** [search] succeeds exactly on the words of the list *)
Lemma search_some_iff w : (exists i, search w = Some i) <-> In w wordlist.
Proof.
  split.
  - intros [i H]. apply search_sound in H as [<- Hi]. apply word_in_list; exact Hi.
  - intros Hin. destruct (search w) as [i|] eqn:E; [eauto|].
    exfalso. eapply search_none; eassumption.
Qed.

(** the four facts BIP-39 / [Wordlist::parse] require of the list, together *)
Lemma wordlist_ok :
  length wordlist = 2048%nat /\ StronglySorted lex_lt wordlist
  /\ Forall lower_ascii_word wordlist /\ Forall nonempty_no_ws wordlist.
Proof.
  split; [exact wordlist_length|]. split; [exact wordlist_sorted|].
  split; [exact wordlist_lower_ascii|exact wordlist_words_nonempty_no_ws].
Qed.

(** The digest the translator computed over the source file's bytes is the published
    SHA-256 of the official BIP-39 [english.txt]
    (2f5eed53a4727b4bf8880d8f3f199efc90e58503646d9ff8eff3a2ed3b24dbda). *)
Lemma wordlist_digest_official :
  wordlist_file_sha256 =
  [0x2f; 0x5e; 0xed; 0x53; 0xa4; 0x72; 0x7b; 0x4b; 0xf8; 0x88; 0x0d; 0x8f; 0x3f; 0x19; 0x9e; 0xfc;
   0x90; 0xe5; 0x85; 0x03; 0x64; 0x6d; 0x9f; 0xf8; 0xef; 0xf3; 0xa2; 0xed; 0x3b; 0x24; 0xdb; 0xda].
Proof. reflexivity. Qed.
