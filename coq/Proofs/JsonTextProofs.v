(** Facts about the JSON text reader of [Model/JsonText.v]. *)
From Coq Require Import List NArith ZArith Bool Lia.
From HDW Require Import Lib.Outcome Lib.Bytes Lib.Hex Model.Json Model.Eip712Types Model.JsonText.
Import ListNotations.
Open Scope N_scope.

(** a sub-parser result is "good" for input [s]: a value and a strictly shorter rest, or an
    ordinary error — never a panic, never out of fuel *)
Definition good {A} (s : bytes) (o : outcome (A * bytes)) : Prop :=
  match o with
  | Ok (_, r) => (length r < length s)%nat
  | Err => True
  | _ => False
  end.

Definition good_le {A} (s : bytes) (o : outcome (A * bytes)) : Prop :=
  match o with
  | Ok (_, r) => (length r <= length s)%nat
  | Err => True
  | _ => False
  end.

Lemma skip_ws_le s : (length (skip_ws s) <= length s)%nat.
Proof.
  induction s as [|c r IH]; cbn [skip_ws length]; [lia|].
  destruct (jws c); cbn [length]; lia.
Qed.

Lemma digits_run_le s : forall acc cnt v c r, digits_run s acc cnt = (v, c, r) -> (length r <= length s)%nat.
Proof.
  induction s as [|x s IH]; intros acc cnt v c r H; cbn [digits_run] in H.
  - inversion H; subst; cbn; lia.
  - destruct (is_digit x).
    + apply IH in H. cbn [length]. lia.
    + inversion H; subst. lia.
Qed.

Lemma digits_run_cnt s : forall acc cnt v c r, digits_run s acc cnt = (v, c, r) ->
  (length r + N.to_nat c = length s + N.to_nat cnt)%nat.
Proof.
  induction s as [|x s IH]; intros acc cnt v c r H; cbn [digits_run] in H.
  - inversion H; subst; cbn; lia.
  - destruct (is_digit x).
    + apply IH in H. cbn [length]. lia.
    + inversion H; subst. lia.
Qed.

Lemma int_part_good s : good s (int_part s).
Proof.
  unfold int_part, good. destruct s as [|c r]; [exact I|].
  destruct (c =? 48).
  - destruct r as [|d r']; [cbn; lia|]. destruct (is_digit d); [exact I|cbn; lia].
  - destruct (is_digit c) eqn:Hd; [|exact I].
    destruct (digits_run (c :: r) 0 0) as [[v cnt] r'] eqn:E.
    cbn [digits_run] in E. rewrite Hd in E. apply digits_run_le in E. cbn [length]. lia.
Qed.

Lemma frac_part_le m s : match frac_part m s with Ok (_, _, _, r) => (length r <= length s)%nat | Err => True | _ => False end.
Proof.
  unfold frac_part. destruct s as [|c r]; [cbn; lia|].
  destruct (c =? 46); [|cbn; lia].
  destruct (digits_run r m 0) as [[v cnt] r'] eqn:E. apply digits_run_le in E.
  destruct (cnt =? 0); [exact I|cbn [length]; lia].
Qed.

Lemma exp_digits_le sg s : match exp_digits sg s with Ok (_, _, r) => (length r <= length s)%nat | Err => True | _ => False end.
Proof.
  unfold exp_digits. destruct (digits_run s 0 0) as [[v cnt] r2] eqn:E. apply digits_run_le in E.
  destruct (cnt =? 0); [exact I|lia].
Qed.

Lemma exp_part_le s : match exp_part s with Ok (_, _, r) => (length r <= length s)%nat | Err => True | _ => False end.
Proof.
  unfold exp_part. destruct s as [|c r]; [cbn; lia|].
  destruct ((c =? 101) || (c =? 69)); [|cbn; lia].
  destruct r as [|x r']; [exact I|].
  destruct (x =? 43); [|destruct (x =? 45)].
  - pose proof (exp_digits_le false r') as H. destruct (exp_digits false r') as [[[? ?] ?]| | |]; cbn [length] in *; try lia; exact H.
  - pose proof (exp_digits_le true r') as H. destruct (exp_digits true r') as [[[? ?] ?]| | |]; cbn [length] in *; try lia; exact H.
  - pose proof (exp_digits_le false (x :: r')) as H. destruct (exp_digits false (x :: r')) as [[[? ?] ?]| | |]; cbn [length] in *; try lia; exact H.
Qed.

Lemma pnum_good s : good s (pnum s).
Proof.
  unfold pnum.
  set (p := match s with c :: r => if c =? 45 then (true, r) else (false, s) | [] => (false, s) end).
  assert (Hp : (length (snd p) <= length s)%nat).
  { subst p. destruct s as [|c r]; [cbn; lia|]. destruct (c =? 45); cbn; lia. }
  destruct p as [neg s1]. cbn [snd] in Hp.
  pose proof (int_part_good s1) as Hi. destruct (int_part s1) as [[iv s2]| | |]; cbn [good] in *; try exact I; try contradiction.
  pose proof (frac_part_le iv s2) as Hf. destruct (frac_part iv s2) as [[[[m fc] hasf] s3]| | |]; try exact I; try contradiction.
  pose proof (exp_part_le s3) as He. destruct (exp_part s3) as [[[e hase] s4]| | |]; try exact I; try contradiction.
  destruct (hasf || hase); cbn [good]; lia.
Qed.

Lemma lit_good_le w v r : good_le r (lit w v r).
Proof.
  unfold lit, good_le. destruct (strip_prefix w r) as [r'|] eqn:E; [|exact I].
  apply strip_prefix_some in E. subst r. rewrite app_length. lia.
Qed.

Lemma pstr_good : forall n s acc, (length s <= n)%nat -> good s (pstr s acc).
Proof.
  induction n as [|n IH]; intros s acc Hn.
  - destruct s; [exact I|cbn in Hn; lia].
  - destruct s as [|b r]; [exact I|]. cbn [length] in Hn.
    assert (IH' : forall s' acc', (length s' <= length r)%nat -> match pstr s' acc' with Ok (_, r0) => (length r0 < length (b :: r))%nat | Err => True | _ => False end).
    { intros s' acc' Hl. specialize (IH s' acc' ltac:(lia)). unfold good in IH.
      destruct (pstr s' acc') as [[? r0]| | |]; cbn [length] in *; try exact IH. lia. }
    unfold good. cbn [pstr].
    repeat match goal with
    | |- match (if ?c then _ else _) with _ => _ end => destruct c
    | |- match (match ?x with _ => _ end) with _ => _ end =>
        match x with
        | pstr _ _ => fail 1
        | _ => destruct x
        end
    | |- match Err with _ => _ end => exact I
    | |- match Ok _ with _ => _ end => cbn [length]; lia
    | |- match pstr ?s' ?a with _ => _ end => apply IH'; cbn [length]; lia
    end.
all: try exact I; try (cbn [length]; lia).
Qed.

(** ** the value parser never panics, never runs out of the fuel [parse_doc] gives it, and
    consumes input *)

Lemma good_of_le {A} (s s' : bytes) (o : outcome (A * bytes)) :
  good s' o -> (length s' <= length s)%nat -> good s o.
Proof. unfold good. destruct o as [[? r]| | |]; intros; try assumption. lia. Qed.

Definition P_pv (f : nat) : Prop :=
  forall d s, (2 * length s + 2 <= f)%nat -> good s (pv f d s).
Definition P_arr (f : nat) : Prop :=
  forall d s acc, (2 * length s + 3 <= f)%nat -> s <> [] -> good s (parr f d s acc).
Definition P_obj (f : nat) : Prop :=
  forall d s acc, (2 * length s + 3 <= f)%nat -> s <> [] -> good s (pobj f d s acc).

Lemma skip_ws_cons_le s c r : skip_ws s = c :: r -> (S (length r) <= length s)%nat.
Proof. intros H. pose proof (skip_ws_le s) as L. rewrite H in L. cbn [length] in L. exact L. Qed.

Lemma pv_step f : P_arr f -> P_obj f -> P_pv (S f).
Proof.
  intros HA HO d s Hf. cbn [pv].
  destruct (skip_ws s) as [|c r] eqn:Es; [exact I|].
  apply skip_ws_cons_le in Es.
  destruct (c =? 110).
  { pose proof (lit_good_le [117; 108; 108] TNull r) as H. unfold good, good_le in *.
    destruct (lit _ _ r) as [[? r']| | |]; try exact H. lia. }
  destruct (c =? 116).
  { pose proof (lit_good_le [114; 117; 101] (TBool true) r) as H. unfold good, good_le in *.
    destruct (lit _ _ r) as [[? r']| | |]; try exact H. lia. }
  destruct (c =? 102).
  { pose proof (lit_good_le [97; 108; 115; 101] (TBool false) r) as H. unfold good, good_le in *.
    destruct (lit _ _ r) as [[? r']| | |]; try exact H. lia. }
  destruct (c =? 34).
  { pose proof (pstr_good (length r) r [] (le_n _)) as H. unfold good in *.
    destruct (pstr r []) as [[t r']| | |]; try exact I. lia. }
  destruct (c =? 91).
  { destruct (enter d) as [d'|]; [|exact I].
    destruct (skip_ws r) as [|x r'] eqn:Er; [exact I|]. apply skip_ws_cons_le in Er.
    destruct (x =? 93); [cbn [good]; lia|].
    assert (G : good (x :: r') (parr f d' (x :: r') [])) by (apply HA; [cbn [length]; lia|discriminate]).
    eapply good_of_le; [exact G|cbn [length]; lia]. }
  destruct (c =? 123).
  { destruct (enter d) as [d'|]; [|exact I].
    destruct (skip_ws r) as [|x r'] eqn:Er; [exact I|]. apply skip_ws_cons_le in Er.
    destruct (x =? 125); [cbn [good]; lia|].
    assert (G : good (x :: r') (pobj f d' (x :: r') [])) by (apply HO; [cbn [length]; lia|discriminate]).
    eapply good_of_le; [exact G|cbn [length]; lia]. }
  destruct ((c =? 45) || is_digit c); [|exact I].
  pose proof (pnum_good (c :: r)) as H. unfold good in *.
  destruct (pnum (c :: r)) as [[n r']| | |]; try exact I. cbn [length] in H. lia.
Qed.

Lemma arr_step f : P_pv f -> P_arr f -> P_arr (S f).
Proof.
  intros HV HA d s acc Hf Hne. cbn [parr].
  assert (G : good s (pv f d s)) by (apply HV; lia).
  unfold good in G |- *. destruct (pv f d s) as [[v r]| | |]; try exact G.
  destruct (skip_ws r) as [|x r'] eqn:Er; [exact I|]. apply skip_ws_cons_le in Er.
  destruct (x =? 44).
  { destruct r' as [|y r''].
    - (* nothing after the comma: the next value fails *)
      assert (Hs : (1 <= length s)%nat) by (destruct s; [congruence|cbn [length]; lia]).
      destruct f as [|[|f'']]; [lia|lia|]. cbn [parr pv skip_ws]. exact I.
    - assert (G2 : good (y :: r'') (parr f d (y :: r'') (v :: acc))) by (apply HA; [cbn [length] in *; lia|discriminate]).
      unfold good in G2. destruct (parr f d (y :: r'') (v :: acc)) as [[? r3]| | |]; try exact G2. cbn [length] in *. lia. }
  destruct (x =? 93); [lia|exact I].
Qed.

Lemma obj_step f : P_pv f -> P_obj f -> P_obj (S f).
Proof.
  intros HV HO d s acc Hf Hne. cbn [pobj].
  destruct (skip_ws s) as [|q r0] eqn:Es; [exact I|]. apply skip_ws_cons_le in Es.
  destruct (q =? 34); [|exact I].
  pose proof (pstr_good (length r0) r0 [] (le_n _)) as Hs. unfold good in Hs.
  destruct (pstr r0 []) as [[k r1]| | |]; try exact I.
  destruct (skip_ws r1) as [|col r2] eqn:E1; [exact I|]. apply skip_ws_cons_le in E1.
  destruct (col =? 58); [|exact I].
  assert (G : good r2 (pv f d r2)) by (apply HV; lia).
  unfold good in G |- *. destruct (pv f d r2) as [[v r3]| | |]; try exact G.
  destruct (skip_ws r3) as [|x r4] eqn:E3; [exact I|]. apply skip_ws_cons_le in E3.
  destruct (x =? 44).
  { destruct r4 as [|y r5].
    - assert (Hs' : (1 <= length s)%nat) by (destruct s; [congruence|cbn [length]; lia]).
      destruct f as [|f']; [lia|]. cbn [pobj skip_ws]. exact I.
    - assert (G2 : good (y :: r5) (pobj f d (y :: r5) ((k, v) :: acc))) by (apply HO; [cbn [length] in *; lia|discriminate]).
      unfold good in G2. destruct (pobj f d (y :: r5) ((k, v) :: acc)) as [[? r6]| | |]; try exact G2. cbn [length] in *. lia. }
  destruct (x =? 125); [lia|exact I].
Qed.

Lemma all_steps f : P_pv f /\ P_arr f /\ P_obj f.
Proof.
  induction f as [|f [IV [IA IO]]].
  - repeat split; intros d s; intros; lia.
  - repeat split; [apply pv_step|apply arr_step|apply obj_step]; assumption.
Qed.

(** [serde_json::from_slice::<Value>] as modelled always returns: a value or an ordinary error *)
Theorem parse_doc_total s : graceful (parse_doc s).
Proof.
  unfold parse_doc, graceful.
  pose proof (proj1 (all_steps (2 * length s + 2)) 128 s (le_n _)) as G. unfold good in G.
  destruct (pv (2 * length s + 2) 128 s) as [[v r]| | |]; try contradiction.
  - destruct (all_ws r); split; discriminate.
  - split; discriminate.
Qed.

(* ------------------------------------------------------------------ *)
(** ** serde_json::Value's view: objects are maps *)
From Coq Require Import Sorted.
From HDW Require Import Spec.Eip712TypeSpec Proofs.KindProofs Proofs.Eip712TypeProofs.

Lemma obj_insert_keys {A} k (v : A) m T :
  In T (map fst (obj_insert k v m)) <-> T = k \/ In T (map fst m).
Proof.
  induction m as [|[k' v'] r IH]; cbn [obj_insert].
  - cbn. intuition.
  - destruct (text_ltb k k').
    + cbn [map fst In]. intuition.
    + destruct (list_eqb k k') eqn:He.
      * apply list_eqb_spec in He. subst k'. cbn [map fst In]. intuition.
      * cbn [map fst In]. rewrite IH. intuition.
Qed.

Lemma obj_insert_sorted {A} k (v : A) m :
  StronglySorted text_lt (map fst m) -> StronglySorted text_lt (map fst (obj_insert k v m)).
Proof.
  induction m as [|[k' v'] r IH]; cbn [obj_insert].
  - intros _. cbn. constructor; constructor.
  - intros HS. cbn [map fst] in HS. inversion HS as [|? ? HSr HF]; subst.
    destruct (text_ltb k k') eqn:Hlt.
    + apply text_ltb_spec in Hlt. cbn [map fst]. constructor; [exact HS|].
      constructor; [assumption|].
      eapply Forall_impl; [|exact HF]. intros T HT. eapply text_lt_trans; eassumption.
    + destruct (list_eqb k k') eqn:He.
      * apply list_eqb_spec in He. subst k'. cbn [map fst]. exact HS.
      * cbn [map fst]. constructor; [apply IH; assumption|].
        apply Forall_forall. intros T HT. apply obj_insert_keys in HT as [->|HT].
        -- apply text_ltb_false; [assumption|]. intros E. subst k'.
           rewrite list_eqb_refl in He. discriminate.
        -- rewrite Forall_forall in HF. auto.
Qed.

(** [Map::insert] then [Map::get]: the new value for that key, every other key unchanged *)
Lemma obj_get_insert k k' v m :
  obj_get k (obj_insert k' v m) = if list_eqb k k' then Some v else obj_get k m.
Proof.
  induction m as [|[k2 v2] r IH]; cbn [obj_insert obj_get].
  - reflexivity.
  - destruct (text_ltb k' k2); [cbn [obj_get]; reflexivity|].
    destruct (list_eqb k' k2) eqn:E2.
    + apply list_eqb_spec in E2. subst k2. cbn [obj_get]. destruct (list_eqb k k'); reflexivity.
    + cbn [obj_get]. rewrite IH. destruct (list_eqb k k2) eqn:E; [|reflexivity].
      apply list_eqb_spec in E. subst k2.
      destruct (list_eqb k k') eqn:E'; [|reflexivity].
      apply list_eqb_spec in E'. subst k'. rewrite list_eqb_refl in E2. discriminate.
Qed.

(** the member loop of [to_value] on an object, named *)
Fixpoint objs_fold (f : jt -> outcome json) (l : list (text * jt)) (m : list (text * json)) : outcome (list (text * json)) :=
  match l with
  | [] => Ok m
  | (k, x) :: r =>
      match f x with
      | Ok y => objs_fold f r (obj_insert k y m)
      | Err => Err
      | Panic => Panic
      | OutOfFuel => OutOfFuel
      end
  end.

Lemma to_value_obj rnd kvs : to_value rnd (TObj kvs) = omap JObj (objs_fold (to_value rnd) kvs []).
Proof.
  cbn [to_value]. f_equal. generalize (@nil (text * json)) as m.
  induction kvs as [|[k x] r IH]; intros m; cbn [objs_fold]; [reflexivity|].
  destruct (to_value rnd x); try reflexivity. apply IH.
Qed.

Lemma objs_fold_sorted f l : forall m m', StronglySorted text_lt (map fst m) ->
  objs_fold f l m = Ok m' -> StronglySorted text_lt (map fst m').
Proof.
  induction l as [|[k x] r IH]; intros m m' HS H; cbn [objs_fold] in H.
  - inversion H; subst; exact HS.
  - destruct (f x) as [y| | |]; try discriminate.
    eapply IH; [|exact H]. apply obj_insert_sorted; exact HS.
Qed.

(** the value of key [k] after the loop: the LAST member with that key, else what the map had *)
Fixpoint last_member (f : jt -> outcome json) (k : text) (l : list (text * jt)) (cur : option json) : option json :=
  match l with
  | [] => cur
  | (k', x) :: r => last_member f k r (if list_eqb k k' then (match f x with Ok y => Some y | _ => None end) else cur)
  end.

Lemma objs_fold_get f l : forall m m' k, objs_fold f l m = Ok m' ->
  obj_get k m' = last_member f k l (obj_get k m).
Proof.
  induction l as [|[k' x] r IH]; intros m m' k H; cbn [objs_fold last_member] in *.
  - inversion H; subst; reflexivity.
  - destruct (f x) as [y| | |]; try discriminate.
    rewrite (IH _ _ k H), obj_get_insert. reflexivity.
Qed.

(** an object of the document becomes a map: keys strictly increasing (so distinct), and looking a
    key up gives the value of the last member with that name *)
Theorem to_value_object_is_map rnd kvs m :
  to_value rnd (TObj kvs) = Ok (JObj m) ->
  StronglySorted text_lt (map fst m) /\
  forall k, obj_get k m = last_member (to_value rnd) k kvs None.
Proof.
  rewrite to_value_obj. unfold omap, bind.
  destruct (objs_fold (to_value rnd) kvs []) as [m0| | |] eqn:E; try discriminate.
  intros H. inversion H; subst m0. split.
  - eapply objs_fold_sorted; [|exact E]. constructor.
  - intros k. rewrite (objs_fold_get _ _ _ _ k E). reflexivity.
Qed.

(* ------------------------------------------------------------------ *)
(** ** plain integer literals are read exactly *)
From HDW Require Import Lib.Radix Lib.Decimal.

Lemma digits_run_app ds : forall acc cnt rest,
  Forall (fun c => is_digit c = true) ds ->
  (match rest with c :: _ => is_digit c = false | [] => True end) ->
  digits_run (ds ++ rest) acc cnt
  = (fold_left (fun a c => a * 10 + (c - 48)) ds acc, cnt + N.of_nat (length ds), rest).
Proof.
  induction ds as [|d ds IH]; intros acc cnt rest HF Hr.
  - cbn [app fold_left length]. rewrite N.add_0_r.
    destruct rest as [|c r]; cbn [digits_run]; [reflexivity|]. rewrite Hr. reflexivity.
  - inversion HF as [|? ? Hd HF']; subst. cbn [app digits_run fold_left]. rewrite Hd.
    rewrite IH by assumption. cbn [length]. f_equal. f_equal. lia.
Qed.

Lemma fold_digits ds : forall acc,
  fold_left (fun a c => a * 10 + (c - 48)) ds acc
  = acc * 10 ^ N.of_nat (length ds) + of_digits 10 (map (fun c => c - 48) ds).
Proof.
  induction ds as [|c r IH]; intros acc.
  - cbn. lia.
  - cbn [fold_left map length]. rewrite IH, of_digits_cons, map_length.
    rewrite Nat2N.inj_succ, N.pow_succ_r'. lia.
Qed.

Lemma all_digits_is_digit ds : all_digits ds -> Forall (fun c => is_digit c = true) ds.
Proof.
  intros H. eapply Forall_impl; [|exact H]. intros c Hc. cbv beta in Hc. unfold is_digit.
  apply andb_true_intro; split; apply N.leb_le; lia.
Qed.

(** what may follow a number token: not a digit, not '.', not 'e' / 'E' *)
Definition ends_num (rest : bytes) : Prop :=
  match rest with
  | c :: _ => is_digit c = false /\ c <> 46 /\ c <> 101 /\ c <> 69
  | [] => True
  end.

(** the decimal spelling of any n < 2^64 is read as exactly n (an integer, no floating point involved) *)
Theorem pnum_decimal n rest : n < 2 ^ 64 -> ends_num rest ->
  pnum (decimal n ++ rest) = Ok (NumU n, rest).
Proof.
  intros Hn Hr.
  assert (Hfrac : forall m, frac_part m rest = Ok (m, 0, false, rest)).
  { intros m. unfold frac_part. destruct rest as [|c r]; [reflexivity|].
    destruct Hr as (_ & H46 & _). destruct (N.eqb_spec c 46); [contradiction|reflexivity]. }
  assert (Hexp : exp_part rest = Ok (0%Z, false, rest)).
  { unfold exp_part. destruct rest as [|c r]; [reflexivity|].
    destruct Hr as (_ & _ & H101 & H69).
    destruct (N.eqb_spec c 101); [contradiction|]. destruct (N.eqb_spec c 69); [contradiction|]. reflexivity. }
  assert (Hcl : classify false n = NumU n).
  { unfold classify. destruct (N.ltb_spec n (2 ^ 64)); [reflexivity|lia]. }
  destruct (N.eq_dec n 0) as [->|Hn0].
  - unfold decimal. cbn [N.eqb app]. unfold pnum.
    replace (48 =? 45) with false by reflexivity.
    assert (Hi : int_part (48 :: rest) = Ok (0, rest)).
    { unfold int_part. replace (48 =? 48) with true by reflexivity.
      destruct rest as [|d r]; [reflexivity|]. destruct Hr as (Hd & _). rewrite Hd. reflexivity. }
    rewrite Hi, Hfrac, Hexp. cbn [orb]. rewrite Hcl. reflexivity.
  - destruct (decimal_canonical n Hn0) as (c & r & Hdec & Hc).
    pose proof (decimal_digits n) as Hall. rewrite Hdec in Hall.
    assert (Hcd : 48 <= c <= 57) by (inversion Hall; assumption).
    unfold pnum. rewrite Hdec. cbn [app].
    destruct (N.eqb_spec c 45); [lia|].
    assert (Hi : int_part (c :: r ++ rest) = Ok (n, rest)).
    { unfold int_part. destruct (N.eqb_spec c 48); [contradiction|].
      assert (Hd : is_digit c = true) by (unfold is_digit; apply andb_true_intro; split; apply N.leb_le; lia).
      rewrite Hd.
      change (c :: r ++ rest) with ((c :: r) ++ rest).
      rewrite (digits_run_app (c :: r) 0 0 rest (all_digits_is_digit _ Hall)).
      2:{ destruct rest as [|x ?]; [exact I|]. destruct Hr as (Hx & _). exact Hx. }
      rewrite fold_digits, N.mul_0_l, N.add_0_l, <- Hdec, decimal_value. reflexivity. }
    rewrite Hi, Hfrac, Hexp. cbn [orb]. rewrite Hcl. reflexivity.
Qed.

(** ... and as a whole document *)
Theorem parse_doc_decimal n : n < 2 ^ 64 -> parse_doc (decimal n) = Ok (TNum (NumU n)).
Proof.
  intros Hn. unfold parse_doc.
  pose proof (decimal_digits n) as Hall. pose proof (decimal_nonempty n) as Hne.
  destruct (decimal n) as [|c r] eqn:Hdec; [congruence|].
  assert (Hcd : 48 <= c <= 57) by (inversion Hall; assumption).
  cbn [length]. replace (2 * S (length r) + 2)%nat with (S (2 * S (length r) + 1))%nat by lia.
  cbn [pv skip_ws]. unfold jws.
  destruct (N.eqb_spec c 32); [lia|]. destruct (N.eqb_spec c 9); [lia|].
  destruct (N.eqb_spec c 10); [lia|]. destruct (N.eqb_spec c 13); [lia|]. cbn [orb].
  destruct (N.eqb_spec c 110); [lia|]. destruct (N.eqb_spec c 116); [lia|]. destruct (N.eqb_spec c 102); [lia|].
  destruct (N.eqb_spec c 34); [lia|]. destruct (N.eqb_spec c 91); [lia|]. destruct (N.eqb_spec c 123); [lia|].
  assert (Hd : is_digit c = true) by (unfold is_digit; apply andb_true_intro; split; apply N.leb_le; lia).
  rewrite Hd, orb_true_r.
  pose proof (pnum_decimal n [] Hn I) as Hp. rewrite app_nil_r, Hdec in Hp. rewrite Hp.
  reflexivity.
Qed.

(* ------------------------------------------------------------------ *)
(** ** [to_value] and the pipeline bytes -> value are total *)

Fixpoint arr_fold (f : jt -> outcome json) (l : list jt) : outcome (list json) :=
  match l with
  | [] => Ok []
  | x :: r =>
      match f x with
      | Ok y => omap (cons y) (arr_fold f r)
      | Err => Err
      | Panic => Panic
      | OutOfFuel => OutOfFuel
      end
  end.

Lemma to_value_arr rnd l : to_value rnd (TArr l) = omap JArr (arr_fold (to_value rnd) l).
Proof.
  cbn [to_value]. f_equal.
  induction l as [|x r IH]; cbn [arr_fold]; [reflexivity|].
  destruct (to_value rnd x); try reflexivity. rewrite IH. reflexivity.
Qed.

Lemma graceful_omap {A B} (g : A -> B) (x : outcome A) : graceful x -> graceful (omap g x).
Proof. intros H. unfold omap. apply graceful_bind; [exact H|]. intros a _. apply graceful_ok. Qed.

Lemma arr_fold_total f l : (forall x, In x l -> graceful (f x)) -> graceful (arr_fold f l).
Proof.
  induction l as [|x r IH]; intros H; cbn [arr_fold]; [apply graceful_ok|].
  pose proof (H x (or_introl eq_refl)) as [H1 H2].
  destruct (f x); try congruence; try apply graceful_err.
  apply graceful_omap. apply IH. intros y Hy. apply H. right. exact Hy.
Qed.

Lemma objs_fold_total f l : (forall k x, In (k, x) l -> graceful (f x)) -> forall m, graceful (objs_fold f l m).
Proof.
  induction l as [|[k x] r IH]; intros H m; cbn [objs_fold]; [apply graceful_ok|].
  pose proof (H k x (or_introl eq_refl)) as [H1 H2].
  destruct (f x); try congruence; try apply graceful_err.
  apply IH. intros k' y Hy. apply (H k'). right. exact Hy.
Qed.

(** induction over syntax trees (a nested inductive type) *)
Section JtInd.
  Variable P : jt -> Prop.
  Hypothesis Hnull : P TNull.
  Hypothesis Hbool : forall b, P (TBool b).
  Hypothesis Hnum : forall n, P (TNum n).
  Hypothesis Hstr : forall s, P (TStr s).
  Hypothesis Harr : forall l, Forall P l -> P (TArr l).
  Hypothesis Hobj : forall kvs, Forall (fun kv => P (snd kv)) kvs -> P (TObj kvs).

  Fixpoint jt_ind' (t : jt) : P t :=
    match t with
    | TNull => Hnull
    | TBool b => Hbool b
    | TNum n => Hnum n
    | TStr s => Hstr s
    | TArr l => Harr l ((fix go (l : list jt) : Forall P l :=
                           match l with
                           | [] => Forall_nil P
                           | x :: r => Forall_cons x (jt_ind' x) (go r)
                           end) l)
    | TObj kvs => Hobj kvs ((fix go (l : list (text * jt)) : Forall (fun kv => P (snd kv)) l :=
                               match l with
                               | [] => Forall_nil _
                               | kv :: r => Forall_cons kv (jt_ind' (snd kv)) (go r)
                               end) kvs)
    end.
End JtInd.

Lemma to_value_total rnd : forall t, graceful (to_value rnd t).
Proof.
  apply jt_ind'.
  - apply graceful_ok.
  - intros b. apply graceful_ok.
  - intros n. destruct n as [n|z|neg m e]; cbn [to_value]; try apply graceful_ok.
    destruct (rnd neg m e) as [[a b]|]; [apply graceful_ok|apply graceful_err].
  - intros s. apply graceful_ok.
  - intros l HF. rewrite to_value_arr. apply graceful_omap. apply arr_fold_total.
    rewrite Forall_forall in HF. exact HF.
  - intros kvs HF. rewrite to_value_obj. apply graceful_omap. apply objs_fold_total.
    rewrite Forall_forall in HF. intros k x Hin. exact (HF (k, x) Hin).
Qed.

Theorem json_of_text_total rnd s : graceful (json_of_text rnd s).
Proof.
  unfold json_of_text. apply graceful_bind; [apply parse_doc_total|].
  intros t _. apply to_value_total.
Qed.
