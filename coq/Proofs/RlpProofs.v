(** C07 — proofs: the code-shaped model of [rlp.rs] computes the Yellow-Paper encoding, the
    strict decoder inverts it (round trip) and accepts nothing else (strictness). *)
From Coq Require Import List NArith Lia Bool PeanoNat Arith ZifyBool ZifyNat ZifyN.
From HDW Require Import Lib.Outcome Lib.Radix Lib.Bytes Model.Rlp Spec.RlpSpec.
Import ListNotations.
Open Scope N_scope.

Arguments N.add : simpl never.
Arguments N.sub : simpl never.
Arguments N.mul : simpl never.
Arguments N.div : simpl never.
Arguments N.ltb : simpl never.
Arguments N.leb : simpl never.
Arguments N.pow : simpl never.
Arguments N.of_nat : simpl never.
Arguments N.to_nat : simpl never.

(* ------------------------------------------------------------------ *)
(** * List helpers *)

Lemma firstn_app_exact {A} (a b : list A) : firstn (length a) (a ++ b) = a.
Proof. induction a as [|x a IH]; cbn [length firstn app]; [destruct b; reflexivity|]. f_equal. exact IH. Qed.

Lemma skipn_app_exact {A} (a b : list A) : skipn (length a) (a ++ b) = b.
Proof. induction a as [|x a IH]; cbn [length skipn app]; [reflexivity|exact IH]. Qed.

Lemma pow256 m : 256 ^ m = 2 ^ (8 * m).
Proof. rewrite N.pow_mul_r. reflexivity. Qed.

Lemma pow256_8 : 256 ^ N.of_nat 8 = 2 ^ 64.
Proof. reflexivity. Qed.

Lemma pow256_32 : 256 ^ N.of_nat 32 = 2 ^ 256.
Proof. reflexivity. Qed.

(* ------------------------------------------------------------------ *)
(** * Minimal big-endian bytes: length, and the [leading_zeros / 8] strip of the code *)

Lemma be_min_cons_bounds n d r :
  be_min n = d :: r -> d <> 0 /\ 256 ^ N.of_nat (length r) <= n < 256 ^ N.of_nat (S (length r)).
Proof.
  intros E.
  pose proof (be_min_canonical n) as C. rewrite E in C. cbn in C.
  pose proof (be_val_bound _ (be_min_ok n)) as B. rewrite be_val_min, E in B. cbn [length] in B.
  pose proof (canonical_lower_bound 256 d r ltac:(lia) C) as L.
  fold (be_val (d :: r)) in L. rewrite <- E, be_val_min in L.
  auto.
Qed.

Lemma be_min_nil n : be_min n = [] -> n = 0.
Proof. intros E. rewrite <- (be_val_min n), E. reflexivity. Qed.

Lemma be_min_nonempty n : n <> 0 -> be_min n <> [].
Proof. intros Hn E. apply Hn, be_min_nil, E. Qed.

(** [skipn (leading_zeros / 8)] of the [k]-byte big-endian buffer is the minimal representation *)
Lemma lz_strip k n :
  n < 256 ^ N.of_nat k ->
  skipn (N.to_nat (leading_zeros (8 * N.of_nat k) n / 8)) (be_fixed k n) = be_min n.
Proof.
  intros Hn. unfold be_fixed, be_min.
  rewrite (to_digits_fixed_pad 256 k n) by (assumption || lia).
  fold (be_min n).
  pose proof (be_min_length_le k n Hn) as Hle.
  assert (E : N.to_nat (leading_zeros (8 * N.of_nat k) n / 8) = (k - length (be_min n))%nat).
  { unfold leading_zeros.
    destruct (be_min n) as [|d r] eqn:Eb.
    - apply be_min_nil in Eb. subst n. change (N.size 0) with 0. cbn [length]. lia.
    - destruct (be_min_cons_bounds n d r Eb) as (_ & Hlo & Hhi).
      cbn [length] in *.
      pose proof (N.size_gt n) as Hgt. pose proof (N.size_le n) as Hsz.
      rewrite pow256 in Hlo, Hhi.
      set (s := N.size n) in *.
      assert (H1 : 8 * N.of_nat (length r) < s).
      { apply (N.pow_lt_mono_r_iff 2); lia. }
      assert (H2 : s < 8 * N.of_nat (S (length r)) + 1).
      { apply (N.pow_lt_mono_r_iff 2); [lia|].
        rewrite N.pow_add_r. change (2 ^ 1) with 2. unfold N.succ_double in Hsz.
        destruct n; lia. }
      lia. }
  rewrite E.
  pose proof (repeat_length 0 (k - length (be_min n))) as Hrep.
  set (z := repeat 0 (k - length (be_min n))) in *. rewrite <- Hrep.
  apply skipn_app_exact.
Qed.

Lemma lz_strip_64 n :
  n < 2 ^ 64 -> skipn (N.to_nat (leading_zeros 64 n / 8)) (be_fixed 8 n) = be_min n.
Proof. intros H. exact (lz_strip 8 n H). Qed.

Lemma lz_strip_256 v :
  v < 2 ^ 256 -> skipn (N.to_nat (leading_zeros 256 v / 8)) (be_fixed 32 v) = be_min v.
Proof. intros H. exact (lz_strip 32 v H). Qed.

(** the [u8] no-overflow obligation: at most 8 length bytes, [8 + 0xc0 + 55 = 255] *)
Lemma be_min_len n : n < 2 ^ 64 -> (length (be_min n) <= 8)%nat.
Proof. intros H. apply be_min_length_le. rewrite pow256_8. exact H. Qed.

Lemma be_min_len32 v : v < 2 ^ 256 -> (length (be_min v) <= 32)%nat.
Proof. intros H. apply be_min_length_le. rewrite pow256_32. exact H. Qed.

(* ------------------------------------------------------------------ *)
(** * The model computes the Yellow-Paper encoding *)

Lemma rlp_len_enc n off : n < 2 ^ 64 -> off <= 0xc0 -> rlp_len n off = Ok (enc_len n off).
Proof.
  intros Hn Hoff. unfold rlp_len, enc_len. cbv zeta.
  destruct (N.ltb_spec n 56) as [Hlt|Hge].
  - unfold u8_add. destruct (N.ltb_spec (n + off) 256) as [_|Hc]; [|lia].
    cbn [bind]. do 2 f_equal. lia.
  - rewrite (lz_strip_64 n Hn).
    pose proof (be_min_len n Hn) as HL.
    unfold u8_add.
    destruct (N.ltb_spec (N.of_nat (length (be_min n)) + off) 256) as [_|Hc]; [|lia].
    cbn [bind].
    destruct (N.ltb_spec (N.of_nat (length (be_min n)) + off + 55) 256) as [_|Hc]; [|lia].
    cbn [bind]. do 2 f_equal. lia.
Qed.

Lemma len_no_panic n off :
  n < 2 ^ 64 -> off = 0x80 \/ off = 0xc0 -> exists h, rlp_len n off = Ok h.
Proof.
  intros Hn Hoff. exists (enc_len n off). apply rlp_len_enc; [assumption|]. destruct Hoff; subst; lia.
Qed.

Lemma rlp_bytes_hdr_enc b :
  N.of_nat (length b) < 2 ^ 64 -> rlp_bytes_hdr b = Ok (enc_len (N.of_nat (length b)) 128 ++ b).
Proof.
  intros H. unfold rlp_bytes_hdr. rewrite rlp_len_enc by (assumption || lia). reflexivity.
Qed.

Lemma rlp_bytes_enc b : N.of_nat (length b) < 2 ^ 64 -> rlp_bytes b = Ok (enc (Str b)).
Proof.
  intros H. cbn [enc]. unfold rlp_bytes, enc_str.
  destruct b as [|x [|y r]].
  - apply rlp_bytes_hdr_enc, H.
  - destruct (x <? 128); [reflexivity|]. apply (rlp_bytes_hdr_enc [x] H).
  - apply rlp_bytes_hdr_enc, H.
Qed.

Lemma rlp_uint_enc v : v < 2 ^ 256 -> rlp_uint v = Ok (enc (Str (be_min v))).
Proof.
  intros H. unfold rlp_uint. cbv zeta. rewrite (lz_strip_256 v H).
  apply rlp_bytes_enc. pose proof (be_min_len32 v H). lia.
Qed.

Lemma rlp_total_len_acc (items : list bytes) a :
  fold_left (fun a item => a + N.of_nat (length item)) items a
  = a + N.of_nat (length (concat items)).
Proof.
  revert a; induction items as [|x r IH]; intros a; cbn [fold_left concat length].
  - change (N.of_nat 0) with 0. lia.
  - rewrite IH, app_length. lia.
Qed.

Lemma rlp_total_len_concat items : rlp_total_len items = N.of_nat (length (concat items)).
Proof. unfold rlp_total_len. rewrite rlp_total_len_acc. lia. Qed.

Lemma rlp_list_enc l :
  N.of_nat (length (flat_map enc l)) < 2 ^ 64 -> rlp_list (map enc l) = Ok (enc (Lst l)).
Proof.
  intros H. unfold rlp_list. cbv zeta.
  rewrite rlp_total_len_concat, <- flat_map_concat_map.
  destruct (N.ltb_spec (N.of_nat (length (flat_map enc l))) (2 ^ 64)) as [_|Hc]; [|lia].
  rewrite rlp_len_enc by (assumption || lia). reflexivity.
Qed.

Lemma rlp_iter_enc l :
  N.of_nat (length (flat_map enc l)) < 2 ^ 64 -> rlp_iter (map enc l) = Ok (enc (Lst l)).
Proof. exact (rlp_list_enc l). Qed.

(* ------------------------------------------------------------------ *)
(** * Pieces of the decoder *)

Lemma take_0 l : take 0 l = Some ([], l).
Proof. destruct l; reflexivity. Qed.

Lemma take_cons n x r :
  n <> 0 ->
  take n (x :: r) = match take (N.pred n) r with Some (p, q) => Some (x :: p, q) | None => None end.
Proof. intros Hn. cbn [take]. destruct (N.eqb_spec n 0); [contradiction|reflexivity]. Qed.

Lemma take_app p r : take (N.of_nat (length p)) (p ++ r) = Some (p, r).
Proof.
  induction p as [|x p IH]; cbn [length app].
  - apply take_0.
  - rewrite take_cons by lia.
    replace (N.pred (N.of_nat (S (length p)))) with (N.of_nat (length p)) by lia.
    rewrite IH. reflexivity.
Qed.

Lemma take_some l : forall n p r, take n l = Some (p, r) -> l = p ++ r /\ N.of_nat (length p) = n.
Proof.
  induction l as [|x l IH]; intros n p r H.
  - cbn [take] in H. destruct (N.eqb_spec n 0); [|discriminate].
    inversion H; subst. split; reflexivity.
  - destruct (N.eq_dec n 0) as [->|Hn].
    + rewrite take_0 in H. inversion H; subst. split; reflexivity.
    + rewrite take_cons in H by assumption.
      destruct (take (N.pred n) l) as [[p' q]|] eqn:T; [|discriminate].
      inversion H; subst. apply IH in T as [-> Hlen]. cbn [length app]. split; [reflexivity|lia].
Qed.

Lemma long_len_ok n t :
  56 <= n -> long_len (N.of_nat (length (be_min n))) (be_min n ++ t) = Some (n, t).
Proof.
  intros Hn. unfold long_len. rewrite take_app.
  destruct (be_min n) as [|d r] eqn:E.
  - apply be_min_nil in E. lia.
  - destruct (be_min_cons_bounds n d r E) as (Hd & _).
    destruct d as [|q]; [congruence|].
    rewrite <- E, be_val_min.
    destruct (N.ltb_spec n 56); [lia|reflexivity].
Qed.

Lemma long_len_sound ll t n t' :
  bytes_ok t -> ll <= 8 -> long_len ll t = Some (n, t') ->
  56 <= n /\ n < 2 ^ 64 /\ t = be_min n ++ t' /\ N.of_nat (length (be_min n)) = ll.
Proof.
  intros Hok Hll. unfold long_len.
  destruct (take ll t) as [[lb t'']|] eqn:T; [|discriminate].
  apply take_some in T as [-> Hlen].
  apply bytes_ok_app in Hok as [Hlb _].
  assert (Hcase : forall (C : canonical lb),
            (if be_val lb <? 56 then None else Some (be_val lb, t'')) = Some (n, t') ->
            56 <= n /\ n < 2 ^ 64 /\ lb ++ t'' = be_min n ++ t' /\ N.of_nat (length (be_min n)) = ll).
  { intros C. destruct (N.ltb_spec (be_val lb) 56) as [|Hge]; [discriminate|].
    intros H. inversion H; subst n t'. clear H.
    rewrite (be_min_val lb Hlb C).
    repeat split; auto.
    pose proof (be_val_bound lb Hlb) as B.
    assert (256 ^ N.of_nat (length lb) <= 256 ^ N.of_nat 8) by (apply N.pow_le_mono_r; lia).
    rewrite pow256_8 in *. lia. }
  destruct lb as [|d r].
  - apply Hcase. exact I.
  - destruct d as [|q]; [discriminate|]. apply Hcase. cbn. discriminate.
Qed.

Lemma single_low_len p : single_low p = true -> length p = 1%nat.
Proof. destruct p as [|x [|y r]]; cbn [single_low]; intros H; try discriminate; reflexivity. Qed.

Lemma enc_str_general p : single_low p = false -> enc_str p = enc_len (N.of_nat (length p)) 128 ++ p.
Proof.
  unfold enc_str. destruct p as [|x [|y r]]; cbn [single_low]; intros H; try reflexivity.
  rewrite H. reflexivity.
Qed.

Lemma enc_str_single x : x < 128 -> enc_str [x] = [x].
Proof. intros H. unfold enc_str. destruct (N.ltb_spec x 128); [reflexivity|lia]. Qed.

Lemma single_low_true p : single_low p = true -> exists x, p = [x] /\ x < 128.
Proof.
  destruct p as [|x [|y r]]; cbn [single_low]; intros H; try discriminate.
  exists x. split; [reflexivity|]. apply N.ltb_lt, H.
Qed.

Lemma enc_len_nonempty n off : (1 <= length (enc_len n off))%nat.
Proof. unfold enc_len. destruct (n <? 56); cbn [length]; lia. Qed.

Lemma enc_nonempty i : (1 <= length (enc i))%nat.
Proof.
  destruct i as [b|l]; cbn [enc].
  - destruct (single_low b) eqn:S.
    + apply single_low_true in S as (x & -> & Hx). rewrite enc_str_single by assumption. cbn [length]. lia.
    + rewrite enc_str_general by assumption. rewrite app_length.
      pose proof (enc_len_nonempty (N.of_nat (length b)) 128). lia.
  - rewrite app_length.
    pose proof (enc_len_nonempty (N.of_nat (length (flat_map enc l))) 192). lia.
Qed.

(** header of a payload [p] of either kind ([off] = 128 / 192), general form *)
Lemma dec_hdr_general (isl : bool) p r :
  N.of_nat (length p) < 2 ^ 64 ->
  (isl = false -> single_low p = false) ->
  dec_hdr (enc_len (N.of_nat (length p)) (if isl then 192 else 128) ++ p ++ r) = Some (isl, p, r).
Proof.
  intros Hlen Hlow. unfold enc_len.
  set (n := N.of_nat (length p)) in *.
  destruct (N.ltb_spec n 56) as [Hs|Hl].
  - cbn [app]. unfold dec_hdr.
    destruct isl.
    + destruct (N.ltb_spec (192 + n) 128); [lia|].
      destruct (N.ltb_spec (192 + n) 184); [lia|].
      destruct (N.ltb_spec (192 + n) 192); [lia|].
      destruct (N.ltb_spec (192 + n) 248); [|lia].
      replace (192 + n - 192) with n by lia. unfold n. rewrite take_app. reflexivity.
    + destruct (N.ltb_spec (128 + n) 128); [lia|].
      destruct (N.ltb_spec (128 + n) 184); [|lia].
      replace (128 + n - 128) with n by lia. unfold n. rewrite take_app.
      rewrite (Hlow eq_refl). reflexivity.
  - cbn [app]. unfold dec_hdr.
    pose proof (be_min_len n Hlen) as HL.
    assert (HL1 : (1 <= length (be_min n))%nat).
    { destruct (be_min n) eqn:E; [apply be_min_nil in E; lia|cbn [length]; lia]. }
    set (L := N.of_nat (length (be_min n))) in *.
    destruct isl.
    + destruct (N.ltb_spec (192 + 55 + L) 128); [lia|].
      destruct (N.ltb_spec (192 + 55 + L) 184); [lia|].
      destruct (N.ltb_spec (192 + 55 + L) 192); [lia|].
      destruct (N.ltb_spec (192 + 55 + L) 248); [lia|].
      destruct (N.ltb_spec (192 + 55 + L) 256); [|lia].
      replace (192 + 55 + L - 247) with L by lia. unfold L.
      rewrite (long_len_ok n (p ++ r) Hl). unfold n. rewrite take_app. reflexivity.
    + destruct (N.ltb_spec (128 + 55 + L) 128); [lia|].
      destruct (N.ltb_spec (128 + 55 + L) 184); [lia|].
      destruct (N.ltb_spec (128 + 55 + L) 192); [|lia].
      replace (128 + 55 + L - 183) with L by lia. unfold L.
      rewrite (long_len_ok n (p ++ r) Hl). unfold n. rewrite take_app. reflexivity.
Qed.

Lemma dec_hdr_str b r :
  N.of_nat (length b) < 2 ^ 64 -> dec_hdr (enc_str b ++ r) = Some (false, b, r).
Proof.
  intros Hlen. destruct (single_low b) eqn:S.
  - apply single_low_true in S as (x & -> & Hx). rewrite enc_str_single by assumption.
    cbn [app]. unfold dec_hdr. destruct (N.ltb_spec x 128); [reflexivity|lia].
  - rewrite enc_str_general by assumption. rewrite <- app_assoc.
    apply (dec_hdr_general false b r Hlen). intros _. exact S.
Qed.

Lemma dec_hdr_lst p r :
  N.of_nat (length p) < 2 ^ 64 ->
  dec_hdr ((enc_len (N.of_nat (length p)) 192 ++ p) ++ r) = Some (true, p, r).
Proof.
  intros Hlen. rewrite <- app_assoc. apply (dec_hdr_general true p r Hlen). discriminate.
Qed.

(** what the strict header decoder accepts is exactly a canonical header *)
Lemma dec_hdr_sound bs isl p r :
  bytes_ok bs -> dec_hdr bs = Some (isl, p, r) ->
  bs = (if isl then enc_len (N.of_nat (length p)) 192 ++ p else enc_str p) ++ r
  /\ N.of_nat (length p) < 2 ^ 64.
Proof.
  intros Hok. destruct bs as [|h t]; [discriminate|].
  inversion Hok as [|? ? Hh Ht]; subst.
  unfold dec_hdr.
  destruct (N.ltb_spec h 128) as [H1|H1].
  { intros H. inversion H; subst. rewrite enc_str_single by assumption. cbn [length]. split; [reflexivity|lia]. }
  destruct (N.ltb_spec h 184) as [H2|H2].
  { destruct (take (h - 128) t) as [[p' r']|] eqn:T; [|discriminate].
    destruct (single_low p') eqn:S; [discriminate|].
    intros H. inversion H; subst. apply take_some in T as [-> Hlen].
    rewrite enc_str_general by assumption. unfold enc_len.
    destruct (N.ltb_spec (N.of_nat (length p)) 56); [|lia].
    split; [|lia]. cbn [app]. f_equal. lia. }
  destruct (N.ltb_spec h 192) as [H3|H3].
  { destruct (long_len (h - 183) t) as [[n t']|] eqn:LL; [|discriminate].
    destruct (take n t') as [[p' r']|] eqn:T; [|discriminate].
    intros H. inversion H; subst.
    apply long_len_sound in LL as (Hn & Hn64 & -> & HL); [|assumption|lia].
    apply take_some in T as [-> Hlen].
    assert (S : single_low p = false).
    { destruct (single_low p) eqn:S; [|reflexivity]. apply single_low_len in S. lia. }
    rewrite enc_str_general by assumption. unfold enc_len. rewrite Hlen.
    destruct (N.ltb_spec n 56); [lia|].
    split; [|lia]. cbn [app]. rewrite <- !app_assoc. f_equal. lia. }
  destruct (N.ltb_spec h 248) as [H4|H4].
  { destruct (take (h - 192) t) as [[p' r']|] eqn:T; [|discriminate].
    intros H. inversion H; subst. apply take_some in T as [-> Hlen].
    unfold enc_len.
    destruct (N.ltb_spec (N.of_nat (length p)) 56); [|lia].
    split; [|lia]. cbn [app]. f_equal. lia. }
  destruct (N.ltb_spec h 256) as [H5|H5]; [|discriminate].
  destruct (long_len (h - 247) t) as [[n t']|] eqn:LL; [|discriminate].
  destruct (take n t') as [[p' r']|] eqn:T; [|discriminate].
  intros H. inversion H; subst.
  apply long_len_sound in LL as (Hn & Hn64 & -> & HL); [|assumption|lia].
  apply take_some in T as [-> Hlen].
  unfold enc_len. rewrite Hlen.
  destruct (N.ltb_spec n 56); [lia|].
  split; [|lia]. cbn [app]. rewrite <- !app_assoc. f_equal. lia.
Qed.

(* ------------------------------------------------------------------ *)
(** * One item *)

Lemma dec1_str seq b r :
  N.of_nat (length b) < 2 ^ 64 -> dec1 seq (enc (Str b) ++ r) = Some (Str b, r).
Proof. intros H. unfold dec1. cbn [enc]. rewrite dec_hdr_str by assumption. reflexivity. Qed.

Lemma dec1_lst seq l r :
  N.of_nat (length (flat_map enc l)) < 2 ^ 64 -> seq (flat_map enc l) = Some l ->
  dec1 seq (enc (Lst l) ++ r) = Some (Lst l, r).
Proof.
  intros H Hseq. unfold dec1. cbn [enc]. cbv zeta. rewrite dec_hdr_lst by assumption.
  rewrite Hseq. reflexivity.
Qed.

Lemma dec1_sound seq bs i r :
  (forall p l, bytes_ok p -> seq p = Some l -> p = flat_map enc l /\ Forall wf_item l) ->
  bytes_ok bs -> dec1 seq bs = Some (i, r) -> bs = enc i ++ r /\ wf_item i.
Proof.
  intros Hseq Hok. unfold dec1.
  destruct (dec_hdr bs) as [[[isl p] r']|] eqn:D; [|discriminate].
  apply dec_hdr_sound in D as [Hbs Hlen]; [|assumption].
  assert (Hp : bytes_ok p).
  { rewrite Hbs in Hok. apply bytes_ok_app in Hok as [Hok _].
    destruct isl.
    - apply bytes_ok_app in Hok as [_ Hok]. exact Hok.
    - destruct (single_low p) eqn:S.
      + apply single_low_true in S as (x & -> & Hx). constructor; [lia|constructor].
      + rewrite enc_str_general in Hok by assumption. apply bytes_ok_app in Hok as [_ Hok]. exact Hok. }
  destruct isl.
  - destruct (seq p) as [l|] eqn:Sq; [|discriminate].
    intros H. inversion H; subst i r'. clear H.
    destruct (Hseq p l Hp Sq) as [-> Hwf].
    split; [exact Hbs|]. constructor; assumption.
  - intros H. inversion H; subst i r'. clear H.
    split; [exact Hbs|]. constructor; assumption.
Qed.

(* ------------------------------------------------------------------ *)
(** * Sequences, fuel, round trip *)

Lemma dec_seq_nonempty f bs :
  bs <> [] ->
  dec_seq (S f) bs =
  match dec1 (dec_seq f) bs with
  | Some (i, r) => match dec_seq f r with Some l => Some (i :: l) | None => None end
  | None => None
  end.
Proof. destruct bs; [congruence|reflexivity]. Qed.

(** nested induction principle for [item] *)
Fixpoint item_rect' (P : item -> Prop)
    (HS : forall b, P (Str b)) (HL : forall l, Forall P l -> P (Lst l)) (i : item) : P i :=
  match i with
  | Str b => HS b
  | Lst l =>
      HL l ((fix go (l : list item) : Forall P l :=
               match l with
               | [] => Forall_nil P
               | x :: r => Forall_cons x (item_rect' P HS HL x) (go r)
               end) l)
  end.

(** fuel: any fuel at least the length of the encoding decodes it *)
Definition rt (i : item) : Prop :=
  forall f rest, (length (enc i) <= f)%nat -> dec_item f (enc i ++ rest) = Some (i, rest).

Lemma dec_seq_complete l :
  Forall rt l -> forall f, (length (flat_map enc l) < f)%nat -> dec_seq f (flat_map enc l) = Some l.
Proof.
  induction 1 as [|x r Hx Hr IH]; intros f Hf.
  - destruct f as [|f]; [lia|]. reflexivity.
  - destruct f as [|f]; [lia|]. cbn [flat_map] in *. rewrite app_length in Hf.
    pose proof (enc_nonempty x) as Hne.
    rewrite dec_seq_nonempty.
    2:{ intros E. apply (f_equal (@length N)) in E. rewrite app_length in E. cbn [length] in E. lia. }
    unfold rt, dec_item in Hx. rewrite Hx by lia.
    rewrite IH by lia. reflexivity.
Qed.

Lemma dec_enc_fuel : forall i, wf_item i -> rt i.
Proof.
  apply (item_rect' (fun i => wf_item i -> rt i)).
  - intros b Hwf f rest _. inversion Hwf; subst. unfold dec_item. apply dec1_str. assumption.
  - intros l IH Hwf f rest Hf. inversion Hwf as [|l' Hall Hlen]; subst.
    unfold dec_item. apply dec1_lst; [assumption|].
    apply dec_seq_complete.
    + rewrite Forall_forall in *. intros x Hx. apply IH; [exact Hx|]. apply Hall, Hx.
    + cbn [enc] in Hf. cbv zeta in Hf. rewrite app_length in Hf.
      pose proof (enc_len_nonempty (N.of_nat (length (flat_map enc l))) 192). lia.
Qed.

(** the fuel [dec_strict] computes from its input is enough *)
Lemma roundtrip i rest : wf_item i -> dec_strict (enc i ++ rest) = Some (i, rest).
Proof.
  intros Hwf. unfold dec_strict. apply (dec_enc_fuel i Hwf). rewrite app_length. lia.
Qed.

(* ------------------------------------------------------------------ *)
(** * Strictness: only canonical encodings are accepted *)

Lemma dec_seq_sound f : forall bs l,
  bytes_ok bs -> dec_seq f bs = Some l -> bs = flat_map enc l /\ Forall wf_item l.
Proof.
  induction f as [|f IH]; intros bs l Hok H; [discriminate|].
  destruct bs as [|h t].
  - inversion H; subst. split; [reflexivity|constructor].
  - rewrite dec_seq_nonempty in H by discriminate.
    destruct (dec1 (dec_seq f) (h :: t)) as [[i r]|] eqn:D; [|discriminate].
    destruct (dec_seq f r) as [l'|] eqn:D2; [|discriminate].
    inversion H; subst l. clear H.
    apply (dec1_sound _ _ _ _ IH Hok) in D as [Hbs Hwf].
    assert (Hr : bytes_ok r).
    { rewrite Hbs in Hok. apply bytes_ok_app in Hok as [_ Hok]. exact Hok. }
    destruct (IH r l' Hr D2) as [-> Hall].
    split; [exact Hbs|]. constructor; assumption.
Qed.

Lemma strict bs i rest :
  bytes_ok bs -> dec_strict bs = Some (i, rest) -> bs = enc i ++ rest /\ wf_item i.
Proof.
  intros Hok H. unfold dec_strict, dec_item in H.
  exact (dec1_sound _ _ _ _ (dec_seq_sound _) Hok H).
Qed.

(* ------------------------------------------------------------------ *)
(** * Corollaries *)

Lemma prefix_free a b r1 r2 :
  wf_item a -> wf_item b -> enc a ++ r1 = enc b ++ r2 -> a = b /\ r1 = r2.
Proof.
  intros Ha Hb E.
  pose proof (roundtrip a r1 Ha) as Da. pose proof (roundtrip b r2 Hb) as Db.
  rewrite E, Db in Da. inversion Da; subst. auto.
Qed.

Lemma injective a b : wf_item a -> wf_item b -> enc a = enc b -> a = b.
Proof.
  intros Ha Hb E. apply (prefix_free a b [] [] Ha Hb). rewrite E. reflexivity.
Qed.

Lemma uint_canonical v : int_of_str (be_min v) = Some v /\ (v = 0 -> be_min v = []).
Proof.
  split.
  - unfold int_of_str. destruct (be_min v) as [|d r] eqn:E.
    + apply be_min_nil in E. subst. reflexivity.
    + destruct (be_min_cons_bounds v d r E) as (Hd & _).
      destruct d as [|q]; [congruence|]. rewrite <- E, be_val_min. reflexivity.
  - intros ->. reflexivity.
Qed.

Lemma int_of_str_leading_zero r : int_of_str (0 :: r) = None.
Proof. reflexivity. Qed.

(** end to end: what the implementation emits is accepted by the strict decoder, consumed
    completely, and gives back the original value *)
Lemma bytes_decodes b :
  bytes_ok b -> N.of_nat (length b) < 2 ^ 64 ->
  exists e, rlp_bytes b = Ok e /\ dec_strict e = Some (Str b, []).
Proof.
  intros Hb Hlen. exists (enc (Str b)). split; [apply rlp_bytes_enc, Hlen|].
  rewrite <- (app_nil_r (enc (Str b))). apply roundtrip. constructor; assumption.
Qed.

Lemma uint_decodes v :
  v < 2 ^ 256 ->
  exists e s, rlp_uint v = Ok e /\ dec_strict e = Some (Str s, []) /\ int_of_str s = Some v.
Proof.
  intros Hv. exists (enc (Str (be_min v))), (be_min v).
  split; [apply rlp_uint_enc, Hv|]. split; [|apply uint_canonical].
  rewrite <- (app_nil_r (enc (Str (be_min v)))). apply roundtrip.
  constructor; [apply be_min_ok|]. pose proof (be_min_len32 v Hv). lia.
Qed.

Lemma list_decodes l :
  Forall wf_item l -> N.of_nat (length (flat_map enc l)) < 2 ^ 64 ->
  exists e, rlp_list (map enc l) = Ok e /\ dec_strict e = Some (Lst l, []).
Proof.
  intros Hall Hlen. exists (enc (Lst l)). split; [apply rlp_list_enc, Hlen|].
  rewrite <- (app_nil_r (enc (Lst l))). apply roundtrip. constructor; assumption.
Qed.
