(** The primitives [Run/DC08.v] instantiates the model with ([Prim/Keccak.v], [Model/Num.v],
    [Model/Eip712Types.v]) satisfy the size and totality assumptions of [Props/C09.v] /
    [Props/C08v.v].  (Totality of the type hash is the fuel theorem of C08's type half and is
    taken as a premise here; [prims_ranged] and [prims_denote] are C13's theorems about
    [Model/Num.v], which hold for well-formed number tokens.) *)
From Coq Require Import String.
From Coq Require Import List NArith ZArith Bool Lia PeanoNat.
From HDW Require Import Lib.Outcome Lib.Bytes Lib.Hex Prim.Keccak.
From HDW Require Import Model.Json Model.Eip712Kind Model.Domain Model.Num Model.Eip712Types Model.Eip712Values.
From HDW Require Import Spec.Eip712ValueSpec.
Import ListNotations.
Local Open Scope outcome_scope.

Definition real_prims : prims := {|
  p_keccak := keccak256;
  p_type_hash := Eip712Types.type_hash;
  p_u256 := permissive_u256;
  p_i256 := ethnum_permissive_i256;
  p_bytes := bytes_field;
  p_addr := address_field
|}.

Lemma address_field_length j a : address_field j = Ok a -> length a = 20%nat.
Proof.
  destruct j as [ | | | | |s| | ]; try discriminate. cbn [address_field].
  destruct (strip_prefix (s2l "0x") s) as [rest|]; cbv beta iota; [|discriminate].
  unfold ethaddr_hex_decode. cbv zeta.
  match goal with |- context [hex_decode ?B] => set (b := B) end.
  destruct (Nat.eqb_spec (length b) (20 * 2)) as [Hl|]; [|cbn [of_option]; discriminate].
  destruct (hex_decode b) as [bs|] eqn:Hd; [|cbn [of_option]; discriminate].
  cbn [of_option]. intros H; inversion H; subst. apply hex_decode_sound in Hd as (_ & _ & Hlen). lia.
Qed.

Lemma real_prims_sized : prims_sized real_prims.
Proof.
  constructor; cbn [real_prims p_keccak p_type_hash p_addr].
  - apply keccak256_length.
  - intros tys T h H. unfold Eip712Types.type_hash in H. apply bind_ok in H as (s & _ & H).
    inversion H. apply keccak256_length.
  - apply address_field_length.
Qed.

Lemma of_option_graceful {A} (x : option A) : graceful (of_option x).
Proof. destruct x; split; discriminate. Qed.

Lemma real_prims_total :
  (forall tys T, graceful (Eip712Types.type_hash tys T)) -> prims_total real_prims.
Proof.
  intros HT. constructor; cbn [real_prims p_type_hash p_u256 p_i256 p_bytes p_addr].
  - exact HT.
  - intros j. unfold permissive_u256. destruct (is_negative_number j); [apply graceful_err|].
    destruct j; cbn [ethnum_permissive_u256]; try (split; discriminate).
    + destruct (f64_to_int m e); split; discriminate.
    + destruct (from_str_prefixed false s); split; discriminate.
  - intros j. destruct j; cbn [ethnum_permissive_i256]; try (split; discriminate);
      apply of_option_graceful.
  - intros j. destruct j; cbn [bytes_field]; try (split; discriminate).
    destruct (strip_prefix _ s); cbv beta iota; [apply of_option_graceful|apply graceful_err].
  - intros j. destruct j; cbn [address_field]; try (split; discriminate).
    destruct (strip_prefix _ s); cbv beta iota; [apply of_option_graceful|apply graceful_err].
Qed.

(* ------------------------------------------------------------------ *)
(** * corollaries for the instantiated model (what [Run/DC08.v] runs) *)
From HDW Require Import Proofs.Eip712ValueC09 Proofs.Eip712ValueSpecProofs.

(** the digest equation, unconditionally *)
Lemma real_digest_eq j d ds mh :
  compute_p real_prims j = Ok (d, ds, mh) -> d = keccak256 ([0x19; 0x01]%N ++ ds ++ mh).
Proof. exact (c08_digest_eq real_prims j d ds mh real_prims_sized). Qed.

(** no panic / fuel exhaustion anywhere in the value half, given that of the type half *)
Lemma real_total :
  (forall tys T, graceful (Eip712Types.type_hash tys T)) ->
  (forall tys k j, graceful (encode_value_p real_prims tys k j)) /\
  (forall tys name obj, graceful (struct_hash_p real_prims tys name obj)) /\
  (forall j, graceful (compute_p real_prims j)).
Proof. intros HT. exact (c09_total real_prims real_prims_sized (real_prims_total HT)). Qed.
