(** Lemmas about the EIP-712 member type grammar ([Model/Eip712Kind.v]). *)
From Coq Require Import String.
From Coq Require Import List NArith Bool Lia PeanoNat.
From HDW Require Import Lib.Outcome Lib.Radix Lib.Bytes Lib.Decimal Model.Eip712Kind.
Import ListNotations.
Open Scope N_scope.


(* ------------------------------------------------------------------ *)
(** * Equality test *)

Lemma optN_eqb_spec a b : optN_eqb a b = true <-> a = b.
Proof.
  destruct a as [x|], b as [y|]; cbn [optN_eqb]; split; intros H;
    try reflexivity; try discriminate.
  - apply N.eqb_eq in H. subst. reflexivity.
  - inversion H. apply N.eqb_refl.
Qed.

Lemma kind_eqb_spec a b : kind_eqb a b = true <-> a = b.
Proof.
  revert b. induction a as [x|x|x| | | |x|i IH x]; intros [y|y|y| | | |y|j y];
    cbn [kind_eqb]; split; intros H; try reflexivity; try discriminate.
  - apply optN_eqb_spec in H. subst. reflexivity.
  - inversion H. apply optN_eqb_spec. reflexivity.
  - apply N.eqb_eq in H. subst. reflexivity.
  - inversion H. apply N.eqb_refl.
  - apply N.eqb_eq in H. subst. reflexivity.
  - inversion H. apply N.eqb_refl.
  - apply list_eqb_spec in H. subst. reflexivity.
  - inversion H. apply list_eqb_spec. reflexivity.
  - apply andb_true_iff in H as [H1 H2]. apply IH in H1. apply optN_eqb_spec in H2.
    subst. reflexivity.
  - inversion H; subst. apply andb_true_iff. split; [apply IH|apply optN_eqb_spec]; reflexivity.
Qed.

Lemma kind_eqb_refl a : kind_eqb a a = true.
Proof. apply kind_eqb_spec. reflexivity. Qed.

Lemma kind_eqb_reflect a b : reflect (a = b) (kind_eqb a b).
Proof.
  destruct (kind_eqb a b) eqn:E; constructor.
  - apply kind_eqb_spec. exact E.
  - intros H. apply kind_eqb_spec in H. congruence.
Qed.

Lemma list_eqb_false a b : a <> b -> list_eqb a b = false.
Proof.
  intros H. destruct (list_eqb a b) eqn:E; [|reflexivity].
  apply list_eqb_spec in E. contradiction.
Qed.

Lemma list_eqb_refl a : list_eqb a a = true.
Proof. apply list_eqb_spec. reflexivity. Qed.

(* ------------------------------------------------------------------ *)
(** * String helpers *)

Lemma strip_suffix_app suf p : strip_suffix suf (p ++ suf) = Some p.
Proof.
  unfold strip_suffix. rewrite rev_app_distr, strip_prefix_app, rev_involutive. reflexivity.
Qed.

Lemma strip_suffix_some suf s p : strip_suffix suf s = Some p -> s = p ++ suf.
Proof.
  unfold strip_suffix. intros H.
  destruct (strip_prefix (rev suf) (rev s)) as [r|] eqn:E; [|discriminate].
  inversion H; subst p. apply strip_prefix_some in E.
  apply (f_equal (@rev N)) in E. rewrite rev_involutive, rev_app_distr, rev_involutive in E.
  exact E.
Qed.

Lemma split_once_some c s : forall a b,
  split_once c s = Some (a, b) -> s = a ++ c :: b /\ ~ In c a.
Proof.
  induction s as [|x r IH]; intros a b H; [discriminate|].
  cbn [split_once] in H. destruct (N.eqb_spec x c) as [->|Hx].
  - inversion H; subst. split; [reflexivity|intros []].
  - destruct (split_once c r) as [[a' b']|] eqn:E; [|discriminate].
    inversion H; subst. destruct (IH _ _ eq_refl) as [-> Hn].
    split; [reflexivity|]. intros [Hc|Hc]; [congruence|contradiction].
Qed.

Lemma split_once_app c a b : ~ In c a -> split_once c (a ++ c :: b) = Some (a, b).
Proof.
  induction a as [|x a IH]; intros H; cbn [app split_once].
  - rewrite N.eqb_refl. reflexivity.
  - destruct (N.eqb_spec x c) as [->|Hx]; [exfalso; apply H; left; reflexivity|].
    rewrite IH; [reflexivity|]. intros Hc. apply H. right. exact Hc.
Qed.

Lemma rsplit_once_some c s a b :
  rsplit_once c s = Some (a, b) -> s = a ++ c :: b /\ ~ In c b.
Proof.
  unfold rsplit_once. intros H.
  destruct (split_once c (rev s)) as [[a' b']|] eqn:E; [|discriminate].
  inversion H; subst. apply split_once_some in E as [E Hn].
  apply (f_equal (@rev N)) in E. rewrite rev_involutive, rev_app_distr in E.
  cbn [rev] in E. rewrite <- app_assoc in E. split; [exact E|].
  intros Hc. apply Hn. apply in_rev in Hc. exact Hc.
Qed.

Lemma rsplit_once_app c a b : ~ In c b -> rsplit_once c (a ++ c :: b) = Some (a, b).
Proof.
  intros H. unfold rsplit_once. rewrite rev_app_distr. cbn [rev]. rewrite <- app_assoc.
  cbn [app]. rewrite split_once_app.
  - rewrite !rev_involutive. reflexivity.
  - intros Hc. apply H. apply in_rev. exact Hc.
Qed.

Lemma split_at_first_some p s : forall a b,
  split_at_first p s = Some (a, b) ->
  s = a ++ b /\ Forall (fun c => p c = false) a /\ exists c r, b = c :: r /\ p c = true.
Proof.
  induction s as [|x r IH]; intros a b H; [discriminate|].
  cbn [split_at_first] in H. destruct (p x) eqn:Px.
  - inversion H; subst. split; [reflexivity|]. split; [constructor|]. eauto.
  - destruct (split_at_first p r) as [[a' b']|] eqn:E; [|discriminate].
    inversion H; subst. destruct (IH _ _ eq_refl) as (-> & Fa & Hb).
    split; [reflexivity|]. split; [constructor; assumption|exact Hb].
Qed.

Lemma split_at_first_none p s :
  split_at_first p s = None <-> Forall (fun c => p c = false) s.
Proof.
  induction s as [|x r IH]; cbn [split_at_first].
  - split; [constructor|reflexivity].
  - destruct (p x) eqn:Px.
    + split; [discriminate|]. intros H. inversion H; congruence.
    + destruct (split_at_first p r) as [[a b]|].
      * split; [discriminate|]. intros H. inversion H; subst.
        destruct IH as [_ IH]. specialize (IH H3). discriminate.
      * split; [|reflexivity]. intros _. constructor; [exact Px|]. apply IH. reflexivity.
Qed.

Lemma split_at_first_app p a c r :
  Forall (fun c => p c = false) a -> p c = true ->
  split_at_first p (a ++ c :: r) = Some (a, c :: r).
Proof.
  induction a as [|x a IH]; intros Fa Pc; cbn [app split_at_first].
  - rewrite Pc. reflexivity.
  - inversion Fa; subst. rewrite H1, IH by assumption. reflexivity.
Qed.

Lemma app_snoc_inv {A} (a b t : list A) x :
  a ++ b = t ++ [x] -> b <> [] -> exists b', b = b' ++ [x].
Proof.
  intros H Hb. destruct (exists_last Hb) as (b' & y & ->).
  rewrite app_assoc in H. apply app_inj_tail in H as [_ ->]. exists b'. reflexivity.
Qed.

(** every character [parse_uint] accepts is a ['+'] or an ASCII digit *)
Lemma parse_uint_chars max s v :
  parse_uint max s = Some v -> Forall (fun c => c = 43 \/ 48 <= c <= 57) s.
Proof.
  intros H. apply parse_uint_sound in H as (_ & ds & [->| ->] & _ & D & _).
  - eapply Forall_impl; [|exact D]. intros c Hc. right. exact Hc.
  - constructor; [left; reflexivity|]. eapply Forall_impl; [|exact D]. intros c Hc. right. exact Hc.
Qed.

Lemma parse_uint_bad_char max s c :
  In c s -> c <> 43 -> ~ (48 <= c <= 57) -> parse_uint max s = None.
Proof.
  intros Hin H1 H2. destruct (parse_uint max s) as [v|] eqn:E; [|reflexivity].
  apply parse_uint_chars in E. rewrite Forall_forall in E. destruct (E c Hin); contradiction.
Qed.

Lemma decimal_no_char n c : ~ (48 <= c <= 57) -> ~ In c (decimal n).
Proof.
  intros Hc Hin. pose proof (decimal_digits n) as D. unfold all_digits in D.
  rewrite Forall_forall in D. apply Hc. apply D. exact Hin.
Qed.

(* ------------------------------------------------------------------ *)
(** * The fixed-size array suffix *)

Lemma fixed_suffix_some s p n :
  fixed_suffix s = Some (p, n) ->
  exists ds, s = p ++ 91 :: ds ++ [93] /\ ~ In 91 ds /\ parse_uint usize_max ds = Some n.
Proof.
  unfold fixed_suffix. intros H.
  destruct (strip_suffix [93] s) as [v|] eqn:E1; [|discriminate].
  destruct (rsplit_once 91 v) as [[p' ds]|] eqn:E2; [|discriminate].
  destruct (parse_uint usize_max ds) as [n'|] eqn:E3; [|discriminate].
  inversion H; subst. apply strip_suffix_some in E1. apply rsplit_once_some in E2 as [-> Hn].
  exists ds. rewrite E1, <- app_assoc. cbn [app]. auto.
Qed.

Lemma fixed_suffix_length s p n : fixed_suffix s = Some (p, n) -> (length p < length s)%nat.
Proof.
  intros H. apply fixed_suffix_some in H as (ds & -> & _). rewrite app_length. cbn [length]. lia.
Qed.

Lemma fixed_suffix_app p ds n :
  ~ In 91 ds -> parse_uint usize_max ds = Some n ->
  fixed_suffix (p ++ 91 :: ds ++ [93]) = Some (p, n).
Proof.
  intros Hn Hp. unfold fixed_suffix.
  replace (p ++ 91 :: ds ++ [93]) with ((p ++ 91 :: ds) ++ [93])
    by (rewrite <- app_assoc; reflexivity).
  rewrite strip_suffix_app, rsplit_once_app by exact Hn. rewrite Hp. reflexivity.
Qed.

Lemma fixed_suffix_decimal p n :
  n <= usize_max -> fixed_suffix (p ++ [91] ++ decimal n ++ [93]) = Some (p, n).
Proof.
  intros Hn. cbn [app]. apply fixed_suffix_app.
  - apply decimal_no_char. lia.
  - apply parse_decimal. exact Hn.
Qed.

(* ------------------------------------------------------------------ *)
(** * Fuel *)

(** one unfolding of the parser with the recursive call abstracted *)
Definition kind_body (rec : text -> kind) (s : text) : kind :=
  if list_eqb s (s2l "bool") then KBool
  else if list_eqb s (s2l "address") then KAddress
  else if list_eqb s (s2l "bytes") then KBytes None
  else if list_eqb s (s2l "string") then KString
  else
    match sized_atom s with
    | Some k => k
    | None =>
        match strip_suffix (s2l "[]") s with
        | Some prefix => KArray (rec prefix) None
        | None =>
            match fixed_suffix s with
            | Some (prefix, n) => KArray (rec prefix) (Some n)
            | None => KStruct s
            end
        end
    end.

Lemma fuel_step f s : kind_of_string_fuel (S f) s = kind_body (kind_of_string_fuel f) s.
Proof. reflexivity. Qed.

Lemma kind_body_ext rec1 rec2 s :
  (forall p, (length p < length s)%nat -> rec1 p = rec2 p) -> kind_body rec1 s = kind_body rec2 s.
Proof.
  intros H. unfold kind_body.
  destruct (list_eqb s (s2l "bool")); [reflexivity|].
  destruct (list_eqb s (s2l "address")); [reflexivity|].
  destruct (list_eqb s (s2l "bytes")); [reflexivity|].
  destruct (list_eqb s (s2l "string")); [reflexivity|].
  destruct (sized_atom s); [reflexivity|].
  destruct (strip_suffix (s2l "[]") s) as [p|] eqn:E1.
  - apply strip_suffix_some in E1. rewrite H; [reflexivity|].
    subst s. rewrite app_length. cbn. lia.
  - destruct (fixed_suffix s) as [[p n]|] eqn:E2; [|reflexivity].
    apply fixed_suffix_length in E2. rewrite H by exact E2. reflexivity.
Qed.

Lemma kind_fuel_indep n : forall m s,
  (length s < n)%nat -> (length s < m)%nat -> kind_of_string_fuel n s = kind_of_string_fuel m s.
Proof.
  induction n as [|n IH]; intros m s Hn Hm; [lia|]. destruct m as [|m]; [lia|].
  rewrite !fuel_step. apply kind_body_ext. intros p Hp. apply IH; lia.
Qed.

(** The fuel never runs out: any amount above the length of the string gives the result of
    [kind_of_string]. *)
Lemma kind_fuel_enough s n :
  (length s < n)%nat -> kind_of_string_fuel n s = kind_of_string s.
Proof. intros H. unfold kind_of_string. apply kind_fuel_indep; lia. Qed.

(** the unfolding equation of the parser *)
Lemma kind_of_string_unfold s : kind_of_string s = kind_body kind_of_string s.
Proof.
  unfold kind_of_string at 1. rewrite fuel_step. apply kind_body_ext.
  intros p Hp. apply kind_fuel_enough. exact Hp.
Qed.

(** a run that is given more fuel than the length of the string never evaluates the
    exhaustion branch *)
Lemma kind_fuel_never_exhausted n : forall s,
  (length s < n)%nat -> kind_fuel_opt n s = Some (kind_of_string s).
Proof.
  induction n as [|n IH]; intros s Hn; [lia|].
  rewrite kind_of_string_unfold. cbn [kind_fuel_opt]. unfold kind_body.
  destruct (list_eqb s (s2l "bool")); [reflexivity|].
  destruct (list_eqb s (s2l "address")); [reflexivity|].
  destruct (list_eqb s (s2l "bytes")); [reflexivity|].
  destruct (list_eqb s (s2l "string")); [reflexivity|].
  destruct (sized_atom s); [reflexivity|].
  destruct (strip_suffix (s2l "[]") s) as [p|] eqn:E1.
  - apply strip_suffix_some in E1. rewrite IH; [reflexivity|].
    subst s. rewrite app_length in Hn. cbn in Hn. lia.
  - destruct (fixed_suffix s) as [[p m]|] eqn:E2; [|reflexivity].
    apply fixed_suffix_length in E2. rewrite IH by lia. reflexivity.
Qed.

Global Opaque kind_of_string.

(* ------------------------------------------------------------------ *)
(** * [sized_atom] *)

Lemma is_numeric_digit c : 48 <= c <= 57 -> is_numeric c = true.
Proof.
  intros H. unfold is_numeric, numeric_ranges. cbn [existsb fst snd].
  replace (48 <=? c) with true by lia. replace (c <=? 57) with true by lia. reflexivity.
Qed.

(** a string ending in [']'] is no [bytesN]/[uintN]/[intN]: whatever follows the first numeric
    character ends in [']'] and is not a number *)
Lemma sized_atom_with_bracket p t : sized_atom_with p (t ++ [93]) = None.
Proof.
  unfold sized_atom_with.
  destruct (split_at_first p (t ++ [93])) as [[a b]|] eqn:E; [|reflexivity].
  apply split_at_first_some in E as (E & _ & c & r & -> & _).
  destruct (app_snoc_inv _ _ _ _ (eq_sym E) ltac:(discriminate)) as [b' Hb]. rewrite Hb.
  rewrite (parse_uint_bad_char u32_max (b' ++ [93]) 93); [reflexivity| |lia|lia].
  apply in_or_app. right. left. reflexivity.
Qed.

Lemma sized_atom_bracket t : sized_atom (t ++ [93]) = None.
Proof. apply sized_atom_with_bracket. Qed.

Lemma sized_atom_no_numeric s :
  Forall (fun c => is_numeric c = false) s -> sized_atom s = None.
Proof.
  intros H. unfold sized_atom, sized_atom_with.
  apply split_at_first_none in H. rewrite H. reflexivity.
Qed.

(** [parse_uint] on a non-empty run of digits *)
Lemma parse_uint_digits max ds :
  ds <> [] -> all_digits ds -> of_digits 10 (map (fun c => c - 48) ds) <= max ->
  parse_uint max ds = Some (of_digits 10 (map (fun c => c - 48) ds)).
Proof.
  intros Hne D Hv. unfold parse_uint. destruct ds as [|c r] eqn:E; [contradiction|].
  assert (Hc : c <> 43) by (inversion D; lia).
  assert (Hs : match c :: r with 43 :: r0 => r0 | _ => c :: r end = c :: r).
  { destruct c as [|q]; [reflexivity|]. repeat (destruct q as [q|q|]; try reflexivity). congruence. }
  rewrite Hs. rewrite parse_digits_spec by exact D. rewrite N.mul_0_l, N.add_0_l.
  replace (_ <=? max) with true by lia. reflexivity.
Qed.

Lemma numeric_like_prefix p prefix :
  numeric_like p -> In prefix [s2l "bytes"; s2l "uint"; s2l "int"] ->
  Forall (fun c => p c = false) prefix.
Proof.
  intros (_ & _ & F) H. rewrite Forall_forall in F |- *. intros c Hc. apply F.
  cbn in H. destruct H as [<-|[<-|[<-|[]]]]; cbn in Hc |- *; tauto.
Qed.

(** [sized_atom] implements exactly the grammar [sized_spec], whatever the non-ASCII part of
    the numeric table is *)
Lemma sized_atom_with_spec p : numeric_like p ->
  forall s k, sized_atom_with p s = Some k <-> sized_spec s k.
Proof.
  intros NL s k. split.
  - unfold sized_atom_with. intros H.
    destruct (split_at_first p s) as [[a b]|] eqn:E; [|discriminate].
    apply split_at_first_some in E as (-> & _ & c & r & -> & Pc).
    destruct (parse_uint u32_max (c :: r)) as [n|] eqn:Pn; [|discriminate].
    apply parse_uint_sound in Pn as (Hmax & ds & Hds & Hne & D & Hn).
    destruct Hds as [Hds|Hds].
    2:{ inversion Hds; subst c. destruct NL as (_ & N43 & _). congruence. }
    exists a, (c :: r). rewrite Hds. split; [reflexivity|]. split; [exact Hne|].
    split; [exact D|]. cbv zeta. rewrite <- Hn. split; [exact Hmax|].
    destruct (list_eqb a (s2l "bytes") && ((1 <=? n) && (n <=? 32))) eqn:C1.
    { apply andb_true_iff in C1 as [C1 C2]. apply list_eqb_spec in C1.
      inversion H; subst k. left. unfold bytes_width_ok. split; [exact C1|]. split; [lia|reflexivity]. }
    destruct (list_eqb a (s2l "uint") && ((n mod 8 =? 0) && ((8 <=? n) && (n <=? 256)))) eqn:C2.
    { apply andb_true_iff in C2 as [C2 C3]. apply list_eqb_spec in C2.
      inversion H; subst k. right. left. unfold int_width_ok. split; [exact C2|]. split; [lia|reflexivity]. }
    destruct (list_eqb a (s2l "int") && ((n mod 8 =? 0) && ((8 <=? n) && (n <=? 256)))) eqn:C3;
      [|discriminate].
    apply andb_true_iff in C3 as [C3 C4]. apply list_eqb_spec in C3.
    inversion H; subst k. right. right. unfold int_width_ok. split; [exact C3|]. split; [lia|reflexivity].
  - intros (prefix & ds & -> & Hne & D & H). cbv zeta in H. destruct H as (Hmax & Hk).
    set (n := of_digits 10 (map (fun c => c - 48) ds)) in *.
    assert (Fp : Forall (fun c => p c = false) prefix).
    { apply numeric_like_prefix; [exact NL|]. cbn. destruct Hk as [(-> & _)|[(-> & _)|(-> & _)]]; tauto. }
    destruct ds as [|d r]; [contradiction|].
    assert (Pd : p d = true) by (destruct NL as (N1 & _); apply N1; inversion D; assumption).
    unfold sized_atom_with. rewrite split_at_first_app by assumption.
    rewrite parse_uint_digits by assumption. fold n.
    destruct Hk as [(-> & W & ->)|[(-> & W & ->)|(-> & W & ->)]].
    + unfold bytes_width_ok in W. rewrite list_eqb_refl.
      replace (1 <=? n) with true by lia. replace (n <=? 32) with true by lia. reflexivity.
    + unfold int_width_ok in W. change (list_eqb (s2l "uint") (s2l "bytes")) with false.
      rewrite list_eqb_refl. cbn [andb].
      replace (n mod 8 =? 0) with true by lia.
      replace (8 <=? n) with true by lia. replace (n <=? 256) with true by lia. reflexivity.
    + unfold int_width_ok in W. change (list_eqb (s2l "int") (s2l "bytes")) with false.
      change (list_eqb (s2l "int") (s2l "uint")) with false.
      rewrite list_eqb_refl. cbn [andb].
      replace (n mod 8 =? 0) with true by lia.
      replace (8 <=? n) with true by lia. replace (n <=? 256) with true by lia. reflexivity.
Qed.

Lemma numeric_like_is_numeric : numeric_like is_numeric.
Proof.
  split; [exact is_numeric_digit|]. split; [vm_compute; reflexivity|].
  apply Forall_forall. intros c Hc.
  cbn in Hc. repeat (destruct Hc as [<-|Hc]; [vm_compute; reflexivity|]). destruct Hc.
Qed.

Lemma numeric_like_is_digit : numeric_like is_digit.
Proof.
  split; [intros c Hc; unfold is_digit; lia|]. split; [reflexivity|].
  apply Forall_forall. intros c Hc.
  cbn in Hc. repeat (destruct Hc as [<-|Hc]; [reflexivity|]). destruct Hc.
Qed.

Lemma sized_atom_spec s k : sized_atom s = Some k <-> sized_spec s k.
Proof. apply sized_atom_with_spec. exact numeric_like_is_numeric. Qed.

(** only the ASCII part of the numeric table matters *)
Lemma sized_atom_table_irrelevant p q s :
  numeric_like p -> numeric_like q -> sized_atom_with p s = sized_atom_with q s.
Proof.
  intros Hp Hq.
  destruct (sized_atom_with p s) as [k|] eqn:E1.
  - symmetry. apply (sized_atom_with_spec q Hq). apply (sized_atom_with_spec p Hp). exact E1.
  - destruct (sized_atom_with q s) as [k|] eqn:E2; [|reflexivity].
    apply (sized_atom_with_spec q Hq) in E2. apply (sized_atom_with_spec p Hp) in E2. congruence.
Qed.

Lemma sized_atom_ascii s : sized_atom s = sized_atom_with is_digit s.
Proof. apply sized_atom_table_irrelevant; [exact numeric_like_is_numeric|exact numeric_like_is_digit]. Qed.

(* ------------------------------------------------------------------ *)
(** * Parsing what [display_kind] prints *)

Lemma not_literal_bracket t : ~ In (t ++ [93]) literal_atoms.
Proof.
  intros H. assert (E : exists l, rev l = 93 :: rev t /\ In l literal_atoms).
  { exists (t ++ [93]). rewrite rev_app_distr. auto. }
  destruct E as (l & E & Hl). cbn in Hl.
  destruct Hl as [<-|[<-|[<-|[<-|[]]]]]; cbn in E; discriminate.
Qed.

Lemma kind_body_nonliteral rec s :
  ~ In s literal_atoms ->
  kind_body rec s =
    match sized_atom s with
    | Some k => k
    | None =>
        match strip_suffix (s2l "[]") s with
        | Some prefix => KArray (rec prefix) None
        | None =>
            match fixed_suffix s with
            | Some (prefix, n) => KArray (rec prefix) (Some n)
            | None => KStruct s
            end
        end
    end.
Proof.
  intros H. unfold kind_body.
  rewrite !list_eqb_false; [reflexivity| | | |];
    intros ->; apply H; cbn; tauto.
Qed.

(** ["T[]"] parses as a dynamic array of whatever ["T"] parses as — for every text [T] *)
Lemma kind_array_dyn t : kind_of_string (t ++ s2l "[]") = KArray (kind_of_string t) None.
Proof.
  rewrite kind_of_string_unfold.
  change (s2l "[]") with ([91] ++ [93]). rewrite app_assoc.
  rewrite kind_body_nonliteral by apply not_literal_bracket.
  rewrite sized_atom_bracket. rewrite <- app_assoc.
  change ([91] ++ [93]) with (s2l "[]"). rewrite strip_suffix_app. reflexivity.
Qed.

(** ["T[n]"] parses as a fixed array of whatever ["T"] parses as *)
Lemma kind_array_fixed t n :
  n <= usize_max ->
  kind_of_string (t ++ [91] ++ decimal n ++ [93]) = KArray (kind_of_string t) (Some n).
Proof.
  intros Hn. rewrite kind_of_string_unfold.
  assert (E : t ++ [91] ++ decimal n ++ [93] = (t ++ [91] ++ decimal n) ++ [93])
    by (rewrite <- !app_assoc; reflexivity).
  rewrite kind_body_nonliteral by (rewrite E; apply not_literal_bracket).
  rewrite E at 1. rewrite sized_atom_bracket.
  destruct (strip_suffix (s2l "[]") (t ++ [91] ++ decimal n ++ [93])) as [p|] eqn:S.
  - exfalso. apply strip_suffix_some in S. change (s2l "[]") with ([91] ++ [93]) in S.
    replace (p ++ [91] ++ [93]) with ((p ++ [91]) ++ [93]) in S by (rewrite <- app_assoc; reflexivity).
    rewrite E in S. apply app_inj_tail in S as [S _].
    destruct (exists_last (decimal_nonempty n)) as (d' & y & Hd). rewrite Hd in S.
    replace (t ++ [91] ++ d' ++ [y]) with ((t ++ [91] ++ d') ++ [y]) in S
      by (rewrite <- !app_assoc; reflexivity).
    apply app_inj_tail in S as [_ Hy].
    apply (decimal_no_char n 91); [lia|]. rewrite Hd. apply in_or_app. right. left. exact Hy.
  - rewrite fixed_suffix_decimal by exact Hn. reflexivity.
Qed.

Lemma ident_like_not_literal name : ident_like name -> ~ In name literal_atoms.
Proof. intros [H _]. exact H. Qed.

Lemma strip_suffix_no_bracket suf name p :
  Forall (fun c => c <> 93) name -> strip_suffix (suf ++ [93]) name = Some p -> False.
Proof.
  intros F H. apply strip_suffix_some in H. subst name.
  rewrite Forall_forall in F. apply (F 93); [|reflexivity].
  apply in_or_app. right. apply in_or_app. right. left. reflexivity.
Qed.

(** a struct name without numeric characters and without [']'] that is not a literal atom *)
Lemma kind_ident name : ident_like name -> struct_name_ok name.
Proof.
  intros [Hl F]. unfold struct_name_ok. rewrite kind_of_string_unfold.
  rewrite kind_body_nonliteral by exact Hl.
  assert (F1 : Forall (fun c => is_numeric c = false) name)
    by (eapply Forall_impl; [|exact F]; intros c [H _]; exact H).
  assert (F2 : Forall (fun c => c <> 93) name)
    by (eapply Forall_impl; [|exact F]; intros c [_ H]; exact H).
  rewrite sized_atom_no_numeric by exact F1.
  destruct (strip_suffix (s2l "[]") name) as [p|] eqn:S1.
  { exfalso. exact (strip_suffix_no_bracket [91] name p F2 S1). }
  destruct (fixed_suffix name) as [[p n]|] eqn:S2; [|reflexivity].
  exfalso. apply fixed_suffix_some in S2 as (ds & -> & _).
  rewrite Forall_forall in F2. apply (F2 93); [|reflexivity].
  apply in_or_app. right. right. apply in_or_app. right. left. reflexivity.
Qed.

(** the 100 atomic types *)
Lemma atom_table_length : length atom_table = 100%nat.
Proof. reflexivity. Qed.

Lemma atom_table_ok_b :
  forallb (fun e => kind_eqb (kind_of_string_fuel 16 (fst e)) (snd e)
                    && list_eqb (display_kind (snd e)) (fst e)
                    && (length (fst e) <? 16)%nat) atom_table = true.
Proof. vm_compute. reflexivity. Qed.

Lemma atom_table_ok s k :
  In (s, k) atom_table -> kind_of_string s = k /\ display_kind k = s.
Proof.
  intros H. pose proof atom_table_ok_b as B. rewrite forallb_forall in B.
  specialize (B _ H). cbn [fst snd] in B.
  apply andb_true_iff in B as [B B3]. apply andb_true_iff in B as [B1 B2].
  apply Nat.ltb_lt in B3. apply kind_eqb_spec in B1. apply list_eqb_spec in B2.
  rewrite kind_fuel_enough in B1 by exact B3. auto.
Qed.

Lemma widths32_in n : 1 <= n <= 32 -> In n widths32.
Proof.
  intros H. unfold widths32. rewrite <- (N2Nat.id n). apply in_map. apply in_seq. lia.
Qed.

Lemma atom_bytes_in n : bytes_width_ok n -> In (s2l "bytes" ++ decimal n, KBytes (Some n)) atom_table.
Proof.
  intros H. unfold atom_table. apply in_or_app. right. apply in_or_app. left.
  apply (in_map (fun n => (s2l "bytes" ++ decimal n, KBytes (Some n)))). apply widths32_in. exact H.
Qed.

Lemma width8 n : int_width_ok n -> n = 8 * (n / 8) /\ 1 <= n / 8 <= 32.
Proof. intros [H1 H2]. lia. Qed.

Lemma atom_uint_in n : int_width_ok n -> In (s2l "uint" ++ decimal n, KUint n) atom_table.
Proof.
  intros H. apply width8 in H as [E H]. rewrite E. unfold atom_table.
  apply in_or_app. right. apply in_or_app. right. apply in_or_app. left.
  apply (in_map (fun n => (s2l "uint" ++ decimal (8 * n), KUint (8 * n)))). apply widths32_in. exact H.
Qed.

Lemma atom_int_in n : int_width_ok n -> In (s2l "int" ++ decimal n, KInt n) atom_table.
Proof.
  intros H. apply width8 in H as [E H]. rewrite E. unfold atom_table.
  apply in_or_app. right. apply in_or_app. right. apply in_or_app. right.
  apply (in_map (fun n => (s2l "int" ++ decimal (8 * n), KInt (8 * n)))). apply widths32_in. exact H.
Qed.

(** every entry of the table parses to the intended kind and is printed back *)
Lemma atoms : Forall (fun e => kind_of_string (fst e) = snd e /\ display_kind (snd e) = fst e) atom_table.
Proof. apply Forall_forall. intros [s k] H. apply atom_table_ok. exact H. Qed.

(** print-then-parse is the identity on well-formed kinds, relative to any class of struct
    names that parse as structs *)
Lemma parse_display_with (P : text -> Prop) :
  (forall name, P name -> struct_name_ok name) ->
  forall k, wf_kind_with P k -> kind_of_string (display_kind k) = k.
Proof.
  intros HP. induction k as [[n|]|n|n| | | |name|inner IH [n|]]; cbn [wf_kind_with display_kind]; intros W.
  - apply (atom_table_ok _ _ (atom_bytes_in n W)).
  - apply (atom_table_ok (s2l "bytes") (KBytes None)). cbn. tauto.
  - apply (atom_table_ok _ _ (atom_uint_in n W)).
  - apply (atom_table_ok _ _ (atom_int_in n W)).
  - apply (atom_table_ok (s2l "bool") KBool). cbn. tauto.
  - apply (atom_table_ok (s2l "address") KAddress). cbn. tauto.
  - apply (atom_table_ok (s2l "string") KString). cbn. tauto.
  - apply HP. exact W.
  - destruct W as [W Hn]. rewrite kind_array_fixed by exact Hn. rewrite IH by exact W. reflexivity.
  - rewrite kind_array_dyn, IH by exact W. reflexivity.
Qed.

Lemma parse_display k : wf_kind k -> kind_of_string (display_kind k) = k.
Proof. apply parse_display_with. exact kind_ident. Qed.

Lemma parse_display_gen k : wf_kind_with struct_name_ok k -> kind_of_string (display_kind k) = k.
Proof. apply parse_display_with. auto. Qed.

(** names made of ASCII letters, ['_'] and ['$'] other than the four literals are [ident_like] *)
Lemma ascii_ident_char_ok_b :
  forallb (fun c => negb (ascii_ident_char c) || (negb (is_numeric c) && negb (c =? 93)))
          (map N.of_nat (seq 0 128)) = true.
Proof. vm_compute. reflexivity. Qed.

Lemma ascii_ident_char_ok c : ascii_ident_char c = true -> is_numeric c = false /\ c <> 93.
Proof.
  intros H. assert (Hc : c < 128).
  { unfold ascii_ident_char, is_upper, is_lower in H. lia. }
  pose proof ascii_ident_char_ok_b as B. rewrite forallb_forall in B.
  specialize (B c). rewrite H in B. cbn [negb orb] in B.
  assert (Hin : In c (map N.of_nat (seq 0 128))).
  { rewrite <- (N2Nat.id c). apply in_map. apply in_seq. lia. }
  specialize (B Hin). apply andb_true_iff in B as [B1 B2].
  apply negb_true_iff in B1, B2. split; [exact B1|]. apply N.eqb_neq. exact B2.
Qed.

Lemma ascii_ident_like name :
  ~ In name literal_atoms -> forallb ascii_ident_char name = true -> ident_like name.
Proof.
  intros Hl H. split; [exact Hl|]. apply Forall_forall. intros c Hc.
  rewrite forallb_forall in H. apply ascii_ident_char_ok. apply H. exact Hc.
Qed.

(* ------------------------------------------------------------------ *)
(** * [struct_reference] *)

Lemma struct_reference_array_dyn t :
  struct_reference (kind_of_string (t ++ s2l "[]")) = struct_reference (kind_of_string t).
Proof. rewrite kind_array_dyn. reflexivity. Qed.
