(** Proofs for property C01: [from_phrase] / [to_phrase] against the BIP-39 specification. *)
From Coq Require Import String.
From Coq Require Import List NArith Lia Bool PeanoNat.
From HDW Require Import Lib.Outcome Lib.Radix Lib.Bytes Model.Wordlist Model.Bip39 Spec.Bip39Spec
  Proofs.WordlistProofs Proofs.Bip39Unpack.
Import ListNotations.
Open Scope N_scope.

Arguments N.add : simpl never.
Arguments N.sub : simpl never.
Arguments N.mul : simpl never.
Arguments N.div : simpl never.
Arguments N.modulo : simpl never.
Arguments N.eqb : simpl never.
Arguments N.ltb : simpl never.
Arguments N.leb : simpl never.
Arguments N.pow : simpl never.
Arguments N.shiftl : simpl never.
Arguments N.shiftr : simpl never.
Arguments N.land : simpl never.
Arguments N.lor : simpl never.
Opaque Bip39.search Bip39.word Wordlist.wordlist.

(* ------------------------------------------------------------------ *)
(** ** splitting and joining *)

Lemma split_go_word w : Forall (fun c => is_whitespace c = false) w ->
  forall r cur, split_go (w ++ r) cur = split_go r (cur ++ w).
Proof.
  induction 1 as [|c w Hc _ IH]; intros r cur.
  - rewrite app_nil_r. reflexivity.
  - cbn [app split_go]. rewrite Hc. rewrite IH. rewrite <- app_assoc. reflexivity.
Qed.

Lemma split_join ws : Forall nonempty_no_ws ws -> split_ws (join [32] ws) = ws.
Proof.
  unfold split_ws. induction 1 as [|w r [Hne Hw] Hr IH]; [reflexivity|].
  destruct r as [|w' r'].
  - cbn [join]. rewrite <- (app_nil_r w) at 1. rewrite split_go_word by exact Hw.
    cbn [app split_go]. destruct w; [congruence|reflexivity].
  - change (join [32] (w :: w' :: r')) with (w ++ [32] ++ join [32] (w' :: r')).
    rewrite split_go_word by exact Hw. cbn [app split_go].
    change (is_whitespace 32) with true. cbv iota. rewrite IH.
    destruct w; [congruence|reflexivity].
Qed.

(* ------------------------------------------------------------------ *)
(** ** generic list / digit facts *)

Lemma omapM_seq_map {B} (f : nat -> outcome B) (g : nat -> B) n : forall s,
  (forall i, (s <= i < s + n)%nat -> f i = Ok (g i)) -> omapM f (seq s n) = Ok (map g (seq s n)).
Proof.
  induction n as [|n IH]; intros s H; [reflexivity|].
  cbn [seq omapM map]. rewrite H by lia. rewrite IH; [reflexivity|]. intros i Hi. apply H. lia.
Qed.

Lemma to_digits_fixed_seq b k : b <> 0 -> forall v,
  to_digits_fixed b k v = map (fun i => (v / b ^ N.of_nat (k - 1 - i)) mod b) (seq 0 k).
Proof.
  intros Hb. induction k as [|k IH]; intros v; [reflexivity|].
  cbn [to_digits_fixed]. rewrite seq_S, map_app. cbn [map plus]. f_equal.
  - rewrite IH. apply map_ext_in. intros i Hi. apply in_seq in Hi.
    rewrite N.div_div by (try apply N.pow_nonzero; assumption).
    rewrite <- N.pow_succ_r'. do 3 f_equal. lia.
  - replace (S k - 1 - k)%nat with 0%nat by lia. change (N.of_nat 0) with 0.
    rewrite N.pow_0_r, N.div_1_r. reflexivity.
Qed.

Lemma pow256 k : 256 ^ k = 2 ^ (8 * k).
Proof. change 256 with (2 ^ 8). rewrite <- N.pow_mul_r. reflexivity. Qed.

Lemma pow2048 k : 2048 ^ k = 2 ^ (11 * k).
Proof. change 2048 with (2 ^ 11). rewrite <- N.pow_mul_r. reflexivity. Qed.

(** the value of a slice in the middle of a big-endian string *)
Lemma be_val_mid a w c : bytes_ok w -> bytes_ok c ->
  (be_val (a ++ w ++ c) / 256 ^ N.of_nat (length c)) mod 256 ^ N.of_nat (length w) = be_val w.
Proof.
  intros Hw Hc. unfold be_val. rewrite !of_digits_app.
  pose proof (of_digits_bound 256 w Hw) as Bw. pose proof (of_digits_bound 256 c Hc) as Bc.
  set (C := 256 ^ N.of_nat (length c)) in *. set (W := 256 ^ N.of_nat (length w)) in *.
  assert (HC : C <> 0) by (apply N.pow_nonzero; discriminate).
  assert (HW : W <> 0) by (apply N.pow_nonzero; discriminate).
  rewrite app_length, Nat2N.inj_add, N.pow_add_r. fold C W.
  replace (of_digits 256 a * (W * C) + (of_digits 256 w * C + of_digits 256 c))
    with ((of_digits 256 a * W + of_digits 256 w) * C + of_digits 256 c) by lia.
  rewrite N.div_add_l by exact HC. rewrite N.div_small by exact Bc. rewrite N.add_0_r.
  rewrite N.add_comm, N.mod_add by exact HW. apply N.mod_small. exact Bw.
Qed.

Lemma be_val_window buf o : bytes_ok buf -> (o + 8 <= length buf)%nat ->
  be_val (firstn 8 (skipn o buf)) =
  (be_val buf / 2 ^ (8 * N.of_nat (length buf - o - 8))) mod 2 ^ 64.
Proof.
  intros Hok Hlen.
  set (w := firstn 8 (skipn o buf)). set (c := skipn 8 (skipn o buf)).
  assert (E : buf = firstn o buf ++ w ++ c).
  { unfold w, c. rewrite firstn_skipn, firstn_skipn. reflexivity. }
  assert (Lw : length w = 8%nat).
  { unfold w. rewrite firstn_length, skipn_length. lia. }
  assert (Lc : length c = (length buf - o - 8)%nat).
  { unfold c. rewrite !skipn_length. lia. }
  assert (Hwc : bytes_ok w /\ bytes_ok c).
  { rewrite E in Hok. apply bytes_ok_app in Hok as [_ Hok]. apply bytes_ok_app in Hok. exact Hok. }
  destruct Hwc as [Hw Hc].
  rewrite <- Lc. rewrite <- pow256.
  change (2 ^ 64) with (256 ^ N.of_nat 8). rewrite <- Lw.
  clearbody w c. rewrite E.
  symmetry. apply be_val_mid; assumption.
Qed.

(* ------------------------------------------------------------------ *)
(** ** the table of sizes *)

(** (MS words, ENT/8 bytes, CS bits) *)
Definition tbl (n len : nat) (cs : N) : Prop :=
  (n = 12%nat /\ len = 16%nat /\ cs = 4) \/ (n = 15%nat /\ len = 20%nat /\ cs = 5) \/
  (n = 18%nat /\ len = 24%nat /\ cs = 6) \/ (n = 21%nat /\ len = 28%nat /\ cs = 7) \/
  (n = 24%nat /\ len = 32%nat /\ cs = 8).

Ltac tbl_cases H :=
  destruct H as [(->&->&->)|[(->&->&->)|[(->&->&->)|[(->&->&->)|(->&->&->)]]]].

Lemma tbl_facts n len cs : tbl n len cs ->
  8 * N.of_nat len + cs = 11 * N.of_nat n /\ 1 <= cs <= 8 /\ (len <= 32)%nat /\ (1 <= n <= 24)%nat
  /\ valid_ent_len len /\ valid_word_count n
  /\ cs_bits len = cs /\ ms_words len = n
  /\ N.of_nat n / 3 = cs /\ N.to_nat (N.of_nat n * 11 * 32 / 33 / 8) = len
  /\ ((len * 8) / 11 + 1)%nat = n.
Proof.
  unfold valid_ent_len, valid_word_count.
  intros H. tbl_cases H; vm_compute; repeat split; try discriminate; try tauto;
    repeat constructor.
Qed.

Lemma byte_len_valid n : valid_word_count n -> exists len cs, byte_len n = Ok len /\ tbl n len cs.
Proof.
  unfold tbl.
  intros [-> | [-> | [-> | [-> | ->]]]]; eexists; eexists; (split; [vm_compute; reflexivity|]); tauto.
Qed.

Lemma byte_len_invalid n : ~ valid_word_count n -> byte_len n = Err.
Proof.
  intros H. unfold byte_len.
  destruct (N.eqb_spec (N.of_nat n) 12); [exfalso; apply H; left; lia|].
  destruct (N.eqb_spec (N.of_nat n) 15); [exfalso; apply H; right; left; lia|].
  destruct (N.eqb_spec (N.of_nat n) 18); [exfalso; apply H; right; right; left; lia|].
  destruct (N.eqb_spec (N.of_nat n) 21); [exfalso; apply H; right; right; right; left; lia|].
  destruct (N.eqb_spec (N.of_nat n) 24); [exfalso; apply H; right; right; right; right; lia|].
  reflexivity.
Qed.

Lemma valid_word_count_dec n : valid_word_count n \/ ~ valid_word_count n.
Proof. unfold valid_word_count. lia. Qed.

Lemma valid_ent_tbl len : valid_ent_len len -> exists n cs, tbl n len cs.
Proof.
  unfold tbl.
  intros [-> | [-> | [-> | [-> | ->]]]];
    [exists 12%nat, 4|exists 15%nat, 5|exists 18%nat, 6|exists 21%nat, 7|exists 24%nat, 8]; tauto.
Qed.

(* ------------------------------------------------------------------ *)
Section WithSha256.
Variable sha256 : bytes -> bytes.
Hypothesis sha256_length : forall x, length (sha256 x) = 32%nat.
Hypothesis sha256_ok : forall x, bytes_ok (sha256 x).

Notation h0 ent := (nth 0 (sha256 ent) 0).

Lemma sha256_cons x : exists h r, sha256 x = h :: r /\ h < 256 /\ length r = 31%nat /\ bytes_ok r.
Proof.
  pose proof (sha256_length x) as L. pose proof (sha256_ok x) as O.
  destruct (sha256 x) as [|h r]; [discriminate|]. inversion O; subst.
  exists h, r. cbn [length] in L. repeat split; auto; lia.
Qed.

Lemma h0_lt x : h0 x < 256.
Proof. destruct (sha256_cons x) as (h & r & -> & Hh & _). exact Hh. Qed.

Lemma checksum_lt x cs : cs <= 8 -> h0 x / 2 ^ (8 - cs) < 2 ^ cs.
Proof.
  intros Hcs. apply N.div_lt_upper_bound; [apply pow2_nz|].
  rewrite <- N.pow_add_r. replace (8 - cs + cs) with 8 by lia. apply h0_lt.
Qed.

(** ** the specification side: entropy -> indices *)
Lemma spec_side n len cs ent : tbl n len cs -> bytes_ok ent -> length ent = len ->
  bip39_value sha256 ent = be_val ent * 2 ^ cs + h0 ent / 2 ^ (8 - cs)
  /\ bip39_value sha256 ent / 2 ^ cs = be_val ent
  /\ bip39_value sha256 ent mod 2 ^ cs = h0 ent / 2 ^ (8 - cs)
  /\ length (bip39_indices sha256 ent) = n
  /\ digits_ok 2048 (bip39_indices sha256 ent)
  /\ of_digits 2048 (bip39_indices sha256 ent) = bip39_value sha256 ent
  /\ leading_entropy (bip39_indices sha256 ent) = ent.
Proof.
  intros Ht Hok Hlen.
  destruct (tbl_facts n len cs Ht) as (F1 & F2 & F3 & F4 & F5 & F6 & F7 & F8 & F9 & F10 & F11).
  assert (EV : bip39_value sha256 ent = be_val ent * 2 ^ cs + h0 ent / 2 ^ (8 - cs)).
  { unfold bip39_value. rewrite Hlen, F7. reflexivity. }
  pose proof (checksum_lt ent cs (proj2 F2)) as Hc.
  assert (Hdiv : bip39_value sha256 ent / 2 ^ cs = be_val ent).
  { rewrite EV. rewrite N.div_add_l by apply pow2_nz. rewrite N.div_small by exact Hc. lia. }
  assert (Hmod : bip39_value sha256 ent mod 2 ^ cs = h0 ent / 2 ^ (8 - cs)).
  { rewrite EV. rewrite N.add_comm, N.mod_add by apply pow2_nz. apply N.mod_small. exact Hc. }
  assert (Hlt : bip39_value sha256 ent < 2048 ^ N.of_nat n).
  { rewrite EV. rewrite pow2048, <- F1, N.pow_add_r.
    pose proof (be_val_bound ent Hok) as Hb. rewrite Hlen, pow256 in Hb.
    assert (Hle : (be_val ent + 1) * 2 ^ cs <= 2 ^ (8 * N.of_nat len) * 2 ^ cs)
      by (apply N.mul_le_mono_r; lia).
    revert Hc Hle. generalize (h0 ent / 2 ^ (8 - cs)) (be_val ent) (2 ^ cs) (2 ^ (8 * N.of_nat len)).
    clear. intros c A P Q Hc Hle. lia. }
  assert (Hil : length (bip39_indices sha256 ent) = n).
  { unfold bip39_indices. rewrite to_digits_fixed_length, Hlen. exact F8. }
  assert (Hiv : of_digits 2048 (bip39_indices sha256 ent) = bip39_value sha256 ent).
  { unfold bip39_indices. rewrite Hlen, F8. apply of_to_digits_fixed_small; [lia|exact Hlt]. }
  repeat split; try assumption.
  - unfold bip39_indices. apply to_digits_fixed_ok. lia.
  - unfold leading_entropy. rewrite Hiv, Hil, F9, F10, Hdiv, <- Hlen. apply be_fixed_val. exact Hok.
Qed.

(** ** the code side: indices -> leading entropy bytes and checksum test *)
Lemma code_side n len cs l : tbl n len cs -> digits_ok 2048 l -> length l = n ->
  leading_entropy l = be_fixed len (of_digits 2048 l / 2 ^ cs)
  /\ bytes_ok (leading_entropy l) /\ length (leading_entropy l) = len
  /\ be_val (leading_entropy l) = of_digits 2048 l / 2 ^ cs
  /\ (h0 (leading_entropy l) / 2 ^ (8 - cs) = of_digits 2048 l mod 2 ^ cs
      <-> bip39_indices sha256 (leading_entropy l) = l).
Proof.
  intros Ht Hd Hlen.
  destruct (tbl_facts n len cs Ht) as (F1 & F2 & F3 & F4 & F5 & F6 & F7 & F8 & F9 & F10 & F11).
  assert (E : leading_entropy l = be_fixed len (of_digits 2048 l / 2 ^ cs)).
  { unfold leading_entropy. rewrite Hlen, F9, F10. reflexivity. }
  set (X := of_digits 2048 l) in *.
  assert (HX : X < 2048 ^ N.of_nat n) by (rewrite <- Hlen; apply of_digits_bound; exact Hd).
  assert (Hq : X / 2 ^ cs < 256 ^ N.of_nat len).
  { apply N.div_lt_upper_bound; [apply pow2_nz|]. rewrite pow256, <- N.pow_add_r.
    rewrite pow2048 in HX. replace (cs + 8 * N.of_nat len) with (11 * N.of_nat n) by lia. exact HX. }
  assert (Hok : bytes_ok (leading_entropy l)) by (rewrite E; apply be_fixed_ok).
  assert (Hl : length (leading_entropy l) = len) by (rewrite E; apply be_fixed_length).
  assert (Hv : be_val (leading_entropy l) = X / 2 ^ cs) by (rewrite E; apply be_val_fixed; exact Hq).
  repeat split; try assumption.
  - intros Hc.
    destruct (spec_side n len cs (leading_entropy l) Ht Hok Hl) as (EV & _).
    unfold bip39_indices. rewrite Hl, F8, EV, Hv, Hc.
    replace (X / 2 ^ cs * 2 ^ cs + X mod 2 ^ cs) with X
      by (rewrite (N.mul_comm (X / 2 ^ cs)); apply N.div_mod, pow2_nz).
    unfold X. rewrite <- Hlen. apply to_of_digits_fixed; [lia|exact Hd].
  - intros Hi.
    destruct (spec_side n len cs (leading_entropy l) Ht Hok Hl) as (_ & _ & Hm & _ & _ & Hiv & _).
    rewrite <- Hm, <- Hiv, Hi. reflexivity.
Qed.

(** ** [from_words] with the table's length *)
Lemma from_words_known n len cs ws l : tbl n len cs -> length ws = n -> lookup_all ws = Some l ->
  from_words sha256 len ws =
    if h0 (leading_entropy l) / 2 ^ (8 - cs) =? of_digits 2048 l mod 2 ^ cs
    then Ok (mk_mnemonic sha256 (leading_entropy l)) else Err.
Proof.
  intros Ht Hn Hl.
  destruct (tbl_facts n len cs Ht) as (F1 & F2 & F3 & F4 & F5 & F6 & F7 & F8 & F9 & F10 & F11).
  pose proof (lookup_all_ok ws l Hl) as [Hd _].
  pose proof (lookup_all_length ws l Hl) as Hll.
  destruct (code_side n len cs l Ht Hd (eq_trans Hll Hn)) as (E & Hok & Hlen & Hv & _).
  unfold from_words.
  destruct (Nat.ltb_spec 64 len) as [|_]; [lia|].
  pose proof (unpack_loop_top len ws) as HU. rewrite Hl in HU.
  destruct HU as ([[acc bo] out] & EU & Hbo & Hbo1 & Hacc & Hval & Hout & Hcount); [rewrite Hn; lia|].
  rewrite EU. cbn [bind].
  rewrite Hn in Hcount, Hbo1.
  assert (Hbo' : bo = cs) by lia.
  assert (Hlo : length out = len) by lia.
  subst bo.
  assert (Eout : out = leading_entropy l).
  { rewrite E, <- Hval, <- Hlo. symmetry. apply be_fixed_val. exact Hout. }
  rewrite Hn.
  replace (N.of_nat len * 8 + cs =? N.of_nat n * 11) with true by (symmetry; apply N.eqb_eq; lia).
  cbn [negb]. rewrite Hlo, Nat.eqb_refl. cbn [negb].
  destruct (Nat.ltb_spec 32 len) as [|_]; [lia|].
  destruct (N.ltb_spec 8 cs) as [|_]; [lia|].
  destruct (N.eqb_spec cs 0) as [|_]; [lia|]. cbn [orb].
  rewrite N.shiftr_div_pow2.
  assert (Em : (N.land acc (N.shiftl 1 cs - 1)) mod 256 = of_digits 2048 l mod 2 ^ cs).
  { rewrite N.shiftl_1_l. rewrite <- N.pred_sub, <- N.ones_equiv, N.land_ones.
    rewrite Hacc, mod_pow2_mod by lia. apply N.mod_small.
    pose proof (N.mod_lt (of_digits 2048 l) (2 ^ cs) (pow2_nz cs)).
    assert (2 ^ cs <= 2 ^ 8) by (apply N.pow_le_mono_r; lia). change (2 ^ 8) with 256 in *. lia. }
  rewrite Em, <- Eout.
  unfold mk_mnemonic. rewrite Hlo. reflexivity.
Qed.

(** ** [from_phrase]: the complete case analysis *)
Lemma from_phrase_invalid_count t : ~ valid_word_count (length (split_ws t)) -> from_phrase sha256 t = Err.
Proof. intros H. unfold from_phrase. rewrite byte_len_invalid by exact H. reflexivity. Qed.

Lemma from_phrase_unknown t : valid_word_count (length (split_ws t)) ->
  lookup_all (split_ws t) = None -> from_phrase sha256 t = Err.
Proof.
  intros Hv Hl. unfold from_phrase.
  destruct (byte_len_valid _ Hv) as (len & cs & E & Ht). rewrite E. cbn [bind].
  destruct (tbl_facts _ len cs Ht) as (F1 & F2 & F3 & _).
  unfold from_words. destruct (Nat.ltb_spec 64 len) as [|_]; [lia|].
  pose proof (unpack_loop_top len (split_ws t)) as HU. rewrite Hl in HU.
  rewrite HU by lia. reflexivity.
Qed.

Lemma from_phrase_known t l : valid_word_count (length (split_ws t)) ->
  lookup_all (split_ws t) = Some l ->
  (bip39_indices sha256 (leading_entropy l) = l
     /\ from_phrase sha256 t = Ok (mk_mnemonic sha256 (leading_entropy l)))
  \/ (bip39_indices sha256 (leading_entropy l) <> l /\ from_phrase sha256 t = Err).
Proof.
  intros Hv Hl. unfold from_phrase.
  destruct (byte_len_valid _ Hv) as (len & cs & E & Ht). rewrite E. cbn [bind].
  rewrite (from_words_known _ len cs _ l Ht eq_refl Hl).
  pose proof (lookup_all_ok _ l Hl) as [Hd _].
  pose proof (lookup_all_length _ l Hl) as Hll.
  destruct (code_side _ len cs l Ht Hd Hll) as (_ & _ & _ & _ & Hiff).
  destruct (N.eqb_spec (h0 (leading_entropy l) / 2 ^ (8 - cs)) (of_digits 2048 l mod 2 ^ cs)) as [Hc|Hc].
  - left. split; [apply Hiff; exact Hc|reflexivity].
  - right. split; [|reflexivity]. intros Hi. apply Hc. apply Hiff. exact Hi.
Qed.

(* ------------------------------------------------------------------ *)
(** ** [to_phrase]: the 64-byte buffer read 11 bits at a time *)

Lemma mk_buf_value n len cs ent : tbl n len cs -> bytes_ok ent -> length ent = len ->
  length (m_buf (mk_mnemonic sha256 ent)) = 64%nat
  /\ bytes_ok (m_buf (mk_mnemonic sha256 ent))
  /\ be_val (m_buf (mk_mnemonic sha256 ent)) / 2 ^ (512 - 11 * N.of_nat n) = bip39_value sha256 ent.
Proof.
  intros Ht Hok Hlen.
  destruct (tbl_facts n len cs Ht) as (F1 & F2 & F3 & F4 & F5 & F6 & F7 & F8 & F9 & F10 & F11).
  destruct (spec_side n len cs ent Ht Hok Hlen) as (EV & _).
  unfold mk_mnemonic. cbn [m_buf]. rewrite Hlen.
  pose proof (h0_lt ent) as Hh.
  destruct (sha256_cons ent) as (h & r & Es & _ & Lr & Or).
  rewrite EV. rewrite Es in *. cbn [nth] in *. clear Es EV.
  set (pad := repeat 0 (64 - len - 32)).
  assert (Lp : length pad = (32 - len)%nat) by (unfold pad; rewrite repeat_length; lia).
  assert (Op : bytes_ok pad).
  { unfold pad. apply Forall_forall. intros x Hx. apply repeat_spec in Hx. subst. lia. }
  change ((h :: r) ++ pad) with (h :: (r ++ pad)).
  set (rest := r ++ pad).
  assert (Lrest : length rest = (63 - len)%nat) by (unfold rest; rewrite app_length; lia).
  assert (Orest : bytes_ok rest) by (apply bytes_ok_app; split; assumption).
  split; [rewrite app_length; cbn [length]; lia|].
  split; [apply bytes_ok_app; split; [exact Hok|constructor; assumption]|].
  unfold be_val. rewrite of_digits_app, of_digits_cons. cbn [length].
  rewrite Nat2N.inj_succ, N.pow_succ_r'.
  pose proof (of_digits_bound 256 rest Orest) as Br.
  fold (be_val ent). fold (be_val rest) in *.
  set (R := 256 ^ N.of_nat (length rest)) in *.
  assert (HR : R <> 0) by (apply N.pow_nonzero; discriminate).
  replace (512 - 11 * N.of_nat n) with (8 * N.of_nat (length rest) + (8 - cs)) by lia.
  rewrite <- div_pow2_pow2, <- pow256. fold R.
  replace (be_val ent * (256 * R) + (h * R + be_val rest))
    with ((be_val ent * 256 + h) * R + be_val rest) by lia.
  rewrite N.div_add_l by exact HR. rewrite (N.div_small (be_val rest) R) by exact Br.
  rewrite N.add_0_r.
  replace 256 with (2 ^ cs * 2 ^ (8 - cs))
    by (rewrite <- N.pow_add_r; replace (cs + (8 - cs)) with 8 by lia; reflexivity).
  rewrite N.mul_assoc. rewrite N.div_add_l by apply pow2_nz. reflexivity.
Qed.

Lemma word_index_ok n len cs ent i : tbl n len cs -> bytes_ok ent -> length ent = len -> (i < n)%nat ->
  word_index_at (mk_mnemonic sha256 ent) i
  = Ok ((bip39_value sha256 ent / 2048 ^ N.of_nat (n - 1 - i)) mod 2048).
Proof.
  intros Ht Hok Hlen Hi.
  destruct (tbl_facts n len cs Ht) as (F1 & F2 & F3 & F4 & _).
  destruct (mk_buf_value n len cs ent Ht Hok Hlen) as (Lb & Ob & Vb).
  unfold word_index_at.
  set (buf := m_buf (mk_mnemonic sha256 ent)) in *.
  set (o := N.of_nat i * 11 / 8). set (r := (N.of_nat i * 11) mod 8).
  assert (Hor : N.of_nat i * 11 = 8 * o + r) by (apply N.div_mod; discriminate).
  assert (Hr : r < 8) by (apply N.mod_lt; discriminate).
  destruct (N.ltb_spec 64 (o + 8)) as [|_]; [lia|].
  f_equal.
  rewrite be_val_window by (try assumption; lia).
  change 2047 with (N.ones 11). rewrite shiftr_land_ones.
  rewrite extract_mod by lia. rewrite div_pow2_pow2.
  rewrite <- Vb. rewrite pow2048, div_pow2_pow2. change 2048 with (2 ^ 11).
  do 3 f_equal. rewrite Lb. lia.
Qed.

Lemma to_phrase_ok ent : bytes_ok ent -> valid_ent_len (length ent) ->
  to_phrase (mk_mnemonic sha256 ent) = Ok (bip39_phrase sha256 ent)
  /\ mnemonic_length (mk_mnemonic sha256 ent) = length (bip39_indices sha256 ent).
Proof.
  intros Hok Hv. destruct (valid_ent_tbl _ Hv) as (n & cs & Ht).
  destruct (tbl_facts n _ cs Ht) as (F1 & F2 & F3 & F4 & F5 & F6 & F7 & F8 & F9 & F10 & F11).
  destruct (spec_side n _ cs ent Ht Hok eq_refl) as (_ & _ & _ & Hil & _).
  assert (Hml : mnemonic_length (mk_mnemonic sha256 ent) = n).
  { unfold mnemonic_length, mk_mnemonic. cbn [m_len]. exact F11. }
  split; [|rewrite Hml, Hil; reflexivity].
  unfold to_phrase. rewrite Hml.
  rewrite (omapM_seq_map (word_at (mk_mnemonic sha256 ent))
             (fun i => word ((bip39_value sha256 ent / 2048 ^ N.of_nat (n - 1 - i)) mod 2048))).
  2:{ intros i Hi. unfold word_at. rewrite (word_index_ok n _ cs ent i Ht Hok eq_refl) by lia.
      reflexivity. }
  cbn [bind]. unfold bip39_phrase, bip39_indices. rewrite F8.
  rewrite to_digits_fixed_seq by discriminate. rewrite map_map. reflexivity.
Qed.

(* ------------------------------------------------------------------ *)
(** ** the property *)

(** what an accepted phrase is, and what is stored for it *)
Lemma parse_value t m : from_phrase sha256 t = Ok m ->
  exists ent, bytes_ok ent /\ valid_ent_len (length ent)
    /\ split_ws t = map word (bip39_indices sha256 ent) /\ m = mk_mnemonic sha256 ent.
Proof.
  intros H.
  destruct (valid_word_count_dec (length (split_ws t))) as [Hv|Hv].
  2:{ rewrite from_phrase_invalid_count in H by exact Hv. discriminate. }
  destruct (lookup_all (split_ws t)) as [l|] eqn:El.
  2:{ rewrite from_phrase_unknown in H by assumption. discriminate. }
  destruct (from_phrase_known t l Hv El) as [[Hi E]|[_ E]]; [|rewrite E in H; discriminate].
  rewrite E in H. inversion H; subst m. clear H.
  destruct (byte_len_valid _ Hv) as (len & cs & _ & Ht).
  destruct (tbl_facts _ len cs Ht) as (_ & _ & _ & _ & F5 & _).
  pose proof (lookup_all_ok _ l El) as [Hd Hw].
  pose proof (lookup_all_length _ l El) as Hll.
  destruct (code_side _ len cs l Ht Hd Hll) as (_ & Hok & Hlen & _).
  exists (leading_entropy l). rewrite Hlen, Hi. repeat split; auto.
Qed.

Lemma accept_complete t ent : bytes_ok ent -> valid_ent_len (length ent) ->
  split_ws t = map word (bip39_indices sha256 ent) -> from_phrase sha256 t = Ok (mk_mnemonic sha256 ent).
Proof.
  intros Hok Hv Hs. destruct (valid_ent_tbl _ Hv) as (n & cs & Ht).
  destruct (tbl_facts n _ cs Ht) as (_ & _ & _ & _ & _ & F6 & _).
  destruct (spec_side n _ cs ent Ht Hok eq_refl) as (_ & _ & _ & Hil & Hd & _ & Hle).
  assert (El : lookup_all (split_ws t) = Some (bip39_indices sha256 ent))
    by (rewrite Hs; apply lookup_all_words; exact Hd).
  assert (Hc : valid_word_count (length (split_ws t)))
    by (rewrite Hs, map_length, Hil; exact F6).
  destruct (from_phrase_known t _ Hc El) as [[_ E]|[Hne _]].
  - rewrite E, Hle. reflexivity.
  - exfalso. apply Hne. rewrite Hle. reflexivity.
Qed.

Lemma accept_iff t :
  (exists m, from_phrase sha256 t = Ok m) <->
  (exists ent, bytes_ok ent /\ valid_ent_len (length ent)
     /\ split_ws t = map word (bip39_indices sha256 ent)).
Proof.
  split.
  - intros [m H]. destruct (parse_value t m H) as (ent & H1 & H2 & H3 & _). eauto.
  - intros (ent & H1 & H2 & H3). eexists. apply accept_complete; eassumption.
Qed.

Lemma reject_count t : ~ valid_word_count (length (split_ws t)) -> from_phrase sha256 t = Err.
Proof. exact (from_phrase_invalid_count t). Qed.

Lemma reject_unknown_word t :
  (exists w, In w (split_ws t) /\ search w = None) -> valid_word_count (length (split_ws t)) ->
  from_phrase sha256 t = Err.
Proof.
  intros Hw Hv. apply from_phrase_unknown; [exact Hv|]. apply lookup_all_none. exact Hw.
Qed.

Lemma reject_checksum t l :
  Forall2 (fun w i => search w = Some i) (split_ws t) l -> valid_word_count (length (split_ws t)) ->
  bip39_indices sha256 (leading_entropy l) <> l -> from_phrase sha256 t = Err.
Proof.
  intros Hl Hv Hne. apply lookup_all_forall2 in Hl.
  destruct (from_phrase_known t l Hv Hl) as [[Hi _]|[_ E]]; [contradiction|exact E].
Qed.

Lemma total t : graceful (from_phrase sha256 t).
Proof.
  destruct (valid_word_count_dec (length (split_ws t))) as [Hv|Hv].
  2:{ rewrite from_phrase_invalid_count by exact Hv. apply graceful_err. }
  destruct (lookup_all (split_ws t)) as [l|] eqn:El.
  2:{ rewrite from_phrase_unknown by assumption. apply graceful_err. }
  destruct (from_phrase_known t l Hv El) as [[_ E]|[_ E]]; rewrite E;
    [apply graceful_ok|apply graceful_err].
Qed.

(** everything that is not a BIP-39 phrase is an ordinary error *)
Lemma reject_all t :
  ~ (exists ent, bytes_ok ent /\ valid_ent_len (length ent)
       /\ split_ws t = map word (bip39_indices sha256 ent)) ->
  from_phrase sha256 t = Err.
Proof.
  intros Hn. pose proof (total t) as [H1 H2].
  destruct (from_phrase sha256 t) as [m| | |] eqn:E; try congruence.
  exfalso. apply Hn. apply accept_iff. eauto.
Qed.

Lemma total_print ent : bytes_ok ent -> valid_ent_len (length ent) ->
  graceful (to_phrase (mk_mnemonic sha256 ent)).
Proof. intros Hok Hv. destruct (to_phrase_ok ent Hok Hv) as [E _]. rewrite E. apply graceful_ok. Qed.

Lemma indices_words_ok ent : bytes_ok ent -> valid_ent_len (length ent) ->
  Forall nonempty_no_ws (map word (bip39_indices sha256 ent)).
Proof.
  intros Hok Hv. destruct (valid_ent_tbl _ Hv) as (n & cs & Ht).
  destruct (spec_side n _ cs ent Ht Hok eq_refl) as (_ & _ & _ & _ & Hd & _).
  apply Forall_map. eapply Forall_impl; [|exact Hd]. intros i Hi. apply word_nonempty_no_ws. exact Hi.
Qed.

Lemma roundtrip ent : bytes_ok ent -> valid_ent_len (length ent) ->
  from_phrase sha256 (bip39_phrase sha256 ent) = Ok (mk_mnemonic sha256 ent).
Proof.
  intros Hok Hv. apply accept_complete; try assumption.
  unfold bip39_phrase. apply split_join. apply indices_words_ok; assumption.
Qed.

Lemma canonical t m : from_phrase sha256 t = Ok m -> to_phrase m = Ok (join [32] (split_ws t)).
Proof.
  intros H. destruct (parse_value t m H) as (ent & Hok & Hv & Hs & ->).
  destruct (to_phrase_ok ent Hok Hv) as [E _]. rewrite E, Hs. reflexivity.
Qed.

(** the reported length of an accepted phrase is its word count *)
Lemma parsed_length t m : from_phrase sha256 t = Ok m -> mnemonic_length m = length (split_ws t).
Proof.
  intros H. destruct (parse_value t m H) as (ent & Hok & Hv & Hs & ->).
  destruct (to_phrase_ok ent Hok Hv) as [_ E]. rewrite E, Hs, map_length. reflexivity.
Qed.

End WithSha256.
