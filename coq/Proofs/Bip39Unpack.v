(** The 11-bit unpacking loop of [from_phrase_str] computes the base-256 digits of the phrase
    read as a base-2048 number (DESIGN.md Appendix A.1).

    The word indices [l] are the integer [X = of_digits 2048 l]; the loop invariant is
    [bo <= 8 /\ acc = X mod 2^64 /\ be_val out = X / 2^bo]. *)
From Coq Require Import String.
From Coq Require Import List NArith Lia Bool PeanoNat.
From HDW Require Import Lib.Outcome Lib.Radix Lib.Bytes Model.Wordlist Model.Bip39 Spec.Bip39Spec
  Proofs.WordlistProofs.
Import ListNotations.
Open Scope N_scope.

Arguments N.add : simpl never.
Arguments N.sub : simpl never.
Arguments N.mul : simpl never.
Arguments N.div : simpl never.
Arguments N.modulo : simpl never.
Arguments N.eqb : simpl never.
Arguments N.ltb : simpl never.
Arguments N.leb : simpl never.
Arguments N.pow : simpl never.
Arguments N.shiftl : simpl never.
Arguments N.shiftr : simpl never.
Arguments N.land : simpl never.
Arguments N.lor : simpl never.
Opaque Bip39.search Bip39.word Wordlist.wordlist.

(* ---------------- powers of two ---------------- *)

Lemma pow2_nz k : 2 ^ k <> 0.
Proof. apply N.pow_nonzero. discriminate. Qed.

Lemma pow2_pos k : 0 < 2 ^ k.
Proof. pose proof (pow2_nz k). lia. Qed.

Lemma pow2_split a b : b <= a -> 2 ^ a = 2 ^ b * 2 ^ (a - b).
Proof. intros H. rewrite <- N.pow_add_r. f_equal. lia. Qed.

Lemma div_pow2_pow2 x a b : x / 2 ^ a / 2 ^ b = x / 2 ^ (a + b).
Proof. rewrite N.div_div by apply pow2_nz. rewrite N.pow_add_r. reflexivity. Qed.

(** [(x mod 2^a) / 2^b = (x / 2^b) mod 2^(a-b)] *)
Lemma mod_pow2_div x a b : b <= a -> (x mod 2 ^ a) / 2 ^ b = (x / 2 ^ b) mod 2 ^ (a - b).
Proof.
  intros H. rewrite (pow2_split a b H).
  rewrite N.mod_mul_r by apply pow2_nz.
  rewrite N.mul_comm, N.div_add by apply pow2_nz.
  rewrite N.div_small by (apply N.mod_lt, pow2_nz). reflexivity.
Qed.

(** [(x mod 2^a) mod 2^b = x mod 2^b] *)
Lemma mod_pow2_mod x a b : b <= a -> (x mod 2 ^ a) mod 2 ^ b = x mod 2 ^ b.
Proof.
  intros H. rewrite (pow2_split a b H).
  rewrite N.mod_mul_r by apply pow2_nz.
  rewrite N.mul_comm, N.mod_add by apply pow2_nz.
  apply N.mod_mod, pow2_nz.
Qed.

(** a [w]-bit field at bit [s] of a value only known modulo [2^a], when the field fits *)
Lemma extract_mod x a s w : s + w <= a -> ((x mod 2 ^ a) / 2 ^ s) mod 2 ^ w = (x / 2 ^ s) mod 2 ^ w.
Proof.
  intros H. rewrite mod_pow2_div by lia. apply mod_pow2_mod. lia.
Qed.

Lemma shiftr_land_ones x s w : N.land (N.shiftr x s) (N.ones w) = (x / 2 ^ s) mod 2 ^ w.
Proof. rewrite N.land_ones, N.shiftr_div_pow2. reflexivity. Qed.

(** [(a << 11) | i = a * 2048 + i] for an 11-bit [i] *)
Lemma lor_shiftl_add a i : i < 2048 -> N.lor (N.shiftl a 11) i = a * 2048 + i.
Proof.
  intros Hi. rewrite N.shiftl_mul_pow2. change (2 ^ 11) with 2048.
  assert (Hl : N.land (a * 2048) i = 0).
  { apply N.bits_inj. intros n. rewrite N.land_spec, N.bits_0.
    destruct (N.lt_ge_cases n 11) as [Hn|Hn].
    - change 2048 with (2 ^ 11). rewrite N.mul_pow2_bits_low by exact Hn. reflexivity.
    - replace i with (i mod 2 ^ 11) by (apply N.mod_small; exact Hi).
      rewrite N.mod_pow2_bits_high by exact Hn. apply andb_false_r. }
  rewrite <- N.lxor_lor by exact Hl. symmetry. apply N.add_nocarry_lxor. exact Hl.
Qed.

Lemma step_acc x acc i : acc = x mod 2 ^ 64 -> i < 2048 ->
  (N.lor (N.shiftl acc 11) i) mod 2 ^ 64 = (x * 2048 + i) mod 2 ^ 64.
Proof.
  intros -> Hi. rewrite lor_shiftl_add by exact Hi.
  rewrite N.add_mod by apply pow2_nz. rewrite N.mul_mod_idemp_l by apply pow2_nz.
  rewrite <- N.add_mod by apply pow2_nz. reflexivity.
Qed.

(** one more byte of the quotient *)
Lemma div_pow2_byte x bo : 8 <= bo -> (x / 2 ^ bo) * 256 + (x / 2 ^ (bo - 8)) mod 256 = x / 2 ^ (bo - 8).
Proof.
  intros H. replace bo with ((bo - 8) + 8) at 1 by lia.
  rewrite <- div_pow2_pow2. change (2 ^ 8) with 256.
  pose proof (N.div_mod (x / 2 ^ (bo - 8)) 256). lia.
Qed.

(* ---------------- the loop ---------------- *)

(** [Inv x k (acc, bo, out)]: after [k] words whose indices make the number [x] *)
Definition Inv (x : N) (k : nat) (st : ustate) : Prop :=
  let '(acc, bo, out) := st in
  bo <= 8 /\ (k <> 0%nat -> 1 <= bo) /\ acc = x mod 2 ^ 64 /\ be_val out = x / 2 ^ bo /\ bytes_ok out
  /\ 8 * N.of_nat (length out) + bo = 11 * N.of_nat k.

Lemma be_val_snoc out b : be_val (out ++ [b]) = be_val out * 256 + b.
Proof. apply of_digits_snoc. Qed.

Lemma drain_spec len x acc : acc = x mod 2 ^ 64 -> forall f bo out,
  bo <= 8 * N.of_nat f -> bo <= 56 ->
  be_val out = x / 2 ^ bo -> bytes_ok out ->
  8 * N.of_nat (length out) + bo <= 8 * N.of_nat len + 8 ->
  exists bo' out', drain f len acc bo out = Ok (bo', out')
    /\ bo' <= 8 /\ (1 <= bo -> 1 <= bo') /\ be_val out' = x / 2 ^ bo' /\ bytes_ok out'
    /\ 8 * N.of_nat (length out') + bo' = 8 * N.of_nat (length out) + bo.
Proof.
  intros Hacc. induction f as [|f IH]; intros bo out Hf H56 Hv Hok Hlen.
  - exists bo, out. cbn [drain]. destruct (N.ltb_spec 8 bo); [lia|].
    repeat split; auto; lia.
  - cbn [drain]. destruct (N.ltb_spec 8 bo) as [Hgt|Hle].
    2:{ exists bo, out. repeat split; auto; lia. }
    destruct (Nat.leb_spec len (length out)) as [Hbad|Hroom]; [lia|].
    set (b := N.land (N.shiftr acc (bo - 8)) 255).
    assert (Hb : b = (x / 2 ^ (bo - 8)) mod 256).
    { unfold b. change 255 with (N.ones 8). rewrite shiftr_land_ones. subst acc.
      change 256 with (2 ^ 8). apply extract_mod. lia. }
    destruct (IH (bo - 8) (out ++ [b])) as (bo' & out' & E & H1 & H2 & H3 & H4 & H5).
    + lia.
    + lia.
    + rewrite be_val_snoc, Hv, Hb. apply div_pow2_byte. lia.
    + apply bytes_ok_app. split; [exact Hok|]. constructor; [|constructor].
      rewrite Hb. apply N.mod_lt. discriminate.
    + rewrite app_length. cbn [length]. lia.
    + exists bo', out'. rewrite app_length in H5. cbn [length] in H5.
      repeat split; auto; lia.
Qed.

Lemma step_spec len x k st w i :
  Inv x k st -> search w = Some i ->
  11 * N.of_nat (S k) <= 8 * N.of_nat len + 8 ->
  exists st', step len st w = Ok st' /\ Inv (x * 2048 + i) (S k) st'.
Proof.
  destruct st as [[acc bo] out]. intros (Hbo & _ & Hacc & Hv & Hok & Hlen) Hs Hroom.
  apply search_sound in Hs as Hi. destruct Hi as [_ Hi].
  unfold step. rewrite Hs.
  set (acc' := (N.lor (N.shiftl acc 11) i) mod 2 ^ 64).
  assert (Hacc' : acc' = (x * 2048 + i) mod 2 ^ 64) by (apply step_acc; assumption).
  destruct (drain_spec len (x * 2048 + i) acc' Hacc' 3 (bo + 11) out)
    as (bo' & out' & E & H1 & H2 & H3 & H4 & H5).
  - change (N.of_nat 3) with 3. lia.
  - lia.
  - rewrite Hv. rewrite (N.add_comm bo 11), <- div_pow2_pow2. change (2 ^ 11) with 2048.
    rewrite N.div_add_l by discriminate. rewrite (N.div_small i 2048) by exact Hi.
    rewrite N.add_0_r. reflexivity.
  - exact Hok.
  - lia.
  - rewrite E. cbn [bind fst snd]. eexists. split; [reflexivity|].
    unfold Inv. repeat split; auto; lia.
Qed.

(** all the words looked up ([None] as soon as one is unknown) *)
Fixpoint lookup_all (ws : list text) : option (list N) :=
  match ws with
  | [] => Some []
  | w :: r =>
      match search w with
      | None => None
      | Some i => match lookup_all r with Some l => Some (i :: l) | None => None end
      end
  end.

Lemma lookup_all_length ws : forall l, lookup_all ws = Some l -> length l = length ws.
Proof.
  induction ws as [|w r IH]; cbn [lookup_all]; intros l H.
  - inversion H. reflexivity.
  - destruct (search w); [|discriminate]. destruct (lookup_all r) as [l'|]; [|discriminate].
    inversion H. cbn [length]. f_equal. apply IH. reflexivity.
Qed.

Lemma lookup_all_forall2 ws : forall l,
  lookup_all ws = Some l <-> Forall2 (fun w i => search w = Some i) ws l.
Proof.
  induction ws as [|w r IH]; cbn [lookup_all]; intros l; split; intros H.
  - inversion H. constructor.
  - inversion H. reflexivity.
  - destruct (search w) as [i|] eqn:E; [|discriminate].
    destruct (lookup_all r) as [l'|] eqn:E'; [|discriminate]. inversion H; subst.
    constructor; [exact E|]. apply IH. reflexivity.
  - inversion H as [|? i ? l' Hw Hr]; subst. rewrite Hw.
    apply IH in Hr. rewrite Hr. reflexivity.
Qed.

Lemma lookup_all_none ws : lookup_all ws = None <-> exists w, In w ws /\ search w = None.
Proof.
  induction ws as [|w r IH]; cbn [lookup_all].
  - split; [discriminate|]. intros (w & [] & _).
  - destruct (search w) as [i|] eqn:E.
    + destruct (lookup_all r) as [l'|].
      * split; [discriminate|]. intros (w' & [->|Hin] & Hn); [congruence|].
        destruct IH as [_ IH]. assert (Hx : Some l' = None) by (apply IH; eauto). discriminate Hx.
      * split; [|reflexivity]. intros _. destruct IH as [IH _].
        destruct (IH eq_refl) as (w' & Hin & Hn). exists w'. split; [right; exact Hin|exact Hn].
    + split; [|reflexivity]. intros _. exists w. split; [left; reflexivity|exact E].
Qed.

Lemma lookup_all_ok ws l : lookup_all ws = Some l -> digits_ok 2048 l /\ map word l = ws.
Proof.
  intros H. apply lookup_all_forall2 in H. induction H as [|w i ws l Hw _ [IH1 IH2]].
  - split; constructor.
  - apply search_sound in Hw as [Hw Hi]. split; [constructor; assumption|].
    cbn [map]. rewrite Hw, IH2. reflexivity.
Qed.

Lemma lookup_all_words l : digits_ok 2048 l -> lookup_all (map word l) = Some l.
Proof.
  induction 1 as [|i l Hi _ IH]; [reflexivity|].
  cbn [map lookup_all]. rewrite search_word by exact Hi. rewrite IH. reflexivity.
Qed.

(** The loop over the whole phrase: an ordinary error at the first unknown word, otherwise the
    invariant for the number spelled by the indices.  No write is out of bounds as long as
    [11 * words <= 8 * len + 8]. *)
Lemma unpack_loop_spec len ws : forall x k st,
  Inv x k st ->
  11 * N.of_nat (k + length ws) <= 8 * N.of_nat len + 8 ->
  match lookup_all ws with
  | None => unpack_loop len ws st = Err
  | Some l => exists st', unpack_loop len ws st = Ok st'
                /\ Inv (fold_left (fun a d => a * 2048 + d) l x) (k + length ws) st'
  end.
Proof.
  induction ws as [|w r IH]; intros x k st HI Hroom.
  - cbn [lookup_all unpack_loop fold_left length]. exists st. rewrite Nat.add_0_r. split; [reflexivity|exact HI].
  - cbn [lookup_all unpack_loop]. cbn [length] in Hroom.
    destruct (search w) as [i|] eqn:E.
    2:{ destruct st as [[acc bo] out]. unfold step. rewrite E. reflexivity. }
    destruct (step_spec len x k st w i HI E) as (st1 & E1 & HI1); [lia|].
    rewrite E1. cbn [bind].
    specialize (IH (x * 2048 + i) (S k) st1 HI1).
    replace (S k + length r)%nat with (k + S (length r))%nat in IH by lia.
    specialize (IH Hroom).
    destruct (lookup_all r) as [l|].
    + destruct IH as (st' & E' & HI'). exists st'. cbn [fold_left length]. split; assumption.
    + exact IH.
Qed.

Lemma Inv_init : Inv 0 0 (0, 0, []).
Proof.
  unfold Inv. repeat split; try reflexivity; try lia. constructor.
Qed.

Corollary unpack_loop_top len ws :
  11 * N.of_nat (length ws) <= 8 * N.of_nat len + 8 ->
  match lookup_all ws with
  | None => unpack_loop len ws (0, 0, []) = Err
  | Some l => exists st', unpack_loop len ws (0, 0, []) = Ok st'
                /\ Inv (of_digits 2048 l) (length ws) st'
  end.
Proof.
  intros H. exact (unpack_loop_spec len ws 0 0%nat (0, 0, []) Inv_init H).
Qed.
