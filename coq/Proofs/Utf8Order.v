(** UTF-8 preserves order: for Unicode scalar values the lexicographic order on code point
    sequences ([text_lt], the model's key order) is the lexicographic order of the UTF-8 bytes
    ([Ord for str], the key order of Rust's [BTreeMap<&str, _>]).  Used by C08 (type half). *)
From Coq Require Import String.
From Coq Require Import List NArith Bool Lia.
From HDW Require Import Lib.Bytes Model.Eip712Types Spec.Eip712TypeSpec Proofs.Eip712TypeProofs.
Import ListNotations.
Open Scope N_scope.


(** ** [text_lt] on any [list N] is the first-difference order *)

Lemma text_lt_app_prefix p : forall a b, text_lt a b -> text_lt (p ++ a) (p ++ b).
Proof. induction p as [|x p IH]; intros a b H; [assumption|]. cbn [app]. apply text_lt_tail. auto. Qed.

Lemma text_lt_first_diff a b : text_lt a b <-> bytes_lt a b.
Proof.
  split.
  - induction 1 as [y b|x y a b Hxy|x a b Hab IH].
    + left. exists y, b. reflexivity.
    + right. exists [], x, y, a, b. auto.
    + destruct IH as [(y & r & ->)|(p & x' & y' & a' & b' & -> & -> & Hlt)].
      * left. exists y, r. reflexivity.
      * right. exists (x :: p), x', y', a', b'. auto.
  - intros [(y & r & ->)|(p & x & y & a' & b' & -> & -> & Hlt)].
    + rewrite <- (app_nil_r a) at 1. apply text_lt_app_prefix. constructor.
    + apply text_lt_app_prefix. apply text_lt_head. assumption.
Qed.

(** ** one character *)

Lemma utf8_cons c r : utf8 (c :: r) = utf8_char c ++ utf8 r.
Proof. reflexivity. Qed.

Lemma utf8_char_lt c d ra rb :
  c < d -> d < 0x110000 -> text_ltb (utf8_char c ++ ra) (utf8_char d ++ rb) = true.
Proof.
  intros Hcd Hd. unfold utf8_char.
  destruct (N.ltb_spec c 128); destruct (N.ltb_spec d 128); try lia;
  destruct (N.ltb_spec c 2048); destruct (N.ltb_spec d 2048); try lia;
  destruct (N.ltb_spec c 65536); destruct (N.ltb_spec d 65536); try lia;
  cbn [app text_ltb];
  repeat match goal with
         | |- context [N.ltb ?x ?y] => destruct (N.ltb_spec x y)
         | |- context [N.eqb ?x ?y] => destruct (N.eqb_spec x y)
         end; try reflexivity; exfalso; lia.
Qed.

Lemma utf8_char_nonempty c : exists x r, utf8_char c = x :: r.
Proof.
  unfold utf8_char. destruct (c <? 128); [eauto|]. destruct (c <? 2048); [eauto|].
  destruct (c <? 65536); eauto.
Qed.

(** ** texts *)

Definition scalar (c : N) : Prop := c < 0x110000.

Lemma utf8_lt a b :
  Forall scalar b -> text_lt a b -> text_lt (utf8 a) (utf8 b).
Proof.
  intros Hb H. revert Hb. induction H as [y b|x y a b Hxy|x a b Hab IH]; intros Hb.
  - rewrite utf8_cons. destruct (utf8_char_nonempty y) as (x & r & ->). constructor.
  - rewrite !utf8_cons. apply text_ltb_spec. apply utf8_char_lt; [assumption|].
    inversion Hb; assumption.
  - rewrite !utf8_cons. apply text_lt_app_prefix. apply IH. inversion Hb; assumption.
Qed.

Lemma text_lt_utf8 a b :
  Forall (fun c => c < 0x110000) a -> Forall (fun c => c < 0x110000) b ->
  (text_lt a b <-> bytes_lt (utf8 a) (utf8 b)).
Proof.
  intros Ha Hb. rewrite <- text_lt_first_diff. split; [apply utf8_lt; assumption|].
  intros H. destruct (text_lt_trichotomy a b) as [Hlt|[->|Hgt]]; [assumption| |].
  - destruct (text_lt_irrefl _ H).
  - apply utf8_lt in Hgt; [|assumption].
    destruct (text_lt_irrefl _ (text_lt_trans _ _ _ H Hgt)).
Qed.
