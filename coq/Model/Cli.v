(** Model of the command-line front end: account selection (src/cmd.rs) and the subcommands
    address / export / public-key / sign / hash (src/cmd/*.rs), composed from the models of the
    library.  Definitions only.  The input is the option record AFTER clap (clap's own parsing —
    flag vs environment, conflicts_with — is not modelled); results are stdout without the final
    newline, [Err] = non-zero exit with a message and nothing on stdout.

    All cryptographic primitives are Section variables. *)
From Coq Require Import String.
From Coq Require Import List NArith ZArith Bool.
From HDW Require Import Lib.Outcome Lib.Bytes Lib.Hex Model.Json.
From HDW Require Import Model.Bip39 Model.Seed Model.Path Model.Bip32 Model.Account Model.SigText Model.Message Model.Tx.
Import ListNotations.
Open Scope outcome_scope.

(** [--account-index i] (default 0) or [--hd-path p]; clap refuses both together. *)
Inductive selector := SelDefault | SelIndex (i : N) | SelPath (p : text).

Record account_opts := { o_mnemonic : text; o_password : text; o_sel : selector }.

(**
<<
    let path = match &self.hd_path {
        None => hdk::Path::for_index(self.account_index)?,
        Some(hd_path) => hd_path.parse()?,
    };
>> *)
Definition account_path (s : selector) : outcome path :=
  match s with
  | SelDefault => for_index 0
  | SelIndex i => for_index i
  | SelPath p => parse_path p
  end.

Section WithPrims.
Variable sha256 : bytes -> bytes.
Variable pbkdf2 : bytes -> bytes -> N -> nat -> bytes.
Variable nfkd : text -> text.
Variable hmac512 : bytes -> bytes -> bytes.
Variable pub_compressed : N -> bytes.
Variable pubkey65 : N -> bytes.
Variable keccak : bytes -> bytes.
(** [PrivateKey::sign(digest)] of the key [k] *)
Variable sign : N -> bytes -> outcome sig.
(** [serde_json::from_slice::<TypedData>]: digest, domain separator, message hash *)
Variable typed_data : json -> outcome (bytes * bytes * bytes).

(** [AccountOptions::private_key]: the mnemonic has been parsed by clap ([Mnemonic: FromStr]);
<<
    let seed = self.mnemonic.seed(&self.password);
    let path = ..;
    hdk::derive(seed, &path)
>> *)
Definition private_key (o : account_opts) : outcome N :=
  let* m := from_phrase sha256 (o_mnemonic o) in
  let* sd := seed pbkdf2 nfkd m (o_password o) in
  let* p := account_path (o_sel o) in
  derive hmac512 pub_compressed sd p.

Definition hex0x (b : bytes) : text := s2l "0x" ++ hex_encode b.

(** [println!("{}", options.account.private_key()?.address())] *)
Definition cmd_address (o : account_opts) : outcome text :=
  let* k := private_key o in
  let* a := address keccak pubkey65 k in
  Ok (eip55 keccak a).

(** [println!("0x{}", hex::encode(key.secret()))] *)
Definition cmd_export (o : account_opts) : outcome text :=
  let* k := private_key o in Ok (hex0x (secret k)).

(** [println!("0x{}", hex::encode(..public().encode_uncompressed()))] *)
Definition cmd_public_key (o : account_opts) : outcome text :=
  let* k := private_key o in Ok (hex0x (public pubkey65 k)).

(** the account's signature over a digest, printed ([println!("{}", account.sign(digest))]) *)
Definition sign_and_print (o : account_opts) (d : outcome bytes) : outcome text :=
  let* k := private_key o in
  let* dg := d in
  let* σ := sign k dg in
  Ok (print_sig σ).

Definition cmd_hash_message (m : bytes) : outcome text := Ok (hex0x (digest keccak m)).
Definition cmd_sign_message (o : account_opts) (m : bytes) : outcome text := sign_and_print o (Ok (digest keccak m)).

Definition cmd_hash_data (x : bytes) : outcome text := Ok (hex0x (keccak x)).

(** [sign raw BYTES]: the 32-byte digest is signed as it is *)
Definition cmd_sign_raw (o : account_opts) (d : bytes) : outcome text := sign_and_print o (Ok d).

Definition cmd_hash_typeddata (message_hash : bool) (j : json) : outcome text :=
  let* r := typed_data j in
  let '(d, ds, mh) := r in
  Ok (hex0x (if message_hash then mh else d)).
Definition cmd_sign_typeddata (o : account_opts) (j : json) : outcome text :=
  sign_and_print o (let* r := typed_data j in let '(d, _, _) := r in Ok d).

(** [sign transaction]: the account is loaded first, then [Model/Tx.sign_tx_cmd] with that key's signer *)
Definition cmd_sign_transaction (o : account_opts) (allow sigonly : bool) (j : json) : outcome text :=
  let* k := private_key o in
  sign_tx_cmd keccak (sign k) allow sigonly j.
Definition cmd_hash_transaction (j : json) (signature : option sig) : outcome text :=
  hash_tx_cmd keccak j signature.

End WithPrims.
