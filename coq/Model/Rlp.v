(** C07 — code-shaped model of [/repo/src/transaction/rlp.rs] ([len], [bytes], [uint], [list], [iter]).
    Definitions only.  [usize] is 64 bits; the [u8] additions of [len] are overflow-checked in the
    debug build, hence an explicit [Panic] branch guarded by exactly the run-time condition. *)
From Coq Require Import List NArith.
From HDW Require Import Lib.Outcome Lib.Radix Lib.Bytes.
Import ListNotations.
Open Scope N_scope.
Open Scope outcome_scope.

(** overflow-checked [u8 + u8] (debug build: "attempt to add with overflow") *)
Definition u8_add (a b : N) : outcome N :=
  if a + b <? 256 then Ok (a + b) else Panic.

(** [x.leading_zeros()] of a [w]-bit unsigned value: [w] minus the bit length. *)
Definition leading_zeros (w n : N) : N := w - N.size n.

(**
<<
pub fn len(len: usize, offset: u8) -> Vec<u8> {
    if len < 56 {
        vec![len as u8 + offset]
    } else {
        let bl_buf = len.to_be_bytes();
        let bl = {
            let start = len.leading_zeros() / 8;
            &bl_buf[start as usize..]
        };
        let mut buf = vec![bl.len() as u8 + offset + 55];
        buf.extend_from_slice(bl);
        buf
    }
}
>>
    Domain: [n < 2^64] (a [usize]), [off < 256].  [len as u8] does not truncate ([len < 56]);
    [bl.len() as u8] does not truncate ([bl.len() <= 8]); [start <= 8] so the slice never panics.
    [a + b + c] is [(a + b) + c]: two checked additions. *)
Definition rlp_len (n off : N) : outcome bytes :=
  if n <? 56 then
    let* h := u8_add n off in
    Ok [h]
  else
    let bl_buf := be_fixed 8 n in
    let start := leading_zeros 64 n / 8 in
    let bl := skipn (N.to_nat start) bl_buf in
    let* h1 := u8_add (N.of_nat (length bl)) off in
    let* h2 := u8_add h1 55 in
    Ok (h2 :: bl).

(**
<<
pub fn bytes(bytes: &[u8]) -> Vec<u8> {
    match bytes {
        [x] if *x < 0x80 => vec![*x],
        _ => {
            let mut buf = len(bytes.len(), 0x80);
            buf.extend_from_slice(bytes);
            buf
        }
    }
}
>> *)
Definition rlp_bytes_hdr (b : bytes) : outcome bytes :=
  let* buf := rlp_len (N.of_nat (length b)) 0x80 in
  Ok (buf ++ b).

Definition rlp_bytes (b : bytes) : outcome bytes :=
  match b with
  | [x] => if x <? 0x80 then Ok [x] else rlp_bytes_hdr b
  | _ => rlp_bytes_hdr b
  end.

(**
<<
pub fn uint(value: U256) -> Vec<u8> {
    let start = value.leading_zeros() / 8;
    bytes(&value.to_be_bytes()[start as usize..])
}
>>
    Domain: [v < 2^256].  [start <= 32], so the slice never panics; zero gives the empty slice. *)
Definition rlp_uint (v : N) : outcome bytes :=
  let start := leading_zeros 256 v / 8 in
  rlp_bytes (skipn (N.to_nat start) (be_fixed 32 v)).

(**
<<
pub fn list(items: &[&[u8]]) -> Vec<u8> {
    let total_len = items.iter().map(|item| item.len()).sum();
    let mut buf = len(total_len, 0xc0);
    for item in items {
        buf.extend_from_slice(item);
    }
    buf
}
>>
    [sum()] over [usize] is overflow-checked in the debug build; since all summands are
    non-negative some partial sum overflows iff the total is [>= 2^64] (unreachable for slices
    that exist in memory, kept for faithfulness). *)
Definition rlp_total_len (items : list bytes) : N :=
  fold_left (fun a item => a + N.of_nat (length item)) items 0.

Definition rlp_list (items : list bytes) : outcome bytes :=
  let total_len := rlp_total_len items in
  if total_len <? 2 ^ 64 then
    let* buf := rlp_len total_len 0xc0 in
    Ok (buf ++ concat items)          (* the [extend_from_slice] loop *)
  else Panic.

(**
<<
pub fn iter<U, I>(items: I) -> Vec<u8> ... {
    let collected = items.into_iter().collect::<Vec<_>>();
    let items = collected.iter().map(U::as_ref).collect::<Vec<_>>();
    list(&items)
}
>> *)
Definition rlp_iter (items : list bytes) : outcome bytes := rlp_list items.
